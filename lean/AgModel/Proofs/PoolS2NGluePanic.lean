import AgModel.Proofs.PoolS2NGlueEvents
/-! Pool-level glue for C06, part 6: **every `.panic` event of a run comes from the finality tracker, the parent-ready
    tracker, the signer bound of `add_vote` or the slot-order assertion of `add_block`** — never from the
    `parent not known` panic of `notify_parent_certified`. `trackerEvents` lists, per operation, the events produced at
    those other sites only (everything `notify_waiting_children`, `SlotState::add_vote` and `add_block`'s own
    `notify_parent_certified` emit is left out); it is a sub-list of the real events (`trackerRun_sub`) that contains
    every panic (`poolRun_panic_source`). -/
namespace AgModel.Pool

/-! ### the slot-level `add_vote` emits no panic event -/

theorem s2nOut_no_panic (s h : Nat) (r : S2N) : Event.panic ∉ s2nOut s h r := by
  cases r <;> simp [s2nOut]

theorem recheckPending_no_panic (e : Epoch) (hs : List Nat) (st : SlotState) (acc : List Event) (h : Event.panic ∉ acc) :
    Event.panic ∉ (SlotState.recheckPending e st hs acc).2 := by
  induction hs generalizing st acc with
  | nil => exact h
  | cons x xs ih =>
    unfold SlotState.recheckPending
    split
    · exact ih st acc h
    · apply ih
      intro hm
      rcases List.mem_append.mp hm with hm | hm
      · exact h hm
      · exact s2nOut_no_panic _ _ _ hm

theorem s2sCheck_no_panic (e : Epoch) (st : SlotState) : Event.panic ∉ (st.s2sCheck e).2 := by
  unfold SlotState.s2sCheck; split <;> simp

theorem addVote_no_panic (e : Epoch) (st : SlotState) (v : Vote) : Event.panic ∉ (st.addVote e v).2.2 := by
  rw [addVote_eq]
  have hc : Event.panic ∉ (countOf e st v).2.2 := by
    cases hk : v.kind with
    | notar =>
      have t := countNotar_tail e { st with vNotar := st.vNotar ++ [(v.signer, v.hash)] } v.hash (e.stake v.signer)
      have t1 : (countOf e st v).2.2 = (notarTail e (notarB e st v) v.hash).2 := by
        unfold countOf; simp only [hk]; exact congrArg Prod.snd t
      rw [t1]; unfold notarTail
      split
      · intro hm
        rcases List.mem_append.mp hm with hm | hm
        · exact s2nOut_no_panic _ _ _ hm
        · exact s2sCheck_no_panic e _ hm
      · intro hm
        rcases List.mem_append.mp hm with hm | hm
        · cases hm
        · exact s2sCheck_no_panic e _ hm
    | skip =>
      have t := countSkip_tail e { st with vSkip := st.vSkip ++ [v.signer], sNotarOrSkip := st.sNotarOrSkip + e.stake v.signer } (e.stake v.signer) false
      have t1 : (countOf e st v).2.2 = (skipTail e (skipB e st v)).2 := by
        unfold countOf; simp only [hk]; exact congrArg Prod.snd t
      rw [t1]; unfold skipTail
      intro hm
      rcases List.mem_append.mp hm with hm | hm
      · exact recheckPending_no_panic e _ _ [] (by simp) hm
      · exact s2sCheck_no_panic e _ hm
    | sf =>
      have t := countSkip_tail e { st with vSf := st.vSf ++ [v.signer] } (e.stake v.signer) true
      have t1 : (countOf e st v).2.2 = (skipTail e { st with vSf := st.vSf ++ [v.signer], sSf := st.sSf + e.stake v.signer }).2 := by
        unfold countOf; simp only [hk]; exact congrArg Prod.snd t
      rw [t1]; unfold skipTail
      intro hm
      rcases List.mem_append.mp hm with hm | hm
      · exact recheckPending_no_panic e _ _ [] (by simp) hm
      · exact s2sCheck_no_panic e _ hm
    | nf =>
      have t2 : (countOf e st v).2.2 = [] := by unfold countOf; simp only [hk]; rfl
      rw [t2]; simp
    | final =>
      have t2 : (countOf e st v).2.2 = [] := by unfold countOf; simp only [hk]; rfl
      rw [t2]; simp
  unfold ownWrap
  split
  · intro hm
    rcases List.mem_append.mp hm with hm | hm
    · exact hc hm
    · exact recheckPending_no_panic e _ _ [] (by simp) hm
  · exact hc

/-! ### the events of the other panic sites, per operation -/

/-- the events `add_valid_cert(c)` gets from `handle_finalization` and from the parent-ready tracker -/
def Pool.certTrackerEvents (p : Pool) (c : Cert) : List Event :=
  match c.kind with
  | .notar =>
    ((p.stored c).handleFin (Finality.markNotarized (p.stored c).fin (c.slot, c.hash))).2 ++
    ((((p.stored c).handleFin (Finality.markNotarized (p.stored c).fin (c.slot, c.hash))).1.notifyWaiting (c.slot, c.hash)).1.applyPr
      (ParentReady.markNotarFallback
        (((p.stored c).handleFin (Finality.markNotarized (p.stored c).fin (c.slot, c.hash))).1.notifyWaiting (c.slot, c.hash)).1.pr
        (c.slot, c.hash))).2
  | .nf =>
    (((p.stored c).notifyWaiting (c.slot, c.hash)).1.applyPr
      (ParentReady.markNotarFallback ((p.stored c).notifyWaiting (c.slot, c.hash)).1.pr (c.slot, c.hash))).2
  | .skip => ((p.stored c).applyPr (ParentReady.markSkipped (p.stored c).pr c.slot)).2
  | .ff => ((p.stored c).handleFin (Finality.markFastFinalized (p.stored c).fin (c.slot, c.hash))).2
  | .final => ((p.stored c).handleFin (Finality.markFinalized (p.stored c).fin c.slot)).2

def Pool.certsTrackerEvents (p : Pool) : List Cert → List Event
  | [] => []
  | c :: cs => p.certTrackerEvents c ++ Pool.certsTrackerEvents (p.addValidCert c).1 cs

/-- the events of one pool operation that come from the trackers, the signer bound or `add_block`'s slot-order assertion -/
def trackerEvents (p : Pool) : PoolOp → List Event
  | .vote v =>
    match (p.addVote v).2.1 with
    | .ok => Pool.certsTrackerEvents ((p.slotState v.slot).1.putSlot ((p.slotState v.slot).2.addVote p.epoch v).1)
               ((p.slotState v.slot).2.addVote p.epoch v).2.1
    | .panic => [.panic]
    | _ => []
  | .cert c =>
    match (p.addCert c).2.1 with
    | .ok => (p.slotState c.slot).1.certTrackerEvents c
    | _ => []
  | .block b par =>
    if ¬ (b.1 > par.1) then [.panic]
    else match Finality.addParent p.fin b par with
      | .panic => [.panic]
      | .ok t ev => (({ p with fin := t } : Pool).applyPr (ParentReady.handleFinalization p.pr ev)).2

def trackerRun (p : Pool) : List PoolOp → List Event
  | [] => []
  | op :: ops => trackerEvents p op ++ trackerRun (poolStep p op).1 ops

/-! ### `add_valid_cert` -/

theorem addValidCert_panic_source (R : List Reg) (p : Pool) (c : Cert) (h : FlagInv R p)
    (hp : Event.panic ∈ (p.addValidCert c).2) : Event.panic ∈ p.certTrackerEvents c := by
  have hmid := h.stored c
  have hwake : ∀ q, FlagMid R c q → (c.kind = .notar ∨ c.kind = .nf ∨ c.kind = .ff) →
      Event.panic ∉ (q.notifyWaiting (c.slot, c.hash)).2 := fun q hq hs => (hq.wake hs).2
  have hfin : ∀ op, FlagMid R c ((p.stored c).handleFin (Finality.step (p.stored c).fin op)).1 := by
    intro op
    rcases handleFin_cases (p.stored c) op with h1 | ⟨t, r, hm, h1⟩
    · rw [h1]; exact hmid
    · rw [h1]; exact hmid.advance t r hm
  unfold Pool.certTrackerEvents
  unfold Pool.addValidCert at hp
  dsimp only at hp
  unfold Pool.stored at hmid hfin ⊢
  generalize ((p.slotState c.slot).1.putSlot ((p.slotState c.slot).2.addCert c)) = p1 at hmid hfin hp ⊢
  cases hk : c.kind <;> simp only [hk] at hp ⊢
  · simp only [show (CertKind.notar == CertKind.notar) = true from rfl, if_true] at hp
    simp only [List.mem_append, List.mem_singleton, reduceCtorEq, or_false] at hp ⊢
    rcases hp with (hp | hp) | hp
    · exact Or.inl hp
    · exact absurd hp (hwake _ (hfin (.notar (c.slot, c.hash))) (Or.inl hk))
    · exact Or.inr hp
  · simp only [show (CertKind.nf == CertKind.notar) = false from rfl, Bool.false_eq_true, if_false] at hp
    simp only [List.mem_append, List.mem_singleton, reduceCtorEq, or_false, List.not_mem_nil, false_or] at hp ⊢
    rcases hp with hp | hp
    · exact absurd hp (hwake _ hmid (Or.inr (Or.inl hk)))
    · exact hp
  · simp only [List.mem_append, List.mem_singleton, reduceCtorEq, or_false] at hp
    exact hp
  · simp only [List.mem_append, List.mem_singleton, reduceCtorEq, or_false] at hp
    rcases hp with hp | hp
    · exact hp
    · exact absurd hp (hwake _ (hfin (.fastFinal (c.slot, c.hash))) (Or.inr (Or.inr hk)))
  · simp only [List.mem_append, List.mem_singleton, reduceCtorEq, or_false] at hp
    exact hp

theorem certTrackerEvents_sub (p : Pool) (c : Cert) : ∀ ev ∈ p.certTrackerEvents c, ev ∈ (p.addValidCert c).2 := by
  intro ev hev
  unfold Pool.certTrackerEvents Pool.stored at hev
  unfold Pool.addValidCert
  dsimp only
  generalize ((p.slotState c.slot).1.putSlot ((p.slotState c.slot).2.addCert c)) = p1 at hev ⊢
  cases hk : c.kind <;> simp only [hk] at hev ⊢
  · simp only [show (CertKind.notar == CertKind.notar) = true from rfl, if_true]
    simp only [List.mem_append] at hev ⊢
    rcases hev with hev | hev
    · exact Or.inl (Or.inl (Or.inl (Or.inl hev)))
    · exact Or.inl (Or.inl (Or.inr hev))
  · simp only [show (CertKind.nf == CertKind.notar) = false from rfl, Bool.false_eq_true, if_false]
    simp only [List.mem_append]
    exact Or.inl (Or.inl (Or.inr hev))
  · exact List.mem_append_left _ hev
  · simp only [List.mem_append]
    exact Or.inl (Or.inl hev)
  · exact List.mem_append_left _ hev

theorem addValidCerts_cons (p : Pool) (c : Cert) (cs : List Cert) (acc : List Event) :
    p.addValidCerts (c :: cs) acc = (p.addValidCert c).1.addValidCerts cs (acc ++ (p.addValidCert c).2) := by
  rw [Pool.addValidCerts]

theorem addValidCerts_out (cs : List Cert) (p : Pool) (acc : List Event) :
    ∃ new, (p.addValidCerts cs acc).2 = acc ++ new ∧
      (∀ R, FlagInv R p → Event.panic ∈ new → Event.panic ∈ p.certsTrackerEvents cs) ∧
      (∀ ev ∈ p.certsTrackerEvents cs, ev ∈ new) := by
  induction cs generalizing p acc with
  | nil =>
    refine ⟨[], by simp [Pool.addValidCerts], ?_, ?_⟩
    · intro _ _ h; cases h
    · intro ev h; simp [Pool.certsTrackerEvents] at h
  | cons c cs ih =>
    obtain ⟨new, h1, h2, h3⟩ := ih (p.addValidCert c).1 (acc ++ (p.addValidCert c).2)
    refine ⟨(p.addValidCert c).2 ++ new, by rw [addValidCerts_cons, h1, List.append_assoc], ?_, ?_⟩
    · intro R hR hp
      simp only [Pool.certsTrackerEvents, List.mem_append]
      rcases List.mem_append.mp hp with hp | hp
      · exact Or.inl (addValidCert_panic_source R p c hR hp)
      · exact Or.inr (h2 R (addValidCert_flag R c p hR) hp)
    · intro ev hev
      simp only [Pool.certsTrackerEvents, List.mem_append] at hev
      rcases hev with hev | hev
      · exact List.mem_append_left _ (certTrackerEvents_sub p c ev hev)
      · exact List.mem_append_right _ (h3 ev hev)

/-! ### the outputs of the three operations -/

theorem addVote_out (p : Pool) (v : Vote) :
    ((p.addVote v).2.1 ≠ .ok ∧ (p.addVote v).2.1 ≠ .panic ∧ (p.addVote v).2.2 = []) ∨
    ((p.addVote v).2.1 = .panic ∧ (p.addVote v).2.2 = [.panic]) ∨
    ((p.addVote v).2.1 = .ok ∧
      (p.addVote v).2.2 = (((p.slotState v.slot).1.putSlot ((p.slotState v.slot).2.addVote p.epoch v).1).addValidCerts
        ((p.slotState v.slot).2.addVote p.epoch v).2.1 []).2 ++ ((p.slotState v.slot).2.addVote p.epoch v).2.2) := by
  unfold Pool.addVote
  split
  · exact Or.inl ⟨by simp, by simp, rfl⟩
  split
  · exact Or.inr (Or.inl ⟨rfl, rfl⟩)
  dsimp only
  split
  · exact Or.inl ⟨by simp, by simp, rfl⟩
  · split
    · exact Or.inl ⟨by simp, by simp, rfl⟩
    · have hep : (p.slotState v.slot).1.epoch = p.epoch := (slotState_frame p v.slot).1
      rw [hep]
      exact Or.inr (Or.inr ⟨rfl, rfl⟩)

theorem addCert_out (p : Pool) (c : Cert) :
    ((p.addCert c).2.1 ≠ .ok ∧ (p.addCert c).2.2 = []) ∨
    ((p.addCert c).2.1 = .ok ∧ (p.addCert c).2.2 = ((p.slotState c.slot).1.addValidCert c).2) := by
  unfold Pool.addCert
  split
  · exact Or.inl ⟨by simp, rfl⟩
  dsimp only
  split <;> split
  all_goals first
    | exact Or.inl ⟨by simp, rfl⟩
    | exact Or.inr ⟨rfl, rfl⟩

theorem applyPr_events_eq (p q : Pool) (r : ParentReady.Res) : (p.applyPr r).2 = (q.applyPr r).2 := by
  unfold Pool.applyPr; split <;> rfl

/-- the events of `add_block`: the tracker events `e0`, then whatever the tail adds for the block that is now known -/
theorem addBlock_out (p : Pool) (b par : Nat × Nat) :
    (p.addBlock b par).2 = trackerEvents p (.block b par) ∨
    ∃ (q : Pool) (cert : Bool), (p.addBlock b par).2 = (Pool.addBlockTail (q.known b) b par (trackerEvents p (.block b par)) cert).2 := by
  simp only [trackerEvents]
  unfold Pool.addBlock
  by_cases hgt : b.1 > par.1
  · simp only [hgt, not_true_eq_false, if_false]
    cases hst : Finality.addParent p.fin b par with
    | panic => exact Or.inl rfl
    | ok t ev =>
      dsimp only
      split
      · exact Or.inl rfl
      · exact Or.inr ⟨(({ p with fin := t } : Pool).applyPr (ParentReady.handleFinalization p.pr ev)).1.prune, _, rfl⟩
  · simp only [hgt, not_false_eq_true, if_true, true_or]

/-! ### every operation, every run -/

theorem poolStep_panic_source (R : List Reg) (p : Pool) (op : PoolOp) (h : FlagInv R p)
    (hp : Event.panic ∈ (poolStep p op).2) : Event.panic ∈ trackerEvents p op := by
  cases op with
  | vote v =>
    simp only [poolStep] at hp
    simp only [trackerEvents]
    rcases addVote_out p v with ⟨_, _, h3⟩ | ⟨h1, _⟩ | ⟨h1, h2⟩
    · rw [h3] at hp; cases hp
    · rw [h1]; simp
    · rw [h1]; dsimp only
      rw [h2] at hp
      obtain ⟨new, e1, e2, _⟩ := addValidCerts_out ((p.slotState v.slot).2.addVote p.epoch v).2.1
        ((p.slotState v.slot).1.putSlot ((p.slotState v.slot).2.addVote p.epoch v).1) []
      rw [e1, List.nil_append] at hp
      rcases List.mem_append.mp hp with hp | hp
      · -- the pool right after the vote was stored satisfies the invariant
        have hmod : FlagInv R ((p.slotState v.slot).1.putSlot ((p.slotState v.slot).2.addVote p.epoch v).1) := by
          have hfr := mod_frame p v.slot ((p.slotState v.slot).2.addVote p.epoch v).1
          refine ⟨h.1.of_waiting hfr.2.2, fun r hr => ?_⟩
          apply (h.2 r hr).mod ((addVote_slot _ _ v).trans (slotState_snd_slot p v.slot))
          · intro y f hy; left; rw [addVote_parents]; exact hy
          · intro y hy; left; rw [addVote_isNfOrStronger] at hy; exact hy
          · intro k hk; exact Or.inl hk
        exact e2 R hmod hp
      · exact absurd hp (addVote_no_panic _ _ v)
  | cert c =>
    simp only [poolStep] at hp
    simp only [trackerEvents]
    rcases addCert_out p c with ⟨_, h2⟩ | ⟨h1, h2⟩
    · rw [h2] at hp; cases hp
    · rw [h1]; dsimp only
      rw [h2] at hp
      exact addValidCert_panic_source R _ c (h.slotState _) hp
  | block b par =>
    simp only [poolStep] at hp
    rcases addBlock_out p b par with h1 | ⟨q, cert, h1⟩
    · rw [h1] at hp; exact hp
    · rw [h1] at hp
      by_cases h0 : Event.panic ∈ trackerEvents p (.block b par)
      · exact h0
      · exact absurd hp (addBlockTail_no_panic _ b par _ cert (known_known q b) h0)

/-- the tracker events of an operation are among its events -/
theorem trackerEvents_sub (p : Pool) (op : PoolOp) : ∀ ev ∈ trackerEvents p op, ev ∈ (poolStep p op).2 := by
  intro ev hev
  cases op with
  | vote v =>
    simp only [poolStep]
    simp only [trackerEvents] at hev
    rcases addVote_out p v with ⟨h1, h2, _⟩ | ⟨h1, h2⟩ | ⟨h1, h2⟩
    · exfalso
      cases hv : (p.addVote v).2.1 <;> rw [hv] at hev h1 h2 <;> simp at hev h1 h2
    · rw [h1] at hev; rw [h2]; exact hev
    · rw [h1] at hev; dsimp only at hev
      rw [h2]
      obtain ⟨new, e1, _, e3⟩ := addValidCerts_out ((p.slotState v.slot).2.addVote p.epoch v).2.1
        ((p.slotState v.slot).1.putSlot ((p.slotState v.slot).2.addVote p.epoch v).1) []
      rw [e1, List.nil_append]
      exact List.mem_append_left _ (e3 ev hev)
  | cert c =>
    simp only [poolStep]
    simp only [trackerEvents] at hev
    rcases addCert_out p c with ⟨h1, _⟩ | ⟨h1, h2⟩
    · exfalso
      cases hv : (p.addCert c).2.1 <;> rw [hv] at hev h1 <;> simp at hev h1
    · rw [h1] at hev; dsimp only at hev
      rw [h2]; exact certTrackerEvents_sub _ c ev hev
  | block b par =>
    simp only [poolStep]
    rcases addBlock_out p b par with h1 | ⟨q, cert, h1⟩
    · rw [h1]; exact hev
    · rw [h1]
      generalize trackerEvents p (.block b par) = e0 at hev
      unfold Pool.addBlockTail
      split
      · split
        · exact List.mem_append_left _ hev
        · split
          · exact hev
          · exact List.mem_append_left _ hev
      · exact hev

theorem poolRun_panic_source (ops : List PoolOp) (R : List Reg) (p : Pool) (h : FlagInv R p)
    (hp : Event.panic ∈ (poolRun p ops).2) : Event.panic ∈ trackerRun p ops := by
  induction ops generalizing R p with
  | nil => simp [poolRun] at hp
  | cons op ops ih =>
    simp only [poolRun] at hp
    simp only [trackerRun, List.mem_append]
    rcases List.mem_append.mp hp with hp | hp
    · exact Or.inl (poolStep_panic_source R p op h hp)
    · exact Or.inr (ih _ _ (poolStep_flag R p op h) hp)

theorem trackerRun_sub (ops : List PoolOp) (p : Pool) : ∀ ev ∈ trackerRun p ops, ev ∈ (poolRun p ops).2 := by
  induction ops generalizing p with
  | nil => intro ev h; cases h
  | cons op ops ih =>
    intro ev hev
    simp only [trackerRun, List.mem_append] at hev
    simp only [poolRun, List.mem_append]
    rcases hev with hev | hev
    · exact Or.inl (trackerEvents_sub p op ev hev)
    · exact Or.inr (ih _ ev hev)

end AgModel.Pool
