import AgModel.Model.RepairAbs
import AgModel.Proofs.RepairRun
import AgModel.Proofs.SeamStore
import AgModel.Props.C12
import AgModel.Props.C14
/-! Refinement between the fine repair requester (`Seam.Repair.fHandle`: raw responses, code order of
    `handle_response`) and the coarse repair model (`Repair.handleResponse` on `absResp`). -/
set_option linter.unusedSimpArgs false
namespace AgModel.Seam.Repair
open AgModel.Shred (Env VShred validate)
open AgModel.Blockstore (Content Event)
open AgModel.Repair (Bid Req Resp RepairSt Store Out)
open AgModel.Merkle (H)

/-- the fine / coarse agreement of the proven slice roots: the coarse table holds the interned ids of the fine one -/
def RootsAgree (rid : RootId) (σ : FSys) : Prop :=
  σ.st.sliceRoots = σ.froots.map (fun kv => (kv.1, rid kv.2))

theorem rootGet_map (rid : RootId) (m : FRoots) (k : Bid × Nat) :
    AgModel.Repair.rootGet (m.map (fun kv => (kv.1, rid kv.2))) k = (frootGet m k).map rid := by
  induction m with
  | nil => rfl
  | cons kv rest ih =>
    obtain ⟨k', v⟩ := kv
    simp only [List.map_cons, AgModel.Repair.rootGet, frootGet]
    split
    · rfl
    · exact ih

theorem rootSet_map (rid : RootId) (m : FRoots) (k : Bid × Nat) (v : H) :
    AgModel.Repair.rootSet (m.map (fun kv => (kv.1, rid kv.2))) k (rid v) =
      (frootSet m k v).map (fun kv => (kv.1, rid kv.2)) := by
  induction m with
  | nil => rfl
  | cons kv rest ih =>
    obtain ⟨k', w⟩ := kv
    simp only [List.map_cons, AgModel.Repair.rootSet, frootSet]
    split
    · rfl
    · simp only [List.map_cons, ih]

/-- what `try_new(_, None, pk)` returns when it accepts: the shred with its re-derived root -/
theorem validate_none_ok (env : Env) (s : Shred.Shred) (pk : Nat) (v : VShred) (h : validate env s none pk = .ok v) :
    v = ⟨s, s.sliceRoot env⟩ :=
  ((Shred.accept_iff_signed env s pk none trivial v).mp h).2.2.2

theorem absShred_of_valid (env : Env) (rid : RootId) (s : Shred.Shred) (pk : Nat) (v : VShred)
    (h : validate env s none pk = .ok v) : absShred rid v = absRaw env rid s := by
  rw [validate_none_ok env s pk v h]; rfl

/-- the shred arm of the coarse `handle_response` once every check passed -/
theorem handleResponse_shred_valid (cenv : Nat → Content) (cap : Nat) (st : RepairSt) (store : Store)
    (b : Bid) (i j : Nat) (slot : Nat) (s : Blockstore.Shred) (root : Nat)
    (hout : Req.shred b i j ∈ st.outstanding)
    (h1 : ¬ (slot ≠ b.slot ∨ s.slice ≠ i ∨ s.idx ≠ j)) (h2 : AgModel.Repair.rootGet st.sliceRoots (b, i) = some root)
    (h3 : ¬ s.root ≠ root) (h4 : ¬ s.isLast ≠ decide (AgModel.Repair.lastGet st.lastSlices b = some i))
    (h5 : s.ty = true) :
    AgModel.Repair.handleResponse cenv cap st store (.shred (.shred b i j) slot s true) =
      ingest cenv cap (AgModel.Repair.done st (.shred b i j)) store b s := by
  unfold AgModel.Repair.handleResponse ingest
  simp only [Resp.req, hout, not_true_eq_false, if_false, h1, h2, h3, h4, h5, Bool.not_true, Bool.false_eq_true]
  rfl

/-- a shred response that fails one of the checks is dropped by the coarse `handle_response` -/
theorem handleResponse_shred_nosig (cenv : Nat → Content) (cap : Nat) (st : RepairSt) (store : Store)
    (b : Bid) (i j : Nat) (slot : Nat) (s : Blockstore.Shred) (root : Nat)
    (h2 : AgModel.Repair.rootGet st.sliceRoots (b, i) = some root) :
    AgModel.Repair.handleResponse cenv cap st store (.shred (.shred b i j) slot s false) = (st, store, {}) := by
  unfold AgModel.Repair.handleResponse
  simp only [Resp.req, h2, Bool.not_false, if_true]
  repeat' split
  all_goals rfl

/-- a shred response that is not `Valid` is dropped by the coarse `handle_response` (the root being known) -/
theorem shred_invalid_inert (cenv : Nat → Content) (cap : Nat) (st : RepairSt) (store : Store)
    (b : Bid) (i j : Nat) (slot : Nat) (s : Blockstore.Shred) (ok : Bool) (root : Nat)
    (h2 : AgModel.Repair.rootGet st.sliceRoots (b, i) = some root)
    (hv : ¬ AgModel.Repair.Valid st (.shred (.shred b i j) slot s ok)) :
    AgModel.Repair.handleResponse cenv cap st store (.shred (.shred b i j) slot s ok) = (st, store, {}) := by
  unfold AgModel.Repair.handleResponse
  split
  · rfl
  · simp only
    split
    · rfl
    · rename_i hidx
      simp only [h2]
      split
      · rfl
      · rename_i hr
        split
        · rfl
        · rename_i hl
          split
          · rfl
          · rename_i hty
            split
            · rfl
            · rename_i hs
              exfalso; apply hv
              simp only [AgModel.Repair.Valid]
              simp only [not_or, Decidable.not_not] at hidx
              simp only [Decidable.not_not] at hr
              simp only [ne_eq, Decidable.not_not] at hl
              refine ⟨hidx.1, hidx.2.1, hidx.2.2, by rw [h2, hr], hl, by simpa using hty, by simpa using hs⟩

/-- **Step lemma (repair ingestion).** One raw response: the fine requester's coarse part, blockstore and outputs are
    those of the coarse `handle_response` on the abstraction of the response; the root tables keep agreeing. -/
theorem fHandle_refines (env : Env) (cenv : Nat → Content) (rid : RootId) (hinj : ∀ a b, rid a = rid b → a = b)
    (pk : Nat → Nat) (cap : Nat) (σ : FSys) (hR : RootsAgree rid σ) (resp : FResp) :
    RootsAgree rid (fHandle env cenv rid pk cap σ resp).1 ∧
    ((fHandle env cenv rid pk cap σ resp).1.st, (fHandle env cenv rid pk cap σ resp).1.store,
      (fHandle env cenv rid pk cap σ resp).2) =
      AgModel.Repair.handleResponse cenv cap σ.st σ.store (absResp env rid pk resp) := by
  have hreq : (absResp env rid pk resp).req = resp.req := by cases resp <;> rfl
  by_cases hout : resp.req ∈ σ.st.outstanding
  rotate_left
  · have : fHandle env cenv rid pk cap σ resp = (σ, {}) := by unfold fHandle; rw [if_pos hout]
    rw [this, AgModel.Repair.unsolicited_ignored cenv cap σ.st σ.store _ (by rw [hreq]; exact hout)]
    first | exact ⟨hR, rfl⟩ | exact ⟨hR, trivial⟩
  · cases resp with
    | nack r =>
      have hout' : r ∈ σ.st.outstanding := hout
      unfold fHandle AgModel.Repair.handleResponse
      simp only [FResp.req, absResp, Resp.req, hout', not_true_eq_false, if_false]
      first | exact ⟨hR, rfl⟩ | exact ⟨hR, trivial⟩
    | lastRoot r l root π =>
      have hout' : r ∈ σ.st.outstanding := hout
      cases r with
      | last b =>
        unfold fHandle AgModel.Repair.handleResponse
        simp only [FResp.req, absResp, Resp.req, hout', not_true_eq_false, if_false]
        split
        · first | exact ⟨hR, rfl⟩ | exact ⟨hR, trivial⟩
        · refine ⟨?_, rfl⟩
          unfold RootsAgree
          simp only [AgModel.Repair.sendAll_roots, AgModel.Repair.done]
          rw [hR, rootSet_map]
      | root _ _ =>
        unfold fHandle AgModel.Repair.handleResponse
        simp only [FResp.req, absResp, Resp.req, hout', not_true_eq_false, if_false]
        first | exact ⟨hR, rfl⟩ | exact ⟨hR, trivial⟩
      | shred _ _ _ =>
        unfold fHandle AgModel.Repair.handleResponse
        simp only [FResp.req, absResp, Resp.req, hout', not_true_eq_false, if_false]
        first | exact ⟨hR, rfl⟩ | exact ⟨hR, trivial⟩
    | sliceRoot r root π =>
      have hout' : r ∈ σ.st.outstanding := hout
      cases r with
      | root b i =>
        unfold fHandle AgModel.Repair.handleResponse
        simp only [FResp.req, absResp, Resp.req, hout', not_true_eq_false, if_false]
        split
        · first | exact ⟨hR, rfl⟩ | exact ⟨hR, trivial⟩
        · refine ⟨?_, rfl⟩
          unfold RootsAgree
          simp only [AgModel.Repair.sendAll_roots, AgModel.Repair.done]
          rw [hR, rootSet_map]
      | last _ =>
        unfold fHandle AgModel.Repair.handleResponse
        simp only [FResp.req, absResp, Resp.req, hout', not_true_eq_false, if_false]
        first | exact ⟨hR, rfl⟩ | exact ⟨hR, trivial⟩
      | shred _ _ _ =>
        unfold fHandle AgModel.Repair.handleResponse
        simp only [FResp.req, absResp, Resp.req, hout', not_true_eq_false, if_false]
        first | exact ⟨hR, rfl⟩ | exact ⟨hR, trivial⟩
    | shred r raw =>
      have hout' : r ∈ σ.st.outstanding := hout
      cases r with
      | last _ =>
        unfold fHandle AgModel.Repair.handleResponse
        simp only [FResp.req, absResp, Resp.req, hout', not_true_eq_false, if_false]
        first | exact ⟨hR, rfl⟩ | exact ⟨hR, trivial⟩
      | root _ _ =>
        unfold fHandle AgModel.Repair.handleResponse
        simp only [FResp.req, absResp, Resp.req, hout', not_true_eq_false, if_false]
        first | exact ⟨hR, rfl⟩ | exact ⟨hR, trivial⟩
      | shred b i j =>
        have hg : AgModel.Repair.rootGet σ.st.sliceRoots (b, i) = (frootGet σ.froots (b, i)).map rid := by
          rw [hR, rootGet_map]
        by_cases h1 : raw.header.slot ≠ b.slot ∨ raw.header.sliceIdx ≠ i ∨ raw.index ≠ j
        · have hf : fHandle env cenv rid pk cap σ (.shred (.shred b i j) raw) = (σ, {}) := by
            unfold fHandle; simp only [FResp.req, hout', not_true_eq_false, if_false, h1, if_true]
          have hc : AgModel.Repair.handleResponse cenv cap σ.st σ.store
              (absResp env rid pk (.shred (.shred b i j) raw)) = (σ.st, σ.store, {}) := by
            unfold AgModel.Repair.handleResponse
            simp only [absResp, absRaw, Resp.req, hout', not_true_eq_false, if_false, h1, if_true]
          rw [hf, hc]; first | exact ⟨hR, rfl⟩ | exact ⟨hR, trivial⟩
        · cases hfr : frootGet σ.froots (b, i) with
          | none =>
            rw [hfr] at hg
            have hf : fHandle env cenv rid pk cap σ (.shred (.shred b i j) raw) = (σ, { panic := true }) := by
              unfold fHandle; simp only [FResp.req, hout', not_true_eq_false, if_false, h1, hfr]
            have hc : AgModel.Repair.handleResponse cenv cap σ.st σ.store
                (absResp env rid pk (.shred (.shred b i j) raw)) = (σ.st, σ.store, { panic := true }) := by
              unfold AgModel.Repair.handleResponse
              simp only [absResp, absRaw, Resp.req, hout', not_true_eq_false, if_false, h1, hg, Option.map_none]
            rw [hf, hc]; first | exact ⟨hR, rfl⟩ | exact ⟨hR, trivial⟩
          | some R =>
            rw [hfr] at hg
            simp only [Option.map_some] at hg
            have hslot : raw.header.slot = b.slot := by
              simp only [not_or, Decidable.not_not] at h1; exact h1.1
            -- both sides, reduced to the chain of the remaining checks
            have hF : fHandle env cenv rid pk cap σ (.shred (.shred b i j) raw) =
                (if raw.sliceRoot env ≠ R then (σ, {})
                else if raw.header.isLast ≠ decide (AgModel.Repair.lastGet σ.st.lastSlices b = some i) then (σ, {})
                else if !raw.typeOk then (σ, {})
                else match validate env raw none (pk b.slot) with
                  | .error _ => (σ, {})
                  | .ok v =>
                    ({ σ with st := (ingest cenv cap (AgModel.Repair.done σ.st (.shred b i j)) σ.store b (absShred rid v)).1,
                              store := (ingest cenv cap (AgModel.Repair.done σ.st (.shred b i j)) σ.store b (absShred rid v)).2.1 },
                      (ingest cenv cap (AgModel.Repair.done σ.st (.shred b i j)) σ.store b (absShred rid v)).2.2)) := by
              unfold fHandle
              simp only [FResp.req, hout', not_true_eq_false, if_false, h1, hfr]
              rfl
            have hdrop : ∀ ok, (raw.sliceRoot env ≠ R ∨
                raw.header.isLast ≠ decide (AgModel.Repair.lastGet σ.st.lastSlices b = some i) ∨ raw.typeOk = false ∨ ok = false) →
                AgModel.Repair.handleResponse cenv cap σ.st σ.store
                  (.shred (.shred b i j) raw.header.slot (absRaw env rid raw) ok) = (σ.st, σ.store, {}) := by
              intro ok hbad
              apply shred_invalid_inert cenv cap σ.st σ.store b i j _ _ _ _ hg
              simp only [AgModel.Repair.Valid, absRaw, hg]
              rintro ⟨_, _, _, hr, hl, hty, hok⟩
              simp only [Option.some.injEq] at hr
              rcases hbad with hb | hb | hb | hb
              · exact hb (hinj _ _ hr.symm)
              · exact hb hl
              · rw [hb] at hty; cases hty
              · rw [hb] at hok; cases hok
            rw [hF]
            simp only [absResp]
            by_cases h3 : raw.sliceRoot env ≠ R
            · rw [if_pos h3, hdrop _ (Or.inl h3)]; first | exact ⟨hR, rfl⟩ | exact ⟨hR, trivial⟩
            · rw [if_neg h3]
              have h3' : ¬ rid (raw.sliceRoot env) ≠ rid R := by
                simp only [ne_eq, Decidable.not_not] at h3 ⊢; rw [h3]
              by_cases h4 : raw.header.isLast ≠ decide (AgModel.Repair.lastGet σ.st.lastSlices b = some i)
              · rw [if_pos h4, hdrop _ (Or.inr (Or.inl h4))]; first | exact ⟨hR, rfl⟩ | exact ⟨hR, trivial⟩
              · rw [if_neg h4]
                cases h5 : raw.typeOk with
                | false =>
                  rw [hdrop _ (Or.inr (Or.inr (Or.inl h5)))]
                  simp only [Bool.not_false, if_true]
                  first | exact ⟨hR, rfl⟩ | exact ⟨hR, trivial⟩
                | true =>
                  simp only [Bool.not_true, Bool.false_eq_true, if_false]
                  cases hv : validate env raw none (pk b.slot) with
                  | error e =>
                    have hs : sigOkOf env (pk raw.header.slot) raw = false := by
                      unfold sigOkOf; rw [hslot, hv]
                    simp only
                    rw [hs, hdrop _ (Or.inr (Or.inr (Or.inr rfl)))]
                    first | exact ⟨hR, rfl⟩ | exact ⟨hR, trivial⟩
                  | ok v =>
                    have hs : sigOkOf env (pk raw.header.slot) raw = true := by
                      unfold sigOkOf; rw [hslot, hv]
                    simp only
                    rw [hs, handleResponse_shred_valid cenv cap σ.st σ.store b i j _ _ _ hout' h1 hg h3' h4 h5,
                      absShred_of_valid env rid raw _ v hv]
                    refine ⟨?_, rfl⟩
                    -- the coarse root table is untouched by the shred arm
                    have hroots : (ingest cenv cap (AgModel.Repair.done σ.st (.shred b i j)) σ.store b (absRaw env rid raw)).1
                        = AgModel.Repair.done σ.st (.shred b i j) := by
                      unfold ingest
                      simp only
                      repeat' split
                      all_goals rfl
                    unfold RootsAgree
                    simp only
                    rw [hroots]
                    exact hR

end AgModel.Seam.Repair
