import AgModel.Model.Cert
/-! Helper lemmas about `AgModel.Cert` (core Lean only). -/
namespace AgModel.Cert

open List

/-! ### individual signatures -/

theorem verifyInd_iff (sig : Sig) (msg : Payload) (pk : Nat) :
    verifyInd sig msg pk = true ↔ sig = [⟨pk, msg⟩] := by
  unfold verifyInd
  rw [List.isPerm_iff]
  exact List.perm_singleton

/-! ### bitmasks -/

theorem ones_bounds (bits : List Bool) : ∀ i x, x ∈ ones i bits → i ≤ x ∧ x < i + bits.length := by
  induction bits with
  | nil => intro i x h; simp [ones] at h
  | cons b bs ih =>
    intro i x h
    unfold ones at h
    by_cases hb : b = true
    · simp only [hb, if_true, List.mem_cons] at h
      rcases h with rfl | h
      · simp
      · have := ih (i + 1) x h; simp only [List.length_cons]; omega
    · simp only [hb] at h
      have := ih (i + 1) x h; simp only [List.length_cons]; omega

theorem mem_ones_iff (bits : List Bool) : ∀ i x, x ∈ ones i bits ↔ i ≤ x ∧ bits.getD (x - i) false = true := by
  induction bits with
  | nil => intro i x; simp [ones]
  | cons b bs ih =>
    intro i x
    unfold ones
    by_cases hb : b = true
    · simp only [hb, if_true, List.mem_cons, ih]
      constructor
      · rintro (rfl | ⟨h1, h2⟩)
        · simp
        · refine ⟨by omega, ?_⟩
          have : x - i = (x - (i + 1)) + 1 := by omega
          rw [this]; simpa using h2
      · rintro ⟨h1, h2⟩
        by_cases hx : x = i
        · exact Or.inl hx
        · right
          refine ⟨by omega, ?_⟩
          have : x - i = (x - (i + 1)) + 1 := by omega
          rw [this] at h2; simpa using h2
    · have hb' : b = false := by cases b <;> simp_all
      simp only [hb', Bool.false_eq_true, if_false, ih]
      constructor
      · rintro ⟨h1, h2⟩
        refine ⟨by omega, ?_⟩
        have : x - i = (x - (i + 1)) + 1 := by omega
        rw [this]; simpa using h2
      · rintro ⟨h1, h2⟩
        by_cases hx : x = i
        · subst hx; simp at h2
        · refine ⟨by omega, ?_⟩
          have : x - i = (x - (i + 1)) + 1 := by omega
          rw [this] at h2; simpa using h2

/-- a validator is in `signers()` iff `is_signer` says so -/
theorem mem_signers_iff (a : Agg) (x : Nat) : x ∈ a.signers ↔ a.isSigner x = true := by
  unfold Agg.signers Agg.isSigner
  rw [mem_ones_iff]; simp

theorem signers_lt (a : Agg) (x : Nat) (h : x ∈ a.signers) : x < a.bits.length := by
  have := ones_bounds a.bits 0 x h; omega

/-- `iter_ones` yields strictly increasing indices -/
theorem ones_pairwise (bits : List Bool) : ∀ i, (ones i bits).Pairwise (· < ·) := by
  induction bits with
  | nil => intro i; simp [ones]
  | cons b bs ih =>
    intro i
    unfold ones
    split
    · rw [List.pairwise_cons]
      refine ⟨?_, ih (i + 1)⟩
      intro x hx
      have := ones_bounds bs (i + 1) x hx; omega
    · exact ih (i + 1)

theorem signers_nodup (a : Agg) : a.signers.Nodup := by
  have := ones_pairwise a.bits 0
  unfold Agg.signers
  exact this.imp (fun h => Nat.ne_of_lt h)

/-! ### key lookup never panics when the bitmask has the validator set's length -/

theorem lookupKeys_of_lt (pks : List Nat) : ∀ (is : List Nat), (∀ x ∈ is, x < pks.length) →
    lookupKeys pks is = some (is.map (fun i => pks.getD i 0)) := by
  intro is
  induction is with
  | nil => intro _; rfl
  | cons i is ih =>
    intro h
    have hi : i < pks.length := h i (by simp)
    have hr := ih (fun x hx => h x (by simp [hx]))
    unfold lookupKeys
    rw [hr]
    simp [List.getD_eq_getElem?_getD, hi]

theorem Agg.verify_eq (a : Agg) (msg : Payload) (pks : List Nat) (hl : a.bits.length = pks.length) :
    a.verify msg pks = some (fastAggregateVerify a.sig msg (a.signers.map (fun i => pks.getD i 0))) := by
  unfold Agg.verify
  rw [if_neg (by simpa using hl)]
  rw [lookupKeys_of_lt pks a.signers (fun x hx => by have := signers_lt a x hx; omega)]

theorem Agg.verify_ne_none (a : Agg) (msg : Payload) (pks : List Nat) : a.verify msg pks ≠ none := by
  by_cases hl : a.bits.length = pks.length
  · rw [Agg.verify_eq a msg pks hl]; simp
  · unfold Agg.verify; rw [if_pos hl]; simp

theorem Agg.verify_true_iff (a : Agg) (msg : Payload) (pks : List Nat) :
    a.verify msg pks = some true ↔
      a.bits.length = pks.length ∧ a.signers ≠ [] ∧
        a.sig.Perm (a.signers.map (fun i => (⟨pks.getD i 0, msg⟩ : Part))) := by
  by_cases hl : a.bits.length = pks.length
  · rw [Agg.verify_eq a msg pks hl]
    unfold fastAggregateVerify
    simp only [Option.some.injEq, Bool.and_eq_true, Bool.not_eq_true', List.isEmpty_eq_false_iff,
      List.isPerm_iff, List.map_map, hl, true_and]
    constructor
    · rintro ⟨h1, h2⟩
      exact ⟨by intro h; apply h1; simp [h], h2⟩
    · rintro ⟨h1, h2⟩
      exact ⟨by intro h; apply h1; simpa using h, h2⟩
  · unfold Agg.verify; rw [if_pos hl]; simp [hl]

/-! ### `allOpt` -/

theorem allOpt_ne_none (l : List (Option Bool)) : allOpt l ≠ none ↔ ∀ x ∈ l, x ≠ none := by
  induction l with
  | nil => simp [allOpt]
  | cons x xs ih =>
    cases x with
    | none => simp [allOpt]
    | some b =>
      unfold allOpt
      cases h : allOpt xs with
      | none => simp [h] at ih ⊢; exact ih
      | some r => simp [h] at ih ⊢; exact ih

theorem allOpt_true_iff (l : List (Option Bool)) : allOpt l = some true ↔ ∀ x ∈ l, x = some true := by
  induction l with
  | nil => simp [allOpt]
  | cons x xs ih =>
    cases x with
    | none => simp [allOpt]
    | some b =>
      unfold allOpt
      cases h : allOpt xs with
      | none =>
        simp only [h] at ih
        simp only [List.mem_cons, forall_eq_or_imp, Option.some.injEq]
        constructor
        · intro hc; cases hc
        · intro hc; exact absurd (ih.mpr hc.2) (by simp)
      | some r =>
        simp only [h, Option.some.injEq] at ih
        simp only [Option.some.injEq, Bool.and_eq_true, List.mem_cons, forall_eq_or_imp, ih]

/-! ### stake counting -/

theorem stakeWhere_le (f : Nat → Bool) : ∀ (vs : List Validator) (i : Nat), stakeWhere f i vs ≤ (vs.map (·.stake)).sum := by
  intro vs
  induction vs with
  | nil => intro i; simp [stakeWhere]
  | cons v vs ih =>
    intro i
    have := ih (i + 1)
    simp only [stakeWhere, List.map_cons, List.sum_cons]
    split <;> omega

theorem stakeWhere_false : ∀ (vs : List Validator) (k : Nat), stakeWhere (fun _ => false) k vs = 0 := by
  intro vs
  induction vs with
  | nil => intro k; rfl
  | cons v vs ih => intro k; simp [stakeWhere, ih]

/-- stake of an explicit list of validator indices -/
def stakeOf (e : Epoch) (s : List Nat) : Nat := (s.map (fun i => (e.vals.getD i default).stake)).sum

theorem stakeWhere_eq_filter (f : Nat → Bool) : ∀ (vs : List Validator) (i : Nat),
    stakeWhere f i vs =
      (((List.range vs.length).filter (fun j => f (i + j))).map (fun j => (vs.getD j default).stake)).sum := by
  intro vs
  induction vs with
  | nil => intro i; simp [stakeWhere]
  | cons v vs ih =>
    intro i
    rw [stakeWhere, ih (i + 1)]
    simp only [List.length_cons, List.range_succ_eq_map, List.filter_cons, Nat.add_zero, List.filter_map]
    have hfun : (fun j => f (i + 1 + j)) = ((fun j => f (i + j)) ∘ Nat.succ) := by
      funext j; simp only [Function.comp]; congr 1; omega
    by_cases hf : f i = true
    · simp only [hf, if_true, List.map_cons, List.sum_cons, List.getD_cons_zero]
      rw [hfun]
      simp [List.map_map, Function.comp_def]
    · simp only [hf]
      rw [hfun]
      simp [List.map_map, Function.comp_def]

theorem stakeWhere_eq_stakeOf (e : Epoch) (f : Nat → Bool) :
    stakeWhere f 0 e.vals = stakeOf e ((List.range e.n).filter f) := by
  rw [stakeWhere_eq_filter]
  unfold stakeOf Epoch.n
  simp


/-! ### `read_bitvec` -/

theorem bitsOfWord_length (w : Nat) : (bitsOfWord w).length = 64 := by simp [bitsOfWord]

theorem bitsOfWords_length (ws : List Nat) : (bitsOfWords ws).length = 64 * ws.length := by
  induction ws with
  | nil => rfl
  | cons w ws ih =>
    have : bitsOfWords (w :: ws) = bitsOfWord w ++ bitsOfWords ws := by simp [bitsOfWords]
    rw [this, List.length_append, ih, bitsOfWord_length, List.length_cons]; omega

/-! ### keys -/

/-- voting key of validator `i` (`0` outside the set; only used below `e.n`) -/
def Epoch.keyOf (e : Epoch) (i : Nat) : Nat := e.pks.getD i 0

theorem Epoch.pks_length (e : Epoch) : e.pks.length = e.n := by simp [Epoch.pks, Epoch.n]

theorem Epoch.vals_get (e : Epoch) (i : Nat) (h : i < e.n) :
    ∃ val, e.vals[i]? = some val ∧ val.key = e.keyOf i := by
  have h' : i < e.vals.length := h
  refine ⟨e.vals[i], by simp [h'], ?_⟩
  simp [Epoch.keyOf, Epoch.pks, List.getD_eq_getElem?_getD, h']

/-- distinct validators have distinct voting keys -/
def Epoch.KeysDistinct (e : Epoch) : Prop := e.pks.Nodup

theorem Epoch.keyOf_inj (e : Epoch) (hk : e.KeysDistinct) (i j : Nat) (hi : i < e.n) (hj : j < e.n)
    (h : e.keyOf i = e.keyOf j) : i = j := by
  have hp := e.pks_length
  unfold Epoch.KeysDistinct at hk
  rw [List.nodup_iff_pairwise_ne, List.pairwise_iff_getElem] at hk
  unfold Epoch.keyOf at h
  have hi' : i < e.pks.length := by omega
  have hj' : j < e.pks.length := by omega
  simp only [List.getD_eq_getElem?_getD, List.getElem?_eq_getElem hi', List.getElem?_eq_getElem hj', Option.getD_some] at h
  rcases Nat.lt_trichotomy i j with hlt | heq | hgt
  · exact absurd h (hk i j hi' hj' hlt)
  · exact heq
  · exact absurd h.symm (hk j i hj' hi' hgt)

/-! ### an aggregate signature value determines payload and signer set -/

theorem verify_payload_unique (a a' : Agg) (p p' : Payload) (pks : List Nat) (hs : a.sig = a'.sig)
    (h : a.verify p pks = some true) (h' : a'.verify p' pks = some true) : p = p' := by
  rw [Agg.verify_true_iff] at h h'
  obtain ⟨_, hne, hperm⟩ := h
  obtain ⟨_, _, hperm'⟩ := h'
  cases hsig : a.signers with
  | nil => exact absurd hsig hne
  | cons x xs =>
    have hmem : (⟨pks.getD x 0, p⟩ : Part) ∈ a.sig := by
      rw [hperm.mem_iff, hsig]; simp
    rw [hs, hperm'.mem_iff] at hmem
    simp only [List.mem_map, Part.mk.injEq] at hmem
    obtain ⟨_, _, _, hp⟩ := hmem
    exact hp.symm

theorem verify_signers_subset (e : Epoch) (hk : e.KeysDistinct) (a a' : Agg) (p : Payload) (hs : a.sig = a'.sig)
    (h : a.verify p e.pks = some true) (h' : a'.verify p e.pks = some true) :
    ∀ x, x ∈ a.signers → x ∈ a'.signers := by
  rw [Agg.verify_true_iff] at h h'
  obtain ⟨hl, _, hperm⟩ := h
  obtain ⟨hl', _, hperm'⟩ := h'
  intro x hx
  have hmem : (⟨e.pks.getD x 0, p⟩ : Part) ∈ a.sig := by
    rw [hperm.mem_iff]; exact List.mem_map.mpr ⟨x, hx, rfl⟩
  rw [hs, hperm'.mem_iff] at hmem
  simp only [List.mem_map, Part.mk.injEq, and_true] at hmem
  obtain ⟨y, hy, hkey⟩ := hmem
  have hxl := signers_lt a x hx
  have hyl := signers_lt a' y hy
  have := e.pks_length
  have : y = x := e.keyOf_inj hk y x (by omega) (by omega) hkey
  subst this; exact hy

theorem verify_bits_unique (e : Epoch) (hk : e.KeysDistinct) (a a' : Agg) (p : Payload) (hs : a.sig = a'.sig)
    (h : a.verify p e.pks = some true) (h' : a'.verify p e.pks = some true) : a.bits = a'.bits := by
  have h1 := verify_signers_subset e hk a a' p hs h h'
  have h2 := verify_signers_subset e hk a' a p hs.symm h' h
  have hl := ((Agg.verify_true_iff a p e.pks).mp h).1
  have hl' := ((Agg.verify_true_iff a' p e.pks).mp h').1
  apply List.ext_getElem (by omega)
  intro i hi hi'
  have e1 := mem_signers_iff a i
  have e2 := mem_signers_iff a' i
  unfold Agg.isSigner at e1 e2
  simp only [List.getD_eq_getElem?_getD, List.getElem?_eq_getElem hi, List.getElem?_eq_getElem hi', Option.getD_some] at e1 e2
  have : a.bits[i] = true ↔ a'.bits[i] = true := by
    rw [← e1, ← e2]; exact ⟨h1 i, h2 i⟩
  cases hb : a.bits[i] <;> cases hb' : a'.bits[i] <;> simp_all

end AgModel.Cert
