import AgModel.Model.Merkle
/-! Helper lemmas for C15 (Merkle). Core Lean only. -/
namespace AgModel.Merkle

/-- Abstract specification: root of the perfect tree of height `k` over the level-`h0` nodes `l`,
    padded with empty subtrees. `specG 0 k (leaves.map H.leaf)` is the spec of `MerkleTree::new`. -/
def specG (h0 : Nat) : Nat → List H → H
  | 0, l => l.headD (emptyRoot h0)
  | k + 1, l => .node (specG h0 k (l.take (2 ^ k))) (specG h0 k (l.drop (2 ^ k)))

theorem emptyRoot_add (h0 k : Nat) : emptyRoot (h0 + (k + 1)) = .node (emptyRoot (h0 + k)) (emptyRoot (h0 + k)) := rfl

theorem specG_nil (h0 k : Nat) : specG h0 k [] = emptyRoot (h0 + k) := by
  induction k with
  | zero => simp [specG]
  | succ k ih => simp [specG, ih, emptyRoot_add]

theorem nextLevel_take (h : Nat) (l : List H) (m : Nat) :
    nextLevel h (l.take (2 * m)) = (nextLevel h l).take m := by
  induction m generalizing l with
  | zero => simp [nextLevel]
  | succ m ih =>
    match l with
    | [] => simp [nextLevel]
    | [a] => simp [nextLevel, Nat.mul_succ]
    | a :: b :: rest =>
      have : 2 * (m + 1) = (2 * m) + 1 + 1 := by omega
      simp only [this, List.take_succ_cons, nextLevel, ih]

theorem nextLevel_drop (h : Nat) (l : List H) (m : Nat) :
    nextLevel h (l.drop (2 * m)) = (nextLevel h l).drop m := by
  induction m generalizing l with
  | zero => simp
  | succ m ih =>
    match l with
    | [] => simp [nextLevel]
    | [a] => simp [nextLevel, Nat.mul_succ]
    | a :: b :: rest =>
      have : 2 * (m + 1) = (2 * m) + 1 + 1 := by omega
      simp only [this, List.drop_succ_cons, nextLevel, ih]

theorem specG_succ_eq (h0 k : Nat) (l : List H) :
    specG h0 (k + 1) l = specG (h0 + 1) k (nextLevel h0 l) := by
  induction k generalizing l with
  | zero =>
    match l with
    | [] => simp [specG, nextLevel, emptyRoot]
    | [a] => simp [specG, nextLevel]
    | a :: b :: rest => simp [specG, nextLevel]
  | succ k ih =>
    have e : (2 : Nat) ^ (k + 1) = 2 * 2 ^ k := by rw [Nat.pow_succ]; omega
    show H.node (specG h0 (k + 1) (l.take (2 ^ (k + 1)))) (specG h0 (k + 1) (l.drop (2 ^ (k + 1)))) = _
    rw [ih, ih, e, nextLevel_take, nextLevel_drop]
    rfl

theorem buildLevelsF_eq_wf (f h : Nat) (cur : List H) (hf : cur.length ≤ f) :
    buildLevelsF f h cur = buildLevelsWF h cur := by
  fun_induction buildLevelsWF h cur generalizing f with
  | case1 h cur hlen =>
    match f with
    | 0 => rfl
    | f + 1 => simp [buildLevelsF, hlen]
  | case2 h cur hlen ih =>
    match f with
    | 0 => omega
    | f + 1 =>
      simp only [buildLevelsF, hlen, if_false]
      rw [ih f (by rw [nextLevel_length]; omega)]

theorem buildLevels_eq_wf (h : Nat) (cur : List H) : buildLevels h cur = buildLevelsWF h cur :=
  buildLevelsF_eq_wf _ h cur (Nat.le_refl _)

/-- root of a list of levels -/
def rootOf (lv : List (List H)) : H := (lv.getLast?.bind List.head?).getD (.junk 0)

theorem buildLevelsWF_ne_nil (h : Nat) (cur : List H) : buildLevelsWF h cur ≠ [] := by
  unfold buildLevelsWF; split <;> simp

theorem rootOf_cons (a : List H) (rest : List (List H)) (hr : rest ≠ []) : rootOf (a :: rest) = rootOf rest := by
  unfold rootOf
  rw [List.getLast?_cons_of_ne_nil hr] <;> rfl

theorem root_eq_spec (h : Nat) (cur : List H) (hne : cur ≠ []) :
    rootOf (buildLevelsWF h cur) = specG h ((buildLevelsWF h cur).length - 1) cur := by
  fun_induction buildLevelsWF h cur with
  | case1 h cur hlen =>
    match cur, hne, hlen with
    | [a], _, _ => simp [rootOf, specG]
  | case2 h cur hlen ih =>
    have hn : nextLevel h cur ≠ [] := by
      intro e
      have := nextLevel_length h cur
      rw [e] at this; simp at this; omega
    rw [rootOf_cons _ _ (buildLevelsWF_ne_nil _ _), ih hn]
    have : (buildLevelsWF (h + 1) (nextLevel h cur)).length ≠ 0 := by
      intro e; exact buildLevelsWF_ne_nil _ _ (List.length_eq_zero_iff.mp e)
    have e2 : (cur :: buildLevelsWF (h + 1) (nextLevel h cur)).length - 1
        = ((buildLevelsWF (h + 1) (nextLevel h cur)).length - 1) + 1 := by
      simp; omega
    rw [e2, specG_succ_eq]

/-- height bound: `cur.length ≤ 2^k` gives at most `k` inner levels. -/
theorem buildLevelsWF_height_le (h : Nat) (cur : List H) (k : Nat) (hk : cur.length ≤ 2 ^ k) :
    (buildLevelsWF h cur).length - 1 ≤ k := by
  fun_induction buildLevelsWF h cur generalizing k with
  | case1 h cur hlen => simp
  | case2 h cur hlen ih =>
    match k with
    | 0 => simp at hk; omega
    | k + 1 =>
      have : (nextLevel h cur).length ≤ 2 ^ k := by
        rw [nextLevel_length]; rw [Nat.pow_succ] at hk; omega
      have := ih k this
      have hne : (buildLevelsWF (h + 1) (nextLevel h cur)).length ≠ 0 := by
        intro e; exact buildLevelsWF_ne_nil _ _ (List.length_eq_zero_iff.mp e)
      simp; omega

/-! ### deriveRootIdx -/

theorem deriveRootIdx_snd (x : H) (i : Nat) (π : List H) : (deriveRootIdx x i π).2 = i / 2 ^ π.length := by
  induction π generalizing x i with
  | nil => simp [deriveRootIdx]
  | cons p ps ih =>
    simp only [deriveRootIdx, ih, List.length_cons, Nat.pow_succ]
    rw [Nat.div_div_eq_div_mul, Nat.mul_comm]

theorem deriveRootIdx_append (x : H) (i : Nat) (π : List H) (p : H) :
    deriveRootIdx x i (π ++ [p]) =
      (if (deriveRootIdx x i π).2 % 2 = 0 then H.node (deriveRootIdx x i π).1 p
        else H.node p (deriveRootIdx x i π).1, (deriveRootIdx x i π).2 / 2) := by
  induction π generalizing x i with
  | nil => rfl
  | cons q qs ih => simp only [List.cons_append, deriveRootIdx]; exact ih _ _

def IsLeaf : H → Prop
  | .leaf _ => True
  | _ => False

theorem specG_zero_isLeaf (l : List H) (hl : ∀ y ∈ l, IsLeaf y) : IsLeaf (specG 0 0 l) := by
  match l with
  | [] => simp [specG, emptyRoot, IsLeaf]
  | a :: _ => simpa [specG] using hl a (by simp)

theorem list_eq_nil_or_snoc (l : List H) : l = [] ∨ ∃ l' p, l = l' ++ [p] := by
  match h : l with
  | [] => left; rfl
  | a :: t =>
    right
    exact ⟨(a :: t).dropLast, (a :: t).getLast (by simp), (List.dropLast_concat_getLast (by simp)).symm⟩

/-- Core soundness: a derivation that reaches the spec root of height `k` has length `k` and starts
    from the leaf at `i % 2^k`. -/
theorem derive_sound (k : Nat) (L : List H) (hL : ∀ y ∈ L, IsLeaf y) (x : H) (hx : IsLeaf x) (i : Nat)
    (π : List H) (hd : (deriveRootIdx x i π).1 = specG 0 k L) :
    π.length = k ∧ x = L.getD (i % 2 ^ k) (.leaf 0) := by
  induction k generalizing L π with
  | zero =>
    have hleaf := specG_zero_isLeaf L hL
    rcases list_eq_nil_or_snoc π with rfl | ⟨π', p, rfl⟩
    · simp only [deriveRootIdx] at hd
      refine ⟨rfl, ?_⟩
      rw [hd]; simp only [specG, emptyRoot, Nat.pow_zero, Nat.mod_one]
      cases L <;> simp
    · rw [deriveRootIdx_append] at hd
      rw [← hd] at hleaf
      split at hleaf <;> simp [IsLeaf] at hleaf
  | succ k ih =>
    rcases list_eq_nil_or_snoc π with rfl | ⟨π', p, rfl⟩
    · simp only [deriveRootIdx, specG] at hd
      rw [hd] at hx; simp [IsLeaf] at hx
    · rw [deriveRootIdx_append] at hd
      simp only [specG] at hd
      have hsnd := deriveRootIdx_snd x i π'
      have hLt : ∀ y ∈ L.take (2 ^ k), IsLeaf y := fun y hy => hL y (List.mem_of_mem_take hy)
      have hLd : ∀ y ∈ L.drop (2 ^ k), IsLeaf y := fun y hy => hL y (List.mem_of_mem_drop hy)
      have hpos : 0 < 2 ^ k := Nat.two_pow_pos k
      have hmod : i % 2 ^ (k + 1) = 2 ^ k * ((i / 2 ^ k) % 2) + i % 2 ^ k := by
        rw [Nat.pow_succ, Nat.mod_mul, Nat.add_comm]
      by_cases hpar : (deriveRootIdx x i π').2 % 2 = 0
      · rw [if_pos hpar] at hd
        injection hd with h1 h2
        obtain ⟨hlen, hxe⟩ := ih (L.take (2 ^ k)) hLt π' h1
        refine ⟨by simp [hlen], ?_⟩
        rw [hsnd, hlen] at hpar
        rw [hmod, hpar, hxe]
        have hlt : i % 2 ^ k < 2 ^ k := Nat.mod_lt _ hpos
        simp only [Nat.mul_zero, Nat.zero_add, List.getD_eq_getElem?_getD, List.getElem?_take, hlt, if_true]
      · rw [if_neg hpar] at hd
        injection hd with h1 h2
        obtain ⟨hlen, hxe⟩ := ih (L.drop (2 ^ k)) hLd π' h2
        refine ⟨by simp [hlen], ?_⟩
        rw [hsnd, hlen] at hpar
        have hpar1 : i / 2 ^ k % 2 = 1 := by omega
        rw [hmod, hpar1, hxe]
        simp only [Nat.mul_one, List.getD_eq_getElem?_getD, List.getElem?_drop]

/-- Two derivations of equal length with equal result and equal index have equal start and path. -/
theorem derive_inj (x x' : H) (i : Nat) (π π' : List H) (hlen : π.length = π'.length)
    (hd : (deriveRootIdx x i π).1 = (deriveRootIdx x' i π').1) : x = x' ∧ π = π' := by
  induction π generalizing x x' i π' with
  | nil =>
    match π', hlen with
    | [], _ => simpa [deriveRootIdx] using hd
  | cons p ps ih =>
    match π', hlen with
    | p' :: ps', hlen =>
      simp only [deriveRootIdx] at hd
      have := ih _ _ (i / 2) ps' (by simpa using hlen) hd
      obtain ⟨h1, h2⟩ := this
      by_cases hpar : i % 2 = 0
      · simp only [hpar, if_true] at h1
        injection h1 with a b
        exact ⟨a, by rw [b, h2]⟩
      · simp only [hpar, if_false] at h1
        injection h1 with a b
        exact ⟨b, by rw [a, h2]⟩

/-! ### completeness -/

theorem nextLevel_getD (h : Nat) (l : List H) (j : Nat) (hj : 2 * j < l.length) :
    (nextLevel h l).getD j (.junk 0) =
      .node (l.getD (2 * j) (.junk 0)) (if 2 * j + 1 ≥ l.length then emptyRoot h else l.getD (2 * j + 1) (.junk 0)) := by
  induction j generalizing l with
  | zero =>
    match l, hj with
    | [a], _ => simp [nextLevel]
    | a :: b :: rest, _ => simp [nextLevel]
  | succ j ih =>
    match l, hj with
    | [a], hj => exact absurd hj (by simp)
    | a :: b :: rest, hj =>
      have e : 2 * (j + 1) = 2 * j + 1 + 1 := by omega
      have := ih rest (by simp at hj; omega)
      simp only [nextLevel, List.getD_cons_succ, this, e, List.length_cons]
      congr 1
      have : (2 * j + 1 + 1 + 1 ≥ rest.length + 1 + 1) = (2 * j + 1 ≥ rest.length) := by
        apply propext; omega
      simp only [this]

theorem proofAux_cons_cons (h i : Nat) (lvl r0 : List H) (rs : List (List H)) :
    proofAux h i (lvl :: r0 :: rs) =
      (if sib i ≥ lvl.length then emptyRoot h else lvl.getD (sib i) (.junk 0)) :: proofAux (h + 1) (i / 2) (r0 :: rs) := by
  simp [proofAux]

theorem proofAux_single (h i : Nat) (lvl : List H) : proofAux h i [lvl] = [] := by
  simp [proofAux]

theorem proofAux_complete (h : Nat) (cur : List H) (i : Nat) (hi : i < cur.length) :
    deriveRootIdx (cur.getD i (.junk 0)) i (proofAux h i (buildLevelsWF h cur)) = (rootOf (buildLevelsWF h cur), 0) := by
  fun_induction buildLevelsWF h cur generalizing i with
  | case1 h cur hlen =>
    have : i = 0 := by omega
    subst this
    match cur, hi with
    | [a], _ => simp [proofAux_single, deriveRootIdx, rootOf]
  | case2 h cur hlen ih =>
    have hne := buildLevelsWF_ne_nil (h + 1) (nextLevel h cur)
    obtain ⟨r0, rs, hr⟩ := List.exists_cons_of_ne_nil hne
    rw [rootOf_cons _ _ hne]
    have hi2 : i / 2 < (nextLevel h cur).length := by rw [nextLevel_length]; omega
    have IH := ih (i / 2) hi2
    rw [hr] at IH ⊢
    simp only [proofAux_cons_cons, deriveRootIdx]
    rw [← IH]
    congr 1
    have h2j : 2 * (i / 2) < cur.length := by omega
    rw [nextLevel_getD h cur (i / 2) h2j]
    by_cases hpar : i % 2 = 0
    · have e : 2 * (i / 2) = i := by omega
      simp only [hpar, if_true, sib, e]
    · have e : 2 * (i / 2) + 1 = i := by omega
      have e' : 2 * (i / 2) = i - 1 := by omega
      have hlt : ¬ (i - 1 ≥ cur.length) := by omega
      have hlt2 : ¬ (i ≥ cur.length) := by omega
      have e3 : i - 1 + 1 = i := by omega
      simp only [hpar, if_false, sib, e', hlt, hlt2, e3]

theorem proofAux_last_complete (h : Nat) (cur : List H) (i : Nat) (hi : i + 1 = cur.length) :
    deriveLastAux h (cur.getD i (.junk 0)) i (proofAux h i (buildLevelsWF h cur)) = some (rootOf (buildLevelsWF h cur), 0) := by
  fun_induction buildLevelsWF h cur generalizing i with
  | case1 h cur hlen =>
    have : i = 0 := by omega
    subst this
    match cur, hi with
    | [a], _ => simp [proofAux_single, deriveLastAux, rootOf]
  | case2 h cur hlen ih =>
    have hne := buildLevelsWF_ne_nil (h + 1) (nextLevel h cur)
    obtain ⟨r0, rs, hr⟩ := List.exists_cons_of_ne_nil hne
    rw [rootOf_cons _ _ hne]
    have hi2 : i / 2 + 1 = (nextLevel h cur).length := by rw [nextLevel_length]; omega
    have IH := ih (i / 2) hi2
    rw [hr] at IH ⊢
    have h2j : 2 * (i / 2) < cur.length := by omega
    rw [nextLevel_getD h cur (i / 2) h2j] at IH
    simp only [proofAux_cons_cons, deriveLastAux]
    by_cases hpar : i % 2 = 0
    · have e : 2 * (i / 2) = i := by omega
      have hge : i + 1 ≥ cur.length := by omega
      simp only [hpar, if_true, sib, hge, ne_eq, not_true_eq_false, if_false]
      simp only [e, hge, if_true] at IH
      exact IH
    · have e : 2 * (i / 2) + 1 = i := by omega
      have e' : 2 * (i / 2) = i - 1 := by omega
      have hlt : ¬ (i - 1 ≥ cur.length) := by omega
      have hlt2 : ¬ (i ≥ cur.length) := by omega
      have e3 : i - 1 + 1 = i := by omega
      simp only [hpar, if_false, sib, hlt]
      simp only [e', e3, hlt2, if_false] at IH
      exact IH

theorem proofAux_length (h i : Nat) (lv : List (List H)) : (proofAux h i lv).length = lv.length - 1 := by
  induction lv generalizing h i with
  | nil => simp [proofAux]
  | cons lvl rest ih =>
    match rest with
    | [] => simp [proofAux]
    | r0 :: rs => rw [proofAux_cons_cons]; simp [ih]

/-! ### last-leaf variant -/

theorem deriveLastAux_some (h : Nat) (x : H) (i : Nat) (π : List H) (r : H × Nat)
    (hs : deriveLastAux h x i π = some r) : deriveRootIdx x i π = r := by
  induction π generalizing h x i with
  | nil => simpa [deriveLastAux, deriveRootIdx] using hs
  | cons p ps ih =>
    simp only [deriveLastAux] at hs
    simp only [deriveRootIdx]
    by_cases hpar : i % 2 = 0
    · simp only [hpar, if_true] at hs ⊢
      by_cases hp : p = emptyRoot h
      · subst hp; simp only [ne_eq, not_true_eq_false, if_false] at hs
        exact ih _ _ _ hs
      · simp [hp] at hs
    · simp only [hpar, if_false] at hs ⊢
      exact ih _ _ _ hs

/-- If the last-variant derivation succeeds, every proof element at a position where the index bit
    is 0 is the canonical empty root of that height. -/
theorem deriveLastAux_empties (h : Nat) (x : H) (i : Nat) (π : List H) (r : H × Nat)
    (hs : deriveLastAux h x i π = some r) :
    ∀ t, t < π.length → (i / 2 ^ t) % 2 = 0 → π.getD t (.junk 0) = emptyRoot (h + t) := by
  induction π generalizing h x i with
  | nil => intro t ht; simp at ht
  | cons p ps ih =>
    intro t ht hbit
    simp only [deriveLastAux] at hs
    match t with
    | 0 =>
      simp at hbit
      simp only [hbit, if_true] at hs
      by_cases hp : p = emptyRoot h
      · simp [hp]
      · simp [hp] at hs
    | t + 1 =>
      have hbit' : (i / 2 / 2 ^ t) % 2 = 0 := by
        rw [Nat.div_div_eq_div_mul, Nat.mul_comm, ← Nat.pow_succ]; exact hbit
      have ht' : t < ps.length := by simpa using ht
      by_cases hpar : i % 2 = 0
      · simp only [hpar, if_true] at hs
        by_cases hp : p = emptyRoot h
        · subst hp; simp only [ne_eq, not_true_eq_false, if_false] at hs
          have := ih _ _ _ hs t ht' hbit'
          simpa [Nat.add_assoc, Nat.add_comm 1 t] using this
        · simp [hp] at hs
      · simp only [hpar, if_false] at hs
        have := ih _ _ _ hs t ht' hbit'
        simpa [Nat.add_assoc, Nat.add_comm 1 t] using this

/-- In a successful derivation towards `specG 0 k L`, the sibling at a 0-bit position `t` is the
    spec root of the sibling block; if it is the empty root, all leaves of that block are empty. -/
theorem specG_eq_empty_all (k : Nat) (L : List H) (hL : ∀ y ∈ L, IsLeaf y)
    (he : specG 0 k L = emptyRoot k) : ∀ j, L.getD j (.leaf 0) = .leaf 0 ∨ 2 ^ k ≤ j := by
  induction k generalizing L with
  | zero =>
    intro j
    match j with
    | 0 =>
      left
      match L with
      | [] => rfl
      | a :: _ => simpa [specG, emptyRoot] using he
    | j + 1 => right; simp
  | succ k ih =>
    intro j
    simp only [specG, emptyRoot] at he
    injection he with h1 h2
    have hLt : ∀ y ∈ L.take (2 ^ k), IsLeaf y := fun y hy => hL y (List.mem_of_mem_take hy)
    have hLd : ∀ y ∈ L.drop (2 ^ k), IsLeaf y := fun y hy => hL y (List.mem_of_mem_drop hy)
    by_cases hj : j < 2 ^ k
    · rcases ih _ hLt h1 j with h | h
      · left; simpa [List.getD_eq_getElem?_getD, List.getElem?_take, hj] using h
      · omega
    · rcases ih _ hLd h2 (j - 2 ^ k) with h | h
      · left
        have : 2 ^ k + (j - 2 ^ k) = j := by omega
        simpa [List.getD_eq_getElem?_getD, List.getElem?_drop, this] using h
      · right; rw [Nat.pow_succ]; omega

theorem buildLevelsWF_width (h : Nat) (cur : List H) : cur.length ≤ 2 ^ ((buildLevelsWF h cur).length - 1) := by
  fun_induction buildLevelsWF h cur with
  | case1 h cur hlen => simpa using hlen
  | case2 h cur hlen ih =>
    have hne : (buildLevelsWF (h + 1) (nextLevel h cur)).length ≠ 0 := by
      intro e; exact buildLevelsWF_ne_nil _ _ (List.length_eq_zero_iff.mp e)
    have e2 : (cur :: buildLevelsWF (h + 1) (nextLevel h cur)).length - 1
        = ((buildLevelsWF (h + 1) (nextLevel h cur)).length - 1) + 1 := by
      simp; omega
    rw [e2, Nat.pow_succ]
    rw [nextLevel_length] at ih
    omega

/-- Last-leaf core: if the derivation reaches the spec root and every sibling at a 0-bit of the index
    is the canonical empty root, all leaves right of `i % 2^k` inside the width are empty. -/
theorem derive_last_right_empty (k : Nat) (L : List H) (hL : ∀ y ∈ L, IsLeaf y) (x : H) (i : Nat)
    (π : List H) (hlen : π.length = k)
    (hd : (deriveRootIdx x i π).1 = specG 0 k L)
    (hemp : ∀ t, t < k → (i / 2 ^ t) % 2 = 0 → π.getD t (.junk 0) = emptyRoot t) :
    ∀ j, i % 2 ^ k < j → j < 2 ^ k → L.getD j (.leaf 0) = .leaf 0 := by
  induction k generalizing L π with
  | zero => intro j h1 h2; simp at h2; omega
  | succ k ih =>
    rcases list_eq_nil_or_snoc π with rfl | ⟨π', p, rfl⟩
    · simp at hlen
    · have hlen' : π'.length = k := by simpa using hlen
      rw [deriveRootIdx_append] at hd
      simp only [specG] at hd
      have hsnd := deriveRootIdx_snd x i π'
      rw [hlen'] at hsnd
      have hLt : ∀ y ∈ L.take (2 ^ k), IsLeaf y := fun y hy => hL y (List.mem_of_mem_take hy)
      have hLd : ∀ y ∈ L.drop (2 ^ k), IsLeaf y := fun y hy => hL y (List.mem_of_mem_drop hy)
      have hmod : i % 2 ^ (k + 1) = 2 ^ k * ((i / 2 ^ k) % 2) + i % 2 ^ k := by
        rw [Nat.pow_succ, Nat.mod_mul, Nat.add_comm]
      have hemp' : ∀ t, t < k → (i / 2 ^ t) % 2 = 0 → π'.getD t (.junk 0) = emptyRoot t := by
        intro t ht hb
        have := hemp t (by omega) hb
        rw [List.getD_eq_getElem?_getD, List.getElem?_append_left (by omega)] at this
        rw [List.getD_eq_getElem?_getD]; exact this
      have hpow : 2 ^ (k + 1) = 2 ^ k + 2 ^ k := by rw [Nat.pow_succ]; omega
      intro j hj1 hj2
      by_cases hpar : (deriveRootIdx x i π').2 % 2 = 0
      · rw [if_pos hpar] at hd
        injection hd with h1 h2
        rw [hsnd] at hpar
        have hp : p = emptyRoot k := by
          have := hemp k (by omega) hpar
          rw [List.getD_eq_getElem?_getD, List.getElem?_append_right (by omega)] at this
          simpa [hlen'] using this
        rw [hp] at h2
        rw [hmod, hpar] at hj1
        by_cases hjk : j < 2 ^ k
        · have := ih (L.take (2 ^ k)) hLt π' hlen' h1 hemp' j (by omega) hjk
          simpa [List.getD_eq_getElem?_getD, List.getElem?_take, hjk] using this
        · rcases specG_eq_empty_all k _ hLd h2.symm (j - 2 ^ k) with h | h
          · have e : 2 ^ k + (j - 2 ^ k) = j := by omega
            simpa [List.getD_eq_getElem?_getD, List.getElem?_drop, e] using h
          · omega
      · rw [if_neg hpar] at hd
        injection hd with h1 h2
        rw [hsnd] at hpar
        have hpar1 : i / 2 ^ k % 2 = 1 := by omega
        rw [hmod, hpar1] at hj1
        have := ih (L.drop (2 ^ k)) hLd π' hlen' h2 hemp' (j - 2 ^ k) (by omega) (by omega)
        have e : 2 ^ k + (j - 2 ^ k) = j := by omega
        simpa [List.getD_eq_getElem?_getD, List.getElem?_drop, e] using this

end AgModel.Merkle
