import AgModel.Proofs.ProgressCluster
/-!
# C02 progress, Stage D: a window whose leader is silent is skipped

Pool part (`TSkip`, `PSkip`, `addVote_skip_step`), node part (`NSkip`), cluster part (`skip_master`).
`E = firstInWindow s + W` is the first slot of the next window; skip votes for the slots `s ≤ t < E` arrive sender by sender.
-/
namespace AgModel.Pool
open AgModel
open AgModel.ParentReady (get isWindowStart SkipRun)
open AgModel.Node (toVotor certKind)

/-- the trackers of a pool in whose current window skip certificates for the slots `s ≤ y < k` have been added -/
structure TSkip (hi s k : Nat) (p : Nat × Nat) (P : Pool) : Prop where
  first_le : P.fin.first ≤ p.1
  high_le : P.fin.highest ≤ p.1
  bound : hi < P.fin.highest + 2 * Gen.SLOTS_PER_EPOCH
  statusNone : ∀ t, p.1 < t → P.fin.status t = none
  parentsNone : ∀ b, p.1 < b.1 → P.fin.parents b = none
  parentOk : P.fin.status p.1 = some (.finalized p.2) ∨
    (p = (0, 0) ∧ P.fin.status 0 = some (.notarized 0) ∧ P.fin.parents (0, 0) = none ∧ (get P.pr 0).nfs = [0])
  between : ∀ t, p.1 < t → t < s → (get P.pr t).skip = true
  run : SkipRun s k p P.pr
  highEq : P.fin.highest = p.1

theorem TReady.toSkip {hi s : Nat} {p : Nat × Nat} {P : Pool} (t : TReady hi s p P) : TSkip hi s s p P := by
  refine ⟨t.first_le, t.high_le, t.bound, t.statusNone, t.parentsNone, t.parentOk, t.between, ?_, t.highEq⟩
  refine ⟨t.plt, t.root_le, fun y h1 h2 => by omega, ?_, ?_, t.atS.2.2, fun y hy => (t.above y hy).2.2, t.prParent⟩
  · intro y hy
    by_cases h : y = s
    · subst h; exact t.atS.1
    · exact (t.above y (by omega)).1
  · intro y hy
    by_cases h : y = s
    · subst h; exact t.atS.2.1
    · exact (t.above y (by omega)).2.1

theorem TSkip.of_trk {hi s k : Nat} {p : Nat × Nat} {Q Q' : Pool} (t : TSkip hi s k p Q) (e : Q'.trk = Q.trk) :
    TSkip hi s k p Q' := by
  have e1 : Q'.fin = Q.fin := congrArg Trk.fin e
  have e2 : Q'.pr = Q.pr := congrArg Trk.pr e
  obtain ⟨a1, a2, a3, a4, a5, a6, a7, a8, a9⟩ := t
  refine ⟨?_, ?_, ?_, ?_, ?_, ?_, ?_, ?_, ?_⟩ <;> (first | rw [e1, e2] | rw [e1] | rw [e2]) <;> assumption

theorem windowEnd_isStart (s : Nat) : isWindowStart (ParentReady.windowFirst s + ParentReady.W) = true := by
  simp only [isWindowStart, ParentReady.windowFirst, ParentReady.W, Gen.SLOTS_PER_WINDOW, beq_iff_eq]
  omega

/-- the skip certificate of slot `k`, the next unmarked slot of the window -/
theorem cert_skip {hi s k : Nat} {p : Nat × Nat} {a : SlotState} {Q : Pool} (hg : Q.getSlot k = some a)
    (ts : TSkip hi s k p Q) (hsk : s ≤ k) (hkE : k < ParentReady.windowFirst s + ParentReady.W) (c : Cert)
    (hk : c.kind = .skip) (hs : c.slot = k) :
    (Q.addValidCert c).1.epoch = Q.epoch ∧ (Q.addValidCert c).1.waiting = Q.waiting ∧
    (∀ t, (Q.addValidCert c).1.getSlot t = if t = k then some (a.addCert c) else Q.getSlot t) ∧
    (Q.addValidCert c).1.fin = Q.fin ∧
    (k + 1 < ParentReady.windowFirst s + ParentReady.W → TSkip hi s (k + 1) p (Q.addValidCert c).1 ∧
      (Q.addValidCert c).2 = [.cert c]) ∧
    (k + 1 = ParentReady.windowFirst s + ParentReady.W → TReady hi (k + 1) p (Q.addValidCert c).1 ∧
      (Q.addValidCert c).2 = [.parentReady (k + 1) p.1 p.2, .cert c]) := by
  subst hs
  obtain ⟨pr', wk, hm, hr, g1, g2, g3⟩ := ParentReady.markSkipped_run s c.slot p Q.pr ts.run hsk hkE
  obtain ⟨v1, v2, v3, v4, v5, v6⟩ := addValidCert_skip Q c a hk hg pr' _ wk hm
  have r := ts.run
  refine ⟨v2, v6, v5, v3, ?_, ?_⟩
  · intro hlt
    have hne : c.slot + 1 ≠ ParentReady.windowFirst s + ParentReady.W := by omega
    refine ⟨⟨by rw [v3]; exact ts.first_le, by rw [v3]; exact ts.high_le, by rw [v3]; exact ts.bound,
      by rw [v3]; exact ts.statusNone, by rw [v3]; exact ts.parentsNone, ?_, ?_, ?_, by rw [v3]; exact ts.highEq⟩, ?_⟩
    · rw [v3, v4]
      rcases ts.parentOk with h1 | ⟨h1, h2, h3, h4⟩
      · exact Or.inl h1
      · refine Or.inr ⟨h1, h2, h3, ?_⟩
        rw [g3 0 (by have := r.plt; rw [h1] at this; simp only [] at this; omega) (Or.inr hne)]; exact h4
    · intro t h1 h2
      rw [v4, g3 t (by omega) (Or.inr hne)]; exact ts.between t h1 h2
    · rw [v4]
      refine ⟨r.plt, by rw [hr]; exact r.root_le, ?_, ?_, ?_, ?_, ?_, ?_⟩
      · intro y h1 h2
        by_cases hy : y = c.slot
        · subst hy; rw [g1]
        · rw [g3 y hy (Or.inr hne)]; exact r.marked y h1 (by omega)
      · intro y h1
        rw [g3 y (by omega) (Or.inr hne)]; exact r.unmarked y (by omega)
      · intro y h1
        by_cases hy : y = c.slot
        · subst hy; rw [g1]; exact r.noNfs _ h1
        · rw [g3 y hy (Or.inr hne)]; exact r.noNfs y h1
      · by_cases hy : s = c.slot
        · rw [hy, g1]; show (get Q.pr c.slot).ready = _; rw [← hy]; exact r.readyS
        · rw [g3 s hy (Or.inr hne)]; exact r.readyS
      · intro y h1
        by_cases hy : y = c.slot
        · subst hy; rw [g1]; exact r.readyAbove _ h1
        · rw [g3 y hy (Or.inr hne)]; exact r.readyAbove y h1
      · intro hw
        obtain ⟨q1, q2, q3⟩ := r.parent hw
        rw [g3 p.1 (by omega) (Or.inr hne)]
        exact ⟨q1, q2, q3⟩
    · rw [v1, if_neg hne]; rfl
  · intro hE
    have hws : isWindowStart (c.slot + 1) = true := by rw [hE]; exact windowEnd_isStart s
    refine ⟨⟨by have := r.plt; omega, by rw [v3]; exact ts.first_le, by rw [v3]; exact ts.high_le, by rw [v3]; exact ts.bound,
      by rw [v3]; exact ts.statusNone, by rw [v3]; exact ts.parentsNone, ?_, by rw [v4, hr]; exact r.root_le, ?_, ?_, ?_, ?_,
      by rw [v3]; exact ts.highEq⟩, ?_⟩
    · rw [v3, v4]
      rcases ts.parentOk with h1 | ⟨h1, h2, h3, h4⟩
      · exact Or.inl h1
      · refine Or.inr ⟨h1, h2, h3, ?_⟩
        rw [g3 0 (by have := r.plt; rw [h1] at this; simp only [] at this; omega) (Or.inl (by omega))]; exact h4
    · intro t h1 h2
      rw [v4]
      by_cases hy : t = c.slot
      · subst hy; rw [g1]
      · rw [g3 t hy (Or.inl (by omega))]
        by_cases hts : t < s
        · exact ts.between t h1 hts
        · exact r.marked t (by omega) (by omega)
    · rw [v4, g2 hE, hws]
      exact ⟨r.unmarked _ (by omega), r.noNfs _ (by omega), by simp⟩
    · intro t ht
      rw [v4, g3 t (by omega) (Or.inl (by omega))]
      exact ⟨r.unmarked t (by omega), r.noNfs t (by omega), r.readyAbove t (by omega)⟩
    · intro hw; rw [hws] at hw; cases hw
    · rw [v1, if_pos hE]; rfl

/-! ### skip votes entering a pool -/

theorem slotState_snd_congr {P Q : Pool} {x : Nat} (h : P.getSlot x = Q.getSlot x) : (P.slotState x).2 = (Q.slotState x).2 := by
  unfold Pool.slotState
  rw [h]
  cases Q.getSlot x <;> rfl

/-- `voters t` have voted skip in slot `t` of the window `s ≤ t < E`; the slots below `k` are those with a quorum, and their
    skip certificates have been added -/
structure PSkip (e : Epoch) (hi s E : Nat) (p : Nat × Nat) (voters : Nat → List Nat) (k : Nat) (P : Pool) : Prop where
  epoch : P.epoch = e
  plt : p.1 < s
  slots : ∀ t, s ≤ t → t < E → SkipSt e t (voters t) (P.slotState t).2
  noAbove : ∀ t, E ≤ t → P.getSlot t = none
  waiting : WaitBelow P s
  kle : s ≤ k ∧ k ≤ E
  trkS : k < E → TSkip hi s k p P
  trkR : k = E → TReady hi E p P
  quorum : ∀ t, s ≤ t → t < E → (e.isQuorum (stakeOf e (voters t)) = true ↔ t < k)

theorem PSkip.inBounds {e : Epoch} {hi s E : Nat} {p : Nat × Nat} {voters : Nat → List Nat} {k : Nat} {P : Pool}
    (ps : PSkip e hi s E p voters k P) (t : Nat) (h1 : s ≤ t) (h2 : t ≤ hi) : P.outOfBounds t = false := by
  have hplt := ps.plt
  have : P.fin.first ≤ p.1 ∧ hi < P.fin.highest + 2 * Gen.SLOTS_PER_EPOCH := by
    by_cases hk : k < E
    · exact ⟨(ps.trkS hk).first_le, (ps.trkS hk).bound⟩
    · have : k = E := by have := ps.kle; omega
      exact ⟨(ps.trkR this).first_le, (ps.trkR this).bound⟩
  unfold Pool.outOfBounds
  simp only [Bool.or_eq_false_iff, decide_eq_false_iff_not]
  omega

/-- what Votor will see of the skip certificate of slot `t` -/
def skipEvs (E : Nat) (p : Nat × Nat) (t : Nat) : List Votor.Event :=
  (if t + 1 = E then [Votor.Event.parentReady E p.1 p.2] else []) ++ [.cert .skip t 0]

/-- **one skip vote of the exchange enters a pool** -/
theorem addVote_skip_step {e : Epoch} {hi s : Nat} {p : Nat × Nat} {voters : Nat → List Nat} {k : Nat} {Q : Pool}
    (ps : PSkip e hi s (ParentReady.windowFirst s + ParentReady.W) p voters k Q) (t j : Nat) (h1 : s ≤ t)
    (h2 : t < ParentReady.windowFirst s + ParentReady.W) (h3 : t ≤ hi) (hj : j ∉ voters t) (hjn : j < e.n)
    (hprev : e.isQuorum (stakeOf e (voters t ++ [j])) = true → ∀ t', s ≤ t' → t' < t → e.isQuorum (stakeOf e (voters t')) = true) :
    (Q.addVote ⟨.skip, t, 0, j⟩).2.1 = .ok ∧
    PSkip e hi s (ParentReady.windowFirst s + ParentReady.W) p (fun x => if x = t then voters t ++ [j] else voters x)
      (if (e.isQuorum (stakeOf e (voters t ++ [j])) && !e.isQuorum (stakeOf e (voters t))) = true then k + 1 else k)
      (Q.addVote ⟨.skip, t, 0, j⟩).1 ∧
    Event.panic ∉ (Q.addVote ⟨.skip, t, 0, j⟩).2.2 ∧
    vEvs (Q.addVote ⟨.skip, t, 0, j⟩).2.2 =
      (if (e.isQuorum (stakeOf e (voters t ++ [j])) && !e.isQuorum (stakeOf e (voters t))) = true then
        skipEvs (ParentReady.windowFirst s + ParentReady.W) p t else []) := by
  have hst := ps.slots t h1 h2
  obtain ⟨hc, hi'⟩ := hst.admits hj
  have hadm := addVote_admitted Q ⟨.skip, t, 0, j⟩ (ps.inBounds t h1 h3) (by rw [ps.epoch]; exact hjn) hc hi'
  have hQ0e : (Q.slotState t).1.epoch = e := (slotState_frame Q t).1.trans ps.epoch
  simp only [hQ0e] at hadm
  obtain ⟨hev, hst', hids⟩ := hst.addSkip j
  rw [hadm]
  generalize (Q.slotState t).2.addVote e ⟨.skip, t, 0, j⟩ = r at *
  have hr1s : r.1.slot = t := by
    have := hst'.slot
    have hf : ∀ (cs : List Cert) (a : SlotState), (cs.foldl SlotState.addCert a).slot = a.slot := by
      intro cs
      induction cs with
      | nil => intro a; rfl
      | cons c cs ih =>
        intro a
        rw [List.foldl_cons, ih]
        unfold SlotState.addCert
        cases c.kind <;> dsimp only
        split <;> rfl
    rw [hf] at this; exact this
  -- the pool with the stored vote
  have hQ1g : ∀ x, ((Q.slotState t).1.putSlot r.1).getSlot x = if x = t then some r.1 else Q.getSlot x := by
    intro x
    rw [getSlot_putSlot, hr1s, getSlot_slotState]
    by_cases hx : x = t <;> simp [hx]
  have hQ1trk : ((Q.slotState t).1.putSlot r.1).trk = Q.trk := by rw [putSlot_trk, slotState_trk]
  have hQ1e : ((Q.slotState t).1.putSlot r.1).epoch = e := (putSlot_frame _ _).1.trans hQ0e
  have hQ1w : ((Q.slotState t).1.putSlot r.1).waiting = Q.waiting := by
    rw [(putSlot_frame _ _).2.2, (slotState_frame _ _).2.2]
  generalize (Q.slotState t).1.putSlot r.1 = Q1 at *
  have hN : stakeOf e (voters t ++ [j]) = stakeOf e (voters t) + e.stake j := by rw [stakeOf_append, stakeOf_single]
  have hq : e.isQuorum (stakeOf e (voters t)) = true → e.isQuorum (stakeOf e (voters t ++ [j])) = true :=
    fun hh => isMet_mono_le _ _ _ _ _ (by omega) hh
  have hslots : ∀ (Q' : Pool) (a' : SlotState), (∀ x, Q'.getSlot x = if x = t then some a' else Q.getSlot x) →
      SkipSt e t (voters t ++ [j]) a' →
      (∀ x, s ≤ x → x < ParentReady.windowFirst s + ParentReady.W →
        SkipSt e x (if x = t then voters t ++ [j] else voters x) (Q'.slotState x).2) ∧
      (∀ x, ParentReady.windowFirst s + ParentReady.W ≤ x → Q'.getSlot x = none) := by
    intro Q' a' hg ha
    constructor
    · intro x hx1 hx2
      by_cases hxt : x = t
      · subst hxt
        rw [if_pos rfl, slotState_snd_of_some (by rw [hg, if_pos rfl])]
        exact ha
      · rw [if_neg hxt, slotState_snd_congr (P := Q') (Q := Q) (by rw [hg, if_neg hxt])]
        exact ps.slots x hx1 hx2
    · intro x hx
      rw [hg, if_neg (by omega)]
      exact ps.noAbove x hx
  cases hq0 : e.isQuorum (stakeOf e (voters t)) <;> cases hq1 : e.isQuorum (stakeOf e (voters t ++ [j])) <;>
    (try (have := hq hq0; rw [hq1] at this; cases this)) <;>
    simp only [hq0, hq1, Bool.true_and, Bool.false_and, Bool.not_true, Bool.not_false, Bool.false_eq_true,
      if_false, if_true] at hids ⊢
  · -- no certificate, below the quorum
    have hcs : r.2.1 = [] := by simpa using hids
    rw [hcs] at hst' ⊢
    rw [addValidCerts_nil]
    obtain ⟨sl1, sl2⟩ := hslots Q1 _ hQ1g hst'
    refine ⟨trivial, ⟨hQ1e, ps.plt, sl1, sl2, fun x hx => ps.waiting x (by rw [← hQ1w]; exact hx), ps.kle,
      fun hk => (ps.trkS hk).of_trk hQ1trk, fun hk => (ps.trkR hk).of_trk hQ1trk, ?_⟩, by simp [hev], by simp [hev, vEvs]⟩
    intro x hx1 hx2
    by_cases hxt : x = t
    · subst hxt
      rw [if_pos rfl, hq1]
      have := (ps.quorum x hx1 hx2).not
      rw [hq0] at this
      constructor
      · intro hh; cases hh
      · intro hh; exact absurd hh (this.mp (by simp))
    · rw [if_neg hxt]; exact ps.quorum x hx1 hx2
  · -- the quorum of skip votes for slot `t` is crossed
    obtain ⟨c1, hcs, k1⟩ := map_eq_one hids
    obtain ⟨k1a, k1b, _⟩ := cid3_eq k1
    rw [hcs] at hst' ⊢
    rw [addValidCerts_cons, addValidCerts_nil]
    have hkt : k = t := by
      have hge : ¬ t < k := by
        intro hlt
        have := (ps.quorum t h1 h2).mpr hlt
        rw [hq0] at this; cases this
      by_cases hts : t = s
      · have := ps.kle; omega
      · have := (ps.quorum (t - 1) (by omega) (by omega)).mp (hprev hq1 (t - 1) (by omega) (by omega))
        omega
    subst hkt
    have ts1 := (ps.trkS h2).of_trk hQ1trk
    obtain ⟨w1, w2, w3, w4, w5, w6⟩ := cert_skip (by rw [hQ1g, if_pos rfl]) ts1 h1 h2 c1 k1a k1b
    have hg' : ∀ x, (Q1.addValidCert c1).1.getSlot x = if x = k then some (r.1.addCert c1) else Q.getSlot x := by
      intro x
      rw [w3, hQ1g]
      by_cases hx : x = k <;> simp [hx]
    obtain ⟨sl1, sl2⟩ := hslots _ _ hg' hst'
    have hqinv : ∀ x, s ≤ x → x < ParentReady.windowFirst s + ParentReady.W →
        (e.isQuorum (stakeOf e (if x = k then voters k ++ [j] else voters x)) = true ↔ x < k + 1) := by
      intro x hx1 hx2
      by_cases hxt : x = k
      · subst hxt
        rw [if_pos rfl, hq1]
        simp
      · rw [if_neg hxt]
        have := ps.quorum x hx1 hx2
        constructor
        · intro hh; have := this.mp hh; omega
        · intro hh; exact this.mpr (by omega)
    have hwt : WaitBelow (Q1.addValidCert c1).1 s := by
      intro x hx; rw [w2, hQ1w] at hx; exact ps.waiting x hx
    by_cases hlast : k + 1 = ParentReady.windowFirst s + ParentReady.W
    · obtain ⟨tr, hevs⟩ := w6 hlast
      refine ⟨trivial, ⟨w1.trans hQ1e, ps.plt, sl1, sl2, hwt, ⟨by omega, by omega⟩, fun hk => by omega,
        fun _ => by rw [← hlast]; exact tr, hqinv⟩, ?_, ?_⟩
      · rw [hevs, hev]; simp
      · rw [hevs, hev]
        have hh0 : c1.hash = 0 := (cid3_eq k1).2.2
        have hv : vEvs ([] ++ [Event.parentReady (k + 1) p.1 p.2, Event.cert c1] ++ []) =
            [Votor.Event.parentReady (k + 1) p.1 p.2, .cert (certKind c1.kind) c1.slot c1.hash] := rfl
        rw [hv, k1a, k1b, hh0]
        unfold skipEvs
        rw [if_pos hlast, hlast]
        rfl
    · obtain ⟨tsk, hevs⟩ := w5 (by omega)
      refine ⟨trivial, ⟨w1.trans hQ1e, ps.plt, sl1, sl2, hwt, ⟨by omega, by omega⟩, fun _ => tsk,
        fun hk => absurd hk hlast, hqinv⟩, ?_, ?_⟩
      · rw [hevs, hev]; simp
      · rw [hevs, hev]
        have hh0 : c1.hash = 0 := (cid3_eq k1).2.2
        have hv : vEvs ([] ++ [Event.cert c1] ++ []) = [Votor.Event.cert (certKind c1.kind) c1.slot c1.hash] := rfl
        rw [hv, k1a, k1b, hh0]
        unfold skipEvs
        rw [if_neg hlast]
        rfl
  · -- no certificate, above the quorum
    have hcs : r.2.1 = [] := by simpa using hids
    rw [hcs] at hst' ⊢
    rw [addValidCerts_nil]
    obtain ⟨sl1, sl2⟩ := hslots Q1 _ hQ1g hst'
    refine ⟨trivial, ⟨hQ1e, ps.plt, sl1, sl2, fun x hx => ps.waiting x (by rw [← hQ1w]; exact hx), ps.kle,
      fun hk => (ps.trkS hk).of_trk hQ1trk, fun hk => (ps.trkR hk).of_trk hQ1trk, ?_⟩, by simp [hev], by simp [hev, vEvs]⟩
    intro x hx1 hx2
    by_cases hxt : x = t
    · subst hxt
      rw [if_pos rfl, hq1]
      have := ps.quorum x hx1 hx2
      rw [hq0] at this
      exact ⟨fun _ => this.mp rfl, fun _ => rfl⟩
    · rw [if_neg hxt]; exact ps.quorum x hx1 hx2

end AgModel.Pool

namespace AgModel.Cluster
open AgModel AgModel.Node AgModel.NodePanic AgModel.Pool

/-- the first slot of the window after the one of `s` -/
def wEnd (s : Nat) : Nat := Votor.firstInWindow s + Votor.W

theorem wEnd_eq (s : Nat) : ParentReady.windowFirst s + ParentReady.W = wEnd s := rfl
theorem lt_wEnd (s : Nat) : s < wEnd s := lt_window_end s
theorem wEnd_mod (s : Nat) : wEnd s % Votor.W = 0 := window_end_mod s

/-- the node is skipping the window of `s` -/
structure NSkip (e : Epoch) (hi s : Nat) (p : Nat × Nat) (voters : Nat → List Nat) (k : Nat) (nr : Bool)
    (q : List Votor.Event) (N : Node) : Prop where
  alive : N.dead = false
  queue : vEvs N.queue = q
  pool : PSkip e hi s (wEnd s) p voters k N.pool
  votor : VSkipped s (wEnd s) p nr N.votor

/-- what Votor will see of the skip certificates of the slots `s ≤ t < k` -/
def skipQ (s : Nat) (p : Nat × Nat) (k : Nat) : List Votor.Event := (List.range' s (k - s)).flatMap (skipEvs (wEnd s) p)

theorem skipQ_succ (s : Nat) (p : Nat × Nat) (k : Nat) (h : s ≤ k) : skipQ s p (k + 1) = skipQ s p k ++ skipEvs (wEnd s) p k := by
  unfold skipQ
  rw [show k + 1 - s = (k - s) + 1 by omega, List.range'_concat, List.flatMap_append]
  simp only [List.flatMap_cons, List.flatMap_nil, List.append_nil]
  rw [show s + 1 * (k - s) = k by omega]

theorem _root_.AgModel.Pool.PSkip.congr {e : Epoch} {hi s E : Nat} {p : Nat × Nat} {v v' : Nat → List Nat} {k : Nat} {P : Pool}
    (ps : PSkip e hi s E p v k P) (h : ∀ t, s ≤ t → t < E → v t = v' t) : PSkip e hi s E p v' k P :=
  ⟨ps.epoch, ps.plt, fun t h1 h2 => by rw [← h t h1 h2]; exact ps.slots t h1 h2, ps.noAbove, ps.waiting, ps.kle, ps.trkS, ps.trkR,
    fun t h1 h2 => by rw [← h t h1 h2]; exact ps.quorum t h1 h2⟩

theorem nodeRun_append (n : Node) (a b : List NodeOp) : nodeRun n (a ++ b) = nodeRun (nodeRun n a) b := by
  induction a generalizing n with
  | nil => rfl
  | cons op a ih => exact ih _

/-- the voters of the slots after `Y` are done and the skip votes of `j` for the slots below `m` have arrived -/
def votersAt (Y : List Nat) (j m : Nat) : Nat → List Nat := fun t => if t < m then Y ++ [j] else Y

/-- the number of skip certificates then -/
def kAt (e : Epoch) (s : Nat) (Y : List Nat) (j m : Nat) : Nat :=
  if e.isQuorum (stakeOf e Y) = true then wEnd s else if e.isQuorum (stakeOf e (Y ++ [j])) = true then m else s

theorem node_skip_vote {e : Epoch} {hi s : Nat} {p : Nat × Nat} {Y : List Nat} {j m : Nat} {nr : Bool} {N : Node}
    (n : NSkip e hi s p (votersAt Y j m) (kAt e s Y j m) nr (skipQ s p (kAt e s Y j m)) N) (h1 : s ≤ m) (h2 : m < wEnd s)
    (h3 : m ≤ hi) (hj : j ∉ Y) (hjn : j < e.n) :
    NSkip e hi s p (votersAt Y j (m + 1)) (kAt e s Y j (m + 1)) nr (skipQ s p (kAt e s Y j (m + 1)))
      (nodeStep N (.recvVote ⟨.skip, m, 0, j⟩)) := by
  have hvm : votersAt Y j m m = Y := by simp [votersAt]
  have hN : stakeOf e (Y ++ [j]) = stakeOf e Y + e.stake j := by rw [stakeOf_append, stakeOf_single]
  have hq : e.isQuorum (stakeOf e Y) = true → e.isQuorum (stakeOf e (Y ++ [j])) = true :=
    fun hh => isMet_mono_le _ _ _ _ _ (by omega) hh
  obtain ⟨_, ps', hnp, hev⟩ := addVote_skip_step n.pool m j h1 h2 h3 (by rw [hvm]; exact hj) hjn (by
    intro _ t' ht1 ht2
    have : votersAt Y j m t' = Y ++ [j] := by simp [votersAt, ht2]
    rw [this]
    rw [hvm] at *
    assumption)
  rw [hvm] at ps' hev
  obtain ⟨d1, d2, d3, d4⟩ := nodeStep_recvVote N ⟨.skip, m, 0, j⟩ n.alive hnp
  have hvf : ∀ t, s ≤ t → t < wEnd s → (fun x => if x = m then Y ++ [j] else votersAt Y j m x) t = votersAt Y j (m + 1) t := by
    intro t _ _
    simp only [votersAt]
    by_cases htm : t = m
    · subst htm; simp
    · by_cases hlt : t < m
      · have : t < m + 1 := by omega
        simp [htm, hlt, this]
      · have : ¬ t < m + 1 := by omega
        simp [htm, hlt, this]
  have hk : (if (e.isQuorum (stakeOf e (Y ++ [j])) && !e.isQuorum (stakeOf e Y)) = true then kAt e s Y j m + 1 else kAt e s Y j m) =
      kAt e s Y j (m + 1) := by
    unfold kAt
    cases hq0 : e.isQuorum (stakeOf e Y) <;> cases hq1 : e.isQuorum (stakeOf e (Y ++ [j])) <;>
      (try (have := hq hq0; rw [hq1] at this; cases this)) <;> simp
  rw [hk] at ps'
  refine ⟨d1, ?_, by rw [d3]; exact ps'.congr hvf, by rw [d2]; exact n.votor⟩
  rw [d4, n.queue, hev]
  unfold kAt
  cases hq0 : e.isQuorum (stakeOf e Y) <;> cases hq1 : e.isQuorum (stakeOf e (Y ++ [j])) <;>
    (try (have := hq hq0; rw [hq1] at this; cases this)) <;>
    simp only [Bool.true_and, Bool.false_and, Bool.not_true, Bool.not_false, Bool.false_eq_true, if_false, if_true,
      List.append_nil]
  exact (skipQ_succ s p m h1).symm

/-- all skip votes of one sender -/
theorem node_skip_sender {e : Epoch} {hi s : Nat} {p : Nat × Nat} {Y : List Nat} {j : Nat} {nr : Bool} (hE : wEnd s ≤ hi + 1)
    (hj : j ∉ Y) (hjn : j < e.n) : ∀ (d m : Nat) (N : Node), m + d = wEnd s → s ≤ m →
    NSkip e hi s p (votersAt Y j m) (kAt e s Y j m) nr (skipQ s p (kAt e s Y j m)) N →
    NSkip e hi s p (votersAt Y j (wEnd s)) (kAt e s Y j (wEnd s)) nr (skipQ s p (kAt e s Y j (wEnd s)))
      (nodeRun N ((List.range' m d).map (fun t => NodeOp.recvVote ⟨.skip, t, 0, j⟩))) := by
  intro d
  induction d with
  | zero =>
    intro m N hm _ n
    have : m = wEnd s := by omega
    subst this
    simpa [nodeRun] using n
  | succ d ih =>
    intro m N hm hsm n
    have n' := node_skip_vote n hsm (by omega) (by omega) hj hjn
    have := ih (m + 1) _ (by omega) (by omega) n'
    simpa [List.range'_succ, nodeRun] using this

theorem kAt_next (e : Epoch) (s : Nat) (Y : List Nat) (j j' : Nat) : kAt e s Y j (wEnd s) = kAt e s (Y ++ [j]) j' s := by
  have hN : stakeOf e (Y ++ [j]) = stakeOf e Y + e.stake j := by rw [stakeOf_append, stakeOf_single]
  have hq : e.isQuorum (stakeOf e Y) = true → e.isQuorum (stakeOf e (Y ++ [j])) = true :=
    fun hh => isMet_mono_le _ _ _ _ _ (by omega) hh
  unfold kAt
  cases hq0 : e.isQuorum (stakeOf e Y) <;> cases hq1 : e.isQuorum (stakeOf e (Y ++ [j])) <;>
    (try (have := hq hq0; rw [hq1] at this; cases this)) <;> simp

/-- the number of skip certificates after all votes of the validators `Y` arrived -/
def kDone (e : Epoch) (s : Nat) (Y : List Nat) : Nat := if e.isQuorum (stakeOf e Y) = true then wEnd s else s

theorem kAt_start (e : Epoch) (s : Nat) (Y : List Nat) (j : Nat) : kAt e s Y j s = kDone e s Y := by
  unfold kAt kDone
  split <;> simp

/-- the skip votes of all senders `L`, sender by sender -/
theorem node_skip_all {e : Epoch} {hi s : Nat} {p : Nat × Nat} {nr : Bool} (hE : wEnd s ≤ hi + 1) :
    ∀ (L Y : List Nat) (N : Node), (Y ++ L).Nodup → (∀ j ∈ L, j < e.n) →
    NSkip e hi s p (fun _ => Y) (kDone e s Y) nr (skipQ s p (kDone e s Y)) N →
    NSkip e hi s p (fun _ => Y ++ L) (kDone e s (Y ++ L)) nr (skipQ s p (kDone e s (Y ++ L)))
      (nodeRun N (L.flatMap (fun j => (List.range' s (wEnd s - s)).map (fun t => NodeOp.recvVote ⟨.skip, t, 0, j⟩)))) := by
  intro L
  induction L with
  | nil => intro Y N _ _ n; simpa [nodeRun] using n
  | cons j L ih =>
    intro Y N hnd hn n
    have hj : j ∉ Y := by
      intro hx
      have := List.nodup_append.mp hnd
      exact this.2.2 j hx j List.mem_cons_self rfl
    have n0 : NSkip e hi s p (votersAt Y j s) (kAt e s Y j s) nr (skipQ s p (kAt e s Y j s)) N := by
      rw [kAt_start]
      exact ⟨n.alive, n.queue, n.pool.congr (fun t h1 _ => by simp [votersAt]; omega), n.votor⟩
    have n1 := node_skip_sender hE hj (hn j List.mem_cons_self) (wEnd s - s) s N (by have := lt_wEnd s; omega) (Nat.le_refl _) n0
    have n2 : NSkip e hi s p (fun _ => Y ++ [j]) (kDone e s (Y ++ [j])) nr (skipQ s p (kDone e s (Y ++ [j])))
        (nodeRun N ((List.range' s (wEnd s - s)).map (fun t => NodeOp.recvVote ⟨.skip, t, 0, j⟩))) := by
      rw [← kAt_start e s (Y ++ [j]) 0, ← kAt_next e s Y j 0]
      exact ⟨n1.alive, n1.queue, n1.pool.congr (fun t _ h2 => by simp [votersAt, h2]), n1.votor⟩
    have := ih (Y ++ [j]) _ (by simpa using hnd) (fun x hx => hn x (List.mem_cons_of_mem _ hx)) n2
    rw [List.flatMap_cons, nodeRun_append]
    simpa using this

/-! ### the timeouts fire, Votor drains the queue, the window is done -/

theorem votor_skip_round {s : Nat} {p : Nat × Nat} {v : Votor.V} (a : VSkipped s (wEnd s) p false v) :
    ∀ (d : Nat), s + d ≤ wEnd s → VSkipped s (wEnd s) p (decide (s + d = wEnd s)) (Votor.run v (skipQ s p (s + d))) := by
  intro d
  induction d with
  | zero =>
    intro _
    have : decide (s + 0 = wEnd s) = false := by simp; have := lt_wEnd s; omega
    rw [this]
    simpa [skipQ, Votor.run] using a
  | succ d ih =>
    intro hle
    have ih' := ih (by omega)
    have hne : decide (s + d = wEnd s) = false := by simp; omega
    rw [hne] at ih'
    rw [show s + (d + 1) = s + d + 1 by omega, skipQ_succ s p (s + d) (by omega), Votor.run_append]
    unfold skipEvs
    by_cases hl : s + d + 1 = wEnd s
    · rw [if_pos hl]
      simp only [List.singleton_append, Votor.run, hl, decide_true]
      exact step_cert_skip (step_parentReady_skipped ih' (wEnd_mod s) (Nat.le_of_lt (lt_wEnd s))) (by omega)
    · rw [if_neg hl]
      simp only [List.nil_append, Votor.run, hl, decide_false]
      exact step_cert_skip ih' (by omega)

theorem node_timeouts {e : Epoch} (hpos : 0 < e.total) {hi s : Nat} {p : Nat × Nat} {N : Node} (r : NReady e hi s p N) :
    NSkip e hi s p (fun _ => []) s false []
      (nodeRun N ((List.range' s (wEnd s - s)).map NodeOp.timeout)) := by
  have hlt := lt_wEnd s
  obtain ⟨d, hd⟩ : ∃ d, wEnd s - s = d + 1 := ⟨wEnd s - s - 1, by omega⟩
  rw [hd, List.range'_succ, List.map_cons]
  simp only [nodeRun]
  have h0 : nodeStep N (.timeout s) = (votorStep N (.timeout s)).1 := rfl
  rw [h0, nodeStep_votor_ev N r.alive]
  have hv0 := step_timeout r.votor
  -- the remaining timeouts find the slots voted
  have hrest : ∀ (n a : Nat) (M : Node), s < a → a + n ≤ wEnd s → M.dead = false → VSkipped s (wEnd s) p false M.votor →
      (nodeRun M ((List.range' a n).map NodeOp.timeout)).dead = false ∧
      (nodeRun M ((List.range' a n).map NodeOp.timeout)).pool = M.pool ∧
      (nodeRun M ((List.range' a n).map NodeOp.timeout)).queue = M.queue ∧
      VSkipped s (wEnd s) p false (nodeRun M ((List.range' a n).map NodeOp.timeout)).votor := by
    intro n
    induction n with
    | zero => intro a M _ _ hd hv; exact ⟨hd, rfl, rfl, hv⟩
    | succ n ih =>
      intro a M ha hle hd hv
      rw [List.range'_succ, List.map_cons]
      simp only [nodeRun]
      have h1 : nodeStep M (.timeout a) = (votorStep M (.timeout a)).1 := rfl
      rw [h1, nodeStep_votor_ev M hd]
      have hv' := step_timeout_voted hv (t := a) (by omega) (by omega)
      obtain ⟨i1, i2, i3, i4⟩ := ih (a + 1) { M with votor := Votor.step M.votor (.timeout a), dead := (Votor.step M.votor (.timeout a)).panicked }
        (by omega) (by omega) hv'.alive hv'
      exact ⟨i1, i2, i3, i4⟩
  obtain ⟨i1, i2, i3, i4⟩ := hrest d (s + 1) { N with votor := Votor.step N.votor (.timeout s), dead := (Votor.step N.votor (.timeout s)).panicked }
    (by omega) (by omega) hv0.alive hv0
  refine ⟨i1, by rw [i3]; show vEvs N.queue = []; rw [r.queue]; rfl, ?_, i4⟩
  rw [i2]
  show PSkip e hi s (wEnd s) p (fun _ => []) s N.pool
  have hq0 : e.isQuorum (stakeOf e []) = false := quorum_nil e hpos
  refine ⟨r.epoch, r.trk.plt, ?_, fun t ht => r.noSlots t (by omega), r.waiting, ⟨Nat.le_refl _, Nat.le_of_lt hlt⟩,
    fun _ => r.trk.toSkip, fun h => by omega, ?_⟩
  · intro t h1 _
    rw [slotState_snd_of_none (r.noSlots t h1)]
    exact SkipSt.init e hpos t
  · intro t h1 _
    rw [hq0]
    constructor
    · intro hh; cases hh
    · intro hh; omega

theorem node_skip_done {e : Epoch} {hi s : Nat} {p : Nat × Nat} {voters : Nat → List Nat} {N : Node}
    (n : NSkip e hi s p voters (wEnd s) true [] N) (hq : N.queue = []) : NReady e hi (wEnd s) p N := by
  have tr := n.pool.trkR rfl
  exact ⟨n.alive, hq, n.pool.epoch, tr, fun t ht => n.pool.noAbove t ht,
    fun k hk => by have := n.pool.waiting k hk; have := lt_wEnd s; omega,
    n.votor.ready_next (wEnd_mod s) (lt_wEnd s)⟩

/-! ### the cluster -/

def CSkip (c : Cfg) (hi s : Nat) (p : Nat × Nat) (voters : Nat → List Nat) (k : Nat) (nr : Bool) (q : List Votor.Event)
    (st : State) : Prop :=
  ∀ i ∈ correctIds c, NSkip (c.epoch i) hi s p voters k nr q (st i)

/-- **a silent leader**: the timeouts of the rest of the window fire at every correct node, one voting round (skip votes):
    every correct pool holds skip certificates for all those slots and every correct node is ready for the first slot of
    the next window with the same parent -/
theorem skip_master (c : Cfg) (hpos : 0 < c.stakes.sum) {hi s : Nat} {p : Nat × Nat} {st : State} (hE : wEnd s ≤ hi + 1)
    (r : CReady c hi s p st) (hq : cQuorum c = true) :
    Valid c st (skipSched c s (List.range' s (wEnd s - s)) st) ∧
    CSkip c hi s p (fun _ => correctIds c) (wEnd s) true [] (run st (skipSched c s (List.range' s (wEnd s - s)) st)) ∧
    CReady c hi (wEnd s) p (run st (skipSched c s (List.range' s (wEnd s - s)) st)) ∧
    ∀ i, i ∉ correctIds c → run st (skipSched c s (List.range' s (wEnd s - s)) st) i = st i := by
  -- the timeouts
  have v1 : Valid c st (deliverTimeouts c (List.range' s (wEnd s - s))) := by
    apply valid_of_start c _ st st (SigLog.le.refl _)
    intro ev hev
    obtain ⟨_, hop⟩ := mem_allNodes hev
    obtain ⟨i, op⟩ := ev
    obtain ⟨t, _, rfl⟩ := List.mem_map.mp hop
    trivial
  have m1 : CSkip c hi s p (fun _ => []) s false [] (run st (deliverTimeouts c (List.range' s (wEnd s - s)))) := by
    intro i hi'
    unfold deliverTimeouts
    rw [run_allNodes, if_pos hi']
    exact node_timeouts (by exact hpos) (r i hi')
  have o1 : ∀ i, i ∉ correctIds c → run st (deliverTimeouts c (List.range' s (wEnd s - s))) i = st i := by
    intro i hi'
    unfold deliverTimeouts
    rw [run_allNodes, if_neg hi']
  generalize hst1 : run st (deliverTimeouts c (List.range' s (wEnd s - s))) = st1 at *
  -- the exchange of the skip votes
  have hin : inbox c s st1 = (correctIds c).flatMap (fun j =>
      (List.range' s (wEnd s - s)).map (fun t => NodeOp.recvVote ⟨.skip, t, 0, j⟩)) := by
    unfold inbox
    apply flatMap_congr'
    intro j hj
    rw [(m1 j hj).votor.votes j, List.map_map]
    rfl
  have m2 : CSkip c hi s p (fun _ => correctIds c) (wEnd s) false (skipQ s p (wEnd s)) (run st1 (exchange c s st1)) := by
    intro i hi'
    unfold exchange
    rw [run_allNodes, if_pos hi', hin]
    have hk0 : kDone (c.epoch i) s [] = s := by
      unfold kDone; rw [quorum_nil _ (by exact hpos)]; simp
    have n0 : NSkip (c.epoch i) hi s p (fun _ => []) (kDone (c.epoch i) s []) false (skipQ s p (kDone (c.epoch i) s [])) (st1 i) := by
      rw [hk0]
      have := m1 i hi'
      have hq0 : skipQ s p s = [] := by simp [skipQ]
      rw [hq0]; exact this
    have := node_skip_all (e := c.epoch i) hE (correctIds c) [] (st1 i) (by simpa using correctIds_nodup c)
      (fun j hj => (mem_correctIds.mp hj).1) n0
    have hk1 : kDone (c.epoch i) s ([] ++ correctIds c) = wEnd s := by
      unfold kDone
      have : (c.epoch i).isQuorum (stakeOf (c.epoch i) ([] ++ correctIds c)) = true := by
        rw [List.nil_append]; exact hq
      rw [this]; simp
    rw [hk1] at this
    simpa using this
  have v2 := valid_exchange c s st1
  have o2 := exchange_other c s st1
  generalize hst2 : run st1 (exchange c s st1) = st2 at *
  -- Votor drains the queue
  have v3 : Valid c st2 (pumpAll c st2) := by
    apply valid_of_start c _ st2 st2 (SigLog.le.refl _)
    intro ev hev
    obtain ⟨_, hop⟩ := mem_allNodes hev
    obtain ⟨i, op⟩ := ev
    have := List.eq_of_mem_replicate hop
    simp only at this
    subst this
    trivial
  have hpump : ∀ i ∈ correctIds c, run st2 (pumpAll c st2) i =
      { pool := (st2 i).pool, votor := Votor.run (st2 i).votor (skipQ s p (wEnd s)), queue := [],
        dead := (Votor.run (st2 i).votor (skipQ s p (wEnd s))).panicked } := by
    intro i hi'
    unfold pumpAll
    rw [run_allNodes, if_pos hi']
    rw [nodeRun_pumps (st2 i).queue (st2 i) rfl (by rw [(m2 i hi').alive, (m2 i hi').votor.alive]), (m2 i hi').queue]
  have o3 : ∀ i, i ∉ correctIds c → run st2 (pumpAll c st2) i = st2 i := by
    intro i hi'
    unfold pumpAll
    rw [run_allNodes, if_neg hi']
  have m3 : CSkip c hi s p (fun _ => correctIds c) (wEnd s) true [] (run st2 (pumpAll c st2)) := by
    intro i hi'
    rw [hpump i hi']
    have hv := votor_skip_round (m2 i hi').votor (wEnd s - s) (by have := lt_wEnd s; omega)
    rw [show s + (wEnd s - s) = wEnd s by have := lt_wEnd s; omega] at hv
    simp only [decide_true] at hv
    exact ⟨hv.alive, rfl, (m2 i hi').pool, hv⟩
  have hrun : run st (skipSched c s (List.range' s (wEnd s - s)) st) = run st2 (pumpAll c st2) := by
    simp only [skipSched, round, run_append, hst1, hst2]
  refine ⟨?_, by rw [hrun]; exact m3, ?_, ?_⟩
  · simp only [skipSched, round, valid_append, run_append, hst1, hst2]
    exact ⟨v1, v2, v3⟩
  · intro i hi'
    rw [hrun]
    exact node_skip_done (m3 i hi') (by rw [hpump i hi'])
  · intro i hi'
    rw [hrun, o3 i hi', o2 i hi', o1 i hi']

end AgModel.Cluster
