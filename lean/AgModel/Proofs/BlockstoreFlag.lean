import AgModel.Proofs.BlockstoreInv
/-!
The last-slice flag of stored shreds (helper lemmas for `Props/C14Live.lean`, needed since fix D26: the
repair requester compares a repaired shred's flag with the proven last slice index, so a responder must
only ever serve shreds whose flag agrees with the last slice index it reports).

`FlagInv`: every shred held in a `BlockData` carries `is_last = (its slice is the marked last slice)`.
It holds for the empty block data and is preserved by `add_shred` (for every shred whatsoever) and by
`add_own_slice` (under its own assert).
-/
namespace AgModel.Blockstore
open AgModel.Merkle

/-- every stored shred's last-slice flag agrees with the block data's last-slice marker -/
def FlagInv (b : BlockData) : Prop :=
  ∀ i arr j s, b.shreds i = some arr → arr j = some s → s.isLast = decide (b.lastSlice = some i)

theorem flagInv_new (cap slot : Nat) : FlagInv (BlockData.new cap slot) := by
  intro i arr j s h; simp [BlockData.new] at h

theorem cacheStep_flagInv (b b1 : BlockData) (s : Shred) (hf : FlagInv b) (hc : cacheStep b s = some b1) :
    FlagInv b1 := by
  unfold cacheStep at hc
  repeat' split at hc
  all_goals simp at hc
  all_goals (subst hc; exact hf)

theorem lastStep_flagInv (b b2 : BlockData) (s : Shred) (h : BInv b) (hf : FlagInv b)
    (hcache : b.cache s.slice = some s.commitment) (hl : lastStep b s = some b2) :
    FlagInv b2 ∧ s.isLast = decide (b2.lastSlice = some s.slice) := by
  unfold lastStep at hl
  cases hls : b.lastSlice with
  | some l =>
    rw [hls] at hl
    simp only at hl
    split at hl
    · rename_i hcond
      simp at hl; subst hl
      refine ⟨hf, ?_⟩
      rw [hls]
      simp at hcond
      rcases hcond with ⟨h1, h2⟩ | ⟨h1, h2⟩
      · rw [h2]; symm; simp; omega
      · rw [h2]; symm; simp; omega
    · simp at hl
  | none =>
    rw [hls] at hl
    simp only at hl
    split at hl
    · rename_i hil
      split at hl
      · simp at hl
      · simp at hl; subst hl
        refine ⟨?_, by simp [markLastSlice, hil]⟩
        intro i arr j s' h1 h2
        simp only [markLastSlice, retainLe] at h1 ⊢
        split at h1
        · have hold := hf i arr j s' h1 h2
          rw [hls] at hold
          by_cases hi : i = s.slice
          · subst hi
            exfalso
            have hc' := (h.shr s.slice arr j s' h1 h2).2.2
            rw [hcache] at hc'
            simp only [Option.some.injEq] at hc'
            have : s'.isLast = s.isLast := (congrArg Commitment.isLast hc').symm
            rw [this, hil] at hold
            simp at hold
          · rw [hold]
            simp
            exact fun h => hi h.symm
        · simp at h1
    · rename_i hil
      simp at hl; subst hl
      refine ⟨hf, ?_⟩
      rw [hls]
      simp at hil
      simp [hil]

theorem tryReconstructBlock_shreds_last (b : BlockData) :
    (tryReconstructBlock b).1.shreds = b.shreds ∧ (tryReconstructBlock b).1.lastSlice = b.lastSlice := by
  unfold tryReconstructBlock
  split
  · exact ⟨rfl, rfl⟩
  split
  · exact ⟨rfl, rfl⟩
  split
  · exact ⟨rfl, rfl⟩
  simp only
  repeat' split
  all_goals exact ⟨rfl, rfl⟩

theorem tryReconstructBlock_flagInv (b : BlockData) (hf : FlagInv b) : FlagInv (tryReconstructBlock b).1 := by
  intro i arr j s h1 h2
  rw [(tryReconstructBlock_shreds_last b).1] at h1
  rw [(tryReconstructBlock_shreds_last b).2]
  exact hf i arr j s h1 h2

theorem refill_flag (f : Shred) (arr : ShredArr) (j : Nat) (s : Shred) (v : Bool)
    (hf : f.isLast = v) (harr : ∀ j x, arr j = some x → x.isLast = v) (h : refill f arr j = some s) : s.isLast = v := by
  unfold refill at h
  split at h
  · cases hold : arr j with
    | some x => rw [hold] at h; simp at h; subst h; exact harr j x hold
    | none => rw [hold] at h; simp at h; subst h; exact hf
  · exact harr j s h

theorem tryReconstructSlice_flagInv (env : Nat → Content) (b : BlockData) (k : Nat) (hf : FlagInv b) :
    FlagInv (tryReconstructSlice env b k).1 := by
  unfold tryReconstructSlice
  split
  · exact hf
  split
  · exact hf
  cases harr : b.shreds k with
  | none => exact hf
  | some arr =>
    simp only
    cases hd : deshred env arr with
    | notEnough => exact hf
    | error => exact hf
    | ok r arr' =>
      simp only
      obtain ⟨f, hfm, harr', _, _⟩ := deshred_ok env arr arr' r hd
      obtain ⟨j0, hj0⟩ := present_mem arr f hfm
      have h1 : FlagInv { b with shreds := upd b.shreds k (some arr') } := by
        intro i a j s' ha hs'
        simp only [upd] at ha
        simp only
        split at ha
        · rename_i hik; subst hik
          simp only [Option.some.injEq] at ha; subst ha
          rw [harr'] at hs'
          exact refill_flag f arr j s' _ (hf i arr j0 f harr hj0) (fun j x hx => hf i arr j x harr hx) hs'
        · exact hf i a j s' ha hs'
      split
      · exact h1
      · exact h1

theorem reconstruct_flagInv (env : Nat → Content) (b : BlockData) (k : Nat) (hf : FlagInv b) :
    FlagInv (reconstruct env b k).1 := by
  have h1 := tryReconstructSlice_flagInv env b k hf
  unfold reconstruct
  split
  · rename_i b1 heq; rw [heq] at h1; exact h1
  · rename_i b1 heq; rw [heq] at h1; exact h1
  · rename_i b1 heq; rw [heq] at h1; exact h1
  · rename_i b1 heq; rw [heq] at h1
    simp only at h1
    have h3 := tryReconstructBlock_flagInv b1 h1
    split
    · rename_i b2 heq2; rw [heq2] at h3; exact h3
    · rename_i b2 heq2; rw [heq2] at h3; exact h3
    · rename_i b2 heq2; rw [heq2] at h3; exact h3
    · rename_i b2 info heq2; rw [heq2] at h3; exact h3

theorem storeStep_flagInv (env : Nat → Content) (b : BlockData) (s : Shred) (hf : FlagInv b)
    (hs : s.isLast = decide (b.lastSlice = some s.slice)) : FlagInv (storeStep env b s).1 := by
  have hold : ∀ j x, (b.shreds s.slice).getD arrEmpty j = some x → x.isLast = decide (b.lastSlice = some s.slice) := by
    intro j x hx
    cases hsh : b.shreds s.slice with
    | none => rw [hsh] at hx; simp [arrEmpty] at hx
    | some arr => rw [hsh] at hx; exact hf _ arr j x hsh hx
  unfold storeStep
  simp only
  split
  · intro i a j s' ha hs'
    simp only [upd] at ha
    simp only
    split at ha
    · rename_i hik; subst hik
      simp only [Option.some.injEq] at ha; subst ha
      exact hold j s' hs'
    · exact hf i a j s' ha hs'
  · have h' : FlagInv { b with shreds := upd b.shreds s.slice (some (upd ((b.shreds s.slice).getD arrEmpty) s.idx (some s))) } := by
      intro i a j s' ha hs'
      simp only [upd] at ha
      simp only
      split at ha
      · rename_i hik; subst hik
        simp only [Option.some.injEq] at ha; subst ha
        simp only [upd] at hs'
        split at hs'
        · simp only [Option.some.injEq] at hs'; subst hs'
          exact hs
        · exact hold j s' hs'
      · exact hf i a j s' ha hs'
    split
    · exact h'
    · exact reconstruct_flagInv env _ s.slice h'

/-- **`add_shred` keeps the flags of the stored shreds consistent with the last-slice marker**, for every
    shred whatsoever (a shred is only stored after the last-slice bookkeeping accepted its flag). -/
theorem addShred_flagInv (env : Nat → Content) (b : BlockData) (s : Shred) (h : BInv b) (hf : FlagInv b) :
    FlagInv (addShredCore env b s).1 := by
  unfold addShredCore
  cases hc : cacheStep b s with
  | none => exact hf
  | some b1 =>
    obtain ⟨h1, hcache, _, _, _⟩ := cacheStep_binv b b1 s h hc
    have hf1 := cacheStep_flagInv b b1 s hf hc
    simp only
    cases hl : lastStep b1 s with
    | none => exact hf1
    | some b2 =>
      obtain ⟨hf2, hs⟩ := lastStep_flagInv b1 b2 s h1 hf1 hcache hl
      simp only
      exact storeStep_flagInv env b2 s hf2 hs

theorem addOwnSlice_flagInv (b : BlockData) (c : Commitment) (sz : Nat) (parent : Option (Nat × Nat))
    (txs : Option (List Nat)) (hf : FlagInv b) (hl : b.lastSlice = none) :
    FlagInv (addOwnSlice b c sz parent txs).1 := by
  rw [addOwnSlice_fst b c sz parent txs hl]
  apply tryReconstructBlock_flagInv
  unfold ownInsert
  by_cases hil : c.isLast = true
  · simp only [hil, if_true, markLastSlice]
    intro i arr j s h1 h2
    simp only [upd] at h1
    simp only
    split at h1
    · rename_i hi; subst hi
      simp only [Option.some.injEq] at h1; subst h1
      simp only at h2
      split at h2
      · simp only [Option.some.injEq] at h2; subst h2
        simp
      · simp at h2
    · rename_i hi
      simp only [retainLe] at h1
      split at h1
      · have := hf i arr j s h1 h2
        rw [hl] at this
        rw [this]
        simp
        exact fun h => hi h.symm
      · simp at h1
  · have hil' : c.isLast = false := by simpa using hil
    simp only [hil', Bool.false_eq_true, if_false]
    intro i arr j s h1 h2
    simp only [upd] at h1
    simp only
    rw [hl]
    split at h1
    · rename_i hi; subst hi
      simp only [Option.some.injEq] at h1; subst h1
      simp only at h2
      split at h2
      · simp only [Option.some.injEq] at h2; subst h2
        simp [hil']
      · simp at h2
    · have := hf i arr j s h1 h2
      rw [hl] at this
      exact this

end AgModel.Blockstore
