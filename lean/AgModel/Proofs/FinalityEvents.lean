import AgModel.Proofs.Finality
/-!
# What the events of the tracker say about its state (no safety premise needed)

`EvSpec st st' F S`: going from status map `st` to `st'`, exactly the slots of `F` (finalized, with their block)
and `S` (implicitly skipped) went from undecided to decided, each listed once; decided slots kept their answer.
-/
namespace AgModel.Finality

/-- all blocks an event reports as finalized -/
def evF (ev : Event) : List (Nat × Nat) := ev.finalized.toList ++ ev.implFinalized

structure EvSpec (st st' : Nat → Option Status) (F : List (Nat × Nat)) (S : List Nat) : Prop where
  stable : Stable st st'
  fin : ∀ b, b ∈ F → ¬ Dec (st b.1) ∧ finalHash (st' b.1) = some b.2
  skip : ∀ s, s ∈ S → ¬ Dec (st s) ∧ st' s = some .implSkipped
  new : ∀ s, ¬ Dec (st s) → Dec (st' s) → s ∈ S ∨ ∃ h, (s, h) ∈ F
  nodupF : (F.map (·.1)).Nodup
  nodupS : S.Nodup

theorem dec_of_finalHash' {o : Option Status} {h : Nat} (e : finalHash o = some h) : Dec o := by
  cases o with
  | none => cases e
  | some x =>
    cases x with
    | notarized _ => cases e
    | finalPending => cases e
    | finalized _ => exact dec_some.mpr rfl
    | implFinalized _ => exact dec_some.mpr rfl
    | implSkipped => cases e

theorem EvSpec.refl (st : Nat → Option Status) : EvSpec st st [] [] :=
  ⟨Stable.refl st, (fun _ h => by cases h), (fun _ h => by cases h), fun _ a b => absurd b a,
   List.nodup_nil, List.nodup_nil⟩

/-- same decided answers, nothing newly decided -/
theorem EvSpec.of_same {st st' : Nat → Option Status} (h1 : Stable st st')
    (h2 : ∀ s, Dec (st' s) → Dec (st s)) : EvSpec st st' [] [] :=
  ⟨h1, (fun _ h => by cases h), (fun _ h => by cases h), fun s a b => absurd (h2 s b) a,
   List.nodup_nil, List.nodup_nil⟩

theorem EvSpec.trans {a b c : Nat → Option Status} {F1 F2 : List (Nat × Nat)} {S1 S2 : List Nat}
    (h1 : EvSpec a b F1 S1) (h2 : EvSpec b c F2 S2) : EvSpec a c (F1 ++ F2) (S1 ++ S2) := by
  refine ⟨h1.stable.trans h2.stable, ?_, ?_, ?_, ?_, ?_⟩
  · intro x hx
    rcases List.mem_append.mp hx with hx | hx
    · have ⟨n, e⟩ := h1.fin x hx
      have := h2.stable x.1 (dec_of_finalHash' e)
      exact ⟨n, this.2.trans e⟩
    · have ⟨n, e⟩ := h2.fin x hx
      exact ⟨fun d => n (h1.stable x.1 d).1, e⟩
  · intro s hs
    rcases List.mem_append.mp hs with hs | hs
    · have ⟨n, e⟩ := h1.skip s hs
      have ⟨d, fh⟩ := h2.stable s (e ▸ dec_some.mpr rfl)
      refine ⟨n, ?_⟩
      rw [e] at fh
      obtain ⟨x, hx, hd⟩ := d
      rw [hx] at fh ⊢
      cases x with
      | notarized _ => cases hd
      | finalPending => cases hd
      | finalized _ => cases fh
      | implFinalized _ => cases fh
      | implSkipped => rfl
    · have ⟨n, e⟩ := h2.skip s hs
      exact ⟨fun d => n (h1.stable s d).1, e⟩
  · intro s n d
    by_cases db : Dec (b s)
    · rcases h1.new s n db with h | ⟨h, hh⟩
      · exact Or.inl (List.mem_append_left _ h)
      · exact Or.inr ⟨h, List.mem_append_left _ hh⟩
    · rcases h2.new s db d with h | ⟨h, hh⟩
      · exact Or.inl (List.mem_append_right _ h)
      · exact Or.inr ⟨h, List.mem_append_right _ hh⟩
  · rw [List.map_append, List.nodup_append]
    refine ⟨h1.nodupF, h2.nodupF, ?_⟩
    intro x hx y hy e
    obtain ⟨bx, hbx, rfl⟩ := List.mem_map.mp hx
    obtain ⟨by', hby, rfl⟩ := List.mem_map.mp hy
    have d := dec_of_finalHash' (h1.fin bx hbx).2
    rw [e] at d
    exact (h2.fin by' hby).1 d
  · rw [List.nodup_append]
    refine ⟨h1.nodupS, h2.nodupS, ?_⟩
    intro x hx y hy e
    subst e
    have d : Dec (b x) := (h1.skip x hx).2 ▸ dec_some.mpr rfl
    exact (h2.skip x hy).1 d

theorem evspec_set_skip {st : Nat → Option Status} {s : Nat} (hn : ¬ Dec (st s)) :
    EvSpec st (setSt st s .implSkipped) [] [s] := by
  refine ⟨stable_set_undecided hn, (fun _ h => by cases h), ?_, ?_, List.nodup_nil, by simp⟩
  · intro x hx
    have : x = s := by simpa using hx
    subst this
    exact ⟨hn, by simp [setSt]⟩
  · intro x n d
    left
    by_cases hx : x = s
    · subst hx; simp
    · exfalso
      have : setSt st s .implSkipped x = st x := by simp [setSt, hx]
      rw [this] at d; exact n d

theorem evspec_set_fin {st : Nat → Option Status} {s h : Nat} {v : Status} (hn : ¬ Dec (st s))
    (hv : finalHash (some v) = some h) : EvSpec st (setSt st s v) [(s, h)] [] := by
  refine ⟨stable_set_undecided hn, ?_, (fun _ h => by cases h), ?_, by simp, List.nodup_nil⟩
  · intro x hx
    have : x = (s, h) := by simpa using hx
    subst this
    refine ⟨hn, ?_⟩
    show finalHash (setSt st s v s) = some h
    simp only [setSt, if_true]; exact hv
  · intro x n d
    right
    by_cases hx : x = s
    · subst hx; exact ⟨h, by simp⟩
    · exfalso
      have : setSt st s v x = st x := by simp [setSt, hx]
      rw [this] at d; exact n d

/-! ### the implicit-skip loop -/

theorem skipLoop_evspec {st : Nat → Option Status} {acc : List Nat} {n slot : Nat}
    {st' : Nat → Option Status} {sk : List Nat}
    (h : skipLoop st acc n slot = .cont st' sk ∨ skipLoop st acc n slot = .ret st' sk) :
    ∃ S, sk = acc ++ S ∧ EvSpec st st' [] S := by
  induction n generalizing st acc slot with
  | zero =>
    simp only [skipLoop] at h
    rcases h with h | h
    · cases h; exact ⟨[], by simp, EvSpec.refl _⟩
    · cases h
  | succ n ih =>
    simp only [skipLoop] at h
    split at h
    · rcases h with h | h
      · cases h
      · cases h; exact ⟨[], by simp, EvSpec.refl _⟩
    · rename_i hst
      obtain ⟨S, e, sp⟩ := ih h
      have hn : ¬ Dec (st slot) := by rw [hst]; simp [dec_some, Status.decided]
      exact ⟨[slot] ++ S, by rw [e]; simp, (evspec_set_skip hn).trans sp⟩
    · rename_i hst
      obtain ⟨S, e, sp⟩ := ih h
      have hn : ¬ Dec (st slot) := by rw [hst]; exact not_dec_none
      exact ⟨[slot] ++ S, by rw [e]; simp, (evspec_set_skip hn).trans sp⟩
    · rcases h with h | h <;> cases h

/-! ### the walk -/

theorem walk_evspec {f : Nat} {t : Tracker} {src : Nat} {blk : Nat × Nat} {ev : Event}
    {t' : Tracker} {ev' : Event} (h : walk f t src blk ev = some (t', ev')) :
    ∃ F S, ev'.implFinalized = ev.implFinalized ++ F ∧ ev'.implSkipped = ev.implSkipped ++ S ∧
      EvSpec t.status t'.status F S := by
  induction f generalizing t src blk ev with
  | zero => simp only [walk] at h; cases h
  | succ f ih =>
    simp only [walk] at h
    split at h
    · cases h
    split at h
    · cases h; exact ⟨[], [], by simp, by simp, EvSpec.refl _⟩
    split at h
    · cases h
    · rename_i st sk hloop
      cases h
      obtain ⟨S, e, sp⟩ := skipLoop_evspec (Or.inr hloop)
      exact ⟨[], S, by simp, e, sp⟩
    · rename_i st sk hloop
      obtain ⟨S, e, sp⟩ := skipLoop_evspec (Or.inl hloop)
      have hgo : ∀ (hn : ¬ Dec (st blk.1)),
          (match t.parents blk with
            | some p => walk f { t with status := setSt st blk.1 (.implFinalized blk.2) } blk.1 p
                { finalized := ev.finalized, implFinalized := ev.implFinalized ++ [blk], implSkipped := sk }
            | none => some ({ t with status := setSt st blk.1 (.implFinalized blk.2) },
                { finalized := ev.finalized, implFinalized := ev.implFinalized ++ [blk], implSkipped := sk })) = some (t', ev') →
          ∃ F S, ev'.implFinalized = ev.implFinalized ++ F ∧ ev'.implSkipped = ev.implSkipped ++ S ∧
            EvSpec t.status t'.status F S := by
        intro hn hw
        have sp2 : EvSpec st (setSt st blk.1 (.implFinalized blk.2)) [(blk.1, blk.2)] [] :=
          evspec_set_fin hn rfl
        split at hw
        · obtain ⟨F3, S3, e1, e2, sp3⟩ := ih hw
          refine ⟨[blk] ++ F3, S ++ S3, ?_, ?_, ?_⟩
          · rw [e1]; simp
          · rw [e2, e]; simp
          · have := (sp.trans sp2).trans sp3
            simpa using this
        · cases hw
          refine ⟨[blk], S, rfl, e, ?_⟩
          have := sp.trans sp2
          simpa using this
      have hstop : ∃ F S, ({ ev with implSkipped := sk } : Event).implFinalized = ev.implFinalized ++ F ∧
          ({ ev with implSkipped := sk } : Event).implSkipped = ev.implSkipped ++ S ∧ EvSpec t.status st F S :=
        ⟨[], S, by simp, e, sp⟩
      split at h
      · split at h
        · cases h; exact hstop
        · cases h
      · split at h
        · cases h; exact hstop
        · cases h
      · cases h
      · rename_i hst
        exact hgo (by rw [hst]; simp [dec_some, Status.decided]) h
      · rename_i hst
        exact hgo (by rw [hst]; simp [dec_some, Status.decided]) h
      · rename_i hst
        exact hgo (by rw [hst]; exact not_dec_none) h


/-! ### one operation: the state before the final `prune()` -/

/-- `m` is the state an operation reaches before its final `prune()`, `ev` its event -/
structure MidEv (t m : Tracker) (ev : Event) : Prop where
  first : m.first = t.first
  hi : m.highest = t.highest ∨ ∃ b, b ∈ evF ev ∧ m.highest = max b.1 t.highest
  low : ∀ s, s < t.first → m.status s = t.status s
  spec : EvSpec t.status m.status (evF ev) ev.implSkipped

theorem MidEv.same (t : Tracker) : MidEv t t {} := ⟨rfl, Or.inl rfl, fun _ _ => rfl, EvSpec.refl _⟩

theorem evspec_set_same {st : Nat → Option Status} {s : Nat} {v : Status}
    (h1 : Dec (st s) → v.decided = true ∧ finalHash (some v) = finalHash (st s))
    (h2 : v.decided = true → Dec (st s)) : EvSpec st (setSt st s v) [] [] := by
  refine EvSpec.of_same ?_ ?_
  · intro x d
    by_cases hx : x = s
    · subst hx
      have ⟨a, b⟩ := h1 d
      simp only [setSt, if_true]
      exact ⟨dec_some.mpr a, b⟩
    · simp only [setSt, hx, if_false]; exact ⟨d, trivial⟩
  · intro x d
    by_cases hx : x = s
    · subst hx
      simp only [setSt, if_true] at d
      exact h2 (dec_some.mp d)
    · simp only [setSt, hx, if_false] at d; exact d

theorem midEv_set_same {t : Tracker} {s : Nat} {v : Status} (hs : t.first ≤ s)
    (h1 : Dec (t.status s) → v.decided = true ∧ finalHash (some v) = finalHash (t.status s))
    (h2 : v.decided = true → Dec (t.status s)) : MidEv t { t with status := setSt t.status s v } {} := by
  refine ⟨rfl, Or.inl rfl, ?_, evspec_set_same h1 h2⟩
  intro x hx
  show setSt t.status s v x = _
  have : x ≠ s := by omega
  simp only [setSt, this, if_false]

theorem hfb_mid {t : Tracker} {blk : Nat × Nat} {t' : Tracker} {ev : Event}
    (hnd : ¬ Dec (t.status blk.1)) (hw : t.first ≤ blk.1)
    (h : handleFinalizedBlock { t with status := setSt t.status blk.1 (.finalized blk.2) } blk {} = .ok t' ev) :
    ∃ m, MidEv t m ev ∧ t' = prune m := by
  have sp1 : EvSpec t.status (setSt t.status blk.1 (.finalized blk.2)) [(blk.1, blk.2)] [] :=
    evspec_set_fin hnd rfl
  have low1 : ∀ x, x < t.first → setSt t.status blk.1 (.finalized blk.2) x = t.status x := by
    intro x hx
    have : x ≠ blk.1 := by omega
    simp only [setSt, this, if_false]
  simp only [handleFinalizedBlock] at h
  split at h
  · split at h
    · rename_i p hp t2 ev2 hw2
      cases h
      have w := walk_spec hw2
      obtain ⟨F, S, e1, e2, sp2⟩ := walk_evspec hw2
      have e3 := walk_finalized hw2
      have hF : evF ev = [(blk.1, blk.2)] ++ F := by
        unfold evF; rw [e3, e1]; rfl
      refine ⟨t2, ⟨w.first, Or.inr ⟨blk, by rw [hF]; simp, w.highest⟩, ?_, ?_⟩, rfl⟩
      · intro x hx
        rcases w.evolves x with e | ⟨l, _, _, _⟩
        · rw [e]; exact low1 x hx
        · have l' : t.first ≤ x := l
          omega
      · have hS : ev.implSkipped = [] ++ S := by rw [e2]
        rw [hF, hS]
        exact sp1.trans sp2
    · cases h
  · cases h
    exact ⟨{ status := setSt t.status blk.1 (.finalized blk.2), parents := t.parents,
             highest := max blk.1 t.highest, first := t.first },
           ⟨rfl, Or.inr ⟨blk, by simp [evF], rfl⟩, low1, sp1⟩, rfl⟩

theorem markFastFinalized_mid {t : Tracker} {blk : Nat × Nat} {t' : Tracker} {ev : Event}
    (h : markFastFinalized t blk = .ok t' ev) : ∃ m, MidEv t m ev ∧ ((t' = m ∧ ev = {}) ∨ t' = prune m) := by
  simp only [markFastFinalized] at h
  split at h
  · cases h; exact ⟨_, MidEv.same t, Or.inl ⟨rfl, rfl⟩⟩
  rename_i hlow
  have hw : t.first ≤ blk.1 := by omega
  split at h
  · rename_i hh hst
    split at h
    · rename_i heq
      cases h
      refine ⟨_, midEv_set_same hw (fun _ => ⟨rfl, by rw [hst, heq]⟩) (fun _ => by rw [hst]; exact dec_some.mpr rfl),
        Or.inl ⟨rfl, rfl⟩⟩
    · cases h
  · rename_i hh hst
    split at h
    · rename_i heq
      cases h
      refine ⟨_, midEv_set_same hw (fun _ => ⟨rfl, by rw [hst, heq]; rfl⟩)
        (fun _ => by rw [hst]; exact dec_some.mpr rfl), Or.inl ⟨rfl, rfl⟩⟩
    · cases h
  · rename_i hh hst
    split at h
    · obtain ⟨m, a, b⟩ := hfb_mid (by rw [hst]; simp [dec_some, Status.decided]) hw h
      exact ⟨m, a, Or.inr b⟩
    · cases h
  · rename_i hst
    obtain ⟨m, a, b⟩ := hfb_mid (by rw [hst]; simp [dec_some, Status.decided]) hw h
    exact ⟨m, a, Or.inr b⟩
  · cases h
  · rename_i hst
    obtain ⟨m, a, b⟩ := hfb_mid (by rw [hst]; exact not_dec_none) hw h
    exact ⟨m, a, Or.inr b⟩

theorem markNotarized_mid {t : Tracker} {blk : Nat × Nat} {t' : Tracker} {ev : Event}
    (h : markNotarized t blk = .ok t' ev) : ∃ m, MidEv t m ev ∧ ((t' = m ∧ ev = {}) ∨ t' = prune m) := by
  simp only [markNotarized] at h
  split at h
  · cases h; exact ⟨_, MidEv.same t, Or.inl ⟨rfl, rfl⟩⟩
  rename_i hlow
  have hw : t.first ≤ blk.1 := by omega
  have hund : ∀ {v : Status}, ¬ Dec (t.status blk.1) → v.decided = false →
      MidEv t { t with status := setSt t.status blk.1 v } {} := by
    intro v hn hv
    exact midEv_set_same hw (fun d => absurd d hn) (fun d => by rw [hv] at d; cases d)
  split at h
  · rename_i hst
    cases h
    exact ⟨_, hund (by rw [hst]; exact not_dec_none) rfl, Or.inl ⟨rfl, rfl⟩⟩
  · rename_i hh hst
    split at h
    · cases h
      exact ⟨_, hund (by rw [hst]; simp [dec_some, Status.decided]) rfl, Or.inl ⟨rfl, rfl⟩⟩
    · cases h
  · split at h
    · cases h; exact ⟨_, MidEv.same t, Or.inl ⟨rfl, rfl⟩⟩
    · cases h
  · cases h; exact ⟨_, MidEv.same t, Or.inl ⟨rfl, rfl⟩⟩
  · cases h; exact ⟨_, MidEv.same t, Or.inl ⟨rfl, rfl⟩⟩
  · rename_i hst
    obtain ⟨m, a, b⟩ := hfb_mid (by rw [hst]; simp [dec_some, Status.decided]) hw h
    exact ⟨m, a, Or.inr b⟩

theorem markFinalized_mid {t : Tracker} {slot : Nat} {t' : Tracker} {ev : Event}
    (h : markFinalized t slot = .ok t' ev) : ∃ m, MidEv t m ev ∧ ((t' = m ∧ ev = {}) ∨ t' = prune m) := by
  simp only [markFinalized] at h
  split at h
  · cases h; exact ⟨_, MidEv.same t, Or.inl ⟨rfl, rfl⟩⟩
  rename_i hlow
  have hw : t.first ≤ slot := by omega
  have hund : ∀ {v : Status}, ¬ Dec (t.status slot) → v.decided = false →
      MidEv t { t with status := setSt t.status slot v } {} := by
    intro v hn hv
    exact midEv_set_same hw (fun d => absurd d hn) (fun d => by rw [hv] at d; cases d)
  split at h
  · rename_i hst
    cases h
    exact ⟨_, hund (by rw [hst]; exact not_dec_none) rfl, Or.inl ⟨rfl, rfl⟩⟩
  · rename_i hst
    cases h
    exact ⟨_, hund (by rw [hst]; simp [dec_some, Status.decided]) rfl, Or.inl ⟨rfl, rfl⟩⟩
  · cases h; exact ⟨_, MidEv.same t, Or.inl ⟨rfl, rfl⟩⟩
  · cases h; exact ⟨_, MidEv.same t, Or.inl ⟨rfl, rfl⟩⟩
  · rename_i hh hst
    obtain ⟨m, a, b⟩ := hfb_mid (blk := (slot, hh)) (by rw [hst]; simp [dec_some, Status.decided]) hw h
    exact ⟨m, a, Or.inr b⟩
  · cases h

theorem addParent_mid {t : Tracker} {blk par : Nat × Nat} {t' : Tracker} {ev : Event}
    (h : addParent t blk par = .ok t' ev) : ∃ m, MidEv t m ev ∧ ((t' = m ∧ ev = {}) ∨ t' = prune m) := by
  simp only [addParent] at h
  split at h
  · cases h
  split at h
  · cases h; exact ⟨_, MidEv.same t, Or.inl ⟨rfl, rfl⟩⟩
  split at h
  · split at h
    · cases h; exact ⟨_, MidEv.same t, Or.inl ⟨rfl, rfl⟩⟩
    · cases h
  have hsame : MidEv t { t with parents := setPar t.parents blk par } {} :=
    ⟨rfl, Or.inl rfl, fun _ _ => rfl, EvSpec.refl _⟩
  have hfin : ∀ hh : Nat,
      (if blk.2 = hh then
        match walk blk.1 { t with parents := setPar t.parents blk par } blk.1 par {} with
        | some (t2, ev) => Res.ok (prune t2) ev
        | none => Res.panic
       else Res.ok { t with parents := setPar t.parents blk par } {}) = .ok t' ev →
      ∃ m, MidEv t m ev ∧ ((t' = m ∧ ev = {}) ∨ t' = prune m) := by
    intro hh hr
    split at hr
    · split at hr
      · rename_i t2 ev2 hw2
        cases hr
        have w := walk_spec hw2
        obtain ⟨F, S, e1, e2, sp2⟩ := walk_evspec hw2
        have e3 := walk_finalized hw2
        refine ⟨t2, ⟨w.first, Or.inl w.highest, ?_, ?_⟩, Or.inr rfl⟩
        · intro x hx
          rcases w.evolves x with e | ⟨l, _, _, _⟩
          · exact e
          · have l' : t.first ≤ x := l
            omega
        · have hF : evF ev = F := by
            unfold evF; rw [e3, e1]; rfl
          have hS : ev.implSkipped = S := by rw [e2]; rfl
          rw [hF, hS]
          exact sp2
      · cases hr
    · cases hr; exact ⟨_, hsame, Or.inl ⟨rfl, rfl⟩⟩
  split at h
  · exact hfin _ h
  · exact hfin _ h
  · cases h; exact ⟨_, hsame, Or.inl ⟨rfl, rfl⟩⟩

theorem step_mid {t : Tracker} {op : Op} {t' : Tracker} {ev : Event}
    (h : step t op = .ok t' ev) : ∃ m, MidEv t m ev ∧ ((t' = m ∧ ev = {}) ∨ t' = prune m) := by
  cases op with
  | parent b p => exact addParent_mid h
  | fastFinal b => exact markFastFinalized_mid h
  | notar b => exact markNotarized_mid h
  | final s => exact markFinalized_mid h

end AgModel.Finality
