import AgModel.Proofs.PoolSigned
import AgModel.Proofs.PoolEvGen
/-!
# C01 cluster refinement, pool part 2: the signed-pool invariant through every pool operation

`SgInv S e par p` — for a pool `p` of a node with epoch `e`, relative to the signature log `S` and the global parent
function `par` (the hash binds the parent):

* every slot state satisfies `QS` : counters are recounts (`InvV`, C03), stored votes are signed (`QV`), held
  certificates are well-placed and backed (`QC`);
* `SoundInv` (C06 glue) with "certified" := *a backed notarization / notar-fallback / fast-finalization certificate
  exists*, over a registration list that agrees with `par`.

`poolStep_sginv`: kept by every pool operation whose vote is signed / whose certificate is backed / whose block
registration agrees with `par`; `poolStep_goodP`: every event the operation emits is justified (`GoodP`):
certificates are backed, safe-to-notar comes with a slot state witnessing the stake clause over signed votes and with a
certified registered parent, safe-to-skip with a slot state witnessing its stake clause.
-/
namespace AgModel.Pool

/-- the per-slot invariant -/
def QS (S : SigLog) (e : Epoch) (st : SlotState) : Prop := InvV e st ∧ QV S st ∧ QC S e st

theorem QS.mono {S S' : SigLog} {e : Epoch} {st : SlotState} (h : QS S e st) (hl : S.le S') : QS S' e st :=
  ⟨h.1, h.2.1.mono hl, h.2.2.mono hl⟩

theorem QS.init (S : SigLog) (e : Epoch) (hpos : 0 < e.total) (s : Nat) : QS S e { slot := s } :=
  ⟨(Inv.init e s hpos).1, QV.init S s, QC.init S e s⟩

theorem QS.of_coreEq {S : SigLog} {e : Epoch} {a b : SlotState} (h : QS S e a) (c : CoreEq a b) : QS S e b :=
  ⟨h.1.of_coreEq c, h.2.1.of_sameVotes (SameVotes.of_coreEq c), h.2.2.of_coreEq c⟩

theorem QV.stored {S : SigLog} {e : Epoch} {st : SlotState} (h : QV S st) (v : Vote) (hs : st.slot = v.slot)
    (hv : S.holds v) : QV S (st.stored e v) := by
  unfold SigLog.holds at hv
  unfold SlotState.stored
  cases hk : v.kind <;> simp only [hk] at hv ⊢
  · refine ⟨?_, h.nf, h.skip, h.sf, h.fin⟩
    intro j x hx
    rcases List.mem_append.mp hx with hx | hx
    · exact h.notar j x hx
    · simp only [List.mem_singleton, Prod.mk.injEq] at hx
      obtain ⟨rfl, rfl⟩ := hx
      show S.notar v.signer st.slot v.hash
      rw [hs]; exact hv
  · refine ⟨h.notar, ?_, h.skip, h.sf, h.fin⟩
    intro j x hx
    rcases List.mem_append.mp hx with hx | hx
    · exact h.nf j x hx
    · simp only [List.mem_singleton, Prod.mk.injEq] at hx
      obtain ⟨rfl, rfl⟩ := hx
      show S.nf v.signer st.slot v.hash
      rw [hs]; exact hv
  · refine ⟨h.notar, h.nf, ?_, h.sf, h.fin⟩
    intro j hx
    rcases List.mem_append.mp hx with hx | hx
    · exact h.skip j hx
    · simp only [List.mem_singleton] at hx
      subst hx
      show S.skip v.signer st.slot
      rw [hs]; exact hv
  · refine ⟨h.notar, h.nf, h.skip, ?_, h.fin⟩
    intro j hx
    rcases List.mem_append.mp hx with hx | hx
    · exact h.sf j hx
    · simp only [List.mem_singleton] at hx
      subst hx
      show S.sf v.signer st.slot
      rw [hs]; exact hv
  · refine ⟨h.notar, h.nf, h.skip, h.sf, ?_⟩
    intro j hx
    rcases List.mem_append.mp hx with hx | hx
    · exact h.fin j hx
    · simp only [List.mem_singleton] at hx
      subst hx
      show S.fin v.signer st.slot
      rw [hs]; exact hv

theorem QS.stored {S : SigLog} {e : Epoch} {st : SlotState} (h : QS S e st) (v : Vote) (hs : st.slot = v.slot) (ha : Adm st v)
    (hv : S.holds v) : QS S e (st.stored e v) :=
  ⟨stored_InvV e st v h.1 ha, h.2.1.stored v hs hv,
   h.2.2.of_eq (stored_slot e st v) (stored_cNotar e st v) (by unfold SlotState.stored; cases v.kind <;> rfl)
     (stored_cSkip e st v) (stored_cFf e st v) (stored_cFin e st v)⟩

theorem QS.addCert {S : SigLog} {e : Epoch} {st : SlotState} (h : QS S e st) (c : Cert) (hs : c.slot = st.slot)
    (hb : CertBacked S e c) : QS S e (st.addCert c) :=
  ⟨InvV_addCert e st c h.1, h.2.1.of_sameVotes (SameVotes.addCert st c), h.2.2.addCert c hs hb⟩

/-- safe-to events come with a slot state that witnesses their stake condition over signed votes -/
def GoodW (S : SigLog) (e : Epoch) : Event → Prop
  | .s2n s h => ∃ st, st.slot = s ∧ InvV e st ∧ QV S st ∧ S2NCond e st h
  | .s2s s => ∃ st, st.slot = s ∧ InvV e st ∧ QV S st ∧ S2SCond e st
  | _ => True

theorem GoodW.mono {S S' : SigLog} {e : Epoch} {ev : Event} (h : GoodW S e ev) (hl : S.le S') : GoodW S' e ev := by
  cases ev with
  | s2n s hh => obtain ⟨st, a, b, c, d⟩ := h; exact ⟨st, a, b, c.mono hl, d⟩
  | s2s s => obtain ⟨st, a, b, c, d⟩ := h; exact ⟨st, a, b, c.mono hl, d⟩
  | _ => trivial

theorem evGen (S : SigLog) (e : Epoch) (hpos : 0 < e.total) : EvGen e (QS S e) (GoodW S e) where
  init := QS.init S e hpos
  kid := fun k st st' evs _ hn hq => hq.of_coreEq (notifyParentCertified_core e st k.2 st' evs hn)
  known := fun st h hq => by
    unfold SlotState.notifyParentKnown
    split
    · exact hq
    · exact hq.of_coreEq ⟨rfl⟩
  sound := fun st evs hq hs ev hev => by
    have := hs ev hev
    cases ev with
    | s2n s h => exact ⟨st, this.1.symm, hq.1, hq.2.1, this.2⟩
    | s2s s => exact ⟨st, this.1.symm, hq.1, hq.2.1, this.2⟩
    | _ => trivial
  pr := fun _ _ _ => trivial
  panic := trivial
  repair := fun _ _ => trivial
  cert := fun _ => trivial

/-- the premise on an operation -/
def OpOk (S : SigLog) (e : Epoch) (par : Nat × Nat → Nat × Nat) : PoolOp → Prop
  | .vote v => S.holds v
  | .cert c => CertBacked S e c
  | .block b p => par b = p

/-- the certificates a stored, admitted, signed vote creates are backed -/
theorem created_backed {S : SigLog} {e : Epoch} {st : SlotState} (h : QS S e st) (v : Vote) (hs : st.slot = v.slot)
    (ha : Adm st v) (hv : S.holds v) : ∀ c ∈ (st.addVote e v).2.1, c.slot = st.slot ∧ CertBacked S e c := by
  intro c hc
  rw [addVote_certs] at hc
  have hst := h.stored v hs ha hv
  have j := newCerts_justified e (st.stored e v) v hst.1 c hc
  exact ⟨j.1.trans (stored_slot e st v), CertBacked.of_justified hst.2.1 j⟩

theorem opKeeps {S : SigLog} {e : Epoch} {par : Nat × Nat → Nat × Nat} {op : PoolOp} (hop : OpOk S e par op) :
    OpKeeps e (QS S e) op := by
  cases op with
  | vote v =>
    intro st hs ha hq
    refine ⟨(hq.stored v hs ha hop).of_coreEq (addVote_core e st v).symm, ?_⟩
    intro c hc st' hs' hq'
    exact hq'.addCert c hs'.symm (created_backed hq v hs ha hop c hc).2
  | cert c => intro st hs hq; exact hq.addCert c hs.symm hop
  | block b p => trivial

/-! ### certificate events -/

theorem mem_certsOf {evs : List Event} {c : Cert} : Event.cert c ∈ evs ↔ LogItem.cert c ∈ certsOf evs := by
  unfold certsOf
  constructor
  · intro h; exact List.mem_filterMap.mpr ⟨.cert c, h, rfl⟩
  · intro h
    obtain ⟨ev, hm, hs⟩ := List.mem_filterMap.mp h
    cases ev with
    | cert c' => simp only [Option.some.injEq, LogItem.cert.injEq] at hs; subst hs; exact hm
    | _ => simp at hs

/-- **Every certificate announced by an operation is backed.** -/
theorem poolStep_certs {S : SigLog} {e : Epoch} {par : Nat × Nat → Nat × Nat} (hpos : 0 < e.total) (p : Pool) (op : PoolOp)
    (h : PInv e (QS S e) p) (hop : OpOk S e par op) : ∀ c, Event.cert c ∈ (poolStep p op).2 → CertBacked S e c := by
  intro c hc
  rw [mem_certsOf] at hc
  cases op with
  | vote v =>
    simp only [poolStep] at hc
    rcases addVote_out p v with ⟨_, _, h3⟩ | ⟨_, h3⟩ | ⟨hok, h3⟩
    · rw [h3] at hc; simp [certsOf] at hc
    · rw [h3] at hc; simp [certsOf] at hc
    · have ha := addVote_ok_adm p v hok
      have hst : QS S e (p.slotState v.slot).2 := h.2.slotState_snd v.slot (QS.init S e hpos _)
      rw [h3, certsOf_append, certsOf_addValidCerts, certsOf_quiet (slot_addVote_quiet _ _ _)] at hc
      simp only [certsOf, List.filterMap_nil, List.nil_append, List.append_nil, List.mem_map, LogItem.cert.injEq,
        exists_eq_right] at hc
      rw [h.1] at hc
      exact (created_backed hst v (slotState_snd_slot p v.slot) ha hop c hc).2
  | cert c' =>
    simp only [poolStep] at hc
    rcases addCert_out p c' with ⟨_, h3⟩ | ⟨_, h3⟩
    · rw [h3] at hc; simp [certsOf] at hc
    · rw [h3, certsOf_addValidCert] at hc
      simp only [List.mem_singleton, LogItem.cert.injEq] at hc
      subst hc; exact hop
  | block b p' =>
    simp only [poolStep] at hc
    rw [certsOf_addBlock] at hc
    cases hc

/-! ### the certified-parent part -/

/-- a backed notarization / notar-fallback / fast-finalization certificate exists for the block -/
def CertifiedS (S : SigLog) (e : Epoch) (x : Nat × Nat) : Prop :=
  ∃ c, c.strong ∧ (c.slot, c.hash) = x ∧ CertBacked S e c

theorem CertifiedS.mono {S S' : SigLog} {e : Epoch} {x : Nat × Nat} (h : CertifiedS S e x) (hl : S.le S') : CertifiedS S' e x := by
  obtain ⟨c, a, b, d⟩ := h; exact ⟨c, a, b, d.mono hl⟩

/-- the full pool invariant -/
structure SgInv (S : SigLog) (e : Epoch) (par : Nat × Nat → Nat × Nat) (p : Pool) : Prop where
  slots : PInv e (QS S e) p
  sound : ∃ R : List Reg, (∀ r ∈ R, par r.1 = r.2) ∧ SoundInv e R (CertifiedS S e) p

theorem SgInv.init (S : SigLog) (e : Epoch) (par : Nat × Nat → Nat × Nat) : SgInv S e par { epoch := e } :=
  ⟨⟨rfl, SlotsSat.init e _⟩, [], (by intro r hr; cases hr), SoundInv.init e |>.mono (fun _ h => h) (fun _ h => h.elim)⟩

theorem SgInv.mono {S S' : SigLog} {e : Epoch} {par : Nat × Nat → Nat × Nat} {p : Pool} (h : SgInv S e par p) (hl : S.le S') :
    SgInv S' e par p := by
  obtain ⟨R, hr, hs⟩ := h.sound
  exact ⟨⟨h.slots.1, h.slots.2.mono (fun _ hq => hq.mono hl)⟩, R, hr, hs.mono (fun _ x => x) (fun _ x => x.mono hl)⟩

/-- what is known about an emitted event -/
def GoodP (S : SigLog) (e : Epoch) (par : Nat × Nat → Nat × Nat) : Event → Prop
  | .cert c => CertBacked S e c
  | .s2n s h => GoodW S e (.s2n s h) ∧ CertifiedS S e (par (s, h))
  | .s2s s => GoodW S e (.s2s s)
  | _ => True

theorem GoodP.mono {S S' : SigLog} {e : Epoch} {par : Nat × Nat → Nat × Nat} {ev : Event} (h : GoodP S e par ev) (hl : S.le S') :
    GoodP S' e par ev := by
  cases ev with
  | cert c => exact CertBacked.mono h hl
  | s2n s hh => exact ⟨GoodW.mono h.1 hl, h.2.mono hl⟩
  | s2s s => exact GoodW.mono (ev := .s2s s) h hl
  | _ => trivial

theorem regsOf_par {par : Nat × Nat → Nat × Nat} {S : SigLog} {e : Epoch} (p : Pool) (op : PoolOp) (hop : OpOk S e par op) :
    ∀ r ∈ regsOf p op, par r.1 = r.2 := by
  intro r hr
  cases op with
  | block b p' =>
    simp only [regsOf] at hr
    split at hr
    · simp only [List.mem_singleton] at hr; subst hr; exact hop
    · cases hr
  | vote v => cases hr
  | cert c => cases hr

/-- **One pool operation**: the invariant is kept and every emitted event is justified. -/
theorem poolStep_sginv {S : SigLog} {e : Epoch} {par : Nat × Nat → Nat × Nat} (hpos : 0 < e.total) (p : Pool) (op : PoolOp)
    (h : SgInv S e par p) (hop : OpOk S e par op) :
    SgInv S e par (poolStep p op).1 ∧ ∀ ev ∈ (poolStep p op).2, GoodP S e par ev := by
  have g := evGen S e hpos
  have hk := opKeeps hop
  have hcert := poolStep_certs hpos p op h.slots hop
  obtain ⟨R, hr, hs⟩ := h.sound
  have hC : ∀ x, (CertifiedS S e x ∨ x ∈ certIds (poolStep p op).2) → CertifiedS S e x := by
    intro x hx
    rcases hx with hx | hx
    · exact hx
    · obtain ⟨c, hm, hst, hid⟩ := certIds_mem hx
      exact ⟨c, hst, hid, hcert c hm⟩
  have hR : ∀ r ∈ R ++ regsOf p op, par r.1 = r.2 := by
    intro r hr'
    rcases List.mem_append.mp hr' with a | a
    · exact hr r a
    · exact regsOf_par p op hop r a
  refine ⟨⟨poolStep_pinv g p op h.slots hk, R ++ regsOf p op, hR, (poolStep_sound e R _ p op hs).mono (fun _ x => x) hC⟩, ?_⟩
  intro ev hev
  have hw := poolStep_g g p op h.slots hk ev hev
  cases ev with
  | cert c => exact hcert c hev
  | s2n s hh =>
    refine ⟨hw, ?_⟩
    obtain ⟨pr, hreg, hc⟩ := poolStep_good e R _ p op hs _ hev
    have := hR _ hreg
    simp only at this
    rw [this]
    exact hC _ hc
  | s2s s => exact hw
  | _ => trivial

end AgModel.Pool
