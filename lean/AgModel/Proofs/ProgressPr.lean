import AgModel.Proofs.ParentReady
/-!
# C02 progress, parent-ready-tracker part: what the tracker computes in the timely schedule

Computation lemmas with explicit premises, phrased through the observations `get t s` and `t.root`.
-/
namespace AgModel.ParentReady

theorem get_prune (t : Tracker) (r x : Nat) : get (prune t r) x = if x < r then {} else get t x := by
  unfold get prune
  dsimp only
  split <;> rfl

theorem get_prune_ge (t : Tracker) {r x : Nat} (h : r ≤ x) : get (prune t r) x = get t x := by
  rw [get_prune, if_neg (by omega)]

@[simp] theorem put_root (t : Tracker) (s : Nat) (v : PState) : (put t s v).root = t.root := rfl
@[simp] theorem touch_root (t : Tracker) (s : Nat) : (touch t s).root = t.root := rfl
@[simp] theorem put_top (t : Tracker) (s : Nat) (v : PState) : (put t s v).top = t.top := rfl
@[simp] theorem touch_top (t : Tracker) (s : Nat) : (touch t s).top = t.top := rfl

/-- a new notar-fallback mark for `(s, h)`; the next slot is not skip-marked and has an empty ready list: the block becomes a
    ready parent of slot `s + 1` iff that slot starts a window -/
theorem markNotarFallback_new (t : Tracker) (s h : Nat) (hr : t.root ≤ s) (hn : (get t s).nfs.contains h = false)
    (hsk : (get t (s + 1)).skip = false) (hrd : (get t (s + 1)).ready = []) :
    ∃ t' wk, markNotarFallback t (s, h) = some (t', (if isWindowStart (s + 1) then [(s + 1, (s, h))] else []), wk) ∧
      t'.root = t.root ∧ get t' s = { get t s with nfs := (get t s).nfs ++ [h] } ∧
      get t' (s + 1) = (if isWindowStart (s + 1) then { get t (s + 1) with ready := [(s, h)], waiter := false } else get t (s + 1)) ∧
      ∀ x, x ≠ s → x ≠ s + 1 → get t' x = get t x := by
  unfold markNotarFallback
  rw [if_neg (by simp only []; omega)]
  simp only [hn, Bool.false_eq_true, if_false]
  obtain ⟨f, hf⟩ : ∃ f, (put t s { get t s with nfs := (get t s).nfs ++ [h] }).top + 1 - s + 1 = f + 1 := ⟨_, rfl⟩
  rw [hf]
  simp only [fwd]
  have hg1 : get (touch (put t s { get t s with nfs := (get t s).nfs ++ [h] }) (s + 1)) (s + 1) = get t (s + 1) := by
    rw [get_touch, get_put_other _ _ (by omega)]
  by_cases hw : isWindowStart (s + 1) = true
  · simp only [hw, if_true]
    simp only [addAllToReady, addToReady, hg1, hrd, List.isEmpty_nil, if_true]
    simp only [get_put_same, hsk, Bool.false_eq_true, if_false]
    refine ⟨_, _, rfl, rfl, ?_, ?_, ?_⟩
    · rw [get_put_other _ _ (by omega), get_touch, get_put_same]
    · rw [get_put_same]
    · intro x h1 h2
      rw [get_put_other _ _ h2, get_touch, get_put_other _ _ h1]
  · have hw' : isWindowStart (s + 1) = false := by simpa using hw
    simp only [hw', Bool.false_eq_true, if_false]
    simp only [hg1, hsk, Bool.false_eq_true, if_false]
    refine ⟨_, _, rfl, rfl, ?_, ?_, ?_⟩
    · rw [get_touch, get_put_same]
    · exact hg1
    · intro x h1 h2
      rw [get_touch, get_put_other _ _ h1]

/-- a mark that changes nothing observable: below the root, or already present -/
theorem markNotarFallback_known (t : Tracker) (b : Nat × Nat) (h : b.1 < t.root ∨ (get t b.1).nfs.contains b.2 = true) :
    ∃ t', markNotarFallback t b = some (t', [], []) ∧ t'.root = t.root ∧ ∀ x, get t' x = get t x := by
  unfold markNotarFallback
  by_cases hr : b.1 < t.root
  · rw [if_pos hr]; exact ⟨t, rfl, rfl, fun _ => rfl⟩
  · rw [if_neg hr]
    rcases h with h | h
    · exact absurd h hr
    · simp only [h, if_true]
      exact ⟨_, rfl, rfl, fun x => get_touch _ _ _⟩

theorem markSkipped_known (t : Tracker) (s : Nat) (h : s < t.root ∨ (get t s).skip = true) :
    ∃ t', markSkipped t s = some (t', [], []) ∧ t'.root = t.root ∧ ∀ x, get t' x = get t x := by
  unfold markSkipped
  by_cases hr : s < t.root
  · rw [if_pos hr]; exact ⟨t, rfl, rfl, fun _ => rfl⟩
  · rw [if_neg hr]
    rcases h with h | h
    · exact absurd h hr
    · simp only [h, if_true]
      exact ⟨_, rfl, rfl, fun x => get_touch _ _ _⟩

theorem markAllNf_known : ∀ (bs : List (Nat × Nat)) (t : Tracker),
    (∀ b ∈ bs, b.1 < t.root ∨ (get t b.1).nfs.contains b.2 = true) →
    ∃ t', markAllNf t bs = some (t', [], []) ∧ t'.root = t.root ∧ ∀ x, get t' x = get t x := by
  intro bs
  induction bs with
  | nil => intro t _; exact ⟨t, rfl, rfl, fun _ => rfl⟩
  | cons b bs ih =>
    intro t h
    obtain ⟨t1, e1, r1, g1⟩ := markNotarFallback_known t b (h b List.mem_cons_self)
    obtain ⟨t2, e2, r2, g2⟩ := ih t1 (by
      intro x hx
      rw [r1, g1]
      exact h x (List.mem_cons_of_mem _ hx))
    refine ⟨t2, ?_, by rw [r2, r1], fun x => by rw [g2, g1]⟩
    simp only [markAllNf, e1, e2, List.append_nil]

theorem markAllSkipped_known : ∀ (ss : List Nat) (t : Tracker),
    (∀ s ∈ ss, s < t.root ∨ (get t s).skip = true) →
    ∃ t', markAllSkipped t ss = some (t', [], []) ∧ t'.root = t.root ∧ ∀ x, get t' x = get t x := by
  intro ss
  induction ss with
  | nil => intro t _; exact ⟨t, rfl, rfl, fun _ => rfl⟩
  | cons s ss ih =>
    intro t h
    obtain ⟨t1, e1, r1, g1⟩ := markSkipped_known t s (h s List.mem_cons_self)
    obtain ⟨t2, e2, r2, g2⟩ := ih t1 (by
      intro x hx
      rw [r1, g1]
      exact h x (List.mem_cons_of_mem _ hx))
    refine ⟨t2, ?_, by rw [r2, r1], fun x => by rw [g2, g1]⟩
    simp only [markAllSkipped, e1, e2, List.append_nil]

/-- a finalization event all of whose marks are already known changes nothing observable and announces nothing -/
theorem handleFinalization_known (t : Tracker) (ev : Finality.Event)
    (hF : ∀ b ∈ ev.finalized.toList ++ ev.implFinalized, b.1 < t.root ∨ (get t b.1).nfs.contains b.2 = true)
    (hS : ∀ s ∈ ev.implSkipped, s < t.root ∨ (get t s).skip = true) :
    ∃ t', handleFinalization t ev = some (t', [], []) ∧ t'.root = t.root ∧ ∀ x, get t' x = get t x := by
  obtain ⟨t1, e1, r1, g1⟩ := markAllNf_known _ t hF
  obtain ⟨t2, e2, r2, g2⟩ := markAllSkipped_known ev.implSkipped t1 (by
    intro s hs; rw [r1, g1]; exact hS s hs)
  refine ⟨t2, ?_, by rw [r2, r1], fun x => by rw [g2, g1]⟩
  unfold handleFinalization
  rw [e1]
  dsimp only
  rw [e2]
  simp [lastMax]

theorem handleFinalization_empty (t : Tracker) : handleFinalization t {} = some (t, [], []) := by
  simp [handleFinalization, markAllNf, markAllSkipped, lastMax]

end AgModel.ParentReady
