import AgModel.Proofs.ParentReady
/-!
# C02 progress, parent-ready-tracker part: what the tracker computes in the timely schedule

Computation lemmas with explicit premises, phrased through the observations `get t s` and `t.root`.
-/
namespace AgModel.ParentReady

theorem get_prune (t : Tracker) (r x : Nat) : get (prune t r) x = if x < r then {} else get t x := by
  unfold get prune
  dsimp only
  split <;> rfl

theorem get_prune_ge (t : Tracker) {r x : Nat} (h : r ≤ x) : get (prune t r) x = get t x := by
  rw [get_prune, if_neg (by omega)]

@[simp] theorem put_root (t : Tracker) (s : Nat) (v : PState) : (put t s v).root = t.root := rfl
@[simp] theorem touch_root (t : Tracker) (s : Nat) : (touch t s).root = t.root := rfl
@[simp] theorem put_top (t : Tracker) (s : Nat) (v : PState) : (put t s v).top = t.top := rfl
@[simp] theorem touch_top (t : Tracker) (s : Nat) : (touch t s).top = t.top := rfl

/-- a new notar-fallback mark for `(s, h)`; the next slot is not skip-marked and has an empty ready list: the block becomes a
    ready parent of slot `s + 1` iff that slot starts a window -/
theorem markNotarFallback_new (t : Tracker) (s h : Nat) (hr : t.root ≤ s) (hn : (get t s).nfs.contains h = false)
    (hsk : (get t (s + 1)).skip = false) (hrd : (get t (s + 1)).ready = []) :
    ∃ t' wk, markNotarFallback t (s, h) = some (t', (if isWindowStart (s + 1) then [(s + 1, (s, h))] else []), wk) ∧
      t'.root = t.root ∧ get t' s = { get t s with nfs := (get t s).nfs ++ [h] } ∧
      get t' (s + 1) = (if isWindowStart (s + 1) then { get t (s + 1) with ready := [(s, h)], waiter := false } else get t (s + 1)) ∧
      ∀ x, x ≠ s → x ≠ s + 1 → get t' x = get t x := by
  unfold markNotarFallback
  rw [if_neg (by simp only []; omega)]
  simp only [hn, Bool.false_eq_true, if_false]
  obtain ⟨f, hf⟩ : ∃ f, (put t s { get t s with nfs := (get t s).nfs ++ [h] }).top + 1 - s + 1 = f + 1 := ⟨_, rfl⟩
  rw [hf]
  simp only [fwd]
  have hg1 : get (touch (put t s { get t s with nfs := (get t s).nfs ++ [h] }) (s + 1)) (s + 1) = get t (s + 1) := by
    rw [get_touch, get_put_other _ _ (by omega)]
  by_cases hw : isWindowStart (s + 1) = true
  · simp only [hw, if_true]
    simp only [addAllToReady, addToReady, hg1, hrd, List.isEmpty_nil, if_true]
    simp only [get_put_same, hsk, Bool.false_eq_true, if_false]
    refine ⟨_, _, rfl, rfl, ?_, ?_, ?_⟩
    · rw [get_put_other _ _ (by omega), get_touch, get_put_same]
    · rw [get_put_same]
    · intro x h1 h2
      rw [get_put_other _ _ h2, get_touch, get_put_other _ _ h1]
  · have hw' : isWindowStart (s + 1) = false := by simpa using hw
    simp only [hw', Bool.false_eq_true, if_false]
    simp only [hg1, hsk, Bool.false_eq_true, if_false]
    refine ⟨_, _, rfl, rfl, ?_, ?_, ?_⟩
    · rw [get_touch, get_put_same]
    · exact hg1
    · intro x h1 h2
      rw [get_touch, get_put_other _ _ h1]

/-- a mark that changes nothing observable: below the root, or already present -/
theorem markNotarFallback_known (t : Tracker) (b : Nat × Nat) (h : b.1 < t.root ∨ (get t b.1).nfs.contains b.2 = true) :
    ∃ t', markNotarFallback t b = some (t', [], []) ∧ t'.root = t.root ∧ ∀ x, get t' x = get t x := by
  unfold markNotarFallback
  by_cases hr : b.1 < t.root
  · rw [if_pos hr]; exact ⟨t, rfl, rfl, fun _ => rfl⟩
  · rw [if_neg hr]
    rcases h with h | h
    · exact absurd h hr
    · simp only [h, if_true]
      exact ⟨_, rfl, rfl, fun x => get_touch _ _ _⟩

theorem markSkipped_known (t : Tracker) (s : Nat) (h : s < t.root ∨ (get t s).skip = true) :
    ∃ t', markSkipped t s = some (t', [], []) ∧ t'.root = t.root ∧ ∀ x, get t' x = get t x := by
  unfold markSkipped
  by_cases hr : s < t.root
  · rw [if_pos hr]; exact ⟨t, rfl, rfl, fun _ => rfl⟩
  · rw [if_neg hr]
    rcases h with h | h
    · exact absurd h hr
    · simp only [h, if_true]
      exact ⟨_, rfl, rfl, fun x => get_touch _ _ _⟩

theorem markAllNf_known : ∀ (bs : List (Nat × Nat)) (t : Tracker),
    (∀ b ∈ bs, b.1 < t.root ∨ (get t b.1).nfs.contains b.2 = true) →
    ∃ t', markAllNf t bs = some (t', [], []) ∧ t'.root = t.root ∧ ∀ x, get t' x = get t x := by
  intro bs
  induction bs with
  | nil => intro t _; exact ⟨t, rfl, rfl, fun _ => rfl⟩
  | cons b bs ih =>
    intro t h
    obtain ⟨t1, e1, r1, g1⟩ := markNotarFallback_known t b (h b List.mem_cons_self)
    obtain ⟨t2, e2, r2, g2⟩ := ih t1 (by
      intro x hx
      rw [r1, g1]
      exact h x (List.mem_cons_of_mem _ hx))
    refine ⟨t2, ?_, by rw [r2, r1], fun x => by rw [g2, g1]⟩
    simp only [markAllNf, e1, e2, List.append_nil]

theorem markAllSkipped_known : ∀ (ss : List Nat) (t : Tracker),
    (∀ s ∈ ss, s < t.root ∨ (get t s).skip = true) →
    ∃ t', markAllSkipped t ss = some (t', [], []) ∧ t'.root = t.root ∧ ∀ x, get t' x = get t x := by
  intro ss
  induction ss with
  | nil => intro t _; exact ⟨t, rfl, rfl, fun _ => rfl⟩
  | cons s ss ih =>
    intro t h
    obtain ⟨t1, e1, r1, g1⟩ := markSkipped_known t s (h s List.mem_cons_self)
    obtain ⟨t2, e2, r2, g2⟩ := ih t1 (by
      intro x hx
      rw [r1, g1]
      exact h x (List.mem_cons_of_mem _ hx))
    refine ⟨t2, ?_, by rw [r2, r1], fun x => by rw [g2, g1]⟩
    simp only [markAllSkipped, e1, e2, List.append_nil]

/-- a finalization event all of whose marks are already known changes nothing observable and announces nothing -/
theorem handleFinalization_known (t : Tracker) (ev : Finality.Event)
    (hF : ∀ b ∈ ev.finalized.toList ++ ev.implFinalized, b.1 < t.root ∨ (get t b.1).nfs.contains b.2 = true)
    (hS : ∀ s ∈ ev.implSkipped, s < t.root ∨ (get t s).skip = true) :
    ∃ t', handleFinalization t ev = some (t', [], []) ∧ t'.root = t.root ∧ ∀ x, get t' x = get t x := by
  obtain ⟨t1, e1, r1, g1⟩ := markAllNf_known _ t hF
  obtain ⟨t2, e2, r2, g2⟩ := markAllSkipped_known ev.implSkipped t1 (by
    intro s hs; rw [r1, g1]; exact hS s hs)
  refine ⟨t2, ?_, by rw [r2, r1], fun x => by rw [g2, g1]⟩
  unfold handleFinalization
  rw [e1]
  dsimp only
  rw [e2]
  simp [lastMax]

theorem handleFinalization_empty (t : Tracker) : handleFinalization t {} = some (t, [], []) := by
  simp [handleFinalization, markAllNf, markAllSkipped, lastMax]

/-! ### a window that is being skipped -/

/-- the slots `s ≤ y < k` are skip-marked, nothing else is known from `s` on; `p` is the potential parent: in the ready list
    of `s` if `s` starts a window, else the notar-fallback block of slot `s - 1` -/
structure SkipRun (s k : Nat) (p : Nat × Nat) (t : Tracker) : Prop where
  plt : p.1 < s
  root_le : t.root ≤ p.1
  marked : ∀ y, s ≤ y → y < k → (get t y).skip = true
  unmarked : ∀ y, k ≤ y → (get t y).skip = false
  noNfs : ∀ y, s ≤ y → (get t y).nfs = []
  readyS : (get t s).ready = (if isWindowStart s then [p] else [])
  readyAbove : ∀ y, s < y → (get t y).ready = []
  parent : isWindowStart s = false → p.1 + 1 = s ∧ (get t p.1).nfs = [p.2] ∧ (get t p.1).skip = false

theorem windowFirst_le (s : Nat) : windowFirst s ≤ s := Nat.div_mul_le_self s W

/-- the backward collection from a window start `s`: every slot down to `s` is skip-marked -/
theorem collect_ws (mk s : Nat) (p : Nat × Nat) : ∀ (d : Nat) (t : Tracker) (acc : List (Nat × Nat)),
    (∀ y, s ≤ y → y < s + d → (get t y).skip = true ∧ (get t y).nfs = [] ∧ (get t y).ready = (if y = s then [p] else [])) →
    ∃ t', collect mk d t (s + d) acc = (t', acc ++ (if 0 < d then [p] else [])) ∧ t'.root = t.root ∧ t'.top = t.top ∧
      ∀ y, get t' y = get t y := by
  intro d
  induction d with
  | zero => intro t acc _; exact ⟨t, by simp [collect], rfl, rfl, fun _ => rfl⟩
  | succ d ih =>
    intro t acc h
    obtain ⟨h1, h2, h3⟩ := h (s + d) (by omega) (by omega)
    have hg : get (touch t (s + d)) (s + d) = get t (s + d) := get_touch _ _ _
    obtain ⟨t', e, r, tp, g⟩ := ih (touch t (s + d))
      ((if s + d ≠ mk then acc ++ (get t (s + d)).nfs.map (fun hh => (s + d, hh)) else acc) ++ (get t (s + d)).ready)
      (by intro y hy1 hy2; rw [get_touch]; exact h y hy1 (by omega))
    refine ⟨t', ?_, by rw [r]; rfl, by rw [tp]; rfl, fun y => by rw [g y, get_touch]⟩
    show collect mk (d + 1) t (s + d + 1) acc = _
    simp only [collect, Nat.add_sub_cancel, hg, h1, not_true_eq_false, if_false]
    rw [e, h2, h3]
    by_cases hd : d = 0
    · subst hd; simp
    · have : ¬ s + d = s := by omega
      simp [this, hd, Nat.pos_of_ne_zero hd]

/-- the backward collection inside a window: skip-marked slots down to `s`, then the slot of the parent, which is not -/
theorem collect_in (mk s : Nat) (p : Nat × Nat) (hp : p.1 + 1 = s) (hmk : p.1 ≠ mk) : ∀ (d n : Nat) (t : Tracker)
    (acc : List (Nat × Nat)), d + 1 ≤ n →
    (∀ y, s ≤ y → y < s + d → (get t y).skip = true ∧ (get t y).nfs = [] ∧ (get t y).ready = []) →
    (get t p.1).skip = false → (get t p.1).nfs = [p.2] →
    ∃ t', collect mk n t (s + d) acc = (t', acc ++ [p]) ∧ t'.root = t.root ∧ t'.top = t.top ∧ ∀ y, get t' y = get t y := by
  intro d
  induction d with
  | zero =>
    intro n t acc hn _ hs hnf
    obtain ⟨n', rfl⟩ : ∃ n', n = n' + 1 := ⟨n - 1, by omega⟩
    have hx : s + 0 - 1 = p.1 := by omega
    refine ⟨touch t p.1, ?_, rfl, rfl, fun y => get_touch _ _ _⟩
    simp only [collect, hx, get_touch, hs, Bool.false_eq_true, not_false_eq_true, if_true, hnf, ne_eq, hmk,
      List.map_cons, List.map_nil]
  | succ d ih =>
    intro n t acc hn h hs hnf
    obtain ⟨n', rfl⟩ : ∃ n', n = n' + 1 := ⟨n - 1, by omega⟩
    obtain ⟨h1, h2, h3⟩ := h (s + d) (by omega) (by omega)
    obtain ⟨t', e, r, tp, g⟩ := ih n' (touch t (s + d))
      ((if s + d ≠ mk then acc ++ (get t (s + d)).nfs.map (fun hh => (s + d, hh)) else acc) ++ (get t (s + d)).ready)
      (by omega) (by intro y hy1 hy2; rw [get_touch]; exact h y hy1 (by omega)) (by rw [get_touch]; exact hs)
      (by rw [get_touch]; exact hnf)
    refine ⟨t', ?_, by rw [r]; rfl, by rw [tp]; rfl, fun y => by rw [g y, get_touch]⟩
    show collect mk (n' + 1) t (s + d + 1) acc = _
    simp only [collect, Nat.add_sub_cancel, get_touch, h1, not_true_eq_false, if_false]
    rw [e, h2, h3]
    by_cases hm : s + d = mk <;> simp [hm]

theorem window_facts (s k : Nat) (h1 : s ≤ k) (h2 : k < windowFirst s + W) :
    windowFirst k = windowFirst s ∧ (isWindowStart (k + 1) = true ↔ k + 1 = windowFirst s + W) ∧
    (isWindowStart s = true ↔ s = windowFirst s) := by
  simp only [windowFirst, isWindowStart, W, Gen.SLOTS_PER_WINDOW, beq_iff_eq] at *
  omega

/-- **the next skip certificate of a window that is being skipped**: slot `k` is marked; when it was the last slot of the
    window, `p` becomes a ready parent of the first slot of the next window, and that is announced -/
theorem markSkipped_run (s k : Nat) (p : Nat × Nat) (t : Tracker) (r : SkipRun s k p t) (hsk : s ≤ k)
    (hkE : k < windowFirst s + W) :
    ∃ t' wk, markSkipped t k = some (t', (if k + 1 = windowFirst s + W then [(k + 1, p)] else []), wk) ∧ t'.root = t.root ∧
      get t' k = { get t k with skip := true } ∧
      (k + 1 = windowFirst s + W → get t' (k + 1) = { get t (k + 1) with ready := [p], waiter := false }) ∧
      ∀ y, y ≠ k → (y ≠ k + 1 ∨ k + 1 ≠ windowFirst s + W) → get t' y = get t y := by
  obtain ⟨wf1, wf2, wf3⟩ := window_facts s k hsk hkE
  have hplt := r.plt
  have hroot := r.root_le
  unfold markSkipped
  rw [if_neg (by omega)]
  simp only [r.unmarked k (Nat.le_refl _), Bool.false_eq_true, if_false]
  -- the tracker after the mark
  generalize ht1 : ({ put t k { get t k with skip := true } with top := max t.top k } : Tracker) = t1
  have g1 : ∀ y, get t1 y = if y = k then { get t k with skip := true } else get t y := by
    intro y; subst ht1
    by_cases hy : y = k
    · subst hy; simp [get, put]
    · simp only [hy, if_false]; exact get_put_other _ _ hy
  have hr1 : t1.root = t.root := by subst ht1; rfl
  -- the potential parents
  simp only [put_root]
  have hcol : ∃ t2, collect k (k + 1 - max (windowFirst k) t.root) t1 (k + 1) [] = (t2, [p]) ∧ t2.root = t.root ∧
      ∀ y, get t2 y = get t1 y := by
    by_cases hws : isWindowStart s = true
    · have hs0 : s = windowFirst s := wf3.mp hws
      have hlo : max (windowFirst k) t.root = s := by rw [wf1, ← hs0]; omega
      rw [hlo]
      obtain ⟨t2, e, rr, _, g⟩ := collect_ws k s p (k + 1 - s) t1 [] (by
        intro y hy1 hy2
        rw [g1 y]
        by_cases hyk : y = k
        · subst hyk
          simp only [if_true]
          refine ⟨trivial, r.noNfs y hy1, ?_⟩
          by_cases hys : y = s
          · subst hys; rw [r.readyS, if_pos hws]; simp
          · rw [r.readyAbove y (by omega)]; simp [hys]
        · simp only [hyk, if_false]
          refine ⟨r.marked y hy1 (by omega), r.noNfs y hy1, ?_⟩
          by_cases hys : y = s
          · subst hys; rw [r.readyS, if_pos hws]; simp
          · rw [r.readyAbove y (by omega)]; simp [hys])
      rw [show s + (k + 1 - s) = k + 1 by omega] at e
      refine ⟨t2, ?_, by rw [rr, hr1], g⟩
      rw [e]; simp; omega
    · have hws' : isWindowStart s = false := by simpa using hws
      obtain ⟨q1, q2, q3⟩ := r.parent hws'
      have hsne : s ≠ windowFirst s := fun e => hws (wf3.mpr e)
      have hwle : windowFirst s ≤ p.1 := by have := windowFirst_le s; omega
      obtain ⟨t2, e, rr, _, g⟩ := collect_in k s p q1 (by omega) (k - s + 1) (k + 1 - max (windowFirst k) t.root) t1 []
        (by rw [wf1]; omega)
        (by
          intro y hy1 hy2
          rw [g1 y]
          by_cases hyk : y = k
          · subst hyk
            simp only [if_true]
            refine ⟨trivial, r.noNfs y hy1, ?_⟩
            by_cases hys : y = s
            · subst hys; rw [r.readyS, hws']; simp
            · exact r.readyAbove y (by omega)
          · simp only [hyk, if_false]
            refine ⟨r.marked y hy1 (by omega), r.noNfs y hy1, ?_⟩
            by_cases hys : y = s
            · subst hys; rw [r.readyS, hws']; simp
            · exact r.readyAbove y (by omega))
        (by rw [g1, if_neg (by omega)]; exact q3) (by rw [g1, if_neg (by omega)]; exact q2)
      rw [show s + (k - s + 1) = k + 1 by omega] at e
      exact ⟨t2, by rw [e]; simp, by rw [rr, hr1], g⟩
  obtain ⟨t2, hc, hr2, g2⟩ := hcol
  rw [hc]
  dsimp only
  -- the forward loop: one iteration
  obtain ⟨f, hf⟩ : ∃ f, t2.top + 1 - k + 1 = f + 1 := ⟨_, rfl⟩
  rw [hf]
  simp only [fwd]
  have hgk1 : get (touch t2 (k + 1)) (k + 1) = get t (k + 1) := by
    rw [get_touch, g2, g1, if_neg (by omega)]
  by_cases hE : k + 1 = windowFirst s + W
  · have hw : isWindowStart (k + 1) = true := wf2.mpr hE
    rw [if_pos hE]
    simp only [hw, if_true]
    simp only [addAllToReady, addToReady, hgk1, r.readyAbove (k + 1) (by omega), List.isEmpty_nil, if_true]
    simp only [get_put_same, r.unmarked (k + 1) (by omega), Bool.false_eq_true, if_false]
    refine ⟨_, _, rfl, by simp [hr2], ?_, ?_, ?_⟩
    · rw [get_put_other _ _ (by omega), get_touch, g2, g1, if_pos rfl]
    · intro _; rw [get_put_same]
    · intro y hy1 hy2
      rcases hy2 with hy2 | hy2
      · rw [get_put_other _ _ hy2, get_touch, g2, g1, if_neg hy1]
      · exact absurd hE hy2
  · have hw : isWindowStart (k + 1) = false := by
      cases hh : isWindowStart (k + 1)
      · rfl
      · exact absurd (wf2.mp hh) hE
    rw [if_neg hE]
    simp only [hw, Bool.false_eq_true, if_false]
    simp only [hgk1, r.unmarked (k + 1) (by omega), Bool.false_eq_true, if_false]
    refine ⟨_, _, rfl, by simp [hr2], ?_, fun hh => absurd hh hE, ?_⟩
    · rw [get_touch, g2, g1, if_pos rfl]
    · intro y hy1 _
      rw [get_touch, g2, g1, if_neg hy1]

end AgModel.ParentReady
