import AgModel.Proofs.PoolS2NGlueSoundEv
import AgModel.Proofs.NodeRun
/-!
C05, composed node: **the pool raises safe-to-notar / safe-to-skip for a slot only after the node's own initial vote for
that slot was broadcast by the node's own voting component** — the ordering assumption `PoolOrdered` of
`fallback_only_after_vote_partial`, discharged in the composition `Model/Node.lean`.

Part 1 (pool): `OwnLog` abstracts "the own initial votes known to be broadcast". If every own initial vote stored in a
slot state is in the log (`QO`) and the operation, if it is an own vote, is in the log too, then the invariant is
kept (`poolStep_own`) and every safe-to event the operation emits is backed by a logged own vote (`poolStep_goodO`:
through `s2n_s2s_sound` = `EvSound`, whose `ownVotedNot` / `S2SCond` clauses read the stored own vote).
Part 2 (votor): a step appends the event and then only broadcasts to the log (`step_log`).
Part 3 (node): the invariant `FInv` through `nodeStep` under the unforgeability premise `OwnVotesFromVotor`.
-/
namespace AgModel.Pool

/-! ## Part 1: the pool -/

/-- what is known to have been broadcast by the node itself: skip votes per slot, notar votes per slot and block -/
structure OwnLog where
  skip : Nat → Prop
  notar : Nat → Nat → Prop

/-- every own initial vote stored in the slot state is in the log -/
def QO (e : Epoch) (O : OwnLog) (st : SlotState) : Prop :=
  (e.own ∈ st.vSkip → O.skip st.slot) ∧ (∀ h, st.vNotar.lookup e.own = some h → O.notar st.slot h)

/-- a safe-to-notar event for `(s, h)` is backed by a logged own skip vote for `s` or a logged own notar vote for another
    block of `s`; a safe-to-skip event for `s` by a logged own notar vote for `s` -/
def GoodO (O : OwnLog) : Event → Prop
  | .s2n s h => O.skip s ∨ ∃ h', h' ≠ h ∧ O.notar s h'
  | .s2s s => ∃ h, O.notar s h
  | _ => True

theorem GoodO.mono {O O' : OwnLog} {ev : Event} (h : GoodO O ev) (h1 : ∀ s, O.skip s → O'.skip s)
    (h2 : ∀ s x, O.notar s x → O'.notar s x) : GoodO O' ev := by
  cases ev with
  | s2n s hh =>
    rcases h with a | ⟨h', a, b⟩
    · exact Or.inl (h1 _ a)
    · exact Or.inr ⟨h', a, h2 _ _ b⟩
  | s2s s => obtain ⟨x, a⟩ := h; exact ⟨x, h2 _ _ a⟩
  | cert c => trivial
  | repair a b => trivial
  | parentReady a b c => trivial
  | standstill a b c => trivial
  | panic => trivial

theorem QO.mono {e : Epoch} {O O' : OwnLog} {st : SlotState} (h : QO e O st) (h1 : ∀ s, O.skip s → O'.skip s)
    (h2 : ∀ s x, O.notar s x → O'.notar s x) : QO e O' st :=
  ⟨fun a => h1 _ (h.1 a), fun x a => h2 _ _ (h.2 x a)⟩

theorem QO_init (e : Epoch) (O : OwnLog) (s : Nat) : QO e O { slot := s } := by
  constructor
  · intro h; simp at h
  · intro h hh; simp at hh

theorem QO.of_eq {e : Epoch} {O : OwnLog} {a b : SlotState} (h : QO e O a) (hs : b.slot = a.slot)
    (h1 : b.vSkip = a.vSkip) (h2 : b.vNotar = a.vNotar) : QO e O b := by
  unfold QO; rw [hs, h1, h2]; exact h

theorem QO.of_same {e : Epoch} {O : OwnLog} {a b : SlotState} (h : QO e O a) (s : SameCond a b) : QO e O b :=
  h.of_eq s.slot.symm s.vSkip.symm s.vNotar.symm

/-- events that are justified (`s2n_s2s_sound`) in a slot state whose stored own votes are logged -/
theorem goodO_of_evSound {e : Epoch} {O : OwnLog} {st : SlotState} {evs : List Event}
    (hq : QO e O st) (hs : EvSound e st evs) : ∀ ev ∈ evs, GoodO O ev := by
  intro ev hev
  have := hs ev hev
  cases ev with
  | s2n s h =>
    obtain ⟨hsl, _, _, hown⟩ := this
    unfold ownVotedNot at hown
    simp only [Bool.or_eq_true] at hown
    rcases hown with h1 | h1
    · left; rw [hsl]; exact hq.1 (by simpa [List.contains_eq_mem] using h1)
    · right
      cases hl : st.vNotar.lookup e.own with
      | none => rw [hl] at h1; cases h1
      | some h' =>
        rw [hl] at h1
        exact ⟨h', by simpa using h1, by rw [hsl]; exact hq.2 h' hl⟩
  | s2s s =>
    obtain ⟨hsl, _, hsome⟩ := this
    cases hl : st.vNotar.lookup e.own with
    | none => rw [hl] at hsome; cases hsome
    | some h' => exact ⟨h', by rw [hsl]; exact hq.2 h' hl⟩
  | cert c => trivial
  | repair a b => trivial
  | parentReady a b c => trivial
  | standstill a b c => trivial
  | panic => trivial

/-- the premise on a vote: if it is signed by the node itself and is an initial vote, it is in the log -/
def VoteLogged (e : Epoch) (O : OwnLog) (v : Vote) : Prop :=
  v.signer = e.own → (v.kind = .skip → O.skip v.slot) ∧ (v.kind = .notar → O.notar v.slot v.hash)

theorem stored_own (e : Epoch) (O : OwnLog) (st : SlotState) (v : Vote) (hsl : st.slot = v.slot)
    (hv : VoteLogged e O v) (hq : QO e O st) : QO e O (st.stored e v) := by
  unfold QO
  rw [stored_slot]
  unfold SlotState.stored
  cases hk : v.kind <;> dsimp only
  · -- notar
    refine ⟨hq.1, ?_⟩
    intro h hh
    rw [List.lookup_append] at hh
    cases hl : st.vNotar.lookup e.own with
    | some x => rw [hl] at hh; simp at hh; subst hh; exact hq.2 _ hl
    | none =>
      rw [hl] at hh
      simp only [Option.none_or, List.lookup_cons, List.lookup_nil] at hh
      split at hh
      · rename_i heq
        cases hh
        have : v.signer = e.own := (by simpa using heq : e.own = v.signer).symm
        rw [hsl]; exact ((hv this).2 hk)
      · cases hh
  · exact hq
  · -- skip
    refine ⟨?_, hq.2⟩
    intro hm
    rcases List.mem_append.mp hm with hm | hm
    · exact hq.1 hm
    · simp only [List.mem_singleton] at hm
      rw [hsl]; exact (hv hm.symm).1 hk
  · exact hq
  · exact hq

theorem addVote_own (e : Epoch) (O : OwnLog) (st : SlotState) (v : Vote) (hsl : st.slot = v.slot)
    (hv : VoteLogged e O v) (hq : QO e O st) : QO e O (st.addVote e v).1 :=
  (stored_own e O st v hsl hv hq).of_same (addVote_same e st v)

theorem notifyParentCertified_own {e : Epoch} {st : SlotState} {h : Nat} {st' : SlotState} {evs : List Event}
    (hn : st.notifyParentCertified e h = some (st', evs)) : st'.vSkip = st.vSkip ∧ st'.vNotar = st.vNotar := by
  unfold SlotState.notifyParentCertified at hn
  split at hn
  · cases hn
  · dsimp only at hn
    split at hn
    · cases hn; exact ⟨rfl, rfl⟩
    · cases hn
      have := checkS2N_same e { st with parents := st.parents.map (fun p => if p.1 == h then (p.1, true) else p) } h
      exact ⟨this.vSkip.symm, this.vNotar.symm⟩

theorem QO_kidSite (e : Epoch) (O : OwnLog) (k : Nat × Nat) : KidSite e (QO e O) k := by
  intro st st' evs _ hn hq
  exact hq.of_eq (notifyParentCertified_spec hn).1 (notifyParentCertified_own hn).1 (notifyParentCertified_own hn).2

theorem notifyParentKnown_own (st : SlotState) (h : Nat) :
    (st.notifyParentKnown h).vSkip = st.vSkip ∧ (st.notifyParentKnown h).vNotar = st.vNotar := by
  unfold SlotState.notifyParentKnown
  split <;> exact ⟨rfl, rfl⟩

/-- the pool invariant: every stored own initial vote is in the log -/
def OwnInv (e : Epoch) (O : OwnLog) (p : Pool) : Prop := p.epoch = e ∧ SlotsSat p (QO e O)

theorem OwnInv.init (e : Epoch) (O : OwnLog) : OwnInv e O { epoch := e } := ⟨rfl, SlotsSat.init e _⟩

theorem OwnInv.mono {e : Epoch} {O O' : OwnLog} {p : Pool} (h : OwnInv e O p) (h1 : ∀ s, O.skip s → O'.skip s)
    (h2 : ∀ s x, O.notar s x → O'.notar s x) : OwnInv e O' p :=
  ⟨h.1, h.2.mono (fun _ hq => hq.mono h1 h2)⟩

theorem OwnInv.slotState {e : Epoch} {O : OwnLog} {p : Pool} (h : OwnInv e O p) (s : Nat) : OwnInv e O (p.slotState s).1 :=
  ⟨(slotState_frame p s).1.trans h.1, h.2.slotState s (QO_init e O s)⟩

theorem OwnInv.advance {e : Epoch} {O : OwnLog} {p : Pool} (h : OwnInv e O p) (t : Finality.Tracker) (r : ParentReady.Res) :
    OwnInv e O (p.advance t r) :=
  ⟨(advance_epoch p t r).trans h.1, h.2.advance t r⟩

theorem OwnInv.handleFin {e : Epoch} {O : OwnLog} {p : Pool} (h : OwnInv e O p) (op : Finality.Op) :
    OwnInv e O (p.handleFin (Finality.step p.fin op)).1 := by
  rcases handleFin_cases p op with h1 | ⟨t, r, _, h1⟩
  · rw [h1]; exact h
  · rw [h1]; exact h.advance t r

theorem OwnInv.stored {e : Epoch} {O : OwnLog} {p : Pool} (h : OwnInv e O p) (c : Cert) : OwnInv e O (p.stored c) := by
  unfold Pool.stored
  refine ⟨(mod_frame p c.slot _).1.trans h.1, h.2.mod c.slot _ (QO_init e O _) ?_⟩
  exact (h.2.slotState_snd c.slot (QO_init e O _)).of_same (addCert_same _ c).1

theorem addValidCert_own (e : Epoch) (O : OwnLog) (c : Cert) (p : Pool) (h : OwnInv e O p) : OwnInv e O (p.addValidCert c).1 :=
  addValidCert_sat e (QO e O) (QO_init e O) c p h.1 h.2 (fun st _ hq => hq.of_same (addCert_same st c).1)
    (fun _ _ _ k _ => QO_kidSite e O k)

/-- the pool right after `add_vote` stored the vote's slot state -/
theorem OwnInv.voted {e : Epoch} {O : OwnLog} {p : Pool} (h : OwnInv e O p) (v : Vote) (hv : VoteLogged e O v) :
    OwnInv e O ((p.slotState v.slot).1.putSlot ((p.slotState v.slot).2.addVote p.epoch v).1) := by
  refine ⟨(mod_frame p v.slot _).1.trans h.1, h.2.mod v.slot _ (QO_init e O _) ?_⟩
  rw [h.1]
  exact addVote_own e O _ v (slotState_snd_slot p v.slot) hv (h.2.slotState_snd v.slot (QO_init e O _))

/-- the premise on an operation: an own initial vote is in the log -/
def OpLogged (e : Epoch) (O : OwnLog) : PoolOp → Prop
  | .vote v => VoteLogged e O v
  | _ => True

/-- **The invariant is kept** by every pool operation whose vote, if it is an own initial vote, is in the log. -/
theorem poolStep_own (e : Epoch) (O : OwnLog) (p : Pool) (op : PoolOp) (h : OwnInv e O p) (hv : OpLogged e O op) :
    OwnInv e O (poolStep p op).1 := by
  cases op with
  | vote v =>
    simp only [poolStep]
    exact addVote_ind (OwnInv e O) p v (fun s hp => hp.slotState s) (fun _ _ => h.voted v hv)
      (fun c _ _ q hq => addValidCert_own e O c q hq) h
  | cert c =>
    simp only [poolStep]
    exact addCert_ind (OwnInv e O) p c (fun s hp => hp.slotState s) (fun _ q hq => addValidCert_own e O c q hq) h
  | block b par =>
    simp only [poolStep]
    apply addBlock_ind (OwnInv e O) p b par (fun _ => h)
    intro _ t r _
    have hq := h.advance t r
    refine ⟨fun _ e0 => ?_, fun _ => hq⟩
    have hk : OwnInv e O ((p.advance t r).known b) :=
      ⟨(known_frame _ b).1.trans hq.1, hq.2.mod b.1 _ (QO_init e O _)
        ((hq.2.slotState_snd b.1 (QO_init e O _)).of_eq (notifyParentKnown_spec _ b.2).1 (notifyParentKnown_own _ b.2).1
          (notifyParentKnown_own _ b.2).2)⟩
    exact ⟨(addBlockTail_epoch _ b par e0 _).trans hk.1,
      addBlockTail_sat e (QO e O) (QO_init e O) _ b par e0 _ hk.1 hk.2 (fun _ => QO_kidSite e O b)⟩

/-! ### the events -/

theorem applyPr_goodO (O : OwnLog) (p : Pool) (r : ParentReady.Res) : ∀ ev ∈ (p.applyPr r).2, GoodO O ev := by
  intro ev hev
  unfold Pool.applyPr at hev
  split at hev
  · simp only [List.mem_singleton] at hev; subst hev; trivial
  · unfold prEvents at hev
    obtain ⟨a, _, rfl⟩ := List.mem_map.mp hev
    trivial

theorem handleFin_goodO (O : OwnLog) (p : Pool) (r : Finality.Res) : ∀ ev ∈ (p.handleFin r).2, GoodO O ev := by
  intro ev hev
  unfold Pool.handleFin at hev
  split at hev
  · simp only [List.mem_singleton] at hev; subst hev; trivial
  · exact applyPr_goodO O _ _ ev hev

theorem notifyChildren_goodO (e : Epoch) (O : OwnLog) (kids : List (Nat × Nat)) (p : Pool) (acc : List Event)
    (he : p.epoch = e) (hs : SlotsSat p (QO e O)) (hacc : ∀ ev ∈ acc, GoodO O ev) :
    ∀ ev ∈ (p.notifyChildren kids acc).2, GoodO O ev := by
  induction kids generalizing p acc with
  | nil => exact hacc
  | cons k ks ih =>
    obtain ⟨cs, ch⟩ := k
    rw [notifyChildren_cons]
    split
    · exact ih p acc he hs hacc
    · split
      · intro ev hev
        rcases List.mem_append.mp hev with hev | hev
        · exact hacc ev hev
        · simp only [List.mem_singleton] at hev; subst hev; trivial
      · rename_i st' evs hn
        rw [(slotState_frame p cs).1, he] at hn
        have hq : QO e O st' := QO_kidSite e O (cs, ch) _ st' evs (slotState_snd_slot p cs) hn
          (hs.slotState_snd cs (QO_init e O cs))
        have hsound := (slotStep_emit e (p.slotState cs).2 (.parentCertified ch)).1
        simp only [slotStep, hn] at hsound
        apply ih _ _ ((mod_frame p cs st').1.trans he) (hs.mod cs st' (QO_init e O cs) hq)
        intro ev hev
        rcases List.mem_append.mp hev with hev | hev
        · exact hacc ev hev
        · exact goodO_of_evSound hq hsound ev hev

theorem notifyWaiting_goodO (e : Epoch) (O : OwnLog) (p : Pool) (par0 : Nat × Nat) (h : OwnInv e O p) :
    ∀ ev ∈ (p.notifyWaiting par0).2, GoodO O ev := by
  unfold Pool.notifyWaiting
  exact notifyChildren_goodO e O ((p.waiting.lookup par0).getD []) { p with waiting := p.waiting.filter (·.1 ≠ par0) } []
    h.1 (fun s st hg => h.2 s st hg) (fun _ hx => by cases hx)

theorem addValidCert_goodO (e : Epoch) (O : OwnLog) (c : Cert) (p : Pool) (h : OwnInv e O p) :
    ∀ ev ∈ (p.addValidCert c).2, GoodO O ev := by
  have hmid := h.stored c
  have hwake : ∀ q, OwnInv e O q → ∀ ev ∈ (q.notifyWaiting (c.slot, c.hash)).2, GoodO O ev :=
    fun q hq => notifyWaiting_goodO e O q _ hq
  have hfin : ∀ op, OwnInv e O ((p.stored c).handleFin (Finality.step (p.stored c).fin op)).1 := fun op => hmid.handleFin op
  intro ev hev
  unfold Pool.addValidCert at hev
  dsimp only at hev
  unfold Pool.stored at hmid hfin
  generalize ((p.slotState c.slot).1.putSlot ((p.slotState c.slot).2.addCert c)) = p1 at hmid hfin hev
  cases hk : c.kind <;> simp only [hk] at hev
  · simp only [show (CertKind.notar == CertKind.notar) = true from rfl, if_true] at hev
    simp only [List.mem_append, List.mem_singleton] at hev
    rcases hev with (((hev | hev) | hev) | hev) | hev
    · exact handleFin_goodO O _ _ ev hev
    · exact hwake _ (hfin (.notar (c.slot, c.hash))) ev hev
    · exact applyPr_goodO O _ _ ev hev
    · subst hev; trivial
    · subst hev; trivial
  · simp only [show (CertKind.nf == CertKind.notar) = false from rfl, Bool.false_eq_true, if_false] at hev
    simp only [List.mem_append, List.mem_singleton, List.not_mem_nil, false_or] at hev
    rcases hev with ((hev | hev) | hev) | hev
    · exact hwake _ hmid ev hev
    · exact applyPr_goodO O _ _ ev hev
    · subst hev; trivial
    · subst hev; trivial
  · simp only [List.mem_append, List.mem_singleton] at hev
    rcases hev with hev | hev
    · exact applyPr_goodO O _ _ ev hev
    · subst hev; trivial
  · simp only [List.mem_append, List.mem_singleton] at hev
    rcases hev with (hev | hev) | hev
    · exact handleFin_goodO O _ _ ev hev
    · exact hwake _ (hfin (.fastFinal (c.slot, c.hash))) ev hev
    · subst hev; trivial
  · simp only [List.mem_append, List.mem_singleton] at hev
    rcases hev with hev | hev
    · exact handleFin_goodO O _ _ ev hev
    · subst hev; trivial

theorem addValidCerts_goodO (e : Epoch) (O : OwnLog) (cs : List Cert) (p : Pool) (acc : List Event)
    (h : OwnInv e O p) (hacc : ∀ ev ∈ acc, GoodO O ev) : ∀ ev ∈ (p.addValidCerts cs acc).2, GoodO O ev := by
  induction cs generalizing p acc with
  | nil => exact hacc
  | cons c cs ih =>
    rw [addValidCerts_cons]
    apply ih _ _ (addValidCert_own e O c p h)
    intro ev hev
    rcases List.mem_append.mp hev with hev | hev
    · exact hacc ev hev
    · exact addValidCert_goodO e O c p h ev hev

theorem addBlockTail_goodO (e : Epoch) (O : OwnLog) (r : Pool) (b par : Nat × Nat) (e0 : List Event)
    (cert : Bool) (h : OwnInv e O r) (h0 : ∀ ev ∈ e0, GoodO O ev) :
    ∀ ev ∈ (Pool.addBlockTail r b par e0 cert).2, GoodO O ev := by
  unfold Pool.addBlockTail
  split
  · split
    · intro ev hev
      rcases List.mem_append.mp hev with hev | hev
      · exact h0 ev hev
      · simp only [List.mem_singleton] at hev; subst hev; trivial
    · rename_i st' evs hn
      rw [(slotState_frame r b.1).1, h.1] at hn
      have hq : QO e O st' := QO_kidSite e O b _ st' evs (slotState_snd_slot r b.1) hn
        (h.2.slotState_snd b.1 (QO_init e O _))
      have hsound := (slotStep_emit e (r.slotState b.1).2 (.parentCertified b.2)).1
      simp only [slotStep, hn] at hsound
      split
      · exact h0
      · intro ev hev
        rcases List.mem_append.mp hev with hev | hev
        · exact h0 ev hev
        · exact goodO_of_evSound hq hsound ev hev
  · exact h0

/-- **Every safe-to-notar / safe-to-skip event a pool operation emits is backed by a logged own initial vote** of that
    slot (a skip vote, or a notar vote for another block; for safe-to-skip a notar vote) — also when the slot state is
    pruned within the same operation. -/
theorem poolStep_goodO (e : Epoch) (O : OwnLog) (p : Pool) (op : PoolOp) (h : OwnInv e O p) (hv : OpLogged e O op) :
    ∀ ev ∈ (poolStep p op).2, GoodO O ev := by
  cases op with
  | vote v =>
    simp only [poolStep]
    rcases addVote_out p v with ⟨_, _, h3⟩ | ⟨_, h3⟩ | ⟨_, h3⟩
    · rw [h3]; intro ev hev; cases hev
    · rw [h3]; intro ev hev; simp only [List.mem_singleton] at hev; subst hev; trivial
    · have hmod := h.voted v hv
      intro ev hev
      rw [h3] at hev
      rcases List.mem_append.mp hev with hev | hev
      · exact addValidCerts_goodO e O _ _ [] hmod (fun _ hx => by cases hx) ev hev
      · have hq : QO e O ((p.slotState v.slot).2.addVote p.epoch v).1 := by
          apply hmod.2 v.slot
          rw [getSlot_mod p v.slot _ ((addVote_slot _ _ v).trans (slotState_snd_slot p v.slot)), if_pos rfl]
        rw [h.1] at hq hev
        exact goodO_of_evSound hq (addVote_emit e _ v).1 ev hev
  | cert c =>
    simp only [poolStep]
    rcases addCert_out p c with ⟨_, h3⟩ | ⟨_, h3⟩
    · rw [h3]; intro ev hev; cases hev
    · rw [h3]; exact addValidCert_goodO e O c _ (h.slotState _)
  | block b par =>
    simp only [poolStep]
    have ht : ∀ ev ∈ trackerEvents p (.block b par), GoodO O ev := by
      intro ev hev
      simp only [trackerEvents] at hev
      split at hev
      · simp only [List.mem_singleton] at hev; subst hev; trivial
      · split at hev
        · simp only [List.mem_singleton] at hev; subst hev; trivial
        · exact applyPr_goodO _ _ _ ev hev
    rcases addBlock_full p b par with ⟨_, h1⟩ | ⟨_, t, r, _, h1 | h1⟩
    · rw [h1]; intro ev hev; simp only [List.mem_singleton] at hev; subst hev; trivial
    · rw [h1]; exact ht
    · rw [h1]
      have hq := h.advance t r
      have hk : OwnInv e O ((p.advance t r).known b) :=
        ⟨(known_frame _ b).1.trans hq.1, hq.2.mod b.1 _ (QO_init e O _)
          ((hq.2.slotState_snd b.1 (QO_init e O _)).of_eq (notifyParentKnown_spec _ b.2).1 (notifyParentKnown_own _ b.2).1
            (notifyParentKnown_own _ b.2).2)⟩
      exact addBlockTail_goodO e O _ b par _ _ hk ht

end AgModel.Pool

/-! ## Part 2: a Votor step logs the event, then only broadcasts -/
namespace AgModel.Votor

/-- `v'` is reached from `v` by broadcasting only (no event is logged) -/
def OutExt (v v' : V) : Prop := ∃ xs, v'.log = xs ++ v.log ∧ ∀ x ∈ xs, ∃ o, x = .out o

theorem OutExt.refl (v : V) : OutExt v v := ⟨[], rfl, by simp⟩

theorem OutExt.trans {a b c : V} (h1 : OutExt a b) (h2 : OutExt b c) : OutExt a c := by
  obtain ⟨xs, e1, q1⟩ := h1
  obtain ⟨ys, e2, q2⟩ := h2
  refine ⟨ys ++ xs, by rw [e2, e1]; simp, ?_⟩
  intro x hx
  rcases List.mem_append.mp hx with hx | hx
  · exact q2 x hx
  · exact q1 x hx

theorem OutExt.upd (v : V) (s : Nat) (f) : OutExt v (v.upd s f) := ⟨[], rfl, by simp⟩
theorem OutExt.panic (v : V) : OutExt v v.panic := ⟨[], rfl, by simp⟩
theorem OutExt.emit (v : V) (o : Out) : OutExt v (v.emit o) :=
  ⟨[.out o], rfl, by intro x hx; simp at hx; exact ⟨o, hx⟩⟩

theorem OutExt.tryFinal (v : V) (slot hash : Nat) : OutExt v (v.tryFinal slot hash) := by
  unfold V.tryFinal
  split
  · exact OutExt.panic v
  · simp only []
    split
    · exact (OutExt.emit v _).trans (OutExt.upd _ _ _)
    · exact OutExt.refl v

theorem OutExt.tryNotar (v : V) (slot : Nat) (b : BlockInfo) : OutExt v (v.tryNotar slot b).1 := by
  unfold V.tryNotar
  split
  · exact OutExt.panic v
  · split
    · exact OutExt.refl v
    · split
      · simp only []
        exact ((OutExt.emit v _).trans (OutExt.upd _ _ _)).trans (OutExt.tryFinal _ _ _)
      · exact OutExt.refl v

theorem OutExt.skipSlots : ∀ (l : List Nat) (v : V), OutExt v (v.skipSlots l) := by
  intro l
  induction l with
  | nil => intro v; exact OutExt.refl v
  | cons s rest ih =>
    intro v
    unfold V.skipSlots
    split
    · exact ih v
    · exact ((OutExt.upd v s _).trans (OutExt.emit _ _)).trans (ih _)

theorem OutExt.trySkipWindow (v : V) (slot : Nat) : OutExt v (v.trySkipWindow slot) := by
  unfold V.trySkipWindow
  split
  · exact OutExt.panic v
  · exact OutExt.skipSlots _ v

theorem OutExt.checkPendingLoop : ∀ (l : List Nat) (v : V), OutExt v (v.checkPendingLoop l) := by
  intro l
  induction l with
  | nil => intro v; exact OutExt.refl v
  | cons s rest ih =>
    intro v
    unfold V.checkPendingLoop
    split
    · exact (OutExt.tryNotar v s _).trans (ih _)
    · exact ih v

theorem OutExt.setTimeouts (v : V) (s : Nat) : OutExt v (v.setTimeouts s) := by
  unfold V.setTimeouts
  split
  · exact OutExt.emit v _
  · exact OutExt.panic v

theorem OutExt.emitAll : ∀ (l : List Out) (v : V), OutExt v (v.emitAll l) := by
  intro l
  induction l with
  | nil => intro v; exact OutExt.refl v
  | cons o rest ih => intro v; exact (OutExt.emit v o).trans (ih _)

theorem OutExt.raisePrune (v : V) (slot : Nat) : OutExt v ({ v with hfcs := max v.hfcs slot } : V).prune :=
  ⟨[], rfl, by simp⟩

theorem OutExt.handle (v : V) (e : Event) : OutExt v (v.handle e) := by
  cases e with
  | parentReady slot ps ph =>
    simp only [V.handle]
    exact ((OutExt.upd v _ _).trans (OutExt.checkPendingLoop _ _)).trans (OutExt.setTimeouts _ _)
  | safeToNotar slot hash =>
    simp only [V.handle]
    exact ((OutExt.emit v _).trans (OutExt.trySkipWindow _ _)).trans (OutExt.upd _ _ _)
  | safeToSkip slot =>
    simp only [V.handle]
    exact ((OutExt.emit v _).trans (OutExt.trySkipWindow _ _)).trans (OutExt.upd _ _ _)
  | cert kind slot hash =>
    cases kind with
    | notar =>
      simp only [V.handle]
      exact ((OutExt.upd v _ _).trans (OutExt.tryFinal _ _ _)).trans (OutExt.emit _ _)
    | final =>
      simp only [V.handle]
      exact ((OutExt.setTimeouts v _).trans (OutExt.raisePrune _ slot)).trans (OutExt.emit _ _)
    | fastFinal =>
      simp only [V.handle]
      exact ((OutExt.setTimeouts v _).trans (OutExt.raisePrune _ slot)).trans (OutExt.emit _ _)
    | skip => exact OutExt.emit _ _
    | notarFallback => exact OutExt.emit _ _
  | standstill slot relay => exact OutExt.emitAll _ v
  | firstShred slot => exact OutExt.upd v _ _
  | invalidBlock slot => exact OutExt.trySkipWindow v slot
  | block slot b =>
    simp only [V.handle]
    split
    · exact OutExt.refl v
    · split
      · exact (OutExt.tryNotar v slot b).trans (OutExt.checkPendingLoop _ _)
      · exact (OutExt.tryNotar v slot b).trans (OutExt.upd _ _ _)
  | timeout slot =>
    simp only [V.handle]
    split
    · exact OutExt.refl v
    · exact OutExt.trySkipWindow v slot
  | timeoutCrashed slot =>
    simp only [V.handle]
    split
    · exact OutExt.refl v
    · exact OutExt.trySkipWindow v slot

/-- **One step of Votor**: nothing (it had panicked), or the event is logged and then only broadcasts follow. -/
theorem step_log (v : V) (e : Event) :
    step v e = v ∨ ∃ xs, (step v e).log = xs ++ .ev e :: v.log ∧ ∀ x ∈ xs, ∃ o, x = .out o := by
  unfold AgModel.Votor.step
  split
  · exact Or.inl rfl
  · right
    simp only []
    split
    · exact ⟨[], rfl, by simp⟩
    · obtain ⟨xs, h1, h2⟩ := OutExt.handle (v.logEv e) e
      exact ⟨xs, h1, h2⟩

theorem Hist.mono {P P' : Item → List Item → Prop} (hpp : ∀ x past, P x past → P' x past) :
    ∀ {l : List Item}, Hist P l → Hist P' l := by
  intro l
  induction l with
  | nil => intro _; trivial
  | cons x t ih => intro h; exact ⟨hpp _ _ h.1, ih h.2⟩

/-- prepending broadcasts keeps a history predicate that is trivial on broadcasts -/
theorem Hist.prepend_outs {P : Item → List Item → Prop} (hout : ∀ o past, P (.out o) past) :
    ∀ (xs : List Item) {l : List Item}, (∀ x ∈ xs, ∃ o, x = .out o) → Hist P l → Hist P (xs ++ l) := by
  intro xs
  induction xs with
  | nil => intro l _ h; exact h
  | cons x t ih =>
    intro l hx h
    obtain ⟨o, rfl⟩ := hx x (by simp)
    exact ⟨hout o _, ih (fun y hy => hx y (by simp [hy])) h⟩

end AgModel.Votor

/-! ## Part 3: the composed node -/
namespace AgModel.NodePanic
open AgModel AgModel.Node

/-- the own initial votes in Votor's log -/
def logOwn (L : List Votor.Item) : Pool.OwnLog where
  skip := fun s => .out (.skip s) ∈ L
  notar := fun s h => ∃ ps ph, .out (.notar s h ps ph) ∈ L

theorem logOwn_mono {L L' : List Votor.Item} (h : ∀ x ∈ L, x ∈ L') :
    (∀ s, (logOwn L).skip s → (logOwn L').skip s) ∧ (∀ s x, (logOwn L).notar s x → (logOwn L').notar s x) :=
  ⟨fun _ a => h _ a, fun _ _ ⟨ps, ph, a⟩ => ⟨ps, ph, h _ a⟩⟩

/-- history predicate: every safe-to-notar / safe-to-skip event Votor received was backed, at that moment, by an own
    initial vote already in the log (safe-to-notar: a skip vote or a notar vote for another block; safe-to-skip: a notar
    vote) -/
def SafeBacked : Votor.Item → List Votor.Item → Prop
  | .ev (.safeToNotar s h), past => Pool.GoodO (logOwn past) (.s2n s h)
  | .ev (.safeToSkip s), past => Pool.GoodO (logOwn past) (.s2s s)
  | _, _ => True

/-- the broadcast `o` of Votor is the vote `v` (kind, slot and — for notar / notar-fallback — block; the signer is the
    node itself: Votor signs with its own key) -/
def outMatches (o : Votor.Out) (v : Pool.Vote) : Bool :=
  match o, v.kind with
  | .notar s h _ _, .notar => v.slot == s && v.hash == h
  | .skip s, .skip => v.slot == s
  | .final s, .final => v.slot == s
  | .notarFallback s h, .nf => v.slot == s && v.hash == h
  | .skipFallback s, .sf => v.slot == s
  | _, _ => false

/-- what the node broadcasts in one step (`All2All::broadcast` calls of Votor, and timer requests) -/
def nodeOuts (n : Node) : NodeOp → List Votor.Out
  | .recvVote _ | .recvCert _ | .poolBlock _ _ => []
  | .pump => (pump n).2
  | .votorBlock s b => (votorStep n (.block s b)).2
  | .firstShred s => (votorStep n (.firstShred s)).2
  | .invalidBlock s => (votorStep n (.invalidBlock s)).2
  | .timeout s => (votorStep n (.timeout s)).2
  | .timeoutCrashed s => (votorStep n (.timeoutCrashed s)).2

/-- a vote signed by `own` arriving from the network is one of the broadcasts `sent` so far -/
def ownOk (own : Nat) (sent : List Votor.Out) : NodeOp → Bool
  | .recvVote v => v.signer != own || sent.any (fun o => outMatches o v)
  | _ => true

/-- **Unforgeability premise** ("own votes only come from the own Votor"), as a decidable predicate on the operation list
    together with the outputs of the run: every network vote whose signer is the node's own index is a vote that the
    node's Votor broadcast earlier in the same run (`sent` = the broadcasts before the first operation of the list). -/
def OwnVotesFromVotor (own : Nat) : Node → List Votor.Out → List NodeOp → Bool
  | _, _, [] => true
  | n, sent, op :: ops => ownOk own sent op && OwnVotesFromVotor own (nodeStep n op) (sent ++ nodeOuts n op) ops

/-- all broadcasts of a run, in order -/
def nodeRunOuts : Node → List NodeOp → List Votor.Out
  | _, [] => []
  | n, op :: ops => nodeOuts n op ++ nodeRunOuts (nodeStep n op) ops

structure FInv (e : Pool.Epoch) (sent : List Votor.Out) (n : Node) : Prop where
  pool : Pool.OwnInv e (logOwn n.votor.log) n.pool
  queue : ∀ ev ∈ n.queue, Pool.GoodO (logOwn n.votor.log) ev
  hist : Votor.Hist SafeBacked n.votor.log
  sent : ∀ o ∈ sent, .out o ∈ n.votor.log

theorem FInv.init (e : Pool.Epoch) : FInv e [] ({ pool := { epoch := e } } : Node) :=
  ⟨Pool.OwnInv.init e _, (by intro ev h; cases h), ⟨trivial, trivial⟩, (by intro o h; cases h)⟩

theorem safeBacked_out (o : Votor.Out) (past : List Votor.Item) : SafeBacked (.out o) past := trivial

theorem mem_newOuts {before after : Votor.V} {xs : List Votor.Item} (h : after.log = xs ++ before.log) (o : Votor.Out)
    (ho : o ∈ newOuts before after) : .out o ∈ xs := by
  unfold newOuts at ho
  rw [h] at ho
  simp only [List.length_append, Nat.add_sub_cancel, List.take_left'] at ho
  obtain ⟨i, hi, hio⟩ := List.mem_filterMap.mp ho
  cases i with
  | ev x => cases hio
  | out o' => simp only [Option.some.injEq] at hio; subst hio; exact List.mem_reverse.mp hi

theorem newOuts_self (v : Votor.V) : newOuts v v = [] := by
  unfold newOuts; simp

/-- a Votor step of the node, for an event that is backed if it is a safe-to event -/
theorem votorStep_finv (e : Pool.Epoch) (sent : List Votor.Out) (n : Node) (ve : Votor.Event)
    (hb : SafeBacked (.ev ve) n.votor.log) (i : FInv e sent n) :
    FInv e (sent ++ (votorStep n ve).2) (votorStep n ve).1 := by
  unfold votorStep
  split
  · simp only [List.append_nil]; exact i
  · rcases Votor.step_log n.votor ve with hs | ⟨xs, hl, hx⟩
    · simp only [hs, newOuts_self, List.append_nil]
      exact ⟨i.pool, i.queue, i.hist, i.sent⟩
    · have hsub : ∀ x ∈ n.votor.log, x ∈ (Votor.step n.votor ve).log := by
        intro x hx'; rw [hl]; simp [hx']
      obtain ⟨m1, m2⟩ := logOwn_mono hsub
      refine ⟨i.pool.mono m1 m2, fun ev hev => (i.queue ev hev).mono m1 m2, ?_, ?_⟩
      · show Votor.Hist SafeBacked (Votor.step n.votor ve).log
        rw [hl]
        exact Votor.Hist.prepend_outs safeBacked_out xs hx ⟨hb, i.hist⟩
      · intro o ho
        rcases List.mem_append.mp ho with ho | ho
        · exact hsub _ (i.sent o ho)
        · have hl' : (Votor.step n.votor ve).log = (xs ++ [.ev ve]) ++ n.votor.log := by rw [hl]; simp
          have := mem_newOuts hl' o ho
          show Votor.Item.out o ∈ (Votor.step n.votor ve).log
          rw [hl']
          exact List.mem_append_left _ this

theorem enqueue_finv (e : Pool.Epoch) (sent : List Votor.Out) (n : Node) (evs : List Pool.Event)
    (hg : ∀ ev ∈ evs, Pool.GoodO (logOwn n.votor.log) ev) (i : FInv e sent n) : FInv e sent (enqueue n evs) := by
  unfold enqueue
  split
  · exact ⟨i.pool, i.queue, i.hist, i.sent⟩
  · refine ⟨i.pool, ?_, i.hist, i.sent⟩
    intro ev hev
    rcases List.mem_append.mp hev with h | h
    · exact i.queue ev h
    · exact hg ev (List.mem_filter.mp h).1

/-- a pool operation of the node -/
theorem poolOp_finv (e : Pool.Epoch) (sent : List Votor.Out) (n : Node) (op : Pool.PoolOp)
    (hv : Pool.OpLogged e (logOwn n.votor.log) op) (i : FInv e sent n) :
    FInv e sent (enqueue { n with pool := (Pool.poolStep n.pool op).1 } (Pool.poolStep n.pool op).2) :=
  enqueue_finv e sent _ _ (Pool.poolStep_goodO e _ n.pool op i.pool hv)
    ⟨Pool.poolStep_own e _ n.pool op i.pool hv, i.queue, i.hist, i.sent⟩

theorem voteLogged_of_ownOk (e : Pool.Epoch) (sent : List Votor.Out) (L : List Votor.Item) (v : Pool.Vote)
    (hs : ∀ o ∈ sent, Votor.Item.out o ∈ L) (hok : ownOk e.own sent (.recvVote v) = true) :
    Pool.VoteLogged e (logOwn L) v := by
  intro hsig
  simp only [ownOk, hsig, bne_self_eq_false, Bool.false_or, List.any_eq_true] at hok
  obtain ⟨o, ho, hm⟩ := hok
  have hoL := hs o ho
  constructor
  · intro hk
    unfold outMatches at hm
    rw [hk] at hm
    cases o <;> simp at hm
    subst hm
    exact hoL
  · intro hk
    unfold outMatches at hm
    rw [hk] at hm
    cases o <;> simp at hm
    obtain ⟨h1, h2⟩ := hm
    subst h1; subst h2
    exact ⟨_, _, hoL⟩

theorem safeBacked_of_good {L : List Votor.Item} {qe : Pool.Event} {ve : Votor.Event} (hg : Pool.GoodO (logOwn L) qe)
    (hv : toVotor qe = some ve) : SafeBacked (.ev ve) L := by
  cases qe with
  | cert c => simp only [toVotor, Option.some.injEq] at hv; subst hv; trivial
  | s2n s h => simp only [toVotor, Option.some.injEq] at hv; subst hv; exact hg
  | s2s s => simp only [toVotor, Option.some.injEq] at hv; subst hv; exact hg
  | parentReady s ps ph => simp only [toVotor, Option.some.injEq] at hv; subst hv; trivial
  | standstill s cs vs => simp only [toVotor, Option.some.injEq] at hv; subst hv; trivial
  | repair a b => simp [toVotor] at hv
  | panic => simp [toVotor] at hv

/-- **One step of the node keeps the invariant** under the unforgeability premise for that step. -/
theorem nodeStep_finv (e : Pool.Epoch) (sent : List Votor.Out) (n : Node) (op : NodeOp) (i : FInv e sent n)
    (hok : ownOk e.own sent op = true) : FInv e (sent ++ nodeOuts n op) (nodeStep n op) := by
  cases op with
  | recvVote v =>
    simp only [nodeStep, nodeOuts, List.append_nil, recvVote]
    split
    · exact i
    · exact poolOp_finv e sent n (.vote v) (voteLogged_of_ownOk e sent _ v i.sent hok) i
  | recvCert c =>
    simp only [nodeStep, nodeOuts, List.append_nil, recvCert]
    split
    · exact i
    · exact poolOp_finv e sent n (.cert c) trivial i
  | poolBlock b par =>
    simp only [nodeStep, nodeOuts, List.append_nil, poolBlock]
    split
    · exact i
    · exact poolOp_finv e sent n (.block b par) trivial i
  | pump =>
    simp only [nodeStep, nodeOuts, pump]
    split
    · simp only [List.append_nil]; exact i
    · rename_i qe rest hq
      have hrest : ∀ ev ∈ rest, Pool.GoodO (logOwn n.votor.log) ev :=
        fun ev hev => i.queue ev (by rw [hq]; exact List.mem_cons_of_mem _ hev)
      have i' : FInv e sent { n with queue := rest } := ⟨i.pool, hrest, i.hist, i.sent⟩
      split
      · rename_i ve hve
        exact votorStep_finv e sent { n with queue := rest } ve
          (safeBacked_of_good (i.queue qe (by rw [hq]; simp)) hve) i'
      · simp only [List.append_nil]; exact i'
  | votorBlock s b => exact votorStep_finv e sent n _ trivial i
  | firstShred s => exact votorStep_finv e sent n _ trivial i
  | invalidBlock s => exact votorStep_finv e sent n _ trivial i
  | timeout s => exact votorStep_finv e sent n _ trivial i
  | timeoutCrashed s => exact votorStep_finv e sent n _ trivial i

/-- **Every run** -/
theorem nodeRun_finv (e : Pool.Epoch) (ops : List NodeOp) (sent : List Votor.Out) (n : Node) (i : FInv e sent n)
    (hok : OwnVotesFromVotor e.own n sent ops = true) : FInv e (sent ++ nodeRunOuts n ops) (nodeRun n ops) := by
  induction ops generalizing sent n with
  | nil => simp only [nodeRunOuts, List.append_nil, nodeRun]; exact i
  | cons op ops ih =>
    simp only [OwnVotesFromVotor, Bool.and_eq_true] at hok
    simp only [nodeRunOuts, nodeRun, ← List.append_assoc]
    exact ih _ _ (nodeStep_finv e sent n op i hok.1) hok.2

/-! ### the broadcasts of a run are exactly the `.out` items of Votor's log, in order -/

/-- the broadcasts recorded in a log (newest first), oldest first -/
def outsOf (L : List Votor.Item) : List Votor.Out :=
  L.reverse.filterMap (fun i => match i with
    | .out o => some o
    | .ev _ => none)

theorem outsOf_append (a b : List Votor.Item) : outsOf (a ++ b) = outsOf b ++ outsOf a := by
  unfold outsOf; rw [List.reverse_append, List.filterMap_append]

theorem newOuts_eq {before after : Votor.V} {ys : List Votor.Item} (h : after.log = ys ++ before.log) :
    newOuts before after = outsOf ys := by
  unfold newOuts outsOf
  rw [h]
  simp only [List.length_append, Nat.add_sub_cancel, List.take_left']
  congr 1

theorem votorStep_outs (n : Node) (ve : Votor.Event) :
    outsOf (votorStep n ve).1.votor.log = outsOf n.votor.log ++ (votorStep n ve).2 := by
  unfold votorStep
  split
  · simp
  · rcases Votor.step_log n.votor ve with hs | ⟨xs, hl, _⟩
    · simp only [hs, newOuts_self, List.append_nil]
    · have hl' : (Votor.step n.votor ve).log = (xs ++ [.ev ve]) ++ n.votor.log := by rw [hl]; simp
      show outsOf (Votor.step n.votor ve).log = _ ++ newOuts n.votor (Votor.step n.votor ve)
      rw [newOuts_eq hl', hl', outsOf_append]

theorem enqueue_votor (n : Node) (evs : List Pool.Event) : (enqueue n evs).votor = n.votor := by
  unfold enqueue; split <;> rfl

theorem nodeStep_outs (n : Node) (op : NodeOp) :
    outsOf (nodeStep n op).votor.log = outsOf n.votor.log ++ nodeOuts n op := by
  cases op with
  | recvVote v =>
    simp only [nodeStep, nodeOuts, List.append_nil, recvVote]
    split
    · rfl
    · rw [enqueue_votor]
  | recvCert c =>
    simp only [nodeStep, nodeOuts, List.append_nil, recvCert]
    split
    · rfl
    · rw [enqueue_votor]
  | poolBlock b par =>
    simp only [nodeStep, nodeOuts, List.append_nil, poolBlock]
    split
    · rfl
    · rw [enqueue_votor]
  | pump =>
    simp only [nodeStep, nodeOuts, pump]
    split
    · simp
    · split
      · exact votorStep_outs _ _
      · simp
  | votorBlock s b => exact votorStep_outs n _
  | firstShred s => exact votorStep_outs n _
  | invalidBlock s => exact votorStep_outs n _
  | timeout s => exact votorStep_outs n _
  | timeoutCrashed s => exact votorStep_outs n _

/-- the `.out` items of the log after a run = those before it, then the broadcasts of the run in order -/
theorem nodeRun_outs (ops : List NodeOp) (n : Node) :
    outsOf (nodeRun n ops).votor.log = outsOf n.votor.log ++ nodeRunOuts n ops := by
  induction ops generalizing n with
  | nil => simp [nodeRun, nodeRunOuts]
  | cons op ops ih => simp only [nodeRun, nodeRunOuts]; rw [ih, nodeStep_outs, List.append_assoc]

/-- a position in the broadcast list is a position in the log -/
theorem outsOf_split {L : List Votor.Item} {pre post : List Votor.Out} {x : Votor.Out} (h : outsOf L = pre ++ x :: post) :
    ∃ a b, L = a ++ .out x :: b ∧ outsOf b = pre := by
  unfold outsOf at h
  obtain ⟨l1, l2, hl, h1, h2⟩ := List.filterMap_eq_append_iff.mp h
  obtain ⟨m1, z, m2, hm, hnone, hz, _⟩ := List.filterMap_eq_cons_iff.mp h2
  have hz' : z = .out x := by
    cases z with
    | ev ev => cases hz
    | out o => simp only [Option.some.injEq] at hz; rw [hz]
  subst hz'
  refine ⟨m2.reverse, (l1 ++ m1).reverse, ?_, ?_⟩
  · have := congrArg List.reverse hl
    rw [List.reverse_reverse] at this
    rw [this, hm]; simp
  · unfold outsOf
    rw [List.reverse_reverse, List.filterMap_append, h1]
    have : List.filterMap (fun i => match i with | Votor.Item.out o => some o | Votor.Item.ev _ => none) m1 = [] :=
      List.filterMap_eq_nil_iff.mpr hnone
    rw [this, List.append_nil]

theorem mem_outsOf {L : List Votor.Item} {o : Votor.Out} : o ∈ outsOf L ↔ Votor.Item.out o ∈ L := by
  unfold outsOf
  constructor
  · intro h
    obtain ⟨i, hi, hio⟩ := List.mem_filterMap.mp h
    cases i with
    | ev x => cases hio
    | out o' => simp only [Option.some.injEq] at hio; subst hio; exact List.mem_reverse.mp hi
  · intro h
    exact List.mem_filterMap.mpr ⟨.out o, List.mem_reverse.mpr h, rfl⟩

end AgModel.NodePanic
