import AgModel.Model.Pad
/-! Helper lemmas about the padding / chunking arithmetic (`AgModel.Pad`). -/
namespace AgModel.Pad

theorem DATA_eq : DATA = 32 := by decide
theorem TOTAL_eq : TOTAL = 64 := by decide
theorem MAX_PER_SLICE_eq : MAX_PER_SLICE = 32767 := by decide
theorem MAX_AFTER_PADDING_eq : MAX_AFTER_PADDING = 32768 := by decide
theorem MAX_PER_SHRED_eq : MAX_PER_SHRED = 1024 := by decide

theorem paddingBytes_eq (len : Nat) : paddingBytes len = 64 - len % 64 := by
  unfold paddingBytes; rw [DATA_eq]

theorem shredBytes_eq (len : Nat) : shredBytes len = 2 * (len / 64 + 1) := by
  unfold shredBytes; rw [paddingBytes_eq, DATA_eq]; omega

/-- total padded length = 32 shards -/
theorem padded_total (len : Nat) : len + paddingBytes len = 32 * shredBytes len := by
  rw [paddingBytes_eq, shredBytes_eq]; omega

theorem nextMultipleOf_dvd (a b : Nat) (hb : 0 < b) : nextMultipleOf a b % b = 0 := by
  unfold nextMultipleOf
  split
  · assumption
  · have h1 := Nat.mod_lt a hb
    have h2 := Nat.div_add_mod a b
    have : a + (b - a % b) = b * (a / b + 1) := by
      rw [Nat.mul_add, Nat.mul_one]; omega
    rw [this]; exact Nat.mul_mod_right b _

theorem nextMultipleOf_ge (a b : Nat) : a ≤ nextMultipleOf a b := by
  unfold nextMultipleOf; split <;> omega

theorem nextMultipleOf_lt (a b : Nat) (hb : 0 < b) : nextMultipleOf a b < a + b := by
  unfold nextMultipleOf
  have h1 := Nat.mod_lt a hb
  split <;> omega

/-- a multiple of `b` below `k*b + b` … helper: multiples of `b` that are `< (k+1)*b` are `≤ k*b` -/
theorem multiple_le (x b k : Nat) (hb : 0 < b) (hx : x % b = 0) (hlt : x < (k + 1) * b) : x ≤ k * b := by
  have h := Nat.div_add_mod x b
  rw [hx, Nat.add_zero] at h
  have : x / b < k + 1 := by
    apply Nat.lt_of_mul_lt_mul_left (a := b)
    rw [h, Nat.mul_comm]; exact hlt
  have : x / b ≤ k := by omega
  calc x = b * (x / b) := h.symm
    _ ≤ b * k := Nat.mul_le_mul_left b this
    _ = k * b := Nat.mul_comm _ _

theorem lastShredsBytes_props (len : Nat) :
    lastShredsBytes len % shredBytes len = 0 ∧ 64 ≤ lastShredsBytes len ∧
      lastShredsBytes len ≤ 32 * shredBytes len := by
  have hsb := shredBytes_eq len
  have hpos : 0 < shredBytes len := by omega
  unfold lastShredsBytes; rw [DATA_eq]
  refine ⟨nextMultipleOf_dvd _ _ hpos, nextMultipleOf_ge _ _, ?_⟩
  by_cases h2 : shredBytes len = 2
  · rw [h2]; decide
  · have hge : 4 ≤ shredBytes len := by omega
    have hlt := nextMultipleOf_lt (2 * 32) (shredBytes len) hpos
    have hd := nextMultipleOf_dvd (2 * 32) (shredBytes len) hpos
    have := multiple_le _ (shredBytes len) 31 hpos hd (by omega)
    omega

theorem boundary_eq (len : Nat) : boundary len = 32 * shredBytes len - lastShredsBytes len := by
  have ⟨_, h64, hle⟩ := lastShredsBytes_props len
  have ht := padded_total len
  have hp := paddingBytes_eq len
  unfold boundary; omega

/-! ### chunks -/

theorem chunksF_flatten {α : Type} (f n : Nat) (l : List α) (hn : 0 < n) (hf : l.length ≤ f) :
    (chunksF f n l).flatten = l := by
  induction f generalizing l with
  | zero =>
    have : l = [] := List.eq_nil_of_length_eq_zero (by omega)
    subst this; rfl
  | succ f ih =>
    cases l with
    | nil => rfl
    | cons a l =>
      simp only [chunksF, List.flatten_cons]
      rw [ih _ (by simp only [List.length_drop, List.length_cons] at *; omega)]
      exact List.take_append_drop n (a :: l)

theorem chunksF_exact {α : Type} (f n k : Nat) (l : List α) (hn : 0 < n) (hl : l.length = k * n) (hf : k ≤ f) :
    (chunksF f n l).length = k ∧ ∀ c ∈ chunksF f n l, c.length = n := by
  induction f generalizing l k with
  | zero =>
    have hk : k = 0 := by omega
    subst hk
    simp [chunksF]
  | succ f ih =>
    cases l with
    | nil =>
      have : k = 0 := by
        cases k with
        | zero => rfl
        | succ k =>
          simp only [List.length_nil] at hl
          have : 0 < (k + 1) * n := Nat.mul_pos (by omega) hn
          omega
      subst this; simp [chunksF]
    | cons a l =>
      cases k with
      | zero => simp at hl
      | succ k =>
        have hlen : ((a :: l).drop n).length = k * n := by
          rw [List.length_drop, hl, Nat.add_mul]; omega
        have ⟨h1, h2⟩ := ih k _ hlen (by omega)
        simp only [chunksF, List.length_cons, h1, List.mem_cons, true_and]
        intro c hc
        rcases hc with rfl | hc
        · rw [List.length_take, hl, Nat.add_mul]; omega
        · exact h2 c hc

theorem chunks_flatten {α : Type} (n : Nat) (l : List α) (hn : 0 < n) : (chunks n l).flatten = l :=
  chunksF_flatten _ n l hn (Nat.le_refl _)

theorem chunks_exact {α : Type} (n k : Nat) (l : List α) (hn : 0 < n) (hl : l.length = k * n) :
    (chunks n l).length = k ∧ ∀ c ∈ chunks n l, c.length = n := by
  apply chunksF_exact _ n k l hn hl
  rw [hl]; exact Nat.le_mul_of_pos_right k hn

/-! ### the split -/

theorem lastShreds_eq (p : List Nat) :
    lastShreds p = p.drop (boundary p.length) ++ marker :: List.replicate (paddingBytes p.length - 1) 0 := by
  have ⟨_, h64, hle⟩ := lastShredsBytes_props p.length
  have hb := boundary_eq p.length
  have ht := padded_total p.length
  have hp := paddingBytes_eq p.length
  unfold lastShreds resize
  have hl : (List.drop (boundary p.length) p ++ [marker]).length = lastShredsBytes p.length - (paddingBytes p.length - 1) := by
    simp only [List.length_append, List.length_drop, List.length_cons, List.length_nil]; omega
  rw [List.take_of_length_le (by simp only [List.length_append, List.length_replicate, hl]; omega)]
  rw [hl]
  have : lastShredsBytes p.length - (lastShredsBytes p.length - (paddingBytes p.length - 1)) = paddingBytes p.length - 1 := by omega
  rw [this, List.append_assoc]; rfl

/-- The 32 shards, concatenated, are the payload followed by the marker and `padding_bytes - 1` zeros. -/
theorem rsSplit_flatten (p : List Nat) :
    (rsSplit p).flatten = p ++ marker :: List.replicate (paddingBytes p.length - 1) 0 := by
  have hsb := shredBytes_eq p.length
  have hpos : 0 < shredBytes p.length := by omega
  unfold rsSplit
  rw [List.flatten_append, chunks_flatten _ _ hpos, chunks_flatten _ _ hpos, lastShreds_eq p,
    ← List.append_assoc, List.take_append_drop]

/-- `rsSplit` yields exactly `DATA_SHREDS` shards, all of `shred_bytes` bytes. -/
theorem rsSplit_shape (p : List Nat) :
    (rsSplit p).length = 32 ∧ ∀ c ∈ rsSplit p, c.length = shredBytes p.length := by
  have hsb := shredBytes_eq p.length
  have hpos : 0 < shredBytes p.length := by omega
  have ⟨hdvd, h64, hle⟩ := lastShredsBytes_props p.length
  have hb := boundary_eq p.length
  have ht := padded_total p.length
  have hp := paddingBytes_eq p.length
  -- last = kl * sb, boundary = (32 - kl) * sb
  have hkl := Nat.div_add_mod (lastShredsBytes p.length) (shredBytes p.length)
  rw [hdvd, Nat.add_zero] at hkl
  generalize hk : lastShredsBytes p.length / shredBytes p.length = kl at hkl
  have hkl32 : kl ≤ 32 := by
    have h : shredBytes p.length * kl ≤ shredBytes p.length * 32 := by rw [hkl]; omega
    exact Nat.le_of_mul_le_mul_left h hpos
  have h1len : (p.take (boundary p.length)).length = (32 - kl) * shredBytes p.length := by
    rw [List.length_take, Nat.sub_mul, Nat.mul_comm kl, hkl]; omega
  have h2len : (lastShreds p).length = kl * shredBytes p.length := by
    rw [lastShreds_eq p]
    simp only [List.length_append, List.length_drop, List.length_cons, List.length_replicate]
    rw [Nat.mul_comm, hkl]; omega
  have ⟨a1, a2⟩ := chunks_exact _ _ _ hpos h1len
  have ⟨b1, b2⟩ := chunks_exact _ _ _ hpos h2len
  unfold rsSplit
  refine ⟨by rw [List.length_append, a1, b1]; omega, ?_⟩
  intro c hc
  rcases List.mem_append.mp hc with h | h
  · exact a2 c h
  · exact b2 c h

/-! ### unpad -/

theorem trailingZeros_pad (p : List Nat) (k : Nat) :
    trailingZeros (p ++ marker :: List.replicate k 0) = k := by
  unfold trailingZeros
  rw [List.reverse_append, List.reverse_cons, List.reverse_replicate, List.append_assoc]
  rw [List.takeWhile_append_of_pos (by intro x hx; rw [List.eq_of_mem_replicate hx]; rfl)]
  simp [marker]

theorem unpad_pad (p : List Nat) (k : Nat) : unpad (p ++ marker :: List.replicate k 0) = some p := by
  unfold unpad
  simp only [trailingZeros_pad]
  have hl : (p ++ marker :: List.replicate k 0).length = p.length + (k + 1) := by
    simp only [List.length_append, List.length_cons, List.length_replicate]
  rw [hl]
  have : p.length + (k + 1) - (k + 1) = p.length := by omega
  simp only [this]
  rw [if_neg (by omega)]
  have hg : (p ++ marker :: List.replicate k 0).getD p.length 0 = marker := by
    simp [List.getD_eq_getElem?_getD]
  rw [hg]
  simp

/-- padding and unpadding round-trip for every payload within the size limit -/
theorem unpad_rsSplit (p : List Nat) :
    unpad (rsSplit p).flatten = some p := by
  rw [rsSplit_flatten p]; exact unpad_pad p _

/-- anything `unpad` accepts is a strict prefix of its input (the restored payload is shorter than the buffer) -/
theorem unpad_length (l q : List Nat) (h : unpad l = some q) : q.length < l.length := by
  unfold unpad at h
  simp only at h
  split at h
  · simp at h
  · split at h
    · simp at h
    · simp only [Option.some.injEq] at h
      subst h
      rw [List.length_take]; omega

end AgModel.Pad
