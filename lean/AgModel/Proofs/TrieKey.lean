import AgModel.Model.TrieKey
/-! Key/chunk arithmetic of the state trie. Core Lean only. -/
namespace AgModel.Trie

theorem bitsPerLevel_eq : bitsPerLevel = 5 := rfl

theorem numChunks_eq : numChunks = 52 := by decide

theorem chunkAt_lt (k : Key) (d : Nat) : chunkAt k d < 32 := by
  simp only [chunkAt, bitsPerLevel_eq]
  exact Nat.mod_lt _ (by decide)

theorem chunks_length (k : Key) : (chunks k).length = 52 := by
  simp [chunks, numChunks_eq]

/-! ### `lexLt` is a strict total order -/

theorem lexLt_irrefl (a : List Nat) : lexLt a a = false := by
  induction a with
  | nil => rfl
  | cons x xs ih => simp [lexLt, ih]

theorem lexLt_trans (a b c : List Nat) : lexLt a b = true → lexLt b c = true → lexLt a c = true := by
  induction a generalizing b c with
  | nil =>
    cases b with
    | nil => simp [lexLt]
    | cons y ys =>
      cases c with
      | nil => simp [lexLt]
      | cons z zs => simp [lexLt]
  | cons x xs ih =>
    cases b with
    | nil => simp [lexLt]
    | cons y ys =>
      cases c with
      | nil => simp [lexLt]
      | cons z zs =>
        simp only [lexLt, Bool.or_eq_true, Bool.and_eq_true, decide_eq_true_eq, beq_iff_eq]
        intro h1 h2
        rcases h1 with h1 | ⟨h1, h1'⟩
        · rcases h2 with h2 | ⟨h2, _⟩
          · left; omega
          · left; omega
        · rcases h2 with h2 | ⟨h2, h2'⟩
          · left; omega
          · right; exact ⟨by omega, ih _ _ h1' h2'⟩

theorem lexLt_total (a b : List Nat) (h : a.length = b.length) :
    lexLt a b = true ∨ a = b ∨ lexLt b a = true := by
  induction a generalizing b with
  | nil =>
    cases b with
    | nil => simp
    | cons y ys => simp at h
  | cons x xs ih =>
    cases b with
    | nil => simp at h
    | cons y ys =>
      have hl : xs.length = ys.length := by simpa using h
      simp only [lexLt, Bool.or_eq_true, Bool.and_eq_true, decide_eq_true_eq, beq_iff_eq,
        List.cons.injEq]
      rcases Nat.lt_trichotomy x y with hxy | hxy | hxy
      · left; left; exact hxy
      · rcases ih ys hl with h' | h' | h'
        · left; right; exact ⟨hxy, h'⟩
        · right; left; exact ⟨hxy, h'⟩
        · right; right; right; exact ⟨hxy.symm, h'⟩
      · right; right; left; exact hxy

theorem lexLt_asymm (a b : List Nat) : lexLt a b = true → lexLt b a = false := by
  intro h
  cases h' : lexLt b a with
  | false => rfl
  | true =>
    have := lexLt_trans a b a h h'
    rw [lexLt_irrefl] at this
    exact absurd this (by decide)

/-! ### positional value of a digit list -/

/-- value of a big-endian digit list in base `b` -/
def val (b : Nat) : List Nat → Nat
  | [] => 0
  | x :: xs => x * b ^ xs.length + val b xs

theorem mul_add_lt {x y P u v : Nat} (hxy : x < y) (hu : u < P) : x * P + u < y * P + v := by
  have : (x + 1) * P ≤ y * P := Nat.mul_le_mul_right _ hxy
  rw [Nat.add_mul] at this
  omega

theorem val_lt (b : Nat) (l : List Nat) (h : ∀ x ∈ l, x < b) : val b l < b ^ l.length := by
  induction l with
  | nil => simp [val]
  | cons x xs ih =>
    have hx : x < b := h x (by simp)
    have ih' := ih (fun y hy => h y (by simp [hy]))
    simp only [val, List.length_cons, Nat.pow_succ]
    have := @mul_add_lt x b (b ^ xs.length) (val b xs) 0 hx ih'
    rw [Nat.mul_comm (b ^ xs.length) b]
    omega

theorem val_append (b : Nat) (l1 l2 : List Nat) :
    val b (l1 ++ l2) = val b l1 * b ^ l2.length + val b l2 := by
  induction l1 with
  | nil => simp [val]
  | cons x xs ih =>
    simp only [List.cons_append, val, ih, List.length_append, Nat.pow_add, Nat.add_mul,
      Nat.mul_assoc, Nat.add_assoc]

theorem lexLt_eq_val (b : Nat) (a c : List Nat) (hl : a.length = c.length)
    (ha : ∀ x ∈ a, x < b) (hc : ∀ x ∈ c, x < b) :
    lexLt a c = decide (val b a < val b c) := by
  induction a generalizing c with
  | nil =>
    cases c with
    | nil => simp [lexLt, val]
    | cons y ys => simp at hl
  | cons x xs ih =>
    cases c with
    | nil => simp at hl
    | cons y ys =>
      have hl' : xs.length = ys.length := by simpa using hl
      have hxs := val_lt b xs (fun z hz => ha z (by simp [hz]))
      have hys := val_lt b ys (fun z hz => hc z (by simp [hz]))
      have ih' := ih ys hl' (fun z hz => ha z (by simp [hz])) (fun z hz => hc z (by simp [hz]))
      simp only [lexLt, val, ih', hl'] at *
      rcases Nat.lt_trichotomy x y with hxy | hxy | hxy
      · have := @mul_add_lt x y (b ^ ys.length) (val b xs) (val b ys) hxy hxs
        simp [hxy, this]
      · subst hxy
        simp
      · have := @mul_add_lt y x (b ^ ys.length) (val b ys) (val b xs) hxy hys
        have h1 : ¬ x < y := by omega
        have h2 : ¬ x = y := by omega
        have h3 : ¬ (x * b ^ ys.length + val b xs < y * b ^ ys.length + val b ys) := by omega
        simp [h1, h2, h3]

theorem val_inj (b : Nat) (a c : List Nat) (hl : a.length = c.length)
    (ha : ∀ x ∈ a, x < b) (hc : ∀ x ∈ c, x < b) (hv : val b a = val b c) : a = c := by
  rcases lexLt_total a c hl with h | h | h
  · rw [lexLt_eq_val b a c hl ha hc] at h
    simp at h; omega
  · exact h
  · rw [lexLt_eq_val b c a hl.symm hc ha] at h
    simp at h; omega

/-! ### chunks as base-32 digits of `16 * (key as base-256 number)` -/

def chunksN (n : Nat) (k : Key) : List Nat := (List.range n).map (chunkAt k)

theorem chunkAt_shift (b0 b1 b2 b3 b4 : Nat) (rest : Key) (d : Nat) :
    chunkAt (b0 :: b1 :: b2 :: b3 :: b4 :: rest) (8 + d) = chunkAt rest d := by
  have e1 : (8 + d) * 5 / 8 = d * 5 / 8 + 5 := by omega
  have e2 : (8 + d) * 5 % 8 = d * 5 % 8 := by omega
  simp only [chunkAt, bitsPerLevel_eq, e1, e2, List.getD_cons_succ]

theorem chunksN_shift (b0 b1 b2 b3 b4 : Nat) (rest : Key) (n : Nat) :
    chunksN (8 + n) (b0 :: b1 :: b2 :: b3 :: b4 :: rest)
      = chunksN 8 (b0 :: b1 :: b2 :: b3 :: b4 :: rest) ++ chunksN n rest := by
  have h : ((List.range n).map (8 + ·)).map (chunkAt (b0 :: b1 :: b2 :: b3 :: b4 :: rest))
      = (List.range n).map (chunkAt rest) := by
    rw [List.map_map]
    apply List.map_congr_left
    intro d _
    exact chunkAt_shift b0 b1 b2 b3 b4 rest d
  simp only [chunksN, List.range_add, List.map_append, h]

theorem win_c0 (a b : Nat) (_ha : a < 256) (_hb : b < 256) :
    (a * 256 + b) / 2048 % 32 = a / 8 := by omega

theorem win_c1 (a b : Nat) (_ha : a < 256) (_hb : b < 256) :
    (a * 256 + b) / 64 % 32 = a % 8 * 4 + b / 64 := by omega

theorem win_c2 (a b : Nat) (_ha : a < 256) (_hb : b < 256) :
    (a * 256 + b) / 512 % 32 = a / 2 % 32 := by omega

theorem win_c3 (a b : Nat) (_ha : a < 256) (_hb : b < 256) :
    (a * 256 + b) / 16 % 32 = a % 2 * 16 + b / 16 := by omega

theorem win_c4 (a b : Nat) (_ha : a < 256) (_hb : b < 256) :
    (a * 256 + b) / 128 % 32 = a % 16 * 2 + b / 128 := by omega

theorem win_c5 (a b : Nat) (_ha : a < 256) (_hb : b < 256) :
    (a * 256 + b) / 1024 % 32 = a / 4 % 32 := by omega

theorem win_c6 (a b : Nat) (_ha : a < 256) (_hb : b < 256) :
    (a * 256 + b) / 32 % 32 = a % 4 * 8 + b / 32 := by omega

theorem win_c7 (a b : Nat) (_ha : a < 256) (_hb : b < 256) :
    (a * 256 + b) / 256 % 32 = a % 32 := by omega

theorem group_val (b0 b1 b2 b3 b4 : Nat) (rest : Key)
    (h0 : b0 < 256) (h1 : b1 < 256) (h2 : b2 < 256) (h3 : b3 < 256) (h4 : b4 < 256)
    (h5 : rest.getD 0 0 < 256) :
    val 32 (chunksN 8 (b0 :: b1 :: b2 :: b3 :: b4 :: rest)) = val 256 [b0, b1, b2, b3, b4] := by
  have hr : List.range 8 = [0, 1, 2, 3, 4, 5, 6, 7] := by decide
  simp only [chunksN, hr, List.map, chunkAt, bitsPerLevel_eq, val, List.length_cons,
    List.length_nil, List.getD_cons_succ, List.getD_cons_zero,
    Nat.reduceMul, Nat.reduceDiv, Nat.reduceMod, Nat.reduceSub, Nat.reducePow, Nat.reduceAdd]
  rw [win_c0 b0 b1 h0 h1, win_c1 b0 b1 h0 h1, win_c2 b1 b2 h1 h2, win_c3 b1 b2 h1 h2,
    win_c4 b2 b3 h2 h3, win_c5 b3 b4 h3 h4, win_c6 b3 b4 h3 h4, win_c7 b4 _ h4 h5]
  omega

theorem chunksN_length (n : Nat) (k : Key) : (chunksN n k).length = n := by
  simp [chunksN]

theorem tail_val (b0 b1 : Nat) (h0 : b0 < 256) (h1 : b1 < 256) :
    val 32 (chunksN 4 [b0, b1]) = 16 * val 256 [b0, b1] := by
  have hr : List.range 4 = [0, 1, 2, 3] := by decide
  simp only [chunksN, hr, List.map, chunkAt, bitsPerLevel_eq, val, List.length_cons,
    List.length_nil, List.getD_cons_succ, List.getD_cons_zero, List.getD_nil,
    Nat.reduceMul, Nat.reduceDiv, Nat.reduceMod, Nat.reduceSub, Nat.reducePow, Nat.reduceAdd]
  omega

theorem pow_32_256 (g : Nat) : 32 ^ (8 * g + 4) = 16 * 256 ^ (5 * g + 2) := by
  show (2 ^ 5) ^ (8 * g + 4) = 2 ^ 4 * (2 ^ 8) ^ (5 * g + 2)
  rw [← Nat.pow_mul, ← Nat.pow_mul, ← Nat.pow_add]
  congr 1
  omega

theorem chunksN_val (g : Nat) (k : Key) (hl : k.length = 5 * g + 2) (hb : ∀ x ∈ k, x < 256) :
    val 32 (chunksN (8 * g + 4) k) = 16 * val 256 k := by
  induction g generalizing k with
  | zero =>
    match k, hl with
    | [b0, b1], _ => exact tail_val b0 b1 (hb b0 (by simp)) (hb b1 (by simp))
  | succ g ih =>
    match k, hl with
    | b0 :: b1 :: b2 :: b3 :: b4 :: rest, hl =>
      have hlr : rest.length = 5 * g + 2 := by simp at hl; omega
      have hbr : ∀ x ∈ rest, x < 256 := fun x hx => hb x (by simp [hx])
      have h5 : rest.getD 0 0 < 256 := by
        match rest, hlr with
        | r :: _, _ => exact hbr r (by simp)
      have e : 8 * (g + 1) + 4 = 8 + (8 * g + 4) := by omega
      have ea : b0 :: b1 :: b2 :: b3 :: b4 :: rest = [b0, b1, b2, b3, b4] ++ rest := rfl
      rw [e, chunksN_shift, val_append, chunksN_length, ih rest hlr hbr,
        group_val b0 b1 b2 b3 b4 rest (hb b0 (by simp)) (hb b1 (by simp)) (hb b2 (by simp))
          (hb b3 (by simp)) (hb b4 (by simp)) h5,
        ea, val_append, hlr, pow_32_256, Nat.mul_add, Nat.mul_left_comm]

theorem chunks_eq_chunksN (k : Key) : chunks k = chunksN (8 * 6 + 4) k := by
  simp only [chunks, chunksN, numChunks_eq]

theorem chunks_val (k : Key) (h : ValidKey k) : val 32 (chunks k) = 16 * val 256 k := by
  rw [chunks_eq_chunksN]
  exact chunksN_val 6 k h.1 h.2

theorem chunks_digits (k : Key) : ∀ x ∈ chunks k, x < 32 := by
  intro x hx
  simp only [chunks, List.mem_map] at hx
  obtain ⟨d, _, rfl⟩ := hx
  exact chunkAt_lt k d

/-- a valid key is determined by its 52 chunks (the 5-bit windows cover all 256 bits) -/
theorem chunks_inj (k1 k2 : Key) (h1 : ValidKey k1) (h2 : ValidKey k2)
    (h : ∀ d, d < 52 → chunkAt k1 d = chunkAt k2 d) : k1 = k2 := by
  have hc : chunks k1 = chunks k2 := by
    simp only [chunks, numChunks_eq]
    apply List.map_congr_left
    intro d hd
    exact h d (by simpa using hd)
  have hv : 16 * val 256 k1 = 16 * val 256 k2 := by
    rw [← chunks_val k1 h1, ← chunks_val k2 h2, hc]
  exact val_inj 256 k1 k2 (h1.1.trans h2.1.symm) h1.2 h2.2 (by omega)

/-- chunk-lexicographic order (the trie's iteration order) is byte-lexicographic order -/
theorem chunks_lex_iff (k1 k2 : Key) (h1 : ValidKey k1) (h2 : ValidKey k2) :
    lexLt (chunks k1) (chunks k2) = lexLt k1 k2 := by
  rw [lexLt_eq_val 32 (chunks k1) (chunks k2) (by simp [chunks_length])
      (chunks_digits k1) (chunks_digits k2),
    lexLt_eq_val 256 k1 k2 (h1.1.trans h2.1.symm) h1.2 h2.2,
    chunks_val k1 h1, chunks_val k2 h2]
  apply decide_eq_decide.mpr
  omega

end AgModel.Trie
