import AgModel.Proofs.PoolBasic
/-!
Invariant of a per-slot pool state (`SlotState`) and its preservation by the slot-local transition
`slotStep` (vote admission + `SlotState.addVote` + adding the certificates it created, received
certificates, parent notifications). Used by C03 / C04 / C06 / C18.
-/
namespace AgModel.Pool

/-! ### frame: safe-to-notar bookkeeping does not touch votes, counters, certificates -/

/-- everything except the safe-to-notar / safe-to-skip bookkeeping (`parents`, `pending`, `sent`, `sentS2S`) -/
def SlotState.core (st : SlotState) : SlotState :=
  { st with parents := [], pending := [], sent := [], sentS2S := false }

theorem checkS2N_core (e : Epoch) (st : SlotState) (h : Nat) : (st.checkS2N e h).1.core = st.core := by
  unfold SlotState.checkS2N
  dsimp only
  repeat' (first | rfl | split)

theorem checkS2N_slot (e : Epoch) (st : SlotState) (h : Nat) : (st.checkS2N e h).1.slot = st.slot := by
  have := congrArg SlotState.slot (checkS2N_core e st h); exact this

theorem recheckPending_core (e : Epoch) (st : SlotState) (hs : List Nat) (acc : List Event) :
    (SlotState.recheckPending e st hs acc).1.core = st.core := by
  induction hs generalizing st acc with
  | nil => rfl
  | cons h hs ih =>
    unfold SlotState.recheckPending
    split
    · exact ih _ _
    · rw [ih]; exact checkS2N_core e st h

theorem s2sCheck_core (e : Epoch) (st : SlotState) : (st.s2sCheck e).1.core = st.core := by
  unfold SlotState.s2sCheck; split <;> rfl

/-! ### the invariant -/

/-- vote stores and counters: stores hold each validator at most once per class, the accepted votes of
    one validator are conflict-free, and every counter is the stake recount of the stored votes -/
structure InvV (e : Epoch) (st : SlotState) : Prop where
  notarNodup : (st.vNotar.map Prod.fst).Nodup
  nfNodup : st.vNf.Nodup
  skipNodup : st.vSkip.Nodup
  sfNodup : st.vSf.Nodup
  finNodup : st.vFin.Nodup
  cNotar : ∀ h, lookupD st.sNotar h = stakeOf e (st.notarVoters e.n h)
  cNf : ∀ h, lookupD st.sNf h = stakeOf e (st.nfVoters e.n h)
  cSkip : st.sSkip = stakeOf e (st.skipVoters e.n)
  cSf : st.sSf = stakeOf e (st.sfVoters e.n)
  cFin : st.sFin = stakeOf e (st.finVoters e.n)
  cNotarOrSkip : st.sNotarOrSkip =
    stakeOf e ((List.range e.n).filter (fun v => (st.vNotar.lookup v).isSome)) + st.sSkip
  topGe : ∀ h, lookupD st.sNotar h ≤ st.sTopNotar
  topAttained : st.sTopNotar = 0 ∨ ∃ h, lookupD st.sNotar h = st.sTopNotar
  noSkipNotar : ∀ v, v ∈ st.vSkip → st.vNotar.lookup v = none
  noFinSkip : ∀ v, v ∈ st.vFin → v ∉ st.vSkip ∧ v ∉ st.vSf ∧ ∀ h, (v, h) ∉ st.vNf
  noSkipSf : ∀ v, v ∈ st.vSkip → v ∉ st.vSf
  noNotarNfSame : ∀ v h, (v, h) ∈ st.vNf → st.vNotar.lookup v ≠ some h

/-- timeliness: whenever the counted stake reaches a threshold the certificate is held -/
structure InvT (e : Epoch) (st : SlotState) : Prop where
  tNotar : ∀ h, e.isQuorum (lookupD st.sNotar h) = true → st.cNotar.isSome = true
  tFf : ∀ h, e.isStrong (lookupD st.sNotar h) = true → st.cFf.isSome = true
  tNf : ∀ h, e.isQuorum (lookupD st.sNf h + lookupD st.sNotar h) = true → st.isNf h = true
  tSkip : e.isQuorum (st.sSkip + st.sSf) = true → st.cSkip.isSome = true
  tFin : e.isQuorum st.sFin = true → st.cFin.isSome = true

def Inv (e : Epoch) (st : SlotState) : Prop := InvV e st ∧ InvT e st

theorem filter_false_sum (l : List Nat) (f : Nat → Nat) : ((l.filter (fun _ => false)).map f).sum = 0 := by
  induction l with
  | nil => rfl
  | cons a as ih => simpa [List.filter_cons] using ih

theorem Inv.init (e : Epoch) (s : Nat) (hpos : 0 < e.total) : Inv e { slot := s } := by
  have hq : ∀ num den, 0 < num → isMet num den 0 e.total = false := by
    intro num den hn; unfold isMet; simp; exact Nat.ne_of_gt (Nat.mul_pos hpos hn)
  constructor <;> constructor <;> simp [lookupD, stakeOf, SlotState.notarVoters, SlotState.nfVoters, SlotState.skipVoters,
    SlotState.sfVoters, SlotState.finVoters, SlotState.isNf, Epoch.isQuorum, Epoch.isStrong, hq, Gen.QUORUM_THRESHOLD_NUM,
    Gen.STRONG_QUORUM_THRESHOLD_NUM, filter_false_sum]

theorem InvV.to_core {e : Epoch} {st : SlotState} (i : InvV e st) : InvV e st.core :=
  ⟨i.notarNodup, i.nfNodup, i.skipNodup, i.sfNodup, i.finNodup, i.cNotar, i.cNf, i.cSkip, i.cSf, i.cFin,
   i.cNotarOrSkip, i.topGe, i.topAttained, i.noSkipNotar, i.noFinSkip, i.noSkipSf, i.noNotarNfSame⟩

theorem InvV.of_core {e : Epoch} {st : SlotState} (i : InvV e st.core) : InvV e st :=
  ⟨i.notarNodup, i.nfNodup, i.skipNodup, i.sfNodup, i.finNodup, i.cNotar, i.cNf, i.cSkip, i.cSf, i.cFin,
   i.cNotarOrSkip, i.topGe, i.topAttained, i.noSkipNotar, i.noFinSkip, i.noSkipSf, i.noNotarNfSame⟩

theorem InvT.to_core {e : Epoch} {st : SlotState} (i : InvT e st) : InvT e st.core :=
  ⟨i.tNotar, i.tFf, i.tNf, i.tSkip, i.tFin⟩

theorem InvT.of_core {e : Epoch} {st : SlotState} (i : InvT e st.core) : InvT e st :=
  ⟨i.tNotar, i.tFf, i.tNf, i.tSkip, i.tFin⟩

/-! ### what `addVote` does to the core state, and which certificates it creates -/

def SlotState.stored (e : Epoch) (st : SlotState) (v : Vote) : SlotState :=
  match v.kind with
  | .notar => { st with vNotar := st.vNotar ++ [(v.signer, v.hash)], sNotar := addTo st.sNotar v.hash (e.stake v.signer),
                        sNotarOrSkip := st.sNotarOrSkip + e.stake v.signer,
                        sTopNotar := max (lookupD (addTo st.sNotar v.hash (e.stake v.signer)) v.hash) st.sTopNotar }
  | .nf => { st with vNf := st.vNf ++ [(v.signer, v.hash)], sNf := addTo st.sNf v.hash (e.stake v.signer) }
  | .skip => { st with vSkip := st.vSkip ++ [v.signer], sNotarOrSkip := st.sNotarOrSkip + e.stake v.signer,
                       sSkip := st.sSkip + e.stake v.signer }
  | .sf => { st with vSf := st.vSf ++ [v.signer], sSf := st.sSf + e.stake v.signer }
  | .final => { st with vFin := st.vFin ++ [v.signer], sFin := st.sFin + e.stake v.signer }

/-- certificate-relevant data of a state depends on the core only -/
structure CoreEq (a b : SlotState) : Prop where
  eq : a.core = b.core

theorem CoreEq.refl (a : SlotState) : CoreEq a a := ⟨rfl⟩
theorem CoreEq.trans {a b c : SlotState} (h1 : CoreEq a b) (h2 : CoreEq b c) : CoreEq a c := ⟨h1.eq.trans h2.eq⟩
theorem CoreEq.symm {a b : SlotState} (h1 : CoreEq a b) : CoreEq b a := ⟨h1.eq.symm⟩

theorem countNotar_core (e : Epoch) (st : SlotState) (h stake : Nat) :
    CoreEq (SlotState.countNotar e st h stake).1
      { st with sNotar := addTo st.sNotar h stake, sNotarOrSkip := st.sNotarOrSkip + stake,
                sTopNotar := max (lookupD (addTo st.sNotar h stake) h) st.sTopNotar } := by
  constructor
  unfold SlotState.countNotar
  dsimp only
  split
  · rename_i hs
    rw [s2sCheck_core, checkS2N_core]
  · rw [s2sCheck_core]

theorem countNf_core (e : Epoch) (st : SlotState) (h stake : Nat) :
    CoreEq (SlotState.countNf e st h stake).1 { st with sNf := addTo st.sNf h stake } := ⟨rfl⟩

theorem countSkip_core (e : Epoch) (st : SlotState) (stake : Nat) (fb : Bool) :
    CoreEq (SlotState.countSkip e st stake fb).1
      (if fb then { st with sSf := st.sSf + stake } else { st with sSkip := st.sSkip + stake }) := by
  constructor
  unfold SlotState.countSkip
  dsimp only
  rw [s2sCheck_core, recheckPending_core]

theorem countFin_core (e : Epoch) (st : SlotState) (stake : Nat) :
    CoreEq (SlotState.countFin e st stake).1 { st with sFin := st.sFin + stake } := ⟨rfl⟩

theorem addVote_core (e : Epoch) (st : SlotState) (v : Vote) :
    CoreEq (st.addVote e v).1 (st.stored e v) := by
  constructor
  unfold SlotState.addVote SlotState.stored
  dsimp only
  cases hk : v.kind <;> dsimp only
  all_goals (split <;> (try rw [recheckPending_core]))
  all_goals first
    | exact (countNotar_core e _ _ _).eq
    | exact (countNf_core e _ _ _).eq
    | exact (countSkip_core e _ _ false).eq
    | exact (countSkip_core e _ _ true).eq
    | exact (countFin_core e _ _).eq

theorem InvV.of_coreEq {e : Epoch} {a b : SlotState} (h : CoreEq a b) (i : InvV e a) : InvV e b := by
  have := i.to_core
  rw [h.eq] at this
  exact this.of_core

theorem InvT.of_coreEq {e : Epoch} {a b : SlotState} (h : CoreEq a b) (i : InvT e a) : InvT e b := by
  have := i.to_core
  rw [h.eq] at this
  exact this.of_core

end AgModel.Pool
