import AgModel.Proofs.ProgressPhase
import AgModel.Model.Node
/-!
# C02 progress, pool part 3: one vote of the timely schedule enters a pool

`PhaseN e hi s h p X F Q`: the trackers of pool `Q` after the validators `X` voted notar for `(s, h)` and `F` voted final: the
slot is finalized (ready for `s + 1`) iff the notar stake is strong or notar and final stakes are quorums; the
notar-fallback and notarization certificates have been added iff the notar stake is a quorum.
-/
namespace AgModel.Pool
open AgModel
open AgModel.ParentReady (get isWindowStart)
open AgModel.Node (toVotor certKind)

/-- what Votor will see of a list of pool events -/
def vEvs (evs : List Event) : List Votor.Event := evs.filterMap toVotor

theorem vEvs_append (a b : List Event) : vEvs (a ++ b) = vEvs a ++ vEvs b := by
  unfold vEvs; rw [List.filterMap_append]

theorem vEvs_silent {evs : List Event} (h : Silent evs) : vEvs evs = [] := by
  unfold vEvs
  rw [List.filterMap_eq_nil_iff]
  intro ev hev
  obtain ⟨a, b, rfl⟩ := h ev hev
  rfl

theorem Silent.noPanic {evs : List Event} (h : Silent evs) : Event.panic ∉ evs := by
  intro hp
  obtain ⟨a, b, e⟩ := h _ hp
  cases e

def PhaseN (e : Epoch) (hi s h : Nat) (p : Nat × Nat) (X F : List Nat) (Q : Pool) : Prop :=
  if e.isStrong (stakeOf e X) = true ∨ (e.isQuorum (stakeOf e X) = true ∧ e.isQuorum (stakeOf e F) = true) then
    TReady hi (s + 1) (s, h) Q ∧ Q.fin.status s = some (.finalized h)
  else if e.isQuorum (stakeOf e X) = true then TMid hi s h p true true Q
  else TMid hi s h p false false Q

theorem PhaseN.inBounds {e : Epoch} {hi s h : Nat} {p : Nat × Nat} {X F : List Nat} {Q : Pool}
    (ph : PhaseN e hi s h p X F Q) (hs : s ≤ hi) : Q.outOfBounds s = false := by
  have : Q.fin.first ≤ s ∧ hi < Q.fin.highest + 2 * Gen.SLOTS_PER_EPOCH := by
    unfold PhaseN at ph
    split at ph
    · exact ⟨ph.1.first_le, ph.1.bound⟩
    · split at ph
      · exact ⟨Nat.le_trans ph.first_le (Nat.le_of_lt ph.plt), ph.bound⟩
      · exact ⟨Nat.le_trans ph.first_le (Nat.le_of_lt ph.plt), ph.bound⟩
  unfold Pool.outOfBounds
  simp only [Bool.or_eq_false_iff, decide_eq_false_iff_not]
  omega

theorem PhaseN.of_trk {e : Epoch} {hi s h : Nat} {p : Nat × Nat} {X F : List Nat} {Q Q' : Pool}
    (ph : PhaseN e hi s h p X F Q) (ht : Q'.trk = Q.trk) : PhaseN e hi s h p X F Q' := by
  unfold PhaseN at ph ⊢
  split
  · rename_i hc; rw [if_pos hc] at ph
    have e1 : Q'.fin = Q.fin := congrArg Trk.fin ht
    exact ⟨ph.1.of_trk ht, by rw [e1]; exact ph.2⟩
  · rename_i hc; rw [if_neg hc] at ph
    split
    · rename_i hq; rw [if_pos hq] at ph; exact ph.of_trk ht
    · rename_i hq; rw [if_neg hq] at ph; exact ph.of_trk ht

theorem addValidCerts_nil (Q : Pool) (acc : List Event) : Q.addValidCerts [] acc = (Q, acc) := rfl
theorem addValidCerts_cons (Q : Pool) (c : Cert) (cs : List Cert) (acc : List Event) :
    Q.addValidCerts (c :: cs) acc = (Q.addValidCert c).1.addValidCerts cs (acc ++ (Q.addValidCert c).2) := rfl

theorem foldl_addCert_slot (cs : List Cert) (st : SlotState) : (cs.foldl SlotState.addCert st).slot = st.slot := by
  induction cs generalizing st with
  | nil => rfl
  | cons c cs ih =>
    rw [List.foldl_cons, ih]
    unfold SlotState.addCert
    cases c.kind <;> dsimp only
    split <;> rfl

theorem quorum_nil (e : Epoch) (hpos : 0 < e.total) : e.isQuorum (stakeOf e []) = false := isMet_zero _ _ _ (by decide) hpos

/-- the Votor events caused by the notarization vote of `j`, after those of `X` -/
def notarVEvs (e : Epoch) (s h : Nat) (X : List Nat) (j : Nat) : List Votor.Event :=
  (if (e.isQuorum (stakeOf e (X ++ [j])) && !e.isQuorum (stakeOf e X)) = true then
    (if isWindowStart (s + 1) = true then [Votor.Event.parentReady (s + 1) s h] else []) ++
      [.cert .notarFallback s h, .cert .notar s h] else []) ++
  (if (e.isStrong (stakeOf e (X ++ [j])) && !e.isStrong (stakeOf e X)) = true then [.cert .fastFinal s h] else [])

theorem vEvs_prEvents_one (w a b : Nat) : vEvs (prEvents [(w, (a, b))]) = [.parentReady w a b] := rfl

theorem map_eq_one {α β : Type} {f : α → β} {l : List α} {a : β} (h : l.map f = [a]) : ∃ x, l = [x] ∧ f x = a := by
  match l, h with
  | [x], h => exact ⟨x, rfl, by simpa using h⟩

theorem map_eq_two {α β : Type} {f : α → β} {l : List α} {a b : β} (h : l.map f = [a, b]) :
    ∃ x y, l = [x, y] ∧ f x = a ∧ f y = b := by
  match l, h with
  | [x, y], h => exact ⟨x, y, rfl, by simpa using h⟩

theorem map_eq_three {α β : Type} {f : α → β} {l : List α} {a b c : β} (h : l.map f = [a, b, c]) :
    ∃ x y z, l = [x, y, z] ∧ f x = a ∧ f y = b ∧ f z = c := by
  match l, h with
  | [x, y, z], h => exact ⟨x, y, z, rfl, by simpa using h⟩

theorem cid3_eq {c : Cert} {k : CertKind} {s h : Nat} (hc : cid3 c = (k, s, h)) : c.kind = k ∧ c.slot = s ∧ c.hash = h := by
  unfold cid3 at hc
  simp only [Prod.mk.injEq] at hc
  exact hc

theorem vEvs_cert (c : Cert) : vEvs [.cert c] = [.cert (certKind c.kind) c.slot c.hash] := rfl
theorem vEvs_repair_cert (a b : Nat) (c : Cert) : vEvs [.repair a b, .cert c] = [.cert (certKind c.kind) c.slot c.hash] := rfl
theorem vEvs_prEvents_ite (b : Bool) (w x y : Nat) :
    vEvs (prEvents (if b = true then [(w, (x, y))] else [])) = (if b = true then [Votor.Event.parentReady w x y] else []) := by
  cases b <;> rfl

theorem panic_not_mem_prEvents (anns : List (Nat × (Nat × Nat))) : Event.panic ∉ prEvents anns := by
  unfold prEvents
  intro h
  obtain ⟨a, _, ha⟩ := List.mem_map.mp h
  cases ha

/-- **one notarization vote of the exchange enters a pool** -/
theorem addVote_notar_step {e : Epoch} (hpos : 0 < e.total) {hi s h : Nat} {p : Nat × Nat} {X : List Nat} {a : SlotState}
    {Q : Pool} (hs : s ≤ hi) (ps : PSlot e s a Q) (hst : NotarSt e s h X [] a) (ph : PhaseN e hi s h p X [] Q)
    (j : Nat) (hj : j ∉ X) (hjn : j < e.n) :
    ∃ a', (Q.addVote ⟨.notar, s, h, j⟩).2.1 = .ok ∧ PSlot e s a' (Q.addVote ⟨.notar, s, h, j⟩).1 ∧
      NotarSt e s h (X ++ [j]) [] a' ∧ PhaseN e hi s h p (X ++ [j]) [] (Q.addVote ⟨.notar, s, h, j⟩).1 ∧
      Event.panic ∉ (Q.addVote ⟨.notar, s, h, j⟩).2.2 ∧
      vEvs (Q.addVote ⟨.notar, s, h, j⟩).2.2 = notarVEvs e s h X j := by
  have hss : Q.slotState s = (Q, a) := slotState_of_some ps.slot
  obtain ⟨hc, hi'⟩ := hst.admit_notar hj
  have hadm := addVote_admitted Q ⟨.notar, s, h, j⟩ (ph.inBounds hs) (by rw [ps.epoch]; exact hjn)
    (by rw [hss]; exact hc) (by rw [hss]; exact hi')
  simp only [hss, ps.epoch] at hadm
  obtain ⟨hsil, hst', hids⟩ := hst.addNotar hpos j
  rw [hadm]
  generalize a.addVote e ⟨.notar, s, h, j⟩ = r at *
  have hr1s : r.1.slot = s := by rw [← foldl_addCert_slot r.2.1 r.1]; exact hst'.1.slot
  have ps1 : PSlot e s r.1 (Q.putSlot r.1) := ps.putSlot hr1s
  have htrk1 : (Q.putSlot r.1).trk = Q.trk := putSlot_trk _ _
  have ph1 := ph.of_trk htrk1
  generalize Q.putSlot r.1 = Q1 at *
  have hqn := quorum_nil e hpos
  have hN : stakeOf e (X ++ [j]) = stakeOf e X + e.stake j := by rw [stakeOf_append, stakeOf_single]
  have hq : e.isQuorum (stakeOf e X) = true → e.isQuorum (stakeOf e (X ++ [j])) = true :=
    fun hh => isMet_mono_le _ _ _ _ _ (by omega) hh
  have hf : e.isStrong (stakeOf e X) = true → e.isStrong (stakeOf e (X ++ [j])) = true :=
    fun hh => isMet_mono_le _ _ _ _ _ (by omega) hh
  have hfq0 := isStrong_isQuorum e (stakeOf e X)
  have hfq1 := isStrong_isQuorum e (stakeOf e (X ++ [j]))
  unfold newNotarCerts at hids
  unfold PhaseN at ph1 ⊢
  unfold notarVEvs
  simp only [hqn, Bool.false_eq_true, and_false, or_false] at ph1 ⊢
  cases hq0 : e.isQuorum (stakeOf e X) <;> cases hq1 : e.isQuorum (stakeOf e (X ++ [j])) <;>
    cases hf0 : e.isStrong (stakeOf e X) <;> cases hf1 : e.isStrong (stakeOf e (X ++ [j])) <;>
    (try (have := hq hq0; rw [hq1] at this; cases this)) <;>
    (try (have := hf hf0; rw [hf1] at this; cases this)) <;>
    (try (have := hfq0 hf0; rw [hq0] at this; cases this)) <;>
    (try (have := hfq1 hf1; rw [hq1] at this; cases this)) <;>
    simp only [hq0, hq1, hf0, hf1, Bool.true_and, Bool.false_and, Bool.not_true, Bool.not_false, Bool.false_eq_true,
      if_false, if_true, List.nil_append, List.append_nil] at hids ph1 ⊢
  · -- nothing crossed, below the quorum
    have hcs : r.2.1 = [] := by simpa using hids
    rw [hcs] at hst' ⊢
    rw [addValidCerts_nil]
    exact ⟨_, trivial, ps1, hst', ph1, by simpa using hsil.noPanic, by simpa [vEvs_append] using vEvs_silent hsil⟩
  · -- the quorum is crossed: notar-fallback and notarization certificates
    obtain ⟨c1, c2, hcs, k1, k2⟩ := map_eq_two hids
    obtain ⟨k1a, k1b, k1c⟩ := cid3_eq k1
    obtain ⟨k2a, k2b, k2c⟩ := cid3_eq k2
    rw [hcs] at hst' ⊢
    rw [addValidCerts_cons, addValidCerts_cons, addValidCerts_nil]
    obtain ⟨p1, t1, e1⟩ := cert_nf ps1 ph1 c1 k1a k1b k1c
    obtain ⟨p2, t2, e2⟩ := cert_notar p1 t1 c2 k2a k2b k2c
    refine ⟨_, trivial, p2, hst', t2, ?_, ?_⟩
    · rw [e1, e2]
      have := panic_not_mem_prEvents (if isWindowStart (s + 1) = true then [(s + 1, (s, h))] else [])
      have := hsil.noPanic
      simp_all
    · rw [e1, e2]
      simp only [vEvs_append, List.nil_append, vEvs_silent hsil, List.append_nil, vEvs_repair_cert, vEvs_prEvents_ite,
        k1a, k1b, k1c, k2a, k2b, k2c, certKind, List.append_assoc]
      rfl
  · -- quorum and strong quorum are crossed by the same vote
    obtain ⟨c1, c2, c3, hcs, k1, k2, k3⟩ := map_eq_three hids
    obtain ⟨k1a, k1b, k1c⟩ := cid3_eq k1
    obtain ⟨k2a, k2b, k2c⟩ := cid3_eq k2
    obtain ⟨k3a, k3b, k3c⟩ := cid3_eq k3
    rw [hcs] at hst' ⊢
    rw [addValidCerts_cons, addValidCerts_cons, addValidCerts_cons, addValidCerts_nil]
    obtain ⟨p1, t1, e1⟩ := cert_nf ps1 ph1 c1 k1a k1b k1c
    obtain ⟨p2, t2, e2⟩ := cert_notar p1 t1 c2 k2a k2b k2c
    obtain ⟨p3, t3, e3⟩ := cert_fin p2 t2 c3 (Or.inl ⟨k3a, k3c⟩) k3b
    refine ⟨_, trivial, p3, hst', ⟨t3, ?_⟩, ?_, ?_⟩
    · exact (t3.parentOk).elim id (fun hh => by
        exfalso; have h0 := congrArg Prod.fst hh.1; simp only [] at h0; have := ph1.plt; omega)
    · rw [e1, e2, e3]
      have := panic_not_mem_prEvents (if isWindowStart (s + 1) = true then [(s + 1, (s, h))] else [])
      have := hsil.noPanic
      simp_all
    · rw [e1, e2, e3]
      simp only [vEvs_append, List.nil_append, vEvs_silent hsil, List.append_nil, vEvs_repair_cert, vEvs_prEvents_ite,
        vEvs_cert, k1a, k1b, k1c, k2a, k2b, k2c, k3a, k3b, k3c, certKind, List.append_assoc]
      rfl
  · -- nothing crossed, between the quorums
    have hcs : r.2.1 = [] := by simpa using hids
    rw [hcs] at hst' ⊢
    rw [addValidCerts_nil]
    exact ⟨_, trivial, ps1, hst', ph1, by simpa using hsil.noPanic, by simpa [vEvs_append] using vEvs_silent hsil⟩
  · -- the strong quorum is crossed: fast-finalization certificate
    obtain ⟨c3, hcs, k3⟩ := map_eq_one hids
    obtain ⟨k3a, k3b, k3c⟩ := cid3_eq k3
    rw [hcs] at hst' ⊢
    rw [addValidCerts_cons, addValidCerts_nil]
    obtain ⟨p3, t3, e3⟩ := cert_fin ps1 ph1 c3 (Or.inl ⟨k3a, k3c⟩) k3b
    refine ⟨_, trivial, p3, hst', ⟨t3, ?_⟩, ?_, ?_⟩
    · exact (t3.parentOk).elim id (fun hh => by
        exfalso; have h0 := congrArg Prod.fst hh.1; simp only [] at h0; have := ph1.plt; omega)
    · rw [e3]
      have := hsil.noPanic
      simp_all
    · rw [e3]
      simp only [vEvs_append, List.nil_append, vEvs_silent hsil, List.append_nil, vEvs_cert, k3a, k3b, k3c, certKind]
  · -- nothing crossed, above the strong quorum
    have hcs : r.2.1 = [] := by simpa using hids
    rw [hcs] at hst' ⊢
    rw [addValidCerts_nil]
    exact ⟨_, trivial, ps1, hst', ph1, by simpa using hsil.noPanic, by simpa [vEvs_append] using vEvs_silent hsil⟩

/-- the Votor events caused by the finalization vote of `j`, after those of `F` -/
def finalVEvs (e : Epoch) (s : Nat) (F : List Nat) (j : Nat) : List Votor.Event :=
  if (e.isQuorum (stakeOf e (F ++ [j])) && !e.isQuorum (stakeOf e F)) = true then [.cert .final s 0] else []

/-- **one finalization vote of the exchange enters a pool** (the notarization quorum is complete) -/
theorem addVote_final_step {e : Epoch} {hi s h : Nat} {p : Nat × Nat} {X F : List Nat} {a : SlotState}
    {Q : Pool} (hs : s ≤ hi) (ps : PSlot e s a Q) (hst : NotarSt e s h X F a) (hqX : e.isQuorum (stakeOf e X) = true)
    (ph : PhaseN e hi s h p X F Q) (j : Nat) (hj : j ∉ F) (hjn : j < e.n) :
    ∃ a', (Q.addVote ⟨.final, s, 0, j⟩).2.1 = .ok ∧ PSlot e s a' (Q.addVote ⟨.final, s, 0, j⟩).1 ∧
      NotarSt e s h X (F ++ [j]) a' ∧ PhaseN e hi s h p X (F ++ [j]) (Q.addVote ⟨.final, s, 0, j⟩).1 ∧
      Event.panic ∉ (Q.addVote ⟨.final, s, 0, j⟩).2.2 ∧
      vEvs (Q.addVote ⟨.final, s, 0, j⟩).2.2 = finalVEvs e s F j := by
  have hss : Q.slotState s = (Q, a) := slotState_of_some ps.slot
  obtain ⟨hc, hi'⟩ := hst.admit_final hj
  have hadm := addVote_admitted Q ⟨.final, s, 0, j⟩ (ph.inBounds hs) (by rw [ps.epoch]; exact hjn)
    (by rw [hss]; exact hc) (by rw [hss]; exact hi')
  simp only [hss, ps.epoch] at hadm
  obtain ⟨hsil, hst', hids⟩ := hst.addFinal j
  rw [hadm]
  generalize a.addVote e ⟨.final, s, 0, j⟩ = r at *
  have hr1s : r.1.slot = s := by rw [← foldl_addCert_slot r.2.1 r.1]; exact hst'.1.slot
  have ps1 : PSlot e s r.1 (Q.putSlot r.1) := ps.putSlot hr1s
  have htrk1 : (Q.putSlot r.1).trk = Q.trk := putSlot_trk _ _
  have ph1 := ph.of_trk htrk1
  generalize Q.putSlot r.1 = Q1 at *
  have hN : stakeOf e (F ++ [j]) = stakeOf e F + e.stake j := by rw [stakeOf_append, stakeOf_single]
  have hq : e.isQuorum (stakeOf e F) = true → e.isQuorum (stakeOf e (F ++ [j])) = true :=
    fun hh => isMet_mono_le _ _ _ _ _ (by omega) hh
  unfold PhaseN at ph1 ⊢
  unfold finalVEvs
  simp only [hqX, true_and] at ph1 ⊢
  cases hq0 : e.isQuorum (stakeOf e F) <;> cases hq1 : e.isQuorum (stakeOf e (F ++ [j])) <;>
    (try (have := hq hq0; rw [hq1] at this; cases this)) <;>
    simp only [hq0, hq1, Bool.true_and, Bool.false_and, Bool.not_true, Bool.not_false, Bool.false_eq_true,
      if_false, if_true, or_false, or_true] at hids ph1 ⊢
  · have hcs : r.2.1 = [] := by simpa using hids
    rw [hcs] at hst' ⊢
    rw [addValidCerts_nil]
    exact ⟨_, ps1, hst', ph1, by simpa using hsil.noPanic, by simpa [vEvs_append] using vEvs_silent hsil⟩
  · -- the quorum of finalization votes is crossed
    obtain ⟨c3, hcs, k3⟩ := map_eq_one hids
    obtain ⟨k3a, k3b, k3c⟩ := cid3_eq k3
    rw [hcs] at hst' ⊢
    rw [addValidCerts_cons, addValidCerts_nil]
    by_cases hf : e.isStrong (stakeOf e X) = true
    · rw [if_pos hf] at ph1
      obtain ⟨p3, t3, s3, e3⟩ := cert_final_done ps1 ph1.1 ph1.2 c3 k3a k3b
      refine ⟨_, p3, hst', ⟨t3, s3⟩, ?_, ?_⟩
      · rw [e3]
        have := hsil.noPanic
        simp_all
      · rw [e3]
        simp only [vEvs_append, List.nil_append, vEvs_silent hsil, List.append_nil, vEvs_cert, k3a, k3b, k3c, certKind]
    · rw [if_neg hf] at ph1
      obtain ⟨p3, t3, e3⟩ := cert_fin ps1 ph1 c3 (Or.inr k3a) k3b
      refine ⟨_, p3, hst', ⟨t3, ?_⟩, ?_, ?_⟩
      · exact (t3.parentOk).elim id (fun hh => by
          exfalso; have h0 := congrArg Prod.fst hh.1; simp only [] at h0; have := ph1.plt; omega)
      · rw [e3]
        have := hsil.noPanic
        simp_all
      · rw [e3]
        simp only [vEvs_append, List.nil_append, vEvs_silent hsil, List.append_nil, vEvs_cert, k3a, k3b, k3c, certKind]
  · have hcs : r.2.1 = [] := by simpa using hids
    rw [hcs] at hst' ⊢
    rw [addValidCerts_nil]
    exact ⟨_, ps1, hst', ph1, by simpa using hsil.noPanic, by simpa [vEvs_append] using vEvs_silent hsil⟩

/-- a notarization vote that is already stored is a duplicate: nothing changes -/
theorem addVote_notar_dup {e : Epoch} {hi s h : Nat} {p : Nat × Nat} {X F : List Nat} {a : SlotState}
    {Q : Pool} (hs : s ≤ hi) (ps : PSlot e s a Q) (hst : NotarSt e s h X F a) (ph : PhaseN e hi s h p X F Q)
    (j : Nat) (hj : j ∈ X) (hjn : j < e.n) : Q.addVote ⟨.notar, s, h, j⟩ = (Q, .dup, []) := by
  obtain ⟨hc, hi'⟩ := hst.dup_notar hj
  exact addVote_dup Q _ a (ph.inBounds hs) (by rw [ps.epoch]; exact hjn) ps.slot hc hi'

end AgModel.Pool
