import AgModel.Proofs.PoolGlue
import AgModel.Proofs.ParentReadyRun
import AgModel.Proofs.FinalityRun
import AgModel.Proofs.FinalitySafeDec
/-!
# Pool-level wiring of the two trackers (C07 part A)

Which certificate / block registration drives which operation of the finality tracker and which mark of the
parent-ready tracker inside `PoolImpl` (`add_valid_cert`, `handle_finalization`, `prune`, `add_block`), as an
invariant `Wired` between the pool state and a *ghost log* of what the pool processed.

* `LogItem` / `poolLog` — the log: the `CertCreated` events (one per `add_valid_cert`) and the block
  registrations, in order (observable from the outside);
* `finOps L` — the operations the finality tracker received; `prTrace L` — the operations the parent-ready
  tracker received (marks, finalization batches with the events of the finality tracker, prunes to
  `first_unpruned_slot`);
* `Consistent L` — the premise on the history (C01): `Finality.Safe (finOps L)`, no skip certificate for a
  directly finalized slot, the only finalized block of slot 0 is genesis;  `Consistent L → ParentReady.SafeRun (prTrace L)`;
* `Wired p L` — `p.fin` is the finality tracker after `finOps L`, `p.pr` the parent-ready tracker after `prTrace L`.
-/
namespace AgModel.Pool
open AgModel

/-! ### runs of the finality tracker: append -/

theorem fin_run_append (t : Finality.Tracker) (A B : List Finality.Op) :
    Finality.run t (A ++ B) =
      match Finality.run t A with
      | some (t1, e1) => (match Finality.run t1 B with | some (t2, e2) => some (t2, e1 ++ e2) | none => none)
      | none => none := by
  induction A generalizing t with
  | nil =>
    simp only [List.nil_append, Finality.run]
    cases Finality.run t B with
    | none => rfl
    | some r => rfl
  | cons a A ih =>
    simp only [List.cons_append, Finality.run]
    cases hs : Finality.step t a with
    | panic => rfl
    | ok t1 ev =>
      simp only
      rw [ih]
      cases Finality.run t1 A with
      | none => rfl
      | some r =>
        obtain ⟨t2, e2⟩ := r
        simp only
        cases Finality.run t2 B with
        | none => rfl
        | some r2 => simp

theorem fin_run_single (t : Finality.Tracker) (op : Finality.Op) :
    Finality.run t [op] = match Finality.step t op with | .ok t' ev => some (t', [ev]) | .panic => none := by
  simp only [Finality.run]
  cases Finality.step t op <;> rfl

/-- the last step of a run -/
theorem fin_run_snoc_inv {t t1 t2 : Finality.Tracker} {A : List Finality.Op} {op : Finality.Op}
    {e1 e2 : List Finality.Event} (h1 : Finality.run t A = some (t1, e1))
    (h2 : Finality.run t (A ++ [op]) = some (t2, e2)) :
    ∃ ev, Finality.step t1 op = .ok t2 ev ∧ e2 = e1 ++ [ev] := by
  rw [fin_run_append, h1] at h2
  simp only [fin_run_single] at h2
  cases hs : Finality.step t1 op with
  | panic => rw [hs] at h2; cases h2
  | ok t' ev =>
    rw [hs] at h2
    simp only [Option.some.injEq, Prod.mk.injEq] at h2
    exact ⟨ev, by rw [h2.1], h2.2.symm⟩

/-- every block / slot an operation reports lies at or above the watermark the operation started with -/
theorem fin_event_ge_first {t t' : Finality.Tracker} {op : Finality.Op} {ev : Finality.Event}
    (h : Finality.step t op = .ok t' ev) :
    (∀ b ∈ Finality.evF ev, t.first ≤ b.1) ∧ (∀ s ∈ ev.implSkipped, t.first ≤ s) := by
  obtain ⟨m, me, _⟩ := Finality.step_mid h
  constructor
  · intro b hb
    obtain ⟨n, e⟩ := me.spec.fin b hb
    rcases Nat.lt_or_ge b.1 t.first with hl | hl
    · rw [me.low _ hl] at e
      exact absurd (Finality.dec_of_finalHash' e) n
    · exact hl
  · intro s hs
    obtain ⟨n, e⟩ := me.spec.skip s hs
    rcases Nat.lt_or_ge s t.first with hl | hl
    · rw [me.low _ hl] at e
      exact absurd (e ▸ Finality.dec_some.mpr rfl) n
    · exact hl

/-! ### the ghost log and what it means for the two trackers -/

/-- what the pool processed: `add_valid_cert(c)` ran (one `CertCreated` event each), `add_block(b, par)` was called -/
inductive LogItem where
  | cert (c : Cert)
  | block (b par : Nat × Nat)
deriving DecidableEq, Repr

/-- the operation of the finality tracker caused by a log item (`add_valid_cert` / `add_block`) -/
def LogItem.finOp : LogItem → List Finality.Op
  | .cert c =>
    match c.kind with
    | .notar => [.notar (c.slot, c.hash)]
    | .ff => [.fastFinal (c.slot, c.hash)]
    | .final => [.final c.slot]
    | .nf => []
    | .skip => []
  | .block b par => [.parent b par]

/-- all operations the finality tracker received -/
def finOps (L : List LogItem) : List Finality.Op := L.flatMap LogItem.finOp

theorem finOps_append (A B : List LogItem) : finOps (A ++ B) = finOps A ++ finOps B := by
  simp [finOps, List.flatMap_append]

/-- `handle_finalization(finality_tracker.op(..))`: the finalization batch and the `prune` to the new watermark
    (nothing if the finality tracker panics) -/
def finPart (t : Finality.Tracker) (op : Finality.Op) : Finality.Tracker × List ParentReady.Op :=
  match Finality.step t op with
  | .ok t' ev => (t', [.fin ev, .prune t'.first])
  | .panic => (t, [])

/-- the mark `add_valid_cert` applies to the parent-ready tracker itself (after the finalization part) -/
def LogItem.marks : LogItem → List ParentReady.Op
  | .cert c =>
    match c.kind with
    | .notar => [.nf (c.slot, c.hash)]
    | .nf => [.nf (c.slot, c.hash)]
    | .skip => [.skip c.slot]
    | .ff => []
    | .final => []
  | .block _ _ => []

def finParts (t : Finality.Tracker) : List Finality.Op → Finality.Tracker × List ParentReady.Op
  | [] => (t, [])
  | op :: rest => ((finParts (finPart t op).1 rest).1, (finPart t op).2 ++ (finParts (finPart t op).1 rest).2)

/-- one log item: new finality tracker, operations on the parent-ready tracker (in the order of `add_valid_cert`:
    finalization batch and prune first, then the certificate's own mark) -/
def itemStep (t : Finality.Tracker) (it : LogItem) : Finality.Tracker × List ParentReady.Op :=
  ((finParts t it.finOp).1, (finParts t it.finOp).2 ++ it.marks)

def wireStep (acc : Finality.Tracker × List ParentReady.Op) (it : LogItem) : Finality.Tracker × List ParentReady.Op :=
  ((itemStep acc.1 it).1, acc.2 ++ (itemStep acc.1 it).2)

def wire (L : List LogItem) : Finality.Tracker × List ParentReady.Op := L.foldl wireStep (Finality.init, [])

/-- the finality tracker after the log (it stays where it is when an operation panics) -/
def finState (L : List LogItem) : Finality.Tracker := (wire L).1
/-- the operations the parent-ready tracker received -/
def prTrace (L : List LogItem) : List ParentReady.Op := (wire L).2

theorem wire_snoc (L : List LogItem) (it : LogItem) : wire (L ++ [it]) = wireStep (wire L) it := by
  unfold wire; rw [List.foldl_append]; rfl

theorem finState_snoc (L : List LogItem) (it : LogItem) : finState (L ++ [it]) = (itemStep (finState L) it).1 := by
  unfold finState; rw [wire_snoc]; rfl

theorem prTrace_snoc (L : List LogItem) (it : LogItem) :
    prTrace (L ++ [it]) = prTrace L ++ (itemStep (finState L) it).2 := by
  unfold prTrace finState; rw [wire_snoc]; rfl

/-- **The consistency premise on the history** (what consensus safety, C01, gives for the certificates and blocks a
    correct node can ever process): the safety premise of the finality tracker (C08: parents in earlier slots, one
    parent per block, one finalized block per slot, ...) and no skip certificate for the slot of a *directly*
    finalized block. -/
structure Consistent (L : List LogItem) : Prop where
  safe : Finality.Safe (finOps L)
  /-- no skip certificate for the slot of a **directly** finalized block (fast-finalization certificate, or
      finalization + notarization certificate).  Until the C10 cluster proof this clause excluded every `Final` block —
      also the *implicitly* finalized ancestors — which consensus safety does **not** give: the slot of an ancestor that is
      certified only by a notar-fallback (or a notarization) certificate can also carry a skip certificate (the valid run
      `Findings.evs1` of `Props/C01Cluster.lean`: `Props/C10Cluster.lean`, `old_skip_premise_fails_on_valid_run`).  The
      weaker clause suffices for everything the premise was used for: the watermark of the finality tracker — the only
      slots that become prune roots of the parent-ready tracker — is always genesis or the slot of a *directly* finalized
      block (`first_direct`). -/
  skip_not_direct : ∀ c, LogItem.cert c ∈ L → c.kind = .skip → ∀ h, ¬ Finality.Direct (finOps L) (c.slot, h)
  /-- the only finalized block of slot 0 is genesis (the finalized blocks form a chain from genesis).  Until the D27
      repair this was a consequence of `Finality.Safe` (its clause "the notarized block of a slot is the `Final` one",
      genesis counting as notarized); that clause was too strong and is gone, so the fact is stated here, at the
      pool level, where the parent-ready tracker's genesis mark needs it. -/
  genesis : ∀ h, Finality.Final (finOps L) (0, h) → h = 0

theorem finOps_sub {A B : List LogItem} (h : ∀ x, x ∈ A → x ∈ B) : Finality.Sub (finOps A) (finOps B) := by
  intro op hop
  unfold finOps at *
  rw [List.mem_flatMap] at *
  obtain ⟨x, hx, ho⟩ := hop
  exact ⟨x, h x hx, ho⟩

/-- the premise is inherited by every sub-log (in particular by every prefix) -/
theorem Consistent.sub {A B : List LogItem} (hc : Consistent B) (h : ∀ x, x ∈ A → x ∈ B) : Consistent A :=
  ⟨hc.safe.sub (finOps_sub h), fun c hm hk hh hf => hc.skip_not_direct c (h _ hm) hk hh (hf.mono (finOps_sub h)),
   fun hh hf => hc.genesis hh (hf.mono (finOps_sub h))⟩

theorem Consistent.prefix {A B : List LogItem} (hc : Consistent (A ++ B)) : Consistent A :=
  hc.sub (fun _ hx => List.mem_append_left _ hx)

/-! ### the ghost history of the parent-ready tracker when marks are at or above the root -/

open ParentReady in
theorem foldl_nfMark_nf_ge {bs : List (Nat × Nat)} {h : Hist} (hge : ∀ b ∈ bs, h.root ≤ b.1) (x : Nat × Nat) :
    x ∈ (bs.foldl Hist.nfMark h).nf ↔ x ∈ h.nf ∨ x ∈ bs := by
  induction bs generalizing h with
  | nil => simp
  | cons b bs ih =>
    have e : h.nfMark b = h.addNf b := by
      unfold Hist.nfMark; rw [if_neg (by have := hge b (List.mem_cons_self); omega)]
    rw [List.foldl_cons, e, ih (h := h.addNf b) (fun y hy => hge y (List.mem_cons_of_mem _ hy))]
    simp only [Hist.addNf, List.mem_cons]
    constructor
    · rintro ((a | a) | a)
      · exact Or.inr (Or.inl a)
      · exact Or.inl a
      · exact Or.inr (Or.inr a)
    · rintro (a | a | a)
      · exact Or.inl (Or.inr a)
      · exact Or.inl (Or.inl a)
      · exact Or.inr a

open ParentReady in
theorem foldl_skMark_sk_ge {ss : List Nat} {h : Hist} (hge : ∀ s ∈ ss, h.root ≤ s) (x : Nat) :
    x ∈ (ss.foldl Hist.skMark h).sk ↔ x ∈ h.sk ∨ x ∈ ss := by
  induction ss generalizing h with
  | nil => simp
  | cons b bs ih =>
    have e : h.skMark b = h.addSk b := by
      unfold Hist.skMark; rw [if_neg (by have := hge b (List.mem_cons_self); omega)]
    rw [List.foldl_cons, e, ih (h := h.addSk b) (fun y hy => hge y (List.mem_cons_of_mem _ hy))]
    simp only [Hist.addSk, List.mem_cons]
    constructor
    · rintro ((a | a) | a)
      · exact Or.inr (Or.inl a)
      · exact Or.inl a
      · exact Or.inr (Or.inr a)
    · rintro (a | a | a)
      · exact Or.inl (Or.inr a)
      · exact Or.inl (Or.inl a)
      · exact Or.inr a

open ParentReady in
theorem foldl_skMark_nf (ss : List Nat) (h : Hist) : (ss.foldl Hist.skMark h).nf = h.nf := by
  induction ss generalizing h with
  | nil => rfl
  | cons s ss ih =>
    rw [List.foldl_cons, ih]
    unfold Hist.skMark; split <;> rfl

open ParentReady in
/-- a finalization batch whose blocks and slots are all at or above the root: every mark is accepted -/
theorem finMark_ge {h : Hist} {ev : Finality.Event} (hF : ∀ b ∈ Finality.evF ev, h.root ≤ b.1)
    (hS : ∀ s ∈ ev.implSkipped, h.root ≤ s) :
    (∀ x, x ∈ (h.finMark ev).nf ↔ x ∈ h.nf ∨ x ∈ Finality.evF ev) ∧
    (∀ x, x ∈ (h.finMark ev).sk ↔ x ∈ h.sk ∨ x ∈ ev.implSkipped) := by
  unfold Hist.finMark
  constructor
  · intro x
    rw [foldl_skMark_nf]; exact foldl_nfMark_nf_ge hF x
  · intro x
    rw [foldl_skMark_sk_ge (by rw [foldl_nfMark_root]; exact hS), foldl_nfMark_sk]

open ParentReady in
theorem hist_append (tr ops : List Op) : hist (tr ++ ops) = ops.foldl Hist.step (hist tr) := by
  unfold hist; rw [List.foldl_append]

open ParentReady in
theorem pruneArgs_append (a b : List Op) : pruneArgs (a ++ b) = pruneArgs a ++ pruneArgs b := by
  unfold pruneArgs; rw [List.flatMap_append]

open ParentReady in
theorem skipArgs_append (a b : List Op) : skipArgs (a ++ b) = skipArgs a ++ skipArgs b := by
  unfold skipArgs; rw [List.flatMap_append]

open ParentReady in
theorem waitSlots_append (a b : List Op) : waitSlots (a ++ b) = waitSlots a ++ waitSlots b := by
  unfold waitSlots; rw [List.filterMap_append]

/-! ### the trace invariant, one parent-ready operation at a time

`NF` / `SK`: the certificate marks accepted so far (the part of the accepted history that does not come from
finalization events); `SC`: the slots with a skip certificate in the log. -/

open ParentReady in
structure TInv (t : Finality.Tracker) (fevs : List Finality.Event) (tr : List Op)
    (NF : Nat × Nat → Prop) (SK : Nat → Prop) (SC : Nat → Prop) : Prop where
  sorted : (pruneArgs tr).Pairwise (· ≤ ·)
  le_first : ∀ r ∈ pruneArgs tr, r ≤ t.first
  skips : ∀ s ∈ skipArgs tr, SC s ∨ s ∈ Finality.repS fevs
  nowait : waitSlots tr = []
  root : (hist tr).root = t.first
  nf : ∀ b, b ∈ (hist tr).nf ↔ b = (0, 0) ∨ NF b ∨ b ∈ Finality.repF fevs
  sk : ∀ s, s ∈ (hist tr).sk ↔ SK s ∨ s ∈ Finality.repS fevs

open ParentReady in
theorem TInv.init : TInv Finality.init [] [] (fun _ => False) (fun _ => False) (fun _ => False) := by
  refine ⟨List.Pairwise.nil, fun r hr => (by cases hr), fun s hs => (by cases hs), rfl, rfl, ?_, ?_⟩
  · intro b; simp [hist, Finality.repF]
  · intro s; simp [hist, Finality.repS]

open ParentReady in
theorem TInv.congr {t : Finality.Tracker} {fevs : List Finality.Event} {tr : List Op}
    {NF NF' : Nat × Nat → Prop} {SK SK' SC SC' : Nat → Prop} (i : TInv t fevs tr NF SK SC)
    (h1 : ∀ b, NF b ↔ NF' b) (h2 : ∀ s, SK s ↔ SK' s) (h3 : ∀ s, SC s → SC' s) : TInv t fevs tr NF' SK' SC' :=
  ⟨i.sorted, i.le_first, fun s hs => (i.skips s hs).imp (h3 s) id, i.nowait, i.root,
   fun b => by rw [i.nf, h1], fun s => by rw [i.sk, h2]⟩

open ParentReady in
/-- a finality operation, its finalization batch, the prune to the new watermark -/
theorem TInv.fin {t t' : Finality.Tracker} {fevs : List Finality.Event} {tr : List Op}
    {NF : Nat × Nat → Prop} {SK SC : Nat → Prop} (i : TInv t fevs tr NF SK SC) (hi : Finality.Inv t)
    {op : Finality.Op} {ev : Finality.Event} (hs : Finality.step t op = .ok t' ev) :
    TInv t' (fevs ++ [ev]) (tr ++ [.fin ev, .prune t'.first]) NF SK SC := by
  have hmono := (Finality.step_spec hi hs).first
  obtain ⟨gF, gS⟩ := fin_event_ge_first hs
  have hh : hist (tr ++ [.fin ev, .prune t'.first]) = ((hist tr).finMark ev).pruneTo t'.first := by
    rw [hist_append]; rfl
  obtain ⟨mF, mS⟩ := @finMark_ge (hist tr) ev (by rw [i.root]; exact gF) (by rw [i.root]; exact gS)
  refine ⟨?_, ?_, ?_, ?_, ?_, ?_, ?_⟩
  · rw [pruneArgs_append, List.pairwise_append]
    refine ⟨i.sorted, by simp [pruneArgs], ?_⟩
    intro a ha b hb
    have : b = t'.first := by simpa [pruneArgs] using hb
    have := i.le_first a ha
    omega
  · intro r hr
    rw [pruneArgs_append, List.mem_append] at hr
    rcases hr with hr | hr
    · have := i.le_first r hr; omega
    · have : r = t'.first := by simpa [pruneArgs] using hr
      omega
  · intro s hs'
    rw [skipArgs_append, List.mem_append] at hs'
    rw [Finality.repS_snoc, List.mem_append]
    rcases hs' with h1 | h1
    · exact (i.skips s h1).imp id Or.inl
    · right; right; simpa [skipArgs] using h1
  · rw [waitSlots_append, i.nowait]; rfl
  · rw [hh]; rfl
  · intro b
    rw [hh]
    show b ∈ ((hist tr).finMark ev).nf ↔ _
    rw [mF, i.nf, Finality.repF_snoc, List.mem_append]
    constructor
    · rintro ((a | a | a) | a)
      · exact Or.inl a
      · exact Or.inr (Or.inl a)
      · exact Or.inr (Or.inr (Or.inl a))
      · exact Or.inr (Or.inr (Or.inr a))
    · rintro (a | a | a | a)
      · exact Or.inl (Or.inl a)
      · exact Or.inl (Or.inr (Or.inl a))
      · exact Or.inl (Or.inr (Or.inr a))
      · exact Or.inr a
  · intro s
    rw [hh]
    show s ∈ ((hist tr).finMark ev).sk ↔ _
    rw [mS, i.sk, Finality.repS_snoc, List.mem_append]
    constructor
    · rintro ((a | a) | a)
      · exact Or.inl a
      · exact Or.inr (Or.inl a)
      · exact Or.inr (Or.inr a)
    · rintro (a | a | a)
      · exact Or.inl (Or.inl a)
      · exact Or.inl (Or.inr a)
      · exact Or.inr a

open ParentReady in
/-- the notar-fallback mark of a notarization / notar-fallback certificate -/
theorem TInv.nfMark {t : Finality.Tracker} {fevs : List Finality.Event} {tr : List Op}
    {NF : Nat × Nat → Prop} {SK SC : Nat → Prop} (i : TInv t fevs tr NF SK SC) (b : Nat × Nat) :
    TInv t fevs (tr ++ [.nf b]) (fun x => NF x ∨ (x = b ∧ t.first ≤ b.1)) SK SC := by
  have hh : hist (tr ++ [.nf b]) = (hist tr).nfMark b := by rw [hist_append]; rfl
  obtain ⟨a1, a2, _, _⟩ := nfMark_same (hist tr) b
  refine ⟨?_, ?_, ?_, ?_, ?_, ?_, ?_⟩
  · rw [pruneArgs_append]; simpa [pruneArgs] using i.sorted
  · intro r hr; rw [pruneArgs_append] at hr; exact i.le_first r (by simpa [pruneArgs] using hr)
  · intro s hs; rw [skipArgs_append] at hs; exact i.skips s (by simpa [skipArgs] using hs)
  · rw [waitSlots_append, i.nowait]; rfl
  · rw [hh, a1]; exact i.root
  · intro x
    rw [hh]
    unfold Hist.nfMark
    rw [i.root]
    split
    · rename_i hlt
      rw [i.nf]
      constructor
      · rintro (a | a | a)
        · exact Or.inl a
        · exact Or.inr (Or.inl (Or.inl a))
        · exact Or.inr (Or.inr a)
      · rintro (a | (a | ⟨_, a⟩) | a)
        · exact Or.inl a
        · exact Or.inr (Or.inl a)
        · omega
        · exact Or.inr (Or.inr a)
    · rename_i hge
      show x ∈ b :: (hist tr).nf ↔ _
      rw [List.mem_cons, i.nf]
      constructor
      · rintro (a | a | a | a)
        · exact Or.inr (Or.inl (Or.inr ⟨a, by omega⟩))
        · exact Or.inl a
        · exact Or.inr (Or.inl (Or.inl a))
        · exact Or.inr (Or.inr a)
      · rintro (a | (a | ⟨a, _⟩) | a)
        · exact Or.inr (Or.inl a)
        · exact Or.inr (Or.inr (Or.inl a))
        · exact Or.inl a
        · exact Or.inr (Or.inr (Or.inr a))
  · intro s; rw [hh, a2]; exact i.sk s

open ParentReady in
/-- the skip mark of a skip certificate -/
theorem TInv.skMark {t : Finality.Tracker} {fevs : List Finality.Event} {tr : List Op}
    {NF : Nat × Nat → Prop} {SK SC : Nat → Prop} (i : TInv t fevs tr NF SK SC) (ms : Nat) :
    TInv t fevs (tr ++ [.skip ms]) NF (fun x => SK x ∨ (x = ms ∧ t.first ≤ ms)) (fun x => SC x ∨ x = ms) := by
  have hh : hist (tr ++ [.skip ms]) = (hist tr).skMark ms := by rw [hist_append]; rfl
  obtain ⟨a1, _, _⟩ := skMark_same (hist tr) ms
  refine ⟨?_, ?_, ?_, ?_, ?_, ?_, ?_⟩
  · rw [pruneArgs_append]; simpa [pruneArgs] using i.sorted
  · intro r hr; rw [pruneArgs_append] at hr; exact i.le_first r (by simpa [pruneArgs] using hr)
  · intro s hs
    rw [skipArgs_append, List.mem_append] at hs
    rcases hs with h1 | h1
    · exact (i.skips s h1).imp Or.inl id
    · left; right; simpa [skipArgs] using h1
  · rw [waitSlots_append, i.nowait]; rfl
  · rw [hh, a1]; exact i.root
  · intro x
    rw [hh]
    have : ((hist tr).skMark ms).nf = (hist tr).nf := by unfold Hist.skMark; split <;> rfl
    rw [this]; exact i.nf x
  · intro x
    rw [hh]
    unfold Hist.skMark
    rw [i.root]
    split
    · rename_i hlt
      rw [i.sk]
      constructor
      · rintro (a | a)
        · exact Or.inl (Or.inl a)
        · exact Or.inr a
      · rintro ((a | ⟨_, a⟩) | a)
        · exact Or.inl a
        · omega
        · exact Or.inr a
    · rename_i hge
      show x ∈ ms :: (hist tr).sk ↔ _
      rw [List.mem_cons, i.sk]
      constructor
      · rintro (a | a | a)
        · exact Or.inl (Or.inr ⟨a, by omega⟩)
        · exact Or.inl (Or.inl a)
        · exact Or.inr a
      · rintro ((a | ⟨a, _⟩) | a)
        · exact Or.inr (Or.inl a)
        · exact Or.inl a
        · exact Or.inr (Or.inr a)

/-! ### the trace invariant along the log -/

/-- a skip certificate for `s` is in the log -/
def SkipCertIn (L : List LogItem) (s : Nat) : Prop := ∃ c, LogItem.cert c ∈ L ∧ c.kind = .skip ∧ c.slot = s

/-- a notarization / notar-fallback certificate for `b` was added while `b`'s slot was at or above the watermark
    (`first_unpruned_slot` = root of the parent-ready tracker, *after* the finalization part of the same
    `add_valid_cert`): its notar-fallback mark was accepted -/
def NfCertAcc (L : List LogItem) (b : Nat × Nat) : Prop :=
  ∃ pre c, (pre ++ [LogItem.cert c]) <+: L ∧ (c.kind = .notar ∨ c.kind = .nf) ∧ (c.slot, c.hash) = b ∧
    (finState (pre ++ [LogItem.cert c])).first ≤ b.1

/-- a skip certificate for `s` was added while `s` was at or above the watermark: its skip mark was accepted -/
def SkCertAcc (L : List LogItem) (s : Nat) : Prop :=
  ∃ pre c, (pre ++ [LogItem.cert c]) <+: L ∧ c.kind = .skip ∧ c.slot = s ∧ (finState pre).first ≤ s

theorem snoc_inj {α : Type} {a b : List α} {x y : α} (h : a ++ [x] = b ++ [y]) : a = b ∧ x = y := by
  have := List.append_inj' h rfl
  exact ⟨this.1, by simpa using this.2⟩

theorem nfCertAcc_snoc (L : List LogItem) (it : LogItem) (b : Nat × Nat) :
    NfCertAcc (L ++ [it]) b ↔ NfCertAcc L b ∨
      ∃ c, it = .cert c ∧ (c.kind = .notar ∨ c.kind = .nf) ∧ (c.slot, c.hash) = b ∧ (finState (L ++ [it])).first ≤ b.1 := by
  unfold NfCertAcc
  constructor
  · rintro ⟨pre, c, hp, hk, hb, hf⟩
    rcases List.prefix_concat_iff.mp hp with e | hp'
    · obtain ⟨e1, e2⟩ := snoc_inj e
      subst e1; subst e2
      exact Or.inr ⟨c, rfl, hk, hb, hf⟩
    · exact Or.inl ⟨pre, c, hp', hk, hb, hf⟩
  · rintro (⟨pre, c, hp, hk, hb, hf⟩ | ⟨c, e, hk, hb, hf⟩)
    · exact ⟨pre, c, hp.trans (List.prefix_append _ _), hk, hb, hf⟩
    · subst e; exact ⟨L, c, List.prefix_refl _, hk, hb, hf⟩

theorem skCertAcc_snoc (L : List LogItem) (it : LogItem) (s : Nat) :
    SkCertAcc (L ++ [it]) s ↔ SkCertAcc L s ∨
      ∃ c, it = .cert c ∧ c.kind = .skip ∧ c.slot = s ∧ (finState L).first ≤ s := by
  unfold SkCertAcc
  constructor
  · rintro ⟨pre, c, hp, hk, hb, hf⟩
    rcases List.prefix_concat_iff.mp hp with e | hp'
    · obtain ⟨e1, e2⟩ := snoc_inj e
      subst e1; subst e2
      exact Or.inr ⟨c, rfl, hk, hb, hf⟩
    · exact Or.inl ⟨pre, c, hp', hk, hb, hf⟩
  · rintro (⟨pre, c, hp, hk, hb, hf⟩ | ⟨c, e, hk, hb, hf⟩)
    · exact ⟨pre, c, hp.trans (List.prefix_append _ _), hk, hb, hf⟩
    · subst e; exact ⟨L, c, List.prefix_refl _, hk, hb, hf⟩

theorem skipCertIn_snoc (L : List LogItem) (it : LogItem) (s : Nat) :
    SkipCertIn (L ++ [it]) s ↔ SkipCertIn L s ∨ ∃ c, it = .cert c ∧ c.kind = .skip ∧ c.slot = s := by
  unfold SkipCertIn
  constructor
  · rintro ⟨c, hm, hk, hs⟩
    rcases List.mem_append.mp hm with h | h
    · exact Or.inl ⟨c, h, hk, hs⟩
    · exact Or.inr ⟨c, (List.mem_singleton.mp h).symm, hk, hs⟩
  · rintro (⟨c, hm, hk, hs⟩ | ⟨c, e, hk, hs⟩)
    · exact ⟨c, List.mem_append_left _ hm, hk, hs⟩
    · exact ⟨c, List.mem_append_right _ (by rw [e]; exact List.mem_singleton.mpr rfl), hk, hs⟩

open ParentReady in
/-- the finality operations of one log item -/
theorem TInv.fins {ops : List Finality.Op} {t t' : Finality.Tracker} {fevs evs : List Finality.Event} {tr : List Op}
    {NF : Nat × Nat → Prop} {SK SC : Nat → Prop} (i : TInv t fevs tr NF SK SC) (hi : Finality.Inv t)
    (hr : Finality.run t ops = some (t', evs)) :
    (finParts t ops).1 = t' ∧ TInv t' (fevs ++ evs) (tr ++ (finParts t ops).2) NF SK SC := by
  induction ops generalizing t fevs evs tr with
  | nil =>
    simp only [Finality.run, Option.some.injEq, Prod.mk.injEq] at hr
    obtain ⟨e1, e2⟩ := hr
    subst e1; subst e2
    exact ⟨rfl, by simpa [finParts] using i⟩
  | cons op rest ih =>
    simp only [Finality.run] at hr
    cases hs : Finality.step t op with
    | panic => rw [hs] at hr; cases hr
    | ok t1 ev =>
      rw [hs] at hr
      simp only at hr
      cases hr2 : Finality.run t1 rest with
      | none => rw [hr2] at hr; cases hr
      | some r =>
        obtain ⟨t2, evs2⟩ := r
        rw [hr2] at hr
        simp only [Option.some.injEq, Prod.mk.injEq] at hr
        obtain ⟨e1, e2⟩ := hr
        subst e1; subst e2
        have hfp : finPart t op = (t1, [.fin ev, .prune t1.first]) := by unfold finPart; rw [hs]
        have i1 := i.fin hi hs
        obtain ⟨g1, g2⟩ := ih i1 (Finality.step_spec hi hs).inv hr2
        simp only [finParts, hfp]
        refine ⟨g1, ?_⟩
        have : fevs ++ ev :: evs2 = (fevs ++ [ev]) ++ evs2 := by simp
        rw [this, ← List.append_assoc]
        exact g2

theorem finOp_snoc (L : List LogItem) (it : LogItem) : finOps (L ++ [it]) = finOps L ++ it.finOp := by
  rw [finOps_append]; simp [finOps]

open ParentReady in
/-- **Along every log whose finality operations are safe**: the finality tracker runs without panic to
    `finState L`, and the trace of the parent-ready tracker has monotone prune roots (= the watermarks), no waits,
    and its accepted history is: genesis, the accepted certificate marks, and everything the finality tracker
    reported. -/
theorem trace_inv (L : List LogItem) (hs : Finality.Safe (finOps L)) :
    ∃ fevs, Finality.run Finality.init (finOps L) = some (finState L, fevs) ∧
      TInv (finState L) fevs (prTrace L) (NfCertAcc L) (SkCertAcc L) (SkipCertIn L) := by
  induction L using ParentReady.snoc_induction with
  | nil =>
    refine ⟨[], rfl, TInv.init.congr ?_ ?_ ?_⟩
    · intro b; constructor
      · intro h; cases h
      · rintro ⟨pre, c, hp, _⟩
        have := List.IsPrefix.length_le hp
        simp at this
    · intro b; constructor
      · intro h; cases h
      · rintro ⟨pre, c, hp, _⟩
        have := List.IsPrefix.length_le hp
        simp at this
    · intro s h; cases h
  | snoc L it ih =>
    have hsL : Finality.Safe (finOps L) := hs.sub (finOps_sub (fun _ hx => List.mem_append_left _ hx))
    obtain ⟨fevs, hrun, ti⟩ := ih hsL
    have hinv : Finality.Inv (finState L) := (Finality.run_inv Finality.inv_init hrun).1
    -- the finality part
    obtain ⟨t', evs', hrun', _⟩ := Finality.run_runInv hs (finOps (L ++ [it])) [] Finality.init [] Finality.runInv_init
      (by simpa using Finality.Sub.refl _)
    have hrun2 := hrun'
    rw [finOp_snoc, fin_run_append, hrun] at hrun2
    simp only at hrun2
    cases hr : Finality.run (finState L) it.finOp with
    | none => rw [hr] at hrun2; cases hrun2
    | some r =>
      obtain ⟨t1, evs⟩ := r
      rw [hr] at hrun2
      simp only [Option.some.injEq, Prod.mk.injEq] at hrun2
      obtain ⟨e1, e2⟩ := hrun2
      obtain ⟨g1, g2⟩ := ti.fins hinv hr
      have hfs : finState (L ++ [it]) = t1 := by rw [finState_snoc]; exact g1
      refine ⟨fevs ++ evs, by rw [hrun', hfs, ← e1, e2], ?_⟩
      rw [prTrace_snoc, hfs]
      unfold itemStep
      simp only
      rw [← List.append_assoc]
      -- the certificate's own mark
      cases it with
      | block b par =>
        simp only [LogItem.marks, List.append_nil]
        refine g2.congr ?_ ?_ ?_
        · intro x; rw [nfCertAcc_snoc]; simp
        · intro x; rw [skCertAcc_snoc]; simp
        · intro x hx; rw [skipCertIn_snoc]; exact Or.inl hx
      | cert c =>
        cases hk : c.kind with
        | notar =>
          simp only [LogItem.marks, hk]
          refine (g2.nfMark (c.slot, c.hash)).congr ?_ ?_ ?_
          · intro x; rw [nfCertAcc_snoc, hfs]
            constructor
            · rintro (a | ⟨a1, a2⟩)
              · exact Or.inl a
              · exact Or.inr ⟨c, rfl, Or.inl hk, a1.symm, by rw [a1]; exact a2⟩
            · rintro (a | ⟨c', e, _, a1, a2⟩)
              · exact Or.inl a
              · cases e; exact Or.inr ⟨a1.symm, by rw [← a1] at a2; exact a2⟩
          · intro x; rw [skCertAcc_snoc]
            constructor
            · exact Or.inl
            · rintro (a | ⟨c', e, k, _⟩)
              · exact a
              · cases e; rw [hk] at k; cases k
          · intro x hx; rw [skipCertIn_snoc]; exact Or.inl hx
        | nf =>
          simp only [LogItem.marks, hk]
          refine (g2.nfMark (c.slot, c.hash)).congr ?_ ?_ ?_
          · intro x; rw [nfCertAcc_snoc, hfs]
            constructor
            · rintro (a | ⟨a1, a2⟩)
              · exact Or.inl a
              · exact Or.inr ⟨c, rfl, Or.inr hk, a1.symm, by rw [a1]; exact a2⟩
            · rintro (a | ⟨c', e, _, a1, a2⟩)
              · exact Or.inl a
              · cases e; exact Or.inr ⟨a1.symm, by rw [← a1] at a2; exact a2⟩
          · intro x; rw [skCertAcc_snoc]
            constructor
            · exact Or.inl
            · rintro (a | ⟨c', e, k, _⟩)
              · exact a
              · cases e; rw [hk] at k; cases k
          · intro x hx; rw [skipCertIn_snoc]; exact Or.inl hx
        | skip =>
          have hfo : (LogItem.cert c).finOp = [] := by simp [LogItem.finOp, hk]
          have ht1 : t1 = finState L := by
            rw [hfo] at g1; exact g1.symm
          simp only [LogItem.marks, hk]
          refine (g2.skMark c.slot).congr ?_ ?_ ?_
          · intro x; rw [nfCertAcc_snoc]
            constructor
            · exact Or.inl
            · rintro (a | ⟨c', e, k, _⟩)
              · exact a
              · cases e; rw [hk] at k; rcases k with k | k <;> cases k
          · intro x; rw [skCertAcc_snoc, ht1]
            constructor
            · rintro (a | ⟨a1, a2⟩)
              · exact Or.inl a
              · exact Or.inr ⟨c, rfl, hk, a1.symm, by rw [a1]; exact a2⟩
            · rintro (a | ⟨c', e, _, a1, a2⟩)
              · exact Or.inl a
              · cases e; exact Or.inr ⟨a1.symm, by rw [← a1] at a2; exact a2⟩
          · intro x hx; rw [skipCertIn_snoc]
            rcases hx with a | a
            · exact Or.inl a
            · exact Or.inr ⟨c, rfl, hk, a.symm⟩
        | ff =>
          simp only [LogItem.marks, hk, List.append_nil]
          refine g2.congr ?_ ?_ ?_
          · intro x; rw [nfCertAcc_snoc]
            constructor
            · exact Or.inl
            · rintro (a | ⟨c', e, k, _⟩)
              · exact a
              · cases e; rw [hk] at k; rcases k with k | k <;> cases k
          · intro x; rw [skCertAcc_snoc]
            constructor
            · exact Or.inl
            · rintro (a | ⟨c', e, k, _⟩)
              · exact a
              · cases e; rw [hk] at k; cases k
          · intro x hx; rw [skipCertIn_snoc]; exact Or.inl hx
        | final =>
          simp only [LogItem.marks, hk, List.append_nil]
          refine g2.congr ?_ ?_ ?_
          · intro x; rw [nfCertAcc_snoc]
            constructor
            · exact Or.inl
            · rintro (a | ⟨c', e, k, _⟩)
              · exact a
              · cases e; rw [hk] at k; rcases k with k | k <;> cases k
          · intro x; rw [skCertAcc_snoc]
            constructor
            · exact Or.inl
            · rintro (a | ⟨c', e, k, _⟩)
              · exact a
              · cases e; rw [hk] at k; cases k
          · intro x hx; rw [skipCertIn_snoc]; exact Or.inl hx

/-! ### the premise implies `SafeRun` for the parent-ready tracker inside the pool -/

/-- under the safety premise the watermark is genesis or the slot of a finalized block (never an implicitly
    skipped slot: the slot after it would be decided, too) -/
theorem first_final {ops : List Finality.Op} (sf : Finality.Safe ops) {t : Finality.Tracker}
    {evs : List Finality.Event} (ri : Finality.RunInv ops t evs) :
    t.first = 0 ∨ ∃ h, Finality.Final ops (t.first, h) := by
  obtain ⟨w1, w2⟩ := ri.watermark sf
  rcases Nat.eq_zero_or_pos t.first with e | hpos
  · exact Or.inl e
  · right
    rcases w1 t.first hpos (Nat.le_refl _) with hk | hf
    · exfalso
      obtain ⟨c, p, hc, hl, h1, h2⟩ := hk
      apply w2
      by_cases e : t.first + 1 = c.1
      · right; exact ⟨c.2, by rw [e]; exact hc⟩
      · left; exact ⟨c, p, hc, hl, by omega, by omega⟩
    · exact hf

/-- … more precisely: the slot of a **directly** finalized block.  A block that is finalized only through a descendant
    `c` (a link `c → b` from a `Final` block) cannot sit at the watermark: the slot after it would be decided, too —
    finalized (`c` itself) or implicitly skipped (strictly between `b` and `c`). -/
theorem first_direct {ops : List Finality.Op} (sf : Finality.Safe ops) {t : Finality.Tracker}
    {evs : List Finality.Event} (ri : Finality.RunInv ops t evs) :
    t.first = 0 ∨ ∃ h, Finality.Direct ops (t.first, h) := by
  obtain ⟨_, w2⟩ := ri.watermark sf
  rcases first_final sf ri with e | ⟨h, hf⟩
  · exact Or.inl e
  · right
    refine ⟨h, ?_⟩
    generalize hb : (t.first, h) = b at hf
    cases hf with
    | direct d => exact d
    | @step c _ hc hl =>
      exfalso
      have hlt := sf.link_lt c b hl
      have hb1 : b.1 = t.first := by rw [← hb]
      apply w2
      by_cases e : t.first + 1 = c.1
      · right; exact ⟨c.2, by rw [e]; exact hc⟩
      · left; exact ⟨c, b, hc, hl, by omega, by omega⟩

open ParentReady in
theorem pruneArgs_itemStep (t : Finality.Tracker) (it : LogItem) :
    pruneArgs (itemStep t it).2 = [] ∨ pruneArgs (itemStep t it).2 = [(itemStep t it).1.first] := by
  have key : ∀ op, pruneArgs (finPart t op).2 = [] ∨ pruneArgs (finPart t op).2 = [(finPart t op).1.first] := by
    intro op
    unfold finPart
    cases Finality.step t op with
    | panic => left; rfl
    | ok t' ev => right; rfl
  unfold itemStep
  cases it with
  | block b par =>
    simpa [LogItem.finOp, LogItem.marks, finParts] using key (.parent b par)
  | cert c =>
    cases hk : c.kind
    · simpa [LogItem.finOp, LogItem.marks, finParts, hk, pruneArgs_append, pruneArgs] using key (.notar (c.slot, c.hash))
    · left; simp [LogItem.finOp, LogItem.marks, finParts, hk, pruneArgs]
    · left; simp [LogItem.finOp, LogItem.marks, finParts, hk, pruneArgs]
    · simpa [LogItem.finOp, LogItem.marks, finParts, hk] using key (.fastFinal (c.slot, c.hash))
    · simpa [LogItem.finOp, LogItem.marks, finParts, hk] using key (.final c.slot)

open ParentReady in
/-- every prune root of the trace is genesis or the slot of a block that is finalized in the history -/
theorem roots_final (L : List LogItem) (hs : Finality.Safe (finOps L)) :
    ∀ r ∈ pruneArgs (prTrace L), r = 0 ∨ ∃ h, Finality.Final (finOps L) (r, h) := by
  induction L using ParentReady.snoc_induction with
  | nil => intro r hr; cases hr
  | snoc L it ih =>
    have hsub : Finality.Sub (finOps L) (finOps (L ++ [it])) := finOps_sub (fun _ hx => List.mem_append_left _ hx)
    intro r hr
    rw [prTrace_snoc, pruneArgs_append, List.mem_append] at hr
    rcases hr with hr | hr
    · rcases ih (hs.sub hsub) r hr with e | ⟨h, hf⟩
      · exact Or.inl e
      · exact Or.inr ⟨h, hf.mono hsub⟩
    · rcases pruneArgs_itemStep (finState L) it with e | e
      · rw [e] at hr; cases hr
      · rw [e, ← finState_snoc] at hr
        have : r = (finState (L ++ [it])).first := by simpa using hr
        obtain ⟨fevs, hrun, _⟩ := trace_inv (L ++ [it]) hs
        rw [this]
        exact first_final hs (Finality.runInv_of_run hs hrun)

open ParentReady in
/-- every prune root of the trace is genesis or the slot of a block that is *directly* finalized in the history -/
theorem roots_direct (L : List LogItem) (hs : Finality.Safe (finOps L)) :
    ∀ r ∈ pruneArgs (prTrace L), r = 0 ∨ ∃ h, Finality.Direct (finOps L) (r, h) := by
  induction L using ParentReady.snoc_induction with
  | nil => intro r hr; cases hr
  | snoc L it ih =>
    have hsub : Finality.Sub (finOps L) (finOps (L ++ [it])) := finOps_sub (fun _ hx => List.mem_append_left _ hx)
    intro r hr
    rw [prTrace_snoc, pruneArgs_append, List.mem_append] at hr
    rcases hr with hr | hr
    · rcases ih (hs.sub hsub) r hr with e | ⟨h, hf⟩
      · exact Or.inl e
      · exact Or.inr ⟨h, hf.mono hsub⟩
    · rcases pruneArgs_itemStep (finState L) it with e | e
      · rw [e] at hr; cases hr
      · rw [e, ← finState_snoc] at hr
        have : r = (finState (L ++ [it])).first := by simpa using hr
        obtain ⟨fevs, hrun, _⟩ := trace_inv (L ++ [it]) hs
        rw [this]
        exact first_direct hs (Finality.runInv_of_run hs hrun)

open ParentReady in
/-- **The consistency premise implies the premise `SafeRun` of the parent-ready theorems** for the operations the
    pool performs on its parent-ready tracker: the prune roots are the watermarks of the finality tracker
    (monotone), each is genesis or the slot of a *directly* finalized block (`roots_direct`), and such a slot is never
    accepted as a skip mark (not from a skip certificate: premise; not as an implicit skip: a finalized slot is not
    between a finalized block and its parent). -/
theorem safeRun_prTrace {L : List LogItem} (hc : Consistent L) : SafeRun (prTrace L) := by
  obtain ⟨fevs, hrun, ti⟩ := trace_inv L hc.safe
  refine ⟨hist_mono_of_sorted _ ti.sorted, fun r hr => ?_⟩
  rcases roots_direct L hc.safe r ((hist_roots _).1 r hr) with e | ⟨h, hd⟩
  · left; rw [e]; decide
  · right
    intro hm
    rcases (ti.sk r).mp hm with ⟨pre, c, hp, hk, hsl, _⟩ | a
    · have hmem : LogItem.cert c ∈ L := List.IsPrefix.mem (List.mem_append_right _ (List.mem_singleton.mpr rfl)) hp
      exact hc.skip_not_direct c hmem hk h (by rw [hsl]; exact hd)
    · exact hc.safe.final_not_skip (.direct hd) ((Finality.runInv_of_run hc.safe hrun).soundS r a)

/-! ### the two trackers inside the pool: projection of the pool operations -/

/-- the tracker part of the pool state -/
structure Trk where
  fin : Finality.Tracker
  pr : ParentReady.Tracker
  wakes : List ParentReady.Wake

def Pool.trk (p : Pool) : Trk := ⟨p.fin, p.pr, p.wakes⟩

def Trk.applyPr (k : Trk) (r : ParentReady.Res) : Trk :=
  match r with
  | none => k
  | some (pr, _, wk) => { k with pr := pr, wakes := k.wakes ++ wk }

def Trk.handleFin (k : Trk) (r : Finality.Res) : Trk :=
  match r with
  | .panic => k
  | .ok t ev =>
    let k1 := ({ k with fin := t } : Trk).applyPr (ParentReady.handleFinalization k.pr ev)
    { k1 with pr := ParentReady.prune k1.pr k1.fin.first }

/-- `add_valid_cert`, as far as the trackers are concerned -/
def Trk.addValidCert (k : Trk) (c : Cert) : Trk :=
  match c.kind with
  | .notar =>
    let k1 := k.handleFin (Finality.markNotarized k.fin (c.slot, c.hash))
    k1.applyPr (ParentReady.markNotarFallback k1.pr (c.slot, c.hash))
  | .nf => k.applyPr (ParentReady.markNotarFallback k.pr (c.slot, c.hash))
  | .skip => k.applyPr (ParentReady.markSkipped k.pr c.slot)
  | .ff => k.handleFin (Finality.markFastFinalized k.fin (c.slot, c.hash))
  | .final => k.handleFin (Finality.markFinalized k.fin c.slot)

/-- one log item, as far as the trackers are concerned -/
def Trk.item (k : Trk) : LogItem → Trk
  | .cert c => k.addValidCert c
  | .block b par => k.handleFin (Finality.addParent k.fin b par)

theorem slotState_trk (p : Pool) (s : Nat) : (p.slotState s).1.trk = p.trk := by
  unfold Pool.slotState; split <;> rfl

theorem putSlot_trk (p : Pool) (st : SlotState) : (p.putSlot st).trk = p.trk := by
  unfold Pool.putSlot; split <;> rfl

theorem notifyChildren_trk (p : Pool) (kids : List (Nat × Nat)) (acc : List Event) :
    (p.notifyChildren kids acc).1.trk = p.trk := by
  induction kids generalizing p acc with
  | nil => rfl
  | cons k ks ih =>
    obtain ⟨cs, ch⟩ := k
    unfold Pool.notifyChildren
    split
    · exact ih p acc
    · dsimp only
      split
      · exact slotState_trk p cs
      · rw [ih, putSlot_trk, slotState_trk]

theorem notifyWaiting_trk (p : Pool) (b : Nat × Nat) : (p.notifyWaiting b).1.trk = p.trk := by
  unfold Pool.notifyWaiting
  exact notifyChildren_trk _ _ _

theorem addWaiting_trk (p : Pool) (par b : Nat × Nat) : (Pool.addWaiting p par b).trk = p.trk := by
  unfold Pool.addWaiting; split <;> rfl

theorem addBlockTail_trk (p : Pool) (b par : Nat × Nat) (e0 : List Event) (cert : Bool) :
    (Pool.addBlockTail p b par e0 cert).1.trk = p.trk := by
  unfold Pool.addBlockTail
  split
  · split
    · exact slotState_trk p b.1
    · split
      · rw [addWaiting_trk, putSlot_trk, slotState_trk]
      · rw [putSlot_trk, slotState_trk]
  · exact addWaiting_trk p par b

theorem applyPr_trk (p : Pool) (r : ParentReady.Res) : (p.applyPr r).1.trk = p.trk.applyPr r := by
  unfold Pool.applyPr Trk.applyPr
  cases r with
  | none => rfl
  | some x => obtain ⟨pr, anns, wk⟩ := x; rfl

theorem prune_trk (p : Pool) : p.prune.trk = { p.trk with pr := ParentReady.prune p.pr p.fin.first } := rfl

theorem handleFin_trk (p : Pool) (r : Finality.Res) : (p.handleFin r).1.trk = p.trk.handleFin r := by
  unfold Pool.handleFin Trk.handleFin
  cases r with
  | panic => rfl
  | ok t ev =>
    dsimp only
    rw [prune_trk]
    have h := applyPr_trk { p with fin := t } (ParentReady.handleFinalization p.pr ev)
    have e1 : (({ p with fin := t } : Pool).applyPr (ParentReady.handleFinalization p.pr ev)).1.pr =
        ((⟨t, p.pr, p.wakes⟩ : Trk).applyPr (ParentReady.handleFinalization p.pr ev)).pr := congrArg Trk.pr h
    have e2 : (({ p with fin := t } : Pool).applyPr (ParentReady.handleFinalization p.pr ev)).1.fin =
        ((⟨t, p.pr, p.wakes⟩ : Trk).applyPr (ParentReady.handleFinalization p.pr ev)).fin := congrArg Trk.fin h
    rw [h, e1, e2]
    rfl

theorem trk_fin (p : Pool) : p.trk.fin = p.fin := rfl
theorem trk_pr (p : Pool) : p.trk.pr = p.pr := rfl

/-- **`add_valid_cert` on the trackers**: whatever else the pool holds, the finality tracker, the parent-ready
    tracker and the wake-ups after `add_valid_cert(c)` are `Trk.addValidCert` of those before. -/
theorem addValidCert_trk (p : Pool) (c : Cert) : (p.addValidCert c).1.trk = p.trk.addValidCert c := by
  have h0 : ((p.slotState c.slot).1.putSlot ((p.slotState c.slot).2.addCert c)).trk = p.trk := by
    rw [putSlot_trk, slotState_trk]
  unfold Pool.addValidCert Trk.addValidCert
  dsimp only
  generalize ((p.slotState c.slot).1.putSlot ((p.slotState c.slot).2.addCert c)) = q at h0 ⊢
  have hfin : q.fin = p.trk.fin := congrArg Trk.fin h0
  have hpr : q.pr = p.trk.pr := congrArg Trk.pr h0
  cases hk : c.kind <;> dsimp only
  · -- notar
    simp only [show (CertKind.notar == CertKind.notar) = true from rfl, if_true]
    rw [hfin]
    have e : ((q.handleFin (Finality.markNotarized p.trk.fin (c.slot, c.hash))).1.notifyWaiting (c.slot, c.hash)).1.pr =
        (p.trk.handleFin (Finality.markNotarized p.trk.fin (c.slot, c.hash))).pr := by
      have := congrArg Trk.pr (notifyWaiting_trk (q.handleFin (Finality.markNotarized p.trk.fin (c.slot, c.hash))).1 (c.slot, c.hash))
      rw [handleFin_trk, h0] at this
      exact this
    rw [applyPr_trk, notifyWaiting_trk, handleFin_trk, h0, e]
  · -- nf
    simp only [show (CertKind.nf == CertKind.notar) = false from rfl, Bool.false_eq_true, if_false]
    rw [applyPr_trk, notifyWaiting_trk, h0]
    have : (q.notifyWaiting (c.slot, c.hash)).1.pr = p.trk.pr := by
      have := congrArg Trk.pr (notifyWaiting_trk q (c.slot, c.hash))
      rw [h0] at this; exact this
    rw [this]
  · -- skip
    rw [applyPr_trk, h0, hpr]
  · -- ff
    rw [notifyWaiting_trk, handleFin_trk, h0, hfin]
  · -- final
    rw [handleFin_trk, h0, hfin]

/-- **`add_block` on the trackers** (when the block's slot is above its parent's; otherwise the call panics
    and changes nothing) -/
theorem addBlock_trk (p : Pool) (b par : Nat × Nat) (hlt : par.1 < b.1) :
    (p.addBlock b par).1.trk = p.trk.handleFin (Finality.addParent p.fin b par) := by
  unfold Pool.addBlock
  rw [if_neg (by omega)]
  have hh := handleFin_trk p (Finality.addParent p.fin b par)
  unfold Pool.handleFin at hh
  cases hr : Finality.addParent p.fin b par with
  | panic => rfl
  | ok t ev =>
    rw [hr] at hh
    dsimp only at hh ⊢
    split
    · exact hh
    · rw [addBlockTail_trk, putSlot_trk, slotState_trk]
      exact hh

/-! ### the log is observable: `CertCreated` events -/

/-- events that neither announce a certificate nor a ready parent -/
def Event.quiet : Event → Bool
  | .s2n _ _ => true
  | .s2s _ => true
  | .repair _ _ => true
  | .panic => true
  | .standstill _ _ _ => true
  | .cert _ => false
  | .parentReady _ _ _ => false

def Quiet (evs : List Event) : Prop := ∀ e ∈ evs, e.quiet = true

theorem Quiet.nil : Quiet [] := fun _ h => by cases h
theorem Quiet.append {a b : List Event} (ha : Quiet a) (hb : Quiet b) : Quiet (a ++ b) :=
  fun e he => (List.mem_append.mp he).elim (ha e) (hb e)

/-- the `CertCreated` events of an event list, as log items -/
def certsOf (evs : List Event) : List LogItem := evs.filterMap (fun | .cert c => some (.cert c) | _ => none)

theorem certsOf_append (a b : List Event) : certsOf (a ++ b) = certsOf a ++ certsOf b := by
  unfold certsOf; rw [List.filterMap_append]

theorem certsOf_quiet {evs : List Event} (h : Quiet evs) : certsOf evs = [] := by
  unfold certsOf
  rw [List.filterMap_eq_nil_iff]
  intro e he
  have := h e he
  cases e <;> first | rfl | (simp [Event.quiet] at this)

theorem certsOf_prEvents (anns : List (Nat × (Nat × Nat))) : certsOf (prEvents anns) = [] := by
  unfold certsOf prEvents
  rw [List.filterMap_eq_nil_iff]
  intro e he
  obtain ⟨a, _, rfl⟩ := List.mem_map.mp he
  rfl

theorem s2nOut_quiet (slot h : Nat) (r : S2N) : Quiet (s2nOut slot h r) := by
  intro e he
  cases r <;> simp [s2nOut] at he <;> subst he <;> rfl

theorem recheckPending_quiet (e : Epoch) (st : SlotState) (hs : List Nat) (acc : List Event) (ha : Quiet acc) :
    Quiet (SlotState.recheckPending e st hs acc).2 := by
  induction hs generalizing st acc with
  | nil => exact ha
  | cons h hs ih =>
    unfold SlotState.recheckPending
    split
    · exact ih _ _ ha
    · exact ih _ _ (ha.append (s2nOut_quiet _ _ _))

theorem s2sCheck_quiet (e : Epoch) (st : SlotState) : Quiet (st.s2sCheck e).2 := by
  unfold SlotState.s2sCheck
  split
  · intro x hx; simp at hx; subst hx; rfl
  · exact Quiet.nil

theorem countNotar_quiet (e : Epoch) (st : SlotState) (h stake : Nat) : Quiet (SlotState.countNotar e st h stake).2.2 := by
  unfold SlotState.countNotar
  dsimp only
  split
  · exact (s2nOut_quiet _ _ _).append (s2sCheck_quiet _ _)
  · exact Quiet.nil.append (s2sCheck_quiet _ _)

theorem countSkip_quiet (e : Epoch) (st : SlotState) (stake : Nat) (fb : Bool) :
    Quiet (SlotState.countSkip e st stake fb).2.2 := by
  unfold SlotState.countSkip
  dsimp only
  exact (recheckPending_quiet _ _ _ _ Quiet.nil).append (s2sCheck_quiet _ _)

theorem countNf_quiet (e : Epoch) (st : SlotState) (h stake : Nat) : Quiet (SlotState.countNf e st h stake).2.2 :=
  Quiet.nil

theorem countFin_quiet (e : Epoch) (st : SlotState) (stake : Nat) : Quiet (SlotState.countFin e st stake).2.2 :=
  Quiet.nil

/-- the per-slot `add_vote` emits only safe-to-notar / safe-to-skip / repair events -/
theorem slot_addVote_quiet (e : Epoch) (st : SlotState) (v : Vote) : Quiet (st.addVote e v).2.2 := by
  unfold SlotState.addVote
  dsimp only
  cases hk : v.kind <;> dsimp only
  · split
    · exact (countNotar_quiet _ _ _ _).append (recheckPending_quiet _ _ _ _ Quiet.nil)
    · exact countNotar_quiet _ _ _ _
  · split
    · exact (countNf_quiet _ _ _ _).append (recheckPending_quiet _ _ _ _ Quiet.nil)
    · exact countNf_quiet _ _ _ _
  · split
    · exact (countSkip_quiet _ _ _ _).append (recheckPending_quiet _ _ _ _ Quiet.nil)
    · exact countSkip_quiet _ _ _ _
  · split
    · exact (countSkip_quiet _ _ _ _).append (recheckPending_quiet _ _ _ _ Quiet.nil)
    · exact countSkip_quiet _ _ _ _
  · split
    · exact (countFin_quiet _ _ _).append (recheckPending_quiet _ _ _ _ Quiet.nil)
    · exact countFin_quiet _ _ _

theorem notifyParentCertified_quiet (e : Epoch) (st : SlotState) (h : Nat) (st' : SlotState) (evs : List Event)
    (hn : st.notifyParentCertified e h = some (st', evs)) : Quiet evs := by
  unfold SlotState.notifyParentCertified at hn
  split at hn
  · cases hn
  · dsimp only at hn
    split at hn
    · cases hn; exact Quiet.nil
    · cases hn; exact s2nOut_quiet _ _ _

theorem notifyChildren_quiet (p : Pool) (kids : List (Nat × Nat)) (acc : List Event) (ha : Quiet acc) :
    Quiet (p.notifyChildren kids acc).2 := by
  induction kids generalizing p acc with
  | nil => exact ha
  | cons k ks ih =>
    obtain ⟨cs, ch⟩ := k
    unfold Pool.notifyChildren
    split
    · exact ih p acc ha
    · dsimp only
      split
      · exact ha.append (fun x hx => by simp at hx; subst hx; rfl)
      · rename_i st' evs hn
        exact ih _ _ (ha.append (notifyParentCertified_quiet _ _ _ _ _ hn))

theorem notifyWaiting_quiet (p : Pool) (b : Nat × Nat) : Quiet (p.notifyWaiting b).2 := by
  unfold Pool.notifyWaiting
  exact notifyChildren_quiet _ _ _ Quiet.nil

theorem certsOf_applyPr (p : Pool) (r : ParentReady.Res) : certsOf (p.applyPr r).2 = [] := by
  unfold Pool.applyPr
  cases r with
  | none => rfl
  | some x => obtain ⟨pr, anns, wk⟩ := x; exact certsOf_prEvents anns

theorem certsOf_handleFin (p : Pool) (r : Finality.Res) : certsOf (p.handleFin r).2 = [] := by
  unfold Pool.handleFin
  cases r with
  | panic => rfl
  | ok t ev => exact certsOf_applyPr _ _

/-- **`add_valid_cert(c)` announces exactly `c`** (`CertCreated`) -/
theorem certsOf_addValidCert (p : Pool) (c : Cert) : certsOf (p.addValidCert c).2 = [.cert c] := by
  unfold Pool.addValidCert
  dsimp only
  generalize ((p.slotState c.slot).1.putSlot ((p.slotState c.slot).2.addCert c)) = q
  rw [certsOf_append]
  have hlast : certsOf [Event.cert c] = [LogItem.cert c] := rfl
  have hrep : certsOf [Event.repair c.slot c.hash] = [] := rfl
  rw [hlast]
  cases hk : c.kind <;> dsimp only
  · simp only [show (CertKind.notar == CertKind.notar) = true from rfl, if_true]
    rw [certsOf_append, certsOf_append, certsOf_append, certsOf_handleFin, certsOf_quiet (notifyWaiting_quiet _ _),
      certsOf_applyPr, hrep]; rfl
  · simp only [show (CertKind.nf == CertKind.notar) = false from rfl, Bool.false_eq_true, if_false]
    rw [certsOf_append, certsOf_append, certsOf_append, certsOf_quiet (notifyWaiting_quiet _ _),
      certsOf_applyPr, hrep]; rfl
  · rw [certsOf_applyPr]; rfl
  · rw [certsOf_append, certsOf_handleFin, certsOf_quiet (notifyWaiting_quiet _ _)]; rfl
  · rw [certsOf_handleFin]; rfl

/-! ### `Wired`: the trackers of the pool are the trackers after the log -/

/-- one operation of the parent-ready tracker on the tracker part of the pool (a panic leaves it unchanged) -/
def Trk.prStep (k : Trk) (op : ParentReady.Op) : Trk :=
  match ParentReady.applyOp k.pr op with
  | .ok (t', _, w) => { k with pr := t', wakes := k.wakes ++ w }
  | .error _ => k

theorem prStep_fin (k : Trk) (op : ParentReady.Op) : (k.prStep op).fin = k.fin := by
  unfold Trk.prStep; split <;> rfl

theorem foldl_prStep_fin (ops : List ParentReady.Op) (k : Trk) : (ops.foldl Trk.prStep k).fin = k.fin := by
  induction ops generalizing k with
  | nil => rfl
  | cons op ops ih => rw [List.foldl_cons, ih, prStep_fin]

theorem prStep_withFin (k : Trk) (f : Finality.Tracker) (op : ParentReady.Op) :
    ({ k with fin := f } : Trk).prStep op = { k.prStep op with fin := f } := by
  unfold Trk.prStep
  dsimp only
  cases ParentReady.applyOp k.pr op with
  | error x => rfl
  | ok r => rfl

theorem foldl_prStep_withFin (ops : List ParentReady.Op) (k : Trk) (f : Finality.Tracker) :
    ops.foldl Trk.prStep { k with fin := f } = { ops.foldl Trk.prStep k with fin := f } := by
  induction ops generalizing k with
  | nil => rfl
  | cons op ops ih => rw [List.foldl_cons, List.foldl_cons, prStep_withFin, ih]

theorem applyPr_nf_eq (k : Trk) (b : Nat × Nat) :
    k.applyPr (ParentReady.markNotarFallback k.pr b) = k.prStep (.nf b) := by
  unfold Trk.applyPr Trk.prStep
  simp only [ParentReady.applyOp]
  cases ParentReady.markNotarFallback k.pr b with
  | none => rfl
  | some x => obtain ⟨pr, a, w⟩ := x; rfl

theorem applyPr_skip_eq (k : Trk) (s : Nat) :
    k.applyPr (ParentReady.markSkipped k.pr s) = k.prStep (.skip s) := by
  unfold Trk.applyPr Trk.prStep
  simp only [ParentReady.applyOp]
  cases ParentReady.markSkipped k.pr s with
  | none => rfl
  | some x => obtain ⟨pr, a, w⟩ := x; rfl

theorem handleFin_eq (k : Trk) (op : Finality.Op) :
    k.handleFin (Finality.step k.fin op) =
      (finPart k.fin op).2.foldl Trk.prStep { k with fin := (finPart k.fin op).1 } := by
  unfold Trk.handleFin finPart
  cases Finality.step k.fin op with
  | panic => rfl
  | ok t ev =>
    simp only [List.foldl_cons, List.foldl_nil]
    unfold Trk.applyPr Trk.prStep
    simp only [ParentReady.applyOp]
    cases ParentReady.handleFinalization k.pr ev with
    | none => simp
    | some x => obtain ⟨pr, a, w⟩ := x; simp

/-- the tracker part of the pool after a log item = the item's parent-ready operations applied one by one -/
theorem trk_item_eq (k : Trk) (it : LogItem) :
    k.item it = (itemStep k.fin it).2.foldl Trk.prStep { k with fin := (itemStep k.fin it).1 } := by
  unfold itemStep
  cases it with
  | block b par =>
    have := handleFin_eq k (.parent b par)
    simpa [Trk.item, LogItem.finOp, LogItem.marks, finParts, Finality.step] using this
  | cert c =>
    unfold Trk.item Trk.addValidCert
    cases hk : c.kind
    · -- notar
      have := handleFin_eq k (.notar (c.slot, c.hash))
      simp only [Finality.step] at this
      simp only [LogItem.finOp, LogItem.marks, hk, finParts, List.append_nil, List.foldl_append, List.foldl_cons, List.foldl_nil]
      rw [applyPr_nf_eq, this]
    · simp only [LogItem.finOp, LogItem.marks, hk, finParts, List.nil_append, List.foldl_cons, List.foldl_nil]
      exact applyPr_nf_eq k _
    · simp only [LogItem.finOp, LogItem.marks, hk, finParts, List.nil_append, List.foldl_cons, List.foldl_nil]
      exact applyPr_skip_eq k _
    · have := handleFin_eq k (.fastFinal (c.slot, c.hash))
      simpa [LogItem.finOp, LogItem.marks, hk, finParts, Finality.step] using this
    · have := handleFin_eq k (.final c.slot)
      simpa [LogItem.finOp, LogItem.marks, hk, finParts, Finality.step] using this

open ParentReady in
theorem run_append (tr ops : List Op) : run (tr ++ ops) = ops.foldl runStep (run tr) := by
  unfold run; rw [List.foldl_append]

open ParentReady in
theorem foldl_runStep_error (ops : List Op) (e : Panic) : ops.foldl runStep (.error e) = .error e := by
  induction ops with
  | nil => rfl
  | cons op ops ih => rw [List.foldl_cons]; exact ih

open ParentReady in
/-- a successful run of further operations acts on the tracker part of the pool as `Trk.prStep` does -/
theorem run_fold {tr ops : List Op} {k : Trk} {anns : List (Nat × (Nat × Nat))} {st' : RunState}
    (h0 : run tr = .ok ⟨k.pr, anns, k.wakes⟩) (h1 : run (tr ++ ops) = .ok st') :
    ∃ anns', st' = ⟨(ops.foldl Trk.prStep k).pr, anns', (ops.foldl Trk.prStep k).wakes⟩ := by
  induction ops generalizing tr k anns with
  | nil =>
    rw [List.append_nil, h0] at h1
    cases h1
    exact ⟨anns, rfl⟩
  | cons op ops ih =>
    have e : tr ++ op :: ops = (tr ++ [op]) ++ ops := by simp
    rw [e] at h1
    have h2 : run (tr ++ [op]) = runStep (run tr) op := run_snoc tr op
    rw [h0] at h2
    simp only [runStep, RunState.step] at h2
    cases ha : applyOp k.pr op with
    | error x =>
      rw [ha] at h2
      rw [run_append, h2, foldl_runStep_error] at h1
      cases h1
    | ok r =>
      obtain ⟨t', a, w⟩ := r
      rw [ha] at h2
      simp only at h2
      have hk : k.prStep op = { k with pr := t', wakes := k.wakes ++ w } := by
        unfold Trk.prStep; rw [ha]
      have := @ih (tr ++ [op]) (k.prStep op) (anns ++ a) (by rw [h2, hk]) h1
      rw [List.foldl_cons]
      exact this

/-- **The wiring invariant**: the finality tracker of the pool is the finality tracker after the finality
    operations of the log; the parent-ready tracker (and the wake-ups sent so far) are the result of running the
    trace `prTrace L` — marks, finalization batches, prunes — from `ParentReadyTracker::default()`, without panic. -/
structure Wired (k : Trk) (L : List LogItem) : Prop where
  fin : finState L = k.fin
  pr : ∃ anns, ParentReady.run (prTrace L) = .ok ⟨k.pr, anns, k.wakes⟩

theorem Wired.init (e : Epoch) : Wired ({ epoch := e } : Pool).trk [] :=
  ⟨rfl, ⟨[], rfl⟩⟩

open ParentReady in
/-- **Every log item keeps the wiring invariant** as long as the history stays consistent: neither tracker
    panics, the pool prunes the parent-ready tracker exactly to the new watermark. -/
theorem Wired.item {k : Trk} {L : List LogItem} (w : Wired k L) (it : LogItem) (hc : Consistent (L ++ [it])) :
    Wired (k.item it) (L ++ [it]) := by
  have hsr := safeRun_prTrace hc
  obtain ⟨fevs, _, ti⟩ := trace_inv _ hc.safe
  rcases reach_inv _ hsr with ⟨st, hst, _⟩ | ⟨_, hnd⟩
  · obtain ⟨anns, hpr⟩ := w.pr
    rw [prTrace_snoc] at hst
    obtain ⟨anns', e⟩ := run_fold hpr hst
    refine ⟨?_, ?_⟩
    · rw [finState_snoc, w.fin, trk_item_eq, foldl_prStep_fin]
    · refine ⟨anns', ?_⟩
      rw [prTrace_snoc, hst, e, trk_item_eq, w.fin,
        foldl_prStep_withFin (itemStep k.fin it).2 k (itemStep k.fin it).1]
  · exfalso
    rw [ti.nowait] at hnd
    exact hnd List.nodup_nil

/-! ### every pool operation keeps the wiring invariant -/

/-- the ghost log of one pool operation: the block registration (if it is one), then the `CertCreated` events -/
def stepItems (op : PoolOp) (evs : List Event) : List LogItem :=
  (match op with | .block b par => [LogItem.block b par] | _ => []) ++ certsOf evs

/-- **The ghost log of a pool run**: block registrations and `CertCreated` events, in order. -/
def poolLog (p : Pool) : List PoolOp → List LogItem
  | [] => []
  | op :: ops => stepItems op (poolStep p op).2 ++ poolLog (poolStep p op).1 ops

theorem addValidCert_wired (p : Pool) (c : Cert) (L : List LogItem) (w : Wired p.trk L)
    (hc : Consistent (L ++ [.cert c])) : Wired (p.addValidCert c).1.trk (L ++ [.cert c]) := by
  rw [addValidCert_trk]
  exact w.item (.cert c) hc

theorem certsOf_addValidCerts (cs : List Cert) (r : Pool) (acc : List Event) :
    certsOf (r.addValidCerts cs acc).2 = certsOf acc ++ cs.map LogItem.cert := by
  induction cs generalizing r acc with
  | nil => simp [Pool.addValidCerts]
  | cons c cs ih =>
    unfold Pool.addValidCerts
    dsimp only
    rw [ih, certsOf_append, certsOf_addValidCert]
    simp

theorem addValidCerts_wired (cs : List Cert) (p : Pool) (acc : List Event) (L : List LogItem) (w : Wired p.trk L)
    (hc : Consistent (L ++ cs.map LogItem.cert)) :
    Wired (p.addValidCerts cs acc).1.trk (L ++ cs.map LogItem.cert) := by
  induction cs generalizing p acc L with
  | nil => simpa [Pool.addValidCerts] using w
  | cons c cs ih =>
    unfold Pool.addValidCerts
    dsimp only
    have e : L ++ (c :: cs).map LogItem.cert = (L ++ [.cert c]) ++ cs.map LogItem.cert := by simp
    rw [e] at hc ⊢
    have w1 := addValidCert_wired p c L w hc.prefix
    exact ih (p.addValidCert c).1 (acc ++ (p.addValidCert c).2) (L ++ [.cert c]) w1 hc

/-- `add_vote`: refused (nothing changes for the trackers, nothing is announced), or the created certificates are
    added one by one -/
theorem addVote_casesW (p : Pool) (v : Vote) :
    ((p.addVote v).1.trk = p.trk ∧ certsOf (p.addVote v).2.2 = []) ∨
    (∃ (q : Pool) (cs : List Cert), q.trk = p.trk ∧ (p.addVote v).1 = (q.addValidCerts cs []).1 ∧
      certsOf (p.addVote v).2.2 = cs.map LogItem.cert) := by
  unfold Pool.addVote
  split
  · exact Or.inl ⟨rfl, rfl⟩
  split
  · exact Or.inl ⟨rfl, rfl⟩
  dsimp only
  split
  · exact Or.inl ⟨slotState_trk _ _, rfl⟩
  · split
    · exact Or.inl ⟨slotState_trk _ _, rfl⟩
    · right
      refine ⟨_, _, ?_, rfl, ?_⟩
      · rw [putSlot_trk, slotState_trk]
      · dsimp only
        rw [certsOf_append, certsOf_addValidCerts, certsOf_quiet (slot_addVote_quiet _ _ _)]
        simp [certsOf]

theorem addVote_wired (p : Pool) (v : Vote) (L : List LogItem) (w : Wired p.trk L)
    (hc : Consistent (L ++ certsOf (p.addVote v).2.2)) :
    Wired (p.addVote v).1.trk (L ++ certsOf (p.addVote v).2.2) := by
  rcases addVote_casesW p v with ⟨h1, h2⟩ | ⟨q, cs, h1, h2, h3⟩
  · rw [h1, h2, List.append_nil]; exact w
  · rw [h3] at hc ⊢
    rw [h2]
    exact addValidCerts_wired cs q [] L (by rw [h1]; exact w) hc

theorem addCert_casesW (p : Pool) (c : Cert) :
    ((p.addCert c).1.trk = p.trk ∧ certsOf (p.addCert c).2.2 = []) ∨
    (∃ q : Pool, q.trk = p.trk ∧ (p.addCert c).1 = (q.addValidCert c).1 ∧ certsOf (p.addCert c).2.2 = [.cert c]) := by
  unfold Pool.addCert
  split
  · exact Or.inl ⟨rfl, rfl⟩
  dsimp only
  split <;> split
  all_goals first
    | exact Or.inl ⟨slotState_trk _ _, rfl⟩
    | exact Or.inr ⟨_, slotState_trk _ _, rfl, certsOf_addValidCert _ _⟩

theorem addCert_wired (p : Pool) (c : Cert) (L : List LogItem) (w : Wired p.trk L)
    (hc : Consistent (L ++ certsOf (p.addCert c).2.2)) :
    Wired (p.addCert c).1.trk (L ++ certsOf (p.addCert c).2.2) := by
  rcases addCert_casesW p c with ⟨h1, h2⟩ | ⟨q, h1, h2, h3⟩
  · rw [h1, h2, List.append_nil]; exact w
  · rw [h3] at hc ⊢
    rw [h2]
    exact addValidCert_wired q c L (by rw [h1]; exact w) hc

theorem certsOf_addBlockTail (p : Pool) (b par : Nat × Nat) (e0 : List Event) (cert : Bool) :
    certsOf (Pool.addBlockTail p b par e0 cert).2 = certsOf e0 := by
  unfold Pool.addBlockTail
  split
  · split
    · rw [certsOf_append]; simp [certsOf]
    · rename_i st evs hn
      split
      · rfl
      · rw [certsOf_append, certsOf_quiet (notifyParentCertified_quiet _ _ _ _ _ hn), List.append_nil]
  · rfl

theorem certsOf_addBlock (p : Pool) (b par : Nat × Nat) : certsOf (p.addBlock b par).2 = [] := by
  unfold Pool.addBlock
  split
  · rfl
  split
  · rfl
  · dsimp only
    split
    · exact certsOf_applyPr _ _
    · rw [certsOf_addBlockTail]; exact certsOf_applyPr _ _

theorem addBlock_wired (p : Pool) (b par : Nat × Nat) (L : List LogItem) (w : Wired p.trk L)
    (hc : Consistent (L ++ [.block b par])) : Wired (p.addBlock b par).1.trk (L ++ [.block b par]) := by
  have hlt : par.1 < b.1 := by
    apply hc.safe.link_lt b par
    show Finality.Op.parent b par ∈ finOps (L ++ [.block b par])
    rw [finOp_snoc]
    exact List.mem_append_right _ (List.mem_singleton.mpr rfl)
  rw [addBlock_trk p b par hlt]
  exact w.item (.block b par) hc

/-- one pool operation -/
theorem poolStep_wired (p : Pool) (op : PoolOp) (L : List LogItem) (w : Wired p.trk L)
    (hc : Consistent (L ++ stepItems op (poolStep p op).2)) :
    Wired (poolStep p op).1.trk (L ++ stepItems op (poolStep p op).2) := by
  cases op with
  | vote v => exact addVote_wired p v L w (by simpa [stepItems, poolStep] using hc)
  | cert c => exact addCert_wired p c L w (by simpa [stepItems, poolStep] using hc)
  | block b par =>
    have : stepItems (.block b par) (poolStep p (.block b par)).2 = [.block b par] := by
      simp [stepItems, poolStep, certsOf_addBlock]
    rw [this] at hc ⊢
    exact addBlock_wired p b par L w hc

/-- **Every pool reachable from a wired pool by votes, certificates and block registrations is wired**, as long as
    the history (the log) is consistent. -/
theorem poolRun_wired (ops : List PoolOp) (p : Pool) (L : List LogItem) (w : Wired p.trk L)
    (hc : Consistent (L ++ poolLog p ops)) : Wired (poolRun p ops).1.trk (L ++ poolLog p ops) := by
  induction ops generalizing p L with
  | nil => simpa [poolLog, poolRun] using w
  | cons op ops ih =>
    simp only [poolLog, poolRun] at hc ⊢
    rw [← List.append_assoc] at hc ⊢
    exact ih _ _ (poolStep_wired p op L w hc.prefix) hc

/-! ### above the current watermark every certificate mark was accepted -/

/-- the watermark only moves forward along the log -/
theorem finState_first_mono {pre L : List LogItem} (hp : pre <+: L) (hs : Finality.Safe (finOps L)) :
    (finState pre).first ≤ (finState L).first := by
  obtain ⟨post, rfl⟩ := hp
  have hsub : Finality.Sub (finOps pre) (finOps (pre ++ post)) := finOps_sub (fun _ hx => List.mem_append_left _ hx)
  obtain ⟨f1, h1, _⟩ := trace_inv pre (hs.sub hsub)
  obtain ⟨f2, h2, _⟩ := trace_inv (pre ++ post) hs
  rw [finOps_append, fin_run_append, h1] at h2
  simp only at h2
  cases hr : Finality.run (finState pre) (finOps post) with
  | none => rw [hr] at h2; cases h2
  | some r =>
    obtain ⟨t2, e2⟩ := r
    rw [hr] at h2
    simp only [Option.some.injEq, Prod.mk.injEq] at h2
    have := (Finality.run_inv (Finality.run_inv Finality.inv_init h1).1 hr).2.2
    rw [h2.1] at this
    exact this

/-- for a slot at or above the current watermark the qualification "while the slot was above the root" is void:
    the notar-fallback mark of every notarization / notar-fallback certificate in the log was accepted -/
theorem nfCertAcc_above {L : List LogItem} (hs : Finality.Safe (finOps L)) {b : Nat × Nat}
    (hb : (finState L).first ≤ b.1) :
    NfCertAcc L b ↔ ∃ c, LogItem.cert c ∈ L ∧ (c.kind = .notar ∨ c.kind = .nf) ∧ (c.slot, c.hash) = b := by
  constructor
  · rintro ⟨pre, c, hp, hk, he, _⟩
    exact ⟨c, List.IsPrefix.mem (List.mem_append_right _ (List.mem_singleton.mpr rfl)) hp, hk, he⟩
  · rintro ⟨c, hm, hk, he⟩
    obtain ⟨pre, post, rfl⟩ := List.append_of_mem hm
    have hp : (pre ++ [LogItem.cert c]) <+: (pre ++ LogItem.cert c :: post) := ⟨post, by simp⟩
    exact ⟨pre, c, hp, hk, he, Nat.le_trans (finState_first_mono hp hs) hb⟩

theorem skCertAcc_above {L : List LogItem} (hs : Finality.Safe (finOps L)) {s : Nat}
    (hb : (finState L).first ≤ s) : SkCertAcc L s ↔ SkipCertIn L s := by
  constructor
  · rintro ⟨pre, c, hp, hk, he, _⟩
    exact ⟨c, List.IsPrefix.mem (List.mem_append_right _ (List.mem_singleton.mpr rfl)) hp, hk, he⟩
  · rintro ⟨c, hm, hk, he⟩
    obtain ⟨pre, post, rfl⟩ := List.append_of_mem hm
    have hp : (pre ++ [LogItem.cert c]) <+: (pre ++ LogItem.cert c :: post) := ⟨post, by simp⟩
    have hp0 : pre <+: (pre ++ LogItem.cert c :: post) := List.prefix_append _ _
    exact ⟨pre, c, hp, hk, he, Nat.le_trans (finState_first_mono hp0 hs) hb⟩

/-! ### the premise is decidable -/

/-- `Consistent` with bounded quantifiers -/
def ConsistentC (L : List LogItem) : Prop :=
  Finality.Safe (finOps L) ∧
  (∀ it ∈ L, match it with
    | .cert c => c.kind = .skip → ∀ b ∈ Finality.cands (finOps L), Finality.directB (finOps L) b = true → b.1 ≠ c.slot
    | .block _ _ => True) ∧
  ∀ b ∈ Finality.finals (finOps L), b.1 = 0 → b.2 = 0

instance (L : List LogItem) : Decidable (ConsistentC L) := by
  unfold ConsistentC
  have : ∀ it : LogItem, Decidable (match it with
    | .cert c => c.kind = .skip → ∀ b ∈ Finality.cands (finOps L), Finality.directB (finOps L) b = true → b.1 ≠ c.slot
    | .block _ _ => True) := by
    intro it; cases it <;> infer_instance
  infer_instance

theorem consistentC_iff {L : List LogItem} : ConsistentC L ↔ Consistent L := by
  constructor
  · rintro ⟨sf, h, hg⟩
    refine ⟨sf, fun c hm hk hh hd => ?_, fun hh hf => ?_⟩
    · exact h (.cert c) hm hk (c.slot, hh) (Finality.final_mem_cands (.direct hd)) (Finality.directB_iff.mpr hd) rfl
    · exact hg (0, hh) ((Finality.mem_finals sf.link_lt).mpr hf) rfl
  · rintro ⟨sf, h, hg⟩
    refine ⟨sf, fun it hm => ?_, fun b hb e => ?_⟩
    · cases it with
      | block b par => trivial
      | cert c =>
        intro hk b _ hd e
        exact h c hm hk b.2 (by rw [← e]; exact Finality.directB_iff.mp hd)
    · have hf := (Finality.mem_finals sf.link_lt).mp hb
      have hb' : b = (0, b.2) := Prod.ext e rfl
      rw [hb'] at hf
      exact hg b.2 hf

instance (L : List LogItem) : Decidable (Consistent L) := decidable_of_iff _ consistentC_iff

/-! ### where tracker panics show up as events -/

/-- `applyPr` emits `panic` exactly when the parent-ready tracker's operation panicked -/
theorem applyPr_panic_iff (p : Pool) (r : ParentReady.Res) : Event.panic ∈ (p.applyPr r).2 ↔ r = none := by
  unfold Pool.applyPr
  cases r with
  | none => simp
  | some x => obtain ⟨pr, anns, wk⟩ := x; simp [prEvents]

/-- `handle_finalization` emits `panic` exactly when the finality tracker's operation panicked ("consensus safety
    violation") or the parent-ready tracker's batch did -/
theorem handleFin_panic_iff (p : Pool) (r : Finality.Res) :
    Event.panic ∈ (p.handleFin r).2 ↔
      (r = .panic ∨ ∃ t ev, r = .ok t ev ∧ ParentReady.handleFinalization p.pr ev = none) := by
  unfold Pool.handleFin
  cases r with
  | panic => simp
  | ok t ev =>
    dsimp only
    rw [applyPr_panic_iff]
    constructor
    · intro h; exact Or.inr ⟨t, ev, rfl, h⟩
    · rintro (h | ⟨t', ev', h, h2⟩)
      · cases h
      · cases h; exact h2

/-- the finality operation of a consistent next log item does not panic -/
theorem fin_item_ok {k : Trk} {L : List LogItem} (w : Wired k L) (it : LogItem) (hc : Consistent (L ++ [it])) :
    ∀ op ∈ it.finOp, ∃ t ev, Finality.step k.fin op = .ok t ev := by
  intro op hop
  obtain ⟨f1, h1, _⟩ := trace_inv L hc.prefix.safe
  obtain ⟨f2, h2, _⟩ := trace_inv (L ++ [it]) hc.safe
  rw [finOp_snoc, fin_run_append, h1] at h2
  simp only at h2
  have hfo : it.finOp = [op] := by
    cases it with
    | block b par => simp [LogItem.finOp] at hop ⊢; exact hop.symm
    | cert c =>
      cases hk : c.kind <;> simp [LogItem.finOp, hk] at hop ⊢ <;> exact hop.symm
  rw [hfo, fin_run_single, w.fin] at h2
  cases hs : Finality.step k.fin op with
  | panic => rw [hs] at h2; simp at h2
  | ok t ev => exact ⟨t, ev, rfl⟩

end AgModel.Pool
