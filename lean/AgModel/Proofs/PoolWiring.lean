import AgModel.Proofs.PoolGlue
import AgModel.Proofs.ParentReadyRun
import AgModel.Proofs.FinalityRun
/-!
# Pool-level wiring of the two trackers (C07 part A)

Which certificate / block registration drives which operation of the finality tracker and which mark of the
parent-ready tracker inside `PoolImpl` (`add_valid_cert`, `handle_finalization`, `prune`, `add_block`), as an
invariant `Wired` between the pool state and a *ghost log* of what the pool processed.

* `LogItem` / `poolLog` — the log: the `CertCreated` events (one per `add_valid_cert`) and the block
  registrations, in order (observable from the outside);
* `finOps L` — the operations the finality tracker received; `prTrace L` — the operations the parent-ready
  tracker received (marks, finalization batches with the events of the finality tracker, prunes to
  `first_unpruned_slot`);
* `Consistent L` — the premise on the history (C01): `Finality.Safe (finOps L)` and no skip certificate for a
  finalized slot;  `Consistent L → ParentReady.SafeRun (prTrace L)`;
* `Wired p L` — `p.fin` is the finality tracker after `finOps L`, `p.pr` the parent-ready tracker after `prTrace L`.
-/
namespace AgModel.Pool
open AgModel

/-! ### runs of the finality tracker: append -/

theorem fin_run_append (t : Finality.Tracker) (A B : List Finality.Op) :
    Finality.run t (A ++ B) =
      match Finality.run t A with
      | some (t1, e1) => (match Finality.run t1 B with | some (t2, e2) => some (t2, e1 ++ e2) | none => none)
      | none => none := by
  induction A generalizing t with
  | nil =>
    simp only [List.nil_append, Finality.run]
    cases Finality.run t B with
    | none => rfl
    | some r => rfl
  | cons a A ih =>
    simp only [List.cons_append, Finality.run]
    cases hs : Finality.step t a with
    | panic => rfl
    | ok t1 ev =>
      simp only
      rw [ih]
      cases Finality.run t1 A with
      | none => rfl
      | some r =>
        obtain ⟨t2, e2⟩ := r
        simp only
        cases Finality.run t2 B with
        | none => rfl
        | some r2 => simp

theorem fin_run_single (t : Finality.Tracker) (op : Finality.Op) :
    Finality.run t [op] = match Finality.step t op with | .ok t' ev => some (t', [ev]) | .panic => none := by
  simp only [Finality.run]
  cases Finality.step t op <;> rfl

/-- the last step of a run -/
theorem fin_run_snoc_inv {t t1 t2 : Finality.Tracker} {A : List Finality.Op} {op : Finality.Op}
    {e1 e2 : List Finality.Event} (h1 : Finality.run t A = some (t1, e1))
    (h2 : Finality.run t (A ++ [op]) = some (t2, e2)) :
    ∃ ev, Finality.step t1 op = .ok t2 ev ∧ e2 = e1 ++ [ev] := by
  rw [fin_run_append, h1] at h2
  simp only [fin_run_single] at h2
  cases hs : Finality.step t1 op with
  | panic => rw [hs] at h2; cases h2
  | ok t' ev =>
    rw [hs] at h2
    simp only [Option.some.injEq, Prod.mk.injEq] at h2
    exact ⟨ev, by rw [h2.1], h2.2.symm⟩

/-- every block / slot an operation reports lies at or above the watermark the operation started with -/
theorem fin_event_ge_first {t t' : Finality.Tracker} {op : Finality.Op} {ev : Finality.Event}
    (h : Finality.step t op = .ok t' ev) :
    (∀ b ∈ Finality.evF ev, t.first ≤ b.1) ∧ (∀ s ∈ ev.implSkipped, t.first ≤ s) := by
  obtain ⟨m, me, _⟩ := Finality.step_mid h
  constructor
  · intro b hb
    obtain ⟨n, e⟩ := me.spec.fin b hb
    rcases Nat.lt_or_ge b.1 t.first with hl | hl
    · rw [me.low _ hl] at e
      exact absurd (Finality.dec_of_finalHash' e) n
    · exact hl
  · intro s hs
    obtain ⟨n, e⟩ := me.spec.skip s hs
    rcases Nat.lt_or_ge s t.first with hl | hl
    · rw [me.low _ hl] at e
      exact absurd (e ▸ Finality.dec_some.mpr rfl) n
    · exact hl

/-! ### the ghost log and what it means for the two trackers -/

/-- what the pool processed: `add_valid_cert(c)` ran (one `CertCreated` event each), `add_block(b, par)` was called -/
inductive LogItem where
  | cert (c : Cert)
  | block (b par : Nat × Nat)
deriving DecidableEq, Repr

/-- the operation of the finality tracker caused by a log item (`add_valid_cert` / `add_block`) -/
def LogItem.finOp : LogItem → List Finality.Op
  | .cert c =>
    match c.kind with
    | .notar => [.notar (c.slot, c.hash)]
    | .ff => [.fastFinal (c.slot, c.hash)]
    | .final => [.final c.slot]
    | .nf => []
    | .skip => []
  | .block b par => [.parent b par]

/-- all operations the finality tracker received -/
def finOps (L : List LogItem) : List Finality.Op := L.flatMap LogItem.finOp

theorem finOps_append (A B : List LogItem) : finOps (A ++ B) = finOps A ++ finOps B := by
  simp [finOps, List.flatMap_append]

/-- `handle_finalization(finality_tracker.op(..))`: the finalization batch and the `prune` to the new watermark
    (nothing if the finality tracker panics) -/
def finPart (t : Finality.Tracker) (op : Finality.Op) : Finality.Tracker × List ParentReady.Op :=
  match Finality.step t op with
  | .ok t' ev => (t', [.fin ev, .prune t'.first])
  | .panic => (t, [])

/-- the mark `add_valid_cert` applies to the parent-ready tracker itself (after the finalization part) -/
def LogItem.marks : LogItem → List ParentReady.Op
  | .cert c =>
    match c.kind with
    | .notar => [.nf (c.slot, c.hash)]
    | .nf => [.nf (c.slot, c.hash)]
    | .skip => [.skip c.slot]
    | .ff => []
    | .final => []
  | .block _ _ => []

def finParts (t : Finality.Tracker) : List Finality.Op → Finality.Tracker × List ParentReady.Op
  | [] => (t, [])
  | op :: rest => ((finParts (finPart t op).1 rest).1, (finPart t op).2 ++ (finParts (finPart t op).1 rest).2)

/-- one log item: new finality tracker, operations on the parent-ready tracker (in the order of `add_valid_cert`:
    finalization batch and prune first, then the certificate's own mark) -/
def itemStep (t : Finality.Tracker) (it : LogItem) : Finality.Tracker × List ParentReady.Op :=
  ((finParts t it.finOp).1, (finParts t it.finOp).2 ++ it.marks)

def wireStep (acc : Finality.Tracker × List ParentReady.Op) (it : LogItem) : Finality.Tracker × List ParentReady.Op :=
  ((itemStep acc.1 it).1, acc.2 ++ (itemStep acc.1 it).2)

def wire (L : List LogItem) : Finality.Tracker × List ParentReady.Op := L.foldl wireStep (Finality.init, [])

/-- the finality tracker after the log (it stays where it is when an operation panics) -/
def finState (L : List LogItem) : Finality.Tracker := (wire L).1
/-- the operations the parent-ready tracker received -/
def prTrace (L : List LogItem) : List ParentReady.Op := (wire L).2

theorem wire_snoc (L : List LogItem) (it : LogItem) : wire (L ++ [it]) = wireStep (wire L) it := by
  unfold wire; rw [List.foldl_append]; rfl

theorem finState_snoc (L : List LogItem) (it : LogItem) : finState (L ++ [it]) = (itemStep (finState L) it).1 := by
  unfold finState; rw [wire_snoc]; rfl

theorem prTrace_snoc (L : List LogItem) (it : LogItem) :
    prTrace (L ++ [it]) = prTrace L ++ (itemStep (finState L) it).2 := by
  unfold prTrace finState; rw [wire_snoc]; rfl

/-- **The consistency premise on the history** (what consensus safety, C01, gives for the certificates and blocks a
    correct node can ever process): the safety premise of the finality tracker (C08: parents in earlier slots, one
    parent per block, one finalized block per slot, ...) and no skip certificate for a finalized slot. -/
structure Consistent (L : List LogItem) : Prop where
  safe : Finality.Safe (finOps L)
  skip_not_final : ∀ c, LogItem.cert c ∈ L → c.kind = .skip → ∀ h, ¬ Finality.Final (finOps L) (c.slot, h)

theorem finOps_sub {A B : List LogItem} (h : ∀ x, x ∈ A → x ∈ B) : Finality.Sub (finOps A) (finOps B) := by
  intro op hop
  unfold finOps at *
  rw [List.mem_flatMap] at *
  obtain ⟨x, hx, ho⟩ := hop
  exact ⟨x, h x hx, ho⟩

/-- the premise is inherited by every sub-log (in particular by every prefix) -/
theorem Consistent.sub {A B : List LogItem} (hc : Consistent B) (h : ∀ x, x ∈ A → x ∈ B) : Consistent A :=
  ⟨hc.safe.sub (finOps_sub h), fun c hm hk hh hf => hc.skip_not_final c (h _ hm) hk hh (hf.mono (finOps_sub h))⟩

theorem Consistent.prefix {A B : List LogItem} (hc : Consistent (A ++ B)) : Consistent A :=
  hc.sub (fun _ hx => List.mem_append_left _ hx)

/-! ### the ghost history of the parent-ready tracker when marks are at or above the root -/

open ParentReady in
theorem foldl_nfMark_nf_ge {bs : List (Nat × Nat)} {h : Hist} (hge : ∀ b ∈ bs, h.root ≤ b.1) (x : Nat × Nat) :
    x ∈ (bs.foldl Hist.nfMark h).nf ↔ x ∈ h.nf ∨ x ∈ bs := by
  induction bs generalizing h with
  | nil => simp
  | cons b bs ih =>
    have e : h.nfMark b = h.addNf b := by
      unfold Hist.nfMark; rw [if_neg (by have := hge b (List.mem_cons_self); omega)]
    rw [List.foldl_cons, e, ih (h := h.addNf b) (fun y hy => hge y (List.mem_cons_of_mem _ hy))]
    simp only [Hist.addNf, List.mem_cons]
    constructor
    · rintro ((a | a) | a)
      · exact Or.inr (Or.inl a)
      · exact Or.inl a
      · exact Or.inr (Or.inr a)
    · rintro (a | a | a)
      · exact Or.inl (Or.inr a)
      · exact Or.inl (Or.inl a)
      · exact Or.inr a

open ParentReady in
theorem foldl_skMark_sk_ge {ss : List Nat} {h : Hist} (hge : ∀ s ∈ ss, h.root ≤ s) (x : Nat) :
    x ∈ (ss.foldl Hist.skMark h).sk ↔ x ∈ h.sk ∨ x ∈ ss := by
  induction ss generalizing h with
  | nil => simp
  | cons b bs ih =>
    have e : h.skMark b = h.addSk b := by
      unfold Hist.skMark; rw [if_neg (by have := hge b (List.mem_cons_self); omega)]
    rw [List.foldl_cons, e, ih (h := h.addSk b) (fun y hy => hge y (List.mem_cons_of_mem _ hy))]
    simp only [Hist.addSk, List.mem_cons]
    constructor
    · rintro ((a | a) | a)
      · exact Or.inr (Or.inl a)
      · exact Or.inl a
      · exact Or.inr (Or.inr a)
    · rintro (a | a | a)
      · exact Or.inl (Or.inr a)
      · exact Or.inl (Or.inl a)
      · exact Or.inr a

open ParentReady in
theorem foldl_skMark_nf (ss : List Nat) (h : Hist) : (ss.foldl Hist.skMark h).nf = h.nf := by
  induction ss generalizing h with
  | nil => rfl
  | cons s ss ih =>
    rw [List.foldl_cons, ih]
    unfold Hist.skMark; split <;> rfl

open ParentReady in
/-- a finalization batch whose blocks and slots are all at or above the root: every mark is accepted -/
theorem finMark_ge {h : Hist} {ev : Finality.Event} (hF : ∀ b ∈ Finality.evF ev, h.root ≤ b.1)
    (hS : ∀ s ∈ ev.implSkipped, h.root ≤ s) :
    (∀ x, x ∈ (h.finMark ev).nf ↔ x ∈ h.nf ∨ x ∈ Finality.evF ev) ∧
    (∀ x, x ∈ (h.finMark ev).sk ↔ x ∈ h.sk ∨ x ∈ ev.implSkipped) := by
  unfold Hist.finMark
  constructor
  · intro x
    rw [foldl_skMark_nf]; exact foldl_nfMark_nf_ge hF x
  · intro x
    rw [foldl_skMark_sk_ge (by rw [foldl_nfMark_root]; exact hS), foldl_nfMark_sk]

open ParentReady in
theorem hist_append (tr ops : List Op) : hist (tr ++ ops) = ops.foldl Hist.step (hist tr) := by
  unfold hist; rw [List.foldl_append]

open ParentReady in
theorem pruneArgs_append (a b : List Op) : pruneArgs (a ++ b) = pruneArgs a ++ pruneArgs b := by
  unfold pruneArgs; rw [List.flatMap_append]

open ParentReady in
theorem skipArgs_append (a b : List Op) : skipArgs (a ++ b) = skipArgs a ++ skipArgs b := by
  unfold skipArgs; rw [List.flatMap_append]

open ParentReady in
theorem waitSlots_append (a b : List Op) : waitSlots (a ++ b) = waitSlots a ++ waitSlots b := by
  unfold waitSlots; rw [List.filterMap_append]

/-! ### the trace invariant, one parent-ready operation at a time

`NF` / `SK`: the certificate marks accepted so far (the part of the accepted history that does not come from
finalization events); `SC`: the slots with a skip certificate in the log. -/

open ParentReady in
structure TInv (t : Finality.Tracker) (fevs : List Finality.Event) (tr : List Op)
    (NF : Nat × Nat → Prop) (SK : Nat → Prop) (SC : Nat → Prop) : Prop where
  sorted : (pruneArgs tr).Pairwise (· ≤ ·)
  le_first : ∀ r ∈ pruneArgs tr, r ≤ t.first
  skips : ∀ s ∈ skipArgs tr, SC s ∨ s ∈ Finality.repS fevs
  nowait : waitSlots tr = []
  root : (hist tr).root = t.first
  nf : ∀ b, b ∈ (hist tr).nf ↔ b = (0, 0) ∨ NF b ∨ b ∈ Finality.repF fevs
  sk : ∀ s, s ∈ (hist tr).sk ↔ SK s ∨ s ∈ Finality.repS fevs

open ParentReady in
theorem TInv.init : TInv Finality.init [] [] (fun _ => False) (fun _ => False) (fun _ => False) := by
  refine ⟨List.Pairwise.nil, fun r hr => (by cases hr), fun s hs => (by cases hs), rfl, rfl, ?_, ?_⟩
  · intro b; simp [hist, Finality.repF]
  · intro s; simp [hist, Finality.repS]

open ParentReady in
theorem TInv.congr {t : Finality.Tracker} {fevs : List Finality.Event} {tr : List Op}
    {NF NF' : Nat × Nat → Prop} {SK SK' SC SC' : Nat → Prop} (i : TInv t fevs tr NF SK SC)
    (h1 : ∀ b, NF b ↔ NF' b) (h2 : ∀ s, SK s ↔ SK' s) (h3 : ∀ s, SC s → SC' s) : TInv t fevs tr NF' SK' SC' :=
  ⟨i.sorted, i.le_first, fun s hs => (i.skips s hs).imp (h3 s) id, i.nowait, i.root,
   fun b => by rw [i.nf, h1], fun s => by rw [i.sk, h2]⟩

open ParentReady in
/-- a finality operation, its finalization batch, the prune to the new watermark -/
theorem TInv.fin {t t' : Finality.Tracker} {fevs : List Finality.Event} {tr : List Op}
    {NF : Nat × Nat → Prop} {SK SC : Nat → Prop} (i : TInv t fevs tr NF SK SC) (hi : Finality.Inv t)
    {op : Finality.Op} {ev : Finality.Event} (hs : Finality.step t op = .ok t' ev) :
    TInv t' (fevs ++ [ev]) (tr ++ [.fin ev, .prune t'.first]) NF SK SC := by
  have hmono := (Finality.step_spec hi hs).first
  obtain ⟨gF, gS⟩ := fin_event_ge_first hs
  have hh : hist (tr ++ [.fin ev, .prune t'.first]) = ((hist tr).finMark ev).pruneTo t'.first := by
    rw [hist_append]; rfl
  obtain ⟨mF, mS⟩ := @finMark_ge (hist tr) ev (by rw [i.root]; exact gF) (by rw [i.root]; exact gS)
  refine ⟨?_, ?_, ?_, ?_, ?_, ?_, ?_⟩
  · rw [pruneArgs_append, List.pairwise_append]
    refine ⟨i.sorted, by simp [pruneArgs], ?_⟩
    intro a ha b hb
    have : b = t'.first := by simpa [pruneArgs] using hb
    have := i.le_first a ha
    omega
  · intro r hr
    rw [pruneArgs_append, List.mem_append] at hr
    rcases hr with hr | hr
    · have := i.le_first r hr; omega
    · have : r = t'.first := by simpa [pruneArgs] using hr
      omega
  · intro s hs'
    rw [skipArgs_append, List.mem_append] at hs'
    rw [Finality.repS_snoc, List.mem_append]
    rcases hs' with h1 | h1
    · exact (i.skips s h1).imp id Or.inl
    · right; right; simpa [skipArgs] using h1
  · rw [waitSlots_append, i.nowait]; rfl
  · rw [hh]; rfl
  · intro b
    rw [hh]
    show b ∈ ((hist tr).finMark ev).nf ↔ _
    rw [mF, i.nf, Finality.repF_snoc, List.mem_append]
    constructor
    · rintro ((a | a | a) | a)
      · exact Or.inl a
      · exact Or.inr (Or.inl a)
      · exact Or.inr (Or.inr (Or.inl a))
      · exact Or.inr (Or.inr (Or.inr a))
    · rintro (a | a | a | a)
      · exact Or.inl (Or.inl a)
      · exact Or.inl (Or.inr (Or.inl a))
      · exact Or.inl (Or.inr (Or.inr a))
      · exact Or.inr a
  · intro s
    rw [hh]
    show s ∈ ((hist tr).finMark ev).sk ↔ _
    rw [mS, i.sk, Finality.repS_snoc, List.mem_append]
    constructor
    · rintro ((a | a) | a)
      · exact Or.inl a
      · exact Or.inr (Or.inl a)
      · exact Or.inr (Or.inr a)
    · rintro (a | a | a)
      · exact Or.inl (Or.inl a)
      · exact Or.inl (Or.inr a)
      · exact Or.inr a

open ParentReady in
/-- the notar-fallback mark of a notarization / notar-fallback certificate -/
theorem TInv.nfMark {t : Finality.Tracker} {fevs : List Finality.Event} {tr : List Op}
    {NF : Nat × Nat → Prop} {SK SC : Nat → Prop} (i : TInv t fevs tr NF SK SC) (b : Nat × Nat) :
    TInv t fevs (tr ++ [.nf b]) (fun x => NF x ∨ (x = b ∧ t.first ≤ b.1)) SK SC := by
  have hh : hist (tr ++ [.nf b]) = (hist tr).nfMark b := by rw [hist_append]; rfl
  obtain ⟨a1, a2, _, _⟩ := nfMark_same (hist tr) b
  refine ⟨?_, ?_, ?_, ?_, ?_, ?_, ?_⟩
  · rw [pruneArgs_append]; simpa [pruneArgs] using i.sorted
  · intro r hr; rw [pruneArgs_append] at hr; exact i.le_first r (by simpa [pruneArgs] using hr)
  · intro s hs; rw [skipArgs_append] at hs; exact i.skips s (by simpa [skipArgs] using hs)
  · rw [waitSlots_append, i.nowait]; rfl
  · rw [hh, a1]; exact i.root
  · intro x
    rw [hh]
    unfold Hist.nfMark
    rw [i.root]
    split
    · rename_i hlt
      rw [i.nf]
      constructor
      · rintro (a | a | a)
        · exact Or.inl a
        · exact Or.inr (Or.inl (Or.inl a))
        · exact Or.inr (Or.inr a)
      · rintro (a | (a | ⟨_, a⟩) | a)
        · exact Or.inl a
        · exact Or.inr (Or.inl a)
        · omega
        · exact Or.inr (Or.inr a)
    · rename_i hge
      show x ∈ b :: (hist tr).nf ↔ _
      rw [List.mem_cons, i.nf]
      constructor
      · rintro (a | a | a | a)
        · exact Or.inr (Or.inl (Or.inr ⟨a, by omega⟩))
        · exact Or.inl a
        · exact Or.inr (Or.inl (Or.inl a))
        · exact Or.inr (Or.inr a)
      · rintro (a | (a | ⟨a, _⟩) | a)
        · exact Or.inr (Or.inl a)
        · exact Or.inr (Or.inr (Or.inl a))
        · exact Or.inl a
        · exact Or.inr (Or.inr (Or.inr a))
  · intro s; rw [hh, a2]; exact i.sk s

open ParentReady in
/-- the skip mark of a skip certificate -/
theorem TInv.skMark {t : Finality.Tracker} {fevs : List Finality.Event} {tr : List Op}
    {NF : Nat × Nat → Prop} {SK SC : Nat → Prop} (i : TInv t fevs tr NF SK SC) (ms : Nat) :
    TInv t fevs (tr ++ [.skip ms]) NF (fun x => SK x ∨ (x = ms ∧ t.first ≤ ms)) (fun x => SC x ∨ x = ms) := by
  have hh : hist (tr ++ [.skip ms]) = (hist tr).skMark ms := by rw [hist_append]; rfl
  obtain ⟨a1, _, _⟩ := skMark_same (hist tr) ms
  refine ⟨?_, ?_, ?_, ?_, ?_, ?_, ?_⟩
  · rw [pruneArgs_append]; simpa [pruneArgs] using i.sorted
  · intro r hr; rw [pruneArgs_append] at hr; exact i.le_first r (by simpa [pruneArgs] using hr)
  · intro s hs
    rw [skipArgs_append, List.mem_append] at hs
    rcases hs with h1 | h1
    · exact (i.skips s h1).imp Or.inl id
    · left; right; simpa [skipArgs] using h1
  · rw [waitSlots_append, i.nowait]; rfl
  · rw [hh, a1]; exact i.root
  · intro x
    rw [hh]
    have : ((hist tr).skMark ms).nf = (hist tr).nf := by unfold Hist.skMark; split <;> rfl
    rw [this]; exact i.nf x
  · intro x
    rw [hh]
    unfold Hist.skMark
    rw [i.root]
    split
    · rename_i hlt
      rw [i.sk]
      constructor
      · rintro (a | a)
        · exact Or.inl (Or.inl a)
        · exact Or.inr a
      · rintro ((a | ⟨_, a⟩) | a)
        · exact Or.inl a
        · omega
        · exact Or.inr a
    · rename_i hge
      show x ∈ ms :: (hist tr).sk ↔ _
      rw [List.mem_cons, i.sk]
      constructor
      · rintro (a | a | a)
        · exact Or.inl (Or.inr ⟨a, by omega⟩)
        · exact Or.inl (Or.inl a)
        · exact Or.inr a
      · rintro ((a | ⟨a, _⟩) | a)
        · exact Or.inr (Or.inl a)
        · exact Or.inl a
        · exact Or.inr (Or.inr a)

/-! ### the trace invariant along the log -/

/-- a skip certificate for `s` is in the log -/
def SkipCertIn (L : List LogItem) (s : Nat) : Prop := ∃ c, LogItem.cert c ∈ L ∧ c.kind = .skip ∧ c.slot = s

/-- a notarization / notar-fallback certificate for `b` was added while `b`'s slot was at or above the watermark
    (`first_unpruned_slot` = root of the parent-ready tracker, *after* the finalization part of the same
    `add_valid_cert`): its notar-fallback mark was accepted -/
def NfCertAcc (L : List LogItem) (b : Nat × Nat) : Prop :=
  ∃ pre c, (pre ++ [LogItem.cert c]) <+: L ∧ (c.kind = .notar ∨ c.kind = .nf) ∧ (c.slot, c.hash) = b ∧
    (finState (pre ++ [LogItem.cert c])).first ≤ b.1

/-- a skip certificate for `s` was added while `s` was at or above the watermark: its skip mark was accepted -/
def SkCertAcc (L : List LogItem) (s : Nat) : Prop :=
  ∃ pre c, (pre ++ [LogItem.cert c]) <+: L ∧ c.kind = .skip ∧ c.slot = s ∧ (finState pre).first ≤ s

theorem snoc_inj {α : Type} {a b : List α} {x y : α} (h : a ++ [x] = b ++ [y]) : a = b ∧ x = y := by
  have := List.append_inj' h rfl
  exact ⟨this.1, by simpa using this.2⟩

theorem nfCertAcc_snoc (L : List LogItem) (it : LogItem) (b : Nat × Nat) :
    NfCertAcc (L ++ [it]) b ↔ NfCertAcc L b ∨
      ∃ c, it = .cert c ∧ (c.kind = .notar ∨ c.kind = .nf) ∧ (c.slot, c.hash) = b ∧ (finState (L ++ [it])).first ≤ b.1 := by
  unfold NfCertAcc
  constructor
  · rintro ⟨pre, c, hp, hk, hb, hf⟩
    rcases List.prefix_concat_iff.mp hp with e | hp'
    · obtain ⟨e1, e2⟩ := snoc_inj e
      subst e1; subst e2
      exact Or.inr ⟨c, rfl, hk, hb, hf⟩
    · exact Or.inl ⟨pre, c, hp', hk, hb, hf⟩
  · rintro (⟨pre, c, hp, hk, hb, hf⟩ | ⟨c, e, hk, hb, hf⟩)
    · exact ⟨pre, c, hp.trans (List.prefix_append _ _), hk, hb, hf⟩
    · subst e; exact ⟨L, c, List.prefix_refl _, hk, hb, hf⟩

theorem skCertAcc_snoc (L : List LogItem) (it : LogItem) (s : Nat) :
    SkCertAcc (L ++ [it]) s ↔ SkCertAcc L s ∨
      ∃ c, it = .cert c ∧ c.kind = .skip ∧ c.slot = s ∧ (finState L).first ≤ s := by
  unfold SkCertAcc
  constructor
  · rintro ⟨pre, c, hp, hk, hb, hf⟩
    rcases List.prefix_concat_iff.mp hp with e | hp'
    · obtain ⟨e1, e2⟩ := snoc_inj e
      subst e1; subst e2
      exact Or.inr ⟨c, rfl, hk, hb, hf⟩
    · exact Or.inl ⟨pre, c, hp', hk, hb, hf⟩
  · rintro (⟨pre, c, hp, hk, hb, hf⟩ | ⟨c, e, hk, hb, hf⟩)
    · exact ⟨pre, c, hp.trans (List.prefix_append _ _), hk, hb, hf⟩
    · subst e; exact ⟨L, c, List.prefix_refl _, hk, hb, hf⟩

theorem skipCertIn_snoc (L : List LogItem) (it : LogItem) (s : Nat) :
    SkipCertIn (L ++ [it]) s ↔ SkipCertIn L s ∨ ∃ c, it = .cert c ∧ c.kind = .skip ∧ c.slot = s := by
  unfold SkipCertIn
  constructor
  · rintro ⟨c, hm, hk, hs⟩
    rcases List.mem_append.mp hm with h | h
    · exact Or.inl ⟨c, h, hk, hs⟩
    · exact Or.inr ⟨c, (List.mem_singleton.mp h).symm, hk, hs⟩
  · rintro (⟨c, hm, hk, hs⟩ | ⟨c, e, hk, hs⟩)
    · exact ⟨c, List.mem_append_left _ hm, hk, hs⟩
    · exact ⟨c, List.mem_append_right _ (by rw [e]; exact List.mem_singleton.mpr rfl), hk, hs⟩

open ParentReady in
/-- the finality operations of one log item -/
theorem TInv.fins {ops : List Finality.Op} {t t' : Finality.Tracker} {fevs evs : List Finality.Event} {tr : List Op}
    {NF : Nat × Nat → Prop} {SK SC : Nat → Prop} (i : TInv t fevs tr NF SK SC) (hi : Finality.Inv t)
    (hr : Finality.run t ops = some (t', evs)) :
    (finParts t ops).1 = t' ∧ TInv t' (fevs ++ evs) (tr ++ (finParts t ops).2) NF SK SC := by
  induction ops generalizing t fevs evs tr with
  | nil =>
    simp only [Finality.run, Option.some.injEq, Prod.mk.injEq] at hr
    obtain ⟨e1, e2⟩ := hr
    subst e1; subst e2
    exact ⟨rfl, by simpa [finParts] using i⟩
  | cons op rest ih =>
    simp only [Finality.run] at hr
    cases hs : Finality.step t op with
    | panic => rw [hs] at hr; cases hr
    | ok t1 ev =>
      rw [hs] at hr
      simp only at hr
      cases hr2 : Finality.run t1 rest with
      | none => rw [hr2] at hr; cases hr
      | some r =>
        obtain ⟨t2, evs2⟩ := r
        rw [hr2] at hr
        simp only [Option.some.injEq, Prod.mk.injEq] at hr
        obtain ⟨e1, e2⟩ := hr
        subst e1; subst e2
        have hfp : finPart t op = (t1, [.fin ev, .prune t1.first]) := by unfold finPart; rw [hs]
        have i1 := i.fin hi hs
        obtain ⟨g1, g2⟩ := ih i1 (Finality.step_spec hi hs).inv hr2
        simp only [finParts, hfp]
        refine ⟨g1, ?_⟩
        have : fevs ++ ev :: evs2 = (fevs ++ [ev]) ++ evs2 := by simp
        rw [this, ← List.append_assoc]
        exact g2

theorem finOp_snoc (L : List LogItem) (it : LogItem) : finOps (L ++ [it]) = finOps L ++ it.finOp := by
  rw [finOps_append]; simp [finOps]

open ParentReady in
/-- **Along every log whose finality operations are safe**: the finality tracker runs without panic to
    `finState L`, and the trace of the parent-ready tracker has monotone prune roots (= the watermarks), no waits,
    and its accepted history is: genesis, the accepted certificate marks, and everything the finality tracker
    reported. -/
theorem trace_inv (L : List LogItem) (hs : Finality.Safe (finOps L)) :
    ∃ fevs, Finality.run Finality.init (finOps L) = some (finState L, fevs) ∧
      TInv (finState L) fevs (prTrace L) (NfCertAcc L) (SkCertAcc L) (SkipCertIn L) := by
  induction L using ParentReady.snoc_induction with
  | nil =>
    refine ⟨[], rfl, TInv.init.congr ?_ ?_ ?_⟩
    · intro b; constructor
      · intro h; cases h
      · rintro ⟨pre, c, hp, _⟩
        have := List.IsPrefix.length_le hp
        simp at this
    · intro b; constructor
      · intro h; cases h
      · rintro ⟨pre, c, hp, _⟩
        have := List.IsPrefix.length_le hp
        simp at this
    · intro s h; cases h
  | snoc L it ih =>
    have hsL : Finality.Safe (finOps L) := hs.sub (finOps_sub (fun _ hx => List.mem_append_left _ hx))
    obtain ⟨fevs, hrun, ti⟩ := ih hsL
    have hinv : Finality.Inv (finState L) := (Finality.run_inv Finality.inv_init hrun).1
    -- the finality part
    obtain ⟨t', evs', hrun', _⟩ := Finality.run_runInv hs (finOps (L ++ [it])) [] Finality.init [] Finality.runInv_init
      (by simpa using Finality.Sub.refl _)
    have hrun2 := hrun'
    rw [finOp_snoc, fin_run_append, hrun] at hrun2
    simp only at hrun2
    cases hr : Finality.run (finState L) it.finOp with
    | none => rw [hr] at hrun2; cases hrun2
    | some r =>
      obtain ⟨t1, evs⟩ := r
      rw [hr] at hrun2
      simp only [Option.some.injEq, Prod.mk.injEq] at hrun2
      obtain ⟨e1, e2⟩ := hrun2
      obtain ⟨g1, g2⟩ := ti.fins hinv hr
      have hfs : finState (L ++ [it]) = t1 := by rw [finState_snoc]; exact g1
      refine ⟨fevs ++ evs, by rw [hrun', hfs, ← e1, e2], ?_⟩
      rw [prTrace_snoc, hfs]
      unfold itemStep
      simp only
      rw [← List.append_assoc]
      -- the certificate's own mark
      cases it with
      | block b par =>
        simp only [LogItem.marks, List.append_nil]
        refine g2.congr ?_ ?_ ?_
        · intro x; rw [nfCertAcc_snoc]; simp
        · intro x; rw [skCertAcc_snoc]; simp
        · intro x hx; rw [skipCertIn_snoc]; exact Or.inl hx
      | cert c =>
        cases hk : c.kind with
        | notar =>
          simp only [LogItem.marks, hk]
          refine (g2.nfMark (c.slot, c.hash)).congr ?_ ?_ ?_
          · intro x; rw [nfCertAcc_snoc, hfs]
            constructor
            · rintro (a | ⟨a1, a2⟩)
              · exact Or.inl a
              · exact Or.inr ⟨c, rfl, Or.inl hk, a1.symm, by rw [a1]; exact a2⟩
            · rintro (a | ⟨c', e, _, a1, a2⟩)
              · exact Or.inl a
              · cases e; exact Or.inr ⟨a1.symm, by rw [← a1] at a2; exact a2⟩
          · intro x; rw [skCertAcc_snoc]
            constructor
            · exact Or.inl
            · rintro (a | ⟨c', e, k, _⟩)
              · exact a
              · cases e; rw [hk] at k; cases k
          · intro x hx; rw [skipCertIn_snoc]; exact Or.inl hx
        | nf =>
          simp only [LogItem.marks, hk]
          refine (g2.nfMark (c.slot, c.hash)).congr ?_ ?_ ?_
          · intro x; rw [nfCertAcc_snoc, hfs]
            constructor
            · rintro (a | ⟨a1, a2⟩)
              · exact Or.inl a
              · exact Or.inr ⟨c, rfl, Or.inr hk, a1.symm, by rw [a1]; exact a2⟩
            · rintro (a | ⟨c', e, _, a1, a2⟩)
              · exact Or.inl a
              · cases e; exact Or.inr ⟨a1.symm, by rw [← a1] at a2; exact a2⟩
          · intro x; rw [skCertAcc_snoc]
            constructor
            · exact Or.inl
            · rintro (a | ⟨c', e, k, _⟩)
              · exact a
              · cases e; rw [hk] at k; cases k
          · intro x hx; rw [skipCertIn_snoc]; exact Or.inl hx
        | skip =>
          have hfo : (LogItem.cert c).finOp = [] := by simp [LogItem.finOp, hk]
          have ht1 : t1 = finState L := by
            rw [hfo] at g1; exact g1.symm
          simp only [LogItem.marks, hk]
          refine (g2.skMark c.slot).congr ?_ ?_ ?_
          · intro x; rw [nfCertAcc_snoc]
            constructor
            · exact Or.inl
            · rintro (a | ⟨c', e, k, _⟩)
              · exact a
              · cases e; rw [hk] at k; rcases k with k | k <;> cases k
          · intro x; rw [skCertAcc_snoc, ht1]
            constructor
            · rintro (a | ⟨a1, a2⟩)
              · exact Or.inl a
              · exact Or.inr ⟨c, rfl, hk, a1.symm, by rw [a1]; exact a2⟩
            · rintro (a | ⟨c', e, _, a1, a2⟩)
              · exact Or.inl a
              · cases e; exact Or.inr ⟨a1.symm, by rw [← a1] at a2; exact a2⟩
          · intro x hx; rw [skipCertIn_snoc]
            rcases hx with a | a
            · exact Or.inl a
            · exact Or.inr ⟨c, rfl, hk, a.symm⟩
        | ff =>
          simp only [LogItem.marks, hk, List.append_nil]
          refine g2.congr ?_ ?_ ?_
          · intro x; rw [nfCertAcc_snoc]
            constructor
            · exact Or.inl
            · rintro (a | ⟨c', e, k, _⟩)
              · exact a
              · cases e; rw [hk] at k; rcases k with k | k <;> cases k
          · intro x; rw [skCertAcc_snoc]
            constructor
            · exact Or.inl
            · rintro (a | ⟨c', e, k, _⟩)
              · exact a
              · cases e; rw [hk] at k; cases k
          · intro x hx; rw [skipCertIn_snoc]; exact Or.inl hx
        | final =>
          simp only [LogItem.marks, hk, List.append_nil]
          refine g2.congr ?_ ?_ ?_
          · intro x; rw [nfCertAcc_snoc]
            constructor
            · exact Or.inl
            · rintro (a | ⟨c', e, k, _⟩)
              · exact a
              · cases e; rw [hk] at k; rcases k with k | k <;> cases k
          · intro x; rw [skCertAcc_snoc]
            constructor
            · exact Or.inl
            · rintro (a | ⟨c', e, k, _⟩)
              · exact a
              · cases e; rw [hk] at k; cases k
          · intro x hx; rw [skipCertIn_snoc]; exact Or.inl hx

end AgModel.Pool
