import AgModel.Spec.Cluster
/-!
# `Valid` is decidable

So that concrete runs (non-vacuity examples, witnesses of findings) can be checked by `decide`.
-/
namespace AgModel.Cluster
open AgModel AgModel.Node AgModel.NodePanic AgModel.Pool

def isNotarFor (sl h : Nat) : Votor.Item → Bool
  | .out (.notar a b _ _) => a == sl && b == h
  | _ => false

theorem any_isNotarFor (L : List Votor.Item) (sl h : Nat) :
    L.any (isNotarFor sl h) = true ↔ ∃ ps ph, Votor.Item.out (.notar sl h ps ph) ∈ L := by
  rw [List.any_eq_true]
  constructor
  · rintro ⟨x, hx, hp⟩
    cases x with
    | ev e => simp [isNotarFor] at hp
    | out o =>
      cases o with
      | notar a b ps ph =>
        simp only [isNotarFor, Bool.and_eq_true, beq_iff_eq] at hp
        obtain ⟨rfl, rfl⟩ := hp
        exact ⟨ps, ph, hx⟩
      | _ => simp [isNotarFor] at hp
  · rintro ⟨ps, ph, hm⟩
    exact ⟨_, hm, by simp [isNotarFor]⟩

instance (c : Cfg) (s : State) (j sl h : Nat) : Decidable ((sigOf c s).notar j sl h) :=
  decidable_of_iff (c.correct j = true → (s j).votor.log.any (isNotarFor sl h) = true)
    ⟨fun a hc => (any_isNotarFor _ _ _).mp (a hc), fun a hc => (any_isNotarFor _ _ _).mpr (a hc)⟩

instance (c : Cfg) (s : State) (j sl h : Nat) : Decidable ((sigOf c s).nf j sl h) := by
  unfold sigOf; dsimp only; infer_instance
instance (c : Cfg) (s : State) (j sl : Nat) : Decidable ((sigOf c s).skip j sl) := by
  unfold sigOf; dsimp only; infer_instance
instance (c : Cfg) (s : State) (j sl : Nat) : Decidable ((sigOf c s).sf j sl) := by
  unfold sigOf; dsimp only; infer_instance
instance (c : Cfg) (s : State) (j sl : Nat) : Decidable ((sigOf c s).fin j sl) := by
  unfold sigOf; dsimp only; infer_instance

instance (c : Cfg) (s : State) (v : Vote) : Decidable ((sigOf c s).holds v) := by
  unfold SigLog.holds
  cases v.kind <;> dsimp only <;> infer_instance

instance (c : Cfg) (s : State) (x : Cert) (j : Nat) : Decidable (sig1Of (sigOf c s) x j) := by
  unfold sig1Of
  cases x.kind <;> dsimp only <;> infer_instance

instance (c : Cfg) (s : State) (x : Cert) (j : Nat) : Decidable (sig2Of (sigOf c s) x j) := by
  unfold sig2Of
  cases x.kind <;> dsimp only <;> infer_instance

instance (c : Cfg) (s : State) (e : Epoch) (x : Cert) : Decidable (CertBacked (sigOf c s) e x) :=
  decidable_of_iff (threshold e x.kind (certStake e x) = true ∧ (∀ j ∈ x.sig1, sig1Of (sigOf c s) x j) ∧
      (∀ j ∈ x.sig2, sig2Of (sigOf c s) x j))
    ⟨fun ⟨a, b, d⟩ => ⟨a, b, d⟩, fun h => ⟨h.thr, h.s1, h.s2⟩⟩

instance (c : Cfg) (s : State) (ev : Ev) : Decidable (EvOk c s ev) := by
  unfold EvOk
  cases ev.2 <;> simp only [NodeOk] <;> infer_instance

instance decValid (c : Cfg) : ∀ (s : State) (evs : List Ev), Decidable (Valid c s evs)
  | _, [] => isTrue trivial
  | s, ev :: evs =>
    have := decValid c (step s ev) evs
    by unfold Valid; infer_instance

end AgModel.Cluster
