import AgModel.Proofs.NodeFallback
import AgModel.Proofs.PoolWiring
/-!
# C01 cluster refinement, pool part 1: everything a pool stores is *signed*

`SigLog` abstracts "which validator has signed which vote" (for a correct validator: what its own Votor broadcast; for a
Byzantine one: anything). Relative to a `SigLog S` that contains every vote delivered to the pool and backs every
certificate delivered to it:

* `QV S st`  — every vote stored in a slot state is signed (`S`);
* `CertBacked S e c` — every signer listed in a certificate signed the vote the certificate type binds that aggregate to,
  and the *distinct* stake of the listed signers meets the type's threshold (what `ValidatedCert::try_new` checks, C09
  `cert_admitted_iff`);
* `QC S e st` — every certificate held by a slot state is of the kind and slot of the field that holds it, and backed.

This file: definitions, monotonicity in `S`, and "a certificate created from stored votes (`Justified`, C03) is backed".
-/
namespace AgModel.Pool

/-- who signed what: signer, slot, (hash) -/
structure SigLog where
  notar : Nat → Nat → Nat → Prop
  nf : Nat → Nat → Nat → Prop
  skip : Nat → Nat → Prop
  sf : Nat → Nat → Prop
  fin : Nat → Nat → Prop

structure SigLog.le (S S' : SigLog) : Prop where
  notar : ∀ j s h, S.notar j s h → S'.notar j s h
  nf : ∀ j s h, S.nf j s h → S'.nf j s h
  skip : ∀ j s, S.skip j s → S'.skip j s
  sf : ∀ j s, S.sf j s → S'.sf j s
  fin : ∀ j s, S.fin j s → S'.fin j s

theorem SigLog.le.refl (S : SigLog) : S.le S := ⟨fun _ _ _ h => h, fun _ _ _ h => h, fun _ _ h => h, fun _ _ h => h, fun _ _ h => h⟩

theorem SigLog.le.trans {A B C : SigLog} (h1 : A.le B) (h2 : B.le C) : A.le C :=
  ⟨fun j s h x => h2.notar j s h (h1.notar j s h x), fun j s h x => h2.nf j s h (h1.nf j s h x),
   fun j s x => h2.skip j s (h1.skip j s x), fun j s x => h2.sf j s (h1.sf j s x), fun j s x => h2.fin j s (h1.fin j s x)⟩

/-- the vote `v` is signed by the validator it names -/
def SigLog.holds (S : SigLog) (v : Vote) : Prop :=
  match v.kind with
  | .notar => S.notar v.signer v.slot v.hash
  | .nf => S.nf v.signer v.slot v.hash
  | .skip => S.skip v.signer v.slot
  | .sf => S.sf v.signer v.slot
  | .final => S.fin v.signer v.slot

/-- every stored vote is signed -/
structure QV (S : SigLog) (st : SlotState) : Prop where
  notar : ∀ j h, (j, h) ∈ st.vNotar → S.notar j st.slot h
  nf : ∀ j h, (j, h) ∈ st.vNf → S.nf j st.slot h
  skip : ∀ j, j ∈ st.vSkip → S.skip j st.slot
  sf : ∀ j, j ∈ st.vSf → S.sf j st.slot
  fin : ∀ j, j ∈ st.vFin → S.fin j st.slot

theorem QV.mono {S S' : SigLog} {st : SlotState} (h : QV S st) (hl : S.le S') : QV S' st :=
  ⟨fun j x a => hl.notar _ _ _ (h.notar j x a), fun j x a => hl.nf _ _ _ (h.nf j x a), fun j a => hl.skip _ _ (h.skip j a),
   fun j a => hl.sf _ _ (h.sf j a), fun j a => hl.fin _ _ (h.fin j a)⟩

theorem QV.init (S : SigLog) (s : Nat) : QV S { slot := s } := by
  constructor <;> intros <;> simp_all

theorem QV.of_sameVotes {S : SigLog} {a b : SlotState} (h : QV S a) (s : SameVotes a b) : QV S b := by
  constructor
  · intro j x hx; rw [← s.slot]; exact h.notar j x (by rw [s.notar]; exact hx)
  · intro j x hx; rw [← s.slot]; exact h.nf j x (by rw [s.nf]; exact hx)
  · intro j hx; rw [← s.slot]; exact h.skip j (by rw [s.skip]; exact hx)
  · intro j hx; rw [← s.slot]; exact h.sf j (by rw [s.sf]; exact hx)
  · intro j hx; rw [← s.slot]; exact h.fin j (by rw [s.fin]; exact hx)

/-- the *distinct* stake of the validators listed in either aggregate of a certificate -/
def certStake (e : Epoch) (c : Cert) : Nat :=
  stakeOf e ((List.range e.n).filter (fun j => c.sig1.contains j || c.sig2.contains j))

/-- what the signers of the first / second aggregate signed, by certificate type -/
def sig1Of (S : SigLog) (c : Cert) (j : Nat) : Prop :=
  match c.kind with
  | .notar | .nf | .ff => S.notar j c.slot c.hash
  | .skip => S.skip j c.slot
  | .final => S.fin j c.slot

def sig2Of (S : SigLog) (c : Cert) (j : Nat) : Prop :=
  match c.kind with
  | .notar | .ff => S.notar j c.slot c.hash
  | .nf => S.nf j c.slot c.hash
  | .skip => S.sf j c.slot
  | .final => S.fin j c.slot

/-- the certificate is backed: threshold on the distinct stake, every listed signer signed the right vote -/
structure CertBacked (S : SigLog) (e : Epoch) (c : Cert) : Prop where
  thr : threshold e c.kind (certStake e c) = true
  s1 : ∀ j ∈ c.sig1, sig1Of S c j
  s2 : ∀ j ∈ c.sig2, sig2Of S c j

theorem sig1Of.mono {S S' : SigLog} (hl : S.le S') {c : Cert} {j : Nat} (h : sig1Of S c j) : sig1Of S' c j := by
  unfold sig1Of at *
  cases hk : c.kind <;> simp only [hk] at h ⊢
  · exact hl.notar _ _ _ h
  · exact hl.notar _ _ _ h
  · exact hl.skip _ _ h
  · exact hl.notar _ _ _ h
  · exact hl.fin _ _ h

theorem sig2Of.mono {S S' : SigLog} (hl : S.le S') {c : Cert} {j : Nat} (h : sig2Of S c j) : sig2Of S' c j := by
  unfold sig2Of at *
  cases hk : c.kind <;> simp only [hk] at h ⊢
  · exact hl.notar _ _ _ h
  · exact hl.nf _ _ _ h
  · exact hl.sf _ _ h
  · exact hl.notar _ _ _ h
  · exact hl.fin _ _ h

theorem CertBacked.mono {S S' : SigLog} {e : Epoch} {c : Cert} (h : CertBacked S e c) (hl : S.le S') : CertBacked S' e c :=
  ⟨h.thr, fun j hj => (h.s1 j hj).mono hl, fun j hj => (h.s2 j hj).mono hl⟩

/-- held certificates: right kind, right slot, backed -/
structure QC (S : SigLog) (e : Epoch) (st : SlotState) : Prop where
  notar : ∀ c, st.cNotar = some c → c.kind = .notar ∧ c.slot = st.slot ∧ CertBacked S e c
  nf : ∀ c, c ∈ st.cNf → c.kind = .nf ∧ c.slot = st.slot ∧ CertBacked S e c
  skip : ∀ c, st.cSkip = some c → c.kind = .skip ∧ c.slot = st.slot ∧ CertBacked S e c
  ff : ∀ c, st.cFf = some c → c.kind = .ff ∧ c.slot = st.slot ∧ CertBacked S e c
  fin : ∀ c, st.cFin = some c → c.kind = .final ∧ c.slot = st.slot ∧ CertBacked S e c

theorem QC.mono {S S' : SigLog} {e : Epoch} {st : SlotState} (h : QC S e st) (hl : S.le S') : QC S' e st :=
  ⟨fun c a => ⟨(h.notar c a).1, (h.notar c a).2.1, (h.notar c a).2.2.mono hl⟩,
   fun c a => ⟨(h.nf c a).1, (h.nf c a).2.1, (h.nf c a).2.2.mono hl⟩,
   fun c a => ⟨(h.skip c a).1, (h.skip c a).2.1, (h.skip c a).2.2.mono hl⟩,
   fun c a => ⟨(h.ff c a).1, (h.ff c a).2.1, (h.ff c a).2.2.mono hl⟩,
   fun c a => ⟨(h.fin c a).1, (h.fin c a).2.1, (h.fin c a).2.2.mono hl⟩⟩

theorem QC.init (S : SigLog) (e : Epoch) (s : Nat) : QC S e { slot := s } := by
  constructor <;> intros <;> simp_all

/-- same slot and same certificates -/
theorem QC.of_eq {S : SigLog} {e : Epoch} {a b : SlotState} (h : QC S e a) (hs : b.slot = a.slot) (h1 : b.cNotar = a.cNotar)
    (h2 : b.cNf = a.cNf) (h3 : b.cSkip = a.cSkip) (h4 : b.cFf = a.cFf) (h5 : b.cFin = a.cFin) : QC S e b := by
  constructor
  · intro c hc; rw [hs]; exact h.notar c (by rw [← h1]; exact hc)
  · intro c hc; rw [hs]; exact h.nf c (by rw [← h2]; exact hc)
  · intro c hc; rw [hs]; exact h.skip c (by rw [← h3]; exact hc)
  · intro c hc; rw [hs]; exact h.ff c (by rw [← h4]; exact hc)
  · intro c hc; rw [hs]; exact h.fin c (by rw [← h5]; exact hc)

theorem QC.of_coreEq {S : SigLog} {e : Epoch} {a b : SlotState} (h : QC S e a) (c : CoreEq a b) : QC S e b :=
  h.of_eq (congrArg SlotState.slot c.eq.symm : b.core.slot = a.core.slot)
    (congrArg SlotState.cNotar c.eq.symm : b.core.cNotar = a.core.cNotar)
    (congrArg SlotState.cNf c.eq.symm : b.core.cNf = a.core.cNf)
    (congrArg SlotState.cSkip c.eq.symm : b.core.cSkip = a.core.cSkip)
    (congrArg SlotState.cFf c.eq.symm : b.core.cFf = a.core.cFf)
    (congrArg SlotState.cFin c.eq.symm : b.core.cFin = a.core.cFin)

/-- storing a backed certificate of the slot -/
theorem QC.addCert {S : SigLog} {e : Epoch} {st : SlotState} (h : QC S e st) (c : Cert) (hs : c.slot = st.slot)
    (hb : CertBacked S e c) : QC S e (st.addCert c) := by
  unfold SlotState.addCert
  cases hk : c.kind <;> dsimp only
  · refine ⟨?_, h.nf, h.skip, h.ff, h.fin⟩
    intro c' hc'; simp only [Option.some.injEq] at hc'; subst hc'; exact ⟨hk, hs, hb⟩
  · split
    · exact h
    · refine ⟨h.notar, ?_, h.skip, h.ff, h.fin⟩
      intro c' hc'
      rcases List.mem_append.mp hc' with hc' | hc'
      · exact h.nf c' hc'
      · simp only [List.mem_singleton] at hc'; subst hc'; exact ⟨hk, hs, hb⟩
  · refine ⟨h.notar, h.nf, ?_, h.ff, h.fin⟩
    intro c' hc'; simp only [Option.some.injEq] at hc'; subst hc'; exact ⟨hk, hs, hb⟩
  · refine ⟨h.notar, h.nf, h.skip, ?_, h.fin⟩
    intro c' hc'; simp only [Option.some.injEq] at hc'; subst hc'; exact ⟨hk, hs, hb⟩
  · refine ⟨h.notar, h.nf, h.skip, h.ff, ?_⟩
    intro c' hc'; simp only [Option.some.injEq] at hc'; subst hc'; exact ⟨hk, hs, hb⟩

/-! ### created certificates are backed -/

theorem stakeOf_filter_or (e : Epoch) (l : List Nat) (p q : Nat → Bool) (hd : ∀ x ∈ l, ¬ (p x = true ∧ q x = true)) :
    stakeOf e (l.filter (fun x => p x || q x)) = stakeOf e (l.filter p) + stakeOf e (l.filter q) := by
  induction l with
  | nil => rfl
  | cons a t ih =>
    have ih' := ih (fun x hx => hd x (List.mem_cons_of_mem _ hx))
    have ha := hd a (by simp)
    unfold stakeOf at *
    cases hp : p a <;> cases hq : q a
    · simp [List.filter, hp, hq]; exact ih'
    · simp [List.filter, hp, hq]; omega
    · simp [List.filter, hp, hq]; omega
    · exact absurd ⟨hp, hq⟩ ha

theorem filter_contains_filter_range (n : Nat) (p : Nat → Bool) :
    (List.range n).filter (fun j => ((List.range n).filter p).contains j) = (List.range n).filter p := by
  apply List.filter_congr
  intro j hj
  rw [List.contains_eq_mem]
  by_cases hp : p j = true
  · simp [hp, List.mem_range.mp hj]
  · simp [hp]

theorem certStake_single (e : Epoch) (c : Cert) (p : Nat → Bool) (h1 : c.sig1 = (List.range e.n).filter p) (h2 : c.sig2 = []) :
    certStake e c = stakeOf e c.sig1 := by
  unfold certStake
  rw [h2]
  have : (fun j => c.sig1.contains j || ([] : List Nat).contains j) = (fun j => c.sig1.contains j) := by
    funext j; simp
  rw [this, h1, filter_contains_filter_range]

theorem certStake_double (e : Epoch) (c : Cert) (p q : Nat → Bool) (h1 : c.sig1 = (List.range e.n).filter p)
    (h2 : c.sig2 = (List.range e.n).filter q) (hd : ∀ x ∈ c.sig1, x ∉ c.sig2) :
    certStake e c = stakeOf e c.sig1 + stakeOf e c.sig2 := by
  unfold certStake
  rw [stakeOf_filter_or]
  · rw [h1, h2, filter_contains_filter_range, filter_contains_filter_range]
  · intro x _ ⟨a, b⟩
    rw [List.contains_eq_mem] at a b
    exact hd x (by simpa using a) (by simpa using b)

theorem mem_of_lookup_some {l : List (Nat × Nat)} {k x : Nat} (h : l.lookup k = some x) : (k, x) ∈ l := by
  induction l with
  | nil => simp at h
  | cons a t ih =>
    obtain ⟨a1, a2⟩ := a
    rw [List.lookup_cons] at h
    split at h
    · rename_i heq
      have : k = a1 := by simpa using heq
      simp only [Option.some.injEq] at h
      subst this; subst h; simp
    · exact List.mem_cons_of_mem _ (ih h)

theorem mem_notarVoters' {s : SlotState} {n h x : Nat} (hx : x ∈ s.notarVoters n h) : (x, h) ∈ s.vNotar := by
  have : s.vNotar.lookup x = some h := by simpa [SlotState.notarVoters] using (List.mem_filter.mp hx).2
  exact mem_of_lookup_some this

theorem mem_nfVoters' {s : SlotState} {n h x : Nat} (hx : x ∈ s.nfVoters n h) : (x, h) ∈ s.vNf := by
  simpa [SlotState.nfVoters] using (List.mem_filter.mp hx).2

/-- **A certificate created from the stored votes of a slot state whose votes are signed is backed.** -/
theorem CertBacked.of_justified {S : SigLog} {e : Epoch} {s : SlotState} {c : Cert} (hq : QV S s) (j : Justified e s c) :
    CertBacked S e c := by
  obtain ⟨hsl, j⟩ := j
  cases hk : c.kind <;> simp only [hk] at j
  · obtain ⟨h1, h2, h3, h4⟩ := j
    refine ⟨?_, ?_, by rw [h2]; intro x hx; cases hx⟩
    · rw [certStake_single e c _ h1 h2, ← h3]; simpa [threshold, hk] using h4
    · intro x hx
      rw [h1] at hx
      simp only [sig1Of, hk, hsl]
      exact hq.notar x c.hash (mem_notarVoters' hx)
  · obtain ⟨h1, h2, h3, h4, h5⟩ := j
    refine ⟨?_, ?_, ?_⟩
    · rw [certStake_double e c _ _ h1 h2 h3, ← h4]; simpa [threshold, hk] using h5
    · intro x hx
      rw [h1] at hx
      simp only [sig1Of, hk, hsl]
      exact hq.notar x c.hash (mem_notarVoters' hx)
    · intro x hx
      rw [h2] at hx
      simp only [sig2Of, hk, hsl]
      exact hq.nf x c.hash (mem_nfVoters' hx)
  · obtain ⟨h1, h2, h3, h4, h5⟩ := j
    refine ⟨?_, ?_, ?_⟩
    · rw [certStake_double e c _ _ h1 h2 h3, ← h4]; simpa [threshold, hk] using h5
    · intro x hx
      rw [h1] at hx
      simp only [sig1Of, hk, hsl]
      exact hq.skip x (by simpa [SlotState.skipVoters] using (List.mem_filter.mp hx).2)
    · intro x hx
      rw [h2] at hx
      simp only [sig2Of, hk, hsl]
      exact hq.sf x (by simpa [SlotState.sfVoters] using (List.mem_filter.mp hx).2)
  · obtain ⟨h1, h2, h3, h4⟩ := j
    refine ⟨?_, ?_, by rw [h2]; intro x hx; cases hx⟩
    · rw [certStake_single e c _ h1 h2, ← h3]; simpa [threshold, hk] using h4
    · intro x hx
      rw [h1] at hx
      simp only [sig1Of, hk, hsl]
      exact hq.notar x c.hash (mem_notarVoters' hx)
  · obtain ⟨h1, h2, h3, h4⟩ := j
    refine ⟨?_, ?_, by rw [h2]; intro x hx; cases hx⟩
    · rw [certStake_single e c _ h1 h2, ← h3]; simpa [threshold, hk] using h4
    · intro x hx
      rw [h1] at hx
      simp only [sig1Of, hk, hsl]
      exact hq.fin x (by simpa [SlotState.finVoters] using (List.mem_filter.mp hx).2)

end AgModel.Pool
