import AgModel.Model.Finality
/-! Helper lemmas about `AgModel.Finality` (core Lean only). -/
namespace AgModel.Finality

/-- "the map has a decided status at this slot". -/
def Dec (o : Option Status) : Prop := ∃ x, o = some x ∧ x.decided = true

theorem not_dec_none : ¬ Dec none := by
  intro ⟨x, h, _⟩; cases h

theorem dec_some {x : Status} : Dec (some x) ↔ x.decided = true := by
  constructor
  · intro ⟨y, h, hd⟩; cases h; exact hd
  · intro h; exact ⟨x, rfl, h⟩

/-- How one status map evolves into another inside `[lo, hi)`: untouched, or an undecided entry
    that became decided. -/
def Evolves (st st' : Nat → Option Status) (lo hi : Nat) : Prop :=
  ∀ s, st' s = st s ∨ (lo ≤ s ∧ s < hi ∧ Dec (st' s) ∧ ¬ Dec (st s))

theorem Evolves.refl (st : Nat → Option Status) (lo hi : Nat) : Evolves st st lo hi :=
  fun _ => Or.inl rfl

theorem Evolves.trans {a b c : Nat → Option Status} {lo hi : Nat}
    (h1 : Evolves a b lo hi) (h2 : Evolves b c lo hi) : Evolves a c lo hi := by
  intro s
  rcases h2 s with e2 | ⟨l2, u2, d2, n2⟩
  · rcases h1 s with e1 | ⟨l1, u1, d1, n1⟩
    · exact Or.inl (e2.trans e1)
    · exact Or.inr ⟨l1, u1, e2 ▸ d1, n1⟩
  · rcases h1 s with e1 | ⟨l1, u1, d1, n1⟩
    · exact Or.inr ⟨l2, u2, d2, e1 ▸ n2⟩
    · exact absurd d1 n2

theorem Evolves.mono {a b : Nat → Option Status} {lo hi lo' hi' : Nat}
    (h : Evolves a b lo hi) (hl : lo' ≤ lo) (hh : hi ≤ hi') : Evolves a b lo' hi' := by
  intro s
  rcases h s with e | ⟨l, u, d, n⟩
  · exact Or.inl e
  · exact Or.inr ⟨by omega, by omega, d, n⟩

theorem evolves_set {st : Nat → Option Status} {s lo hi : Nat} {v : Status}
    (hl : lo ≤ s) (hh : s < hi) (hv : v.decided = true) (hn : ¬ Dec (st s)) :
    Evolves st (setSt st s v) lo hi := by
  intro x
  unfold setSt
  by_cases hx : x = s
  · subst hx; simp only [if_true]; exact Or.inr ⟨hl, hh, ⟨v, rfl, hv⟩, hn⟩
  · simp only [hx, if_false]; exact Or.inl trivial

/-! ### the implicit-skip loop -/

theorem skipLoop_cont {st : Nat → Option Status} {acc : List Nat} {n slot : Nat}
    {st' : Nat → Option Status} {sk : List Nat}
    (h : skipLoop st acc n slot = .cont st' sk) : Evolves st st' slot (slot + n) := by
  induction n generalizing st acc slot with
  | zero => simp only [skipLoop] at h; cases h; exact Evolves.refl _ _ _
  | succ n ih =>
    simp only [skipLoop] at h
    split at h
    · cases h
    · rename_i hst
      have := ih h
      refine Evolves.trans (evolves_set (Nat.le_refl _) (by omega) rfl ?_) (this.mono (by omega) (by omega))
      rw [hst]; simp [dec_some, Status.decided]
    · rename_i hst
      have := ih h
      refine Evolves.trans (evolves_set (Nat.le_refl _) (by omega) rfl ?_) (this.mono (by omega) (by omega))
      rw [hst]; exact not_dec_none
    · cases h

theorem skipLoop_ret {st : Nat → Option Status} {acc : List Nat} {n slot : Nat}
    {st' : Nat → Option Status} {sk : List Nat}
    (h : skipLoop st acc n slot = .ret st' sk) : Evolves st st' slot (slot + n) := by
  induction n generalizing st acc slot with
  | zero => simp only [skipLoop] at h; cases h
  | succ n ih =>
    simp only [skipLoop] at h
    split at h
    · cases h; exact Evolves.refl _ _ _
    · rename_i hst
      have := ih h
      refine Evolves.trans (evolves_set (Nat.le_refl _) (by omega) rfl ?_) (this.mono (by omega) (by omega))
      rw [hst]; simp [dec_some, Status.decided]
    · rename_i hst
      have := ih h
      refine Evolves.trans (evolves_set (Nat.le_refl _) (by omega) rfl ?_) (this.mono (by omega) (by omega))
      rw [hst]; exact not_dec_none
    · cases h

/-! ### the ancestor walk -/

/-- What `handle_implicitly_finalized` may change: only statuses in `[first, src)`, and there only
    undecided → decided. -/
structure WalkSpec (t t' : Tracker) (src : Nat) : Prop where
  highest : t'.highest = t.highest
  first : t'.first = t.first
  parents : t'.parents = t.parents
  evolves : Evolves t.status t'.status t.first src

theorem walk_spec {f : Nat} {t : Tracker} {src : Nat} {blk : Nat × Nat} {ev : Event}
    {t' : Tracker} {ev' : Event} (h : walk f t src blk ev = some (t', ev')) : WalkSpec t t' src := by
  induction f generalizing t src blk ev with
  | zero => simp only [walk] at h; cases h
  | succ f ih =>
    simp only [walk] at h
    split at h
    · cases h
    split at h
    · cases h; exact ⟨rfl, rfl, rfl, Evolves.refl _ _ _⟩
    rename_i hlt hfirst
    have hlt : blk.1 < src := by omega
    have hfirst : t.first ≤ blk.1 := by omega
    split at h
    · cases h
    · rename_i st sk hloop
      cases h
      exact ⟨rfl, rfl, rfl, (skipLoop_ret hloop).mono (by omega) (by omega)⟩
    · rename_i st sk hloop
      have hev : Evolves t.status st t.first src := (skipLoop_cont hloop).mono (by omega) (by omega)
      have hgo : ∀ (hn : ¬ Dec (st blk.1)),
          (match t.parents blk with
            | some p => walk f { t with status := setSt st blk.1 (.implFinalized blk.2) } blk.1 p
                { finalized := ev.finalized, implFinalized := ev.implFinalized ++ [blk], implSkipped := sk }
            | none => some ({ t with status := setSt st blk.1 (.implFinalized blk.2) },
                { finalized := ev.finalized, implFinalized := ev.implFinalized ++ [blk], implSkipped := sk })) = some (t', ev') →
          WalkSpec t t' src := by
        intro hn hw
        have hset : Evolves st (setSt st blk.1 (.implFinalized blk.2)) t.first src :=
          evolves_set hfirst hlt rfl hn
        split at hw
        · have := ih hw
          exact ⟨this.highest, this.first, this.parents,
            (hev.trans hset).trans (this.evolves.mono (Nat.le_refl _) (by omega))⟩
        · cases hw; exact ⟨rfl, rfl, rfl, hev.trans hset⟩
      split at h
      · split at h
        · cases h; exact ⟨rfl, rfl, rfl, hev⟩
        · cases h
      · split at h
        · cases h; exact ⟨rfl, rfl, rfl, hev⟩
        · cases h
      · cases h
      · rename_i hst
        exact hgo (by rw [hst]; simp [dec_some, Status.decided]) h
      · rename_i hst
        exact hgo (by rw [hst]; simp [dec_some, Status.decided]) h
      · rename_i hst
        exact hgo (by rw [hst]; exact not_dec_none) h

/-- the walk never touches `event.finalized` -/
theorem walk_finalized {f : Nat} {t : Tracker} {src : Nat} {blk : Nat × Nat} {ev : Event}
    {t' : Tracker} {ev' : Event} (h : walk f t src blk ev = some (t', ev')) :
    ev'.finalized = ev.finalized := by
  induction f generalizing t src blk ev with
  | zero => simp only [walk] at h; cases h
  | succ f ih =>
    simp only [walk] at h
    split at h
    · cases h
    split at h
    · cases h; rfl
    split at h
    · cases h
    · cases h; rfl
    · have hgo : ∀ {st : Nat → Option Status} {sk : List Nat},
          (match t.parents blk with
            | some p => walk f { t with status := setSt st blk.1 (.implFinalized blk.2) } blk.1 p
                { finalized := ev.finalized, implFinalized := ev.implFinalized ++ [blk], implSkipped := sk }
            | none => some ({ t with status := setSt st blk.1 (.implFinalized blk.2) },
                { finalized := ev.finalized, implFinalized := ev.implFinalized ++ [blk], implSkipped := sk })) = some (t', ev') →
          ev'.finalized = ev.finalized := by
        intro st sk hw
        split at hw
        · have := ih hw; exact this
        · cases hw; rfl
      split at h
      · split at h
        · cases h; rfl
        · cases h
      · split at h
        · cases h; rfl
        · cases h
      · cases h
      · exact hgo h
      · exact hgo h
      · exact hgo h

/-! ### `prune` -/

theorem advance_ge (st : Nat → Option Status) : ∀ f first, first ≤ advance st f first
  | 0, _ => Nat.le_refl _
  | f + 1, first => by
    simp only [advance]
    split
    · split
      · exact Nat.le_trans (Nat.le_succ _) (advance_ge st f (first + 1))
      · exact Nat.le_refl _
    · exact Nat.le_refl _

theorem advance_le (st : Nat → Option Status) : ∀ f first, advance st f first ≤ first + f
  | 0, _ => Nat.le_refl _
  | f + 1, first => by
    simp only [advance]
    split
    · split
      · have := advance_le st f (first + 1); omega
      · omega
    · omega

/-- every slot the watermark moves over is decided -/
theorem advance_decided (st : Nat → Option Status) :
    ∀ f first s, first < s → s ≤ advance st f first → Dec (st s)
  | 0, first, s, h1, h2 => by simp only [advance] at h2; omega
  | f + 1, first, s, h1, h2 => by
    simp only [advance] at h2
    split at h2
    · rename_i x hx
      split at h2
      · rename_i hd
        by_cases hs : s = first + 1
        · subst hs; exact ⟨x, hx, hd⟩
        · exact advance_decided st f (first + 1) s (by omega) h2
      · omega
    · omega

/-- the loop stops at an undecided slot unless the fuel ran out -/
theorem advance_stop (st : Nat → Option Status) :
    ∀ f first, advance st f first < first + f → ¬ Dec (st (advance st f first + 1))
  | 0, first, h => by simp only [advance] at h; omega
  | f + 1, first, h => by
    simp only [advance] at h ⊢
    split
    · rename_i x hx
      split
      · rename_i hd
        simp only [hx, hd, if_true] at h
        exact advance_stop st f (first + 1) (by omega)
      · rename_i hd
        rw [hx, dec_some]; exact hd
    · rename_i hx
      rw [hx]; exact not_dec_none

/-- `Finalized(h)` / `ImplicitlyFinalized(h)` ↦ `h`. -/
def finalHash : Option Status → Option Nat
  | some (.finalized h) => some h
  | some (.implFinalized h) => some h
  | _ => none

/-- decided entries stay decided, with the same block -/
def Stable (st st' : Nat → Option Status) : Prop :=
  ∀ s, Dec (st s) → Dec (st' s) ∧ finalHash (st' s) = finalHash (st s)

theorem Stable.refl (st : Nat → Option Status) : Stable st st := fun _ h => ⟨h, rfl⟩

theorem Stable.trans {a b c : Nat → Option Status} (h1 : Stable a b) (h2 : Stable b c) : Stable a c := by
  intro s hd
  have ⟨d1, e1⟩ := h1 s hd
  have ⟨d2, e2⟩ := h2 s d1
  exact ⟨d2, e2.trans e1⟩

theorem Evolves.stable {a b : Nat → Option Status} {lo hi : Nat} (h : Evolves a b lo hi) : Stable a b := by
  intro s hd
  rcases h s with e | ⟨_, _, _, n⟩
  · rw [e]; exact ⟨hd, rfl⟩
  · exact absurd hd n

theorem stable_set_undecided {st : Nat → Option Status} {s : Nat} {v : Status} (hn : ¬ Dec (st s)) :
    Stable st (setSt st s v) := by
  intro x hd
  unfold setSt
  by_cases hx : x = s
  · subst hx; exact absurd hd hn
  · simp only [hx, if_false]; exact ⟨hd, trivial⟩

/-- The tracker invariant with an explicit bound `hb` on the decided slots
    (`hb = highest` outside of `handle_finalized_block`). -/
structure InvB (t : Tracker) (hb : Nat) : Prop where
  first_le : t.first ≤ hb
  st_pruned : ∀ s, s < t.first → t.status s = none
  par_pruned : ∀ b, b.1 < t.first → t.parents b = none
  dec_le : ∀ s, Dec (t.status s) → s ≤ hb
  par_lt : ∀ b p, t.parents b = some p → p.1 < b.1

def Inv (t : Tracker) : Prop := InvB t t.highest

theorem inv_init : Inv init := by
  refine ⟨Nat.le_refl _, ?_, ?_, ?_, ?_⟩
  · intro s h; simp only [init] at h; omega
  · intro b _; rfl
  · intro s ⟨x, hx, hd⟩
    simp only [init] at hx ⊢
    split at hx
    · cases hx; simp [Status.decided] at hd
    · cases hx
  · intro b p h; simp [init] at h

theorem prune_inv {t : Tracker} (h : Inv t) : Inv (prune t) := by
  have hge := advance_ge t.status (t.highest - t.first) t.first
  have hle := advance_le t.status (t.highest - t.first) t.first
  have hfl := h.first_le
  refine ⟨?_, ?_, ?_, ?_, ?_⟩
  · show advance _ _ _ ≤ t.highest; omega
  · intro s hs
    show (if s < advance _ _ _ then none else t.status s) = none
    have : s < advance t.status (t.highest - t.first) t.first := hs
    simp only [this, if_true]
  · intro b hb
    show (if b.1 < advance _ _ _ then none else t.parents b) = none
    have : b.1 < advance t.status (t.highest - t.first) t.first := hb
    simp only [this, if_true]
  · intro s hd
    have hd' : Dec (if s < advance t.status (t.highest - t.first) t.first then none else t.status s) := hd
    split at hd'
    · exact absurd hd' not_dec_none
    · exact h.dec_le s hd'
  · intro b p hp
    have hp' : (if b.1 < advance t.status (t.highest - t.first) t.first then none else t.parents b) = some p := hp
    split at hp'
    · cases hp'
    · exact h.par_lt b p hp'

/-- `prune` moves the watermark only over decided slots ("nothing is discarded before the whole
    prefix below it is decided"). -/
theorem prune_only_decided (t : Tracker) (s : Nat) (h1 : t.first < s) (h2 : s ≤ (prune t).first) :
    Dec (t.status s) :=
  advance_decided t.status _ t.first s h1 h2

/-- ... and it moves it all the way ("catches up"): the slot after the new watermark is undecided. -/
theorem prune_catches_up {t : Tracker} (h : Inv t) : ¬ Dec (t.status ((prune t).first + 1)) := by
  have hle := advance_le t.status (t.highest - t.first) t.first
  have hfl := h.first_le
  by_cases hlt : advance t.status (t.highest - t.first) t.first < t.first + (t.highest - t.first)
  · exact advance_stop t.status _ t.first hlt
  · intro hd
    have := h.dec_le _ hd
    have : (prune t).first = advance t.status (t.highest - t.first) t.first := rfl
    omega

/-- what a successful operation guarantees -/
structure StepSpec (t t' : Tracker) : Prop where
  inv : Inv t'
  highest : t.highest ≤ t'.highest
  first : t.first ≤ t'.first
  stable : ∀ s, Dec (t.status s) → s < t'.first ∨ (Dec (t'.status s) ∧ finalHash (t'.status s) = finalHash (t.status s))
  parents_stable : ∀ b p, t.parents b = some p → b.1 < t'.first ∨ t'.parents b = some p

theorem StepSpec.refl {t : Tracker} (hi : Inv t) : StepSpec t t :=
  ⟨hi, Nat.le_refl _, Nat.le_refl _, fun _ hd => Or.inr ⟨hd, rfl⟩, fun _ _ hp => Or.inr hp⟩

/-- the state between the mutation and the final `prune()` of an operation -/
structure MidSpec (t t1 : Tracker) : Prop where
  inv : Inv t1
  highest : t.highest ≤ t1.highest
  first : t1.first = t.first
  stable : Stable t.status t1.status
  parents_stable : ∀ b p, t.parents b = some p → t1.parents b = some p

theorem MidSpec.step {t t1 : Tracker} (h : MidSpec t t1) : StepSpec t t1 :=
  ⟨h.inv, h.highest, by rw [h.first]; exact Nat.le_refl _, fun s hd => Or.inr (h.stable s hd),
   fun b p hp => Or.inr (h.parents_stable b p hp)⟩

theorem MidSpec.prune_step {t t1 : Tracker} (h : MidSpec t t1) : StepSpec t (prune t1) := by
  refine ⟨prune_inv h.inv, h.highest, ?_, ?_, ?_⟩
  · have := advance_ge t1.status (t1.highest - t1.first) t1.first
    rw [← h.first]; exact this
  · intro s hd
    by_cases hs : s < (prune t1).first
    · exact Or.inl hs
    · right
      have : (prune t1).status s = t1.status s := by
        show (if s < (prune t1).first then none else t1.status s) = _
        simp only [hs, if_false]
      rw [this]; exact h.stable s hd
  · intro b p hp
    by_cases hs : b.1 < (prune t1).first
    · exact Or.inl hs
    · right
      show (if b.1 < (prune t1).first then none else t1.parents b) = _
      simp only [hs, if_false]; exact h.parents_stable b p hp

theorem MidSpec.refl {t : Tracker} (h : Inv t) : MidSpec t t :=
  ⟨h, Nat.le_refl _, rfl, Stable.refl _, fun _ _ hp => hp⟩

/-- the walk keeps the invariant when it starts at or below the bound -/
theorem walk_mid {f : Nat} {t0 t : Tracker} {src : Nat} {blk : Nat × Nat} {ev : Event}
    {t' : Tracker} {ev' : Event} (hm : MidSpec t0 t) (hsrc : src ≤ t.highest)
    (h : walk f t src blk ev = some (t', ev')) : MidSpec t0 t' := by
  have w := walk_spec h
  have hi := hm.inv
  refine ⟨⟨?_, ?_, ?_, ?_, ?_⟩, ?_, ?_, ?_, ?_⟩
  · rw [w.first, w.highest]; exact hi.first_le
  · intro s hs
    rw [w.first] at hs
    rcases w.evolves s with e | ⟨l, _, _, _⟩
    · rw [e]; exact hi.st_pruned s hs
    · omega
  · intro b hb; rw [w.first] at hb; rw [w.parents]; exact hi.par_pruned b hb
  · intro s hd
    rw [w.highest]
    rcases w.evolves s with e | ⟨_, u, _, _⟩
    · rw [e] at hd; exact hi.dec_le s hd
    · omega
  · intro b p hp; rw [w.parents] at hp; exact hi.par_lt b p hp
  · rw [w.highest]; exact hm.highest
  · rw [w.first]; exact hm.first
  · exact hm.stable.trans w.evolves.stable
  · intro b p hp; rw [w.parents]; exact hm.parents_stable b p hp

/-! ### the four mutators -/

/-- writing `v` at a retained slot `s` (and raising `highest` to `hb`) -/
theorem mid_set {t : Tracker} (hi : Inv t) {s hb : Nat} {v : Status} (hs : t.first ≤ s)
    (hhb : t.highest ≤ hb) (hv : v.decided = true → s ≤ hb)
    (hold : Dec (t.status s) → v.decided = true ∧ finalHash (some v) = finalHash (t.status s)) :
    MidSpec t { t with status := setSt t.status s v, highest := hb } := by
  refine ⟨⟨?_, ?_, ?_, ?_, ?_⟩, hhb, rfl, ?_, fun _ _ hp => hp⟩
  · exact Nat.le_trans hi.first_le hhb
  · intro x hx
    show setSt t.status s v x = none
    unfold setSt
    have : x ≠ s := by intro e; subst e; exact absurd hx (by show ¬ x < t.first; omega)
    simp only [this, if_false]; exact hi.st_pruned x hx
  · exact hi.par_pruned
  · intro x hd
    have hd' : Dec (setSt t.status s v x) := hd
    unfold setSt at hd'
    by_cases hx : x = s
    · subst hx; simp only [if_true] at hd'; exact hv (dec_some.mp hd')
    · simp only [hx, if_false] at hd'; exact Nat.le_trans (hi.dec_le x hd') hhb
  · exact hi.par_lt
  · intro x hd
    show Dec (setSt t.status s v x) ∧ finalHash (setSt t.status s v x) = _
    unfold setSt
    by_cases hx : x = s
    · subst hx; simp only [if_true]
      have ⟨a, b⟩ := hold hd
      exact ⟨dec_some.mpr a, b⟩
    · simp only [hx, if_false]; exact ⟨hd, trivial⟩

theorem mid_highest_eq {t : Tracker} : ({ t with highest := t.highest } : Tracker) = t := rfl

theorem hfb_step {t0 t : Tracker} {blk : Nat × Nat} {ev : Event} {t' : Tracker} {ev' : Event}
    (hm : MidSpec t0 { t with highest := max blk.1 t.highest })
    (h : handleFinalizedBlock t blk ev = .ok t' ev') : StepSpec t0 t' := by
  simp only [handleFinalizedBlock] at h
  split at h
  · split at h
    · rename_i p hp t2 ev2 hw
      cases h
      have : blk.1 ≤ ({ t with highest := max blk.1 t.highest } : Tracker).highest := Nat.le_max_left _ _
      exact (walk_mid hm this hw).prune_step
    · cases h
  · cases h; exact hm.prune_step

theorem markFastFinalized_spec {t : Tracker} (hi : Inv t) {blk : Nat × Nat} {t' : Tracker} {ev : Event}
    (h : markFastFinalized t blk = .ok t' ev) : StepSpec t t' := by
  simp only [markFastFinalized] at h
  split at h
  · cases h; exact StepSpec.refl hi
  rename_i hfirst
  have hfirst : t.first ≤ blk.1 := by omega
  split at h
  · rename_i hh hst
    split at h
    · rename_i heq
      cases h
      have := mid_set (v := .finalized blk.2) hi hfirst (Nat.le_refl t.highest)
        (fun _ => hi.dec_le _ (by rw [hst]; exact dec_some.mpr rfl))
        (fun _ => ⟨rfl, by rw [hst, heq]⟩)
      exact this.step
    · cases h
  · rename_i hh hst
    split at h
    · rename_i heq
      cases h
      have := mid_set (v := .finalized blk.2) hi hfirst (Nat.le_refl t.highest)
        (fun _ => hi.dec_le _ (by rw [hst]; exact dec_some.mpr rfl))
        (fun _ => ⟨rfl, by rw [hst, heq]; rfl⟩)
      exact this.step
    · cases h
  · rename_i hh hst
    split at h
    · refine hfb_step (t := { t with status := setSt t.status blk.1 (.finalized blk.2) }) ?_ h
      exact mid_set (v := .finalized blk.2) hi hfirst (Nat.le_max_right _ _) (fun _ => Nat.le_max_left _ _)
        (fun hd => by rw [hst] at hd; simp [dec_some, Status.decided] at hd)
    · cases h
  · rename_i hst
    refine hfb_step (t := { t with status := setSt t.status blk.1 (.finalized blk.2) }) ?_ h
    exact mid_set (v := .finalized blk.2) hi hfirst (Nat.le_max_right _ _) (fun _ => Nat.le_max_left _ _)
      (fun hd => by rw [hst] at hd; simp [dec_some, Status.decided] at hd)
  · cases h
  · rename_i hst
    refine hfb_step (t := { t with status := setSt t.status blk.1 (.finalized blk.2) }) ?_ h
    exact mid_set (v := .finalized blk.2) hi hfirst (Nat.le_max_right _ _) (fun _ => Nat.le_max_left _ _)
      (fun hd => by rw [hst] at hd; exact absurd hd not_dec_none)

theorem markNotarized_spec {t : Tracker} (hi : Inv t) {blk : Nat × Nat} {t' : Tracker} {ev : Event}
    (h : markNotarized t blk = .ok t' ev) : StepSpec t t' := by
  simp only [markNotarized] at h
  split at h
  · cases h; exact StepSpec.refl hi
  rename_i hfirst
  have hfirst : t.first ≤ blk.1 := by omega
  split at h
  · rename_i hst
    cases h
    exact (mid_set (v := .notarized blk.2) hi hfirst (Nat.le_refl t.highest)
      (fun hv => by simp [Status.decided] at hv)
      (fun hd => by rw [hst] at hd; exact absurd hd not_dec_none)).step
  · rename_i hh hst
    split at h
    · cases h
      exact (mid_set (v := .notarized blk.2) hi hfirst (Nat.le_refl t.highest)
        (fun hv => by simp [Status.decided] at hv)
        (fun hd => by rw [hst] at hd; simp [dec_some, Status.decided] at hd)).step
    · cases h
  · split at h
    · cases h; exact (MidSpec.refl hi).step
    · cases h
  · cases h; exact (MidSpec.refl hi).step
  · cases h; exact (MidSpec.refl hi).step
  · rename_i hst
    refine hfb_step (t := { t with status := setSt t.status blk.1 (.finalized blk.2) }) ?_ h
    exact mid_set (v := .finalized blk.2) hi hfirst (Nat.le_max_right _ _) (fun _ => Nat.le_max_left _ _)
      (fun hd => by rw [hst] at hd; simp [dec_some, Status.decided] at hd)

theorem markFinalized_spec {t : Tracker} (hi : Inv t) {slot : Nat} {t' : Tracker} {ev : Event}
    (h : markFinalized t slot = .ok t' ev) : StepSpec t t' := by
  simp only [markFinalized] at h
  split at h
  · cases h; exact StepSpec.refl hi
  rename_i hfirst
  have hfirst : t.first ≤ slot := by omega
  split at h
  · rename_i hst
    cases h
    exact (mid_set (v := .finalPending) hi hfirst (Nat.le_refl t.highest)
      (fun hv => by simp [Status.decided] at hv)
      (fun hd => by rw [hst] at hd; exact absurd hd not_dec_none)).step
  · rename_i hst
    cases h
    exact (mid_set (v := .finalPending) hi hfirst (Nat.le_refl t.highest)
      (fun hv => by simp [Status.decided] at hv)
      (fun hd => by rw [hst] at hd; simp [dec_some, Status.decided] at hd)).step
  · cases h; exact (MidSpec.refl hi).step
  · cases h; exact (MidSpec.refl hi).step
  · rename_i hh hst
    refine hfb_step (t := { t with status := setSt t.status slot (.finalized hh) }) (blk := (slot, hh)) ?_ h
    exact mid_set (v := .finalized hh) hi hfirst (Nat.le_max_right _ _) (fun _ => Nat.le_max_left _ _)
      (fun hd => by rw [hst] at hd; simp [dec_some, Status.decided] at hd)
  · cases h

theorem addParent_spec {t : Tracker} (hi : Inv t) {blk par : Nat × Nat} {t' : Tracker} {ev : Event}
    (h : addParent t blk par = .ok t' ev) : StepSpec t t' := by
  simp only [addParent] at h
  split at h
  · cases h
  rename_i hlt
  have hlt : par.1 < blk.1 := by omega
  split at h
  · cases h; exact (MidSpec.refl hi).step
  rename_i hfirst
  have hfirst : t.first ≤ blk.1 := by omega
  split at h
  · split at h
    · cases h; exact (MidSpec.refl hi).step
    · cases h
  rename_i hnone
  have hm : MidSpec t { t with parents := setPar t.parents blk par } := by
    refine ⟨⟨hi.first_le, hi.st_pruned, ?_, hi.dec_le, ?_⟩, Nat.le_refl _, rfl, Stable.refl _, ?_⟩
    · intro b hb
      show setPar t.parents blk par b = none
      unfold setPar
      have hb' : b.1 < t.first := hb
      have : b ≠ blk := by intro e; subst e; omega
      simp only [this, if_false]; exact hi.par_pruned b hb'
    · intro b p hp
      have hp' : setPar t.parents blk par b = some p := hp
      unfold setPar at hp'
      by_cases hb : b = blk
      · subst hb; simp only [if_true] at hp'; cases hp'; exact hlt
      · simp only [hb, if_false] at hp'; exact hi.par_lt b p hp'
    · intro b p hp
      show setPar t.parents blk par b = some p
      unfold setPar
      have : b ≠ blk := by intro e; subst e; rw [hnone] at hp; cases hp
      simp only [this, if_false]; exact hp
  have hfin : ∀ hh, Dec (t.status blk.1) →
      (if blk.2 = hh then
        match walk blk.1 { t with parents := setPar t.parents blk par } blk.1 par {} with
        | some (t2, ev) => Res.ok (prune t2) ev
        | none => Res.panic
       else Res.ok { t with parents := setPar t.parents blk par } {}) = .ok t' ev → StepSpec t t' := by
    intro hh hd hr
    split at hr
    · split at hr
      · rename_i t2 ev2 hw
        cases hr
        exact (walk_mid hm (hi.dec_le _ hd) hw).prune_step
      · cases hr
    · cases hr; exact hm.step
  split at h
  · rename_i hh hst
    exact hfin hh (by rw [show t.status blk.1 = some (.finalized hh) from hst]; exact dec_some.mpr rfl) h
  · rename_i hh hst
    exact hfin hh (by rw [show t.status blk.1 = some (.implFinalized hh) from hst]; exact dec_some.mpr rfl) h
  · cases h; exact hm.step

theorem step_spec {t : Tracker} (hi : Inv t) {op : Op} {t' : Tracker} {ev : Event}
    (h : step t op = .ok t' ev) : StepSpec t t' := by
  cases op with
  | parent b p => exact addParent_spec hi h
  | fastFinal b => exact markFastFinalized_spec hi h
  | notar b => exact markNotarized_spec hi h
  | final s => exact markFinalized_spec hi h

/-- Why a block is reported as (directly) finalized: the operation is its fast-finalization certificate, or its
    notarization certificate while the slot was `FinalPendingNotar`, or the finalization certificate of its
    slot while the block was `Notarized`. -/
theorem finalized_report_cause {t : Tracker} {op : Op} {t' : Tracker} {ev : Event} {b : Nat × Nat}
    (h : step t op = .ok t' ev) (hb : ev.finalized = some b) :
    op = .fastFinal b ∨ (op = .notar b ∧ t.status b.1 = some .finalPending) ∨
    (op = .final b.1 ∧ t.status b.1 = some (.notarized b.2)) := by
  have hfb : ∀ {t1 : Tracker} {blk : Nat × Nat}, handleFinalizedBlock t1 blk {} = .ok t' ev → blk = b := by
    intro t1 blk hh
    simp only [handleFinalizedBlock] at hh
    split at hh
    · split at hh
      · rename_i hw
        cases hh
        have := walk_finalized hw
        rw [hb] at this
        cases this; rfl
      · cases hh
    · cases hh; cases hb; rfl
  cases op with
  | parent blk par =>
    exfalso
    simp only [step, addParent] at h
    have hfin : ∀ hh : Nat,
        (if blk.2 = hh then
          match walk blk.1 { t with parents := setPar t.parents blk par } blk.1 par {} with
          | some (t2, ev) => Res.ok (prune t2) ev
          | none => Res.panic
        else Res.ok { t with parents := setPar t.parents blk par } {}) = .ok t' ev → False := by
      intro hh hr
      split at hr
      · split at hr
        · rename_i hw
          cases hr
          have := walk_finalized hw
          rw [hb] at this; cases this
        · cases hr
      · cases hr; cases hb
    split at h
    · cases h
    split at h
    · cases h; cases hb
    split at h
    · split at h
      · cases h; cases hb
      · cases h
    split at h
    · exact hfin _ h
    · exact hfin _ h
    · cases h; cases hb
  | fastFinal blk =>
    left
    simp only [step, markFastFinalized] at h
    split at h
    · cases h; cases hb
    split at h
    · split at h
      · cases h; cases hb
      · cases h
    · split at h
      · cases h; cases hb
      · cases h
    · split at h
      · rw [hfb h]
      · cases h
    · rw [hfb h]
    · cases h
    · rw [hfb h]
  | notar blk =>
    right; left
    simp only [step, markNotarized] at h
    split at h
    · cases h; cases hb
    split at h
    · cases h; cases hb
    · split at h
      · cases h; cases hb
      · cases h
    · split at h
      · cases h; cases hb
      · cases h
    · cases h; cases hb
    · cases h; cases hb
    · rename_i hst
      have := hfb h
      subst this
      exact ⟨rfl, hst⟩
  | final slot =>
    right; right
    simp only [step, markFinalized] at h
    split at h
    · cases h; cases hb
    split at h
    · cases h; cases hb
    · cases h; cases hb
    · cases h; cases hb
    · cases h; cases hb
    · rename_i hh hst
      have := hfb h
      subst this
      exact ⟨rfl, hst⟩
    · cases h

/-- the invariant holds along every run from the initial tracker -/
theorem run_inv {t : Tracker} (hi : Inv t) {ops : List Op} {t' : Tracker} {evs : List Event}
    (h : run t ops = some (t', evs)) : Inv t' ∧ t.highest ≤ t'.highest ∧ t.first ≤ t'.first := by
  induction ops generalizing t evs with
  | nil => simp only [run] at h; cases h; exact ⟨hi, Nat.le_refl _, Nat.le_refl _⟩
  | cons op rest ih =>
    simp only [run] at h
    split at h
    · cases h
    · rename_i t1 ev hs
      split at h
      · rename_i t2 evs2 hr
        cases h
        have sp := step_spec hi hs
        have ⟨i2, h2, f2⟩ := ih sp.inv hr
        exact ⟨i2, Nat.le_trans sp.highest h2, Nat.le_trans sp.first f2⟩
      · cases h

end AgModel.Finality
