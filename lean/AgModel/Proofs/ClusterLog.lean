import AgModel.Proofs.ClusterGenesis
import AgModel.Proofs.BundleReplay
/-!
# C10 cluster composition, part 2: the ghost log of a pool in a valid cluster run is `Consistent`

`LogOk c s i L`: every certificate in the log `L` (of node `i`'s pool) is backed by the signatures known in state `s`, every
registration agrees with the global parent function and names a parent in an earlier slot. Under the hypotheses of the safety
theorems for the history derived from `s` (`Setting`, i.e. `cluster_setting`) and with `VotesGOK` (`Proofs/ClusterGenesis.lean`)
this implies **every clause** of `Finality.Safe (finOps L)` and of `Pool.Consistent L`:

| clause | from |
|---|---|
| `link_lt`, `link_fun` | the registrations agree with `parentOf`, parents in earlier slots |
| `final_fun` | `logs_one_chain` (C01) |
| `no_final_between` | `logs_one_chain` + the parent of a block is its only link |
| `notar_fun` | `notar_unique` (C01) |
| `notar_direct` | `final_excludes` (C01) |
| `fin_not_skip` | `skip_of_gap` + R2 + `finalized_not_skipped` |
| `skip_not_direct` | `finalized_not_skipped` (C01) |
| `genesis` | `GOK` |

The blocks of the history are `Blk` (all ids of slot 0 identified with genesis); the trackers work on raw ids. `GOK` closes the
gap (`raw_eq`).
-/
namespace AgModel.Cluster
open AgModel AgModel.Node AgModel.NodePanic AgModel.Pool AgModel.Spec

/-- what a valid run guarantees about the items of a pool's ghost log -/
def LogOk (c : Cfg) (s : State) (i : ℕ) (L : List LogItem) : Prop :=
  ∀ it ∈ L, match it with
    | .cert x => CertBacked (sigOf c s) (c.epoch i) x
    | .block b p => c.parentOf b = p ∧ p.1 < b.1

theorem LogOk.nil (c : Cfg) (s : State) (i : ℕ) : LogOk c s i [] := fun _ h => by cases h

theorem LogOk.append {c : Cfg} {s : State} {i : ℕ} {A B : List LogItem} (ha : LogOk c s i A) (hb : LogOk c s i B) :
    LogOk c s i (A ++ B) := by
  intro it hit
  rcases List.mem_append.mp hit with h | h
  · exact ha it h
  · exact hb it h

theorem LogOk.mono {c : Cfg} {s s' : State} {i : ℕ} {L : List LogItem} (h : LogOk c s i L) (hl : (sigOf c s).le (sigOf c s')) :
    LogOk c s' i L := by
  intro it hit
  have := h it hit
  cases it with
  | cert x => exact CertBacked.mono this hl
  | block b p => exact this

theorem mem_finOps_parent_inv {L : List LogItem} {b p : ℕ × ℕ} (h : Finality.Op.parent b p ∈ finOps L) :
    LogItem.block b p ∈ L := by
  unfold finOps at h
  obtain ⟨it, hit, hop⟩ := List.mem_flatMap.mp h
  cases it with
  | block x y =>
    simp only [LogItem.finOp, List.mem_singleton, Finality.Op.parent.injEq] at hop
    rw [hop.1, hop.2]; exact hit
  | cert x => cases hk : x.kind <;> simp [LogItem.finOp, hk] at hop

theorem raw_eq {c : Cfg} {b b' : ℕ × ℕ} (h : idBlk b = idBlk b') (g : GOK c b) (g' : GOK c b') : b = b' := by
  have hs : b.1 = b'.1 := by
    have := congrArg Blk.slot h
    rwa [idBlk_slot, idBlk_slot] at this
  by_cases h0 : b.1 = 0
  · have h0' : b'.1 = 0 := by omega
    have e1 : b = (0, b.2) := Prod.ext h0 rfl
    have e2 : b' = (0, b'.2) := Prod.ext h0' rfl
    rw [e1] at g
    rw [e2] at g'
    exact Prod.ext hs (by rw [g.slot0, g'.slot0])
  · have h0' : b'.1 ≠ 0 := by omega
    have := congrArg Blk.hash h
    unfold idBlk at this
    rw [Blk.mk'_hash _ _ h0, Blk.mk'_hash _ _ h0'] at this
    exact Prod.ext hs this

/-- a finalization certificate excludes a skip certificate for the slot (some correct validator cast the finalize vote, R2) -/
theorem finalCert_not_skip {V B : Type} [Fintype V] {stake : V → ℕ} {C : Chain B} {H : History V B} {byz : V → Prop}
    (S : Setting stake C H byz) (t : ℕ) (hf : FinalCert stake H t) : ¬ SkipCert stake H t := by
  have hb := S.byz_bound
  have hf' := hf
  unfold FinalCert at hf'
  rw [Q_iff] at hf'
  obtain ⟨v, hv, hc⟩ := exists_correct stake byz (fun v => H.fin v t) (by omega)
  obtain ⟨⟨b, hs, _, hn⟩, _⟩ := (S.rules v hc).fin_rule t hv
  have := finalized_not_skipped S b (Or.inr ⟨by rw [hs]; exact hf, hn⟩)
  rwa [hs] at this

/-- an ancestor in a strictly earlier slot is an ancestor of the parent -/
theorem anc_lt_parent {B : Type} {C : Chain B} {y x : B} (h : Anc C y x) (hs : C.slot y < C.slot x) : Anc C y (C.parent x) := by
  cases h with
  | refl => omega
  | step _ _ hp => exact hp

section
variable (c : Cfg) (s : State) (hS : Setting (stakeFn c) (chainOf c) (histOf c s) (byz c)) (hvg : VotesGOK c s)
  (i : ℕ) (L : List LogItem) (hL : LogOk c s i L)

include hS hvg hL

theorem link_ok {b p : ℕ × ℕ} (h : Finality.LinkH (finOps L) b p) : c.parentOf b = p ∧ p.1 < b.1 :=
  hL _ (mem_finOps_parent_inv h)

theorem notarH_ok {b : ℕ × ℕ} (h : Finality.NotarH (finOps L) b) :
    NotarCert (stakeFn c) (histOf c s) (idBlk b) ∧ GOK c b := by
  rcases h with rfl | h
  · exact ⟨notarCert_genesis c s, GOK.zero c⟩
  · obtain ⟨x, hx, hk, hid⟩ := mem_finOps_notar_inv h
    have hb : CertBacked (sigOf c s) (c.epoch i) x := hL _ hx
    have hon := certOn_of_backed c s i x hb
    rw [hk] at hon
    rw [← hid]
    exact ⟨hon, backed_gok c s hvg hS.byz_bound i x (Or.inl hk) hb⟩

theorem fastH_ok {b : ℕ × ℕ} (h : Finality.FastH (finOps L) b) :
    FastFinalCert (stakeFn c) (histOf c s) (idBlk b) ∧ GOK c b := by
  obtain ⟨x, hx, hk, hid⟩ := mem_finOps_ff_inv h
  have hb : CertBacked (sigOf c s) (c.epoch i) x := hL _ hx
  have hon := certOn_of_backed c s i x hb
  rw [hk] at hon
  rw [← hid]
  exact ⟨hon, backed_gok c s hvg hS.byz_bound i x (Or.inr (Or.inr hk)) hb⟩

theorem finH_ok {t : ℕ} (h : Finality.FinH (finOps L) t) : FinalCert (stakeFn c) (histOf c s) t := by
  obtain ⟨x, hx, hk, hid⟩ := mem_finOps_final_inv h
  have hb : CertBacked (sigOf c s) (c.epoch i) x := hL _ hx
  have hon := certOn_of_backed c s i x hb
  rw [hk] at hon
  rw [← hid]
  exact hon

theorem direct_ok {b : ℕ × ℕ} (h : Finality.Direct (finOps L) b) :
    FinalizedAt (stakeFn c) (chainOf c) (histOf c s) (idBlk b) ∧ GOK c b := by
  rcases h with h | ⟨h1, h2⟩
  · obtain ⟨a, g⟩ := fastH_ok c s hS hvg i L hL h
    exact ⟨Or.inl a, g⟩
  · obtain ⟨a, g⟩ := notarH_ok c s hS hvg i L hL h2
    refine ⟨Or.inr ⟨?_, a⟩, g⟩
    show FinalCert (stakeFn c) (histOf c s) (idBlk b).slot
    rw [idBlk_slot]
    exact finH_ok c s hS hvg i L hL h1

theorem final_ok {b : ℕ × ℕ} (h : Finality.Final (finOps L) b) :
    InLog (stakeFn c) (chainOf c) (histOf c s) (idBlk b) ∧ GOK c b := by
  induction h with
  | direct d =>
    obtain ⟨a, g⟩ := direct_ok c s hS hvg i L hL d
    exact ⟨⟨_, a, Anc.refl⟩, g⟩
  | @step x p _ hl ih =>
    obtain ⟨hp, hlt⟩ := link_ok c s hS hvg i L hL hl
    have h0 : x.1 ≠ 0 := by omega
    have hpar := parent_idBlk c x p hp hlt
    refine ⟨?_, ?_⟩
    · have := inLog_parent (idBlk x) ih.1 (idBlk_ne_genesis c x h0)
      rwa [hpar] at this
    · rw [← hp]
      exact ih.2.parent (by rw [hp]; exact hlt)

/-- **Stage 1: every clause of `Finality.Safe`** for the finality inputs of the log -/
theorem safe_of_logOk : Finality.Safe (finOps L) where
  link_lt := fun b p h => (link_ok c s hS hvg i L hL h).2
  link_fun := fun b p p' h h' => (link_ok c s hS hvg i L hL h).1.symm.trans (link_ok c s hS hvg i L hL h').1
  final_fun := by
    intro b b' hb hb' hs
    obtain ⟨a, g⟩ := final_ok c s hS hvg i L hL hb
    obtain ⟨a', g'⟩ := final_ok c s hS hvg i L hL hb'
    have := (logs_one_chain hS _ _ a a').2 (by
      show (idBlk b).slot = (idBlk b').slot
      rw [idBlk_slot, idBlk_slot]; exact hs)
    exact raw_eq this g g'
  no_final_between := by
    intro x p q hx hl hq ⟨h1, h2⟩
    obtain ⟨ax, _⟩ := final_ok c s hS hvg i L hL hx
    obtain ⟨aq, _⟩ := final_ok c s hS hvg i L hL hq
    obtain ⟨hp, hlt⟩ := link_ok c s hS hvg i L hL hl
    have h0 : x.1 ≠ 0 := by omega
    have hpar := parent_idBlk c x p hp hlt
    rcases (logs_one_chain hS _ _ ax aq).1 with h | h
    · have := anc_slot_le (C := chainOf c) _ _ h
      have e1 : (chainOf c).slot (idBlk x) = x.1 := idBlk_slot x
      have e2 : (chainOf c).slot (idBlk q) = q.1 := idBlk_slot q
      omega
    · have hlt' : (chainOf c).slot (idBlk q) < (chainOf c).slot (idBlk x) := by
        have e1 : (chainOf c).slot (idBlk x) = x.1 := idBlk_slot x
        have e2 : (chainOf c).slot (idBlk q) = q.1 := idBlk_slot q
        omega
      have hanc := anc_lt_parent h hlt'
      rw [hpar] at hanc
      have := anc_slot_le (C := chainOf c) _ _ hanc
      have e1 : (chainOf c).slot (idBlk p) = p.1 := idBlk_slot p
      have e2 : (chainOf c).slot (idBlk q) = q.1 := idBlk_slot q
      omega
  notar_fun := by
    intro b b' hb hb' hs
    obtain ⟨a, g⟩ := notarH_ok c s hS hvg i L hL hb
    obtain ⟨a', g'⟩ := notarH_ok c s hS hvg i L hL hb'
    have := notar_unique hS (idBlk b) (idBlk b') (by
      show (idBlk b).slot = (idBlk b').slot
      rw [idBlk_slot, idBlk_slot]; exact hs) a a'
    exact raw_eq this g g'
  notar_direct := by
    intro b b' hb hb' hs
    obtain ⟨a, g⟩ := notarH_ok c s hS hvg i L hL hb
    obtain ⟨a', g'⟩ := direct_ok c s hS hvg i L hL hb'
    have hex := (final_excludes hS (idBlk b') a').2 (idBlk b) (by
      show (idBlk b).slot = (idBlk b').slot
      rw [idBlk_slot, idBlk_slot]; exact hs)
    by_cases he : idBlk b = idBlk b'
    · exact raw_eq he g g'
    · exact absurd (nfCert_of_notarCert _ _ _ a) (hex he)
  fin_not_skip := by
    intro t hf ⟨x, p, hx, hl, h1, h2⟩
    have hfc := finH_ok c s hS hvg i L hL hf
    obtain ⟨ax, _⟩ := final_ok c s hS hvg i L hL hx
    obtain ⟨hp, hlt⟩ := link_ok c s hS hvg i L hL hl
    have h0 : x.1 ≠ 0 := by omega
    have hpar := parent_idBlk c x p hp hlt
    have hgap : Gap (stakeFn c) (chainOf c) (histOf c s) t := by
      refine ⟨idBlk x, ax, idBlk_ne_genesis c x h0, ?_, ?_⟩
      · rw [hpar]; show (idBlk p).slot < t; rw [idBlk_slot]; exact h1
      · show t < (idBlk x).slot; rw [idBlk_slot]; exact h2
    exact finalCert_not_skip hS t hfc (skip_of_gap hS (byzAll c s) t hgap)

/-- **Stages 2 and 3: the ghost log is `Consistent`** -/
theorem consistent_of_logOk : Consistent L where
  safe := safe_of_logOk c s hS hvg i L hL
  skip_not_direct := by
    intro x hx hk h hd
    obtain ⟨a, _⟩ := direct_ok c s hS hvg i L hL hd
    have hb : CertBacked (sigOf c s) (c.epoch i) x := hL _ hx
    have hon := certOn_of_backed c s i x hb
    rw [hk] at hon
    have := finalized_not_skipped hS _ a
    apply this
    show SkipCert (stakeFn c) (histOf c s) (idBlk (x.slot, h)).slot
    rw [idBlk_slot]
    exact hon
  genesis := fun h hf => (final_ok c s hS hvg i L hL hf).2.slot0

end

end AgModel.Cluster
