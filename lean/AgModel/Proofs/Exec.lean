import AgModel.Model.Exec
/-! The execution engine refines the specification engine (`run_refines`); seed rule; streaming.
Core Lean only. -/
namespace AgModel.Exec

/-- abstraction: fold the recorded transactions into the seed -/
def absBlocks (g : GBlocks) : Blocks := g.map (fun kv => (kv.1, kv.2.abs))

@[simp] theorem absBlocks_nil : absBlocks [] = [] := rfl

@[simp] theorem absBlocks_cons (k : Ipb) (v : GBlock) (g : GBlocks) :
    absBlocks ((k, v) :: g) = (k, v.abs) :: absBlocks g := rfl

theorem lookup_abs (g : GBlocks) (k : Ipb) :
    lookup (absBlocks g) k = (glookup g k).map GBlock.abs := by
  induction g with
  | nil => rfl
  | cons kv rest ih =>
    obtain ⟨k', v⟩ := kv
    simp only [absBlocks_cons, lookup, glookup]
    split
    · rfl
    · exact ih

theorem insertB_abs (g : GBlocks) (k : Ipb) (v : GBlock) :
    insertB (absBlocks g) k v.abs = absBlocks (ginsert g k v) := by
  induction g with
  | nil => rfl
  | cons kv rest ih =>
    obtain ⟨k', w⟩ := kv
    simp only [absBlocks_cons, insertB, ginsert]
    split
    · rfl
    · simp only [absBlocks_cons, ih]

theorem completedAs_abs (ph : Nat) (o : Option GBlock) :
    completedAs ph (o.map GBlock.abs) = (gcompletedAs ph o).map GBlock.abs := by
  cases o with
  | none => rfl
  | some x =>
    simp only [Option.map_some, completedAs, gcompletedAs, GBlock.abs]
    split
    · rfl
    · rfl

theorem seed_abs (g : GBlocks) (parent : Option BlockId) :
    seed ⟨absBlocks g⟩ parent = specSeed g parent := by
  cases parent with
  | none => rfl
  | some p =>
    obtain ⟨ps, ph⟩ := p
    simp only [seed, specSeed, lookup_abs, completedAs_abs]
    cases gcompletedAs ph (glookup g (.known ps ph)) with
    | some x => rfl
    | none =>
      cases gcompletedAs ph (glookup g (.pending ps)) with
      | some x => rfl
      | none => rfl

theorem endKey_abs (g : GBlocks) (b : BlockId) : endKey ⟨absBlocks g⟩ b = gendKey g b := by
  simp only [endKey, gendKey, lookup_abs, Option.isSome_map]

theorem filter_abs (g : GBlocks) (p : Ipb → Bool) :
    (absBlocks g).filter (fun kv => p kv.1) = absBlocks (g.filter (fun kv => p kv.1)) := by
  induction g with
  | nil => rfl
  | cons kv rest ih =>
    obtain ⟨k, v⟩ := kv
    simp only [absBlocks_cons, List.filter_cons]
    split
    · simp only [absBlocks_cons, ih]
    · exact ih

/-- one call: the engine and the specification engine stay related and emit the same event -/
theorem step_refines (g : GBlocks) (op : Op) :
    stepOp ⟨absBlocks g⟩ op = (⟨absBlocks (gstepOp g op).1⟩, (gstepOp g op).2) := by
  cases op with
  | begin id parent =>
    simp only [stepOp, gstepOp, begin, seed_abs]
    rw [← insertB_abs]
    rfl
  | exec id txs =>
    simp only [stepOp, gstepOp, exec, lookup_abs]
    cases glookup g id with
    | none => rfl
    | some x =>
      simp only [Option.map_some]
      rw [← insertB_abs]
      simp only [GBlock.abs, GBlock.commitment, List.foldl_append, List.length_append]
  | endB b =>
    simp only [stepOp, gstepOp, endBlock, endKey_abs, lookup_abs]
    cases glookup g (gendKey g b) with
    | none => rfl
    | some x =>
      simp only [Option.map_some]
      rw [← insertB_abs]
      rfl
  | fin b =>
    simp only [stepOp, gstepOp, finalize]
    rw [filter_abs g (fun k => decide (b.1 ≤ k.slot))]

theorem runFrom_refines (g : GBlocks) (ops : List Op) :
    runFrom ⟨absBlocks g⟩ ops = (⟨absBlocks (grunFrom g ops).1⟩, (grunFrom g ops).2) := by
  induction ops generalizing g with
  | nil => rfl
  | cons op rest ih =>
    simp only [runFrom, grunFrom, step_refines, ih]

/-- **refinement**: for every call sequence the engine's state is the abstraction of the specification
    engine's state and the emitted events are identical -/
theorem run_refines (ops : List Op) :
    run ops = (⟨absBlocks (grun ops).1⟩, (grun ops).2) :=
  runFrom_refines [] ops

/-- every event of the specification engine reports the transaction count and the fold of the
    complete transaction sequence over the seed of the state it was read from -/
theorem gstep_event (g : GBlocks) (op : Op) (ev : Event) (h : (gstepOp g op).2 = some ev) :
    ∃ b x, op = .endB b ∧ glookup g (gendKey g b) = some x ∧
      ev = (b, x.txs.length, x.txs.foldl SH.step x.seed) := by
  cases op with
  | begin id parent => simp [gstepOp] at h
  | exec id txs => simp [gstepOp] at h
  | fin b => simp [gstepOp] at h
  | endB b =>
    simp only [gstepOp] at h
    cases hx : glookup g (gendKey g b) with
    | none => simp [hx] at h
    | some x =>
      simp only [hx, Option.some.injEq] at h
      exact ⟨b, x, rfl, hx, h.symm⟩

theorem gcompletedAs_none (ph : Nat) (o : Option GBlock)
    (h : ∀ x, o = some x → x.completedAs ≠ some ph) : gcompletedAs ph o = none := by
  cases o with
  | none => rfl
  | some x =>
    simp only [gcompletedAs]
    rw [if_neg (h x rfl)]

theorem gcompletedAs_some (ph : Nat) (x : GBlock) (hc : x.completedAs = some ph) :
    gcompletedAs ph (some x) = some x := by
  simp only [gcompletedAs]
  rw [if_pos hc]

/-- unknown parent: if no state is stored that was completed as exactly the parent's hash, the seed is
    the parent block hash -/
theorem specSeed_unknown (g : GBlocks) (ps ph : Nat)
    (h1 : ∀ x, glookup g (.known ps ph) = some x → x.completedAs ≠ some ph)
    (h2 : ∀ x, glookup g (.pending ps) = some x → x.completedAs ≠ some ph) :
    specSeed g (some (ps, ph)) = .block ph := by
  simp only [specSeed, gcompletedAs_none ph _ h1, gcompletedAs_none ph _ h2]

/-- known parent: a `Known(parent)` state completed as the parent's hash provides the seed -/
theorem specSeed_known (g : GBlocks) (ps ph : Nat) (x : GBlock)
    (h : glookup g (.known ps ph) = some x) (hc : x.completedAs = some ph) :
    specSeed g (some (ps, ph)) = x.commitment := by
  simp only [specSeed, h, gcompletedAs_some ph x hc]

/-- … and so does the `Pending(parent slot)` state when it was completed as the parent's hash and no
    completed `Known(parent)` state exists -/
theorem specSeed_pending (g : GBlocks) (ps ph : Nat) (x : GBlock)
    (h1 : ∀ y, glookup g (.known ps ph) = some y → y.completedAs ≠ some ph)
    (h : glookup g (.pending ps) = some x) (hc : x.completedAs = some ph) :
    specSeed g (some (ps, ph)) = x.commitment := by
  simp only [specSeed, gcompletedAs_none ph _ h1, h, gcompletedAs_some ph x hc]

theorem specSeed_genesis (g : GBlocks) : specSeed g none = .block 0 := rfl

theorem lookup_insertB_self (bs : Blocks) (k : Ipb) (v : BlockExec) :
    lookup (insertB bs k v) k = some v := by
  induction bs with
  | nil => simp [insertB, lookup]
  | cons kw rest ih =>
    obtain ⟨k', w⟩ := kw
    simp only [insertB]
    split
    · next hk => simp [lookup, hk]
    · next hk => simp [lookup, hk, ih]

theorem insertB_insertB_self (bs : Blocks) (k : Ipb) (v w : BlockExec) :
    insertB (insertB bs k v) k w = insertB bs k w := by
  induction bs with
  | nil => simp [insertB]
  | cons kw rest ih =>
    obtain ⟨k', u⟩ := kw
    simp only [insertB]
    split
    · next hk => simp [insertB, hk]
    · next hk => simp [insertB, hk, ih]

/-- streaming: executing `t1` then `t2` equals executing `t1 ++ t2` (slice boundaries are irrelevant) -/
theorem exec_append (e : Engine) (id : Ipb) (t1 t2 : List Nat) :
    exec (exec e id t1) id t2 = exec e id (t1 ++ t2) := by
  cases hx : lookup e.blocks id with
  | none => simp [exec, hx]
  | some ex =>
    simp only [exec, hx, lookup_insertB_self, insertB_insertB_self, List.foldl_append,
      List.length_append, Nat.add_assoc]

end AgModel.Exec
