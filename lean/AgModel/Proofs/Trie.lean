import AgModel.Model.Trie
import AgModel.Model.OrdMap
import AgModel.Proofs.TrieKey
/-! Helper lemmas for C20 about `AgModel.Trie` (core Lean only). -/
namespace AgModel.Trie

/-! ### keys and chunk paths -/

/-- the first `P.length` chunks of `k` are `P` -/
def agrees (k : Key) (P : List Nat) : Prop := (chunks k).take P.length = P

theorem agrees_nil (k : Key) : agrees k [] := by simp [agrees]

theorem chunks_getElem? (k : Key) (d : Nat) (h : d < 52) : (chunks k)[d]? = some (chunkAt k d) := by
  unfold chunks
  rw [numChunks_eq]
  simp [h]

theorem agrees_length (k : Key) (P : List Nat) (h : agrees k P) : P.length ≤ 52 := by
  unfold agrees at h
  have := congrArg List.length h
  simp [chunks_length] at this
  omega

theorem agrees_snoc (k : Key) (P : List Nat) (c : Nat) :
    agrees k (P ++ [c]) ↔ agrees k P ∧ P.length < 52 ∧ chunkAt k P.length = c := by
  unfold agrees
  constructor
  · intro h
    have hlen := congrArg List.length h
    simp [chunks_length] at hlen
    have hd : P.length < 52 := by omega
    have h' : (chunks k).take (P.length + 1) = P ++ [c] := by simpa using h
    rw [List.take_add_one, chunks_getElem? k _ hd] at h'
    simp only [Option.toList_some] at h'
    have hl : ((chunks k).take P.length).length = P.length := by simp [chunks_length]; omega
    have := List.append_inj h' hl
    exact ⟨this.1, hd, by simpa using this.2⟩
  · rintro ⟨h1, hd, h2⟩
    have : (chunks k).take (P.length + 1) = P ++ [c] := by
      rw [List.take_add_one, chunks_getElem? k _ hd, h1, h2]; rfl
    simpa using this

theorem chunks_getElem (k : Key) (d : Nat) (h : d < (chunks k).length) : (chunks k)[d] = chunkAt k d := by
  have h' : d < 52 := by simpa [chunks_length] using h
  have := chunks_getElem? k d h'
  rw [List.getElem?_eq_getElem h] at this
  exact Option.some.inj this

theorem chunks_split (k : Key) (d : Nat) (h : d < 52) :
    chunks k = (chunks k).take d ++ chunkAt k d :: (chunks k).drop (d + 1) := by
  have hl : d < (chunks k).length := by simp [chunks_length, h]
  conv => lhs; rw [← List.take_append_drop d (chunks k)]
  rw [List.drop_eq_getElem_cons hl, chunks_getElem]

theorem lexLt_cons_same (x : Nat) (a b : List Nat) : lexLt (x :: a) (x :: b) = lexLt a b := by
  simp [lexLt]

theorem lexLt_append_left (P a b : List Nat) : lexLt (P ++ a) (P ++ b) = lexLt a b := by
  induction P with
  | nil => rfl
  | cons x P ih => simp [lexLt_cons_same, ih]

/-- keys that share the path `P` are ordered by their chunk at depth `P.length` -/
theorem keyLt_of_chunk (k1 k2 : Key) (P : List Nat) (h1 : agrees k1 P) (h2 : agrees k2 P)
    (hd : P.length < 52) (hc : chunkAt k1 P.length < chunkAt k2 P.length) : keyLt k1 k2 = true := by
  unfold keyLt
  rw [chunks_split k1 _ hd, chunks_split k2 _ hd]
  unfold agrees at h1 h2
  rw [h1, h2, lexLt_append_left]
  simp [lexLt, hc]

theorem keyLt_irrefl (k : Key) : keyLt k k = false := lexLt_irrefl _
theorem keyLt_trans (a b c : Key) : keyLt a b = true → keyLt b c = true → keyLt a c = true := lexLt_trans _ _ _
theorem keyLt_asymm (a b : Key) : keyLt a b = true → keyLt b a = false := lexLt_asymm _ _
theorem keyLt_ne (a b : Key) (h : keyLt a b = true) : a ≠ b := by
  intro e; subst e; rw [keyLt_irrefl] at h; cases h

/-! ### well-formedness unfolded -/

/-- well-formed *child* reached by path `Q` (which includes the child's chunk) -/
def wfc (ch : Node) (Q : List Nat) : Bool :=
  match ch with
  | .leaf k _ => decide ((chunks k).take Q.length = Q)
  | .nil => false
  | .cons c' ch' rest' => Node.wf (.cons c' ch' rest') Q 0 && !singleLeaf (.cons c' ch' rest')

theorem wf_cons (c : Nat) (ch rest : Node) (P : List Nat) (lb : Nat) :
    Node.wf (.cons c ch rest) P lb =
      (decide (lb ≤ c) && decide (c < 32) && wfc ch (P ++ [c]) && Node.wf rest P (c + 1)) := by
  cases ch <;> simp [Node.wf, wfc]

theorem wf_cons_iff (c : Nat) (ch rest : Node) (P : List Nat) (lb : Nat) :
    Node.wf (.cons c ch rest) P lb = true ↔
      lb ≤ c ∧ c < 32 ∧ wfc ch (P ++ [c]) = true ∧ Node.wf rest P (c + 1) = true := by
  rw [wf_cons]; simp [and_assoc]

theorem wf_mono (n : Node) (P : List Nat) (lb lb' : Nat) (h : n.wf P lb = true) (hl : lb' ≤ lb) :
    n.wf P lb' = true := by
  cases n with
  | leaf k v => simp [Node.wf] at h
  | nil => simp [Node.wf]
  | cons c ch rest =>
    rw [wf_cons_iff] at h ⊢
    exact ⟨by omega, h.2⟩

/-- keys below a well-formed chain / child follow the path -/
theorem wf_keys (n : Node) : ∀ (P : List Nat),
    (∀ lb, n.wf P lb = true → ∀ kv ∈ toList n, agrees kv.1 P ∧ lb ≤ chunkAt kv.1 P.length) ∧
    (wfc n P = true → ∀ kv ∈ toList n, agrees kv.1 P) := by
  induction n with
  | leaf k v =>
    intro P
    refine ⟨by simp [Node.wf], ?_⟩
    intro h kv hkv
    simp only [toList, List.mem_singleton] at hkv
    subst hkv
    simpa [wfc, agrees] using h
  | nil => intro P; simp [toList, wfc]
  | cons c ch rest ihc ihr =>
    intro P
    have hwf : ∀ lb, Node.wf (.cons c ch rest) P lb = true →
        ∀ kv ∈ toList (.cons c ch rest), agrees kv.1 P ∧ lb ≤ chunkAt kv.1 P.length := by
      intro lb h kv hkv
      rw [wf_cons_iff] at h
      obtain ⟨h1, _, h3, h4⟩ := h
      simp only [toList, List.mem_append] at hkv
      rcases hkv with hkv | hkv
      · have := (ihc (P ++ [c])).2 h3 kv hkv
        rw [agrees_snoc] at this
        exact ⟨this.1, by omega⟩
      · have := (ihr P).1 (c + 1) h4 kv hkv
        exact ⟨this.1, by omega⟩
    refine ⟨hwf, ?_⟩
    intro h kv hkv
    simp only [wfc, Bool.and_eq_true] at h
    exact (hwf 0 h.1 kv hkv).1

theorem wfc_keys (ch : Node) (Q : List Nat) (h : wfc ch Q = true) : ∀ kv ∈ toList ch, agrees kv.1 Q :=
  (wf_keys ch Q).2 h

theorem wf_keys' (n : Node) (P : List Nat) (lb : Nat) (h : n.wf P lb = true) :
    ∀ kv ∈ toList n, agrees kv.1 P ∧ lb ≤ chunkAt kv.1 P.length := (wf_keys n P).1 lb h

/-! ### association-list facts -/
open AgModel.OrdMap (find put del Sorted)

theorem find_none_iff (l : OrdMap.Map) (key : Key) : find l key = none ↔ ∀ kv ∈ l, kv.1 ≠ key := by
  induction l with
  | nil => simp [find]
  | cons a l ih =>
    obtain ⟨k, v⟩ := a
    simp only [find, List.mem_cons, forall_eq_or_imp]
    by_cases h : k = key
    · simp [h]
    · simp [h, ih]

theorem find_append_left (a b : OrdMap.Map) (key : Key) (h : ∀ kv ∈ b, kv.1 ≠ key) :
    find (a ++ b) key = find a key := by
  induction a with
  | nil => simpa [find] using (find_none_iff b key).2 h
  | cons x a ih => obtain ⟨k, v⟩ := x; simp only [List.cons_append, find, ih]

theorem find_append_right (a b : OrdMap.Map) (key : Key) (h : ∀ kv ∈ a, kv.1 ≠ key) :
    find (a ++ b) key = find b key := by
  induction a with
  | nil => rfl
  | cons x a ih =>
    obtain ⟨k, v⟩ := x
    have hk : k ≠ key := h (k, v) (by simp)
    simp only [List.cons_append, find, hk, if_false]
    exact ih (fun kv hkv => h kv (by simp [hkv]))

theorem del_append (a b : OrdMap.Map) (key : Key) : del (a ++ b) key = del a key ++ del b key := by
  simp [del]

theorem del_of_not_mem (a : OrdMap.Map) (key : Key) (h : ∀ kv ∈ a, kv.1 ≠ key) : del a key = a := by
  unfold del
  rw [List.filter_eq_self]
  intro kv hkv
  simpa using h kv hkv

theorem put_lt_all (lt : Key → Key → Bool) (l : OrdMap.Map) (key : Key) (v : Nat)
    (hne : ∀ kv ∈ l, kv.1 ≠ key) (h : ∀ kv ∈ l, lt key kv.1 = true) : put lt l key v = (key, v) :: l := by
  cases l with
  | nil => rfl
  | cons a l =>
    obtain ⟨k', v'⟩ := a
    have h1 : k' ≠ key := hne (k', v') (by simp)
    have h2 : lt key k' = true := h (k', v') (by simp)
    simp [put, h1, h2]

theorem put_append_right (lt : Key → Key → Bool) (a b : OrdMap.Map) (key : Key) (v : Nat)
    (hne : ∀ kv ∈ a, kv.1 ≠ key) (h : ∀ kv ∈ a, lt key kv.1 = false) :
    put lt (a ++ b) key v = a ++ put lt b key v := by
  induction a with
  | nil => rfl
  | cons x a ih =>
    obtain ⟨k', v'⟩ := x
    have h1 : k' ≠ key := hne (k', v') (by simp)
    have h2 : lt key k' = false := h (k', v') (by simp)
    simp only [List.cons_append, put, h1, if_false, h2]
    rw [ih (fun kv hkv => hne kv (by simp [hkv])) (fun kv hkv => h kv (by simp [hkv]))]
    simp

theorem put_append_left (lt : Key → Key → Bool) (a b : OrdMap.Map) (key : Key) (v : Nat)
    (hne : ∀ kv ∈ b, kv.1 ≠ key) (h : ∀ kv ∈ b, lt key kv.1 = true) :
    put lt (a ++ b) key v = put lt a key v ++ b := by
  induction a with
  | nil => simp [put_lt_all lt b key v hne h, put]
  | cons x a ih =>
    obtain ⟨k', v'⟩ := x
    simp only [List.cons_append, put]
    split
    · rfl
    · split
      · rfl
      · rw [ih]; rfl

theorem length_put_ge (lt : Key → Key → Bool) (l : OrdMap.Map) (key : Key) (v : Nat) :
    l.length ≤ (put lt l key v).length := by
  induction l with
  | nil => simp [put]
  | cons x l ih =>
    obtain ⟨k', v'⟩ := x
    simp only [put]
    split
    · simp
    · split
      · simp
      · simp only [List.length_cons]; omega

theorem length_put (lt : Key → Key → Bool) (l : OrdMap.Map) (key : Key) (v : Nat)
    (hs : ∀ kv ∈ l, lt key kv.1 = true → kv.1 ≠ key) (hsorted : Sorted lt l)
    (htr : ∀ a b c : Key, lt a b = true → lt b c = true → lt a c = true) :
    (put lt l key v).length = if (find l key).isNone then l.length + 1 else l.length := by
  induction l with
  | nil => simp [put, find]
  | cons x l ih =>
    obtain ⟨k', v'⟩ := x
    have hs' : ∀ kv ∈ l, lt key kv.1 = true → kv.1 ≠ key := fun kv hkv => hs kv (by simp [hkv])
    have hsorted' : Sorted lt l := (List.pairwise_cons.1 hsorted).2
    by_cases h1 : k' = key
    · simp [put, find, h1]
    · by_cases h2 : lt key k' = true
      · have hnone : find l key = none := by
          rw [find_none_iff]
          intro kv hkv
          have : lt k' kv.1 = true := (List.pairwise_cons.1 hsorted).1 kv hkv
          exact hs kv (by simp [hkv]) (htr _ _ _ h2 this)
        simp [put, find, h1, h2, hnone]
      · have h2' : lt key k' = false := by simpa using h2
        have e : put lt ((k', v') :: l) key v = (k', v') :: put lt l key v := by simp [put, h1, h2']
        have f : find ((k', v') :: l) key = find l key := by simp [find, h1]
        rw [e, f, List.length_cons, ih hs' hsorted']
        split <;> simp

/-! ### sizes -/

theorem singleLeaf_length (n : Node) (h : singleLeaf n = true) : (toList n).length = 1 := by
  unfold singleLeaf at h
  split at h
  · simp [toList]
  · cases h

theorem wf_not_leaf (k : Key) (v : Nat) (P : List Nat) (lb : Nat) : Node.wf (.leaf k v) P lb = false := by
  simp [Node.wf]

/-- a well-formed child holds at least one entry, a well-formed child *branch* at least two -/
theorem wfc_length (n : Node) : ∀ (Q : List Nat), wfc n Q = true →
    1 ≤ (toList n).length ∧ ((∃ c ch r, n = .cons c ch r) → 2 ≤ (toList n).length) := by
  induction n with
  | leaf k v => intro Q _; simp [toList]
  | nil => intro Q h; simp [wfc] at h
  | cons c ch rest ihc ihr =>
    intro Q h
    simp only [wfc, Bool.and_eq_true, Bool.not_eq_true'] at h
    obtain ⟨hwf, hns⟩ := h
    rw [wf_cons_iff] at hwf
    obtain ⟨_, _, h3, h4⟩ := hwf
    have hc := ihc (Q ++ [c]) h3
    have h2 : 2 ≤ (toList (.cons c ch rest)).length := by
      simp only [toList, List.length_append]
      cases ch with
      | nil => simp [wfc] at h3
      | cons c1 ch1 r1 => have := hc.2 ⟨_, _, _, rfl⟩; omega
      | leaf k v =>
        cases rest with
        | nil => simp [singleLeaf] at hns
        | leaf k2 v2 => simp [Node.wf] at h4
        | cons c2 ch2 r2 =>
          rw [wf_cons_iff] at h4
          have := (wfc_length_aux ch2 (Q ++ [c2]) h4.2.2.1)
          simp only [toList, List.length_append, List.length_cons, List.length_nil]
          omega
    exact ⟨by omega, fun _ => h2⟩
where
  wfc_length_aux (n : Node) (Q : List Nat) (h : wfc n Q = true) : 1 ≤ (toList n).length := by
    cases n with
    | leaf k v => simp [toList]
    | nil => simp [wfc] at h
    | cons c ch rest =>
      simp only [wfc, Bool.and_eq_true] at h
      have hwf := h.1
      rw [wf_cons_iff] at hwf
      have := wfc_length_aux ch (Q ++ [c]) hwf.2.2.1
      simp only [toList, List.length_append]
      omega

theorem wfc_depth (ch : Node) (Q : List Nat) (h : wfc ch Q = true) : Q.length ≤ 52 := by
  have hl := (wfc_length ch Q h).1
  match hm : toList ch with
  | [] => rw [hm] at hl; simp at hl
  | kv :: _ => exact agrees_length kv.1 Q (wfc_keys ch Q h kv (by rw [hm]; simp))

/-! ### lookups -/

theorem getRec_spec (n : Node) (key : Key) : ∀ (P : List Nat), agrees key P →
    (∀ lb, n.wf P lb = true → getRec n P.length key = find (toList n) key) ∧
    (wfc n P = true → getRec n P.length key = find (toList n) key) := by
  induction n with
  | leaf k v => intro P _; simp [Node.wf, getRec, toList, find]
  | nil => intro P _; simp [wfc, getRec, toList, find]
  | cons c ch rest ihc ihr =>
    intro P hag
    have hwf : ∀ lb, Node.wf (.cons c ch rest) P lb = true →
        getRec (.cons c ch rest) P.length key = find (toList (.cons c ch rest)) key := by
      intro lb h
      have hkeys := wf_keys' _ P lb h
      rw [wf_cons_iff] at h
      obtain ⟨_, _, h3, h4⟩ := h
      have hd : P.length < 52 := by have := wfc_depth ch _ h3; simp at this; omega
      simp only [getRec, toList]
      by_cases hx : chunkAt key P.length = c
      · rw [if_pos hx]
        have hag' : agrees key (P ++ [c]) := (agrees_snoc key P c).2 ⟨hag, hd, hx⟩
        have := (ihc (P ++ [c]) hag').2 h3
        simp only [List.length_append, List.length_cons, List.length_nil] at this
        rw [this, find_append_left]
        intro kv hkv e
        have := (wf_keys' rest P (c + 1) h4 kv hkv).2
        rw [e] at this; omega
      · rw [if_neg hx, (ihr P hag).1 (c + 1) h4, find_append_right]
        intro kv hkv e
        have := wfc_keys ch _ h3 kv hkv
        rw [agrees_snoc] at this
        rw [e] at this; exact hx this.2.2
    refine ⟨hwf, ?_⟩
    intro h
    simp only [wfc, Bool.and_eq_true] at h
    exact hwf 0 h.1

/-! ### order -/

theorem wf_sorted (n : Node) : ∀ (P : List Nat),
    (∀ lb, n.wf P lb = true → Sorted keyLt (toList n)) ∧ (wfc n P = true → Sorted keyLt (toList n)) := by
  induction n with
  | leaf k v => intro P; simp [Node.wf, toList, Sorted]
  | nil => intro P; simp [wfc, toList, Sorted]
  | cons c ch rest ihc ihr =>
    intro P
    have hwf : ∀ lb, Node.wf (.cons c ch rest) P lb = true → Sorted keyLt (toList (.cons c ch rest)) := by
      intro lb h
      rw [wf_cons_iff] at h
      obtain ⟨_, _, h3, h4⟩ := h
      have hd : P.length < 52 := by have := wfc_depth ch _ h3; simp at this; omega
      simp only [toList, Sorted, List.pairwise_append]
      refine ⟨(ihc (P ++ [c])).2 h3, (ihr P).1 (c + 1) h4, ?_⟩
      intro a ha b hb
      have h1 := wfc_keys ch _ h3 a ha
      rw [agrees_snoc] at h1
      have h2 := wf_keys' rest P (c + 1) h4 b hb
      exact keyLt_of_chunk a.1 b.1 P h1.1 h2.1 hd (by omega)
    refine ⟨hwf, ?_⟩
    intro h
    simp only [wfc, Bool.and_eq_true] at h
    exact hwf 0 h.1

theorem sorted_ne (l : OrdMap.Map) (h : Sorted keyLt l) : l.Pairwise (fun a b => a.1 ≠ b.1) :=
  List.Pairwise.imp (fun hab => keyLt_ne _ _ hab) h

/-! ### depth bound: a branch below the root holds two distinct valid keys, so it sits above depth 52 -/

theorem agrees_full_eq (k1 k2 : Key) (Q : List Nat) (h1 : ValidKey k1) (h2 : ValidKey k2)
    (a1 : agrees k1 Q) (a2 : agrees k2 Q) (hl : 52 ≤ Q.length) : k1 = k2 := by
  apply chunks_inj k1 k2 h1 h2
  intro d hd
  unfold agrees at a1 a2
  have e1 : chunks k1 = Q := by rw [← a1, List.take_of_length_le (by simp [chunks_length]; omega)]
  have e2 : chunks k2 = Q := by rw [← a2, List.take_of_length_le (by simp [chunks_length]; omega)]
  have g1 := chunks_getElem? k1 d hd
  have g2 := chunks_getElem? k2 d hd
  rw [e1] at g1; rw [e2] at g2
  rw [g1] at g2
  exact Option.some.inj g2

theorem wfc_chain_depth (c : Nat) (ch rest : Node) (Q : List Nat) (h : wfc (.cons c ch rest) Q = true)
    (hv : ∀ kv ∈ toList (.cons c ch rest), ValidKey kv.1) : Q.length < 52 := by
  have hl := (wfc_length _ Q h).2 ⟨_, _, _, rfl⟩
  have hs := sorted_ne _ ((wf_sorted _ Q).2 h)
  have hk := wfc_keys _ Q h
  match hm : toList (.cons c ch rest) with
  | [] => rw [hm] at hl; simp at hl
  | [_] => rw [hm] at hl; simp at hl
  | a :: b :: _ =>
    rw [hm] at hs hk hv
    have hne : a.1 ≠ b.1 := (List.pairwise_cons.1 hs).1 b (by simp)
    refine Nat.lt_of_not_le (fun hge => hne ?_)
    exact agrees_full_eq a.1 b.1 Q (hv a (by simp)) (hv b (by simp)) (hk a (by simp)) (hk b (by simp)) hge

/-! ### split_leaves -/

theorem splitLeaves_spec (f : Nat) : ∀ (Q : List Nat) (k1 : Key) (v1 : Nat) (k2 : Key) (v2 : Nat),
    ValidKey k1 → ValidKey k2 → k1 ≠ k2 → agrees k1 Q → agrees k2 Q → f + Q.length = 52 →
    ∃ c ch r, splitLeaves f Q.length k1 v1 k2 v2 = some (.cons c ch r) ∧
      Node.wf (.cons c ch r) Q 0 = true ∧ singleLeaf (.cons c ch r) = false ∧
      toList (.cons c ch r) = if keyLt k1 k2 then [(k1, v1), (k2, v2)] else [(k2, v2), (k1, v1)] := by
  induction f with
  | zero =>
    intro Q k1 v1 k2 v2 h1 h2 hne a1 a2 hl
    exact absurd (agrees_full_eq k1 k2 Q h1 h2 a1 a2 (by omega)) hne
  | succ f ih =>
    intro Q k1 v1 k2 v2 h1 h2 hne a1 a2 hl
    have hd : Q.length < 52 := by omega
    simp only [splitLeaves]
    by_cases hc : chunkAt k1 Q.length = chunkAt k2 Q.length
    · rw [if_pos hc]
      have a1' : agrees k1 (Q ++ [chunkAt k1 Q.length]) := (agrees_snoc _ _ _).2 ⟨a1, hd, rfl⟩
      have a2' : agrees k2 (Q ++ [chunkAt k1 Q.length]) := (agrees_snoc _ _ _).2 ⟨a2, hd, hc.symm⟩
      obtain ⟨c, ch, r, he, hwf, hsl, htl⟩ :=
        ih (Q ++ [chunkAt k1 Q.length]) k1 v1 k2 v2 h1 h2 hne a1' a2' (by simp; omega)
      simp only [List.length_append, List.length_cons, List.length_nil] at he
      refine ⟨chunkAt k1 Q.length, .cons c ch r, .nil, by rw [he]; rfl, ?_, by simp [singleLeaf], ?_⟩
      · rw [wf_cons_iff]
        refine ⟨Nat.zero_le _, chunkAt_lt _ _, ?_, by simp [Node.wf]⟩
        simp only [wfc, Bool.and_eq_true, Bool.not_eq_true']
        exact ⟨hwf, hsl⟩
      · simp only [toList, List.append_nil] at htl ⊢
        exact htl
    · rw [if_neg hc]
      by_cases hlt : chunkAt k1 Q.length < chunkAt k2 Q.length
      · rw [if_pos hlt]
        refine ⟨_, _, _, rfl, ?_, by simp [singleLeaf], ?_⟩
        · rw [wf_cons_iff]
          refine ⟨Nat.zero_le _, chunkAt_lt _ _, ?_, ?_⟩
          · simpa [wfc, agrees] using (agrees_snoc k1 Q _).2 ⟨a1, hd, rfl⟩
          · rw [wf_cons_iff]
            refine ⟨by omega, chunkAt_lt _ _, ?_, by simp [Node.wf]⟩
            simpa [wfc, agrees] using (agrees_snoc k2 Q _).2 ⟨a2, hd, rfl⟩
        · have := keyLt_of_chunk k1 k2 Q a1 a2 hd hlt
          simp [toList, this]
      · rw [if_neg hlt]
        have hgt : chunkAt k2 Q.length < chunkAt k1 Q.length := by omega
        refine ⟨_, _, _, rfl, ?_, by simp [singleLeaf], ?_⟩
        · rw [wf_cons_iff]
          refine ⟨Nat.zero_le _, chunkAt_lt _ _, ?_, ?_⟩
          · simpa [wfc, agrees] using (agrees_snoc k2 Q _).2 ⟨a2, hd, rfl⟩
          · rw [wf_cons_iff]
            refine ⟨by omega, chunkAt_lt _ _, ?_, by simp [Node.wf]⟩
            simpa [wfc, agrees] using (agrees_snoc k1 Q _).2 ⟨a1, hd, rfl⟩
        · have := keyLt_asymm _ _ (keyLt_of_chunk k2 k1 Q a2 a1 hd hgt)
          simp [toList, this]

/-! ### insert -/

theorem keyLt_total (k1 k2 : Key) (hne : k1 ≠ k2) (h : keyLt k1 k2 = false) (h1 : ValidKey k1) (h2 : ValidKey k2) :
    keyLt k2 k1 = true := by
  unfold keyLt at *
  rcases lexLt_total (chunks k1) (chunks k2) (by simp [chunks_length]) with h' | h' | h'
  · rw [h] at h'; cases h'
  · exfalso; apply hne
    apply chunks_inj k1 k2 h1 h2
    intro d hd
    have g1 := chunks_getElem? k1 d hd
    rw [h', chunks_getElem? k2 d hd] at g1
    exact (Option.some.inj g1).symm
  · exact h'

theorem insertRec_cons_lt (c : Nat) (ch rest : Node) (d : Nat) (key : Key) (v : Nat) (h : chunkAt key d < c) :
    insertRec (.cons c ch rest) d key v = some (.cons (chunkAt key d) (.leaf key v) (.cons c ch rest), none) := by
  rw [insertRec.eq_def]; simp only [h, if_true]

theorem insertRec_cons_gt (c : Nat) (ch rest : Node) (d : Nat) (key : Key) (v : Nat)
    (h1 : ¬ chunkAt key d < c) (h2 : ¬ chunkAt key d = c) :
    insertRec (.cons c ch rest) d key v =
      (insertRec rest d key v).map (fun r => (.cons c ch r.1, r.2)) := by
  rw [insertRec.eq_def]; simp only [h1, h2, if_false]

theorem insertRec_spec (n : Node) (key : Key) (v : Nat) (hk : ValidKey key) :
    ∀ (P : List Nat) (lb : Nat), agrees key P → P.length < 52 → (∀ kv ∈ toList n, ValidKey kv.1) →
      n.wf P lb = true → lb ≤ chunkAt key P.length →
      ∃ c ch r, insertRec n P.length key v = some (.cons c ch r, find (toList n) key) ∧
        Node.wf (.cons c ch r) P lb = true ∧ toList (.cons c ch r) = put keyLt (toList n) key v := by
  induction n with
  | leaf k w => intro P lb _ _ _ h; simp [Node.wf] at h
  | nil =>
    intro P lb hag hd _ _ hlb
    refine ⟨chunkAt key P.length, .leaf key v, .nil, by simp [insertRec, toList, find], ?_, by simp [toList, put]⟩
    rw [wf_cons_iff]
    refine ⟨hlb, chunkAt_lt _ _, ?_, by simp [Node.wf]⟩
    simpa [wfc, agrees] using (agrees_snoc key P _).2 ⟨hag, hd, rfl⟩
  | cons c ch rest ihc ihr =>
    intro P lb hag hd hv hwf hlb
    have hwf0 := hwf
    rw [wf_cons_iff] at hwf
    obtain ⟨h1, h2, h3, h4⟩ := hwf
    have hvc : ∀ kv ∈ toList ch, ValidKey kv.1 := fun kv hkv => hv kv (by simp [toList, hkv])
    have hvr : ∀ kv ∈ toList rest, ValidKey kv.1 := fun kv hkv => hv kv (by simp [toList, hkv])
    have hkc := wfc_keys ch _ h3
    have hkr := wf_keys' rest P (c + 1) h4
    have hleaf : wfc (.leaf key v) (P ++ [chunkAt key P.length]) = true := by
      simpa [wfc, agrees] using (agrees_snoc key P _).2 ⟨hag, hd, rfl⟩
    by_cases hx1 : chunkAt key P.length < c
    · -- new smallest chunk
      have hall : ∀ kv ∈ toList (.cons c ch rest), keyLt key kv.1 = true := by
        intro kv hkv
        have hc : Node.wf (.cons c ch rest) P c = true := by
          rw [wf_cons_iff]; exact ⟨Nat.le_refl _, h2, h3, h4⟩
        have := wf_keys' _ P c hc kv hkv
        exact keyLt_of_chunk key kv.1 P hag this.1 hd (by omega)
      have hne : ∀ kv ∈ toList (.cons c ch rest), kv.1 ≠ key :=
        fun kv hkv e => keyLt_ne _ _ (hall kv hkv) e.symm
      refine ⟨chunkAt key P.length, .leaf key v, .cons c ch rest, ?_, ?_, ?_⟩
      · rw [insertRec_cons_lt _ _ _ _ _ _ hx1, (find_none_iff _ key).2 hne]
      · rw [wf_cons_iff]
        refine ⟨hlb, chunkAt_lt _ _, hleaf, ?_⟩
        rw [wf_cons_iff]; exact ⟨by omega, h2, h3, h4⟩
      · rw [put_lt_all keyLt _ key v hne hall]; rfl
    · by_cases hx2 : chunkAt key P.length = c
      · -- same chunk: replace, split or descend
        have hag' : agrees key (P ++ [c]) := (agrees_snoc key P c).2 ⟨hag, hd, hx2⟩
        have hner : ∀ kv ∈ toList rest, kv.1 ≠ key := by
          intro kv hkv e
          have := (hkr kv hkv).2
          rw [e] at this; omega
        have hltr : ∀ kv ∈ toList rest, keyLt key kv.1 = true := by
          intro kv hkv
          exact keyLt_of_chunk key kv.1 P hag (hkr kv hkv).1 hd (by have := (hkr kv hkv).2; omega)
        cases ch with
        | nil => simp [wfc] at h3
        | leaf k' v' =>
          by_cases hkk : k' = key
          · subst hkk
            refine ⟨c, .leaf k' v, rest, ?_, ?_, ?_⟩
            · simp [insertRec, hx2, toList, find]
            · rw [wf_cons_iff]; exact ⟨h1, h2, by simpa [wfc] using h3, h4⟩
            · simp [toList, put]
          · have hvk' : ValidKey k' := hvc (k', v') (by simp [toList])
            have hag2 : agrees k' (P ++ [c]) := hkc (k', v') (by simp [toList])
            obtain ⟨c2, ch2, r2, he, hwf2, hsl2, htl2⟩ :=
              splitLeaves_spec (52 - (P.length + 1)) (P ++ [c]) k' v' key v hvk' hk hkk hag2 hag'
                (by simp; omega)
            simp only [List.length_append, List.length_cons, List.length_nil] at he
            refine ⟨c, .cons c2 ch2 r2, rest, ?_, ?_, ?_⟩
            · simp only [insertRec, hx2, Nat.lt_irrefl, if_false, if_true, hkk, numChunks_eq, he, Option.map_some]
              have : find (toList (.cons c (.leaf k' v') rest)) key = none := by
                rw [find_none_iff]
                intro kv hkv
                simp only [toList, List.mem_append, List.mem_singleton] at hkv
                rcases hkv with hkv | hkv
                · rw [hkv]; exact hkk
                · exact hner kv hkv
              rw [this]
            · rw [wf_cons_iff]
              refine ⟨h1, h2, ?_, h4⟩
              simp only [wfc, Bool.and_eq_true, Bool.not_eq_true']
              exact ⟨hwf2, hsl2⟩
            · simp only [toList] at htl2 ⊢
              rw [htl2]
              simp only [List.singleton_append, put, hkk, if_false]
              by_cases hlt : keyLt k' key = true
              · rw [if_pos hlt, keyLt_asymm _ _ hlt]
                simp [put_lt_all keyLt _ key v hner hltr]
              · have hlt' : keyLt k' key = false := by simpa using hlt
                rw [hlt', keyLt_total k' key hkk hlt' hvk' hk]
                simp
        | cons c' ch' rest' =>
          have hdep : (P ++ [c]).length < 52 := wfc_chain_depth c' ch' rest' _ h3 hvc
          have hwfch : Node.wf (.cons c' ch' rest') (P ++ [c]) 0 = true := by
            simp only [wfc, Bool.and_eq_true] at h3; exact h3.1
          obtain ⟨c2, ch2, r2, he, hwf2, htl2⟩ := ihc (P ++ [c]) 0 hag' hdep hvc hwfch (Nat.zero_le _)
          simp only [List.length_append, List.length_cons, List.length_nil] at he
          refine ⟨c, .cons c2 ch2 r2, rest, ?_, ?_, ?_⟩
          · simp only [insertRec, hx2, Nat.lt_irrefl, if_false, if_true, he, Option.map_some]
            simp only [toList]
            rw [find_append_left _ _ _ hner]
          · rw [wf_cons_iff]
            refine ⟨h1, h2, ?_, h4⟩
            simp only [wfc, Bool.and_eq_true, Bool.not_eq_true']
            refine ⟨hwf2, ?_⟩
            have hl2 := (wfc_length _ _ h3).2 ⟨_, _, _, rfl⟩
            have hge := length_put_ge keyLt (toList (.cons c' ch' rest')) key v
            rw [← htl2] at hge
            cases hs : singleLeaf (.cons c2 ch2 r2) with
            | false => rfl
            | true => have := singleLeaf_length _ hs; omega
          · simp only [toList] at htl2 ⊢
            rw [htl2, put_append_left keyLt _ _ key v hner hltr]
      · -- larger chunk: continue along the chain
        have hgt : c + 1 ≤ chunkAt key P.length := by omega
        obtain ⟨c2, ch2, r2, he, hwf2, htl2⟩ := ihr P (c + 1) hag hd hvr h4 hgt
        have hnec : ∀ kv ∈ toList ch, kv.1 ≠ key := by
          intro kv hkv e
          have := hkc kv hkv
          rw [agrees_snoc, e] at this
          exact hx2 this.2.2
        have hltc : ∀ kv ∈ toList ch, keyLt key kv.1 = false := by
          intro kv hkv
          have := hkc kv hkv
          rw [agrees_snoc] at this
          exact keyLt_asymm _ _ (keyLt_of_chunk kv.1 key P this.1 hag hd (by omega))
        refine ⟨c, ch, .cons c2 ch2 r2, ?_, ?_, ?_⟩
        · rw [insertRec_cons_gt _ _ _ _ _ _ hx1 hx2, he]
          simp only [Option.map_some, toList]
          rw [find_append_right _ _ _ hnec]
        · rw [wf_cons_iff]; exact ⟨h1, h2, h3, hwf2⟩
        · simp only [toList] at htl2 ⊢
          rw [htl2, put_append_right keyLt _ _ key v hnec hltc]

/-! ### remove -/

theorem removeRec_cons_ne (c : Nat) (ch rest : Node) (d : Nat) (key : Key) (h : ¬ chunkAt key d = c) :
    removeRec (.cons c ch rest) d key = (.cons c ch (removeRec rest d key).1, (removeRec rest d key).2) := by
  rw [removeRec.eq_def]; simp only [h, if_false]

theorem singleLeaf_inv (n : Node) (h : singleLeaf n = true) : ∃ c k v, n = .cons c (.leaf k v) .nil := by
  unfold singleLeaf at h
  split at h
  · exact ⟨_, _, _, rfl⟩
  · cases h

theorem collapse_toList (n : Node) : toList (collapse n) = toList n := by
  unfold collapse
  split
  · simp [toList]
  · rfl

theorem collapse_of_not_single (n : Node) (h : singleLeaf n = false) : collapse n = n := by
  unfold collapse
  split
  · simp [singleLeaf] at h
  · rfl

theorem length_del_ge (l : OrdMap.Map) (key : Key) (h : Sorted keyLt l) : l.length ≤ (del l key).length + 1 := by
  induction l with
  | nil => simp
  | cons x l ih =>
    obtain ⟨k, v⟩ := x
    have hs := List.pairwise_cons.1 h
    by_cases hk : k = key
    · subst hk
      have h1 : del l k = l := by
        apply del_of_not_mem
        intro kv hkv e
        exact keyLt_ne _ _ (hs.1 kv hkv) e.symm
      have h2 : del ((k, v) :: l) k = del l k := by simp [del]
      rw [h2, h1]; simp
    · have := ih hs.2
      simp only [del, List.filter_cons, hk, ne_eq, not_false_eq_true, decide_true, if_true, List.length_cons] at this ⊢
      omega

theorem removeRec_spec (n : Node) (key : Key) : ∀ (P : List Nat) (lb : Nat), agrees key P →
    n.wf P lb = true →
    (removeRec n P.length key).2 = find (toList n) key ∧
    toList (removeRec n P.length key).1 = del (toList n) key ∧
    (removeRec n P.length key).1.wf P lb = true ∧
    ((removeRec n P.length key).2 = none → (removeRec n P.length key).1 = n) := by
  induction n with
  | leaf k w => intro P lb _ h; simp [Node.wf] at h
  | nil => intro P lb _ _; simp [removeRec, toList, find, del, Node.wf]
  | cons c ch rest ihc ihr =>
    intro P lb hag hwf
    have hwf0 := hwf
    rw [wf_cons_iff] at hwf
    obtain ⟨h1, h2, h3, h4⟩ := hwf
    have hd : P.length < 52 := by have := wfc_depth ch _ h3; simp at this; omega
    have hkc := wfc_keys ch _ h3
    have hkr := wf_keys' rest P (c + 1) h4
    by_cases hx : chunkAt key P.length = c
    · have hag' : agrees key (P ++ [c]) := (agrees_snoc key P c).2 ⟨hag, hd, hx⟩
      have hner : ∀ kv ∈ toList rest, kv.1 ≠ key := by
        intro kv hkv e
        have := (hkr kv hkv).2
        rw [e] at this; omega
      cases ch with
      | nil => simp [wfc] at h3
      | leaf k' v' =>
        by_cases hkk : k' = key
        · subst hkk
          have e : removeRec (.cons c (.leaf k' v') rest) P.length k' = (rest, some v') := by
            simp only [removeRec, hx, if_true]
          rw [e]
          refine ⟨by simp [toList, find], ?_, wf_mono _ _ _ _ h4 (by omega), by simp⟩
          have h2 : del (toList (.cons c (.leaf k' v') rest)) k' = del (toList rest) k' := by simp [del, toList]
          rw [h2, del_of_not_mem _ k' hner]
        · have hnone : ∀ kv ∈ toList (.cons c (.leaf k' v') rest), kv.1 ≠ key := by
            intro kv hkv
            simp only [toList, List.mem_append, List.mem_singleton] at hkv
            rcases hkv with hkv | hkv
            · rw [hkv]; exact hkk
            · exact hner kv hkv
          have e : removeRec (.cons c (.leaf k' v') rest) P.length key = (.cons c (.leaf k' v') rest, none) := by
            simp only [removeRec, hx, if_true, hkk, if_false]
          rw [e]
          exact ⟨((find_none_iff _ key).2 hnone).symm, (del_of_not_mem _ key hnone).symm, hwf0, fun _ => rfl⟩
      | cons c' ch' rest' =>
        have hwfch : Node.wf (.cons c' ch' rest') (P ++ [c]) 0 = true := by
          simp only [wfc, Bool.and_eq_true] at h3; exact h3.1
        have ih := ihc (P ++ [c]) 0 hag' hwfch
        simp only [List.length_append, List.length_cons, List.length_nil] at ih
        rcases hr : removeRec (.cons c' ch' rest') (P.length + 1) key with ⟨sub, _ | old⟩
        · rw [hr] at ih
          obtain ⟨i1, _, _, _⟩ := ih
          simp only at i1
          have hnec : ∀ kv ∈ toList (.cons c' ch' rest'), kv.1 ≠ key := (find_none_iff _ key).1 i1.symm
          have hnone : ∀ kv ∈ toList (.cons c (.cons c' ch' rest') rest), kv.1 ≠ key := by
            intro kv hkv
            simp only [toList, List.mem_append] at hkv hnec
            rcases hkv with hkv | hkv
            · exact hnec kv (by simpa [List.mem_append] using hkv)
            · exact hner kv hkv
          have e : removeRec (.cons c (.cons c' ch' rest') rest) P.length key = (.cons c (.cons c' ch' rest') rest, none) := by
            simp only [removeRec, hx, if_true, hr]
          rw [e]
          exact ⟨((find_none_iff _ key).2 hnone).symm, (del_of_not_mem _ key hnone).symm, hwf0, fun _ => rfl⟩
        · rw [hr] at ih
          obtain ⟨i1, i2, i3, _⟩ := ih
          simp only at i1 i2 i3
          have e : removeRec (.cons c (.cons c' ch' rest') rest) P.length key = (.cons c (collapse sub) rest, some old) := by
            simp only [removeRec, hx, if_true, hr]
          rw [e]
          refine ⟨?_, ?_, ?_, by simp⟩
          · simp only [toList]
            rw [find_append_left _ _ _ hner]
            simpa [toList] using i1
          · simp only [toList, collapse_toList] at i2 ⊢
            rw [del_append, del_of_not_mem _ key hner, i2]
          · rw [wf_cons_iff]
            refine ⟨h1, h2, ?_, h4⟩
            have hl2 := (wfc_length _ _ h3).2 ⟨_, _, _, rfl⟩
            have hge := length_del_ge _ key ((wf_sorted _ (P ++ [c])).2 h3)
            rw [← i2] at hge
            cases hs : singleLeaf sub with
            | true =>
              obtain ⟨c2, k2, v2, e⟩ := singleLeaf_inv sub hs
              subst e
              have := (wf_keys' _ _ 0 i3 (k2, v2) (by simp [toList])).1
              simpa [collapse, wfc, agrees] using this
            | false =>
              rw [collapse_of_not_single _ hs]
              cases sub with
              | leaf k w => simp [Node.wf] at i3
              | nil => have h0 : (toList Node.nil).length = 0 := rfl; omega
              | cons c2 ch2 r2 =>
                simp only [wfc, Bool.and_eq_true, Bool.not_eq_true']
                exact ⟨i3, hs⟩
    · have hnec : ∀ kv ∈ toList ch, kv.1 ≠ key := by
        intro kv hkv e
        have := hkc kv hkv
        rw [agrees_snoc, e] at this
        exact hx this.2.2
      obtain ⟨i1, i2, i3, i4⟩ := ihr P (c + 1) hag h4
      rw [removeRec_cons_ne _ _ _ _ _ hx]
      refine ⟨?_, ?_, ?_, ?_⟩
      · simp only [toList]; rw [find_append_right _ _ _ hnec]; exact i1
      · simp only [toList]; rw [del_append, del_of_not_mem _ key hnec, i2]
      · rw [wf_cons_iff]; exact ⟨h1, h2, h3, i3⟩
      · intro hn; simp only at hn ⊢; rw [i4 hn]

/-! ### canonical structure -/

theorem filter_append_left {α : Type} (A B : List α) (p : α → Bool) (hA : ∀ x ∈ A, p x = true)
    (hB : ∀ x ∈ B, p x = false) : (A ++ B).filter p = A := by
  rw [List.filter_append, List.filter_eq_self.2 hA, List.filter_eq_nil_iff.2 (by simpa using hB)]
  simp

theorem filter_append_right {α : Type} (A B : List α) (p : α → Bool) (hA : ∀ x ∈ A, p x = false)
    (hB : ∀ x ∈ B, p x = true) : (A ++ B).filter p = B := by
  rw [List.filter_append, List.filter_eq_self.2 hB, List.filter_eq_nil_iff.2 (by simpa using hA)]
  simp

theorem wfc_ne_nil (n : Node) (Q : List Nat) (h : wfc n Q = true) : ∃ a t, toList n = a :: t := by
  have := (wfc_length n Q h).1
  match hm : toList n with
  | [] => rw [hm] at this; simp at this
  | a :: t => exact ⟨a, t, rfl⟩

/-- two well-formed tries over the same path with the same contents are the same tree -/
theorem canonical_aux (n1 : Node) : ∀ (n2 : Node) (P : List Nat),
    (∀ lb1 lb2, n1.wf P lb1 = true → n2.wf P lb2 = true → toList n1 = toList n2 → n1 = n2) ∧
    (wfc n1 P = true → wfc n2 P = true → toList n1 = toList n2 → n1 = n2) := by
  induction n1 with
  | leaf k v =>
    intro n2 P
    refine ⟨by simp [Node.wf], ?_⟩
    intro _ h2 he
    cases n2 with
    | leaf k2 v2 => simp only [toList, List.cons.injEq, Prod.mk.injEq, and_true] at he; rw [he.1, he.2]
    | nil => simp [wfc] at h2
    | cons c2 ch2 r2 =>
      have := (wfc_length _ P h2).2 ⟨_, _, _, rfl⟩
      rw [← he] at this; simp [toList] at this
  | nil =>
    intro n2 P
    refine ⟨?_, by simp [wfc]⟩
    intro lb1 lb2 _ h2 he
    cases n2 with
    | leaf k2 v2 => simp [Node.wf] at h2
    | nil => rfl
    | cons c2 ch2 r2 =>
      rw [wf_cons_iff] at h2
      obtain ⟨a, t, hm⟩ := wfc_ne_nil _ _ h2.2.2.1
      simp [toList, hm] at he
  | cons c ch rest ihc ihr =>
    intro n2 P
    have hwf : ∀ lb1 lb2, Node.wf (.cons c ch rest) P lb1 = true → n2.wf P lb2 = true →
        toList (.cons c ch rest) = toList n2 → .cons c ch rest = n2 := by
      intro lb1 lb2 h1 h2 he
      rw [wf_cons_iff] at h1
      obtain ⟨_, _, h13, h14⟩ := h1
      cases n2 with
      | leaf k2 v2 => simp [Node.wf] at h2
      | nil =>
        obtain ⟨a, t, hm⟩ := wfc_ne_nil _ _ h13
        simp [toList, hm] at he
      | cons c2 ch2 r2 =>
        rw [wf_cons_iff] at h2
        obtain ⟨_, _, h23, h24⟩ := h2
        have k1c := wfc_keys ch _ h13
        have k2c := wfc_keys ch2 _ h23
        have k1r := wf_keys' rest P (c + 1) h14
        have k2r := wf_keys' r2 P (c2 + 1) h24
        simp only [toList] at he
        -- the first entry fixes the chunk
        have hc : c = c2 := by
          obtain ⟨a, t, hm⟩ := wfc_ne_nil _ _ h13
          obtain ⟨a2, t2, hm2⟩ := wfc_ne_nil _ _ h23
          rw [hm, hm2] at he
          simp only [List.cons_append, List.cons.injEq] at he
          have e1 := k1c a (by rw [hm]; simp)
          have e2 := k2c a2 (by rw [hm2]; simp)
          rw [agrees_snoc] at e1 e2
          rw [← e1.2.2, ← e2.2.2, he.1]
        subst hc
        let p : Key × Nat → Bool := fun kv => decide (chunkAt kv.1 P.length = c)
        have p1c : ∀ x ∈ toList ch, p x = true := by
          intro x hx; have := k1c x hx; rw [agrees_snoc] at this; simp [p, this.2.2]
        have p2c : ∀ x ∈ toList ch2, p x = true := by
          intro x hx; have := k2c x hx; rw [agrees_snoc] at this; simp [p, this.2.2]
        have p1r : ∀ x ∈ toList rest, p x = false := by
          intro x hx; have := (k1r x hx).2; simp only [p, decide_eq_false_iff_not]; omega
        have p2r : ∀ x ∈ toList r2, p x = false := by
          intro x hx; have := (k2r x hx).2; simp only [p, decide_eq_false_iff_not]; omega
        have ec : toList ch = toList ch2 := by
          rw [← filter_append_left _ _ p p1c p1r, ← filter_append_left _ _ p p2c p2r, he]
        have er : toList rest = toList r2 := by
          have q1c : ∀ x ∈ toList ch, (!p x) = false := fun x hx => by simp [p1c x hx]
          have q2c : ∀ x ∈ toList ch2, (!p x) = false := fun x hx => by simp [p2c x hx]
          have q1r : ∀ x ∈ toList rest, (!p x) = true := fun x hx => by simp [p1r x hx]
          have q2r : ∀ x ∈ toList r2, (!p x) = true := fun x hx => by simp [p2r x hx]
          rw [← filter_append_right _ _ (fun x => !p x) q1c q1r, ← filter_append_right _ _ (fun x => !p x) q2c q2r, he]
        rw [(ihc ch2 (P ++ [c])).2 h13 h23 ec, (ihr r2 P).1 (c + 1) (c + 1) h14 h24 er]
    refine ⟨hwf, ?_⟩
    intro h1 h2 he
    cases n2 with
    | leaf k2 v2 =>
      have := (wfc_length _ P h1).2 ⟨_, _, _, rfl⟩
      rw [he] at this; simp [toList] at this
    | nil => simp [wfc] at h2
    | cons c2 ch2 r2 =>
      simp only [wfc, Bool.and_eq_true] at h1 h2
      exact hwf 0 0 h1.1 h2.1 he

end AgModel.Trie
