import AgModel.Proofs.BlockstoreCount
/-! The exact (completeness) invariant of `AgModel.Blockstore.addShredCore` for a correct leader's block:
    the dissemination `BlockData` is a *function of the set of delivered shreds* (core Lean only). -/
namespace AgModel.Blockstore
open AgModel.Merkle HBlock

theorem ite_iff {α : Type} {p q : Prop} [Decidable p] [Decidable q] (h : p ↔ q) (a b : α) :
    (if p then a else b) = (if q then a else b) := by
  by_cases hp : p
  · rw [if_pos hp, if_pos (h.mp hp)]
  · rw [if_neg hp, if_neg (fun hq => hp (h.mpr hq))]

/-- the shred array of slice `i` after the deliveries `D`: the delivered shreds while fewer than
    `DATA_SHREDS` arrived, all `TOTAL_SHREDS` (refilled by the decoder) from then on -/
def arrOf (B : HBlock) (D : DSet) (i : Nat) : ShredArr :=
  fun j => if j < TOTAL_SHREDS ∧ (D i j = true ∨ DATA_SHREDS ≤ cnt D i) then some (B.shred i j) else none

/-- the dissemination `BlockData` as a function of the delivered sets (`Dc` for the commitment cache,
    `Dl` for the last-slice marker, `D` for the rest: the three stages of `add_shred` move them one
    after the other from `D` to `D ∪ {s}`) -/
structure Exact (B : HBlock) (cap : Nat) (Dc Dl D : DSet) (b : BlockData) : Prop where
  hcap : b.cap = cap
  hslot : b.slot = B.slot
  cache : ∀ i, b.cache i = if i < B.n ∧ 0 < cnt Dc i then some (B.commit i) else none
  last : b.lastSlice = if 0 < cnt Dl (B.n - 1) then some (B.n - 1) else none
  shreds : ∀ i, b.shreds i = if i < B.n ∧ 0 < cnt D i then some (arrOf B D i) else none
  slices : ∀ i, b.slices i = if ¬ Full B D ∧ i < B.n ∧ DATA_SHREDS ≤ cnt D i then some (B.rslice i) else none
  completed : b.completed = if Full B D then some B.block else none
  tree : b.tree = if Full B D then some B.roots else none

theorem exact_new (B : HBlock) (cap : Nat) (D : DSet) (hD : ∀ i, cnt D i = 0) (hn : 0 < B.n) :
    Exact B cap D D D (BlockData.new cap B.slot) := by
  have hnf : ¬ Full B D := by
    intro hf; have := hf 0 hn; rw [hD] at this; exact absurd this (by decide)
  constructor <;> simp [BlockData.new, hD, hnf]
  intro _ _; decide

/-! ### stage 1: the commitment cache -/

theorem cacheStep_exact (B : HBlock) (cap : Nat) (D : DSet) (b : BlockData) (s : Shred)
    (hg : Exact B cap D D D b) (hs : B.Honest s) :
    ∃ b1, cacheStep b s = some b1 ∧ Exact B cap (dadd D s) D D b1 := by
  obtain ⟨hlt, hidx, heq⟩ := hs
  have hcom : s.commitment = B.commit s.slice := congrArg Shred.commitment heq
  have hpos := cnt_add_pos D s hidx
  unfold cacheStep
  cases hc : b.cache s.slice with
  | some c =>
    have hc' := hc
    rw [hg.cache] at hc'
    split at hc'
    · rename_i hcond
      simp only [Option.some.injEq] at hc'
      simp only
      rw [if_neg (by rw [← hc', hcom]; simp)]
      refine ⟨b, rfl, ⟨hg.hcap, hg.hslot, ?_, hg.last, hg.shreds, hg.slices, hg.completed, hg.tree⟩⟩
      intro i
      rw [hg.cache i]
      apply ite_iff
      by_cases hi : i = s.slice
      · subst hi; constructor
        · intro _; exact ⟨hlt, hpos⟩
        · intro _; exact hcond
      · rw [cnt_add_other D s i hi]
    · simp at hc'
  | none =>
    refine ⟨_, rfl, ⟨hg.hcap, hg.hslot, ?_, hg.last, hg.shreds, hg.slices, hg.completed, hg.tree⟩⟩
    intro i
    simp only [upd]
    split
    · rename_i hi; subst hi
      rw [if_pos ⟨hlt, hpos⟩, hcom]
    · rename_i hi
      rw [hg.cache i, cnt_add_other D s i hi]

/-! ### stage 2: the last-slice marker -/

theorem lastStep_exact (B : HBlock) (cap : Nat) (D : DSet) (b : BlockData) (s : Shred)
    (hg : Exact B cap (dadd D s) D D b) (hs : B.Honest s) :
    ∃ b2, lastStep b s = some b2 ∧ Exact B cap (dadd D s) (dadd D s) D b2 := by
  obtain ⟨hlt, hidx, heq⟩ := hs
  have hil : s.isLast = decide (s.slice + 1 = B.n) := congrArg Shred.isLast heq
  have hpos := cnt_add_pos D s hidx
  unfold lastStep
  rw [hg.last]
  by_cases hp : 0 < cnt D (B.n - 1)
  · simp only [hp, if_true]
    have : ((decide (s.slice < B.n - 1) && !s.isLast) || (s.slice == B.n - 1 && s.isLast)) = true := by
      rw [hil]
      by_cases h1 : s.slice + 1 = B.n
      · have : s.slice = B.n - 1 := by omega
        simp [h1, this] <;> omega
      · have : s.slice < B.n - 1 := by omega
        simp [h1, this]
    rw [if_pos this]
    refine ⟨b, rfl, ⟨hg.hcap, hg.hslot, hg.cache, ?_, hg.shreds, hg.slices, hg.completed, hg.tree⟩⟩
    rw [hg.last, if_pos hp, if_pos (by have := cnt_mono D s (B.n - 1); omega)]
  · simp only [hp, if_false]
    by_cases hlast : s.isLast = true
    · simp only [hlast, if_true]
      have hn : s.slice + 1 = B.n := by rw [hil] at hlast; simpa using hlast
      have hsl : s.slice = B.n - 1 := by omega
      have : hasKeyAbove b.cap b.cache s.slice = false := by
        apply hasKeyAbove_false
        intro i hi
        rw [hg.cache i] at hi
        split at hi
        · omega
        · simp at hi
      simp only [this, Bool.false_eq_true, if_false]
      refine ⟨_, rfl, ⟨hg.hcap, hg.hslot, hg.cache, ?_, ?_, ?_, hg.completed, hg.tree⟩⟩
      · simp only [markLastSlice]
        rw [← hsl, if_pos hpos]
      · intro i
        simp only [markLastSlice, retainLe]
        split
        · exact hg.shreds i
        · rw [if_neg (by omega)]
      · intro i
        simp only [markLastSlice, retainLe]
        split
        · exact hg.slices i
        · rw [if_neg (by omega)]
    · simp only [hlast, Bool.false_eq_true, if_false]
      have hne : B.n - 1 ≠ s.slice := by
        intro h
        apply hlast; rw [hil]; simp; omega
      refine ⟨b, rfl, ⟨hg.hcap, hg.hslot, hg.cache, ?_, hg.shreds, hg.slices, hg.completed, hg.tree⟩⟩
      rw [hg.last, cnt_add_other D s _ hne]

/-! ### the decoder on an array of the leader's shreds -/

theorem layoutOk_honest (B : HBlock) (i : Nat) (hsz : B.sz i ≠ 0) (f : Shred) (rest : List Shred)
    (hall : ∀ s ∈ f :: rest, ∃ j, s = B.shred i j) : layoutOk (f :: rest) = true := by
  obtain ⟨j0, hf⟩ := hall f (List.mem_cons_self)
  unfold layoutOk
  simp only [Bool.and_eq_true, decide_eq_true_eq, List.all_eq_true]
  refine ⟨⟨?_, ?_⟩, ?_⟩
  · rw [hf]; exact hsz
  · intro s hs; obtain ⟨j, rfl⟩ := hall s hs; rw [hf]; simp [HBlock.shred]
  · intro s hs; obtain ⟨j, rfl⟩ := hall s hs; simp [HBlock.shred]

theorem present_honest (B : HBlock) (i : Nat) (arr : ShredArr)
    (harr : ∀ j s, arr j = some s → j < TOTAL_SHREDS ∧ s = B.shred i j) :
    ∀ s ∈ present arr, ∃ j, s = B.shred i j := by
  intro s hs
  unfold present at hs
  simp only [List.mem_filterMap, List.mem_range] at hs
  obtain ⟨j, _, hj⟩ := hs
  exact ⟨j, (harr j s hj).2⟩

theorem deshred_lt (B : HBlock) (env : Nat → Content) (cap : Nat) (hwf : B.WF env cap) (i : Nat)
    (arr : ShredArr) (harr : ∀ j s, arr j = some s → j < TOTAL_SHREDS ∧ s = B.shred i j)
    (hlen : (present arr).length < DATA_SHREDS) : deshred env arr = .notEnough := by
  have hpres := present_honest B i arr harr
  unfold deshred
  cases hp : present arr with
  | nil => rfl
  | cons f rest =>
    simp only
    rw [hp] at hpres hlen
    rw [layoutOk_honest B i (hwf.szpos i) f rest hpres]
    simp only [Bool.not_true, Bool.false_eq_true, if_false]
    rw [if_pos hlen]

theorem deshred_ge (B : HBlock) (env : Nat → Content) (cap : Nat) (hwf : B.WF env cap) (i : Nat) (hi : i < B.n)
    (arr : ShredArr) (harr : ∀ j s, arr j = some s → j < TOTAL_SHREDS ∧ s = B.shred i j)
    (hlen : DATA_SHREDS ≤ (present arr).length) :
    deshred env arr = .ok (B.rslice i) (fun j => if j < TOTAL_SHREDS then some (B.shred i j) else arr j) := by
  have hpres := present_honest B i arr harr
  unfold deshred
  cases hp : present arr with
  | nil => rw [hp] at hlen; exact absurd hlen (by decide)
  | cons f rest =>
    simp only
    rw [hp] at hpres hlen
    rw [layoutOk_honest B i (hwf.szpos i) f rest hpres]
    simp only [Bool.not_true, Bool.false_eq_true, if_false]
    rw [if_neg (by omega)]
    obtain ⟨j0, hf⟩ := hpres f (List.mem_cons_self)
    have henv : env f.root = .ok (B.parent i) (some (B.txs i)) := by rw [hf]; exact hwf.envok i hi
    rw [henv]
    simp only
    have h1 : (⟨f.slice, f.isLast, f.root, B.parent i, some (B.txs i)⟩ : RSlice) = B.rslice i := by rw [hf]; rfl
    have h2 : refill f arr = fun j => if j < TOTAL_SHREDS then some (B.shred i j) else arr j := by
      funext j
      unfold refill
      split
      · cases hold : arr j with
        | some s' => simp only; rw [(harr j s' hold).2]
        | none => simp only; rw [hf]; rfl
      · rfl
    rw [h1, h2]

/-! ### stage 3: storing and reconstruction -/

theorem arrOf_add_other (B : HBlock) (D : DSet) (s : Shred) (i : Nat) (h : i ≠ s.slice) :
    arrOf B (dadd D s) i = arrOf B D i := by
  funext j
  unfold arrOf
  rw [cnt_add_other D s i h]
  have : dadd D s i j = D i j := by simp [dadd, h]
  rw [this]

theorem arrOf_of_ge (B : HBlock) (D : DSet) (i : Nat) (h : DATA_SHREDS ≤ cnt D i) :
    arrOf B D i = fun j => if j < TOTAL_SHREDS then some (B.shred i j) else none := by
  funext j
  unfold arrOf
  apply ite_iff
  constructor
  · intro h'; exact h'.1
  · intro h'; exact ⟨h', Or.inr h⟩

theorem arrOf_honest (B : HBlock) (D : DSet) (i : Nat) :
    ∀ j x, arrOf B D i j = some x → j < TOTAL_SHREDS ∧ x = B.shred i j := by
  intro j x h
  unfold arrOf at h
  split at h
  · rename_i hc; simp at h; exact ⟨hc.1, h.symm⟩
  · simp at h

/-- storing a new shred while the slice stays below the decoding threshold -/
theorem arrOf_upd_small (B : HBlock) (D : DSet) (s : Shred) (hs : B.Honest s)
    (hlt : cnt (dadd D s) s.slice < DATA_SHREDS) :
    upd (arrOf B D s.slice) s.idx (some s) = arrOf B (dadd D s) s.slice := by
  obtain ⟨_, hidx, heq⟩ := hs
  have hlt' : cnt D s.slice < DATA_SHREDS := by have := cnt_mono D s s.slice; omega
  funext j
  unfold upd arrOf
  by_cases hj : j = s.idx
  · subst hj
    rw [if_pos rfl, if_pos ⟨hidx, Or.inl (by simp [dadd])⟩]
    exact congrArg some heq
  · rw [if_neg hj]
    apply ite_iff
    have : dadd D s s.slice j = D s.slice j := by simp [dadd, hj]
    rw [this]
    constructor
    · rintro ⟨h1, h2 | h2⟩
      · exact ⟨h1, Or.inl h2⟩
      · omega
    · rintro ⟨h1, h2 | h2⟩
      · exact ⟨h1, Or.inl h2⟩
      · omega

theorem present_len_upd (B : HBlock) (D : DSet) (s : Shred) (hidx : s.idx < TOTAL_SHREDS)
    (hlt : cnt D s.slice < DATA_SHREDS) :
    (present (upd (arrOf B D s.slice) s.idx (some s))).length = cnt (dadd D s) s.slice := by
  unfold present cnt
  rw [length_filterMap_range]
  apply List.countP_congr
  intro j hj
  have hj' : j < TOTAL_SHREDS := List.mem_range.mp hj
  unfold upd arrOf dadd
  by_cases hjs : j = s.idx
  · simp [hjs]
  · have hnot : ¬ DATA_SHREDS ≤ cnt D s.slice := by omega
    simp [hjs, hj', hnot]

theorem getD_arr (B : HBlock) (cap : Nat) (Dc Dl D : DSet) (b : BlockData) (i : Nat)
    (hg : Exact B cap Dc Dl D b) (hi : i < B.n) : (b.shreds i).getD arrEmpty = arrOf B D i := by
  rw [hg.shreds]
  split
  · rfl
  · rename_i hc
    have h0 : cnt D i = 0 := by omega
    funext j
    simp only [Option.getD_none, arrEmpty, arrOf]
    rw [if_neg]
    rintro ⟨hj, h | h⟩
    · rw [cnt_zero D i j hj h0] at h; exact absurd h (by simp)
    · rw [h0] at h; exact absurd h (by decide)

theorem mapEmpty_exact (B : HBlock) (env : Nat → Content) (cap : Nat) (hwf : B.WF env cap) (Dc Dl D : DSet)
    (b : BlockData) (hg : Exact B cap Dc Dl D b) : mapEmpty b.cap b.shreds = true ↔ Empty B D := by
  rw [mapEmpty_iff]
  constructor
  · intro h k hk
    have := h k (by rw [hg.hcap]; have := hwf.ncap; omega)
    rw [hg.shreds] at this
    split at this
    · simp at this
    · omega
  · intro h i _
    rw [hg.shreds]
    rw [if_neg]
    rintro ⟨h1, h2⟩
    have := h i h1
    omega

/-- the new state when the stored shred leaves its slice below the threshold -/
theorem exact_small (B : HBlock) (cap : Nat) (D : DSet) (b b' : BlockData) (s : Shred)
    (hg : Exact B cap (dadd D s) (dadd D s) D b) (hs : B.Honest s)
    (hlt : cnt (dadd D s) s.slice < DATA_SHREDS)
    (e1 : b'.cap = b.cap) (e2 : b'.slot = b.slot) (e3 : b'.cache = b.cache) (e4 : b'.lastSlice = b.lastSlice)
    (e5 : b'.shreds = upd b.shreds s.slice (some (upd (arrOf B D s.slice) s.idx (some s))))
    (e6 : b'.slices = b.slices) (e7 : b'.completed = b.completed) (e8 : b'.tree = b.tree) :
    Exact B cap (dadd D s) (dadd D s) (dadd D s) b' := by
  have hlt' : cnt D s.slice < DATA_SHREDS := by have := cnt_mono D s s.slice; omega
  have hnf : ¬ Full B D := not_full_of_lt B D s.slice hs.1 hlt'
  have hnf' : ¬ Full B (dadd D s) := not_full_of_lt B _ s.slice hs.1 hlt
  refine ⟨by rw [e1]; exact hg.hcap, by rw [e2]; exact hg.hslot, by rw [e3]; exact hg.cache,
    by rw [e4]; exact hg.last, ?_, ?_, ?_, ?_⟩
  · intro i
    rw [e5]
    simp only [upd]
    split
    · rename_i hi; subst hi
      rw [if_pos ⟨hs.1, cnt_add_pos D s hs.2.1⟩]
      exact congrArg some (arrOf_upd_small B D s hs hlt)
    · rename_i hi
      rw [hg.shreds i, cnt_add_other D s i hi, arrOf_add_other B D s i hi]
  · intro i
    rw [e6, hg.slices i]
    apply ite_iff
    by_cases hi : i = s.slice
    · subst hi
      constructor
      · intro h; omega
      · intro h; omega
    · rw [cnt_add_other D s i hi]
      constructor
      · intro h; exact ⟨hnf', h.2⟩
      · intro h; exact ⟨hnf, h.2⟩
  · rw [e7, hg.completed, if_neg hnf, if_neg hnf']
  · rw [e8, hg.tree, if_neg hnf, if_neg hnf']

/-- the state after a duplicate (already stored, or slice already decoded) -/
theorem exact_dup (B : HBlock) (cap : Nat) (D : DSet) (b b' : BlockData) (s : Shred)
    (hg : Exact B cap (dadd D s) (dadd D s) D b) (hs : B.Honest s)
    (hdup : D s.slice s.idx = true ∨ DATA_SHREDS ≤ cnt D s.slice)
    (e1 : b'.cap = b.cap) (e2 : b'.slot = b.slot) (e3 : b'.cache = b.cache) (e4 : b'.lastSlice = b.lastSlice)
    (e5 : b'.shreds = upd b.shreds s.slice (some (arrOf B D s.slice)))
    (e6 : b'.slices = b.slices) (e7 : b'.completed = b.completed) (e8 : b'.tree = b.tree) :
    Exact B cap (dadd D s) (dadd D s) (dadd D s) b' := by
  have hpos : 0 < cnt D s.slice := by
    rcases hdup with h | h
    · exact cnt_pos_of D _ _ hs.2.1 h
    · have := data_shreds_pos; omega
  have hsame : ∀ i, b'.shreds i = b.shreds i := by
    intro i
    rw [e5]
    simp only [upd]
    split
    · rename_i hi; subst hi
      rw [hg.shreds, if_pos ⟨hs.1, hpos⟩]
    · rfl
  rcases hdup with h | h
  · rw [dadd_same D s h] at hg ⊢
    exact ⟨by rw [e1]; exact hg.hcap, by rw [e2]; exact hg.hslot, by rw [e3]; exact hg.cache,
      by rw [e4]; exact hg.last, by intro i; rw [hsame]; exact hg.shreds i, by rw [e6]; exact hg.slices,
      by rw [e7]; exact hg.completed, by rw [e8]; exact hg.tree⟩
  · have hdp := data_shreds_pos
    have hfull := full_add_of_ge B D s h
    have hge' : DATA_SHREDS ≤ cnt (dadd D s) s.slice := by have := cnt_mono D s s.slice; omega
    have harr : ∀ i, arrOf B (dadd D s) i = arrOf B D i := by
      intro i
      by_cases hi : i = s.slice
      · subst hi; rw [arrOf_of_ge B _ _ hge', arrOf_of_ge B _ _ h]
      · exact arrOf_add_other B D s i hi
    have hposiff : ∀ i, (0 < cnt (dadd D s) i ↔ 0 < cnt D i) := by
      intro i
      by_cases hi : i = s.slice
      · subst hi; constructor <;> intro _ <;> omega
      · rw [cnt_add_other D s i hi]
    have hgeiff : ∀ i, (DATA_SHREDS ≤ cnt (dadd D s) i ↔ DATA_SHREDS ≤ cnt D i) := by
      intro i
      by_cases hi : i = s.slice
      · subst hi; constructor <;> intro _ <;> omega
      · rw [cnt_add_other D s i hi]
    refine ⟨by rw [e1]; exact hg.hcap, by rw [e2]; exact hg.hslot, by rw [e3]; exact hg.cache,
      by rw [e4]; exact hg.last, ?_, ?_, ?_, ?_⟩
    · intro i
      rw [hsame, hg.shreds i, harr i]
      apply ite_iff
      rw [hposiff i]
    · intro i
      rw [e6, hg.slices i]
      apply ite_iff
      rw [hgeiff i, hfull]
    · rw [e7, hg.completed]; exact ite_iff hfull.symm _ _
    · rw [e8, hg.tree]; exact ite_iff hfull.symm _ _

end AgModel.Blockstore
