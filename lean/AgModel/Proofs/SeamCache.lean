import AgModel.Model.ShredAbs
/-! The coarse blockstore step touches the commitment cache only in `cacheStep`. -/
namespace AgModel.Blockstore

theorem tryReconstructSlice_cache (env : Nat → Content) (b : BlockData) (k : Nat) :
    (tryReconstructSlice env b k).1.cache = b.cache := by
  unfold tryReconstructSlice
  repeat' split
  all_goals rfl

theorem tryReconstructBlock_cache (b : BlockData) : (tryReconstructBlock b).1.cache = b.cache := by
  unfold tryReconstructBlock
  split
  · rfl
  · split
    · rfl
    · split
      · rfl
      · simp only
        repeat' split
        all_goals rfl

theorem reconstruct_cache (env : Nat → Content) (b : BlockData) (k : Nat) :
    (reconstruct env b k).1.cache = b.cache := by
  unfold reconstruct
  have h1 := tryReconstructSlice_cache env b k
  split <;> rename_i heq <;> rw [heq] at h1 <;> simp only at h1
  · exact h1
  · exact h1
  · exact h1
  · rename_i b1
    have h2 := tryReconstructBlock_cache b1
    split <;> rename_i heq2 <;> rw [heq2] at h2 <;> simp only at h2 <;> rw [h2, h1]

theorem storeStep_cache (env : Nat → Content) (b : BlockData) (s : Shred) :
    (storeStep env b s).1.cache = b.cache := by
  unfold storeStep
  simp only
  split
  · rfl
  · split
    · rfl
    · rw [reconstruct_cache]

theorem lastStep_cache (b b' : BlockData) (s : Shred) (h : lastStep b s = some b') : b'.cache = b.cache := by
  unfold lastStep at h
  repeat' split at h
  all_goals first | (injection h with h; subst h; rfl) | cases h

/-- the cache after `add_shred` (past the type check): the vacant entry of the shred's slice is filled, nothing else -/
theorem addShredCore_cache (env : Nat → Content) (b : BlockData) (s : Shred) :
    (addShredCore env b s).1.cache =
      (match b.cache s.slice with
        | some _ => b.cache
        | none => upd b.cache s.slice (some s.commitment)) := by
  unfold addShredCore
  cases hc : b.cache s.slice with
  | some c =>
    unfold cacheStep
    simp only [hc]
    by_cases hne : c ≠ s.commitment
    · rw [if_pos hne]
    · rw [if_neg hne]
      simp only
      cases hl : lastStep b s with
      | none => rfl
      | some b2 => simp only; rw [storeStep_cache, lastStep_cache b b2 s hl]
  | none =>
    unfold cacheStep
    simp only [hc]
    cases hl : lastStep { b with cache := upd b.cache s.slice (some s.commitment) } s with
    | none => rfl
    | some b2 => rw [storeStep_cache, lastStep_cache _ b2 s hl]

end AgModel.Blockstore
