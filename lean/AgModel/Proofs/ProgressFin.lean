import AgModel.Proofs.Finality
import AgModel.Proofs.FinalityStep
/-!
# C02 progress, finality-tracker part: what the tracker computes in the timely schedule

Computation lemmas (no invariants, explicit premises): registering the block of slot `s`, the notarization certificate, and the
finalization of `(s, h)` when the parent `p` is finalized (or is the genesis block) and the slots strictly between are undecided.
-/
namespace AgModel.Finality

/-- the implicit-skip loop over `n` undecided (`none`) slots marks all of them and continues -/
theorem skipLoop_none : ∀ (n a : Nat) (st : Nat → Option Status) (acc : List Nat),
    (∀ t, a ≤ t → t < a + n → st t = none) →
    ∃ st', skipLoop st acc n a = .cont st' (acc ++ List.range' a n) ∧
      (∀ t, a ≤ t → t < a + n → st' t = some .implSkipped) ∧ (∀ t, (t < a ∨ a + n ≤ t) → st' t = st t) := by
  intro n
  induction n with
  | zero => intro a st acc _; exact ⟨st, by simp [skipLoop], fun t h1 h2 => by omega, fun t _ => rfl⟩
  | succ n ih =>
    intro a st acc h
    have ha : st a = none := h a (Nat.le_refl _) (by omega)
    obtain ⟨st', e, h1, h2⟩ := ih (a + 1) (setSt st a .implSkipped) (acc ++ [a]) (by
      intro t ht1 ht2
      unfold setSt
      rw [if_neg (by omega)]
      exact h t (by omega) (by omega))
    refine ⟨st', ?_, ?_, ?_⟩
    · simp only [skipLoop, ha]
      rw [e, List.range'_succ, List.append_assoc]; rfl
    · intro t ht1 ht2
      by_cases hta : t = a
      · subst hta
        rw [h2 t (Or.inl (by omega))]
        unfold setSt; simp
      · exact h1 t (by omega) (by omega)
    · intro t ht
      rw [h2 t (by omega)]
      unfold setSt
      rw [if_neg (by omega)]

/-- registering the block of an undecided slot at or above the watermark -/
theorem addParent_fresh (t : Tracker) (b p : Nat × Nat) (hlt : p.1 < b.1) (hf : t.first ≤ b.1) (hp : t.parents b = none)
    (hs : t.status b.1 = none) : addParent t b p = .ok { t with parents := setPar t.parents b p } {} := by
  unfold addParent
  rw [if_neg (by omega), if_neg (by omega), hp]
  simp only [hs]

theorem markNotarized_fresh (t : Tracker) (b : Nat × Nat) (hf : t.first ≤ b.1) (hs : t.status b.1 = none) :
    markNotarized t b = .ok { t with status := setSt t.status b.1 (.notarized b.2) } {} := by
  unfold markNotarized
  rw [if_neg (by omega)]
  simp only [hs]

theorem markFinalized_done (t : Tracker) (s h : Nat) (hf : t.first ≤ s) (hs : t.status s = some (.finalized h)) :
    markFinalized t s = .ok t {} := by
  unfold markFinalized
  rw [if_neg (by omega)]
  simp only [hs]

/-- what the finalization of `b = (s, h)` produces -/
structure FinDone (t : Tracker) (b p : Nat × Nat) (t' : Tracker) (ev : Event) : Prop where
  first_ge : t.first ≤ t'.first
  first_le : t'.first ≤ b.1
  highest : t'.highest = b.1
  status : t'.status b.1 = some (.finalized b.2)
  statusAbove : ∀ x, b.1 < x → t'.status x = t.status x
  parentsAbove : ∀ x, b.1 ≤ x.1 → t'.parents x = t.parents x
  evF : ev.finalized = some b
  evI : ev.implFinalized = [] ∨ (p = (0, 0) ∧ t.status 0 = some (.notarized 0) ∧ ev.implFinalized = [(0, 0)])
  evS : ev.implSkipped = List.range' (p.1 + 1) (b.1 - p.1 - 1)

/-- `handle_finalized_block` for `b` whose registered parent `p` is finalized (or genesis), with only undecided slots between -/
theorem handleFinalizedBlock_spec (t : Tracker) (b p : Nat × Nat) (hlt : p.1 < b.1) (hf : t.first ≤ p.1) (hh : t.highest ≤ b.1)
    (hpar : t.parents b = some p) (hsb : t.status b.1 = some (.finalized b.2))
    (hbetween : ∀ x, p.1 < x → x < b.1 → t.status x = none)
    (hp : t.status p.1 = some (.finalized p.2) ∨ (p = (0, 0) ∧ t.status 0 = some (.notarized 0) ∧ t.parents (0, 0) = none)) :
    ∃ t' ev, handleFinalizedBlock t b {} = .ok t' ev ∧ FinDone t b p t' ev := by
  unfold handleFinalizedBlock
  simp only [hpar]
  obtain ⟨f, hfuel⟩ : ∃ f, b.1 = f + 1 := ⟨b.1 - 1, by omega⟩
  have hmax : max b.1 t.highest = b.1 := Nat.max_eq_left hh
  obtain ⟨st', hloop, hl1, hl2⟩ := skipLoop_none (b.1 - p.1 - 1) (p.1 + 1) t.status [] (by
    intro x h1 h2; exact hbetween x (by omega) (by omega))
  have hstp : st' p.1 = t.status p.1 := hl2 p.1 (Or.inl (by omega))
  have hstb : st' b.1 = t.status b.1 := hl2 b.1 (Or.inr (by omega))
  -- the result of the walk, in both cases
  have hprune : ∀ (t2 : Tracker), t2.first = t.first → t2.highest = b.1 → t2.parents = t.parents →
      (∀ x, p.1 < x → t2.status x = st' x) →
      t.first ≤ (prune t2).first ∧ (prune t2).first ≤ b.1 ∧ (prune t2).highest = b.1 ∧
      (prune t2).status b.1 = some (.finalized b.2) ∧ (∀ x, b.1 < x → (prune t2).status x = t.status x) ∧
      (∀ x, b.1 ≤ x.1 → (prune t2).parents x = t.parents x) := by
    intro t2 e1 e2 e3 e4
    have hge : t2.first ≤ (prune t2).first := prune_first_ge t2
    have hle : (prune t2).first ≤ b.1 := by
      show advance t2.status (t2.highest - t2.first) t2.first ≤ b.1
      have := advance_le t2.status (t2.highest - t2.first) t2.first
      omega
    refine ⟨by omega, hle, e2, ?_, ?_, ?_⟩
    · rw [prune_status_ge hle, e4 b.1 hlt, hstb, hsb]
    · intro x hx
      rw [prune_status_ge (by omega), e4 x (by omega), hl2 x (Or.inr (by omega))]
    · intro x hx
      rw [prune_parents_ge (by omega), e3]
  rw [hfuel]
  simp only [walk]
  rw [← hfuel]
  rw [if_neg (by omega), if_neg (by omega)]
  simp only [hmax]
  rw [hloop]
  simp only [hstp]
  rcases hp with hp | ⟨rfl, hp0, hpp⟩
  · simp only [hp, if_true]
    obtain ⟨a1, a2, a3, a4, a5, a6⟩ := hprune { t with highest := b.1, status := st' } rfl rfl rfl (fun x _ => rfl)
    exact ⟨_, _, rfl, a1, a2, a3, a4, a5, a6, rfl, Or.inl rfl, by simp⟩
  · simp only [hp0, hpp]
    obtain ⟨a1, a2, a3, a4, a5, a6⟩ := hprune { t with highest := b.1, status := setSt st' 0 (.implFinalized 0) } rfl rfl rfl
      (fun x hx => by
        show (if x = 0 then _ else st' x) = st' x
        rw [if_neg (by simp only [] at hx; omega)])
    exact ⟨_, _, rfl, a1, a2, a3, a4, a5, a6, rfl, Or.inr ⟨rfl, hp0, by simp⟩, by simp⟩

end AgModel.Finality
