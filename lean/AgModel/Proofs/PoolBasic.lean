import AgModel.Model.Pool
/-! Basic list / counter lemmas for the pool proofs (core Lean only). -/
namespace AgModel.Pool

theorem lookupD_addTo (l : List (Nat × Nat)) (k v k' : Nat) :
    lookupD (addTo l k v) k' = lookupD l k' + (if k' = k then v else 0) := by
  unfold addTo lookupD
  by_cases hany : l.any (·.1 == k) = true
  · simp only [hany, if_true]
    induction l with
    | nil => simp at hany
    | cons p ps ih =>
      obtain ⟨a, b⟩ := p
      by_cases hk' : k' = a
      · subst hk'
        by_cases hk : k' = k
        · subst hk; simp [List.lookup]
        · have : (k' == k) = false := by simpa using hk
          simp [List.lookup, this, hk]
      · have hne : (k' == a) = false := by simpa using hk'
        by_cases hak : a = k
        · subst hak
          have hne' : ¬ k' = a := hk'
          simp only [List.map_cons, List.lookup, beq_self_eq_true, if_true, hne, hne', if_false, Nat.add_zero]
          by_cases hany' : ps.any (·.1 == a) = true
          · have := ih hany'
            simp only [hne', if_false, Nat.add_zero] at this
            exact this
          · -- no further key `a` in ps: map is identity on ps for key k'
            have hid : ps.map (fun p => if (p.1 == a) = true then (p.1, p.2 + v) else p) = ps := by
              have : ∀ p ∈ ps, (p.1 == a) = false := by
                intro p hp
                have h := hany'
                simp only [List.any_eq_true, not_exists, not_and, Bool.not_eq_true] at h
                exact h p hp
              conv => rhs; rw [← List.map_id ps]
              apply List.map_congr_left
              intro p hp; simp [this p hp]
            rw [hid]
        · have hak' : (a == k) = false := by simpa using hak
          have hany' : ps.any (·.1 == k) = true := by
            simpa [List.any_cons, hak'] using hany
          simp only [List.map_cons, hak', Bool.false_eq_true, if_false, List.lookup, hne]
          exact ih hany'
  · simp only [hany, Bool.false_eq_true, if_false]
    have hnone : ∀ p ∈ l, (p.1 == k) = false := by
      intro p hp
      have h := hany
      simp only [List.any_eq_true, not_exists, not_and, Bool.not_eq_true] at h
      exact h p hp
    induction l with
    | nil =>
      by_cases hk : k' = k
      · subst hk; simp [List.lookup]
      · have : (k' == k) = false := by simpa using hk
        simp [List.lookup, this, hk]
    | cons p ps ih =>
      obtain ⟨a, b⟩ := p
      have hak : (a == k) = false := hnone (a, b) (by simp)
      by_cases hk' : k' = a
      · subst hk'
        have : ¬ k' = k := by simpa using hak
        simp [List.lookup, this]
      · have hne : (k' == a) = false := by simpa using hk'
        simp only [List.cons_append, List.lookup, hne]
        apply ih
        · simpa [List.any_cons, hak] using hany
        · intro p hp; exact hnone p (List.mem_cons_of_mem _ hp)

/-- sum of `f` over the elements of `l` satisfying `p` -/
def sumIf (l : List Nat) (f : Nat → Nat) (p : Nat → Bool) : Nat := ((l.filter p).map f).sum

theorem sumIf_congr (l : List Nat) (f : Nat → Nat) (p q : Nat → Bool) (h : ∀ x ∈ l, p x = q x) :
    sumIf l f p = sumIf l f q := by
  unfold sumIf
  rw [List.filter_congr h]

theorem sumIf_insert (l : List Nat) (hl : l.Nodup) (f : Nat → Nat) (p q : Nat → Bool) (v : Nat)
    (hq : ∀ x, q x = (p x || x == v)) (hp : p v = false) :
    sumIf l f q = sumIf l f p + (if v ∈ l then f v else 0) := by
  unfold sumIf
  induction l with
  | nil => simp
  | cons a as ih =>
    have hnd := List.nodup_cons.mp hl
    have IH := ih hnd.2
    by_cases hav : a = v
    · subst hav
      have hq' : q a = true := by rw [hq]; simp
      have hnotin : a ∉ as := hnd.1
      simp only [List.filter_cons, hq', hp, if_true, Bool.false_eq_true, if_false, List.map_cons, List.sum_cons,
        List.mem_cons, true_or]
      rw [IH]; simp [hnotin]; omega
    · have hqa : q a = p a := by rw [hq]; simp [hav]
      have hmem : (v ∈ a :: as) = (v ∈ as) := by
        apply propext; simp [List.mem_cons]; intro h; exact absurd h.symm hav
      simp only [List.filter_cons, hqa, hmem]
      by_cases hpa : p a = true
      · simp only [hpa, if_true, List.map_cons, List.sum_cons]; rw [IH]; omega
      · simp only [hpa, Bool.false_eq_true, if_false]; exact IH

theorem stakeOf_eq_sumIf (e : Epoch) (p : Nat → Bool) :
    stakeOf e ((List.range e.n).filter p) = sumIf (List.range e.n) e.stake p := rfl

theorem stake_of_ge_n (e : Epoch) (v : Nat) (h : ¬ v < e.n) : e.stake v = 0 := by
  unfold Epoch.stake Epoch.n at *
  simp [List.getD_eq_getElem?_getD, List.getElem?_eq_none (by omega : e.stakes.length ≤ v)]

/-- inserting one new element `v` into the predicate adds exactly `stake v` (0 if `v` is out of range) -/
theorem sumIf_range_insert (e : Epoch) (p q : Nat → Bool) (v : Nat)
    (hq : ∀ x, q x = (p x || x == v)) (hp : p v = false) :
    sumIf (List.range e.n) e.stake q = sumIf (List.range e.n) e.stake p + e.stake v := by
  rw [sumIf_insert _ List.nodup_range e.stake p q v hq hp]
  by_cases hv : v < e.n
  · simp [hv]
  · simp [hv, stake_of_ge_n e v hv]

theorem lookup_append_single (l : List (Nat × Nat)) (k v k' : Nat) :
    (l ++ [(k, v)]).lookup k' = match l.lookup k' with
      | some x => some x
      | none => if k' = k then some v else none := by
  induction l with
  | nil => by_cases h : k' = k <;> simp [List.lookup, h]
  | cons p ps ih =>
    obtain ⟨a, b⟩ := p
    by_cases h : k' = a
    · subst h; simp [List.lookup]
    · have : (k' == a) = false := by simpa using h
      simp only [List.cons_append, List.lookup, this]; exact ih

theorem lookup_none_of_not_mem_keys (l : List (Nat × Nat)) (k : Nat) (h : k ∉ l.map Prod.fst) : l.lookup k = none := by
  induction l with
  | nil => rfl
  | cons p ps ih =>
    obtain ⟨a, b⟩ := p
    have hka : ¬ k = a := by intro e; apply h; simp [e]
    have : (k == a) = false := by simpa using hka
    simp only [List.lookup, this]
    apply ih; intro hm; apply h; simp only [List.map_cons, List.mem_cons]; right; exact hm

theorem mem_keys_of_lookup_some (l : List (Nat × Nat)) (k x : Nat) (h : l.lookup k = some x) : k ∈ l.map Prod.fst := by
  induction l with
  | nil => simp [List.lookup] at h
  | cons p ps ih =>
    obtain ⟨a, b⟩ := p
    by_cases hka : k = a
    · simp [hka]
    · have : (k == a) = false := by simpa using hka
      simp only [List.lookup, this] at h
      simp only [List.map_cons, List.mem_cons]; right; exact ih h

end AgModel.Pool
