import AgModel.Model.MachIntExt
import AgModel.Proofs.MachInt
/-! Helper lemmas for `Props/C02Timeouts.lean` and the `Stake` / `Fraction::cmp` / `windows` part of
    `Props/C10MachInt.lean`. -/
namespace AgModel.MachInt
open AgModel

theorem NPS_eq : NPS = 1000000000 := rfl
theorem W_ge_two : 2 ≤ W := by decide

/-! ### Duration -/

theorem Dur.fromMillis_wf (ms : UInt64) : (Dur.fromMillis ms).wf := by
  unfold Dur.fromMillis Dur.wf NPS
  have : (ms % 1000).toNat = ms.toNat % 1000 := by rw [UInt64.toNat_mod]; rfl
  simp only [this]; omega

theorem Dur.fromMillis_toNanos (ms : UInt64) : (Dur.fromMillis ms).toNanos = ms.toNat * 1000000 := by
  unfold Dur.fromMillis Dur.toNanos NPS
  have h1 : (ms % 1000).toNat = ms.toNat % 1000 := by rw [UInt64.toNat_mod]; rfl
  have h2 : (ms / 1000).toNat = ms.toNat / 1000 := by rw [UInt64.toNat_div]; rfl
  simp only [h1, h2]; omega

/-- `checked_add` is `None` (`+` panics) exactly when the exact sum needs more than 64 bits of seconds -/
theorem Dur.checkedAdd_none (a b : Dur) (ha : a.wf) (hb : b.wf) :
    a.checkedAdd b = none ↔ 2 ^ 64 * NPS ≤ a.toNanos + b.toNanos := by
  unfold Dur.wf at ha hb
  unfold Dur.checkedAdd Dur.toNanos
  cases h : cadd a.secs b.secs with
  | none =>
    have := cadd_none.mp h
    simp only [true_iff]; rw [NPS_eq] at *; omega
  | some s =>
    have hs := (cadd_some h).1
    have hlt := (cadd_some h).2
    simp only
    by_cases hn : a.nanos + b.nanos ≥ NPS
    · rw [if_pos hn]
      cases h1 : cadd s 1 with
      | none =>
        have := cadd_none.mp h1
        rw [one_toNat] at this
        simp only [true_iff]; rw [NPS_eq] at *; omega
      | some s' =>
        have := (cadd_some h1).2
        rw [one_toNat] at this
        simp only [reduceCtorEq, false_iff]; rw [NPS_eq] at *; omega
    · rw [if_neg hn]
      simp only [reduceCtorEq, false_iff]; rw [NPS_eq] at *; omega

theorem Dur.checkedAdd_some (a b c : Dur) (ha : a.wf) (hb : b.wf) (h : a.checkedAdd b = some c) :
    c.wf ∧ c.toNanos = a.toNanos + b.toNanos := by
  unfold Dur.wf at ha hb ⊢
  unfold Dur.checkedAdd at h
  unfold Dur.toNanos
  cases h0 : cadd a.secs b.secs with
  | none => rw [h0] at h; cases h
  | some s =>
    rw [h0] at h
    have hs := (cadd_some h0).1
    simp only at h
    by_cases hn : a.nanos + b.nanos ≥ NPS
    · rw [if_pos hn] at h
      cases h1 : cadd s 1 with
      | none => rw [h1] at h; cases h
      | some s' =>
        rw [h1] at h
        have h2 := (cadd_some h1).1
        rw [one_toNat] at h2
        cases h
        simp only; rw [NPS_eq] at *; omega
    · rw [if_neg hn] at h
      cases h
      simp only; rw [NPS_eq] at *; omega

theorem Dur.checkedSub_some (a b c : Dur) (ha : a.wf) (hb : b.wf) (h : a.checkedSub b = some c) :
    c.wf ∧ c.toNanos + b.toNanos = a.toNanos := by
  unfold Dur.wf at ha hb ⊢
  unfold Dur.checkedSub at h
  unfold Dur.toNanos
  cases h0 : csub a.secs b.secs with
  | none => rw [h0] at h; cases h
  | some s =>
    rw [h0] at h
    have hs := (csub_some h0).1
    have hle := (csub_some h0).2
    simp only at h
    by_cases hn : a.nanos ≥ b.nanos
    · rw [if_pos hn] at h
      cases h
      simp only; rw [NPS_eq] at *; omega
    · rw [if_neg hn] at h
      cases h1 : csub s 1 with
      | none => rw [h1] at h; cases h
      | some s' =>
        rw [h1] at h
        have h2 := (csub_some h1).1
        have h3 := (csub_some h1).2
        rw [one_toNat] at h2 h3
        cases h
        simp only; rw [NPS_eq] at *; omega

theorem Dur.checkedSub_none (a b : Dur) (ha : a.wf) (hb : b.wf) :
    a.checkedSub b = none ↔ a.toNanos < b.toNanos := by
  unfold Dur.wf at ha hb
  unfold Dur.checkedSub Dur.toNanos
  cases h0 : csub a.secs b.secs with
  | none =>
    have := csub_none.mp h0
    simp only [true_iff]; rw [NPS_eq] at *; omega
  | some s =>
    have hs := (csub_some h0).1
    have hle := (csub_some h0).2
    simp only
    by_cases hn : a.nanos ≥ b.nanos
    · rw [if_pos hn]
      simp only [reduceCtorEq, false_iff]; rw [NPS_eq] at *; omega
    · rw [if_neg hn]
      cases h1 : csub s 1 with
      | none =>
        have := csub_none.mp h1
        rw [one_toNat] at this
        simp only [true_iff]; rw [NPS_eq] at *; omega
      | some s' =>
        have := (csub_some h1).2
        rw [one_toNat] at this
        simp only [reduceCtorEq, false_iff]; rw [NPS_eq] at *; omega

theorem Dur.saturatingSub_spec (a b : Dur) (ha : a.wf) (hb : b.wf) :
    (a.saturatingSub b).wf ∧ (a.saturatingSub b).toNanos = a.toNanos - b.toNanos := by
  unfold Dur.saturatingSub
  cases h : a.checkedSub b with
  | none =>
    have := (Dur.checkedSub_none a b ha hb).mp h
    simp only [Option.getD_none]
    refine ⟨by show (0 : Nat) < NPS; decide, ?_⟩
    show (0 : UInt64).toNat * NPS + 0 = _
    rw [zero_toNat]; omega
  | some c =>
    have := Dur.checkedSub_some a b c ha hb h
    simp only [Option.getD_some]
    exact ⟨this.1, by omega⟩

theorem ofNat_toNat_of_lt {n : Nat} (h : n < 2 ^ 64) : (UInt64.ofNat n).toNat = n := by
  rw [UInt64.toNat_ofNat']; exact Nat.mod_eq_of_lt h

/-- `checked_mul` by a u32 factor is `None` exactly when the exact product needs more than 64 bits of seconds -/
theorem Dur.checkedMul_none (a : Dur) (k : UInt64) (ha : a.wf) (hk : k.toNat < 2 ^ 32) :
    a.checkedMul k = none ↔ 2 ^ 64 * NPS ≤ a.toNanos * k.toNat := by
  unfold Dur.wf at ha
  unfold Dur.checkedMul Dur.toNanos
  have hx : a.nanos * k.toNat / NPS < 2 ^ 64 := by
    have : a.nanos * k.toNat < NPS * 2 ^ 32 := Nat.mul_lt_mul'' ha hk
    rw [NPS_eq] at *; omega
  have hdist : (a.secs.toNat * NPS + a.nanos) * k.toNat = a.secs.toNat * k.toNat * NPS + a.nanos * k.toNat := by
    rw [Nat.add_mul, Nat.mul_right_comm]
  rw [hdist]
  cases h : cmul a.secs k with
  | none =>
    have := cmul_none.mp h
    simp only [true_iff]; rw [NPS_eq] at *; omega
  | some s =>
    have hs := (cmul_some h).1
    simp only
    cases h1 : cadd s (UInt64.ofNat (a.nanos * k.toNat / NPS)) with
    | none =>
      have := cadd_none.mp h1
      rw [ofNat_toNat_of_lt hx] at this
      simp only [true_iff]; rw [NPS_eq] at *; omega
    | some s' =>
      have := (cadd_some h1).2
      rw [ofNat_toNat_of_lt hx] at this
      simp only [reduceCtorEq, false_iff]; rw [NPS_eq] at *; omega

theorem Dur.checkedMul_some (a c : Dur) (k : UInt64) (ha : a.wf) (hk : k.toNat < 2 ^ 32)
    (h : a.checkedMul k = some c) : c.wf ∧ c.toNanos = a.toNanos * k.toNat := by
  unfold Dur.wf at ha ⊢
  unfold Dur.checkedMul at h
  unfold Dur.toNanos
  have hx : a.nanos * k.toNat / NPS < 2 ^ 64 := by
    have : a.nanos * k.toNat < NPS * 2 ^ 32 := Nat.mul_lt_mul'' ha hk
    rw [NPS_eq] at *; omega
  have hdist : (a.secs.toNat * NPS + a.nanos) * k.toNat = a.secs.toNat * k.toNat * NPS + a.nanos * k.toNat := by
    rw [Nat.add_mul, Nat.mul_right_comm]
  rw [hdist]
  cases h0 : cmul a.secs k with
  | none => rw [h0] at h; cases h
  | some s =>
    rw [h0] at h
    have hs := (cmul_some h0).1
    simp only at h
    cases h1 : cadd s (UInt64.ofNat (a.nanos * k.toNat / NPS)) with
    | none => rw [h1] at h; cases h
    | some s' =>
      rw [h1] at h
      have h2 := (cadd_some h1).1
      rw [ofNat_toNat_of_lt hx] at h2
      cases h
      simp only
      refine ⟨Nat.mod_lt _ (by decide), ?_⟩
      rw [NPS_eq] at *; omega

/-! ### the constants -/

theorem DELTA_TIMEOUT_some :
    ∃ dt, DELTA_TIMEOUT = some dt ∧ dt.wf ∧ dt.toNanos = natDeltaTimeoutNs := by
  refine ⟨⟨0, 750000000⟩, by decide, by decide, by decide⟩

theorem DELTA_BLOCK_wf : DELTA_BLOCK.wf ∧ DELTA_BLOCK.toNanos = natDeltaBlockNs := by decide
theorem DELTA_FIRST_SLICE_wf : DELTA_FIRST_SLICE.wf ∧ DELTA_FIRST_SLICE.toNanos = natDeltaFirstSliceNs := by decide
theorem first_le_block : natDeltaFirstSliceNs ≤ natDeltaBlockNs := by decide
theorem block_pos : 0 < natDeltaBlockNs := by decide
theorem consts_fit : natDeltaTimeoutNs + natDeltaFirstSliceNs < 2 ^ 64 * NPS := by decide

/-! ### `set_timeouts` -/

theorem isStart_iff (x : UInt64) : isStart x = true ↔ x.toNat % W = 0 := by
  rw [isStart_eq]; unfold ParentReady.isWindowStart
  show (decide _ = true) ↔ _
  simp only [decide_eq_true_eq]; rfl

theorem slotSleep_toNanos (x : UInt64) :
    (slotSleep x).toNanos = if x.toNat % W = 0 then natDeltaBlockNs - natDeltaFirstSliceNs else natDeltaBlockNs := by
  unfold slotSleep
  by_cases h : x.toNat % W = 0
  · rw [if_pos ((isStart_iff x).mpr h), if_pos h,
      (Dur.saturatingSub_spec _ _ DELTA_BLOCK_wf.1 DELTA_FIRST_SLICE_wf.1).2, DELTA_BLOCK_wf.2, DELTA_FIRST_SLICE_wf.2]
  · have : isStart x = false := by
      cases hh : isStart x with
      | false => rfl
      | true => exact absurd ((isStart_iff x).mp hh) h
    simp only [this, Bool.false_eq_true, if_false, if_neg h, DELTA_BLOCK_wf.2]

/-- the slots after the window start: consecutive `DELTA_BLOCK` sleeps -/
theorem fireTimes_tail (l : List UInt64) (f j acc : Nat) (hf : f % W = 0)
    (hm : l.map UInt64.toNat = List.range' (f + 1 + j) l.length) (hj : j + l.length < W) :
    fireTimes (l.map (fun x => (slotSleep x, TEv.timeout x.toNat))) acc =
      (List.range l.length).map (fun i => (acc + (i + 1) * natDeltaBlockNs, TEv.timeout (f + 1 + j + i))) := by
  induction l generalizing j acc with
  | nil => rfl
  | cons x r ih =>
    simp only [List.map_cons, List.length_cons, List.range'_succ, List.cons.injEq] at hm
    obtain ⟨hx, hr⟩ := hm
    simp only [List.length_cons] at hj
    have hns : x.toNat % W ≠ 0 := by
      rw [hx]
      have hW := W_pos
      have : (f + 1 + j) % W = (1 + j) % W := by
        rw [Nat.add_assoc, Nat.add_mod, hf, Nat.zero_add, Nat.mod_mod]
      rw [this, Nat.mod_eq_of_lt (by omega)]; omega
    have ih' := ih (j + 1) (acc + natDeltaBlockNs) (by rw [hr]; congr 1) (by omega)
    have hs : (slotSleep x).toNanos = natDeltaBlockNs := by rw [slotSleep_toNanos, if_neg hns]
    show (acc + (slotSleep x).toNanos, TEv.timeout x.toNat) ::
      fireTimes (r.map (fun x => (slotSleep x, TEv.timeout x.toNat))) (acc + (slotSleep x).toNanos) = _
    rw [hs, ih', hx, List.length_cons, List.range_succ_eq_map, List.map_cons, List.map_map]
    refine List.cons_eq_cons.mpr ⟨by simp, ?_⟩
    apply List.map_congr_left
    intro i _
    simp only [Function.comp]
    refine Prod.ext ?_ ?_
    · simp only; rw [Nat.add_mul (i + 1) 1]; omega
    · simp only; congr 1; omega

/-! ### Stake -/

theorem stakeDivCeil_none (a d : UInt64) : stakeDivCeil a d = none ↔ d = 0 := by
  unfold stakeDivCeil cdiv cmod
  by_cases hd : d = 0
  · simp [hd]
  · simp only [hd, if_false, iff_false]
    by_cases hr : (a % d).toNat > 0
    · rw [if_pos hr]
      intro hc
      have := cadd_none.mp hc
      rw [one_toNat, UInt64.toNat_div] at this
      rw [UInt64.toNat_mod] at hr
      have hd0 : d.toNat ≠ 0 := fun h => hd (UInt64.toNat_inj.mp (by rw [h]; rfl))
      have hd2 : 2 ≤ d.toNat := by
        rcases Nat.lt_or_ge d.toNat 2 with h | h
        · have : d.toNat = 1 := by omega
          rw [this, Nat.mod_one] at hr; omega
        · exact h
      have h1 : a.toNat / d.toNat ≤ a.toNat / 2 := Nat.div_le_div_left hd2 (by decide)
      have := a.toNat_lt
      omega
    · rw [if_neg hr]; simp

theorem stakeDivCeil_some (a d r : UInt64) (h : stakeDivCeil a d = some r) :
    r.toNat = a.toNat / d.toNat + (if a.toNat % d.toNat = 0 then 0 else 1) := by
  unfold stakeDivCeil cdiv cmod at h
  by_cases hd : d = 0
  · simp [hd] at h
  · simp only [hd, if_false] at h
    by_cases hr : (a % d).toNat > 0
    · rw [if_pos hr] at h
      have := (cadd_some h).1
      rw [one_toNat, UInt64.toNat_div] at this
      rw [UInt64.toNat_mod] at hr
      rw [this, if_neg (by omega)]
    · rw [if_neg hr] at h
      cases h
      rw [UInt64.toNat_mod] at hr
      rw [UInt64.toNat_div, if_pos (by omega)]; rfl

/-! ### Fraction::cmp -/

theorem fracCmp_eq (n1 d1 n2 d2 : UInt64) :
    fracCmp n1 d1 n2 d2 = some (compare (n1.toNat * d2.toNat) (n2.toNat * d1.toNat)) := by
  unfold fracCmp; rw [mul128_eq, mul128_eq]

/-! ### Slot::windows -/

theorem windowsFrom_spec (k : Nat) (start : UInt64) (q : Nat) (hs : start.toNat = q * W + 1) :
    (windowsFrom start k = none ↔ 2 ^ 64 < (q + 1 + k) * W ∧ 0 < k) ∧
    ∀ l, windowsFrom start k = some l → l.map UInt64.toNat = (List.range k).map (fun i => (q + 1 + i) * W) := by
  induction k generalizing start q with
  | zero =>
    refine ⟨by simp [windowsFrom], ?_⟩
    intro l h; simp only [windowsFrom] at h; cases h; rfl
  | succ k ih =>
    obtain ⟨w1, hw1, hw1n⟩ := Wm1
    have hW := W_pos
    have hdvd := W_dvd
    unfold windowsFrom
    rw [hw1]; simp only
    have hqW : (q + 1) * W = q * W + W := by rw [Nat.add_mul, Nat.one_mul]
    cases hp : cadd start w1 with
    | none =>
      have := cadd_none.mp hp
      simp only [reduceCtorEq, false_implies, implies_true, and_true, true_iff]
      refine ⟨?_, by omega⟩
      have h1 : (q + 1) * W ≤ (q + 1 + (k + 1)) * W := Nat.mul_le_mul_right _ (by omega)
      have h2 : (q + 1 + (k + 1)) * W = (q + 1) * W + (k + 1) * W := by rw [Nat.add_mul]
      have h3 : W ≤ (k + 1) * W := Nat.le_mul_of_pos_left _ (by omega)
      omega
    | some p =>
      have hpn := (cadd_some hp).1
      have hplt := (cadd_some hp).2
      simp only
      have hpv : p.toNat = (q + 1) * W := by omega
      -- `p` is a multiple of `W` below 2^64, so `p + W ≤ 2^64` and `p + 1` fits
      have hfit : p.toNat + W ≤ 2 ^ 64 := by
        have := nat_window_end (s := p.toNat) p.toNat_lt
        rw [hpv, Nat.mul_div_cancel _ hW] at this
        rw [hpv]; exact this
      cases hn : cadd p 1 with
      | none =>
        have := cadd_none.mp hn
        rw [one_toNat] at this
        -- impossible unless W = 1; then the panic is genuine
        simp only [reduceCtorEq, false_implies, implies_true, and_true, true_iff]
        refine ⟨?_, by omega⟩
        have h2 : (q + 1 + (k + 1)) * W = (q + 1) * W + (k + 1) * W := by rw [Nat.add_mul]
        have h3 : W ≤ (k + 1) * W := Nat.le_mul_of_pos_left _ (by omega)
        have := W_ge_two
        exfalso; omega
      | some n =>
        have hnn := (cadd_some hn).1
        rw [one_toNat] at hnn
        simp only
        have ih' := ih n (q + 1) (by rw [hnn, hpv])
        have hre : q + 1 + (k + 1) = q + 1 + 1 + k := by omega
        cases hr : windowsFrom n k with
        | none =>
          have := ih'.1.mp hr
          simp only [reduceCtorEq, false_implies, implies_true, and_true, true_iff]
          rw [hre]; exact ⟨this.1, by omega⟩
        | some rest =>
          have hno : ¬ (2 ^ 64 < (q + 1 + 1 + k) * W ∧ 0 < k) := by
            intro hc; have := ih'.1.mpr hc; rw [hr] at this; cases this
          refine ⟨?_, ?_⟩
          · simp only [reduceCtorEq, false_iff, not_and]
            intro hc _
            rw [hre] at hc
            by_cases hk : 0 < k
            · exact hno ⟨hc, hk⟩
            · have : k = 0 := by omega
              subst this
              have : (q + 1 + 1 + 0) * W = (q + 1) * W + W := by
                rw [Nat.add_zero, Nat.add_mul (q + 1) 1 W, Nat.one_mul]
              omega
          · intro l hl
            cases hl
            have := ih'.2 rest hr
            simp only [List.map_cons, this, List.range_succ_eq_map, List.map_cons, List.map_map, hpv]
            refine List.cons_eq_cons.mpr ⟨by simp, ?_⟩
            apply List.map_congr_left
            intro i _
            simp only [Function.comp]; congr 1; omega

end AgModel.MachInt
