import AgModel.Proofs.Trie
import AgModel.Proofs.LtHash
/-! State-level simulation lemmas for C20: `State` against the sorted association list `OrdMap`. -/
namespace AgModel.Trie
open AgModel.OrdMap (find put del Sorted)

theorem count_eq_length (n : Node) : count n = (toList n).length := by
  induction n with
  | leaf k v => rfl
  | nil => rfl
  | cons c ch rest ihc ihr => simp [count, toList, ihc, ihr]

theorem put_congr (lt1 lt2 : Key → Key → Bool) (m : OrdMap.Map) (k : Key) (v : Nat)
    (h : ∀ kv ∈ m, lt1 k kv.1 = lt2 k kv.1) : put lt1 m k v = put lt2 m k v := by
  induction m with
  | nil => rfl
  | cons x m ih =>
    obtain ⟨k', v'⟩ := x
    simp only [put]
    rw [h (k', v') (by simp), ih (fun kv hkv => h kv (by simp [hkv]))]

theorem sorted_congr (lt1 lt2 : Key → Key → Bool) (m : OrdMap.Map)
    (h : ∀ a ∈ m, ∀ b ∈ m, lt1 a.1 b.1 = lt2 a.1 b.1) (hs : Sorted lt1 m) : Sorted lt2 m := by
  unfold Sorted at *
  exact List.Pairwise.imp_of_mem (fun ha hb hab => by rw [← h _ ha _ hb]; exact hab) hs

/-- on valid keys the trie order is the byte order -/
theorem keyLt_eq_lexLt (k1 k2 : Key) (h1 : ValidKey k1) (h2 : ValidKey k2) : keyLt k1 k2 = lexLt k1 k2 :=
  chunks_lex_iff k1 k2 h1 h2

theorem length_del (l : OrdMap.Map) (key : Key) (h : Sorted keyLt l) :
    (del l key).length = if (find l key).isSome then l.length - 1 else l.length := by
  induction l with
  | nil => simp [del, find]
  | cons x l ih =>
    obtain ⟨k, v⟩ := x
    have hs := List.pairwise_cons.1 h
    by_cases hk : k = key
    · subst hk
      have h1 : del l k = l := by
        apply del_of_not_mem
        intro kv hkv e
        exact keyLt_ne _ _ (hs.1 kv hkv) e.symm
      have h2 : del ((k, v) :: l) k = del l k := by simp [del]
      rw [h2, h1]; simp [find]
    · have h2 : del ((k, v) :: l) key = (k, v) :: del l key := by simp [del, hk]
      have h3 : find ((k, v) :: l) key = find l key := by simp [find, hk]
      rw [h2, h3, List.length_cons, ih hs.2]
      split
      · rename_i hsome
        have : l ≠ [] := by
          intro e; rw [e] at hsome; simp [find] at hsome
        have : 0 < l.length := List.length_pos_iff.2 this
        simp only [List.length_cons]; omega
      · rfl

theorem sorted_nodup (m : OrdMap.Map) (h : Sorted keyLt m) : (m.map (·.1)).Nodup := by
  unfold Sorted at h
  rw [List.nodup_iff_pairwise_ne, List.pairwise_map]
  exact List.Pairwise.imp (fun hab => keyLt_ne _ _ hab) h

theorem find_eq_find? (m : OrdMap.Map) (k : Key) :
    find m k = (m.find? (fun kv => kv.1 = k)).map (·.2) := by
  induction m with
  | nil => rfl
  | cons x m ih =>
    obtain ⟨k', v'⟩ := x
    by_cases h : k' = k
    · simp [find, h]
    · simp [find, h, ih]

/-- the sorted insertion is a rearrangement of "new entry + everything under other keys" -/
theorem put_perm (m : OrdMap.Map) (k : Key) (v : Nat) (hs : Sorted keyLt m) :
    (put keyLt m k v).Perm ((k, v) :: m.filter (fun kv => kv.1 ≠ k)) := by
  induction m with
  | nil => simp [put]
  | cons x m ih =>
    obtain ⟨k', v'⟩ := x
    have hp := List.pairwise_cons.1 hs
    by_cases h1 : k' = k
    · subst h1
      have : m.filter (fun kv => !decide (kv.1 = k')) = m := by
        rw [List.filter_eq_self]
        intro kv hkv
        have := keyLt_ne _ _ (hp.1 kv hkv)
        simpa using fun e => this e.symm
      simp [put, this]
    · by_cases h2 : keyLt k k' = true
      · have : m.filter (fun kv => !decide (kv.1 = k)) = m := by
          rw [List.filter_eq_self]
          intro kv hkv
          have := keyLt_ne _ _ (keyLt_trans _ _ _ h2 (hp.1 kv hkv))
          simpa using fun e => this e.symm
        simp [put, h1, h2, this]
      · have h2' : keyLt k k' = false := by simpa using h2
        have e : put keyLt ((k', v') :: m) k v = (k', v') :: put keyLt m k v := by simp [put, h1, h2']
        have f : ((k', v') :: m).filter (fun kv => kv.1 ≠ k) = (k', v') :: m.filter (fun kv => kv.1 ≠ k) := by
          simp [h1]
        rw [e, f]
        exact ((ih hp.2).cons (k', v')).trans (List.Perm.swap _ _ _)

/-! ### the simulation invariant -/

/-- `s` represents the ordered map `m`: canonical trie, `iter` lists `m`, every key is a real address -/
def Inv (s : State) (m : OrdMap.Map) : Prop :=
  s.wf = true ∧ s.iter = m ∧ ∀ kv ∈ m, ValidKey kv.1

theorem inv_new : Inv {} [] := by
  refine ⟨by decide, rfl, by simp⟩

theorem inv_root {s : State} {m : OrdMap.Map} (h : Inv s m) : s.root.wf [] 0 = true ∧ s.len = m.length := by
  obtain ⟨hwf, hit, _⟩ := h
  simp only [State.wf, Bool.and_eq_true, beq_iff_eq] at hwf
  refine ⟨hwf.1, ?_⟩
  rw [hwf.2, count_eq_length, ← hit]; rfl

theorem inv_sorted_keyLt {s : State} {m : OrdMap.Map} (h : Inv s m) : Sorted keyLt m := by
  have := (wf_sorted s.root []).1 0 (inv_root h).1
  rw [← h.2.1]; exact this

theorem inv_get {s : State} {m : OrdMap.Map} (h : Inv s m) (key : Key) : s.get key = find m key := by
  have := (getRec_spec s.root key [] (agrees_nil key)).1 0 (inv_root h).1
  rw [← h.2.1]; exact this

theorem inv_insert {s : State} {m : OrdMap.Map} (h : Inv s m) (key : Key) (v : Nat) (hk : ValidKey key) :
    ∃ s', s.insert key v = .ok s' (find m key) ∧ Inv s' (put keyLt m key v) := by
  obtain ⟨hr, hlen⟩ := inv_root h
  have hit : toList s.root = m := h.2.1
  have hv : ∀ kv ∈ toList s.root, ValidKey kv.1 := by rw [hit]; exact h.2.2
  obtain ⟨c, ch, r, he, hwf, htl⟩ :=
    insertRec_spec s.root key v hk [] 0 (agrees_nil key) (by simp) hv hr (Nat.zero_le _)
  simp only [List.length_nil] at he
  rw [hit] at he htl
  refine ⟨⟨.cons c ch r, if (find m key).isNone then s.len + 1 else s.len⟩, ?_, ?_, ?_, ?_⟩
  · simp [State.insert, he]
  · simp only [State.wf, Bool.and_eq_true, beq_iff_eq]
    refine ⟨hwf, ?_⟩
    rw [count_eq_length, htl, length_put keyLt m key v
      (fun kv _ hlt e => keyLt_ne _ _ hlt e.symm) (inv_sorted_keyLt h) keyLt_trans, hlen]
  · exact htl
  · intro kv hkv
    have hp := (put_perm m key v (inv_sorted_keyLt h)).mem_iff.1 hkv
    simp only [List.mem_cons, List.mem_filter] at hp
    rcases hp with e | ⟨hm, _⟩
    · rw [e]; exact hk
    · exact h.2.2 kv hm

theorem inv_remove {s : State} {m : OrdMap.Map} (h : Inv s m) (key : Key) :
    ∃ s', s.remove key = .ok s' (find m key) ∧ Inv s' (del m key) := by
  obtain ⟨hr, hlen⟩ := inv_root h
  have hit : toList s.root = m := h.2.1
  have hg := inv_get h key
  unfold State.get at hg
  obtain ⟨r1, r2, r3, _⟩ := removeRec_spec s.root key [] 0 (agrees_nil key) hr
  simp only [List.length_nil] at r1 r2 r3
  rw [hit] at r1 r2
  cases hf : find m key with
  | none =>
    refine ⟨s, by simp [State.remove, hg, hf], ?_⟩
    rw [del_of_not_mem m key ((find_none_iff m key).1 hf)]
    exact h
  | some o =>
    have hne : m ≠ [] := by intro e; rw [e] at hf; simp [find] at hf
    have hpos : 0 < m.length := List.length_pos_iff.2 hne
    rw [hf] at r1
    refine ⟨⟨(removeRec s.root 0 key).1, s.len - 1⟩, ?_, ?_, r2, ?_⟩
    · have hl : s.len ≠ 0 := by omega
      rcases hrm : removeRec s.root 0 key with ⟨q1, q2⟩
      rw [hrm] at r1
      simp only at r1
      subst r1
      simp [State.remove, hg, hf, hrm, hl]
    · simp only [State.wf, Bool.and_eq_true, beq_iff_eq]
      refine ⟨r3, ?_⟩
      rw [count_eq_length, r2, length_del m key (inv_sorted_keyLt h), hf, hlen]; rfl
    · intro kv hkv
      simp only [del, List.mem_filter] at hkv
      exact h.2.2 kv hkv.1

/-- canonical structure at the `State` level -/
theorem state_canonical (s1 s2 : State) (h1 : s1.wf = true) (h2 : s2.wf = true) (he : s1.iter = s2.iter) :
    s1 = s2 := by
  simp only [State.wf, Bool.and_eq_true, beq_iff_eq] at h1 h2
  have hr : s1.root = s2.root := (canonical_aux s1.root s2.root []).1 0 0 h1.1 h2.1 he
  have hl : s1.len = s2.len := by
    rw [h1.2, h2.2, count_eq_length, count_eq_length]
    exact congrArg List.length he
  cases s1; cases s2; simp_all

end AgModel.Trie
