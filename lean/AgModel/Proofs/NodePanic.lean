import AgModel.Model.Node
import AgModel.Proofs.VotorExt
import AgModel.Proofs.PoolS2N
/-!
Cross-component panic-freedom (C10): the pool only ever announces `ParentReady` for the first slot of a window,
hence — by C05 `votor_asserts_unreachable` — no sequence of node inputs makes the voting task of the composed
node hit one of its assertions.
-/
namespace AgModel.NodePanic
open AgModel AgModel.ParentReady

/-- every announced pair is for a window start -/
def AnnOk (anns : List (Nat × (Nat × Nat))) : Prop := ∀ a ∈ anns, isWindowStart a.1 = true

theorem AnnOk.append {a b : List (Nat × (Nat × Nat))} (h1 : AnnOk a) (h2 : AnnOk b) : AnnOk (a ++ b) := by
  intro x hx
  rcases List.mem_append.mp hx with h | h
  · exact h1 x h
  · exact h2 x h

theorem AnnOk.nil : AnnOk [] := by intro x hx; simp at hx

theorem fwd_ann (f : Nat) (t : Tracker) (slot : Nat) (ids : List (Nat × Nat)) :
    ∀ r, fwd f t slot ids = some r → AnnOk r.2.1 := by
  induction f generalizing t slot with
  | zero => intro r h; simp only [fwd] at h; cases h; exact AnnOk.nil
  | succ f ih =>
    intro r h
    simp only [fwd] at h
    split at h
    · cases h
    · rename_i t1 w1 hr
      have hnew : AnnOk (if isWindowStart slot then ids.map (fun p => (slot, p)) else []) := by
        intro a ha
        split at ha
        · rename_i hw
          simp only [List.mem_map] at ha
          obtain ⟨p, _, rfl⟩ := ha
          exact hw
        · simp at ha
      split at h
      · split at h
        · cases h
        · rename_i t2 new2 w2 hf
          cases h
          exact hnew.append (ih _ _ _ hf)
      · cases h; exact hnew

theorem markNotarFallback_ann (t : Tracker) (id : Nat × Nat) : ∀ r, markNotarFallback t id = some r → AnnOk r.2.1 := by
  intro r h
  unfold markNotarFallback at h
  split at h
  · cases h; exact AnnOk.nil
  · dsimp only at h
    split at h
    · cases h; exact AnnOk.nil
    · exact fwd_ann _ _ _ _ r h

theorem markSkipped_ann (t : Tracker) (ms : Nat) : ∀ r, markSkipped t ms = some r → AnnOk r.2.1 := by
  intro r h
  unfold markSkipped at h
  split at h
  · cases h; exact AnnOk.nil
  · dsimp only at h
    split at h
    · cases h; exact AnnOk.nil
    · exact fwd_ann _ _ _ _ r h

theorem markAllNf_ann (l : List (Nat × Nat)) (t : Tracker) : ∀ r, markAllNf t l = some r → AnnOk r.2.1 := by
  induction l generalizing t with
  | nil => intro r h; simp only [markAllNf] at h; cases h; exact AnnOk.nil
  | cons b rest ih =>
    intro r h
    simp only [markAllNf] at h
    split at h
    · cases h
    · rename_i t1 n1 w1 h1
      split at h
      · cases h
      · rename_i t2 n2 w2 h2
        cases h
        exact (markNotarFallback_ann t b _ h1).append (ih _ _ h2)

theorem markAllSkipped_ann (l : List Nat) (t : Tracker) : ∀ r, markAllSkipped t l = some r → AnnOk r.2.1 := by
  induction l generalizing t with
  | nil => intro r h; simp only [markAllSkipped] at h; cases h; exact AnnOk.nil
  | cons b rest ih =>
    intro r h
    simp only [markAllSkipped] at h
    split at h
    · cases h
    · rename_i t1 n1 w1 h1
      split at h
      · cases h
      · rename_i t2 n2 w2 h2
        cases h
        exact (markSkipped_ann t b _ h1).append (ih _ _ h2)

theorem lastMax_mem (l : List (Nat × (Nat × Nat))) (x : Nat × (Nat × Nat)) (h : lastMax l = some x) : x ∈ l := by
  induction l generalizing x with
  | nil => simp [lastMax] at h
  | cons y rest ih =>
    simp only [lastMax] at h
    cases hz : lastMax rest with
    | none => simp only [hz] at h; cases h; simp
    | some z =>
      simp only [hz] at h
      split at h
      · have hx : z = x := Option.some.inj h
        rw [← hx]; exact List.mem_cons_of_mem _ (ih z hz)
      · have hx : y = x := Option.some.inj h
        rw [← hx]; simp

theorem handleFinalization_ann (t : Tracker) (ev : Finality.Event) : ∀ r, handleFinalization t ev = some r → AnnOk r.2.1 := by
  intro r h
  unfold handleFinalization at h
  split at h
  · cases h
  · rename_i t1 n1 w1 h1
    split at h
    · cases h
    · rename_i t2 n2 w2 h2
      cases h
      intro a ha
      have hall := (markAllNf_ann _ t _ h1).append (markAllSkipped_ann _ t1 _ h2)
      cases hl : lastMax (n1 ++ n2) with
      | none => simp [hl] at ha
      | some x =>
        simp only [hl, Option.toList_some, List.mem_singleton] at ha
        rw [ha]
        exact hall x (lastMax_mem _ _ hl)

end AgModel.NodePanic

namespace AgModel.NodePanic
open AgModel AgModel.Pool

/-- every `ParentReady` event in the list is for a window start -/
def PROk (evs : List Pool.Event) : Prop := ∀ s ps ph, Pool.Event.parentReady s ps ph ∈ evs → ParentReady.isWindowStart s = true

theorem PROk.append {a b : List Pool.Event} (h1 : PROk a) (h2 : PROk b) : PROk (a ++ b) := by
  intro s ps ph hm
  rcases List.mem_append.mp hm with h | h
  · exact h1 s ps ph h
  · exact h2 s ps ph h

theorem PROk.nil : PROk [] := by intro s ps ph h; simp at h

/-- lists without any `ParentReady` event -/
def NoPR (evs : List Pool.Event) : Prop := ∀ s ps ph, Pool.Event.parentReady s ps ph ∉ evs

theorem NoPR.ok {evs : List Pool.Event} (h : NoPR evs) : PROk evs := fun s ps ph hm => absurd hm (h s ps ph)

theorem NoPR.append {a b : List Pool.Event} (h1 : NoPR a) (h2 : NoPR b) : NoPR (a ++ b) := by
  intro s ps ph hm
  rcases List.mem_append.mp hm with h | h
  · exact h1 s ps ph h
  · exact h2 s ps ph h

theorem NoPR.nil : NoPR [] := by intro s ps ph h; simp at h

theorem s2nOut_noPR (slot h : Nat) (r : S2N) : NoPR (s2nOut slot h r) := by
  intro s ps ph hm
  cases r <;> simp [s2nOut] at hm

theorem recheckPending_noPR (e : Epoch) (hs : List Nat) (st : SlotState) (acc : List Pool.Event) (ha : NoPR acc) :
    NoPR (SlotState.recheckPending e st hs acc).2 := by
  induction hs generalizing st acc with
  | nil => exact ha
  | cons h hs ih =>
    unfold SlotState.recheckPending
    split
    · exact ih st acc ha
    · exact ih _ _ (ha.append (s2nOut_noPR _ _ _))

theorem s2sCheck_noPR (e : Epoch) (st : SlotState) : NoPR (st.s2sCheck e).2 := by
  unfold SlotState.s2sCheck
  split
  · intro s ps ph hm; simp at hm
  · exact NoPR.nil

theorem notarTail_noPR (e : Epoch) (A : SlotState) (h : Nat) : NoPR (notarTail e A h).2 := by
  unfold notarTail
  split
  · exact (s2nOut_noPR _ _ _).append (s2sCheck_noPR e _)
  · exact NoPR.nil.append (s2sCheck_noPR e _)

theorem skipTail_noPR (e : Epoch) (A : SlotState) : NoPR (skipTail e A).2 := by
  unfold skipTail
  exact (recheckPending_noPR e _ _ [] NoPR.nil).append (s2sCheck_noPR e _)

theorem countOf_noPR (e : Epoch) (st : SlotState) (v : Vote) : NoPR (countOf e st v).2.2 := by
  unfold countOf
  cases v.kind <;> dsimp only
  · have t := congrArg Prod.snd (countNotar_tail e { st with vNotar := st.vNotar ++ [(v.signer, v.hash)] } v.hash (e.stake v.signer))
    dsimp only at t; rw [t]; exact notarTail_noPR e _ _
  · exact NoPR.nil
  · have t := congrArg Prod.snd (countSkip_tail e { st with vSkip := st.vSkip ++ [v.signer], sNotarOrSkip := st.sNotarOrSkip + e.stake v.signer } (e.stake v.signer) false)
    dsimp only at t; rw [t]; exact skipTail_noPR e _
  · have t := congrArg Prod.snd (countSkip_tail e { st with vSf := st.vSf ++ [v.signer] } (e.stake v.signer) true)
    dsimp only at t; rw [t]; exact skipTail_noPR e _
  · exact NoPR.nil

theorem addVote_noPR (e : Epoch) (st : SlotState) (v : Vote) : NoPR (st.addVote e v).2.2 := by
  rw [addVote_eq]
  unfold ownWrap
  split
  · exact (countOf_noPR e st v).append (recheckPending_noPR e _ _ [] NoPR.nil)
  · exact countOf_noPR e st v

theorem notifyParentCertified_noPR (e : Epoch) (st : SlotState) (h : Nat) (s : SlotState) (evs : List Pool.Event)
    (hn : st.notifyParentCertified e h = some (s, evs)) : NoPR evs := by
  unfold SlotState.notifyParentCertified at hn
  split at hn
  · cases hn
  · dsimp only at hn
    split at hn
    · cases hn; exact NoPR.nil
    · cases hn; exact s2nOut_noPR _ _ _

theorem prEvents_ok (anns : List (Nat × (Nat × Nat))) (h : AnnOk anns) : PROk (prEvents anns) := by
  intro s ps ph hm
  unfold prEvents at hm
  simp only [List.mem_map] at hm
  obtain ⟨a, ha, he⟩ := hm
  cases he
  exact h a ha

theorem applyPr_ok (p : Pool.Pool) (r : ParentReady.Res) (hr : ∀ x, r = some x → AnnOk x.2.1) : PROk (p.applyPr r).2 := by
  unfold Pool.applyPr
  split
  · intro s ps ph hm; simp at hm
  · rename_i pr anns wk
    exact prEvents_ok anns (hr (pr, anns, wk) rfl)

theorem handleFin_ok (p : Pool.Pool) (r : Finality.Res) : PROk (p.handleFin r).2 := by
  unfold Pool.handleFin
  split
  · intro s ps ph hm; simp at hm
  · exact applyPr_ok _ _ (fun x hx => handleFinalization_ann _ _ x hx)

theorem notifyChildren_ok (p : Pool.Pool) (kids : List (Nat × Nat)) (acc : List Pool.Event) (ha : PROk acc) :
    PROk (p.notifyChildren kids acc).2 := by
  induction kids generalizing p acc with
  | nil => exact ha
  | cons k ks ih =>
    obtain ⟨cs, ch⟩ := k
    unfold Pool.notifyChildren
    split
    · exact ih p acc ha
    · dsimp only
      split
      · exact ha.append (by intro s ps ph hm; simp at hm)
      · rename_i st' evs hn
        exact ih _ _ (ha.append (notifyParentCertified_noPR _ _ _ _ _ hn).ok)

theorem notifyWaiting_ok (p : Pool.Pool) (b : Nat × Nat) : PROk (p.notifyWaiting b).2 := by
  unfold Pool.notifyWaiting
  exact notifyChildren_ok _ _ [] PROk.nil

theorem single_noPR_cert (c : Pool.Cert) : PROk [Pool.Event.cert c] := by intro s ps ph hm; simp at hm
theorem single_noPR_repair (a b : Nat) : PROk [Pool.Event.repair a b] := by intro s ps ph hm; simp at hm

theorem addValidCert_ok (p : Pool.Pool) (c : Pool.Cert) : PROk (p.addValidCert c).2 := by
  unfold Pool.addValidCert
  dsimp only
  cases hk : c.kind <;> dsimp only
  · simp only [show (CertKind.notar == CertKind.notar) = true from rfl, if_true]
    exact ((((handleFin_ok _ _).append (notifyWaiting_ok _ _)).append
      (applyPr_ok _ _ (fun x hx => markNotarFallback_ann _ _ x hx))).append (single_noPR_repair _ _)).append (single_noPR_cert c)
  · simp only [show (CertKind.nf == CertKind.notar) = false from rfl, Bool.false_eq_true, if_false]
    exact ((((PROk.nil).append (notifyWaiting_ok _ _)).append
      (applyPr_ok _ _ (fun x hx => markNotarFallback_ann _ _ x hx))).append (single_noPR_repair _ _)).append (single_noPR_cert c)
  · exact (applyPr_ok _ _ (fun x hx => markSkipped_ann _ _ x hx)).append (single_noPR_cert c)
  · exact ((handleFin_ok _ _).append (notifyWaiting_ok _ _)).append (single_noPR_cert c)
  · exact (handleFin_ok _ _).append (single_noPR_cert c)

theorem addValidCerts_ok (cs : List Pool.Cert) (p : Pool.Pool) (acc : List Pool.Event) (ha : PROk acc) :
    PROk (p.addValidCerts cs acc).2 := by
  induction cs generalizing p acc with
  | nil => exact ha
  | cons c cs ih =>
    unfold Pool.addValidCerts
    exact ih _ _ (ha.append (addValidCert_ok p c))

/-- **every `ParentReady` the pool sends on a vote is for the first slot of a window** -/
theorem addVote_prOk (p : Pool.Pool) (v : Pool.Vote) : PROk (p.addVote v).2.2 := by
  unfold Pool.addVote
  split
  · exact PROk.nil
  split
  · intro s ps ph hm; simp at hm
  dsimp only
  split
  · exact PROk.nil
  · split
    · exact PROk.nil
    · exact (addValidCerts_ok _ _ [] PROk.nil).append (addVote_noPR _ _ v).ok

theorem addCert_prOk (p : Pool.Pool) (c : Pool.Cert) : PROk (p.addCert c).2.2 := by
  unfold Pool.addCert
  split
  · exact PROk.nil
  dsimp only
  split <;> split
  all_goals first
    | exact PROk.nil
    | exact addValidCert_ok _ c

theorem addBlockTail_prOk (r : Pool.Pool) (b par : Nat × Nat) (e0 : List Pool.Event) (cert : Bool) (h0 : PROk e0) :
    PROk (Pool.addBlockTail r b par e0 cert).2 := by
  unfold Pool.addBlockTail
  split
  · split
    · exact h0.append (by intro s ps ph hm; simp at hm)
    · rename_i st' evs hn
      split
      · exact h0
      · exact h0.append (notifyParentCertified_noPR _ _ _ _ _ hn).ok
  · exact h0

theorem addBlock_prOk (p : Pool.Pool) (b par : Nat × Nat) : PROk (p.addBlock b par).2 := by
  unfold Pool.addBlock
  split
  · intro s ps ph hm; simp at hm
  split
  · intro s ps ph hm; simp at hm
  rename_i t ev _
  have h0 := applyPr_ok { p with fin := t } (ParentReady.handleFinalization p.pr ev) (fun x hx => handleFinalization_ann _ _ x hx)
  dsimp only
  split
  · exact h0
  · exact addBlockTail_prOk _ b par _ _ h0

end AgModel.NodePanic
