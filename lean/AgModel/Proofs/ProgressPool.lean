import AgModel.Proofs.ProgressSlot
import AgModel.Proofs.ProgressFin
import AgModel.Proofs.ProgressPr
import AgModel.Proofs.PoolS2NGlueViews
import AgModel.Proofs.PoolWiring
/-!
# C02 progress, pool part: `add_valid_cert`, `add_block`, `add_vote` in the timely schedule

Each lemma takes the results of the tracker computations as hypotheses (equations) and describes the resulting pool through its
views: `getSlot`, `fin`, `pr`, `waiting`, and the emitted events.
-/
namespace AgModel.Pool
open AgModel

theorem slotState_of_some {p : Pool} {s : Nat} {st : SlotState} (h : p.getSlot s = some st) : p.slotState s = (p, st) := by
  unfold Pool.slotState; rw [h]

theorem notifyWaiting_none (P : Pool) (b : Nat × Nat) (h : P.waiting.lookup b = none) :
    P.notifyWaiting b = ({ P with waiting := P.waiting.filter (·.1 ≠ b) }, []) := by
  unfold Pool.notifyWaiting
  rw [h]
  rfl

/-- all keys of the waiting map (parents some child waits for) are in slots below `s` -/
def WaitBelow (P : Pool) (s : Nat) : Prop := ∀ k ∈ P.waiting, k.1.1 < s

theorem WaitBelow.lookup {P : Pool} {s : Nat} (h : WaitBelow P s) (b : Nat × Nat) (hb : s ≤ b.1) : P.waiting.lookup b = none := by
  cases hl : P.waiting.lookup b with
  | none => rfl
  | some kids =>
    have := h _ (lookup_mem_entry _ _ _ hl)
    simp only at this
    omega

theorem WaitBelow.of_sub {P Q : Pool} {s : Nat} (h : WaitBelow P s) (hs : ∀ k ∈ Q.waiting, ∃ k' ∈ P.waiting, k'.1 = k.1) :
    WaitBelow Q s := by
  intro k hk
  obtain ⟨k', hk', e⟩ := hs k hk
  rw [← e]; exact h k' hk'

theorem pruneW_keys (w : WMap) (f : Nat) : ∀ k ∈ pruneW w f, ∃ k' ∈ w, k'.1 = k.1 := by
  intro k hk
  obtain ⟨a, b⟩ := k
  obtain ⟨kids, hm, _⟩ := pruneW_entry w f a b hk
  exact ⟨(a, kids), hm, rfl⟩

theorem advance_pr (p : Pool) (t : Finality.Tracker) (pr : ParentReady.Tracker) (anns : List (Nat × (Nat × Nat)))
    (wk : List ParentReady.Wake) : (p.advance t (some (pr, anns, wk))).pr = ParentReady.prune pr t.first := rfl

/-- `add_valid_cert` of a notar-fallback certificate nobody waits for -/
theorem addValidCert_nf (Q : Pool) (c : Cert) (a : SlotState) (hk : c.kind = .nf) (hg : Q.getSlot c.slot = some a)
    (hw : Q.waiting.lookup (c.slot, c.hash) = none) (pr' : ParentReady.Tracker) (anns : List (Nat × (Nat × Nat)))
    (wk : List ParentReady.Wake) (hm : ParentReady.markNotarFallback Q.pr (c.slot, c.hash) = some (pr', anns, wk)) :
    (Q.addValidCert c).2 = prEvents anns ++ [.repair c.slot c.hash, .cert c] ∧
    (Q.addValidCert c).1.epoch = Q.epoch ∧ (Q.addValidCert c).1.fin = Q.fin ∧ (Q.addValidCert c).1.pr = pr' ∧
    (∀ t, (Q.addValidCert c).1.getSlot t = if t = c.slot then some (a.addCert c) else Q.getSlot t) ∧
    (∀ k ∈ (Q.addValidCert c).1.waiting, k ∈ Q.waiting) := by
  have hw' : (Q.putSlot (a.addCert c)).waiting.lookup (c.slot, c.hash) = none := by
    rw [(putSlot_frame Q _).2.2]; exact hw
  have hpr : (Q.putSlot (a.addCert c)).pr = Q.pr := congrArg Trk.pr (putSlot_trk Q _)
  have hsl : (a.addCert c).slot = c.slot := by
    have := getSlot_slot hg
    unfold SlotState.addCert; simp only [hk]; split <;> exact this
  unfold Pool.addValidCert
  rw [slotState_of_some hg]
  simp only [hk, show (CertKind.nf == CertKind.notar) = false from rfl, Bool.false_eq_true, if_false]
  rw [notifyWaiting_none _ _ hw']
  simp only [hpr, hm, Pool.applyPr, List.nil_append, List.append_nil, List.append_assoc]
  refine ⟨by simp, ?_, ?_, trivial, ?_, ?_⟩
  · exact (putSlot_frame Q _).1
  · exact (putSlot_frame Q _).2.1
  · intro t
    show (Q.putSlot (a.addCert c)).getSlot t = _
    rw [getSlot_putSlot, hsl]
  · intro k hk'
    have : k ∈ (Q.putSlot (a.addCert c)).waiting := (List.mem_filter.mp hk').1
    rw [(putSlot_frame Q _).2.2] at this
    exact this

theorem handleFin_ok (P : Pool) (t : Finality.Tracker) (ev : Finality.Event) (pr1 : ParentReady.Tracker)
    (anns : List (Nat × (Nat × Nat))) (wk : List ParentReady.Wake)
    (h : ParentReady.handleFinalization P.pr ev = some (pr1, anns, wk)) :
    P.handleFin (.ok t ev) = (P.advance t (some (pr1, anns, wk)), prEvents anns) := by
  unfold Pool.handleFin Pool.advance
  simp only [h, Pool.applyPr]

theorem WaitBelow.advance {P : Pool} {s : Nat} (h : WaitBelow P s) (t : Finality.Tracker) (r : ParentReady.Res) :
    WaitBelow (P.advance t r) s := by
  apply h.of_sub
  rw [advance_waiting]
  exact pruneW_keys _ _

theorem WaitBelow.putSlot {P : Pool} {s : Nat} (h : WaitBelow P s) (st : SlotState) : WaitBelow (P.putSlot st) s := by
  intro k hk; rw [(putSlot_frame P st).2.2] at hk; exact h k hk

/-- `add_valid_cert` of a notarization certificate whose block is not yet in the finality tracker -/
theorem addValidCert_notar (Q : Pool) (c : Cert) (a : SlotState) (hk : c.kind = .notar) (hg : Q.getSlot c.slot = some a)
    (hw : WaitBelow Q c.slot) (t1 : Finality.Tracker) (hfin : Finality.markNotarized Q.fin (c.slot, c.hash) = .ok t1 {})
    (pr' : ParentReady.Tracker) (anns : List (Nat × (Nat × Nat))) (wk : List ParentReady.Wake)
    (hm : ParentReady.markNotarFallback (ParentReady.prune Q.pr t1.first) (c.slot, c.hash) = some (pr', anns, wk)) :
    (Q.addValidCert c).2 = prEvents anns ++ [.repair c.slot c.hash, .cert c] ∧
    (Q.addValidCert c).1.epoch = Q.epoch ∧ (Q.addValidCert c).1.fin = t1 ∧ (Q.addValidCert c).1.pr = pr' ∧
    (∀ t, (Q.addValidCert c).1.getSlot t =
      if t1.first ≤ t then (if t = c.slot then some (a.addCert c) else Q.getSlot t) else none) ∧
    WaitBelow (Q.addValidCert c).1 c.slot := by
  have hsl : (a.addCert c).slot = c.slot := by
    have := getSlot_slot hg
    unfold SlotState.addCert; simp only [hk]; exact this
  have hfin' : (Q.putSlot (a.addCert c)).fin = Q.fin := (putSlot_frame Q _).2.1
  have hpr : (Q.putSlot (a.addCert c)).pr = Q.pr := congrArg Trk.pr (putSlot_trk Q _)
  have hw1 : WaitBelow ((Q.putSlot (a.addCert c)).advance t1 (some (Q.pr, [], []))) c.slot := (hw.putSlot _).advance _ _
  unfold Pool.addValidCert
  rw [slotState_of_some hg]
  simp only [hk, show (CertKind.notar == CertKind.notar) = true from rfl, if_true]
  rw [hfin', hfin, handleFin_ok _ t1 {} Q.pr [] [] (by rw [hpr]; exact ParentReady.handleFinalization_empty _)]
  rw [notifyWaiting_none _ _ (hw1.lookup _ (Nat.le_refl _))]
  have hpr2 : ((Q.putSlot (a.addCert c)).advance t1 (some (Q.pr, [], []))).pr = ParentReady.prune Q.pr t1.first := rfl
  simp only [hpr2, hm, Pool.applyPr, prEvents, List.map_nil, List.nil_append, List.append_nil, List.append_assoc]
  refine ⟨by simp [prEvents], ?_, ?_, trivial, ?_, ?_⟩
  · show ((Q.putSlot (a.addCert c)).advance t1 _).epoch = _
    rw [advance_epoch]; exact (putSlot_frame Q _).1
  · show ((Q.putSlot (a.addCert c)).advance t1 _).fin = _
    rw [advance_fin]
  · intro t
    show ((Q.putSlot (a.addCert c)).advance t1 _).getSlot t = _
    rw [getSlot_advance, getSlot_putSlot, hsl]
  · intro k hk'
    have : k ∈ ((Q.putSlot (a.addCert c)).advance t1 (some (Q.pr, [], []))).waiting := (List.mem_filter.mp hk').1
    exact hw1 k this

/-- `add_valid_cert` of a fast-finalization (`ff`) or finalization (`final`) certificate -/
theorem addValidCert_fin (Q : Pool) (c : Cert) (a : SlotState) (hk : c.kind = .ff ∨ c.kind = .final)
    (hg : Q.getSlot c.slot = some a) (hw : WaitBelow Q c.slot) (t1 : Finality.Tracker) (ev : Finality.Event)
    (hfin : (match c.kind with
      | .ff => Finality.markFastFinalized Q.fin (c.slot, c.hash)
      | _ => Finality.markFinalized Q.fin c.slot) = .ok t1 ev)
    (pr1 : ParentReady.Tracker) (anns : List (Nat × (Nat × Nat))) (wk : List ParentReady.Wake)
    (hm : ParentReady.handleFinalization Q.pr ev = some (pr1, anns, wk)) :
    (Q.addValidCert c).2 = prEvents anns ++ [.cert c] ∧
    (Q.addValidCert c).1.epoch = Q.epoch ∧ (Q.addValidCert c).1.fin = t1 ∧
    (Q.addValidCert c).1.pr = ParentReady.prune pr1 t1.first ∧
    (∀ t, (Q.addValidCert c).1.getSlot t =
      if t1.first ≤ t then (if t = c.slot then some (a.addCert c) else Q.getSlot t) else none) ∧
    WaitBelow (Q.addValidCert c).1 c.slot := by
  have hsl : (a.addCert c).slot = c.slot := by
    have := getSlot_slot hg
    unfold SlotState.addCert
    rcases hk with hk | hk <;> (simp only [hk]; exact this)
  have hfin' : (Q.putSlot (a.addCert c)).fin = Q.fin := (putSlot_frame Q _).2.1
  have hpr : (Q.putSlot (a.addCert c)).pr = Q.pr := congrArg Trk.pr (putSlot_trk Q _)
  have hw1 : WaitBelow ((Q.putSlot (a.addCert c)).advance t1 (some (pr1, anns, wk))) c.slot := (hw.putSlot _).advance _ _
  unfold Pool.addValidCert
  rw [slotState_of_some hg]
  rcases hk with hk | hk
  · simp only [hk] at hfin ⊢
    rw [hfin', hfin, handleFin_ok _ t1 ev pr1 anns wk (by rw [hpr]; exact hm)]
    rw [notifyWaiting_none _ _ (hw1.lookup _ (Nat.le_refl _))]
    refine ⟨by simp, ?_, ?_, rfl, ?_, ?_⟩
    · show ((Q.putSlot (a.addCert c)).advance t1 _).epoch = _
      rw [advance_epoch]; exact (putSlot_frame Q _).1
    · show ((Q.putSlot (a.addCert c)).advance t1 _).fin = _
      rw [advance_fin]
    · intro t
      show ((Q.putSlot (a.addCert c)).advance t1 _).getSlot t = _
      rw [getSlot_advance, getSlot_putSlot, hsl]
    · intro k hk'
      have : k ∈ ((Q.putSlot (a.addCert c)).advance t1 (some (pr1, anns, wk))).waiting := (List.mem_filter.mp hk').1
      exact hw1 k this
  · simp only [hk] at hfin ⊢
    rw [hfin', hfin, handleFin_ok _ t1 ev pr1 anns wk (by rw [hpr]; exact hm)]
    refine ⟨rfl, ?_, ?_, rfl, ?_, hw1⟩
    · show ((Q.putSlot (a.addCert c)).advance t1 _).epoch = _
      rw [advance_epoch]; exact (putSlot_frame Q _).1
    · show ((Q.putSlot (a.addCert c)).advance t1 _).fin = _
      rw [advance_fin]
    · intro t
      show ((Q.putSlot (a.addCert c)).advance t1 _).getSlot t = _
      rw [getSlot_advance, getSlot_putSlot, hsl]

/-- `add_valid_cert` of a skip certificate -/
theorem addValidCert_skip (Q : Pool) (c : Cert) (a : SlotState) (hk : c.kind = .skip) (hg : Q.getSlot c.slot = some a)
    (pr' : ParentReady.Tracker) (anns : List (Nat × (Nat × Nat))) (wk : List ParentReady.Wake)
    (hm : ParentReady.markSkipped Q.pr c.slot = some (pr', anns, wk)) :
    (Q.addValidCert c).2 = prEvents anns ++ [.cert c] ∧
    (Q.addValidCert c).1.epoch = Q.epoch ∧ (Q.addValidCert c).1.fin = Q.fin ∧ (Q.addValidCert c).1.pr = pr' ∧
    (∀ t, (Q.addValidCert c).1.getSlot t = if t = c.slot then some (a.addCert c) else Q.getSlot t) ∧
    (Q.addValidCert c).1.waiting = Q.waiting := by
  have hsl : (a.addCert c).slot = c.slot := by
    have := getSlot_slot hg
    unfold SlotState.addCert; simp only [hk]; exact this
  have hpr : (Q.putSlot (a.addCert c)).pr = Q.pr := congrArg Trk.pr (putSlot_trk Q _)
  unfold Pool.addValidCert
  rw [slotState_of_some hg]
  simp only [hk, hpr, hm, Pool.applyPr]
  refine ⟨trivial, ?_, ?_, trivial, ?_, ?_⟩
  · exact (putSlot_frame Q _).1
  · exact (putSlot_frame Q _).2.1
  · intro t
    show (Q.putSlot (a.addCert c)).getSlot t = _
    rw [getSlot_putSlot, hsl]
  · exact (putSlot_frame Q _).2.2

end AgModel.Pool
