import AgModel.Proofs.PoolS2NGlueSoundEv
/-! Pool-level glue for C06, part 8: **at most once, at pool level**. Over every run, no `SafeToNotar(s, h)` event is emitted
    twice for the same block and no `SafeToSkip(s)` twice for the same slot — across pruning and re-creation of slot states:
    events are only emitted for slots at or above the watermark, such slot states are never dropped, and their `sent` /
    `sentS2S` records only grow. Generic over a *channel* (which events, which record in the slot state). -/
namespace AgModel.Pool

structure Chan (κ : Type) where
  key : Event → Option (Nat × κ)
  rcd : SlotState → κ → Prop

/-- one slot-level step, seen through a channel -/
structure ChanStep {κ : Type} (ch : Chan κ) (st st' : SlotState) (evs : List Event) : Prop where
  slot : st'.slot = st.slot
  mono : ∀ k, ch.rcd st k → ch.rcd st' k
  fresh : ∀ ev ∈ evs, ∀ s k, ch.key ev = some (s, k) → s = st.slot ∧ ¬ ch.rcd st k ∧ ch.rcd st' k
  nodup : (evs.filterMap ch.key).Nodup

structure ChanClosed {κ : Type} (e : Epoch) (ch : Chan κ) : Prop where
  init : ∀ s k, ¬ ch.rcd { slot := s } k
  vote : ∀ st v, ChanStep ch st (st.addVote e v).1 (st.addVote e v).2.2
  cert : ∀ st c k, ch.rcd st k → ch.rcd (st.addCert c) k
  known : ∀ st h k, ch.rcd st k → ch.rcd (st.notifyParentKnown h) k
  certified : ∀ st h st' evs, st.notifyParentCertified e h = some (st', evs) → ChanStep ch st st' evs
  quiet : ∀ ev, (∀ s h, ev ≠ .s2n s h) → (∀ s, ev ≠ .s2s s) → ch.key ev = none

/-- every keyed event emitted so far is for a decided (pruned) slot or is recorded in the slot state; no key twice -/
def ChanInv {κ : Type} (ch : Chan κ) (p : Pool) (E : List Event) : Prop :=
  (∀ ev ∈ E, ∀ s k, ch.key ev = some (s, k) → s < p.fin.first ∨ ∃ st, p.getSlot s = some st ∧ ch.rcd st k) ∧
  (E.filterMap ch.key).Nodup

variable {κ : Type} {ch : Chan κ}

theorem ChanInv.step {p : Pool} {E : List Event} {s : Nat} {st' : SlotState} {evs : List Event}
    (h : ChanInv ch p E) (hst : ChanStep ch (p.slotState s).2 st' evs) (hf : evs ≠ [] → p.fin.first ≤ s) :
    ChanInv ch ((p.slotState s).1.putSlot st') (E ++ evs) := by
  have hsl : st'.slot = s := hst.slot.trans (slotState_snd_slot p s)
  have hfin := (mod_frame p s st').2.1
  constructor
  · intro ev hev s0 k hk
    rw [hfin, getSlot_mod p s st' hsl]
    rcases List.mem_append.mp hev with hev | hev
    · rcases h.1 ev hev s0 k hk with a | ⟨st, hg, hr⟩
      · exact Or.inl a
      · right
        by_cases he : s0 = s
        · subst he
          simp only [if_true]
          refine ⟨st', rfl, hst.mono k ?_⟩
          rw [slotState_snd_of_some hg]; exact hr
        · simp only [he, if_false]; exact ⟨st, hg, hr⟩
    · obtain ⟨a, _, c⟩ := hst.fresh ev hev s0 k hk
      right
      rw [a, slotState_snd_slot]
      simp only [if_true]
      exact ⟨st', rfl, c⟩
  · rw [List.filterMap_append, List.nodup_append]
    refine ⟨h.2, hst.nodup, ?_⟩
    intro x hx y hy hxy
    subst hxy
    obtain ⟨ev, hev, hk⟩ := List.mem_filterMap.mp hy
    obtain ⟨ev', hev', hk'⟩ := List.mem_filterMap.mp hx
    obtain ⟨s0, k⟩ := x
    obtain ⟨a, b, _⟩ := hst.fresh ev hev s0 k hk
    rw [slotState_snd_slot] at a
    subst a
    have hne : evs ≠ [] := by intro hn; rw [hn] at hev; cases hev
    rcases h.1 ev' hev' s0 k hk' with c | ⟨st, hg, hr⟩
    · have := hf hne; omega
    · apply b; rw [slotState_snd_of_some hg]; exact hr

theorem ChanInv.keyless {p : Pool} {E : List Event} (h : ChanInv ch p E) (evs : List Event) (hq : ∀ ev ∈ evs, ch.key ev = none) :
    ChanInv ch p (E ++ evs) := by
  constructor
  · intro ev hev s0 k hk
    rcases List.mem_append.mp hev with hev | hev
    · exact h.1 ev hev s0 k hk
    · rw [hq ev hev] at hk; cases hk
  · rw [List.filterMap_append]
    have : evs.filterMap ch.key = [] := by
      rw [List.filterMap_eq_nil_iff]; exact hq
    rw [this, List.append_nil]; exact h.2

theorem ChanInv.of_views {p q : Pool} {E : List Event} (h : ChanInv ch p E) (hf : q.fin = p.fin)
    (hs : ∀ s, q.getSlot s = p.getSlot s) : ChanInv ch q E := by
  refine ⟨fun ev hev s0 k hk => ?_, h.2⟩
  rw [hf, hs]; exact h.1 ev hev s0 k hk

theorem ChanInv.slotState {p : Pool} {E : List Event} (h : ChanInv ch p E) (s : Nat) : ChanInv ch (p.slotState s).1 E := by
  refine ⟨fun ev hev s0 k hk => ?_, h.2⟩
  rw [(slotState_frame p s).2.1, getSlot_slotState]
  rcases h.1 ev hev s0 k hk with a | ⟨st, hg, hr⟩
  · exact Or.inl a
  · right
    by_cases he : s0 = s
    · subst he; simp only [if_true]; exact ⟨_, rfl, by rw [slotState_snd_of_some hg]; exact hr⟩
    · simp only [he, if_false]; exact ⟨st, hg, hr⟩

theorem ChanInv.advance {p : Pool} {E : List Event} (h : ChanInv ch p E) (t : Finality.Tracker) (r : ParentReady.Res)
    (hm : p.fin.first ≤ t.first) : ChanInv ch (p.advance t r) E := by
  refine ⟨fun ev hev s0 k hk => ?_, h.2⟩
  rw [advance_fin, getSlot_advance]
  rcases h.1 ev hev s0 k hk with a | ⟨st, hg, hr⟩
  · left; omega
  · by_cases hs : t.first ≤ s0
    · right; simp only [hs, if_true]; exact ⟨st, hg, hr⟩
    · left; omega

/-- a slot state is modified without emitting anything -/
theorem ChanInv.silent {p : Pool} {E : List Event} {s : Nat} {st' : SlotState} (h : ChanInv ch p E)
    (hsl : st'.slot = (p.slotState s).2.slot) (hm : ∀ k, ch.rcd (p.slotState s).2 k → ch.rcd st' k) :
    ChanInv ch ((p.slotState s).1.putSlot st') E := by
  have hcs : ChanStep ch (p.slotState s).2 st' [] :=
    { slot := hsl, mono := hm, fresh := (by intro _ hev; cases hev), nodup := (by simp) }
  have := h.step (s := s) (st' := st') (evs := []) hcs (fun hn => absurd rfl hn)
  rw [List.append_nil] at this; exact this

/-! ### the trackers' events carry no key -/

theorem applyPr_keyless {e : Epoch} (hc : ChanClosed e ch) (p : Pool) (r : ParentReady.Res) : ∀ ev ∈ (p.applyPr r).2, ch.key ev = none := by
  intro ev hev
  unfold Pool.applyPr at hev
  split at hev
  · simp only [List.mem_singleton] at hev; subst hev
    exact hc.quiet _ (fun _ _ h => by cases h) (fun _ h => by cases h)
  · unfold prEvents at hev
    obtain ⟨a, _, rfl⟩ := List.mem_map.mp hev
    exact hc.quiet _ (fun _ _ h => by cases h) (fun _ h => by cases h)

theorem handleFin_keyless {e : Epoch} (hc : ChanClosed e ch) (p : Pool) (r : Finality.Res) : ∀ ev ∈ (p.handleFin r).2, ch.key ev = none := by
  intro ev hev
  unfold Pool.handleFin at hev
  split at hev
  · simp only [List.mem_singleton] at hev; subst hev
    exact hc.quiet _ (fun _ _ h => by cases h) (fun _ h => by cases h)
  · exact applyPr_keyless hc _ _ ev hev

theorem ChanInv.handleFin {e : Epoch} (hc : ChanClosed e ch) {p : Pool} {E : List Event} (h : ChanInv ch p E) (op : Finality.Op) :
    ChanInv ch (p.handleFin (Finality.step p.fin op)).1 (E ++ (p.handleFin (Finality.step p.fin op)).2) := by
  apply ChanInv.keyless _ _ (handleFin_keyless hc p _)
  rcases handleFin_cases p op with h1 | ⟨t, r, hm, h1⟩
  · rw [h1]; exact h
  · rw [h1]; exact h.advance t r hm

theorem ChanInv.applyPr {e : Epoch} (hc : ChanClosed e ch) {p : Pool} {E : List Event} (h : ChanInv ch p E) (r : ParentReady.Res) :
    ChanInv ch (p.applyPr r).1 (E ++ (p.applyPr r).2) := by
  apply ChanInv.keyless _ _ (applyPr_keyless hc p r)
  exact h.of_views (applyPr_frame p r).2.1 (getSlot_applyPr p r)

theorem ChanInv.single {e : Epoch} (hc : ChanClosed e ch) {p : Pool} {E : List Event} (h : ChanInv ch p E) (ev : Event)
    (h1 : ∀ s h, ev ≠ .s2n s h) (h2 : ∀ s, ev ≠ .s2s s) : ChanInv ch p (E ++ [ev]) :=
  h.keyless [ev] (fun ev' hev' => by simp only [List.mem_singleton] at hev'; subst hev'; exact hc.quiet _ h1 h2)

/-! ### through the pool operations -/

theorem notifyChildren_chan {e : Epoch} (hc : ChanClosed e ch) (kids : List (Nat × Nat)) (p : Pool) (acc : List Event) (he : p.epoch = e) :
    ∃ new, (p.notifyChildren kids acc).2 = acc ++ new ∧ ∀ A, ChanInv ch p A → ChanInv ch (p.notifyChildren kids acc).1 (A ++ new) := by
  induction kids generalizing p acc with
  | nil => exact ⟨[], by simp [Pool.notifyChildren], fun A h => by rw [List.append_nil]; exact h⟩
  | cons k ks ih =>
    obtain ⟨cs, ch'⟩ := k
    rw [notifyChildren_cons]
    split
    · exact ih p acc he
    · rename_i hge
      split
      · refine ⟨[.panic], rfl, fun A h => ?_⟩
        exact (h.slotState cs).single hc _ (fun _ _ h => by cases h) (fun _ h => by cases h)
      · rename_i st' evs hn
        rw [(slotState_frame p cs).1, he] at hn
        obtain ⟨new, h1, h2⟩ := ih ((p.slotState cs).1.putSlot st') (acc ++ evs) ((mod_frame p cs st').1.trans he)
        refine ⟨evs ++ new, by rw [h1, List.append_assoc], fun A h => ?_⟩
        rw [← List.append_assoc]
        exact h2 _ (h.step (hc.certified _ ch' st' evs hn) (fun _ => by omega))

theorem notifyWaiting_chan {e : Epoch} (hc : ChanClosed e ch) (p : Pool) (b : Nat × Nat) (he : p.epoch = e) {A : List Event}
    (h : ChanInv ch p A) : ChanInv ch (p.notifyWaiting b).1 (A ++ (p.notifyWaiting b).2) := by
  unfold Pool.notifyWaiting
  obtain ⟨new, h1, h2⟩ := notifyChildren_chan hc ((p.waiting.lookup b).getD []) { p with waiting := p.waiting.filter (·.1 ≠ b) } [] he
  rw [h1, List.nil_append]
  exact h2 A (h.of_views rfl (fun _ => rfl))

theorem addValidCert_chan {e : Epoch} (hc : ChanClosed e ch) (p : Pool) (c : Cert) (he : p.epoch = e) {A : List Event}
    (h : ChanInv ch p A) : ChanInv ch (p.addValidCert c).1 (A ++ (p.addValidCert c).2) := by
  have hst : ChanInv ch (p.stored c) A := by
    unfold Pool.stored
    exact h.silent (addCert_slot _ c) (fun k hk => hc.cert _ c k hk)
  have hse : (p.stored c).epoch = e := by unfold Pool.stored; exact (mod_frame p c.slot _).1.trans he
  have hfe : ∀ op, ((p.stored c).handleFin (Finality.step (p.stored c).fin op)).1.epoch = e := by
    intro op; exact (handleFin_spec _ _ (fun _ => True) (fun _ _ => trivial)).2.trans hse
  unfold Pool.addValidCert
  dsimp only
  unfold Pool.stored at hst hse hfe
  generalize ((p.slotState c.slot).1.putSlot ((p.slotState c.slot).2.addCert c)) = p1 at hst hse hfe ⊢
  cases hk : c.kind <;> dsimp only
  · simp only [show (CertKind.notar == CertKind.notar) = true from rfl, if_true, ← List.append_assoc]
    have a1 := hst.handleFin hc (.notar (c.slot, c.hash))
    have a2 := notifyWaiting_chan hc _ (c.slot, c.hash) (hfe (.notar (c.slot, c.hash))) a1
    have a3 := a2.applyPr hc (ParentReady.markNotarFallback
      ((p1.handleFin (Finality.markNotarized p1.fin (c.slot, c.hash))).1.notifyWaiting (c.slot, c.hash)).1.pr (c.slot, c.hash))
    exact ((a3.single hc (.repair c.slot c.hash) (fun _ _ h => by cases h) (fun _ h => by cases h)).single hc (.cert c)
      (fun _ _ h => by cases h) (fun _ h => by cases h))
  · simp only [show (CertKind.nf == CertKind.notar) = false from rfl, Bool.false_eq_true, if_false, List.nil_append, ← List.append_assoc]
    have a2 := notifyWaiting_chan hc _ (c.slot, c.hash) hse hst
    have a3 := a2.applyPr hc (ParentReady.markNotarFallback (p1.notifyWaiting (c.slot, c.hash)).1.pr (c.slot, c.hash))
    exact ((a3.single hc (.repair c.slot c.hash) (fun _ _ h => by cases h) (fun _ h => by cases h)).single hc (.cert c)
      (fun _ _ h => by cases h) (fun _ h => by cases h))
  · simp only [← List.append_assoc]
    exact (hst.applyPr hc _).single hc (.cert c) (fun _ _ h => by cases h) (fun _ h => by cases h)
  · simp only [← List.append_assoc]
    have a1 := hst.handleFin hc (.fastFinal (c.slot, c.hash))
    have a2 := notifyWaiting_chan hc _ (c.slot, c.hash) (hfe (.fastFinal (c.slot, c.hash))) a1
    exact a2.single hc (.cert c) (fun _ _ h => by cases h) (fun _ h => by cases h)
  · simp only [← List.append_assoc]
    exact (hst.handleFin hc (.final c.slot)).single hc (.cert c) (fun _ _ h => by cases h) (fun _ h => by cases h)

theorem addValidCerts_chan {e : Epoch} (hc : ChanClosed e ch) (cs : List Cert) (p : Pool) (acc : List Event) (he : p.epoch = e) :
    ∃ new, (p.addValidCerts cs acc).2 = acc ++ new ∧ ∀ A, ChanInv ch p A → ChanInv ch (p.addValidCerts cs acc).1 (A ++ new) := by
  induction cs generalizing p acc with
  | nil => exact ⟨[], by simp [Pool.addValidCerts], fun A h => by rw [List.append_nil]; exact h⟩
  | cons c cs ih =>
    rw [addValidCerts_cons]
    obtain ⟨new, h1, h2⟩ := ih (p.addValidCert c).1 (acc ++ (p.addValidCert c).2) ((addValidCert_epoch p c).trans he)
    refine ⟨(p.addValidCert c).2 ++ new, by rw [h1, List.append_assoc], fun A h => ?_⟩
    rw [← List.append_assoc]
    exact h2 _ (addValidCert_chan hc p c he h)

theorem addBlockTail_chan {e : Epoch} (hc : ChanClosed e ch) (r : Pool) (b par : Nat × Nat) (e0 : List Event) (cert : Bool)
    (he : r.epoch = e) (hf : r.fin.first ≤ b.1) {A : List Event} (h : ChanInv ch r (A ++ e0)) :
    ChanInv ch (Pool.addBlockTail r b par e0 cert).1 (A ++ (Pool.addBlockTail r b par e0 cert).2) := by
  unfold Pool.addBlockTail
  split
  · split
    · rw [← List.append_assoc]
      exact (h.slotState b.1).single hc _ (fun _ _ h => by cases h) (fun _ h => by cases h)
    · rename_i st' evs hn
      rw [(slotState_frame r b.1).1, he] at hn
      have hm := h.step (hc.certified _ b.2 st' evs hn) (fun _ => hf)
      split
      · rename_i hemp
        have : evs = [] := by simpa using hemp
        rw [this, List.append_nil] at hm
        exact hm.of_views (addWaiting_frame _ par b).2 (getSlot_addWaiting _ par b)
      · rw [← List.append_assoc]; exact hm
  · exact h.of_views (addWaiting_frame _ par b).2 (getSlot_addWaiting _ par b)

/-- the outcomes of `Pool::add_block`, pool and events -/
theorem addBlock_full' (p : Pool) (b par : Nat × Nat) :
    p.addBlock b par = (p, [.panic]) ∨
    ∃ t r, p.fin.first ≤ t.first ∧
      ((b.1 < t.first ∧ p.addBlock b par = (p.advance t r, trackerEvents p (.block b par))) ∨
       (t.first ≤ b.1 ∧ p.addBlock b par = Pool.addBlockTail ((p.advance t r).known b) b par (trackerEvents p (.block b par))
          (((p.advance t r).known b).certifiedB par))) := by
  simp only [trackerEvents]
  unfold Pool.addBlock
  by_cases hgt : b.1 > par.1
  · simp only [hgt, not_true_eq_false, if_false]
    cases hst : Finality.addParent p.fin b par with
    | panic => exact Or.inl rfl
    | ok t ev =>
      have hmono : p.fin.first ≤ t.first := fin_first_mono (op := .parent b par) hst
      have hfin : (p.advance t (ParentReady.handleFinalization p.pr ev)).fin = t := advance_fin _ _ _
      unfold Pool.advance at hfin
      dsimp only
      refine Or.inr ⟨t, ParentReady.handleFinalization p.pr ev, hmono, ?_⟩
      split
      · rename_i hlt; rw [hfin] at hlt; exact Or.inl ⟨hlt, rfl⟩
      · rename_i hge; rw [hfin] at hge; exact Or.inr ⟨by omega, rfl⟩
  · simp only [hgt, not_false_eq_true, if_true, true_or]

theorem ChanInv.perm {p : Pool} {E E' : List Event} (h : ChanInv ch p E) (hp : E.Perm E') : ChanInv ch p E' :=
  ⟨fun ev hev => h.1 ev (hp.mem_iff.mpr hev), (hp.filterMap ch.key).nodup_iff.mp h.2⟩

/-- the outcomes of `Pool::add_vote`, pool and events -/
theorem addVote_full (p : Pool) (v : Vote) :
    ((p.addVote v).1 = p ∧ ((p.addVote v).2.2 = [] ∨ (p.addVote v).2.2 = [.panic])) ∨
    ((p.addVote v).1 = (p.slotState v.slot).1 ∧ (p.addVote v).2.2 = []) ∨
    (p.fin.first ≤ v.slot ∧
      (p.addVote v).1 = (((p.slotState v.slot).1.putSlot ((p.slotState v.slot).2.addVote p.epoch v).1).addValidCerts
        ((p.slotState v.slot).2.addVote p.epoch v).2.1 []).1 ∧
      (p.addVote v).2.2 = (((p.slotState v.slot).1.putSlot ((p.slotState v.slot).2.addVote p.epoch v).1).addValidCerts
        ((p.slotState v.slot).2.addVote p.epoch v).2.1 []).2 ++ ((p.slotState v.slot).2.addVote p.epoch v).2.2) := by
  unfold Pool.addVote
  split
  · exact Or.inl ⟨rfl, Or.inl rfl⟩
  rename_i hoob
  split
  · exact Or.inl ⟨rfl, Or.inr rfl⟩
  dsimp only
  split
  · exact Or.inr (Or.inl ⟨rfl, rfl⟩)
  · split
    · exact Or.inr (Or.inl ⟨rfl, rfl⟩)
    · have hep : (p.slotState v.slot).1.epoch = p.epoch := (slotState_frame p v.slot).1
      rw [hep]
      refine Or.inr (Or.inr ⟨?_, rfl, rfl⟩)
      unfold Pool.outOfBounds at hoob
      simp only [Bool.or_eq_true, decide_eq_true_eq, not_or, Nat.not_lt] at hoob
      exact hoob.1

theorem addCert_full (p : Pool) (c : Cert) :
    ((p.addCert c).1 = p ∧ (p.addCert c).2.2 = []) ∨
    ((p.addCert c).1 = (p.slotState c.slot).1 ∧ (p.addCert c).2.2 = []) ∨
    ((p.addCert c).1 = ((p.slotState c.slot).1.addValidCert c).1 ∧ (p.addCert c).2.2 = ((p.slotState c.slot).1.addValidCert c).2) := by
  unfold Pool.addCert
  split
  · exact Or.inl ⟨rfl, rfl⟩
  dsimp only
  split <;> split
  all_goals first
    | exact Or.inr (Or.inl ⟨rfl, rfl⟩)
    | exact Or.inr (Or.inr ⟨rfl, rfl⟩)

theorem poolStep_chan {e : Epoch} (hc : ChanClosed e ch) (p : Pool) (op : PoolOp) (he : p.epoch = e) {A : List Event}
    (h : ChanInv ch p A) : ChanInv ch (poolStep p op).1 (A ++ (poolStep p op).2) := by
  have hpanic : ∀ {q : Pool}, ChanInv ch q A → ChanInv ch q (A ++ [Event.panic]) :=
    fun hq => hq.single hc _ (fun _ _ h => by cases h) (fun _ h => by cases h)
  cases op with
  | vote v =>
    simp only [poolStep]
    rcases addVote_full p v with ⟨h1, h2 | h2⟩ | ⟨h1, h2⟩ | ⟨hf, h1, h2⟩
    · rw [h1, h2, List.append_nil]; exact h
    · rw [h1, h2]; exact hpanic h
    · rw [h1, h2, List.append_nil]; exact h.slotState _
    · rw [h1, h2]
      have hm : ChanInv ch ((p.slotState v.slot).1.putSlot ((p.slotState v.slot).2.addVote p.epoch v).1)
          (A ++ ((p.slotState v.slot).2.addVote p.epoch v).2.2) := by
        rw [he]; exact h.step (hc.vote _ v) (fun _ => hf)
      obtain ⟨new, n1, n2⟩ := addValidCerts_chan hc ((p.slotState v.slot).2.addVote p.epoch v).2.1
        ((p.slotState v.slot).1.putSlot ((p.slotState v.slot).2.addVote p.epoch v).1) [] ((mod_frame p v.slot _).1.trans he)
      rw [n1, List.nil_append]
      refine (n2 _ hm).perm ?_
      rw [List.append_assoc]
      exact List.Perm.append_left A List.perm_append_comm
  | cert c =>
    simp only [poolStep]
    rcases addCert_full p c with ⟨h1, h2⟩ | ⟨h1, h2⟩ | ⟨h1, h2⟩
    · rw [h1, h2, List.append_nil]; exact h
    · rw [h1, h2, List.append_nil]; exact h.slotState _
    · rw [h1, h2]
      exact addValidCert_chan hc _ c ((slotState_frame p c.slot).1.trans he) (h.slotState _)
  | block b par =>
    simp only [poolStep]
    have ht : ∀ ev ∈ trackerEvents p (.block b par), ch.key ev = none := by
      intro ev hev
      simp only [trackerEvents] at hev
      split at hev
      · simp only [List.mem_singleton] at hev; subst hev
        exact hc.quiet _ (fun _ _ h => by cases h) (fun _ h => by cases h)
      · split at hev
        · simp only [List.mem_singleton] at hev; subst hev
          exact hc.quiet _ (fun _ _ h => by cases h) (fun _ h => by cases h)
        · exact applyPr_keyless hc _ _ ev hev
    rcases addBlock_full' p b par with h1 | ⟨t, r, hm, ⟨_, h1⟩ | ⟨hge, h1⟩⟩
    · rw [h1]; exact hpanic h
    · rw [h1]; exact (h.advance t r hm).keyless _ ht
    · rw [h1]
      have hq := (h.advance t r hm).keyless _ ht
      have hk : ChanInv ch ((p.advance t r).known b) (A ++ trackerEvents p (.block b par)) := by
        unfold Pool.known
        exact hq.silent (notifyParentKnown_spec _ b.2).1 (fun k hk => hc.known _ b.2 k hk)
      apply addBlockTail_chan hc _ b par _ _ ((known_frame _ b).1.trans ((advance_epoch p t r).trans he)) ?_ hk
      rw [(known_frame _ b).2.1, advance_fin]; exact hge

theorem poolRun_chan {e : Epoch} (hc : ChanClosed e ch) (ops : List PoolOp) (p : Pool) (he : p.epoch = e) {A : List Event}
    (h : ChanInv ch p A) : ChanInv ch (poolRun p ops).1 (A ++ (poolRun p ops).2) := by
  induction ops generalizing p A with
  | nil => simp only [poolRun, List.append_nil]; exact h
  | cons op ops ih =>
    simp only [poolRun, ← List.append_assoc]
    have hep : (poolStep p op).1.epoch = e :=
      (poolStep_closed (Q := fun _ => True) ⟨fun _ => trivial, fun _ _ _ _ => trivial, fun _ _ _ => trivial, fun _ _ _ => trivial,
        fun _ _ _ _ _ _ => trivial⟩ p op ⟨he, fun _ _ _ => trivial⟩).1
    exact ih _ hep (poolStep_chan hc p op he h)

/-! ### the two channels -/

def s2nKey : Event → Option (Nat × Nat)
  | .s2n s h => some (s, h)
  | _ => none

def s2sKey : Event → Option (Nat × Unit)
  | .s2s s => some (s, ())
  | _ => none

/-- safe-to-notar: keyed by (slot, block), recorded in `sent` -/
def s2nChan : Chan Nat := { key := s2nKey, rcd := fun st h => h ∈ st.sent }

/-- safe-to-skip: keyed by slot, recorded in `sentS2S` -/
def s2sChan : Chan Unit := { key := s2sKey, rcd := fun st _ => st.sentS2S = true }

theorem s2nKey_nodup (evs : List Event) (hn : (evs.filterMap s2nHash).Nodup) : (evs.filterMap s2nKey).Nodup := by
  induction evs with
  | nil => simp
  | cons ev evs ih =>
    cases ev with
    | s2n s h =>
      simp only [List.filterMap_cons, s2nKey, s2nHash, List.nodup_cons] at hn ⊢
      refine ⟨fun hm => hn.1 ?_, ih hn.2⟩
      obtain ⟨ev', hev', hk⟩ := List.mem_filterMap.mp hm
      cases ev' with
      | s2n s' h' =>
        simp only [s2nKey, Option.some.injEq, Prod.mk.injEq] at hk
        exact List.mem_filterMap.mpr ⟨_, hev', by simp [s2nHash, hk.2]⟩
      | _ => simp [s2nKey] at hk
    | _ =>
      simp only [List.filterMap_cons, s2nKey, s2nHash] at hn ⊢
      exact ih hn

theorem chanStep_s2n {e : Epoch} {st st' : SlotState} {evs : List Event} (hsl : st'.slot = st.slot) (hm : Emit st st' evs)
    (hs : EvSound e st' evs) : ChanStep s2nChan st st' evs where
  slot := hsl
  mono := hm.mono
  fresh := by
    intro ev hev s k hk
    cases ev with
    | s2n s' h' =>
      simp only [s2nChan, s2nKey, Option.some.injEq, Prod.mk.injEq] at hk
      obtain ⟨rfl, rfl⟩ := hk
      have h1 := hs _ hev
      have h2 := hm.fresh h' (List.mem_filterMap.mpr ⟨_, hev, rfl⟩)
      exact ⟨h1.1.trans hsl, h2.1, h2.2⟩
    | _ => simp [s2nChan, s2nKey] at hk
  nodup := s2nKey_nodup evs hm.nodup

theorem s2sKey_length (evs : List Event) : (evs.filterMap s2sKey).length = (evs.filter isS2S).length := by
  induction evs with
  | nil => rfl
  | cons ev evs ih =>
    cases ev <;> simp only [List.filterMap_cons, List.filter_cons, s2sKey, isS2S, if_true, List.length_cons, ih,
      Bool.false_eq_true, if_false]

theorem nodup_of_length_le_one {α : Type} (l : List α) (h : l.length ≤ 1) : l.Nodup := by
  cases l with
  | nil => simp
  | cons a l =>
    cases l with
    | nil => simp
    | cons b l => simp at h

theorem chanStep_s2s {e : Epoch} {st st' : SlotState} {evs : List Event} (hsl : st'.slot = st.slot) (hm : Emit st st' evs)
    (hs : EvSound e st' evs) : ChanStep s2sChan st st' evs where
  slot := hsl
  mono := fun _ hk => hm.s2sMono hk
  fresh := by
    intro ev hev s k hk
    cases ev with
    | s2s s' =>
      simp only [s2sChan, s2sKey, Option.some.injEq, Prod.mk.injEq] at hk
      obtain ⟨rfl, _⟩ := hk
      have h1 := hs _ hev
      have hne : evs.filter isS2S ≠ [] := by
        intro hn
        have : Event.s2s s' ∈ evs.filter isS2S := List.mem_filter.mpr ⟨hev, rfl⟩
        rw [hn] at this; cases this
      have h2 := hm.s2sFresh hne
      refine ⟨h1.1.trans hsl, ?_, h2.2⟩
      show ¬ st.sentS2S = true
      rw [h2.1]; simp
    | _ => simp [s2sChan, s2sKey] at hk
  nodup := nodup_of_length_le_one _ (by
    show (evs.filterMap s2sKey).length ≤ 1
    rw [s2sKey_length]; exact hm.s2sOne)

theorem notifyParentKnown_records (st : SlotState) (h : Nat) :
    (st.notifyParentKnown h).sent = st.sent ∧ (st.notifyParentKnown h).sentS2S = st.sentS2S := by
  unfold SlotState.notifyParentKnown; split <;> exact ⟨rfl, rfl⟩

theorem certified_emit {e : Epoch} {st st' : SlotState} {h : Nat} {evs : List Event}
    (hn : st.notifyParentCertified e h = some (st', evs)) : EvSound e st' evs ∧ Emit st st' evs := by
  have := slotStep_emit e st (.parentCertified h)
  simp only [slotStep, hn] at this
  exact this

theorem s2nChan_closed (e : Epoch) : ChanClosed e s2nChan where
  init := fun s k hk => by simp [s2nChan] at hk
  vote := fun st v => chanStep_s2n (addVote_slot e st v) (addVote_emit e st v).2 (addVote_emit e st v).1
  cert := fun st c k hk => by
    show k ∈ (st.addCert c).sent
    rw [(addCert_same st c).2.1]; exact hk
  known := fun st h k hk => by
    show k ∈ (st.notifyParentKnown h).sent
    rw [(notifyParentKnown_records st h).1]; exact hk
  certified := fun st h st' evs hn =>
    chanStep_s2n (notifyParentCertified_spec hn).1 (certified_emit hn).2 (certified_emit hn).1
  quiet := fun ev h1 _ => by
    cases ev with
    | s2n s h => exact absurd rfl (h1 s h)
    | _ => rfl

theorem s2sChan_closed (e : Epoch) : ChanClosed e s2sChan where
  init := fun s k hk => by simp [s2sChan] at hk
  vote := fun st v => chanStep_s2s (addVote_slot e st v) (addVote_emit e st v).2 (addVote_emit e st v).1
  cert := fun st c k hk => by
    show (st.addCert c).sentS2S = true
    rw [(addCert_same st c).2.2]; exact hk
  known := fun st h k hk => by
    show (st.notifyParentKnown h).sentS2S = true
    rw [(notifyParentKnown_records st h).2]; exact hk
  certified := fun st h st' evs hn =>
    chanStep_s2s (notifyParentCertified_spec hn).1 (certified_emit hn).2 (certified_emit hn).1
  quiet := fun ev _ h2 => by
    cases ev with
    | s2s s => exact absurd rfl (h2 s)
    | _ => rfl

theorem ChanInv.init (e : Epoch) : ChanInv ch { epoch := e } [] := by
  constructor
  · intro _ hev; cases hev
  · simp

end AgModel.Pool
