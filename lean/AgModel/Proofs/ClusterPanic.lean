import AgModel.Proofs.ClusterLog
import AgModel.Proofs.PoolNoPanic
import AgModel.Props.C07
import AgModel.Props.C10
/-!
# C10 cluster composition, part 3: no node of a valid cluster run ever dies

* `poolOps`, `logOf`, `poolOf`: the pool operations among the operations of node `i`, the run of an empty pool over them and
  its ghost log;
* `Admitted`: the two facts about the inputs of a pool that are established *before* the pool is called, outside the
  cluster model — a vote names a validator index (signature validation, C09: `add_vote` indexes the validator table with
  it), a registered block has its parent in an earlier slot (the blockstore, C13 `announced_block_wellformed`:
  `add_block`'s `assert!(block_id.0 > parent_id.0)`);
* `PInv`: after a valid, admitted run every node is alive, its pool is `poolOf` (no operation was skipped because the node
  was dead), every item of its log is backed / agrees with `parentOf` (`LogOk`), and no `.panic` event was emitted;
* `pinv_run`: `PInv` holds after every valid admitted run with less than 20 % Byzantine stake — by induction along the run:
  the log extended by the items of the next operation is `Consistent` (`consistent_of_logOk`, with the safety theorems for the
  run *including* that operation), hence the operation emits no `.panic` event (`poolStep_no_panic`); Votor never panics
  (`votor_never_panics`).
-/
namespace AgModel.Cluster
open AgModel AgModel.Node AgModel.NodePanic AgModel.Pool AgModel.Spec

/-- the pool operations among the operations of a node -/
def poolOps (ops : List NodeOp) : List PoolOp := ops.filterMap poolOpOf

/-- the run of the empty pool of node `i` over the pool operations that happened at node `i` -/
def poolOf (c : Cfg) (i : ℕ) (evs : List Ev) : Pool × List Pool.Event :=
  poolRun { epoch := c.epoch i } (poolOps (proj i evs))

/-- the ghost log of node `i`'s pool: block registrations and `CertCreated` events, in order -/
def logOf (c : Cfg) (i : ℕ) (evs : List Ev) : List LogItem :=
  poolLog { epoch := c.epoch i } (poolOps (proj i evs))

/-- what is established about an input before the pool is called (outside the cluster model): a vote names a validator
    index (signature validation), a registered block has its parent in an earlier slot (blockstore) -/
def WireOk (c : Cfg) (ev : Ev) : Prop :=
  match ev.2 with
  | .recvVote v => v.signer < c.n
  | .poolBlock b p => p.1 < b.1
  | _ => True

instance (c : Cfg) (ev : Ev) : Decidable (WireOk c ev) := by
  unfold WireOk
  cases ev.2 <;> infer_instance

/-- every event of the run is admitted -/
def Admitted (c : Cfg) (evs : List Ev) : Prop := ∀ ev ∈ evs, WireOk c ev

instance (c : Cfg) (evs : List Ev) : Decidable (Admitted c evs) := by unfold Admitted; infer_instance

theorem proj_append (i : ℕ) (a b : List Ev) : proj i (a ++ b) = proj i a ++ proj i b := by
  induction a with
  | nil => rfl
  | cons ev a ih =>
    simp only [List.cons_append, proj]
    split
    · rw [ih]; rfl
    · exact ih

theorem proj_single_self (i : ℕ) (op : NodeOp) : proj i [(i, op)] = [op] := by simp [proj]

theorem proj_single_other (i k : ℕ) (op : NodeOp) (h : k ≠ i) : proj i [(k, op)] = [] := by simp [proj, h]

/-! ### one step of a node: the pool, the `dead` flag -/

theorem votorStep_dead (n : Node) (ve : Votor.Event) (h : n.dead = false) :
    (votorStep n ve).1.dead = (votorStep n ve).1.votor.panicked := by
  unfold votorStep
  rw [h]
  rfl

theorem enqueue_dead (n : Node) (evs : List Pool.Event) (h : n.dead = false) (hp : Pool.Event.panic ∉ evs) :
    (enqueue n evs).dead = false := by
  unfold enqueue
  have : evs.contains Pool.Event.panic = false := by
    cases hc : evs.contains Pool.Event.panic
    · rfl
    · exact absurd (List.contains_iff_mem.mp hc) hp
  rw [this]
  exact h

/-- a node operation that is not a pool operation leaves the pool alone; the node dies only if Votor panics -/
theorem nodeStep_votor (n : Node) (op : NodeOp) (hop : poolOpOf op = none) (h : n.dead = false) :
    (nodeStep n op).pool = n.pool ∧ (nodeStep n op).dead = (nodeStep n op).votor.panicked ∨
    (nodeStep n op).pool = n.pool ∧ (nodeStep n op).dead = false := by
  cases op with
  | recvVote v => cases hop
  | recvCert x => cases hop
  | poolBlock b p => cases hop
  | pump =>
    simp only [nodeStep, pump]
    split
    · exact Or.inr ⟨rfl, h⟩
    · rename_i qe rest hq
      split
      · rename_i ve hve
        exact Or.inl ⟨(votorStep_pool { n with queue := rest } ve).1, votorStep_dead { n with queue := rest } ve h⟩
      · exact Or.inr ⟨rfl, h⟩
  | votorBlock sl b => exact Or.inl ⟨(votorStep_pool n _).1, votorStep_dead n _ h⟩
  | firstShred sl => exact Or.inl ⟨(votorStep_pool n _).1, votorStep_dead n _ h⟩
  | invalidBlock sl => exact Or.inl ⟨(votorStep_pool n _).1, votorStep_dead n _ h⟩
  | timeout sl => exact Or.inl ⟨(votorStep_pool n _).1, votorStep_dead n _ h⟩
  | timeoutCrashed sl => exact Or.inl ⟨(votorStep_pool n _).1, votorStep_dead n _ h⟩

/-- a pool operation of a live node: the pool makes the step; the node stays alive if no `.panic` event is emitted -/
theorem nodeStep_pool (n : Node) (op : NodeOp) (pop : PoolOp) (hop : poolOpOf op = some pop) (h : n.dead = false) :
    (nodeStep n op).pool = (poolStep n.pool pop).1 ∧
    (Pool.Event.panic ∉ (poolStep n.pool pop).2 → (nodeStep n op).dead = false) := by
  cases op with
  | recvVote v =>
    simp only [poolOpOf, Option.some.injEq] at hop
    subst hop
    simp only [nodeStep, recvVote, h, Bool.false_eq_true, if_false]
    exact ⟨enqueue_pool _ _, fun hp => enqueue_dead _ _ (by first | exact h | rfl) hp⟩
  | recvCert x =>
    simp only [poolOpOf, Option.some.injEq] at hop
    subst hop
    simp only [nodeStep, recvCert, h, Bool.false_eq_true, if_false]
    exact ⟨enqueue_pool _ _, fun hp => enqueue_dead _ _ (by first | exact h | rfl) hp⟩
  | poolBlock b p =>
    simp only [poolOpOf, Option.some.injEq] at hop
    subst hop
    simp only [nodeStep, poolBlock, h, Bool.false_eq_true, if_false]
    exact ⟨enqueue_pool _ _, fun hp => enqueue_dead _ _ (by first | exact h | rfl) hp⟩
  | pump => cases hop
  | votorBlock sl b => cases hop
  | firstShred sl => cases hop
  | invalidBlock sl => cases hop
  | timeout sl => cases hop
  | timeoutCrashed sl => cases hop

/-- Votor of a cluster node never panics (C10 `votor_never_panics` on the projection of the run) -/
theorem cluster_votor_ok (c : Cfg) (evs : List Ev) (i : ℕ) : (run (init c) evs i).votor.panicked = false := by
  rw [run_proj]
  exact votor_never_panics (c.epoch i) (proj i evs)

/-! ### the invariant -/

/-- node `i` after the run: alive, its pool is the run of the empty pool over its pool operations, the log is backed, no
    `.panic` event so far -/
structure PInvAt (c : Cfg) (evs : List Ev) (i : ℕ) : Prop where
  alive : (run (init c) evs i).dead = false
  pool : (run (init c) evs i).pool = (poolOf c i evs).1
  log : LogOk c (run (init c) evs) i (logOf c i evs)
  quiet : Pool.Event.panic ∉ (poolOf c i evs).2

theorem PInvAt.nil (c : Cfg) (i : ℕ) : PInvAt c [] i :=
  ⟨rfl, rfl, LogOk.nil _ _ _, by simp [poolOf, poolOps, proj, poolRun]⟩

/-- the ghost log of a pool in a valid cluster state is `Consistent` -/
theorem consistent_of_valid (c : Cfg) (evs : List Ev) (hv : Valid c (init c) evs)
    (hbz : 5 * w (stakeFn c) (byz c) < total (stakeFn c)) (i : ℕ) (L : List LogItem)
    (hL : LogOk c (run (init c) evs) i L) : Consistent L :=
  consistent_of_logOk c _ (cluster_setting c evs hv hbz) (votes_gok_run c evs hv hbz) i L hL

/-- **After every valid, admitted run with less than 20 % Byzantine stake every node satisfies `PInvAt`.** -/
theorem pinv_run (c : Cfg) (hbz : 5 * w (stakeFn c) (byz c) < total (stakeFn c)) :
    ∀ evs, Valid c (init c) evs → Admitted c evs → ∀ i, PInvAt c evs i := by
  have hpos := pos_of_byz c hbz
  apply snoc_induction
  · intro _ _ i; exact PInvAt.nil c i
  · intro pre ev ih hv hw i
    have hv' := hv
    rw [valid_append] at hv
    obtain ⟨hvp, hve, _⟩ := hv
    have hwp : Admitted c pre := fun x hx => hw x (List.mem_append_left _ hx)
    have hwe : WireOk c ev := hw ev (List.mem_append_right _ (List.mem_singleton.mpr rfl))
    have I := ih hvp hwp i
    have hci : CInv c (run (init c) pre) := (CInv.init c).run hpos pre hvp
    have hrun : run (init c) (pre ++ [ev]) = step (run (init c) pre) ev := by rw [run_append]; rfl
    have hle := sigOf_le_step c (run (init c) pre) ev
    obtain ⟨k, op⟩ := ev
    by_cases hk : k = i
    · subst hk
      have hproj : proj k (pre ++ [(k, op)]) = proj k pre ++ [op] := by rw [proj_append, proj_single_self]
      have hnode : run (init c) (pre ++ [(k, op)]) k = nodeStep (run (init c) pre k) op := by rw [hrun, step_self]
      cases hop : poolOpOf op with
      | none =>
        have hpo : poolOps (proj k (pre ++ [(k, op)])) = poolOps (proj k pre) := by
          rw [hproj]; unfold poolOps; rw [List.filterMap_append]; simp [hop]
        have hvot := cluster_votor_ok c (pre ++ [(k, op)]) k
        rw [hnode] at hvot
        refine ⟨?_, ?_, ?_, ?_⟩
        · rw [hnode]
          rcases nodeStep_votor _ op hop I.alive with ⟨_, h⟩ | ⟨_, h⟩
          · rw [h]; exact hvot
          · exact h
        · rw [hnode]
          have hp : (nodeStep (run (init c) pre k) op).pool = (run (init c) pre k).pool := by
            rcases nodeStep_votor _ op hop I.alive with ⟨h, _⟩ | ⟨h, _⟩ <;> exact h
          rw [hp, I.pool]
          unfold poolOf; rw [hpo]
        · unfold logOf; rw [hpo, hrun]
          exact I.log.mono hle
        · unfold poolOf; rw [hpo]; exact I.quiet
      | some pop =>
        have hpo : poolOps (proj k (pre ++ [(k, op)])) = poolOps (proj k pre) ++ [pop] := by
          rw [hproj]; unfold poolOps; rw [List.filterMap_append]; simp [hop]
        have hok : NodeOk (sigOf c (run (init c) pre)) (c.epoch k) c.parentOf op := hve
        have hopok : OpOk (sigOf c (run (init c) pre)) (c.epoch k) c.parentOf pop := by
          cases op <;> simp only [poolOpOf, Option.some.injEq, reduceCtorEq] at hop <;> subst hop <;> exact hok
        -- the pool before the step
        have hpool := I.pool
        have hstep := nodeStep_pool (run (init c) pre k) op pop hop I.alive
        -- the items of the step are backed / agree with `parentOf`
        have hitems : LogOk c (run (init c) pre) k (stepItems pop (poolStep (run (init c) pre k).pool pop).2) := by
          intro it hit
          unfold stepItems at hit
          rcases List.mem_append.mp hit with h | h
          · cases op <;> simp only [poolOpOf, Option.some.injEq, reduceCtorEq] at hop <;> subst hop <;>
              simp only [List.mem_singleton, List.not_mem_nil] at h
            subst h
            exact ⟨hok, hwe⟩
          · unfold certsOf at h
            obtain ⟨e, he, hs⟩ := List.mem_filterMap.mp h
            cases e with
            | cert x =>
              simp only [Option.some.injEq] at hs
              subst hs
              exact poolStep_certs (e := c.epoch k) hpos _ pop (hci k).pool.slots hopok x he
            | _ => simp at hs
        have hlog' : logOf c k (pre ++ [(k, op)]) =
            logOf c k pre ++ stepItems pop (poolStep (run (init c) pre k).pool pop).2 := by
          unfold logOf
          rw [hpo, poolLog_append, hpool]
          unfold poolOf
          simp [poolLog]
        have hLnew : LogOk c (run (init c) (pre ++ [(k, op)])) k (logOf c k (pre ++ [(k, op)])) := by
          rw [hlog', hrun]
          exact (I.log.append hitems).mono hle
        -- hence the extended log is consistent, and the step emits no panic
        have hcons := consistent_of_valid c (pre ++ [(k, op)]) hv' hbz k _ hLnew
        rw [hlog'] at hcons
        have hwired : Wired (run (init c) pre k).pool.trk (logOf c k pre) := by
          rw [hpool]; exact pool_wired (c.epoch k) (poolOps (proj k pre)) hcons.prefix
        have hflag := poolRun_flag (poolOps (proj k pre)) [] { epoch := c.epoch k } (FlagInv.init _)
        have hepoch : (run (init c) pre k).pool.epoch = c.epoch k := (hci k).pool.slots.1
        have hquiet : Pool.Event.panic ∉ (poolStep (run (init c) pre k).pool pop).2 := by
          refine poolStep_no_panic _ _ pop _ (by rw [hpool]; exact hflag) hwired hcons ?_
          intro v hvp
          subst hvp
          rw [hepoch]
          cases op <;> simp only [poolOpOf, Option.some.injEq, reduceCtorEq, PoolOp.vote.injEq] at hop
          subst hop
          exact hwe
        refine ⟨?_, ?_, hLnew, ?_⟩
        · rw [hnode]; exact hstep.2 hquiet
        · rw [hnode, hstep.1, hpool]
          unfold poolOf
          rw [hpo, poolRun_append]
          simp [poolRun]
        · have hq2 : Pool.Event.panic ∉ (poolStep (poolOf c k pre).1 pop).2 := by rw [← hpool]; exact hquiet
          have hq1 := I.quiet
          unfold poolOf at hq1 hq2 ⊢
          rw [hpo, poolRun_append]
          simp only [poolRun, List.append_nil, List.mem_append, not_or]
          exact ⟨hq1, hq2⟩
    · have hproj : proj i (pre ++ [(k, op)]) = proj i pre := by
        rw [proj_append, proj_single_other i k op hk, List.append_nil]
      have hnode : run (init c) (pre ++ [(k, op)]) i = run (init c) pre i := by
        rw [hrun, step_other _ _ _ _ (Ne.symm hk)]
      refine ⟨by rw [hnode]; exact I.alive, ?_, ?_, ?_⟩
      · rw [hnode, I.pool]; unfold poolOf; rw [hproj]
      · unfold logOf; rw [hproj, hrun]; exact I.log.mono hle
      · unfold poolOf; rw [hproj]; exact I.quiet

end AgModel.Cluster
