import AgModel.Proofs.BlockstoreFlag
import AgModel.Model.ShredAbs
/-! A property of all shreds a `BlockData` holds: kept by `add_shred` when the delivered shred has it and the decoder's
    regeneration (`refill`, for a root the decoding environment accepts) keeps it. Used for the repair seam. -/
namespace AgModel.Blockstore
open AgModel.Merkle

def AllStored (P : Shred → Prop) (b : BlockData) : Prop :=
  ∀ i arr j s, b.shreds i = some arr → arr j = some s → P s

/-- regeneration keeps `P`: the shreds `deshred` rebuilds from a present shred `f` whose root decodes -/
def RegenKeeps (env : Nat → Content) (P : Shred → Prop) : Prop :=
  ∀ f j p t, j < TOTAL_SHREDS → env f.root = .ok p t → P f → P { f with idx := j, ty := true }

theorem allStored_new (P : Shred → Prop) (cap slot : Nat) : AllStored P (BlockData.new cap slot) := by
  intro i arr j s h; simp [BlockData.new] at h

theorem deshred_ok_env (env : Nat → Content) (arr arr' : ShredArr) (r : RSlice) (h : deshred env arr = .ok r arr') :
    ∃ f p t, f ∈ present arr ∧ arr' = refill f arr ∧ env f.root = .ok p t := by
  unfold deshred at h
  split at h
  · cases h
  · rename_i f rest hp
    split at h
    · cases h
    · split at h
      · cases h
      · split at h
        · cases h
        · rename_i p t he
          injection h with _ h2
          exact ⟨f, p, t, by rw [hp]; exact List.mem_cons_self, h2.symm, he⟩

theorem refill_all (env : Nat → Content) (P : Shred → Prop) (hr : RegenKeeps env P) (f : Shred) (arr : ShredArr)
    (p : Option (Nat × Nat)) (t : Option (List Nat)) (he : env f.root = .ok p t) (hf : P f)
    (harr : ∀ j x, arr j = some x → P x) (j : Nat) (s : Shred) (h : refill f arr j = some s) : P s := by
  unfold refill at h
  split at h
  · rename_i hj
    cases hold : arr j with
    | some x => rw [hold] at h; simp at h; subst h; exact harr j x hold
    | none => rw [hold] at h; simp at h; subst h; exact hr f j p t hj he hf
  · exact harr j s h

theorem tryReconstructSlice_all (env : Nat → Content) (P : Shred → Prop) (hr : RegenKeeps env P) (b : BlockData) (k : Nat)
    (hf : AllStored P b) : AllStored P (tryReconstructSlice env b k).1 := by
  unfold tryReconstructSlice
  split
  · exact hf
  split
  · exact hf
  cases harr : b.shreds k with
  | none => exact hf
  | some arr =>
    simp only
    cases hd : deshred env arr with
    | notEnough => exact hf
    | error => exact hf
    | ok r arr' =>
      simp only
      obtain ⟨f, p, t, hfm, harr', he⟩ := deshred_ok_env env arr arr' r hd
      obtain ⟨j0, hj0⟩ := present_mem arr f hfm
      have h1 : AllStored P { b with shreds := upd b.shreds k (some arr') } := by
        intro i a j s' ha hs'
        simp only [upd] at ha
        split at ha
        · rename_i hik; subst hik
          simp only [Option.some.injEq] at ha; subst ha
          rw [harr'] at hs'
          exact refill_all env P hr f arr p t he (hf i arr j0 f harr hj0) (fun j x hx => hf i arr j x harr hx) j s' hs'
        · exact hf i a j s' ha hs'
      split
      · exact h1
      · exact h1

theorem tryReconstructBlock_all (P : Shred → Prop) (b : BlockData) (hf : AllStored P b) :
    AllStored P (tryReconstructBlock b).1 := by
  intro i arr j s h1 h2
  rw [(tryReconstructBlock_shreds_last b).1] at h1
  exact hf i arr j s h1 h2

theorem reconstruct_all (env : Nat → Content) (P : Shred → Prop) (hr : RegenKeeps env P) (b : BlockData) (k : Nat)
    (hf : AllStored P b) : AllStored P (reconstruct env b k).1 := by
  have h1 := tryReconstructSlice_all env P hr b k hf
  unfold reconstruct
  split
  · rename_i b1 heq; rw [heq] at h1; exact h1
  · rename_i b1 heq; rw [heq] at h1; exact h1
  · rename_i b1 heq; rw [heq] at h1; exact h1
  · rename_i b1 heq; rw [heq] at h1
    simp only at h1
    have h3 := tryReconstructBlock_all P b1 h1
    split
    · rename_i b2 heq2; rw [heq2] at h3; exact h3
    · rename_i b2 heq2; rw [heq2] at h3; exact h3
    · rename_i b2 heq2; rw [heq2] at h3; exact h3
    · rename_i b2 info heq2; rw [heq2] at h3; exact h3

theorem storeStep_all (env : Nat → Content) (P : Shred → Prop) (hr : RegenKeeps env P) (b : BlockData) (s : Shred)
    (hf : AllStored P b) (hs : P s) : AllStored P (storeStep env b s).1 := by
  have hold : ∀ j x, (b.shreds s.slice).getD arrEmpty j = some x → P x := by
    intro j x hx
    cases hsh : b.shreds s.slice with
    | none => rw [hsh] at hx; simp [arrEmpty] at hx
    | some arr => rw [hsh] at hx; exact hf _ arr j x hsh hx
  unfold storeStep
  simp only
  split
  · intro i a j s' ha hs'
    simp only [upd] at ha
    split at ha
    · simp only [Option.some.injEq] at ha; subst ha
      exact hold j s' hs'
    · exact hf i a j s' ha hs'
  · have h' : AllStored P { b with shreds := upd b.shreds s.slice (some (upd ((b.shreds s.slice).getD arrEmpty) s.idx (some s))) } := by
      intro i a j s' ha hs'
      simp only [upd] at ha
      split at ha
      · simp only [Option.some.injEq] at ha; subst ha
        simp only [upd] at hs'
        split at hs'
        · simp only [Option.some.injEq] at hs'; subst hs'
          exact hs
        · exact hold j s' hs'
      · exact hf i a j s' ha hs'
    split
    · exact h'
    · exact reconstruct_all env P hr _ s.slice h'

theorem lastStep_all (P : Shred → Prop) (b b' : BlockData) (s : Shred) (hf : AllStored P b) (h : lastStep b s = some b') :
    AllStored P b' := by
  unfold lastStep at h
  split at h
  · split at h
    · split at h
      · cases h
      · injection h with h; subst h
        intro i arr j x h1 h2
        simp only [markLastSlice, retainLe] at h1
        split at h1
        · exact hf i arr j x h1 h2
        · cases h1
    · injection h with h; subst h; exact hf
  · split at h
    · injection h with h; subst h; exact hf
    · cases h

theorem cacheStep_all (P : Shred → Prop) (b b' : BlockData) (s : Shred) (hf : AllStored P b) (h : cacheStep b s = some b') :
    AllStored P b' := by
  unfold cacheStep at h
  split at h
  · split at h
    · cases h
    · injection h with h; subst h; exact hf
  · injection h with h; subst h; exact hf

/-- **`add_shred` keeps a property of all stored shreds** -/
theorem addShred_all (env : Nat → Content) (P : Shred → Prop) (hr : RegenKeeps env P) (b : BlockData) (s : Shred)
    (hf : AllStored P b) (hs : P s) : AllStored P (addShred env b s).1 := by
  unfold addShred
  split
  · exact hf
  · unfold addShredCore
    cases hc : cacheStep b s with
    | none => exact hf
    | some b1 =>
      have hf1 := cacheStep_all P b b1 s hf hc
      simp only
      cases hl : lastStep b1 s with
      | none => exact hf1
      | some b2 => exact storeStep_all env P hr b2 s (lastStep_all P b1 b2 s hf1 hl) hs

/-- everything a slot holds (disseminated and repaired block data) -/
def SdStored (P : Shred → Prop) (sd : SlotData) : Prop :=
  AllStored P sd.dis ∧ ∀ h b, repGet sd.rep h = some b → AllStored P b

theorem sdStored_new (P : Shred → Prop) (cap slot : Nat) : SdStored P (SlotData.new cap slot) :=
  ⟨allStored_new P cap slot, by intro h b hb; simp [SlotData.new, repGet] at hb⟩

theorem flag_sdStored (P : Shred → Prop) (sd : SlotData) (h : SdStored P sd) : SdStored P (flag sd).1 := by
  unfold flag; split <;> exact h

theorem addDissem_sdStored (env : Nat → Content) (P : Shred → Prop) (hr : RegenKeeps env P) (sd : SlotData) (s : Shred)
    (h : SdStored P sd) (hs : P s) : SdStored P (addDissem env sd s).1 := by
  unfold addDissem
  split
  · exact h
  · have h1 := addShred_all env P hr sd.dis s h.1 hs
    cases hr' : addShred env sd.dis s with
    | mk b r =>
      rw [hr'] at h1
      simp only at h1 ⊢
      split
      · exact flag_sdStored P _ ⟨h1, h.2⟩
      · exact ⟨h1, h.2⟩

/-- what the responder serves for a shred request is a stored shred -/
theorem getShred_stored (P : Shred → Prop) (sd : SlotData) (h : SdStored P sd) (hash : H) (i j : Nat) (s : Shred)
    (hg : getShred sd hash i j = some s) : P s := by
  unfold getShred at hg
  cases hb : blockData sd hash with
  | none => rw [hb] at hg; cases hg
  | some b =>
    rw [hb] at hg
    simp only [Option.bind_some] at hg
    have hall : AllStored P b := by
      unfold blockData at hb
      split at hb
      · split at hb
        · injection hb with hb; subst hb; exact h.1
        · exact h.2 _ _ hb
      · exact h.2 _ _ hb
    cases ha : b.shreds i with
    | none => rw [ha] at hg; cases hg
    | some arr => rw [ha] at hg; exact hall i arr j s ha hg

end AgModel.Blockstore
