import AgModel.Model.Shred
import AgModel.Proofs.Pad
import AgModel.Proofs.Merkle
/-! Contracts of the external crates (`Env.Laws`) and helper lemmas about `AgModel.Shred`. -/
namespace AgModel.Shred
open AgModel.Pad AgModel.Merkle

/-- The contracts of the external crates the shredders rely on. They are *hypotheses* of the C11/C12
    theorems; the harness exercises each of them against the real crates on every run. -/
structure Env.Laws (env : Env) : Prop where
  /-- the encoder returns `nc` recovery shards -/
  encode_length : ∀ nc D, (env.encode nc D).length = nc
  /-- **MDS**: from any ≥ 32 distinct shards of the code word of `D` (originals given with their index,
      recovery shards with theirs) the decoder restores every original that was not supplied -/
  restore_spec : ∀ nc sb (D : List Bytes) (orig rcv : List (Nat × Bytes)) (i : Nat),
    D.length = DATA → (∀ d ∈ D, d.length = sb) →
    (∀ p ∈ orig, D[p.1]? = some p.2) → (∀ p ∈ rcv, (env.encode nc D)[p.1]? = some p.2) →
    (orig.map Prod.fst).Nodup → (rcv.map Prod.fst).Nodup → DATA ≤ orig.length + rcv.length →
    i < DATA → i ∉ orig.map Prod.fst → some (env.restore nc sb orig rcv i) = D[i]?
  /-- a stream cipher: applying the key stream twice is the identity, lengths are preserved -/
  keystream_invol : ∀ k b, env.keystream k (env.keystream k b) = b
  keystream_length : ∀ k b, (env.keystream k b).length = b.length
  /-- xor with the hash prefix is an involution on keys and preserves their length -/
  mask_invol : ∀ ct k, k.length = KEY_BYTES → env.mask ct (env.mask ct k) = k
  mask_length : ∀ ct k, k.length = KEY_BYTES → (env.mask ct k).length = KEY_BYTES
  /-- distinct shard contents are distinct Merkle leaves (no SHA-256 collision on leaf data) -/
  leafId_inj : ∀ a b, env.leafId a = env.leafId b → a = b

end AgModel.Shred
