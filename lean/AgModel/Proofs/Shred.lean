import AgModel.Model.Shred
import AgModel.Proofs.Pad
import AgModel.Proofs.Merkle
/-! Contracts of the external crates (`Env.Laws`) and helper lemmas about `AgModel.Shred`. -/
namespace AgModel.Shred
open AgModel.Pad AgModel.Merkle

/-- The contracts of the external crates the shredders rely on. They are *hypotheses* of the C11/C12
    theorems; the harness exercises each of them against the real crates on every run. -/
structure Env.Laws (env : Env) : Prop where
  /-- the encoder returns `nc` recovery shards, of the size of the originals -/
  encode_length : ∀ nc D, (env.encode nc D).length = nc
  encode_size : ∀ nc (D : List Bytes) sb, D.length = DATA → (∀ d ∈ D, d.length = sb) →
    ∀ c ∈ env.encode nc D, c.length = sb
  /-- **MDS**: from any ≥ 32 distinct shards of the code word of `D` (originals given with their index,
      recovery shards with theirs) the decoder restores every original that was not supplied -/
  restore_spec : ∀ nc sb (D : List Bytes) (orig rcv : List (Nat × Bytes)) (i : Nat),
    D.length = DATA → (∀ d ∈ D, d.length = sb) →
    (∀ p ∈ orig, D[p.1]? = some p.2) → (∀ p ∈ rcv, (env.encode nc D)[p.1]? = some p.2) →
    (orig.map Prod.fst).Nodup → (rcv.map Prod.fst).Nodup → DATA ≤ orig.length + rcv.length →
    i < DATA → i ∉ orig.map Prod.fst → some (env.restore nc sb orig rcv i) = D[i]?
  /-- a stream cipher: applying the key stream twice is the identity, lengths are preserved -/
  keystream_invol : ∀ k b, env.keystream k (env.keystream k b) = b
  keystream_length : ∀ k b, (env.keystream k b).length = b.length
  /-- xor with the hash prefix is an involution on keys and preserves their length -/
  mask_invol : ∀ ct k, k.length = KEY_BYTES → env.mask ct (env.mask ct k) = k
  mask_length : ∀ ct k, k.length = KEY_BYTES → (env.mask ct k).length = KEY_BYTES
  /-- distinct shard contents are distinct Merkle leaves (no SHA-256 collision on leaf data) -/
  leafId_inj : ∀ a b, env.leafId a = env.leafId b → a = b

/-! ### little-endian integers and the payload (de)serialisation -/

theorem leBytes_length (w n : Nat) : (leBytes w n).length = w := by
  induction w generalizing n with
  | zero => rfl
  | succ w ih => simp [leBytes, ih]

theorem ofLe_leBytes (w n : Nat) (h : n < 256 ^ w) : ofLe (leBytes w n) = n := by
  induction w generalizing n with
  | zero => simp [leBytes, ofLe] at *; omega
  | succ w ih =>
    simp only [leBytes, ofLe]
    rw [ih (n / 256) (by rw [Nat.pow_succ] at h; omega)]
    omega

theorem parseData_ok (parent : Option (Nat × Bytes)) (data : Bytes) (h : data.length < 256 ^ 8) :
    parseData parent (leBytes 8 data.length ++ data) = .ok (parent, data) := by
  unfold parseData
  have hl := leBytes_length 8 data.length
  rw [if_neg (by simp only [List.length_append, hl]; omega)]
  rw [List.take_left' hl, List.drop_left' hl, ofLe_leBytes 8 _ h]
  simp

/-- serialising and parsing the slice payload is the identity (`wincode`, fixed-width LE integers) -/
theorem parse_payloadBytes (parent : Option (Nat × Bytes)) (data : Bytes)
    (hfit : (payloadBytes parent data).length ≤ MAX_PER_SLICE)
    (hpar : ∀ s h, parent = some (s, h) → s < 2 ^ 64 ∧ h.length = 32) :
    parsePayload (payloadBytes parent data) = .ok (parent, data) := by
  have hd : data.length < 256 ^ 8 := by
    have : data.length ≤ (payloadBytes parent data).length := by
      unfold payloadBytes; simp only [List.length_append]; omega
    rw [MAX_PER_SLICE_eq] at hfit
    have : (256:Nat) ^ 8 = 18446744073709551616 := by decide
    omega
  unfold parsePayload
  rw [if_neg (by omega)]
  cases parent with
  | none => simp only [payloadBytes, List.cons_append, List.nil_append]; exact parseData_ok none data hd
  | some p =>
    obtain ⟨s, h⟩ := p
    obtain ⟨hs, hh⟩ := hpar s h rfl
    simp only [payloadBytes, List.cons_append]
    have hl := leBytes_length 8 s
    have h40 : (leBytes 8 s ++ h).length = 40 := by simp [hl, hh]
    rw [if_neg (by simp only [List.length_append] at *; omega)]
    have e1 : List.take 8 (leBytes 8 s ++ h ++ (leBytes 8 data.length ++ data)) = leBytes 8 s := by
      rw [List.append_assoc, List.take_left' hl]
    have e2 : List.take 32 (List.drop 8 (leBytes 8 s ++ h ++ (leBytes 8 data.length ++ data))) = h := by
      rw [List.append_assoc, List.drop_left' hl, List.take_left' hh]
    have e3 : List.drop 40 (leBytes 8 s ++ h ++ (leBytes 8 data.length ++ data)) = leBytes 8 data.length ++ data := by
      rw [List.drop_left' h40]
    have hs' : s < 256 ^ 8 := by
      have : (256:Nat) ^ 8 = 2 ^ 64 := by decide
      rw [this]; exact hs
    rw [e1, e2, e3, ofLe_leBytes 8 s hs']
    exact parseData_ok _ data hd

/-! ### arrays of shreds: the leader's output and the subsets a receiver holds -/

/-- the shreds `fill_missing_shreds` creates for `raws`, numbered from `k` -/
def mkAll (mk : Nat → Bytes → VShred) : Nat → List Bytes → List VShred
  | _, [] => []
  | k, d :: ds => mk k d :: mkAll mk (k + 1) ds

/-- the array a receiver holds: entry `k + i` is present iff `present (k + i)` -/
def selectFrom (present : Nat → Bool) : Nat → List VShred → List (Option VShred)
  | _, [] => []
  | k, s :: ss => (if present k then some s else none) :: selectFrom present (k + 1) ss

theorem mkAll_length (mk) (k : Nat) (raws : List Bytes) : (mkAll mk k raws).length = raws.length := by
  induction raws generalizing k with
  | nil => rfl
  | cons d ds ih => simp [mkAll, ih]

theorem selectFrom_length (present) (k : Nat) (l : List VShred) : (selectFrom present k l).length = l.length := by
  induction l generalizing k with
  | nil => rfl
  | cons d ds ih => simp [selectFrom, ih]

theorem mkAll_getElem? (mk) (k : Nat) (raws : List Bytes) (i : Nat) :
    (mkAll mk k raws)[i]? = raws[i]?.map (mk (k + i)) := by
  induction raws generalizing k i with
  | nil => simp [mkAll]
  | cons d ds ih =>
    cases i with
    | zero => simp [mkAll]
    | succ i => simp only [mkAll, List.getElem?_cons_succ, ih]; congr 2; omega

theorem selectFrom_getElem? (present) (k : Nat) (l : List VShred) (i : Nat) :
    (selectFrom present k l)[i]? = l[i]?.map (fun s => if present (k + i) then some s else none) := by
  induction l generalizing k i with
  | nil => simp [selectFrom]
  | cons d ds ih =>
    cases i with
    | zero => simp [selectFrom]
    | succ i =>
      simp only [selectFrom, List.getElem?_cons_succ, ih]
      have : k + 1 + i = k + (i + 1) := by omega
      rw [this]

/-- filling the gaps of any subset of the leader's array gives back the leader's array -/
theorem fillAux_select (mk) (present) (k : Nat) (raws : List Bytes) :
    fillAux mk k raws (selectFrom present k (mkAll mk k raws)) = (mkAll mk k raws).map some := by
  induction raws generalizing k with
  | nil => rfl
  | cons d ds ih =>
    simp only [mkAll, selectFrom, fillAux, List.map_cons, ih]
    split <;> rename_i h
    · split at h <;> simp_all
    · rfl

theorem selectFrom_false (k : Nat) (l : List VShred) :
    selectFrom (fun _ => false) k l = List.replicate l.length none := by
  induction l generalizing k with
  | nil => rfl
  | cons d ds ih => simp [selectFrom, ih, List.replicate_succ]

theorem fillAux_none (mk) (k : Nat) (raws : List Bytes) :
    fillAux mk k raws (List.replicate raws.length none) = (mkAll mk k raws).map some := by
  have := fillAux_select mk (fun _ => false) k raws
  rw [selectFrom_false, mkAll_length] at this
  exact this

theorem count_selectFrom (present) (k : Nat) (l : List VShred) :
    count (selectFrom present k l) = ((List.range' k l.length).filter present).length := by
  induction l generalizing k with
  | nil => rfl
  | cons d ds ih =>
    have := ih (k + 1)
    unfold count at *
    simp only [selectFrom, List.length_cons, List.range'_succ, List.filter_cons]
    by_cases hp : present k <;> simp [hp, this]

theorem anyShred_none_iff (l : List (Option VShred)) : anyShred l = none ↔ l.all Option.isNone = true := by
  induction l with
  | nil => simp [anyShred]
  | cons a l ih =>
    cases a with
    | none => simp [anyShred, ih]
    | some s => simp [anyShred]

theorem anyShred_mem (l : List (Option VShred)) (a : VShred) (h : anyShred l = some a) : some a ∈ l := by
  induction l with
  | nil => simp [anyShred] at h
  | cons x l ih =>
    cases x with
    | none => simp only [anyShred] at h; exact List.mem_cons_of_mem _ (ih h)
    | some s => simp only [anyShred, Option.some.injEq] at h; subst h; exact List.mem_cons_self

theorem count_pos_of_not_all_none (l : List (Option VShred)) (h : 0 < count l) : l.all Option.isNone = false := by
  induction l with
  | nil => simp [count] at h
  | cons a l ih =>
    cases a with
    | none =>
      simp only [count, List.filter_cons, Option.isSome_none] at h
      simp only [List.all_cons, Option.isNone_none, Bool.true_and]
      exact ih h
    | some s => simp

theorem filterMap_ite {α β : Type} (P : α → Bool) (g : α → β) (l : List α) :
    l.filterMap (fun i => if P i then some (g i) else none) = (l.filter P).map g := by
  induction l with
  | nil => rfl
  | cons a l ih => by_cases h : P a <;> simp [List.filterMap_cons, h, ih]

theorem filterMap_congr' {α β : Type} (f g : α → Option β) (l : List α) (h : ∀ a ∈ l, f a = g a) :
    l.filterMap f = l.filterMap g := by
  induction l with
  | nil => rfl
  | cons a l ih =>
    rw [List.filterMap_cons, List.filterMap_cons, h a List.mem_cons_self, ih (fun b hb => h b (List.mem_cons_of_mem _ hb))]

theorem lookup_some (l : List (Nat × Bytes)) (i : Nat) (d : Bytes) (h : lookup l i = some d) : (i, d) ∈ l := by
  unfold lookup at h
  cases hf : l.find? (·.1 == i) with
  | none => simp [hf] at h
  | some p =>
    simp only [hf, Option.map_some, Option.some.injEq] at h
    have h1 := List.find?_some hf
    have h2 := List.mem_of_find?_eq_some hf
    simp only [beq_iff_eq] at h1
    obtain ⟨a, b⟩ := p
    simp only at h1 h; subst h1; subst h; exact h2

theorem lookup_none (l : List (Nat × Bytes)) (i : Nat) (h : lookup l i = none) : i ∉ l.map Prod.fst := by
  unfold lookup at h
  simp only [Option.map_eq_none_iff, List.find?_eq_none] at h
  intro hm
  obtain ⟨p, hp, rfl⟩ := List.mem_map.mp hm
  exact h p hp (by simp)

/-! ### the coder round trip -/

theorem count_filter_split (present : Nat → Bool) (nd : Nat) (hnd : nd ≤ 64) :
    ((List.range nd).filter present).length + ((List.range (64 - nd)).filter (fun j => present (nd + j))).length
      = ((List.range 64).filter present).length := by
  have h64 : 64 = nd + (64 - nd) := by omega
  conv => rhs; rw [h64, List.range_add, List.filter_append, List.length_append, List.filter_map, List.length_map]
  rfl

section Coder
variable (env : Env) (P : Bytes) (nd : Nat) (mk : Nat → Bytes → VShred) (present : Nat → Bool)

/-- the raw shreds a shredder with `nd` data shreds outputs for the coder payload `P` -/
def rawsOf : List Bytes := (rsSplit P).take nd ++ env.encode (64 - nd) (rsSplit P)

theorem rawsOf_length (L : env.Laws) (hnd : nd ≤ 32) : (rawsOf env P nd).length = 64 := by
  unfold rawsOf
  rw [List.length_append, List.length_take, (rsSplit_shape P).1, L.encode_length]; omega

theorem rawsOf_data (hnd : nd ≤ 32) (i : Nat) (hi : i < nd) : (rawsOf env P nd)[i]? = (rsSplit P)[i]? := by
  unfold rawsOf
  have hl : ((rsSplit P).take nd).length = nd := by rw [List.length_take, (rsSplit_shape P).1]; omega
  rw [List.getElem?_append_left (by omega), List.getElem?_take_of_lt hi]

theorem rawsOf_coding (hnd : nd ≤ 32) (j : Nat) :
    (rawsOf env P nd)[nd + j]? = (env.encode (64 - nd) (rsSplit P))[j]? := by
  unfold rawsOf
  have hl : ((rsSplit P).take nd).length = nd := by rw [List.length_take, (rsSplit_shape P).1]; omega
  rw [List.getElem?_append_right (by omega), hl]
  congr 1; omega

theorem rawsOf_size (L : env.Laws) (hnd : nd ≤ 32) (d : Bytes) (hd : d ∈ rawsOf env P nd) : d.length = shredBytes P.length := by
  unfold rawsOf at hd
  rcases List.mem_append.mp hd with h | h
  · exact (rsSplit_shape P).2 d (List.mem_of_mem_take h)
  · exact L.encode_size _ _ _ (rsSplit_shape P).1 (rsSplit_shape P).2 d h

theorem coderDeshred_roundtrip (L : env.Laws) (hP : P.length ≤ MAX_PER_SLICE) (hnd : nd ≤ 32)
    (hmk : ∀ i d, (mk i d).shred.index = i ∧ (mk i d).shred.data = d)
    (hcnt : 32 ≤ ((List.range 64).filter present).length) :
    coderDeshred env (64 - nd) nd (selectFrom present 0 (mkAll mk 0 (rawsOf env P nd)))
      = .ok (P, ⟨rsSplit P, env.encode (64 - nd) (rsSplit P)⟩) := by
  have hlen := rawsOf_length env P nd L hnd
  have hD := rsSplit_shape P
  generalize hsh : selectFrom present 0 (mkAll mk 0 (rawsOf env P nd)) = shreds
  have hshlen : shreds.length = 64 := by rw [← hsh, selectFrom_length, mkAll_length, hlen]
  -- element access
  have hget : ∀ i, shreds[i]? = (rawsOf env P nd)[i]?.map (fun d => if present i then some (mk i d) else none) := by
    intro i
    rw [← hsh, selectFrom_getElem?, mkAll_getElem?]
    simp only [Nat.zero_add, Option.map_map]; rfl
  have hcount : count shreds = ((List.range 64).filter present).length := by
    rw [← hsh, count_selectFrom, mkAll_length, hlen, List.range_eq_range']
  -- the shard size read off any shred
  have hsb : anySize shreds = shredBytes P.length := by
    unfold anySize
    cases ha : anyShred shreds with
    | none =>
      have := (anyShred_none_iff shreds).mp ha
      have h2 := count_pos_of_not_all_none shreds (by omega)
      simp [this] at h2
    | some a =>
      obtain ⟨i, hai⟩ := List.mem_iff_getElem?.mp (anyShred_mem _ _ ha)
      rw [hget i] at hai
      cases hr : (rawsOf env P nd)[i]? with
      | none => simp [hr] at hai
      | some d =>
        simp only [hr, Option.map_some, Option.some.injEq] at hai
        by_cases hp : present i
        · simp only [hp, if_true, Option.some.injEq] at hai
          subst hai
          simp only [(hmk i d).2]
          exact rawsOf_size env P nd L hnd d (List.mem_of_getElem? hr)
        · simp [hp] at hai
  -- originals and recovery shards handed to the decoder
  have horig : origOf shreds nd = ((List.range nd).filter present).map (fun i => (i, ((rsSplit P)[i]?).getD [])) := by
    unfold origOf
    rw [← filterMap_ite]
    apply filterMap_congr'
    intro i hi
    have hi' : i < nd := List.mem_range.mp hi
    rw [hget i, rawsOf_data env P nd hnd i hi']
    have : i < (rsSplit P).length := by rw [hD.1]; omega
    rw [List.getElem?_eq_getElem this]
    by_cases hp : present i <;> simp [hp, hmk]
  have hrcv : recOf shreds nd = ((List.range (64 - nd)).filter (fun j => present (nd + j))).map
      (fun j => (j, ((env.encode (64 - nd) (rsSplit P))[j]?).getD [])) := by
    unfold recOf
    rw [← filterMap_ite, hshlen]
    apply filterMap_congr'
    intro j hj
    have hj' : j < 64 - nd := List.mem_range.mp hj
    rw [hget (nd + j), rawsOf_coding env P nd hnd j]
    have : j < (env.encode (64 - nd) (rsSplit P)).length := by rw [L.encode_length]; exact hj'
    rw [List.getElem?_eq_getElem this]
    by_cases hp : present (nd + j) <;> simp [hp, hmk]
  -- the restored shards are the originals
  have hshards : (List.range DATA).map (mergeShard env (64 - nd) (shredBytes P.length) (origOf shreds nd) (recOf shreds nd))
      = rsSplit P := by
    apply List.ext_getElem?
    intro i
    by_cases hi : i < 32
    · have hiD : i < (rsSplit P).length := by rw [hD.1]; exact hi
      rw [List.getElem?_map, List.getElem?_range (by rw [DATA_eq]; exact hi)]
      simp only [Option.map_some, mergeShard]
      cases hl : lookup (origOf shreds nd) i with
      | some d =>
        have hm := lookup_some _ _ _ hl
        rw [horig] at hm
        obtain ⟨k, hk, hkeq⟩ := List.mem_map.mp hm
        simp only [Prod.mk.injEq] at hkeq
        obtain ⟨rfl, rfl⟩ := hkeq
        simp [List.getElem?_eq_getElem hiD]
      | none =>
        have hnot := lookup_none _ _ hl
        simp only
        apply L.restore_spec (64 - nd) (shredBytes P.length) (rsSplit P) _ _ i hD.1 hD.2
        · intro p hp
          rw [horig] at hp
          obtain ⟨k, hk, rfl⟩ := List.mem_map.mp hp
          have hk' : k < nd := List.mem_range.mp (List.mem_filter.mp hk).1
          have : k < (rsSplit P).length := by rw [hD.1]; omega
          simp [List.getElem?_eq_getElem this]
        · intro p hp
          rw [hrcv] at hp
          obtain ⟨k, hk, rfl⟩ := List.mem_map.mp hp
          have hk' : k < 64 - nd := List.mem_range.mp (List.mem_filter.mp hk).1
          have : k < (env.encode (64 - nd) (rsSplit P)).length := by rw [L.encode_length]; exact hk'
          simp [List.getElem?_eq_getElem this]
        · rw [horig, List.map_map]
          have : (Prod.fst ∘ fun (i : Nat) => (i, ((rsSplit P)[i]?).getD [])) = id := rfl
          rw [this, List.map_id]
          exact List.nodup_range.filter _
        · rw [hrcv, List.map_map]
          have : (Prod.fst ∘ fun (j : Nat) => (j, ((env.encode (64 - nd) (rsSplit P))[j]?).getD [])) = id := rfl
          rw [this, List.map_id]
          exact List.nodup_range.filter _
        · rw [horig, hrcv, List.length_map, List.length_map, count_filter_split present nd (by omega), DATA_eq]
          exact hcnt
        · rw [DATA_eq]; exact hi
        · exact hnot
    · rw [List.getElem?_eq_none (by rw [List.length_map, List.length_range, DATA_eq]; omega),
        List.getElem?_eq_none (by rw [hD.1]; omega)]
  simp only [coderDeshred, hsb, hshards]
  rw [if_neg (by rw [hcount, DATA_eq]; omega)]
  have hfl : (rsSplit P).flatten.length = 32 * shredBytes P.length := by
    rw [rsSplit_flatten, ← padded_total]
    simp only [List.length_append, List.length_cons, List.length_replicate]
    have := paddingBytes_eq P.length
    omega
  have hsbmax : shredBytes P.length ≤ 1024 := by
    rw [shredBytes_eq]; rw [MAX_PER_SLICE_eq] at hP; omega
  rw [if_neg (by rw [hfl, MAX_AFTER_PADDING_eq]; omega), unpad_rsSplit]

end Coder

/-! ### the four shredders -/

/-- the bytes a shredder hands to the Reed–Solomon coder (`key`: the fresh cipher key) -/
def coderPayload (env : Env) (v : Variant) (key pb : Bytes) : Bytes :=
  match v with
  | .regular => pb
  | .codingOnly => pb
  | .pets => env.keystream key pb ++ key
  | .aont => env.keystream key pb ++ env.mask (env.keystream key pb) key

theorem nCoding_eq (v : Variant) : v.nCoding = 64 - v.nData := by cases v <;> decide
theorem nData_le (v : Variant) : v.nData ≤ 32 := by cases v <;> decide

theorem coderPayload_length (env : Env) (L : env.Laws) (v : Variant) (key pb : Bytes) (hkey : key.length = KEY_BYTES)
    (hfit : pb.length ≤ v.maxData) : (coderPayload env v key pb).length ≤ MAX_PER_SLICE := by
  have hk : KEY_BYTES = 16 := by decide
  have hm := MAX_PER_SLICE_eq
  cases v <;> simp only [coderPayload, Variant.maxData, List.length_append, L.keystream_length,
    L.mask_length _ _ hkey, hkey] at * <;> omega

theorem coderPayload_too_long (env : Env) (L : env.Laws) (v : Variant) (key pb : Bytes) (hkey : key.length = KEY_BYTES)
    (hbig : v.maxData < pb.length) : MAX_PER_SLICE < (coderPayload env v key pb).length := by
  have hk : KEY_BYTES = 16 := by decide
  have hm := MAX_PER_SLICE_eq
  cases v <;> simp only [coderPayload, Variant.maxData, List.length_append, L.keystream_length,
    L.mask_length _ _ hkey, hkey] at * <;> omega

theorem shredRaw_eq (env : Env) (v : Variant) (key pb : Bytes) :
    shredRaw env v key pb =
      if (coderPayload env v key pb).length > MAX_PER_SLICE then none
      else some ⟨(rsSplit (coderPayload env v key pb)).take v.nData,
                 env.encode (64 - v.nData) (rsSplit (coderPayload env v key pb))⟩ := by
  have h32 := fun p => (rsSplit_shape p).1
  cases v <;> simp only [shredRaw, coderShred, coderPayload, nCoding_eq]
  · by_cases h : pb.length > MAX_PER_SLICE
    · simp only [h, if_true]
    · simp only [h, if_false, Variant.nData, DATA_eq]
      rw [List.take_of_length_le (by rw [h32]; omega)]
  · by_cases h : pb.length > MAX_PER_SLICE
    · simp only [h, if_true, Option.map_none]
    · simp only [h, if_false, Variant.nData, Option.map_some, List.take_zero]
  · by_cases h : (env.keystream key pb ++ key).length > MAX_PER_SLICE
    · simp only [h, if_true, Option.map_none]
    · simp only [h, if_false, Variant.nData, DATA_eq, Option.map_some]
      rw [List.dropLast_eq_take, h32]
  · by_cases h : (env.keystream key pb ++ env.mask (env.keystream key pb) key).length > MAX_PER_SLICE
    · simp only [h, if_true]
    · simp only [h, if_false, Variant.nData, DATA_eq]
      rw [List.take_of_length_le (by rw [h32]; omega)]

/-- the Merkle tree the leader builds over its 64 raw shreds -/
def leaderTree (env : Env) (v : Variant) (sl : Slice) (key : Bytes) : Tree :=
  Tree.new ((rawsOf env (coderPayload env v key (payloadBytes sl.parent sl.data)) v.nData).map env.leafId)

/-- the leader's complete output for a slice (what `shred` returns when the slice fits) -/
def leaderOut (env : Env) (v : Variant) (sl : Slice) (sk : Nat) (key : Bytes) : List VShred :=
  mkAll (mkShred sl.header v.nData (leaderTree env v sl key) (.signed sk (commit sl.header (leaderTree env v sl key).root))) 0
    (rawsOf env (coderPayload env v key (payloadBytes sl.parent sl.data)) v.nData)

theorem filterMap_id_map_some {α : Type} (l : List α) : (l.map some).filterMap id = l := by
  induction l with
  | nil => rfl
  | cons a l ih => simp [ih]

theorem shred_ok (env : Env) (L : env.Laws) (v : Variant) (sl : Slice) (sk : Nat) (key : Bytes)
    (hkey : key.length = KEY_BYTES) (hfit : (payloadBytes sl.parent sl.data).length ≤ v.maxData) :
    shred env v sl sk key = .ok (leaderOut env v sl sk key) := by
  have hP := coderPayload_length env L v key _ hkey hfit
  have hlen := rawsOf_length env (coderPayload env v key (payloadBytes sl.parent sl.data)) v.nData L (nData_le v)
  have htake : ((rsSplit (coderPayload env v key (payloadBytes sl.parent sl.data))).take v.nData).length = v.nData := by
    rw [List.length_take, (rsSplit_shape _).1]; have := nData_le v; omega
  unfold shred
  rw [shredRaw_eq, if_neg (by omega)]
  simp only [buildTree, fillMissing, htake]
  have hl2 : v.nData + (env.encode (64 - v.nData) (rsSplit (coderPayload env v key (payloadBytes sl.parent sl.data)))).length = TOTAL := by
    rw [L.encode_length, TOTAL_eq]; have := nData_le v; omega
  rw [if_neg (by rw [hl2]; simp)]
  have hrep : List.replicate TOTAL (none : Option VShred) = List.replicate
      (rawsOf env (coderPayload env v key (payloadBytes sl.parent sl.data)) v.nData).length none := by
    rw [hlen, TOTAL_eq]
  simp only [hrep]
  unfold rawsOf at *
  rw [fillAux_none]
  simp only [List.all_map, filterMap_id_map_some]
  rw [if_pos (by simp)]
  rfl

/-! ### deshredding a subset of the leader's output -/

theorem mem_selectFrom (mk) (present) (k : Nat) (raws : List Bytes) (a : VShred)
    (h : some a ∈ selectFrom present k (mkAll mk k raws)) : ∃ i d, d ∈ raws ∧ a = mk i d := by
  induction raws generalizing k with
  | nil => simp [mkAll, selectFrom] at h
  | cons d ds ih =>
    simp only [mkAll, selectFrom, List.mem_cons] at h
    rcases h with h | h
    · by_cases hp : present k
      · simp only [hp, if_true, Option.some.injEq] at h
        exact ⟨k, d, List.mem_cons_self, h⟩
      · simp [hp] at h
    · obtain ⟨i, d', hd, ha⟩ := ih (k + 1) h
      exact ⟨i, d', List.mem_cons_of_mem _ hd, ha⟩

theorem layoutLoop_select (h : Header) (nd : Nat) (tree : Tree) (sig : Sig) (present) (k : Nat) (raws : List Bytes) :
    layoutLoop nd k (selectFrom present k (mkAll (mkShred h nd tree sig) k raws)) = .ok := by
  induction raws generalizing k with
  | nil => rfl
  | cons d ds ih =>
    simp only [mkAll, selectFrom]
    by_cases hp : present k
    · simp only [hp, if_true, layoutLoop, mkShred, ne_eq, not_true_eq_false, if_false, ih]
      by_cases hk : k < nd <;> simp [hk]
    · have hp' : present k = false := by simpa using hp
      simp only [hp', Bool.false_eq_true, if_false, layoutLoop, ih]

theorem tryNewLayout_select (env : Env) (L : env.Laws) (P : Bytes) (nd : Nat) (hnd : nd ≤ 32) (h : Header) (tree : Tree)
    (sig : Sig) (present : Nat → Bool) (hcnt : 0 < count (selectFrom present 0 (mkAll (mkShred h nd tree sig) 0 (rawsOf env P nd)))) :
    tryNewLayout (selectFrom present 0 (mkAll (mkShred h nd tree sig) 0 (rawsOf env P nd))) nd = .ok := by
  have hsize : ∀ a, some a ∈ selectFrom present 0 (mkAll (mkShred h nd tree sig) 0 (rawsOf env P nd)) →
      a.shred.data.length = shredBytes P.length := by
    intro a ha
    obtain ⟨i, d, hd, rfl⟩ := mem_selectFrom _ _ _ _ _ ha
    exact rawsOf_size env P nd L hnd d hd
  unfold tryNewLayout
  cases ha : anyShred (selectFrom present 0 (mkAll (mkShred h nd tree sig) 0 (rawsOf env P nd))) with
  | none =>
    have := (anyShred_none_iff _).mp ha
    have h2 := count_pos_of_not_all_none _ hcnt
    simp [this] at h2
  | some a =>
    have hsa := hsize a (anyShred_mem _ _ ha)
    have hsb := shredBytes_eq P.length
    simp only [hsa]
    rw [if_neg (by simp only [Bool.or_eq_true, decide_eq_true_eq, not_or]; omega)]
    rw [if_neg]
    · exact layoutLoop_select h nd tree sig present 0 _
    · simp only [List.any_eq_true, not_exists, not_and]
      intro x hx
      cases x with
      | none => simp
      | some y => simp [hsize y hx]

theorem decrypt_pets (env : Env) (L : env.Laws) (key pb : Bytes) (hkey : key.length = KEY_BYTES) :
    decryptPayload env (env.keystream key pb ++ key) (fun tail _ => tail) = .ok pb := by
  unfold decryptPayload
  have hl : (env.keystream key pb ++ key).length - KEY_BYTES = (env.keystream key pb).length := by
    rw [List.length_append, hkey]; omega
  rw [if_neg (by rw [List.length_append, hkey]; omega), hl]
  simp only [List.take_left', List.drop_left', L.keystream_invol]

theorem decrypt_aont (env : Env) (L : env.Laws) (key pb : Bytes) (hkey : key.length = KEY_BYTES) :
    decryptPayload env (env.keystream key pb ++ env.mask (env.keystream key pb) key)
      (fun tail ct => env.mask ct tail) = .ok pb := by
  unfold decryptPayload
  have hm := L.mask_length (env.keystream key pb) key hkey
  have hl : (env.keystream key pb ++ env.mask (env.keystream key pb) key).length - KEY_BYTES = (env.keystream key pb).length := by
    rw [List.length_append, hm]; omega
  rw [if_neg (by rw [List.length_append, hm]; omega), hl]
  simp only [List.take_left', List.drop_left', L.mask_invol _ _ hkey, L.keystream_invol]

/-- the raw shreds of the leader, as a `Raw` -/
def leaderRaw (env : Env) (v : Variant) (key pb : Bytes) : Raw :=
  ⟨(rsSplit (coderPayload env v key pb)).take v.nData, env.encode (64 - v.nData) (rsSplit (coderPayload env v key pb))⟩

theorem deshredValidated_roundtrip (env : Env) (L : env.Laws) (v : Variant) (key pb : Bytes)
    (hkey : key.length = KEY_BYTES) (hfit : pb.length ≤ v.maxData)
    (mk : Nat → Bytes → VShred) (hmk : ∀ i d, (mk i d).shred.index = i ∧ (mk i d).shred.data = d)
    (present : Nat → Bool) (hcnt : 32 ≤ ((List.range 64).filter present).length) :
    deshredValidated env v (selectFrom present 0 (mkAll mk 0 (rawsOf env (coderPayload env v key pb) v.nData)))
      = .ok (pb, leaderRaw env v key pb) := by
  have hP := coderPayload_length env L v key pb hkey hfit
  have hc := coderDeshred_roundtrip env (coderPayload env v key pb) v.nData mk present L hP (nData_le v) hmk hcnt
  have h32 := (rsSplit_shape (coderPayload env v key pb)).1
  unfold deshredValidated leaderRaw
  rw [nCoding_eq, hc]
  cases v
  · simp only [Variant.nData, DATA_eq, coderPayload] at *
    rw [List.take_of_length_le (by omega)]
  · simp only [Variant.nData, coderPayload, List.take_zero] at *
  · simp only [Variant.nData, DATA_eq, coderPayload] at *
    rw [decrypt_pets env L key pb hkey, List.dropLast_eq_take, h32]
  · simp only [Variant.nData, DATA_eq, coderPayload] at *
    rw [decrypt_aont env L key pb hkey, List.take_of_length_le (by omega)]

end AgModel.Shred
