import AgModel.Model.BlockProducer
/-! Lemmas about `AgModel.BlockProducer` (the receive loop `fill`, one slice `step`, the block loop `run`). -/
namespace AgModel.BlockProducer

/-! ### constants (re-checked whenever the sources change them) -/

/-- an empty buffer has room for a maximum-size transaction (the `const _: () = assert!(…)` of the code) -/
theorem room_init : dataLen [] + MAX_TRANSACTION_SIZE + LEN ≤ bufferSpace := by decide
/-- the buffer, the largest encoded parent and the length prefix of `data` fit the slice -/
theorem budget : bufferSpace + PARENT_SOME + LEN ≤ MAX_DATA_PER_SLICE := by decide
theorem none_le_some : PARENT_NONE ≤ PARENT_SOME := by decide
theorem max_slices_pos : 0 < MAX_SLICES := by decide

theorem dataLen_snoc (acc : List Tx) (t : Tx) : dataLen (acc ++ [t]) = dataLen acc + LEN + t.len := by
  simp only [dataLen, List.map_append, List.sum_append, List.map_cons, List.map_nil, List.sum_cons, List.sum_nil]
  omega

/-! ### `fill` -/

theorem fill_fits (c : Nat) (acc arr : List Tx) (h : dataLen acc + MAX_TRANSACTION_SIZE + LEN ≤ bufferSpace) :
    dataLen (fill c acc arr).txs ≤ bufferSpace := by
  induction arr generalizing c acc with
  | nil => simp only [fill]; omega
  | cons t rest ih =>
    simp only [fill]
    have hs := dataLen_snoc acc t
    split
    · exact ih c acc h
    · split
      · simp only; omega
      · apply ih; omega

theorem fill_count (c : Nat) (acc arr : List Tx) :
    (fill c acc arr).count + acc.length = c + (fill c acc arr).txs.length := by
  induction arr generalizing c acc with
  | nil => simp [fill]
  | cons t rest ih =>
    simp only [fill]
    split
    · exact ih c acc
    · split
      · simp only [List.length_append, List.length_cons, List.length_nil]; omega
      · have := ih (c + 1) (acc ++ [t])
        simp only [List.length_append, List.length_cons, List.length_nil] at this
        omega

def sizeOk (t : Tx) : Bool := decide (t.len ≤ MAX_TRANSACTION_SIZE)

/-- the slice consumes a prefix of the arrivals and serialises exactly its transactions of acceptable size, in order -/
theorem fill_split (c : Nat) (acc arr : List Tx) :
    ∃ consumed, arr = consumed ++ (fill c acc arr).rest ∧ (fill c acc arr).txs = acc ++ consumed.filter sizeOk := by
  induction arr generalizing c acc with
  | nil => exact ⟨[], by simp [fill], by simp [fill]⟩
  | cons t rest ih =>
    simp only [fill]
    split
    · rename_i hbig
      obtain ⟨cs, h1, h2⟩ := ih c acc
      refine ⟨t :: cs, by rw [List.cons_append, ← h1], ?_⟩
      rw [h2, List.filter_cons]
      have : sizeOk t = false := by simp only [sizeOk, decide_eq_false_iff_not]; omega
      simp [this]
    · rename_i hok
      have hok' : sizeOk t = true := by simp only [sizeOk, decide_eq_true_eq]; omega
      split
      · exact ⟨[t], by simp, by simp [hok']⟩
      · obtain ⟨cs, h1, h2⟩ := ih (c + 1) (acc ++ [t])
        refine ⟨t :: cs, by rw [List.cons_append, ← h1], ?_⟩
        rw [h2, List.filter_cons]
        simp [hok']

/-- a slice that reports "full" has no room for another maximum-size transaction -/
theorem fill_full_tight (c : Nat) (acc arr : List Tx) (h : (fill c acc arr).full = true) :
    bufferSpace - dataLen (fill c acc arr).txs < MAX_TRANSACTION_SIZE + LEN := by
  induction arr generalizing c acc with
  | nil => simp [fill] at h
  | cons t rest ih =>
    simp only [fill] at h ⊢
    split
    · rename_i hb; simp only [hb, if_true] at h; exact ih c acc h
    · rename_i hb
      simp only [hb, if_false] at h
      split
      · rename_i hf; exact hf
      · rename_i hf; simp only [hf, if_false] at h; exact ih _ _ h

/-- a slice that is not full consumed everything that arrived, and still has room for a maximum-size transaction -/
theorem fill_notfull (c : Nat) (acc arr : List Tx) (h : (fill c acc arr).full = false)
    (hroom : dataLen acc + MAX_TRANSACTION_SIZE + LEN ≤ bufferSpace) :
    (fill c acc arr).rest = [] ∧ dataLen (fill c acc arr).txs + MAX_TRANSACTION_SIZE + LEN ≤ bufferSpace := by
  induction arr generalizing c acc with
  | nil => exact ⟨by simp [fill], by simpa [fill] using hroom⟩
  | cons t rest ih =>
    simp only [fill] at h ⊢
    split
    · rename_i hb; simp only [hb, if_true] at h; exact ih c acc h hroom
    · rename_i hb
      simp only [hb, if_false] at h
      split
      · rename_i hf; simp [hf] at h
      · rename_i hf; simp only [hf, if_false] at h
        have hs := dataLen_snoc acc t
        exact ih _ _ h (by omega)

/-! ### `step` -/

theorem encLen_le (p : Payload) (h : dataLen p.txs ≤ bufferSpace) : p.encLen ≤ MAX_DATA_PER_SLICE := by
  have := budget
  have := none_le_some
  unfold Payload.encLen Payload.dataLen
  split <;> omega

/-- `step` either emits nothing and leaves a state that is not running (everything but the status unchanged), or emits
    exactly one slice -/
theorem step_cases (c : Cfg) (s : PState) (si : SliceIn) :
    ((step c s si).2 = [] ∧ (step c s si).1.status ≠ .running ∧ (step c s si).1.status ≠ .done ∧
        (step c s si).1.parent = s.parent ∨ (step c s si) = (s, []) ∧ s.status ≠ .running) ∨
    (s.status = .running ∧ ∃ isLast : Bool,
      step c s si =
        (⟨s.k + 1, s.seen || si.pr.isSome, (fill 0 [] (s.queue ++ si.arrived)).rest, newParent c s si,
          if isLast then .done else .running⟩,
         [⟨c.slot, s.k, isLast, ⟨sliceParent c s si, (fill 0 [] (s.queue ++ si.arrived)).count,
            (fill 0 [] (s.queue ++ si.arrived)).txs⟩⟩]) ∧
      (isLast = true → (s.seen || si.pr.isSome) = true) ∧
      (s.k + 1 = MAX_SLICES → isLast = true)) := by
  unfold step
  by_cases hs : s.status = .running
  · simp only [hs, ne_eq, not_true_eq_false, if_false]
    split
    · left; left; simp
    · split
      · left; left; simp
      · split
        · left; left; simp
        · rename_i h1 h2 h3
          right
          refine ⟨trivial, _, rfl, ?_, ?_⟩
          · intro hl
            cases hseen : (s.seen || si.pr.isSome)
            · rw [hl, hseen] at h2; simp at h2
            · rfl
          · intro hk; simp [hk]
  · left; right; simp [hs]

/-- the shredder never refuses a slice built by the producer: the `panicked` branch of `step` is dead -/
theorem step_never_panics (c : Cfg) (s : PState) (si : SliceIn) (h : s.status ≠ .panicked) :
    (step c s si).1.status ≠ .panicked := by
  unfold step
  by_cases hs : s.status = .running
  case neg => simpa [hs] using h
  simp only [hs, ne_eq, not_true_eq_false, if_false]
  · split
    · simp
    · split
      · simp
      · split
        · rename_i hbig
          exfalso
          have := encLen_le ⟨sliceParent c s si, (fill 0 [] (s.queue ++ si.arrived)).count, (fill 0 [] (s.queue ++ si.arrived)).txs⟩
            (fill_fits 0 [] _ room_init)
          omega
        · simp only; split <;> simp

theorem run_stopped (c : Cfg) (s : PState) (ins : List SliceIn) (h : s.status ≠ .running) : run c s ins = (s, []) := by
  induction ins with
  | nil => rfl
  | cons si rest ih =>
    have : step c s si = (s, []) := by unfold step; simp [h]
    simp only [run, this, ih, List.append_nil]


/-- what every emitted slice satisfies on its own -/
def SliceOk (c : Cfg) (o : SliceOut) : Prop :=
  o.slot = c.slot ∧ o.payload.encLen ≤ MAX_DATA_PER_SLICE ∧ dataLen o.payload.txs ≤ bufferSpace ∧
  o.payload.count = o.payload.txs.length ∧ ∀ t ∈ o.payload.txs, t.len ≤ MAX_TRANSACTION_SIZE

theorem fill_sliceOk (c : Cfg) (k : Nat) (l : Bool) (p : Option (Nat × Nat)) (arr : List Tx) :
    SliceOk c ⟨c.slot, k, l, ⟨p, (fill 0 [] arr).count, (fill 0 [] arr).txs⟩⟩ := by
  have hf := fill_fits 0 [] arr room_init
  refine ⟨rfl, encLen_le _ hf, hf, ?_, ?_⟩
  · have := fill_count 0 [] arr
    simpa using this
  · obtain ⟨cs, _, h2⟩ := fill_split 0 [] arr
    intro t ht
    simp only at ht
    rw [h2] at ht
    simp only [List.nil_append, List.mem_filter, sizeOk, decide_eq_true_eq] at ht
    exact ht.2

/-- specification of the block loop from a running state (all inputs) -/
theorem run_spec (c : Cfg) (ins : List SliceIn) (s : PState) (hk : s.k < MAX_SLICES) (hrun : s.status = .running) :
    ∀ r, run c s ins = r →
    r.2.map (·.index) = List.range' s.k r.2.length ∧
    s.k + r.2.length ≤ MAX_SLICES ∧
    (∀ o ∈ r.2, SliceOk c o) ∧
    r.1.status ≠ .panicked ∧
    (r.1.status = .done → ∃ pre l, r.2 = pre ++ [l] ∧ l.isLast = true ∧ ∀ o ∈ pre, o.isLast = false) ∧
    (r.1.status ≠ .done → ∀ o ∈ r.2, o.isLast = false) ∧
    (r.1.status = .done → r.1.seen = true) := by
  induction ins generalizing s with
  | nil =>
    intro r hr
    simp only [run] at hr
    subst hr
    refine ⟨by simp, by simp; omega, by simp, by simp [hrun], by simp [hrun], by simp, by simp [hrun]⟩
  | cons si rest ih =>
    intro r hr
    have hnp := step_never_panics c s si (by simp [hrun])
    rcases step_cases c s si with (⟨h2, hnr, hnd, _⟩ | ⟨_, hns⟩) | ⟨_, isLast, heq, hseen, hmax⟩
    · have hr' : run c s (si :: rest) = ((step c s si).1, []) := by
        simp only [run, run_stopped c _ rest hnr, h2, List.append_nil]
      rw [hr'] at hr
      subst hr
      refine ⟨by simp, by simp; omega, by simp, hnp, fun h => absurd h hnd, by simp, fun h => absurd h hnd⟩
    · exact absurd hrun hns
    · cases isLast with
      | true =>
        have hr' : run c s (si :: rest) = ((step c s si).1, (step c s si).2) := by
          simp only [run]
          rw [run_stopped c _ rest (by rw [heq]; simp)]
          simp
        rw [hr', heq] at hr
        subst hr
        refine ⟨by simp, by simp; omega, ?_, by simp, ?_, by simp, ?_⟩
        · intro o ho
          simp only [List.mem_singleton] at ho
          subst ho
          exact fill_sliceOk c _ _ _ _
        · intro _
          exact ⟨[], _, rfl, rfl, by simp⟩
        · intro _
          exact hseen rfl
      | false =>
        have hk' : s.k + 1 < MAX_SLICES := by
          have : s.k + 1 ≠ MAX_SLICES := fun h => by simpa using hmax h
          omega
        have hr' : run c s (si :: rest) = ((run c (step c s si).1 rest).1, (step c s si).2 ++ (run c (step c s si).1 rest).2) := by
          simp only [run]
        have h2 : (step c s si).2 = [⟨c.slot, s.k, false, ⟨sliceParent c s si, (fill 0 [] (s.queue ++ si.arrived)).count,
            (fill 0 [] (s.queue ++ si.arrived)).txs⟩⟩] := by rw [heq]
        have hk1 : (step c s si).1.k = s.k + 1 := by rw [heq]
        have hst : (step c s si).1.status = .running := by rw [heq]; rfl
        obtain ⟨i1, i2, i3, i4, i5, i6, i7⟩ := ih (step c s si).1 (by rw [hk1]; exact hk') hst _ rfl
        rw [hr'] at hr
        subst hr
        rw [hk1] at i1 i2
        simp only [h2] at i1 i2 i3 i4 i5 i6 i7 ⊢
        refine ⟨?_, ?_, ?_, i4, ?_, ?_, i7⟩
        · simp only [List.singleton_append, List.map_cons, List.length_cons, List.range'_succ, i1]
        · simp only [List.singleton_append, List.length_cons]; omega
        · intro o ho
          simp only [List.singleton_append, List.mem_cons] at ho
          rcases ho with rfl | ho
          · exact fill_sliceOk c _ _ _ _
          · exact i3 o ho
        · intro hd
          obtain ⟨pre, l, h1, h2, h3⟩ := i5 hd
          refine ⟨⟨c.slot, s.k, false, ⟨sliceParent c s si, (fill 0 [] (s.queue ++ si.arrived)).count,
            (fill 0 [] (s.queue ++ si.arrived)).txs⟩⟩ :: pre, l, by rw [h1]; simp, h2, ?_⟩
          intro o ho
          simp only [List.mem_cons] at ho
          rcases ho with rfl | ho
          · rfl
          · exact h3 o ho
        · intro hd o ho
          simp only [List.singleton_append, List.mem_cons] at ho
          rcases ho with rfl | ho
          · rfl
          · exact i6 hd o ho

end AgModel.BlockProducer
