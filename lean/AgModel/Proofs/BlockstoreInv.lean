import AgModel.Proofs.BlockstoreHonest
/-!
The general blockstore invariant `BInv` (core Lean only): holds for every `BlockData` reachable through
`add_shred` with *arbitrary* validated shreds (any slice / index / flags / mix of validly signed slices of
a Byzantine leader). It implies that `add_shred` never panics and that what the repair responder
serves (slice roots, proofs, shreds) is consistent with the Merkle tree of the completed block.
-/
namespace AgModel.Blockstore
open AgModel.Merkle

/-- all `TOTAL_SHREDS` positions of a slice's shred array are filled -/
def FullArr (arr : ShredArr) : Prop := ∀ j, j < TOTAL_SHREDS → (arr j).isSome

structure BInv (b : BlockData) : Prop where
  /-- a stored shred sits at its own position and carries the cached commitment of its slice -/
  shr : ∀ i arr j s, b.shreds i = some arr → arr j = some s →
    s.slice = i ∧ s.idx = j ∧ b.cache i = some s.commitment
  /-- a reconstructed slice sits at its index, has the cached root, the first one has a parent, and
      its shred array was refilled -/
  slc : ∀ i r, b.slices i = some r → r.slice = i ∧ (i = 0 → r.parent.isSome) ∧
    (∃ c, b.cache i = some c ∧ c.root = r.root) ∧ (∃ arr, b.shreds i = some arr ∧ FullArr arr)
  /-- nothing is held beyond the last slice -/
  lst : ∀ l i, b.lastSlice = some l → l < i → b.shreds i = none ∧ b.slices i = none
  /-- the double-Merkle tree was built over the cached roots of slices `0..=last`, all refilled -/
  tre : ∀ roots, b.tree = some roots → ∃ l, b.lastSlice = some l ∧ roots.length = l + 1 ∧ l < b.cap ∧
    ∀ i, i ≤ l → (∃ c, b.cache i = some c ∧ roots[i]? = some c.root) ∧ (∃ arr, b.shreds i = some arr ∧ FullArr arr)
  /-- a completed block hashes to the root of that tree -/
  cmp : ∀ blk, b.completed = some blk → ∃ roots, b.tree = some roots ∧ blk.hash = (Tree.new roots).root

theorem binv_new (cap slot : Nat) : BInv (BlockData.new cap slot) := by
  constructor <;> simp [BlockData.new]

/-! ### stage 1: the commitment cache -/

theorem binv_cache_mono (b : BlockData) (cache' : Nat → Option Commitment) (h : BInv b)
    (hm : ∀ i c, b.cache i = some c → cache' i = some c) : BInv { b with cache := cache' } := by
  constructor
  · intro i arr j s h1 h2
    obtain ⟨a, b', c⟩ := h.shr i arr j s h1 h2
    exact ⟨a, b', hm _ _ c⟩
  · intro i r h1
    obtain ⟨a, b', ⟨c, hc, hr⟩, d⟩ := h.slc i r h1
    exact ⟨a, b', ⟨c, hm _ _ hc, hr⟩, d⟩
  · exact h.lst
  · intro roots h1
    obtain ⟨l, h2, h3, h4, h5⟩ := h.tre roots h1
    refine ⟨l, h2, h3, h4, ?_⟩
    intro i hi
    obtain ⟨⟨c, hc, hr⟩, d⟩ := h5 i hi
    exact ⟨⟨c, hm _ _ hc, hr⟩, d⟩
  · exact h.cmp

theorem cacheStep_binv (b b1 : BlockData) (s : Shred) (h : BInv b) (hc : cacheStep b s = some b1) :
    BInv b1 ∧ b1.cache s.slice = some s.commitment ∧ b1.lastSlice = b.lastSlice ∧ b1.cap = b.cap ∧ b1.slot = b.slot := by
  unfold cacheStep at hc
  split at hc
  · rename_i c hcc
    split at hc
    · simp at hc
    · rename_i hne
      simp at hc; subst hc
      have : c = s.commitment := by
        cases Classical.em (c = s.commitment) with
        | inl h => exact h
        | inr h => exact absurd h hne
      exact ⟨h, by rw [hcc, this], rfl, rfl, rfl⟩
  · rename_i hnone
    simp at hc; subst hc
    refine ⟨binv_cache_mono b _ h ?_, by simp [upd], rfl, rfl, rfl⟩
    intro i c hic
    simp only [upd]
    split
    · rename_i hi; subst hi; rw [hnone] at hic; simp at hic
    · exact hic

/-! ### stage 2: the last-slice marker -/

theorem lastStep_binv (b b2 : BlockData) (s : Shred) (h : BInv b) (hl : lastStep b s = some b2) :
    BInv b2 ∧ (∀ l, b2.lastSlice = some l → s.slice ≤ l) ∧ b2.cache = b.cache ∧ b2.cap = b.cap ∧ b2.slot = b.slot := by
  unfold lastStep at hl
  cases hls : b.lastSlice with
  | some l =>
    rw [hls] at hl
    simp only at hl
    split at hl
    · rename_i hcond
      simp at hl; subst hl
      refine ⟨h, ?_, rfl, rfl, rfl⟩
      intro l' hl'
      rw [hls] at hl'; simp at hl'; subst hl'
      simp at hcond
      rcases hcond with ⟨h1, _⟩ | ⟨h1, _⟩ <;> omega
    · simp at hl
  | none =>
    rw [hls] at hl
    simp only at hl
    split at hl
    · split at hl
      · simp at hl
      · simp at hl; subst hl
        refine ⟨?_, by intro l hl'; simp [markLastSlice] at hl'; omega, rfl, rfl, rfl⟩
        constructor
        · intro i arr j s' h1 h2
          simp only [markLastSlice, retainLe] at h1
          split at h1
          · exact h.shr i arr j s' h1 h2
          · simp at h1
        · intro i r h1
          simp only [markLastSlice, retainLe] at h1 ⊢
          split at h1
          · rename_i hi
            obtain ⟨a, b', c, arr, harr, hf⟩ := h.slc i r h1
            exact ⟨a, b', c, arr, by rw [if_pos hi]; exact harr, hf⟩
          · simp at h1
        · intro l i h1 h2
          simp only [markLastSlice, Option.some.injEq] at h1
          subst h1
          simp only [markLastSlice, retainLe]
          rw [if_neg (by omega), if_neg (by omega)]
          exact ⟨rfl, rfl⟩
        · intro roots h1
          obtain ⟨l, h2, _⟩ := h.tre roots h1
          rw [hls] at h2; simp at h2
        · intro blk h1
          obtain ⟨roots, h2, _⟩ := h.cmp blk h1
          obtain ⟨l, h3, _⟩ := h.tre roots h2
          rw [hls] at h3; simp at h3
    · simp at hl; subst hl
      refine ⟨h, ?_, rfl, rfl, rfl⟩
      intro l hl'; rw [hls] at hl'; simp at hl'


/-! ### stage 3: storing and reconstructing -/

/-- replacing the shred map by one that extends every array with well-placed shreds -/
theorem binv_shreds_ext (b : BlockData) (sh' : Nat → Option ShredArr) (h : BInv b)
    (hext : ∀ i arr, b.shreds i = some arr → ∃ arr', sh' i = some arr' ∧ ∀ j, (arr j).isSome → (arr' j).isSome)
    (hplace : ∀ i arr' j s', sh' i = some arr' → arr' j = some s' →
      s'.slice = i ∧ s'.idx = j ∧ b.cache i = some s'.commitment)
    (hlast : ∀ l i, b.lastSlice = some l → l < i → sh' i = none) : BInv { b with shreds := sh' } := by
  have hfull : ∀ i, (∃ arr, b.shreds i = some arr ∧ FullArr arr) → ∃ arr, sh' i = some arr ∧ FullArr arr := by
    rintro i ⟨arr, h1, h2⟩
    obtain ⟨arr', h3, h4⟩ := hext i arr h1
    exact ⟨arr', h3, fun j hj => h4 j (h2 j hj)⟩
  constructor
  · exact hplace
  · intro i r h1
    obtain ⟨a, b', c, d⟩ := h.slc i r h1
    exact ⟨a, b', c, hfull i d⟩
  · intro l i h1 h2
    exact ⟨hlast l i h1 h2, (h.lst l i h1 h2).2⟩
  · intro roots h1
    obtain ⟨l, h2, h3, h4, h5⟩ := h.tre roots h1
    refine ⟨l, h2, h3, h4, ?_⟩
    intro i hi
    exact ⟨(h5 i hi).1, hfull i (h5 i hi).2⟩
  · exact h.cmp

theorem present_mem (arr : ShredArr) (f : Shred) (h : f ∈ present arr) : ∃ j, arr j = some f := by
  unfold present at h
  simp only [List.mem_filterMap, List.mem_range] at h
  obtain ⟨j, _, hj⟩ := h
  exact ⟨j, hj⟩

theorem deshred_ok (env : Nat → Content) (arr arr' : ShredArr) (r : RSlice) (h : deshred env arr = .ok r arr') :
    ∃ f, f ∈ present arr ∧ arr' = refill f arr ∧ r.slice = f.slice ∧ r.root = f.root := by
  unfold deshred at h
  split at h
  · simp at h
  · rename_i f rest hp
    split at h
    · simp at h
    · split at h
      · simp at h
      · split at h
        · simp at h
        · simp at h
          refine ⟨f, by rw [hp]; exact List.mem_cons_self, h.2.symm, ?_, ?_⟩
          · rw [← h.1]
          · rw [← h.1]

theorem refill_full (f : Shred) (arr : ShredArr) : FullArr (refill f arr) := by
  intro j hj
  unfold refill
  rw [if_pos hj]
  cases arr j <;> rfl

theorem refill_keeps (f : Shred) (arr : ShredArr) (j : Nat) (h : (arr j).isSome) : (refill f arr j).isSome := by
  unfold refill
  split
  · cases harr : arr j with
    | none => simp [harr] at h
    | some x => simp
  · exact h

theorem tryReconstructSlice_binv (env : Nat → Content) (b : BlockData) (k : Nat) (h : BInv b)
    (hk : ∀ l, b.lastSlice = some l → k ≤ l) (hsome : (b.shreds k).isSome) :
    BInv (tryReconstructSlice env b k).1 ∧ (tryReconstructSlice env b k).2 ≠ .panic ∧
      (tryReconstructSlice env b k).1.lastSlice = b.lastSlice ∧ (tryReconstructSlice env b k).1.cap = b.cap := by
  unfold tryReconstructSlice
  split
  · exact ⟨h, by simp, rfl, rfl⟩
  split
  · exact ⟨h, by simp, rfl, rfl⟩
  cases harr : b.shreds k with
  | none => simp [harr] at hsome
  | some arr =>
    simp only
    cases hd : deshred env arr with
    | notEnough => exact ⟨h, by simp, rfl, rfl⟩
    | error => exact ⟨h, by simp, rfl, rfl⟩
    | ok r arr' =>
      simp only
      obtain ⟨f, hf, harr', hrs, hrr⟩ := deshred_ok env arr arr' r hd
      obtain ⟨j0, hj0⟩ := present_mem arr f hf
      obtain ⟨hfs, _, hfc⟩ := h.shr k arr j0 f harr hj0
      have h1 : BInv { b with shreds := upd b.shreds k (some arr') } := by
        apply binv_shreds_ext b _ h
        · intro i a ha
          simp only [upd]
          split
          · rename_i hik; subst hik
            rw [harr] at ha; simp at ha; subst ha
            exact ⟨arr', rfl, fun j hj => by rw [harr']; exact refill_keeps f arr j hj⟩
          · exact ⟨a, ha, fun _ hj => hj⟩
        · intro i a j s' ha hs'
          simp only [upd] at ha
          split at ha
          · rename_i hik; subst hik
            simp at ha; subst ha
            rw [harr'] at hs'
            unfold refill at hs'
            split at hs'
            · cases hold : arr j with
              | some x => rw [hold] at hs'; simp at hs'; subst hs'; exact h.shr i arr j x harr hold
              | none =>
                rw [hold] at hs'; simp at hs'; subst hs'
                exact ⟨hfs, rfl, hfc⟩
            · exact h.shr i arr j s' harr hs'
          · exact h.shr i a j s' ha hs'
        · intro l i hl hli
          simp only [upd]
          rw [if_neg (by have := hk l hl; omega)]
          exact (h.lst l i hl hli).1
      split
      · exact ⟨h1, by simp, rfl, rfl⟩
      · rename_i hpar
        refine ⟨?_, by simp, rfl, rfl⟩
        constructor
        · exact h1.shr
        · intro i r' hi
          simp only [upd] at hi
          split at hi
          · rename_i hik; subst hik
            simp at hi; subst hi
            refine ⟨by rw [hrs]; exact hfs, ?_, ⟨f.commitment, hfc, by rw [hrr]; rfl⟩, ⟨arr', by simp [upd], ?_⟩⟩
            · intro hi0
              cases hp : r.parent with
              | some p => rfl
              | none =>
                exfalso; apply hpar
                simp [hp, hrs, hfs, hi0]
            · rw [harr']; exact refill_full f arr
          · exact h1.slc i r' hi
        · intro l i hl hli
          refine ⟨(h1.lst l i hl hli).1, ?_⟩
          simp only [upd]
          rw [if_neg (by have := hk l hl; omega)]
          exact (h.lst l i hl hli).2
        · exact h1.tre
        · exact h1.cmp


theorem mapLen_le {α : Type} (cap : Nat) (f : Nat → Option α) : mapLen cap f ≤ cap := by
  unfold mapLen
  have := List.countP_le_length (p := fun i => (f i).isSome) (l := List.range cap)
  simpa using this

theorem slices_full_of_count {α : Type} (cap : Nat) (f : Nat → Option α) (last : Nat)
    (hkeys : ∀ i, last < i → f i = none) (hlen : mapLen cap f = last + 1) :
    last < cap ∧ (∀ i, i ≤ last → (f i).isSome) ∧
      ∀ g : Nat → α, (∀ i x, f i = some x → g i = x) → mapVals cap f = (List.range (last + 1)).map g := by
  have hk : ∀ i, (f i).isSome → i < last + 1 := by
    intro i hi
    rcases Nat.lt_or_ge i (last + 1) with h | h
    · exact h
    · rw [hkeys i (by omega)] at hi; simp at hi
  have hcap : last + 1 ≤ cap := by
    have := mapLen_le cap f; omega
  obtain ⟨d, hd⟩ : ∃ d, cap = (last + 1) + d := ⟨cap - (last + 1), by omega⟩
  have hfull : ∀ i, i < last + 1 → (f i).isSome := by
    apply mapLen_full
    rw [← mapLen_bound f (last + 1) d hk, ← hd]; exact hlen
  refine ⟨by omega, fun i hi => hfull i (by omega), ?_⟩
  intro g hg
  rw [hd, mapVals_bound f (last + 1) d (fun i hi => hkeys i (by omega))]
  apply mapVals_map
  intro i hi
  have := hfull i hi
  cases hfi : f i with
  | none => rw [hfi] at this; simp at this
  | some x => rw [hg i x hfi]

theorem tryReconstructBlock_binv (b : BlockData) (h : BInv b) :
    BInv (tryReconstructBlock b).1 ∧ (tryReconstructBlock b).2 ≠ .panic := by
  unfold tryReconstructBlock
  split
  · exact ⟨h, by simp⟩
  split
  · exact ⟨h, by simp⟩
  rename_i hcomp _ last hlast
  split
  · exact ⟨h, by simp⟩
  rename_i hlen
  have hlen' : mapLen b.cap b.slices = last + 1 := by
    cases Nat.decEq (mapLen b.cap b.slices) (last + 1) with
    | isTrue h => exact h
    | isFalse h => exact absurd h hlen
  obtain ⟨hcap, hfull, hvals⟩ := slices_full_of_count b.cap b.slices last
    (fun i hi => (h.lst last i hlast hi).2) hlen'
  let dflt : RSlice := ⟨0, false, 0, none, none⟩
  have hv := hvals (fun i => (b.slices i).getD dflt) (by intro i x hx; simp [hx])
  -- the state with the tree recorded
  have hT : BInv { b with tree := some ((mapVals b.cap b.slices).map (·.root)) } := by
    constructor
    · exact h.shr
    · exact h.slc
    · exact h.lst
    · intro roots hr
      simp only [Option.some.injEq] at hr
      subst hr
      refine ⟨last, hlast, by rw [hv]; simp, hcap, ?_⟩
      intro i hi
      have hsi := hfull i hi
      cases hs : b.slices i with
      | none => rw [hs] at hsi; simp at hsi
      | some r =>
        obtain ⟨_, _, ⟨c, hc, hcr⟩, hfa⟩ := h.slc i r hs
        refine ⟨⟨c, hc, ?_⟩, hfa⟩
        rw [hv]
        simp only [List.map_map, List.getElem?_map, Function.comp_def]
        rw [List.getElem?_range (by omega)]
        simp [hs, hcr]
    · intro blk hb
      simp only at hb
      rw [hb] at hcomp; simp at hcomp
  have h0 := hfull 0 (by omega)
  simp only
  cases hs0 : b.slices 0 with
  | none => rw [hs0] at h0; simp at h0
  | some first =>
    simp only
    have hp := (h.slc 0 first hs0).2.1 rfl
    cases hfp : first.parent with
    | none => rw [hfp] at hp; simp at hp
    | some p0 =>
      simp only
      split
      · exact ⟨hT, by simp⟩
      · split
        · exact ⟨hT, by simp⟩
        · refine ⟨?_, by simp⟩
          constructor
          · exact hT.shr
          · intro i r hi
            simp only at hi
            split at hi
            · simp at hi
            · exact hT.slc i r hi
          · intro l i hl hli
            refine ⟨(hT.lst l i hl hli).1, ?_⟩
            simp only
            split
            · rfl
            · exact (hT.lst l i hl hli).2
          · exact hT.tre
          · intro blk hb
            simp only [Option.some.injEq] at hb
            exact ⟨_, rfl, by rw [← hb]⟩

theorem reconstruct_binv (env : Nat → Content) (b : BlockData) (k : Nat) (h : BInv b)
    (hk : ∀ l, b.lastSlice = some l → k ≤ l) (hsome : (b.shreds k).isSome) :
    BInv (reconstruct env b k).1 ∧ (reconstruct env b k).2 ≠ .panic := by
  obtain ⟨h1, h2, _, _⟩ := tryReconstructSlice_binv env b k h hk hsome
  unfold reconstruct
  split
  · rename_i b1 heq; rw [heq] at h1; exact ⟨h1, by simp⟩
  · rename_i b1 heq; rw [heq] at h1; exact ⟨h1, by simp⟩
  · rename_i b1 heq; rw [heq] at h2; simp at h2
  · rename_i b1 heq; rw [heq] at h1
    simp only at h1
    obtain ⟨h3, h4⟩ := tryReconstructBlock_binv b1 h1
    split
    · rename_i b2 heq2; rw [heq2] at h3; exact ⟨h3, by simp⟩
    · rename_i b2 heq2; rw [heq2] at h3; exact ⟨h3, by simp⟩
    · rename_i b2 heq2; rw [heq2] at h4; simp at h4
    · rename_i b2 info heq2; rw [heq2] at h3; exact ⟨h3, by simp⟩


theorem storeStep_binv (env : Nat → Content) (b : BlockData) (s : Shred) (h : BInv b)
    (hc : b.cache s.slice = some s.commitment) (hl : ∀ l, b.lastSlice = some l → s.slice ≤ l) :
    BInv (storeStep env b s).1 ∧ (storeStep env b s).2 ≠ .panic := by
  unfold storeStep
  simp only
  split
  · -- duplicate
    rename_i hdup
    cases hsh : b.shreds s.slice with
    | none => simp [hsh, arrEmpty] at hdup
    | some arr =>
      simp only [hsh, Option.getD_some]
      have hsame : upd b.shreds s.slice (some arr) = b.shreds := by
        funext k; simp only [upd]; split
        · rename_i hk; subst hk; exact hsh.symm
        · rfl
      simp only [hsame]
      exact ⟨h, by simp⟩
  · have h' : BInv { b with shreds := upd b.shreds s.slice (some (upd ((b.shreds s.slice).getD arrEmpty) s.idx (some s))) } := by
      apply binv_shreds_ext b _ h
      · intro i a ha
        simp only [upd]
        split
        · rename_i hik; subst hik
          refine ⟨_, rfl, ?_⟩
          intro j hj
          simp only [ha, Option.getD_some, upd]
          split
          · rfl
          · exact hj
        · exact ⟨a, ha, fun _ hj => hj⟩
      · intro i a j s' ha hs'
        simp only [upd] at ha
        split at ha
        · rename_i hik; subst hik
          simp only [Option.some.injEq] at ha; subst ha
          simp only [upd] at hs'
          split at hs'
          · rename_i hj; subst hj
            simp only [Option.some.injEq] at hs'; subst hs'
            exact ⟨rfl, rfl, hc⟩
          · cases hsh : b.shreds s.slice with
            | none => rw [hsh] at hs'; simp [arrEmpty] at hs'
            | some arr => rw [hsh] at hs'; exact h.shr _ arr j s' hsh hs'
        · exact h.shr i a j s' ha hs'
      · intro l i hl' hli
        simp only [upd]
        rw [if_neg (by have := hl l hl'; omega)]
        exact (h.lst l i hl' hli).1
    split
    · exact ⟨h', by simp⟩
    · exact reconstruct_binv env _ s.slice h' hl (by simp [upd])

/-- **The blockstore invariant is preserved by `add_shred` for every shred whatsoever, and `add_shred`
    never panics** (the `expect`s of `try_reconstruct_slice` / `try_reconstruct_block`). -/
theorem addShred_binv (env : Nat → Content) (b : BlockData) (s : Shred) (h : BInv b) :
    BInv (addShredCore env b s).1 ∧ (addShredCore env b s).2 ≠ .panic := by
  unfold addShredCore
  cases hc : cacheStep b s with
  | none => exact ⟨h, by simp⟩
  | some b1 =>
    obtain ⟨h1, hcache, _, _, _⟩ := cacheStep_binv b b1 s h hc
    simp only
    cases hl : lastStep b1 s with
    | none => exact ⟨h1, by simp⟩
    | some b2 =>
      obtain ⟨h2, hle, hcache2, _, _⟩ := lastStep_binv b1 b2 s h1 hl
      simp only
      exact storeStep_binv env b2 s h2 (by rw [hcache2]; exact hcache) hle

/-- `add_shred` never changes slot and capacity -/
theorem addShred_slot_cap (env : Nat → Content) (b : BlockData) (s : Shred) :
    (addShredCore env b s).1.slot = b.slot ∧ (addShredCore env b s).1.cap = b.cap := by
  have hrs : ∀ (b : BlockData) k, (tryReconstructSlice env b k).1.slot = b.slot ∧ (tryReconstructSlice env b k).1.cap = b.cap := by
    intro b k
    unfold tryReconstructSlice
    repeat' split
    all_goals exact ⟨rfl, rfl⟩
  have hrb : ∀ (b : BlockData), (tryReconstructBlock b).1.slot = b.slot ∧ (tryReconstructBlock b).1.cap = b.cap := by
    intro b
    unfold tryReconstructBlock
    split
    · exact ⟨rfl, rfl⟩
    split
    · exact ⟨rfl, rfl⟩
    split
    · exact ⟨rfl, rfl⟩
    simp only
    repeat' split
    all_goals exact ⟨rfl, rfl⟩
  have hr : ∀ (b : BlockData) k, (reconstruct env b k).1.slot = b.slot ∧ (reconstruct env b k).1.cap = b.cap := by
    intro b k
    have h1 := hrs b k
    unfold reconstruct
    split
    · rename_i b1 heq; rw [heq] at h1; exact h1
    · rename_i b1 heq; rw [heq] at h1; exact h1
    · rename_i b1 heq; rw [heq] at h1; exact h1
    · rename_i b1 heq; rw [heq] at h1
      have h2 := hrb b1
      simp only at h1
      split
      · rename_i b2 heq2; rw [heq2] at h2; exact ⟨h2.1.trans h1.1, h2.2.trans h1.2⟩
      · rename_i b2 heq2; rw [heq2] at h2; exact ⟨h2.1.trans h1.1, h2.2.trans h1.2⟩
      · rename_i b2 heq2; rw [heq2] at h2; exact ⟨h2.1.trans h1.1, h2.2.trans h1.2⟩
      · rename_i b2 info heq2; rw [heq2] at h2; exact ⟨h2.1.trans h1.1, h2.2.trans h1.2⟩
  unfold addShredCore
  cases hc : cacheStep b s with
  | none => exact ⟨rfl, rfl⟩
  | some b1 =>
    have e1 : b1.slot = b.slot ∧ b1.cap = b.cap := by
      unfold cacheStep at hc
      repeat' split at hc
      all_goals simp at hc
      all_goals (subst hc; exact ⟨rfl, rfl⟩)
    simp only
    cases hl : lastStep b1 s with
    | none => exact e1
    | some b2 =>
      have e2 : b2.slot = b1.slot ∧ b2.cap = b1.cap := by
        unfold lastStep at hl
        repeat' split at hl
        all_goals simp at hl
        all_goals (subst hl; exact ⟨rfl, rfl⟩)
      simp only
      unfold storeStep
      simp only
      split
      · exact ⟨e2.1.trans e1.1, e2.2.trans e1.2⟩
      · split
        · exact ⟨e2.1.trans e1.1, e2.2.trans e1.2⟩
        · have := hr { b2 with shreds := upd b2.shreds s.slice (some (upd ((b2.shreds s.slice).getD arrEmpty) s.idx (some s))) } s.slice
          exact ⟨this.1.trans (e2.1.trans e1.1), this.2.trans (e2.2.trans e1.2)⟩


/-! ### the leader's own slices -/

theorem tryReconstructBlock_slot_cap (b : BlockData) :
    (tryReconstructBlock b).1.slot = b.slot ∧ (tryReconstructBlock b).1.cap = b.cap := by
  unfold tryReconstructBlock
  split
  · exact ⟨rfl, rfl⟩
  split
  · exact ⟨rfl, rfl⟩
  split
  · exact ⟨rfl, rfl⟩
  simp only
  repeat' split
  all_goals exact ⟨rfl, rfl⟩

/-- the state of `add_own_slice` just before it tries to reconstruct the block -/
def ownInsert (b : BlockData) (c : Commitment) (sz : Nat) (parent : Option (Nat × Nat)) (txs : Option (List Nat)) : BlockData :=
  let b := { b with cache := upd b.cache c.slice (some c) }
  let b := if c.isLast then markLastSlice b c.slice else b
  let arr : ShredArr := fun j => if j < TOTAL_SHREDS then some ⟨c.slice, c.isLast, c.root, j, sz, true⟩ else none
  { b with shreds := upd b.shreds c.slice (some arr),
           slices := upd b.slices c.slice (some ⟨c.slice, c.isLast, c.root, parent, txs⟩) }

theorem addOwnSlice_fst (b : BlockData) (c : Commitment) (sz : Nat) (parent : Option (Nat × Nat)) (txs : Option (List Nat))
    (hl : b.lastSlice = none) :
    (addOwnSlice b c sz parent txs).1 = (tryReconstructBlock (ownInsert b c sz parent txs)).1 := by
  unfold addOwnSlice ownInsert
  simp only
  rw [if_neg (by simp [hl])]
  generalize tryReconstructBlock _ = res
  obtain ⟨b', r⟩ := res
  cases r <;> rfl

/-- `add_own_slice` keeps the invariant whenever its own `assert!(self.last_slice.is_none())` holds and
    the first slice carries a parent (what the block producer always does) -/
theorem addOwnSlice_binv (b : BlockData) (c : Commitment) (sz : Nat) (parent : Option (Nat × Nat)) (txs : Option (List Nat))
    (h : BInv b) (hl : b.lastSlice = none) (hp : c.slice = 0 → parent.isSome) :
    BInv (addOwnSlice b c sz parent txs).1 ∧ (addOwnSlice b c sz parent txs).1.slot = b.slot ∧
      (addOwnSlice b c sz parent txs).1.cap = b.cap := by
  have hnotree : b.tree = none := by
    cases ht : b.tree with
    | none => rfl
    | some roots => obtain ⟨l, h1, _⟩ := h.tre roots ht; rw [hl] at h1; simp at h1
  have hnocomp : b.completed = none := by
    cases hc : b.completed with
    | none => rfl
    | some blk => obtain ⟨roots, h1, _⟩ := h.cmp blk hc; rw [hnotree] at h1; simp at h1
  -- the state after inserting the slice
  have key : ∀ (il : Bool) (_ : il = c.isLast) (sh : Nat → Option ShredArr) (sl : Nat → Option RSlice) (ls : Option Nat),
      (∀ i, i ≠ c.slice → (sh i = b.shreds i ∨ sh i = none) ∧ (sl i = b.slices i ∨ sl i = none)) →
      (∀ i r, i ≠ c.slice → sl i = some r → sh i = b.shreds i) →
      (∀ l i, ls = some l → l < i → i ≠ c.slice → sh i = none ∧ sl i = none) →
      (∀ l, ls = some l → l = c.slice) →
      BInv { b with
        cache := upd b.cache c.slice (some c), lastSlice := ls,
        shreds := upd sh c.slice (some (fun j => if j < TOTAL_SHREDS then some ⟨c.slice, il, c.root, j, sz, true⟩ else none)),
        slices := upd sl c.slice (some ⟨c.slice, il, c.root, parent, txs⟩) } := by
    intro il hile sh sl ls hsub hkeep hlast hls
    subst hile
    constructor
    · intro i arr j s h1 h2
      simp only [upd] at h1 ⊢
      split at h1
      · rename_i hi; subst hi
        simp only [Option.some.injEq] at h1; subst h1
        simp only at h2
        split at h2
        · simp only [Option.some.injEq] at h2; subst h2
          simp [Shred.commitment]
        · simp at h2
      · rename_i hi
        rcases (hsub i hi).1 with h3 | h3
        · rw [h3] at h1
          rw [if_neg hi]
          exact h.shr i arr j s h1 h2
        · rw [h3] at h1; simp at h1
    · intro i r h1
      simp only [upd] at h1 ⊢
      split at h1
      · rename_i hi; subst hi
        simp only [Option.some.injEq] at h1; subst h1
        refine ⟨rfl, hp, ⟨c, by simp, rfl⟩,
          ⟨fun j => if j < TOTAL_SHREDS then some ⟨c.slice, c.isLast, c.root, j, sz, true⟩ else none, by simp, ?_⟩⟩
        intro j hj; simp [hj]
      · rename_i hi
        have hsh := hkeep i r hi h1
        rcases (hsub i hi).2 with h3 | h3
        · rw [h3] at h1
          obtain ⟨a, b', ⟨c', hc', hr⟩, arr, harr, hf⟩ := h.slc i r h1
          exact ⟨a, b', ⟨c', by rw [if_neg hi]; exact hc', hr⟩, ⟨arr, by rw [if_neg hi, hsh]; exact harr, hf⟩⟩
        · rw [h3] at h1; simp at h1
    · intro l i h1 h2
      simp only at h1
      have hlc := hls l h1
      have hi : i ≠ c.slice := by omega
      simp only [upd]
      rw [if_neg hi, if_neg hi]
      exact hlast l i h1 h2 hi
    · intro roots h1
      simp only at h1; rw [hnotree] at h1; simp at h1
    · intro blk h1
      simp only at h1; rw [hnocomp] at h1; simp at h1
  rw [addOwnSlice_fst b c sz parent txs hl]
  have hB : BInv (ownInsert b c sz parent txs) := by
    unfold ownInsert
    by_cases hil : c.isLast = true
    · simp only [hil, if_true, markLastSlice]
      exact key true hil.symm (retainLe b.shreds c.slice) (retainLe b.slices c.slice) (some c.slice)
        (by
          intro i _
          simp only [retainLe]
          constructor <;> (split <;> simp))
        (by
          intro i r _ h1
          simp only [retainLe] at h1 ⊢
          split at h1
          · rename_i hi; rw [if_pos hi]
          · simp at h1)
        (by
          intro l i h1 h2 _
          simp only [Option.some.injEq] at h1; subst h1
          simp only [retainLe]
          rw [if_neg (by omega), if_neg (by omega)]
          exact ⟨rfl, rfl⟩)
        (by intro l h1; simp only [Option.some.injEq] at h1; exact h1.symm)
    · simp only [hil, Bool.false_eq_true, if_false]
      have hil' : false = c.isLast := by cases h : c.isLast <;> simp_all
      have := key false hil' b.shreds b.slices none (fun i _ => ⟨Or.inl rfl, Or.inl rfl⟩) (fun _ _ _ _ => rfl)
        (fun l i h1 => by simp at h1) (fun l h1 => by simp at h1)
      rw [← hl] at this
      exact this
  have hsc := tryReconstructBlock_slot_cap (ownInsert b c sz parent txs)
  have hb0 : (ownInsert b c sz parent txs).slot = b.slot ∧ (ownInsert b c sz parent txs).cap = b.cap := by
    unfold ownInsert
    by_cases hil : c.isLast = true
    · simp [hil, markLastSlice]
    · simp [hil]
  exact ⟨(tryReconstructBlock_binv _ hB).1, hsc.1.trans hb0.1, hsc.2.trans hb0.2⟩

end AgModel.Blockstore
