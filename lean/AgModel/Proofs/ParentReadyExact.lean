import AgModel.Proofs.ParentReady
/-!
Exactness of the parent-ready tracker (`ready_iff`), panic-freedom of `add_to_ready` and exact announcements:
helper lemmas (core Lean only).

Part 1: exact pointwise descriptions of `addToReady` / `addAllToReady` / `fwd` / `collect`.
Part 2: the ghost history `Hist`, the invariant `Inv` relating a tracker state to the history, and its
preservation by every operation (`nf_step`, `skip_step`, `prune_step`, `wait_step`).
-/
namespace AgModel.ParentReady

/-! ### window arithmetic -/

theorem W_pos : 0 < W := by decide

theorem windowFirst_le (s : Nat) : windowFirst s ≤ s := Nat.div_mul_le_self s W

theorem isWindowStart_windowFirst (s : Nat) : isWindowStart (windowFirst s) = true := by
  simp [isWindowStart, windowFirst]

/-- a slot strictly inside the window of `s` is not a window start -/
theorem not_ws_of_between {s r : Nat} (h1 : windowFirst s < r) (h2 : r ≤ s) : isWindowStart r = false := by
  simp only [isWindowStart, windowFirst, W, AgModel.Gen.SLOTS_PER_WINDOW] at *
  simp only [beq_eq_false_iff_ne, ne_eq]
  omega

/-! ### `add_to_ready`, exactly -/

/-- the effect of adding the (new, distinct) `ids` to a slot's ready list: they are appended; a registered waiter is
    deregistered by the first of them -/
def addSt (st : PState) (ids : List (Nat × Nat)) : PState :=
  { st with ready := st.ready ++ ids, waiter := st.waiter && (ids.isEmpty || !st.ready.isEmpty) }

theorem addSt_nil (st : PState) : addSt st [] = st := by
  cases st; simp [addSt]

theorem addSt_cons (st : PState) (id : Nat × Nat) (rest : List (Nat × Nat)) :
    addSt (addSt st [id]) rest = addSt st (id :: rest) := by
  cases st; simp [addSt]

@[simp] theorem addSt_skip (st : PState) (ids : List (Nat × Nat)) : (addSt st ids).skip = st.skip := rfl
@[simp] theorem addSt_nfs (st : PState) (ids : List (Nat × Nat)) : (addSt st ids).nfs = st.nfs := rfl
@[simp] theorem addSt_ready (st : PState) (ids : List (Nat × Nat)) : (addSt st ids).ready = st.ready ++ ids := rfl

theorem addSt_waiter (st : PState) (ids : List (Nat × Nat)) :
    (addSt st ids).waiter = true ↔ st.waiter = true ∧ (ids = [] ∨ st.ready ≠ []) := by
  cases ids <;> cases h : st.ready <;> simp [addSt, h]

/-- the wake-ups caused by adding `ids` to slot `s` -/
def wakesOf (st : PState) (s : Nat) (ids : List (Nat × Nat)) : List Wake :=
  if st.ready.isEmpty && st.waiter then (ids.head?.map (fun b => (s, b))).toList else []

theorem mem_wakesOf {st : PState} {s : Nat} {ids : List (Nat × Nat)} {x : Nat} {b : Nat × Nat} :
    (x, b) ∈ wakesOf st s ids ↔ x = s ∧ st.waiter = true ∧ st.ready = [] ∧ ids.head? = some b := by
  unfold wakesOf
  cases ids <;> cases h : st.ready <;> cases hw : st.waiter <;> simp [eq_comm]

/-- `t'` is `t` with the state of slot `s` replaced by `v` -/
structure UpdAt (t t' : Tracker) (s : Nat) (v : PState) : Prop where
  root : t'.root = t.root
  top : t'.top = t.top
  same : get t' s = v
  other : ∀ x, x ≠ s → get t' x = get t x

theorem updAt_put (t : Tracker) (s : Nat) (v : PState) : UpdAt t (put t s v) s v :=
  ⟨rfl, rfl, get_put_same _ _ _, fun _ h => get_put_other _ _ h⟩

theorem addToReady_eq {t : Tracker} {s : Nat} {id : Nat × Nat} (h : id ∉ (get t s).ready) :
    addToReady t s id = some (put t s (addSt (get t s) [id]), wakesOf (get t s) s [id]) := by
  unfold addToReady
  simp only
  cases hr : (get t s).ready with
  | nil =>
    simp only [List.isEmpty_nil, if_true, addSt, wakesOf, hr, List.nil_append, Bool.true_and]
    cases hw : (get t s).waiter <;> simp
  | cons a l =>
    have hm : id ∉ a :: l := hr ▸ h
    simp only [List.mem_cons, not_or] at hm
    simp [addSt, wakesOf, hr, hm]

theorem addAllToReady_eq {t : Tracker} {s : Nat} {ids : List (Nat × Nat)}
    (hnd : ids.Nodup) (hdis : ∀ id ∈ ids, id ∉ (get t s).ready) :
    ∃ t', addAllToReady t s ids = some (t', wakesOf (get t s) s ids) ∧
      t'.root = t.root ∧ t'.top = t.top ∧ get t' s = addSt (get t s) ids ∧ ∀ x, x ≠ s → get t' x = get t x := by
  induction ids generalizing t with
  | nil =>
    refine ⟨t, ?_, rfl, rfl, (addSt_nil _).symm, fun _ _ => rfl⟩
    simp [addAllToReady, wakesOf]
  | cons id rest ih =>
    have h1 := addToReady_eq (hdis id (List.mem_cons_self))
    have hnd' := List.nodup_cons.mp hnd
    have hdis' : ∀ id' ∈ rest, id' ∉ (get (put t s (addSt (get t s) [id])) s).ready := by
      intro id' hm
      rw [get_put_same, addSt_ready]
      intro hc
      rcases List.mem_append.mp hc with hc | hc
      · exact hdis id' (List.mem_cons_of_mem _ hm) hc
      · simp only [List.mem_singleton] at hc; subst hc; exact hnd'.1 hm
    obtain ⟨t2, e2, r2, tp2, g2, o2⟩ := ih hnd'.2 hdis'
    refine ⟨t2, ?_, r2, tp2, ?_, ?_⟩
    · simp only [addAllToReady, h1, e2]
      congr 2
      rw [get_put_same]
      cases hr : (get t s).ready <;> cases hw : (get t s).waiter <;> simp [wakesOf, addSt, hr, hw]
    · rw [g2, get_put_same, addSt_cons]
    · intro x hx; rw [o2 x hx, get_put_other _ _ hx]

/-! ### the forward loop, exactly -/

/-- `x` is reached by the forward loop started at `a`: every slot in `[a, x)` is skip-certified -/
def Vis (t : Tracker) (a x : Nat) : Prop := a ≤ x ∧ ∀ u, a ≤ u → u < x → (get t u).skip = true

theorem vis_succ {t : Tracker} {a x : Nat} (h : (get t a).skip = true) : Vis t a x ↔ x = a ∨ Vis t (a + 1) x := by
  constructor
  · rintro ⟨h1, h2⟩
    by_cases e : x = a
    · exact Or.inl e
    · exact Or.inr ⟨by omega, fun u hu hx => h2 u (by omega) hx⟩
  · rintro (e | ⟨h1, h2⟩)
    · subst e; exact ⟨Nat.le_refl _, fun u h1 h2 => by omega⟩
    · refine ⟨by omega, fun u hu hx => ?_⟩
      by_cases e : u = a
      · subst e; exact h
      · exact h2 u (by omega) hx

theorem vis_stop {t : Tracker} {a x : Nat} (h : ¬ (get t a).skip = true) : Vis t a x ↔ x = a := by
  constructor
  · rintro ⟨h1, h2⟩
    by_cases e : x = a
    · exact e
    · exact absurd (h2 a (Nat.le_refl _) (by omega)) h
  · rintro rfl; exact ⟨Nat.le_refl _, fun u h1 h2 => by omega⟩

theorem vis_congr {t t1 : Tracker} {a x : Nat} (h : ∀ u, a ≤ u → (get t1 u).skip = (get t u).skip) :
    Vis t1 a x ↔ Vis t a x := by
  unfold Vis
  constructor
  · rintro ⟨h1, h2⟩; exact ⟨h1, fun u hu hx => by rw [← h u hu]; exact h2 u hu hx⟩
  · rintro ⟨h1, h2⟩; exact ⟨h1, fun u hu hx => by rw [h u hu]; exact h2 u hu hx⟩

theorem nodup_map_inj {α β : Type} {f : α → β} (hf : ∀ a b, f a = f b → a = b) {l : List α} (h : l.Nodup) :
    (l.map f).Nodup := by
  unfold List.Nodup at *
  rw [List.pairwise_map]
  exact h.imp (fun hab e => hab (hf _ _ e))

/-- one iteration of the forward loop (the part before the `break` test) -/
theorem fwd_head {t : Tracker} {slot : Nat} {ids : List (Nat × Nat)}
    (hnd : ids.Nodup) (hdis : ∀ id ∈ ids, id ∉ (get t slot).ready) :
    ∃ t1 w1, (if isWindowStart slot then addAllToReady (touch t slot) slot ids else some (touch t slot, [])) = some (t1, w1) ∧
      t1.root = t.root ∧ t1.top = t.top ∧ (∀ x, x ≠ slot → get t1 x = get t x) ∧
      (isWindowStart slot = true → get t1 slot = addSt (get t slot) ids ∧ w1 = wakesOf (get t slot) slot ids) ∧
      (isWindowStart slot = false → get t1 slot = get t slot ∧ w1 = []) := by
  by_cases hs : isWindowStart slot = true
  · have hdis' : ∀ id ∈ ids, id ∉ (get (touch t slot) slot).ready := by
      intro id hm; rw [get_touch]; exact hdis id hm
    obtain ⟨t1, e1, r1, tp1, g1, o1⟩ := addAllToReady_eq hnd hdis'
    refine ⟨t1, _, by rw [if_pos hs]; exact e1, r1, tp1, ?_, ?_, ?_⟩
    · intro x hx; rw [o1 x hx, get_touch]
    · intro _; rw [g1, get_touch]; exact ⟨rfl, rfl⟩
    · intro h; rw [hs] at h; cases h
  · have hs' : isWindowStart slot = false := by simpa using hs
    refine ⟨touch t slot, [], by rw [hs']; rfl, rfl, rfl, ?_, ?_, ?_⟩
    · intro x _; exact get_touch _ _ _
    · intro h; rw [hs'] at h; cases h
    · intro _; exact ⟨get_touch _ _ _, rfl⟩

/-- **The forward loop, exactly** (fuel adequate: `top` bounds the skip marks, so the loop ends by `break`): the `ids`
    are appended to the ready list of every window start reached through skip-certified slots, nothing else
    changes; the announced pairs are exactly these; a waiter of such a slot without a ready parent is woken
    with the first of the `ids`.  No `assert!` fires when the `ids` are distinct and new for the slots ahead. -/
theorem fwd_exact {f : Nat} {t : Tracker} {slot : Nat} {ids : List (Nat × Nat)}
    (hf1 : 1 ≤ f) (hf : t.top + 2 ≤ f + slot)
    (htop : ∀ u, slot ≤ u → (get t u).skip = true → u ≤ t.top)
    (hnd : ids.Nodup) (hdis : ∀ x, slot ≤ x → ∀ id ∈ ids, id ∉ (get t x).ready) :
    ∃ t' new w, fwd f t slot ids = some (t', new, w) ∧ t'.root = t.root ∧ t'.top = t.top ∧
      (∀ x, isWindowStart x = true → Vis t slot x → get t' x = addSt (get t x) ids) ∧
      (∀ x, ¬ (isWindowStart x = true ∧ Vis t slot x) → get t' x = get t x) ∧
      (∀ x b, (x, b) ∈ new ↔ isWindowStart x = true ∧ Vis t slot x ∧ b ∈ ids) ∧ new.Nodup ∧
      (∀ x b, (x, b) ∈ w ↔ isWindowStart x = true ∧ Vis t slot x ∧
        (get t x).waiter = true ∧ (get t x).ready = [] ∧ ids.head? = some b) := by
  induction f generalizing t slot with
  | zero => omega
  | succ f ih =>
    obtain ⟨t1, w1, e1, r1, tp1, o1, gs1, gn1⟩ := fwd_head hnd (hdis slot (Nat.le_refl _))
    have hskip1 : ∀ u, (get t1 u).skip = (get t u).skip := by
      intro u
      by_cases hu : u = slot
      · subst hu
        cases hs : isWindowStart u
        · rw [(gn1 hs).1]
        · rw [(gs1 hs).1]; rfl
      · rw [o1 u hu]
    simp only [fwd, e1]
    by_cases hsk : (get t slot).skip = true
    · -- the loop continues
      have hsk1 : (get t1 slot).skip = true := by rw [hskip1]; exact hsk
      simp only [hsk1, if_true]
      have hle := htop slot (Nat.le_refl _) hsk
      obtain ⟨t2, new2, w2, e2, r2, tp2, ga2, gb2, hn2, hnd2, hw2⟩ :=
        @ih t1 (slot + 1) (by omega) (by rw [tp1]; omega)
          (fun u hu h => by rw [tp1]; rw [hskip1] at h; exact htop u (by omega) h) 
          (fun x hx id hm => by rw [o1 x (by omega)]; exact hdis x (by omega) id hm)
      have hv : ∀ x, Vis t1 (slot + 1) x ↔ Vis t (slot + 1) x := fun x => vis_congr (fun u _ => hskip1 u)
      simp only [e2]
      refine ⟨t2, _, _, rfl, by rw [r2, r1], by rw [tp2, tp1], ?_, ?_, ?_, ?_, ?_⟩
      · intro x hx hvx
        rcases (vis_succ hsk).mp hvx with e | hv'
        · subst e
          rw [gb2 x (fun hh => by have := hh.2.1; omega)]
          exact (gs1 hx).1
        · rw [ga2 x hx ((hv x).mpr hv'), o1 x (by have := hv'.1; omega)]
      · intro x hx
        have hne : ¬ (isWindowStart x = true ∧ Vis t1 (slot + 1) x) := by
          intro hh; exact hx ⟨hh.1, (vis_succ hsk).mpr (Or.inr ((hv x).mp hh.2))⟩
        rw [gb2 x hne]
        by_cases e : x = slot
        · subst e
          cases hs : isWindowStart x
          · exact (gn1 hs).1
          · exact absurd ⟨hs, (vis_succ hsk).mpr (Or.inl rfl)⟩ hx
        · exact o1 x e
      · intro x b
        rw [List.mem_append, hn2, hv, vis_succ hsk]
        constructor
        · rintro (h | ⟨h1, h2, h3⟩)
          · split at h
            · rename_i hs
              obtain ⟨p, hp, e⟩ := List.mem_map.mp h
              cases e
              exact ⟨hs, Or.inl rfl, hp⟩
            · cases h
          · exact ⟨h1, Or.inr h2, h3⟩
        · rintro ⟨h1, (e | h2), h3⟩
          · subst e; left; rw [if_pos h1]; exact List.mem_map.mpr ⟨b, h3, rfl⟩
          · exact Or.inr ⟨h1, h2, h3⟩
      · rw [List.nodup_append]
        refine ⟨?_, hnd2, ?_⟩
        · split
          · exact nodup_map_inj (fun a b h => by cases h; rfl) hnd 
          · exact List.nodup_nil
        · intro a ha b hb e
          subst e
          have hb' := (hn2 a.1 a.2).mp hb
          have : slot + 1 ≤ a.1 := hb'.2.1.1
          split at ha
          · obtain ⟨p, _, e⟩ := List.mem_map.mp ha
            rw [← e] at this; simp only at this; omega
          · cases ha
      · intro x b
        rw [List.mem_append, hw2, hv, vis_succ hsk]
        constructor
        · rintro (h | ⟨h1, h2, h3, h4, h5⟩)
          · cases hs : isWindowStart slot
            · rw [(gn1 hs).2] at h; cases h
            · rw [(gs1 hs).2] at h
              obtain ⟨e, h3, h4, h5⟩ := mem_wakesOf.mp h
              subst e
              exact ⟨hs, Or.inl rfl, h3, h4, h5⟩
          · have : x ≠ slot := by have := h2.1; omega
            rw [o1 x this] at h3 h4
            exact ⟨h1, Or.inr h2, h3, h4, h5⟩
        · rintro ⟨h1, (e | h2), h3, h4, h5⟩
          · subst e; left; rw [(gs1 h1).2]; exact mem_wakesOf.mpr ⟨rfl, h3, h4, h5⟩
          · have : x ≠ slot := by have := h2.1; omega
            right; rw [o1 x this]; exact ⟨h1, h2, h3, h4, h5⟩
    · -- the loop breaks
      have hsk1 : ¬ (get t1 slot).skip = true := by rw [hskip1]; exact hsk
      simp only [hsk1]
      refine ⟨t1, _, _, rfl, r1, tp1, ?_, ?_, ?_, ?_, ?_⟩
      · intro x hx hvx
        have e := (vis_stop hsk).mp hvx
        subst e
        exact (gs1 hx).1
      · intro x hx
        by_cases e : x = slot
        · subst e
          cases hs : isWindowStart x
          · exact (gn1 hs).1
          · exact absurd ⟨hs, (vis_stop hsk).mpr rfl⟩ hx
        · exact o1 x e
      · intro x b
        rw [vis_stop hsk]
        constructor
        · intro h
          split at h
          · rename_i hs
            obtain ⟨p, hp, e⟩ := List.mem_map.mp h
            cases e
            exact ⟨hs, rfl, hp⟩
          · cases h
        · rintro ⟨h1, e, h3⟩
          subst e; rw [if_pos h1]; exact List.mem_map.mpr ⟨b, h3, rfl⟩
      · split
        · exact nodup_map_inj (fun a b h => by cases h; rfl) hnd
        · exact List.nodup_nil
      · intro x b
        rw [vis_stop hsk]
        constructor
        · intro h
          cases hs : isWindowStart slot
          · rw [(gn1 hs).2] at h; cases h
          · rw [(gs1 hs).2] at h
            obtain ⟨e, h3, h4, h5⟩ := mem_wakesOf.mp h
            subst e
            exact ⟨hs, rfl, h3, h4, h5⟩
        · rintro ⟨h1, e, h3, h4, h5⟩
          subst e; rw [(gs1 h1).2]; exact mem_wakesOf.mpr ⟨rfl, h3, h4, h5⟩

/-! ### the backward collection of `mark_skipped`, exactly -/

/-- the list computed by `collect`, as a function of the per-slot states only -/
def collectL (g : Nat → PState) (marked : Nat) : Nat → Nat → List (Nat × Nat) → List (Nat × Nat)
  | 0, _, acc => acc
  | n + 1, s1, acc =>
    let s := s1 - 1
    let acc1 := if s ≠ marked then acc ++ (g s).nfs.map (fun h => (s, h)) else acc
    if ¬ (g s).skip then acc1 else collectL g marked n s (acc1 ++ (g s).ready)

theorem collect_eq (marked n : Nat) (t : Tracker) (s1 : Nat) (acc : List (Nat × Nat)) :
    (collect marked n t s1 acc).1.root = t.root ∧ (collect marked n t s1 acc).1.top = t.top ∧
    (∀ x, get (collect marked n t s1 acc).1 x = get t x) ∧
    (collect marked n t s1 acc).2 = collectL (get t) marked n s1 acc := by
  induction n generalizing t s1 acc with
  | zero => exact ⟨rfl, rfl, fun _ => rfl, rfl⟩
  | succ n ih =>
    have hg : get (touch t (s1 - 1)) = get t := funext (get_touch t (s1 - 1))
    simp only [collect, collectL, hg]
    split
    · exact ⟨rfl, rfl, fun x => get_touch _ _ _, rfl⟩
    · obtain ⟨h1, h2, h3, h4⟩ := ih (touch t (s1 - 1)) (s1 - 1)
        ((if s1 - 1 ≠ marked then acc ++ List.map (fun h => (s1 - 1, h)) (get t (s1 - 1)).nfs else acc) ++ (get t (s1 - 1)).ready)
      refine ⟨h1, h2, fun x => by rw [h3, get_touch], ?_⟩
      rw [h4, hg]

theorem mem_collectL {g : Nat → PState} {m n s1 : Nat} {acc : List (Nat × Nat)} {p : Nat × Nat} (hn : n ≤ s1) :
    p ∈ collectL g m n s1 acc ↔ p ∈ acc ∨ ∃ u, u < s1 ∧ s1 ≤ u + n ∧ (∀ v, u < v → v < s1 → (g v).skip = true) ∧
      ((u ≠ m ∧ p.1 = u ∧ p.2 ∈ (g u).nfs) ∨ ((g u).skip = true ∧ p ∈ (g u).ready)) := by
  induction n generalizing s1 acc with
  | zero =>
    simp only [collectL]
    constructor
    · exact Or.inl
    · rintro (h | ⟨u, h1, h2, _⟩)
      · exact h
      · omega
  | succ n ih =>
    obtain ⟨s, rfl⟩ : ∃ s, s1 = s + 1 := ⟨s1 - 1, by omega⟩
    simp only [collectL, Nat.add_sub_cancel]
    have hacc1 : p ∈ (if s ≠ m then acc ++ (g s).nfs.map (fun h => (s, h)) else acc) ↔
        p ∈ acc ∨ (s ≠ m ∧ p.1 = s ∧ p.2 ∈ (g s).nfs) := by
      split
      · rename_i hne
        rw [List.mem_append, List.mem_map]
        constructor
        · rintro (h | ⟨h, hh, e⟩)
          · exact Or.inl h
          · subst e; exact Or.inr ⟨hne, rfl, hh⟩
        · rintro (h | ⟨_, e, hh⟩)
          · exact Or.inl h
          · exact Or.inr ⟨p.2, hh, by rw [← e]⟩
      · rename_i he
        constructor
        · exact Or.inl
        · rintro (h | ⟨hne, _⟩)
          · exact h
          · exact absurd hne he
    by_cases hsk : (g s).skip = true
    · rw [if_neg (by simpa using hsk), ih (by omega), List.mem_append, hacc1]
      constructor
      · rintro (((h | h) | h) | ⟨u, h1, h2, h3, h4⟩)
        · exact Or.inl h
        · exact Or.inr ⟨s, by omega, by omega, fun v _ _ => by omega, Or.inl h⟩
        · exact Or.inr ⟨s, by omega, by omega, fun v _ _ => by omega, Or.inr ⟨hsk, h⟩⟩
        · refine Or.inr ⟨u, by omega, by omega, fun v hv1 hv2 => ?_, h4⟩
          by_cases e : v = s
          · subst e; exact hsk
          · exact h3 v hv1 (by omega)
      · rintro (h | ⟨u, h1, h2, h3, h4⟩)
        · exact Or.inl (Or.inl (Or.inl h))
        · by_cases e : u = s
          · subst e
            rcases h4 with h4 | h4
            · exact Or.inl (Or.inl (Or.inr h4))
            · exact Or.inl (Or.inr h4.2)
          · exact Or.inr ⟨u, by omega, by omega, fun v a b => h3 v a (by omega), h4⟩
    · rw [if_pos hsk, hacc1]
      constructor
      · rintro (h | h)
        · exact Or.inl h
        · exact Or.inr ⟨s, by omega, by omega, fun v _ _ => by omega, Or.inl h⟩
      · rintro (h | ⟨u, h1, h2, h3, h4⟩)
        · exact Or.inl h
        · by_cases e : u = s
          · subst e
            rcases h4 with h4 | h4
            · exact Or.inr h4
            · exact absurd h4.1 hsk
          · exact absurd (h3 s (by omega) (by omega)) hsk

theorem nodup_collectL {g : Nat → PState} {m n s1 : Nat} {acc : List (Nat × Nat)} (hn : n ≤ s1)
    (hacc : acc.Nodup) (hlow : ∀ p ∈ acc, s1 ≤ p.1)
    (hnfs : ∀ u, (g u).nfs.Nodup) (hr : ∀ u, (g u).ready.Nodup)
    (hrl : ∀ u p, u < s1 → p ∈ (g u).ready → p.1 < u)
    (hin : ∀ u, s1 < u + n → u < s1 → (g u).ready = []) :
    (collectL g m n s1 acc).Nodup := by
  induction n generalizing s1 acc with
  | zero => exact hacc
  | succ n ih =>
    obtain ⟨s, rfl⟩ : ∃ s, s1 = s + 1 := ⟨s1 - 1, by omega⟩
    simp only [collectL, Nat.add_sub_cancel]
    have hacc1 : (if s ≠ m then acc ++ (g s).nfs.map (fun h => (s, h)) else acc).Nodup ∧
        ∀ p ∈ (if s ≠ m then acc ++ (g s).nfs.map (fun h => (s, h)) else acc), s ≤ p.1 := by
      split
      · refine ⟨?_, ?_⟩
        · rw [List.nodup_append]
          refine ⟨hacc, nodup_map_inj (fun a b h => by cases h; rfl) (hnfs s), ?_⟩
          intro a ha b hb e
          subst e
          have := hlow a ha
          obtain ⟨_, _, e⟩ := List.mem_map.mp hb
          rw [← e] at this; simp only at this; omega
        · intro p hp
          rcases List.mem_append.mp hp with hp | hp
          · have := hlow p hp; omega
          · obtain ⟨_, _, e⟩ := List.mem_map.mp hp
            rw [← e]; exact Nat.le_refl _
      · exact ⟨hacc, fun p hp => by have := hlow p hp; omega⟩
    split
    · exact hacc1.1
    · cases n with
      | zero =>
        simp only [collectL]
        rw [List.nodup_append]
        refine ⟨hacc1.1, hr s, ?_⟩
        intro a ha b hb e
        subst e
        have h1 := hacc1.2 a ha
        have h2 := hrl s a (by omega) hb
        omega
      | succ n =>
        have he : (g s).ready = [] := hin s (by omega) (by omega)
        rw [he, List.append_nil]
        exact ih (by omega) hacc1.1 hacc1.2 (fun u p hu => hrl u p (by omega))
          (fun u h1 h2 => hin u (by omega) (by omega))

/-! ### ghost history, invariant -/

/-- Ghost history of a run: the current root, the notar-fallback marks and the skip marks the tracker *accepted*
    (a mark for a slot below the root at the time of the call is ignored by the code and is not recorded),
    the slots used as prune roots (latest first) and whether the prune roots were monotone so far. -/
structure Hist where
  root : Nat := 0
  nf : List (Nat × Nat) := [(0, 0)]
  sk : List Nat := []
  roots : List Nat := []
  mono : Bool := true

def Hist.addNf (h : Hist) (b : Nat × Nat) : Hist := { h with nf := b :: h.nf }
def Hist.addSk (h : Hist) (s : Nat) : Hist := { h with sk := s :: h.sk }
/-- a notar-fallback mark arrives -/
def Hist.nfMark (h : Hist) (b : Nat × Nat) : Hist := if b.1 < h.root then h else h.addNf b
/-- a skip mark arrives -/
def Hist.skMark (h : Hist) (s : Nat) : Hist := if s < h.root then h else h.addSk s
/-- `prune r` -/
def Hist.pruneTo (h : Hist) (r : Nat) : Hist :=
  { h with root := r, roots := r :: h.roots, mono := h.mono && decide (h.root ≤ r) }

/-- the parent-ready condition w.r.t. the history: `b` (in a slot before `s`) is marked notar-fallback (genesis is, from
    the start) and every slot strictly between `b`'s slot and `s` is skip-marked -/
def Connected (h : Hist) (s : Nat) (b : Nat × Nat) : Prop :=
  b.1 < s ∧ b ∈ h.nf ∧ ∀ u, b.1 < u → u < s → u ∈ h.sk

theorem connected_addNf {h : Hist} {b : Nat × Nat} {s : Nat} {p : Nat × Nat} :
    Connected (h.addNf b) s p ↔ Connected h s p ∨ (p = b ∧ b.1 < s ∧ ∀ u, b.1 < u → u < s → u ∈ h.sk) := by
  unfold Connected Hist.addNf
  simp only [List.mem_cons]
  constructor
  · rintro ⟨h1, (e | h2), h3⟩
    · subst e; exact Or.inr ⟨rfl, h1, h3⟩
    · exact Or.inl ⟨h1, h2, h3⟩
  · rintro (⟨h1, h2, h3⟩ | ⟨e, h1, h3⟩)
    · exact ⟨h1, Or.inr h2, h3⟩
    · subst e; exact ⟨h1, Or.inl rfl, h3⟩

theorem connected_addSk {h : Hist} {ms : Nat} {s : Nat} {p : Nat × Nat} :
    Connected (h.addSk ms) s p ↔ Connected h s p ∨
      (p.1 < ms ∧ ms < s ∧ Connected h ms p ∧ ∀ u, ms < u → u < s → u ∈ h.sk) := by
  unfold Connected Hist.addSk
  simp only [List.mem_cons]
  constructor
  · rintro ⟨h1, h2, h3⟩
    by_cases hc : p.1 < ms ∧ ms < s
    · refine Or.inr ⟨hc.1, hc.2, ⟨hc.1, h2, fun u a b => ?_⟩, fun u a b => ?_⟩
      · rcases h3 u a (by omega) with e | h
        · omega
        · exact h
      · rcases h3 u (by omega) b with e | h
        · omega
        · exact h
    · refine Or.inl ⟨h1, h2, fun u a b => ?_⟩
      rcases h3 u a b with e | h
      · omega
      · exact h
  · rintro (⟨h1, h2, h3⟩ | ⟨h1, h2, ⟨_, h4, h5⟩, h6⟩)
    · exact ⟨h1, h2, fun u a b => Or.inr (h3 u a b)⟩
    · refine ⟨by omega, h4, fun u a b => ?_⟩
      by_cases e : u = ms
      · exact Or.inl e
      · by_cases hl : u < ms
        · exact Or.inr (h5 u a hl)
        · exact Or.inr (h6 u (by omega) b)

/-- **The invariant**: at and above the root the tracker's per-slot state is exactly the accepted history, and each
    ready list is exactly the set of connected parents (`ready` *is* `ready_iff`); `top` bounds the skip marks (fuel
    of the forward loops); lists are duplicate-free; a registered waiter means no parent is ready yet. -/
structure Inv (h : Hist) (t : Tracker) : Prop where
  root : t.root = h.root
  skip : ∀ u, h.root ≤ u → ((get t u).skip = true ↔ u ∈ h.sk)
  nfs : ∀ u x, h.root ≤ u → (x ∈ (get t u).nfs ↔ (u, x) ∈ h.nf)
  ready : ∀ s b, h.root ≤ s → (b ∈ (get t s).ready ↔ isWindowStart s = true ∧ Connected h s b)
  top : ∀ u ∈ h.sk, u ≤ t.top
  nfsNodup : ∀ u, (get t u).nfs.Nodup
  readyNodup : ∀ s, (get t s).ready.Nodup
  waiter : ∀ s, (get t s).waiter = true → (get t s).ready = []
  low : ∀ u, u < h.root → (get t u).ready = []

/-- What one (possibly composite) mark operation does to ready lists, announcements and waiters. -/
structure Step (t t' : Tracker) (ann : List (Nat × (Nat × Nat))) (w : List Wake) : Prop where
  root : t'.root = t.root
  /-- ready lists are only appended to -/
  ext : ∀ s, ∃ l, (get t' s).ready = (get t s).ready ++ l
  annNodup : ann.Nodup
  /-- every announced pair is for a slot at or above the root, newly in the ready list -/
  annNew : ∀ s b, (s, b) ∈ ann → t.root ≤ s ∧ b ∈ (get t' s).ready ∧ b ∉ (get t s).ready
  /-- a waiter stays registered exactly while no parent is ready -/
  waiter : ∀ s, (get t' s).waiter = true ↔ (get t s).waiter = true ∧ (get t' s).ready = []
  /-- a waiter is woken exactly by the first parent that becomes ready -/
  wake : ∀ s b, (s, b) ∈ w ↔ (get t s).waiter = true ∧ (get t' s).ready.head? = some b

theorem Step.of_same {t t' : Tracker} (hr : t'.root = t.root) (hg : ∀ x, get t' x = get t x)
    (hwi : ∀ s, (get t s).waiter = true → (get t s).ready = []) : Step t t' [] [] := by
  refine ⟨hr, fun s => ⟨[], by rw [hg]; simp⟩, List.nodup_nil, fun _ _ h => (by cases h), ?_, ?_⟩
  · intro s; rw [hg]
    exact ⟨fun h => ⟨h, hwi s h⟩, fun h => h.1⟩
  · intro s b; rw [hg]
    constructor
    · intro h; cases h
    · rintro ⟨h1, h2⟩; rw [hwi s h1] at h2; cases h2

theorem Step.trans {a b c : Tracker} {l1 l2 : List (Nat × (Nat × Nat))} {w1 w2 : List Wake}
    (h1 : Step a b l1 w1) (h2 : Step b c l2 w2) : Step a c (l1 ++ l2) (w1 ++ w2) := by
  refine ⟨h2.root.trans h1.root, ?_, ?_, ?_, ?_, ?_⟩
  · intro s
    obtain ⟨x, hx⟩ := h1.ext s
    obtain ⟨y, hy⟩ := h2.ext s
    exact ⟨x ++ y, by rw [hy, hx, List.append_assoc]⟩
  · rw [List.nodup_append]
    refine ⟨h1.annNodup, h2.annNodup, ?_⟩
    intro x hx y hy e
    subst e
    obtain ⟨_, m1, _⟩ := h1.annNew x.1 x.2 hx
    obtain ⟨_, _, m2⟩ := h2.annNew x.1 x.2 hy
    exact m2 m1
  · intro s p hp
    obtain ⟨y, hy⟩ := h2.ext s
    obtain ⟨x, hx⟩ := h1.ext s
    rcases List.mem_append.mp hp with hp | hp
    · obtain ⟨r, m1, m2⟩ := h1.annNew s p hp
      exact ⟨r, by rw [hy]; exact List.mem_append_left _ m1, m2⟩
    · obtain ⟨r, m1, m2⟩ := h2.annNew s p hp
      exact ⟨by rw [← h1.root]; exact r, m1, fun hh => m2 (by rw [hx]; exact List.mem_append_left _ hh)⟩
  · intro s
    obtain ⟨y, hy⟩ := h2.ext s
    rw [h2.waiter, h1.waiter]
    constructor
    · rintro ⟨⟨h, _⟩, h'⟩; exact ⟨h, h'⟩
    · rintro ⟨h, h'⟩
      refine ⟨⟨h, ?_⟩, h'⟩
      rw [hy] at h'
      exact (List.append_eq_nil_iff.mp h').1
  · intro s p
    obtain ⟨y, hy⟩ := h2.ext s
    rw [List.mem_append, h1.wake, h2.wake, h1.waiter]
    constructor
    · rintro (⟨h, hh⟩ | ⟨⟨h, _⟩, hh⟩)
      · refine ⟨h, ?_⟩
        rw [hy]
        cases hb : (get b s).ready with
        | nil => rw [hb] at hh; cases hh
        | cons z zs => rw [hb] at hh; exact hh
      · exact ⟨h, hh⟩
    · rintro ⟨h, hh⟩
      cases hb : (get b s).ready with
      | nil => exact Or.inr ⟨⟨h, rfl⟩, hh⟩
      | cons z zs =>
        left
        refine ⟨h, ?_⟩
        rw [hy, hb] at hh
        exact hh

/-- a step that appends the new, distinct `ids` to the ready lists of the slots in `P` -/
theorem step_of_append {t t' : Tracker} {ids : List (Nat × Nat)} {P : Nat → Prop}
    {new : List (Nat × (Nat × Nat))} {w : List Wake}
    (hroot : t'.root = t.root)
    (hA : ∀ x, P x → (get t' x).ready = (get t x).ready ++ ids ∧
      ((get t' x).waiter = true ↔ (get t x).waiter = true ∧ (ids = [] ∨ (get t x).ready ≠ [])))
    (hB : ∀ x, ¬ P x → (get t' x).ready = (get t x).ready ∧ (get t' x).waiter = (get t x).waiter)
    (hnew : ∀ x b, (x, b) ∈ new ↔ P x ∧ b ∈ ids) (hnd : new.Nodup)
    (hw : ∀ x b, (x, b) ∈ w ↔ P x ∧ (get t x).waiter = true ∧ (get t x).ready = [] ∧ ids.head? = some b)
    (hdis : ∀ x, P x → ∀ id ∈ ids, id ∉ (get t x).ready)
    (hPr : ∀ x, P x → t.root ≤ x)
    (hwi : ∀ s, (get t s).waiter = true → (get t s).ready = []) :
    Step t t' new w ∧ ∀ s p, p ∈ (get t' s).ready → p ∉ (get t s).ready → (s, p) ∈ new := by
  refine ⟨⟨hroot, ?_, hnd, ?_, ?_, ?_⟩, ?_⟩
  · intro s
    by_cases hp : P s
    · exact ⟨ids, (hA s hp).1⟩
    · exact ⟨[], by rw [(hB s hp).1]; simp⟩
  · intro s b hm
    obtain ⟨hp, hb⟩ := (hnew s b).mp hm
    exact ⟨hPr s hp, by rw [(hA s hp).1]; exact List.mem_append_right _ hb, hdis s hp b hb⟩
  · intro s
    by_cases hp : P s
    · rw [(hA s hp).2, (hA s hp).1]
      constructor
      · rintro ⟨h1, h2⟩
        have := hwi s h1
        rcases h2 with h2 | h2
        · exact ⟨h1, by rw [this, h2]; rfl⟩
        · exact absurd this h2
      · rintro ⟨h1, h2⟩
        exact ⟨h1, Or.inl (List.append_eq_nil_iff.mp h2).2⟩
    · rw [(hB s hp).2, (hB s hp).1]
      exact ⟨fun h => ⟨h, hwi s h⟩, fun h => h.1⟩
  · intro s b
    rw [hw]
    by_cases hp : P s
    · rw [(hA s hp).1]
      constructor
      · rintro ⟨_, h1, h2, h3⟩
        exact ⟨h1, by rw [h2]; exact h3⟩
      · rintro ⟨h1, h2⟩
        rw [hwi s h1] at h2
        exact ⟨hp, h1, hwi s h1, h2⟩
    · rw [(hB s hp).1]
      constructor
      · rintro ⟨h, _⟩; exact absurd h hp
      · rintro ⟨h1, h2⟩
        rw [hwi s h1] at h2; cases h2
  · intro s p h1 h2
    by_cases hp : P s
    · rw [(hA s hp).1] at h1
      rcases List.mem_append.mp h1 with h | h
      · exact absurd h h2
      · exact (hnew s p).mpr ⟨hp, h⟩
    · rw [(hB s hp).1] at h1; exact absurd h1 h2

/-! ### preservation of the invariant -/

theorem nodup_single {α : Type} (a : α) : [a].Nodup := List.nodup_cons.mpr ⟨by simp, List.nodup_nil⟩

theorem vis_iff_hist {h : Hist} {t : Tracker} (inv : Inv h t) {a : Nat} (ha : h.root ≤ a) (x : Nat) :
    Vis t a x ↔ a ≤ x ∧ ∀ u, a ≤ u → u < x → u ∈ h.sk := by
  unfold Vis
  constructor
  · rintro ⟨h1, h2⟩; exact ⟨h1, fun u hu hx => (inv.skip u (by omega)).mp (h2 u hu hx)⟩
  · rintro ⟨h1, h2⟩; exact ⟨h1, fun u hu hx => (inv.skip u (by omega)).mpr (h2 u hu hx)⟩

theorem Inv.of_same {h h' : Hist} {t t' : Tracker} (inv : Inv h t) (hr : t'.root = t.root) (htop : t.top ≤ t'.top)
    (hg : ∀ x, get t' x = get t x) (hroot : h'.root = h.root) (hnf : ∀ x, x ∈ h'.nf ↔ x ∈ h.nf)
    (hsk : ∀ x, x ∈ h'.sk ↔ x ∈ h.sk) : Inv h' t' := by
  have hc : ∀ s b, Connected h' s b ↔ Connected h s b := by
    intro s b; unfold Connected; rw [hnf]
    constructor
    · rintro ⟨a, b, c⟩; exact ⟨a, b, fun u x y => (hsk u).mp (c u x y)⟩
    · rintro ⟨a, b, c⟩; exact ⟨a, b, fun u x y => (hsk u).mpr (c u x y)⟩
  refine ⟨by rw [hr, hroot, inv.root], ?_, ?_, ?_, ?_, ?_, ?_, ?_, ?_⟩
  · intro u hu; rw [hg, hsk]; exact inv.skip u (by omega)
  · intro u x hu; rw [hg, hnf]; exact inv.nfs u x (by omega)
  · intro s b hs; rw [hg, hc]; exact inv.ready s b (by omega)
  · intro u hu; exact Nat.le_trans (inv.top u ((hsk u).mp hu)) htop
  · intro u; rw [hg]; exact inv.nfsNodup u
  · intro u; rw [hg]; exact inv.readyNodup u
  · intro u; rw [hg]; exact inv.waiter u
  · intro u hu; rw [hg]; exact inv.low u (by omega)

/-- **`mark_notar_fallback` preserves the invariant**, never panics, announces exactly the newly ready pairs. -/
theorem nf_step {h : Hist} {t : Tracker} (inv : Inv h t) (b : Nat × Nat) :
    ∃ t' ann w, markNotarFallback t b = some (t', ann, w) ∧ Inv (h.nfMark b) t' ∧ Step t t' ann w ∧
      (∀ s p, p ∈ (get t' s).ready → p ∉ (get t s).ready → (s, p) ∈ ann) := by
  unfold markNotarFallback Hist.nfMark
  rw [inv.root]
  by_cases hlt : b.1 < h.root
  · rw [if_pos hlt, if_pos hlt]
    exact ⟨t, [], [], rfl, inv, Step.of_same rfl (fun _ => rfl) inv.waiter, fun s p h1 h2 => absurd h1 h2⟩
  · rw [if_neg hlt, if_neg hlt]
    simp only
    by_cases hc : (get t b.1).nfs.contains b.2 = true
    · rw [if_pos hc]
      have hb : b ∈ h.nf := (inv.nfs b.1 b.2 (by omega)).mp (List.contains_iff_mem.mp hc)
      refine ⟨_, _, _, rfl, ?_, Step.of_same rfl (get_touch t b.1) inv.waiter, ?_⟩
      · refine inv.of_same rfl (Nat.le_refl _) (get_touch t b.1) rfl ?_ (fun _ => Iff.rfl)
        intro x
        simp only [Hist.addNf, List.mem_cons]
        exact ⟨fun hh => hh.elim (fun e => e ▸ hb) id, Or.inr⟩
      · intro s p h1 h2; rw [get_touch] at h1; exact absurd h1 h2
    · rw [if_neg hc]
      have hnew : b.2 ∉ (get t b.1).nfs := fun hm => hc (List.contains_iff_mem.mpr hm)
      have hbn : b ∉ h.nf := fun hm => hnew ((inv.nfs b.1 b.2 (by omega)).mpr hm)
      generalize ht1 : put t b.1 { get t b.1 with nfs := (get t b.1).nfs ++ [b.2] } = t1
      have g1s : get t1 b.1 = { get t b.1 with nfs := (get t b.1).nfs ++ [b.2] } := by
        rw [← ht1, get_put_same]
      have g1o : ∀ x, x ≠ b.1 → get t1 x = get t x := fun x hx => by rw [← ht1, get_put_other _ _ hx]
      have r1 : t1.root = t.root := by rw [← ht1]; rfl
      have tp1 : t1.top = t.top := by rw [← ht1]; rfl
      have hsk1 : ∀ u, (get t1 u).skip = (get t u).skip := by
        intro u; by_cases e : u = b.1
        · subst e; rw [g1s]
        · rw [g1o u e]
      have hrd1 : ∀ u, (get t1 u).ready = (get t u).ready := by
        intro u; by_cases e : u = b.1
        · subst e; rw [g1s]
        · rw [g1o u e]
      have hwt1 : ∀ u, (get t1 u).waiter = (get t u).waiter := by
        intro u; by_cases e : u = b.1
        · subst e; rw [g1s]
        · rw [g1o u e]
      have hdis : ∀ x, b.1 + 1 ≤ x → ∀ id ∈ [b], id ∉ (get t1 x).ready := by
        intro x hx id hid hm
        simp only [List.mem_singleton] at hid
        subst hid
        rw [hrd1] at hm
        exact hbn ((inv.ready x id (by omega)).mp hm).2.2.1
      obtain ⟨t', new, w, e, r, tp, ga, gb, hn, hnd, hw⟩ :=
        @fwd_exact (t1.top + 1 - b.1 + 1) t1 (b.1 + 1) [b] (by omega) (by omega)
          (fun u hu hs => by
            rw [hsk1] at hs; rw [tp1]
            exact inv.top u ((inv.skip u (by omega)).mp hs))
          (nodup_single b) hdis
      have hvis : ∀ x, Vis t1 (b.1 + 1) x ↔ b.1 < x ∧ ∀ u, b.1 < u → u < x → u ∈ h.sk := by
        intro x
        rw [vis_congr (fun u _ => hsk1 u), vis_iff_hist inv (by omega)]
        exact ⟨fun ⟨a, c⟩ => ⟨a, fun u x y => c u x y⟩, fun ⟨a, c⟩ => ⟨a, fun u x y => c u x y⟩⟩
      have hA : ∀ x, (isWindowStart x = true ∧ Vis t1 (b.1 + 1) x) →
          (get t' x).ready = (get t x).ready ++ [b] ∧
          ((get t' x).waiter = true ↔ (get t x).waiter = true ∧ ([b] = [] ∨ (get t x).ready ≠ [])) := by
        intro x hp
        rw [ga x hp.1 hp.2, addSt_ready, addSt_waiter, hrd1, hwt1]
        exact ⟨rfl, Iff.rfl⟩
      have hB : ∀ x, ¬ (isWindowStart x = true ∧ Vis t1 (b.1 + 1) x) →
          (get t' x).ready = (get t x).ready ∧ (get t' x).waiter = (get t x).waiter := by
        intro x hp
        rw [gb x hp, hrd1, hwt1]
        exact ⟨rfl, rfl⟩
      have hst := @step_of_append t t' [b] (fun x => isWindowStart x = true ∧ Vis t1 (b.1 + 1) x) new w
        (by rw [r, r1]) hA hB (fun x p => by rw [hn]; exact ⟨fun ⟨a, c, d⟩ => ⟨⟨a, c⟩, d⟩, fun ⟨⟨a, c⟩, d⟩ => ⟨a, c, d⟩⟩) hnd
        (fun x p => by
          rw [hw, hrd1, hwt1]
          exact ⟨fun ⟨a, c, d⟩ => ⟨⟨a, c⟩, d⟩, fun ⟨⟨a, c⟩, d⟩ => ⟨a, c, d⟩⟩)
        (fun x hp id hid => by rw [← hrd1]; exact hdis x hp.2.1 id hid)
        (fun x hp => by rw [inv.root]; have := hp.2.1; omega) inv.waiter
      have hskip' : ∀ u, (get t' u).skip = (get t u).skip := by
        intro u
        by_cases hp : isWindowStart u = true ∧ Vis t1 (b.1 + 1) u
        · rw [ga u hp.1 hp.2, addSt_skip, hsk1]
        · rw [gb u hp, hsk1]
      have hnfs' : ∀ u, (get t' u).nfs = (get t1 u).nfs := by
        intro u
        by_cases hp : isWindowStart u = true ∧ Vis t1 (b.1 + 1) u
        · rw [ga u hp.1 hp.2, addSt_nfs]
        · rw [gb u hp]
      refine ⟨t', new, w, e, ?_, hst.1, hst.2⟩
      refine ⟨by rw [r, r1]; exact inv.root, ?_, ?_, ?_, ?_, ?_, ?_, ?_, ?_⟩
      · intro u hu; rw [hskip']; exact inv.skip u hu
      · intro u x hu
        rw [hnfs']
        show _ ↔ (u, x) ∈ b :: h.nf
        by_cases e : u = b.1
        · subst e
          rw [g1s]
          show x ∈ (get t b.1).nfs ++ [b.2] ↔ _
          rw [List.mem_append, List.mem_singleton, List.mem_cons, inv.nfs b.1 x hu]
          constructor
          · rintro (hh | hh)
            · exact Or.inr hh
            · subst hh; exact Or.inl rfl
          · rintro (hh | hh)
            · exact Or.inr (congrArg Prod.snd hh)
            · exact Or.inl hh
        · rw [g1o u e, inv.nfs u x hu, List.mem_cons]
          constructor
          · exact Or.inr
          · rintro (hh | hh)
            · exact absurd (by rw [← hh]) e
            · exact hh
      · intro s p hs
        rw [connected_addNf]
        have hs' : h.root ≤ s := hs
        by_cases hp : isWindowStart s = true ∧ Vis t1 (b.1 + 1) s
        · rw [(hA s hp).1, List.mem_append, List.mem_singleton, inv.ready s p hs']
          constructor
          · rintro (⟨a, c⟩ | e)
            · exact ⟨a, Or.inl c⟩
            · exact ⟨hp.1, Or.inr ⟨e, ((hvis s).mp hp.2).1, ((hvis s).mp hp.2).2⟩⟩
          · rintro ⟨a, (c | ⟨e, _⟩)⟩
            · exact Or.inl ⟨a, c⟩
            · exact Or.inr e
        · rw [(hB s hp).1, inv.ready s p hs']
          constructor
          · rintro ⟨a, c⟩; exact ⟨a, Or.inl c⟩
          · rintro ⟨a, (c | ⟨_, c, d⟩)⟩
            · exact ⟨a, c⟩
            · exact absurd ⟨a, (hvis s).mpr ⟨c, d⟩⟩ hp
      · intro u hu; rw [tp, tp1]; exact inv.top u hu
      · intro u
        rw [hnfs']
        by_cases e : u = b.1
        · subst e
          rw [g1s]
          show ((get t b.1).nfs ++ [b.2]).Nodup
          rw [List.nodup_append]
          refine ⟨inv.nfsNodup _, nodup_single _, ?_⟩
          intro x hx y hy e
          simp only [List.mem_singleton] at hy
          subst hy; subst e; exact hnew hx
        · rw [g1o u e]; exact inv.nfsNodup u
      · intro s
        by_cases hp : isWindowStart s = true ∧ Vis t1 (b.1 + 1) s
        · rw [(hA s hp).1, List.nodup_append]
          refine ⟨inv.readyNodup s, nodup_single _, ?_⟩
          intro x hx y hy e
          subst e
          rw [← hrd1] at hx
          exact hdis s hp.2.1 x hy hx
        · rw [(hB s hp).1]; exact inv.readyNodup s
      · intro s hs; exact ((hst.1.waiter s).mp hs).2
      · intro u hu
        have hu' : u < h.root := hu
        have hp : ¬ (isWindowStart u = true ∧ Vis t1 (b.1 + 1) u) := by
          intro hp; have := hp.2.1; omega
        rw [(hB u hp).1]; exact inv.low u hu'

/-- the tracker after `mark_skip()` on slot `ms` (ghost `top` raised) -/
def skipT1 (t : Tracker) (ms : Nat) : Tracker := { put t ms { get t ms with skip := true } with top := max t.top ms }

theorem markSkipped_unfold (t : Tracker) (ms : Nat) :
    markSkipped t ms = if ms < t.root then some (t, [], []) else
      if (get t ms).skip = true then some (touch t ms, [], []) else
        let c := collect ms (ms + 1 - max (windowFirst ms) t.root) (skipT1 t ms) (ms + 1) []
        fwd (c.1.top + 1 - ms + 1) c.1 (ms + 1) c.2 := rfl

/-- The premise on pruning, as seen by one step: the current root is a window start or is not skip-marked. -/
def RootOK (h : Hist) : Prop := isWindowStart h.root = true ∨ h.root ∉ h.sk

/-- the potential parents collected by `mark_skipped` are exactly the parents connected to the marked slot -/
theorem potential_exact {h : Hist} {t : Tracker} (inv : Inv h t) {ms : Nat} (hge : h.root ≤ ms)
    (hns : ¬ (get t ms).skip = true) (hok : RootOK (h.addSk ms)) (p : Nat × Nat) :
    p ∈ collectL (get (skipT1 t ms)) ms (ms + 1 - max (windowFirst ms) h.root) (ms + 1) [] ↔ Connected h ms p := by
  have g1s : get (skipT1 t ms) ms = { get t ms with skip := true } := get_put_same _ _ _
  have g1o : ∀ x, x ≠ ms → get (skipT1 t ms) x = get t x := fun x hx => get_put_other _ _ hx
  have hrd1 : ∀ u, (get (skipT1 t ms) u).ready = (get t u).ready := by
    intro u; by_cases e : u = ms
    · subst e; rw [g1s]
    · rw [g1o u e]
  have hwf := windowFirst_le ms
  have hsk1 : ∀ v, h.root ≤ v → v ≤ ms → ((get (skipT1 t ms) v).skip = true ↔ v = ms ∨ v ∈ h.sk) := by
    intro v hv _
    by_cases e : v = ms
    · subst e; rw [g1s]; simp
    · rw [g1o v e, inv.skip v hv]; simp [e]
  have hmsn : ms ∉ h.sk := fun hm => hns ((inv.skip ms hge).mpr hm)
  rw [mem_collectL (by omega)]
  simp only [List.not_mem_nil, false_or]
  constructor
  · rintro ⟨u, hu1, hu2, hch, hcase⟩
    have hul : h.root ≤ u := by omega
    have hchain : ∀ v, u < v → v < ms → v ∈ h.sk := by
      intro v a c
      rcases (hsk1 v (by omega) (by omega)).mp (hch v a (by omega)) with e | hh
      · omega
      · exact hh
    rcases hcase with ⟨hne, hp1, hp2⟩ | ⟨hs, hp⟩
    · rw [g1o u hne, inv.nfs u p.2 hul] at hp2
      refine ⟨by omega, ?_, fun v a c => hchain v (by omega) c⟩
      rw [← hp1] at hp2; exact hp2
    · rw [hrd1, inv.ready u p hul] at hp
      obtain ⟨_, c1, c2, c3⟩ := hp
      by_cases e : u = ms
      · subst e; exact ⟨c1, c2, c3⟩
      · refine ⟨by omega, c2, fun v a c => ?_⟩
        by_cases hv : v < u
        · exact c3 v a hv
        · by_cases ev : v = u
          · subst ev
            rcases (hsk1 v hul (by omega)).mp hs with e' | hh
            · exact absurd e' e
            · exact hh
          · exact hchain v (by omega) c
  · rintro ⟨c1, c2, c3⟩
    have hchain : ∀ u, p.1 < u → h.root ≤ u → ∀ v, u < v → v < ms + 1 → (get (skipT1 t ms) v).skip = true := by
      intro u hu hur v a c
      by_cases e : v = ms
      · exact (hsk1 v (by omega) (by omega)).mpr (Or.inl e)
      · exact (hsk1 v (by omega) (by omega)).mpr (Or.inr (c3 v (by omega) (by omega)))
    by_cases hlo : max (windowFirst ms) h.root ≤ p.1
    · refine ⟨p.1, by omega, by omega, ?_, Or.inl ⟨by omega, rfl, ?_⟩⟩
      · intro v a c
        by_cases e : v = ms
        · exact (hsk1 v (by omega) (by omega)).mpr (Or.inl e)
        · exact (hsk1 v (by omega) (by omega)).mpr (Or.inr (c3 v a (by omega)))
      · rw [g1o p.1 (by omega), inv.nfs p.1 p.2 (by omega)]; exact c2
    · by_cases hrw : h.root ≤ windowFirst ms
      · -- the walk reaches the first slot of the window, whose ready list holds `p`
        refine ⟨windowFirst ms, by omega, by omega, hchain (windowFirst ms) (by omega) hrw, Or.inr ⟨?_, ?_⟩⟩
        · by_cases e : windowFirst ms = ms
          · exact (hsk1 _ hrw hwf).mpr (Or.inl e)
          · exact (hsk1 _ hrw hwf).mpr (Or.inr (c3 _ (by omega) (by omega)))
        · rw [hrd1, inv.ready _ p hrw]
          exact ⟨isWindowStart_windowFirst ms, by omega, c2, fun v a c => c3 v a (by omega)⟩
      · -- the walk would be cut at the root: impossible, the root is not skip-marked
        exfalso
        have hnws : isWindowStart h.root = false := not_ws_of_between (by omega) hge
        rcases hok with hw | hr
        · rw [show (h.addSk ms).root = h.root from rfl, hnws] at hw; cases hw
        · apply hr
          show h.root ∈ ms :: h.sk
          by_cases e : h.root = ms
          · rw [e]; exact List.mem_cons_self
          · exact List.mem_cons_of_mem _ (c3 h.root (by omega) (by omega))

/-- **`mark_skipped` preserves the invariant**, never panics, announces exactly the newly ready pairs — provided the
    root is a window start or not skip-marked (also not by this very mark). -/
theorem skip_step {h : Hist} {t : Tracker} (inv : Inv h t) (ms : Nat) (hok : RootOK (h.skMark ms)) :
    ∃ t' ann w, markSkipped t ms = some (t', ann, w) ∧ Inv (h.skMark ms) t' ∧ Step t t' ann w ∧
      (∀ s p, p ∈ (get t' s).ready → p ∉ (get t s).ready → (s, p) ∈ ann) := by
  rw [markSkipped_unfold]
  unfold Hist.skMark at hok ⊢
  by_cases hlt : ms < h.root
  · rw [if_pos (by rw [inv.root]; exact hlt), if_pos hlt]
    exact ⟨t, [], [], rfl, inv, Step.of_same rfl (fun _ => rfl) inv.waiter, fun s p h1 h2 => absurd h1 h2⟩
  · rw [if_neg (by rw [inv.root]; exact hlt), if_neg hlt]
    rw [if_neg hlt] at hok
    by_cases hc : (get t ms).skip = true
    · rw [if_pos hc]
      have hb : ms ∈ h.sk := (inv.skip ms (by omega)).mp hc
      refine ⟨_, _, _, rfl, ?_, Step.of_same rfl (get_touch t ms) inv.waiter, ?_⟩
      · refine inv.of_same rfl (Nat.le_refl _) (get_touch t ms) rfl (fun _ => Iff.rfl) ?_
        intro x
        simp only [Hist.addSk, List.mem_cons]
        exact ⟨fun hh => hh.elim (fun e => e ▸ hb) id, Or.inr⟩
      · intro s p h1 h2; rw [get_touch] at h1; exact absurd h1 h2
    · rw [if_neg hc]
      simp only
      have hge : h.root ≤ ms := by omega
      have hmsn : ms ∉ h.sk := fun hm => hc ((inv.skip ms hge).mpr hm)
      have g1s : get (skipT1 t ms) ms = { get t ms with skip := true } := get_put_same _ _ _
      have g1o : ∀ x, x ≠ ms → get (skipT1 t ms) x = get t x := fun x hx => get_put_other _ _ hx
      have hrd1 : ∀ u, (get (skipT1 t ms) u).ready = (get t u).ready := by
        intro u; by_cases e : u = ms
        · subst e; rw [g1s]
        · rw [g1o u e]
      have hwt1 : ∀ u, (get (skipT1 t ms) u).waiter = (get t u).waiter := by
        intro u; by_cases e : u = ms
        · subst e; rw [g1s]
        · rw [g1o u e]
      have hnf1 : ∀ u, (get (skipT1 t ms) u).nfs = (get t u).nfs := by
        intro u; by_cases e : u = ms
        · subst e; rw [g1s]
        · rw [g1o u e]
      obtain ⟨cr, ctp, cg, cl⟩ := collect_eq ms (ms + 1 - max (windowFirst ms) t.root) (skipT1 t ms) (ms + 1) []
      generalize collect ms (ms + 1 - max (windowFirst ms) t.root) (skipT1 t ms) (ms + 1) [] = c at cr ctp cg cl ⊢
      obtain ⟨t2, pot⟩ := c
      simp only at cr ctp cg cl ⊢
      have r2 : t2.root = t.root := cr
      have tp2 : t2.top = max t.top ms := ctp
      rw [inv.root] at cl
      have hpot : ∀ p, p ∈ pot ↔ Connected h ms p := by
        intro p; rw [cl]; exact potential_exact inv hge hc hok p
      have hwf := windowFirst_le ms
      have hpnd : pot.Nodup := by
        rw [cl]
        refine nodup_collectL (by omega) List.nodup_nil (fun _ hp => by cases hp)
          (fun u => by rw [hnf1]; exact inv.nfsNodup u) (fun u => by rw [hrd1]; exact inv.readyNodup u) ?_ ?_
        · intro u p _ hp
          rw [hrd1] at hp
          by_cases hu : h.root ≤ u
          · exact ((inv.ready u p hu).mp hp).2.1
          · rw [inv.low u (by omega)] at hp; cases hp
        · intro u hu1 hu2
          rw [hrd1]
          have hnws : isWindowStart u = false := @not_ws_of_between ms u (by omega) (by omega)
          apply List.eq_nil_iff_forall_not_mem.mpr
          intro p hp
          have := ((inv.ready u p (by omega)).mp hp).1
          rw [hnws] at this; cases this
      have hdis : ∀ x, ms + 1 ≤ x → ∀ id ∈ pot, id ∉ (get t2 x).ready := by
        intro x hx id hid hm
        rw [cg, hrd1] at hm
        have c1 := (hpot id).mp hid
        have c2 := ((inv.ready x id (by omega)).mp hm).2
        exact hmsn (c2.2.2 ms c1.1 (by omega))
      have hsk2 : ∀ u, ms + 1 ≤ u → (get t2 u).skip = (get t u).skip := by
        intro u hu; rw [cg, g1o u (by omega)]
      obtain ⟨t', new, w, e, r, tp, ga, gb, hn, hnd, hw⟩ :=
        @fwd_exact (t2.top + 1 - ms + 1) t2 (ms + 1) pot (by omega) (by omega)
          (fun u hu hs => by
            rw [hsk2 u hu] at hs; rw [tp2]
            have := inv.top u ((inv.skip u (by omega)).mp hs)
            omega)
          hpnd hdis
      have hvis : ∀ x, Vis t2 (ms + 1) x ↔ ms < x ∧ ∀ u, ms < u → u < x → u ∈ h.sk := by
        intro x
        rw [vis_congr hsk2, vis_iff_hist inv (by omega)]
        exact ⟨fun ⟨a, c⟩ => ⟨a, fun u x y => c u x y⟩, fun ⟨a, c⟩ => ⟨a, fun u x y => c u x y⟩⟩
      have hA : ∀ x, (isWindowStart x = true ∧ Vis t2 (ms + 1) x) →
          (get t' x).ready = (get t x).ready ++ pot ∧
          ((get t' x).waiter = true ↔ (get t x).waiter = true ∧ (pot = [] ∨ (get t x).ready ≠ [])) := by
        intro x hp
        rw [ga x hp.1 hp.2, addSt_ready, addSt_waiter, cg, hrd1, hwt1]
        exact ⟨rfl, Iff.rfl⟩
      have hB : ∀ x, ¬ (isWindowStart x = true ∧ Vis t2 (ms + 1) x) →
          (get t' x).ready = (get t x).ready ∧ (get t' x).waiter = (get t x).waiter := by
        intro x hp
        rw [gb x hp, cg, hrd1, hwt1]
        exact ⟨rfl, rfl⟩
      have hst := @step_of_append t t' pot (fun x => isWindowStart x = true ∧ Vis t2 (ms + 1) x) new w
        (by rw [r, r2]) hA hB (fun x p => by rw [hn]; exact ⟨fun ⟨a, c, d⟩ => ⟨⟨a, c⟩, d⟩, fun ⟨⟨a, c⟩, d⟩ => ⟨a, c, d⟩⟩) hnd
        (fun x p => by
          rw [hw, cg, hrd1, hwt1]
          exact ⟨fun ⟨a, c, d⟩ => ⟨⟨a, c⟩, d⟩, fun ⟨⟨a, c⟩, d⟩ => ⟨a, c, d⟩⟩)
        (fun x hp id hid => by
          have := hdis x hp.2.1 id hid
          rw [cg, hrd1] at this; exact this)
        (fun x hp => by rw [inv.root]; have := hp.2.1; omega) inv.waiter
      have hskip' : ∀ u, (get t' u).skip = (get (skipT1 t ms) u).skip := by
        intro u
        by_cases hp : isWindowStart u = true ∧ Vis t2 (ms + 1) u
        · rw [ga u hp.1 hp.2, addSt_skip, cg]
        · rw [gb u hp, cg]
      have hnfs' : ∀ u, (get t' u).nfs = (get t u).nfs := by
        intro u
        by_cases hp : isWindowStart u = true ∧ Vis t2 (ms + 1) u
        · rw [ga u hp.1 hp.2, addSt_nfs, cg, hnf1]
        · rw [gb u hp, cg, hnf1]
      refine ⟨t', new, w, e, ?_, hst.1, hst.2⟩
      refine ⟨by rw [r, r2]; exact inv.root, ?_, ?_, ?_, ?_, ?_, ?_, ?_, ?_⟩
      · intro u hu
        have hu' : h.root ≤ u := hu
        rw [hskip']
        show _ ↔ u ∈ ms :: h.sk
        rw [List.mem_cons]
        by_cases e : u = ms
        · subst e; rw [g1s]; simp
        · rw [g1o u e, inv.skip u hu']; simp [e]
      · intro u x hu; rw [hnfs']; exact inv.nfs u x hu
      · intro s p hs
        rw [connected_addSk]
        have hs' : h.root ≤ s := hs
        by_cases hp : isWindowStart s = true ∧ Vis t2 (ms + 1) s
        · rw [(hA s hp).1, List.mem_append, inv.ready s p hs', hpot]
          constructor
          · rintro (⟨a, c⟩ | c)
            · exact ⟨a, Or.inl c⟩
            · exact ⟨hp.1, Or.inr ⟨c.1, ((hvis s).mp hp.2).1, c, ((hvis s).mp hp.2).2⟩⟩
          · rintro ⟨a, (c | ⟨_, _, c, _⟩)⟩
            · exact Or.inl ⟨a, c⟩
            · exact Or.inr c
        · rw [(hB s hp).1, inv.ready s p hs']
          constructor
          · rintro ⟨a, c⟩; exact ⟨a, Or.inl c⟩
          · rintro ⟨a, (c | ⟨_, c, _, d⟩)⟩
            · exact ⟨a, c⟩
            · exact absurd ⟨a, (hvis s).mpr ⟨c, d⟩⟩ hp
      · intro u hu
        rw [tp, tp2]
        rcases List.mem_cons.mp hu with e | hh
        · omega
        · have := inv.top u hh; omega
      · intro u; rw [hnfs']; exact inv.nfsNodup u
      · intro s
        by_cases hp : isWindowStart s = true ∧ Vis t2 (ms + 1) s
        · rw [(hA s hp).1, List.nodup_append]
          refine ⟨inv.readyNodup s, hpnd, ?_⟩
          intro x hx y hy e
          subst e
          have := hdis s hp.2.1 x hy
          rw [cg, hrd1] at this
          exact this hx
        · rw [(hB s hp).1]; exact inv.readyNodup s
      · intro s hs; exact ((hst.1.waiter s).mp hs).2
      · intro u hu
        have hu' : u < h.root := hu
        have hp : ¬ (isWindowStart u = true ∧ Vis t2 (ms + 1) u) := by
          intro hp; have := hp.2.1; omega
        rw [(hB u hp).1]; exact inv.low u hu'

/-! ### batches of marks (`handle_finalization`) -/

theorem Step.sub {t t' : Tracker} {ann ann' : List (Nat × (Nat × Nat))} {w : List Wake} (h : Step t t' ann w)
    (hnd : ann'.Nodup) (hsub : ∀ a ∈ ann', a ∈ ann) : Step t t' ann' w :=
  ⟨h.root, h.ext, hnd, fun s b hm => h.annNew s b (hsub _ hm), h.waiter, h.wake⟩

theorem foldl_nfMark_root (bs : List (Nat × Nat)) (h : Hist) : (bs.foldl Hist.nfMark h).root = h.root := by
  induction bs generalizing h with
  | nil => rfl
  | cons b bs ih =>
    rw [List.foldl_cons, ih]
    unfold Hist.nfMark; split <;> rfl

theorem foldl_nfMark_sk (bs : List (Nat × Nat)) (h : Hist) : (bs.foldl Hist.nfMark h).sk = h.sk := by
  induction bs generalizing h with
  | nil => rfl
  | cons b bs ih =>
    rw [List.foldl_cons, ih]
    unfold Hist.nfMark; split <;> rfl

theorem skMark_root (h : Hist) (s : Nat) : (h.skMark s).root = h.root := by
  unfold Hist.skMark; split <;> rfl

theorem skMark_sk_mono (h : Hist) (s : Nat) {x : Nat} (hx : x ∈ h.sk) : x ∈ (h.skMark s).sk := by
  unfold Hist.skMark; split
  · exact hx
  · exact List.mem_cons_of_mem _ hx

theorem foldl_skMark_root (ss : List Nat) (h : Hist) : (ss.foldl Hist.skMark h).root = h.root := by
  induction ss generalizing h with
  | nil => rfl
  | cons b bs ih => rw [List.foldl_cons, ih, skMark_root]

theorem foldl_skMark_sk_mono (ss : List Nat) (h : Hist) {x : Nat} (hx : x ∈ h.sk) : x ∈ (ss.foldl Hist.skMark h).sk := by
  induction ss generalizing h with
  | nil => exact hx
  | cons b bs ih => rw [List.foldl_cons]; exact ih _ (skMark_sk_mono h b hx)

theorem RootOK.of_later {h h' : Hist} (hr : h'.root = h.root) (hsk : ∀ x, x ∈ h.sk → x ∈ h'.sk) (hok : RootOK h') :
    RootOK h := by
  unfold RootOK at *
  rw [hr] at hok
  rcases hok with a | a
  · exact Or.inl a
  · exact Or.inr (fun hm => a (hsk _ hm))

theorem markAllNf_step {h : Hist} {t : Tracker} (inv : Inv h t) (bs : List (Nat × Nat)) :
    ∃ t' ann w, markAllNf t bs = some (t', ann, w) ∧ Inv (bs.foldl Hist.nfMark h) t' ∧ Step t t' ann w := by
  induction bs generalizing h t with
  | nil => exact ⟨t, [], [], rfl, inv, Step.of_same rfl (fun _ => rfl) inv.waiter⟩
  | cons b bs ih =>
    obtain ⟨t1, n1, w1, e1, inv1, s1, _⟩ := nf_step inv b
    obtain ⟨t2, n2, w2, e2, inv2, s2⟩ := ih inv1
    exact ⟨t2, n1 ++ n2, w1 ++ w2, by simp only [markAllNf, e1, e2], inv2, s1.trans s2⟩

theorem markAllSkipped_step {h : Hist} {t : Tracker} (inv : Inv h t) (ss : List Nat)
    (hok : RootOK (ss.foldl Hist.skMark h)) :
    ∃ t' ann w, markAllSkipped t ss = some (t', ann, w) ∧ Inv (ss.foldl Hist.skMark h) t' ∧ Step t t' ann w := by
  induction ss generalizing h t with
  | nil => exact ⟨t, [], [], rfl, inv, Step.of_same rfl (fun _ => rfl) inv.waiter⟩
  | cons b bs ih =>
    rw [List.foldl_cons] at hok
    have hok1 : RootOK (h.skMark b) :=
      hok.of_later (foldl_skMark_root bs _) (fun x hx => foldl_skMark_sk_mono bs _ hx)
    obtain ⟨t1, n1, w1, e1, inv1, s1, _⟩ := skip_step inv b hok1
    obtain ⟨t2, n2, w2, e2, inv2, s2⟩ := ih inv1 hok
    exact ⟨t2, n1 ++ n2, w1 ++ w2, by simp only [markAllSkipped, e1, e2], inv2, s1.trans s2⟩

/-- the history after a finalization event -/
def Hist.finMark (h : Hist) (ev : Finality.Event) : Hist :=
  ev.implSkipped.foldl Hist.skMark ((ev.finalized.toList ++ ev.implFinalized).foldl Hist.nfMark h)

theorem fin_step {h : Hist} {t : Tracker} (inv : Inv h t) (ev : Finality.Event) (hok : RootOK (h.finMark ev)) :
    ∃ t' ann w, handleFinalization t ev = some (t', ann, w) ∧ Inv (h.finMark ev) t' ∧ Step t t' ann w := by
  obtain ⟨t1, n1, w1, e1, inv1, s1⟩ := markAllNf_step inv (ev.finalized.toList ++ ev.implFinalized)
  obtain ⟨t2, n2, w2, e2, inv2, s2⟩ := markAllSkipped_step inv1 ev.implSkipped hok
  refine ⟨t2, (lastMax (n1 ++ n2)).toList, w1 ++ w2, by simp only [handleFinalization, e1, e2], inv2, ?_⟩
  refine (s1.trans s2).sub ?_ ?_
  · cases lastMax (n1 ++ n2) <;> simp
  · intro a ha
    cases hl : lastMax (n1 ++ n2) with
    | none => rw [hl] at ha; cases ha
    | some x =>
      rw [hl] at ha
      simp only [Option.toList_some, List.mem_singleton] at ha
      subst ha
      exact lastMax_mem hl

/-! ### `prune`, `wait_for_parent_ready` -/

theorem get_prune (t : Tracker) (r u : Nat) : get (prune t r) u = if u < r then {} else get t u := by
  unfold get prune
  simp only
  split <;> rfl

theorem prune_step {h : Hist} {t : Tracker} (inv : Inv h t) {r : Nat} (hr : h.root ≤ r) :
    Inv (h.pruneTo r) (prune t r) := by
  have hg : ∀ u, r ≤ u → get (prune t r) u = get t u := by
    intro u hu; rw [get_prune, if_neg (by omega)]
  have hl : ∀ u, u < r → get (prune t r) u = {} := by
    intro u hu; rw [get_prune, if_pos hu]
  refine ⟨rfl, ?_, ?_, ?_, inv.top, ?_, ?_, ?_, ?_⟩
  · intro u hu
    have hu' : r ≤ u := hu
    rw [hg u hu']; exact inv.skip u (by omega)
  · intro u x hu
    have hu' : r ≤ u := hu
    rw [hg u hu']; exact inv.nfs u x (by omega)
  · intro s b hs
    have hs' : r ≤ s := hs
    rw [hg s hs']; exact inv.ready s b (by omega)
  · intro u
    by_cases hu : u < r
    · rw [hl u hu]; exact List.nodup_nil
    · rw [hg u (by omega)]; exact inv.nfsNodup u
  · intro u
    by_cases hu : u < r
    · rw [hl u hu]; exact List.nodup_nil
    · rw [hg u (by omega)]; exact inv.readyNodup u
  · intro u
    by_cases hu : u < r
    · rw [hl u hu]; intro hh; cases hh
    · rw [hg u (by omega)]; exact inv.waiter u
  · intro u hu
    have hu' : u < r := hu
    rw [hl u hu']

theorem nodup_insertSorted {x : Nat × Nat} {l : List (Nat × Nat)} (hx : x ∉ l) (hl : l.Nodup) :
    (insertSorted x l).Nodup := by
  induction l with
  | nil => exact nodup_single x
  | cons y ys ih =>
    simp only [insertSorted]
    split
    · exact List.nodup_cons.mpr ⟨hx, hl⟩
    · have hl' := List.nodup_cons.mp hl
      refine List.nodup_cons.mpr ⟨?_, ih (fun hm => hx (List.mem_cons_of_mem _ hm)) hl'.2⟩
      rw [mem_insertSorted]
      rintro (e | hm)
      · exact hx (e ▸ List.mem_cons_self)
      · exact hl'.1 hm

theorem nodup_sortBlocks {l : List (Nat × Nat)} (hl : l.Nodup) : (sortBlocks l).Nodup := by
  unfold sortBlocks
  induction l with
  | nil => exact List.nodup_nil
  | cons y ys ih =>
    have hl' := List.nodup_cons.mp hl
    rw [List.foldr_cons]
    exact nodup_insertSorted (fun hm => hl'.1 (mem_sortBlocks.mp hm)) (ih hl'.2)

/-- `wait_for_parent_ready`: the ready lists keep their members (the list of the slot is sorted in place), the invariant
    is kept; the only panic is a second waiter for the same slot. -/
theorem wait_step {h : Hist} {t : Tracker} (inv : Inv h t) (s : Nat) :
    match waitForParentReady t s with
    | .ready t' b => Inv h t' ∧ t'.root = t.root ∧ (∀ x p, p ∈ (get t' x).ready ↔ p ∈ (get t x).ready) ∧
        (∀ x, (get t' x).waiter = (get t x).waiter) ∧ b ∈ (get t s).ready
    | .waiting t' => Inv h t' ∧ t'.root = t.root ∧ (∀ x, (get t' x).ready = (get t x).ready) ∧
        (∀ x, (get t' x).waiter = true ↔ x = s ∨ (get t x).waiter = true) ∧ (get t s).ready = []
    | .panic => (get t s).waiter = true ∧ (get t s).ready = [] := by
  unfold waitForParentReady
  simp only
  cases hs : sortBlocks (get t s).ready with
  | cons b rest =>
    simp only
    have hmem : ∀ p, p ∈ b :: rest ↔ p ∈ (get t s).ready := fun p => by rw [← hs]; exact mem_sortBlocks
    have hne : (get t s).ready ≠ [] := by
      intro e; rw [e] at hs; cases hs
    have hrd : ∀ x p, p ∈ (get (put t s { get t s with ready := b :: rest }) x).ready ↔ p ∈ (get t x).ready := by
      intro x p
      by_cases e : x = s
      · subst e; rw [get_put_same]; exact hmem p
      · rw [get_put_other _ _ e]
    have hwt : ∀ x, (get (put t s { get t s with ready := b :: rest }) x).waiter = (get t x).waiter := by
      intro x
      by_cases e : x = s
      · subst e; rw [get_put_same]
      · rw [get_put_other _ _ e]
    refine ⟨⟨inv.root, ?_, ?_, ?_, inv.top, ?_, ?_, ?_, ?_⟩, rfl, hrd, hwt, (hmem b).mp List.mem_cons_self⟩
    · intro u hu
      by_cases e : u = s
      · subst e; rw [get_put_same]; exact inv.skip u hu
      · rw [get_put_other _ _ e]; exact inv.skip u hu
    · intro u x hu
      by_cases e : u = s
      · subst e; rw [get_put_same]; exact inv.nfs u x hu
      · rw [get_put_other _ _ e]; exact inv.nfs u x hu
    · intro x p hx; rw [hrd]; exact inv.ready x p hx
    · intro u
      by_cases e : u = s
      · subst e; rw [get_put_same]; exact inv.nfsNodup u
      · rw [get_put_other _ _ e]; exact inv.nfsNodup u
    · intro u
      by_cases e : u = s
      · subst e; rw [get_put_same]
        show (b :: rest).Nodup
        rw [← hs]; exact nodup_sortBlocks (inv.readyNodup u)
      · rw [get_put_other _ _ e]; exact inv.readyNodup u
    · intro u hu
      rw [hwt] at hu
      by_cases e : u = s
      · subst e; exact absurd (inv.waiter u hu) hne
      · rw [get_put_other _ _ e]; exact inv.waiter u hu
    · intro u hu
      by_cases e : u = s
      · subst e; exact absurd (inv.low u hu) hne
      · rw [get_put_other _ _ e]; exact inv.low u hu
  | nil =>
    simp only
    have hnil : (get t s).ready = [] := by
      apply List.eq_nil_iff_forall_not_mem.mpr
      intro p hp
      have := mem_sortBlocks.mpr hp
      rw [hs] at this; cases this
    by_cases hw : (get t s).waiter = true
    · rw [if_pos hw]; exact ⟨hw, hnil⟩
    · rw [if_neg hw]
      have hrd : ∀ x, (get (put t s { get t s with waiter := true }) x).ready = (get t x).ready := by
        intro x
        by_cases e : x = s
        · subst e; rw [get_put_same]
        · rw [get_put_other _ _ e]
      refine ⟨⟨inv.root, ?_, ?_, ?_, inv.top, ?_, ?_, ?_, ?_⟩, rfl, hrd, ?_, hnil⟩
      · intro u hu
        by_cases e : u = s
        · subst e; rw [get_put_same]; exact inv.skip u hu
        · rw [get_put_other _ _ e]; exact inv.skip u hu
      · intro u x hu
        by_cases e : u = s
        · subst e; rw [get_put_same]; exact inv.nfs u x hu
        · rw [get_put_other _ _ e]; exact inv.nfs u x hu
      · intro x p hx; rw [hrd]; exact inv.ready x p hx
      · intro u
        by_cases e : u = s
        · subst e; rw [get_put_same]; exact inv.nfsNodup u
        · rw [get_put_other _ _ e]; exact inv.nfsNodup u
      · intro u; rw [hrd]; exact inv.readyNodup u
      · intro u hu
        rw [hrd]
        by_cases e : u = s
        · subst e; exact hnil
        · rw [get_put_other _ _ e] at hu; exact inv.waiter u hu
      · intro u hu; rw [hrd]; exact inv.low u hu
      · intro x
        by_cases e : x = s
        · subst e; rw [get_put_same]; simp
        · rw [get_put_other _ _ e]; simp [e]

theorem inv_init : Inv {} init := by
  have hg : ∀ u, get init u = if u = 0 then { nfs := [0] } else {} := by
    intro u; unfold get init; simp only; split <;> rfl
  refine ⟨rfl, ?_, ?_, ?_, ?_, ?_, ?_, ?_, ?_⟩
  · intro u _; rw [hg]; split <;> simp
  · intro u x _; rw [hg]
    split
    · rename_i e; subst e; simp
    · rename_i e; simp [e]
  · intro s b _; rw [hg]
    have : (if s = 0 then ({ nfs := [0] } : PState) else {}).ready = [] := by split <;> rfl
    rw [this]
    simp only [List.not_mem_nil, false_iff, not_and]
    intro _ hc
    unfold Connected at hc
    obtain ⟨h1, h2, h3⟩ := hc
    simp only [List.mem_singleton] at h2
    subst h2
    by_cases e : s = 1
    · subst e; revert ‹isWindowStart 1 = true›; decide
    · exact absurd (h3 1 (by simp) (by simp at h1; omega)) (by simp)
  · intro u hu; cases hu
  · intro u; rw [hg]; split <;> simp
  · intro u; rw [hg]; split <;> simp
  · intro u; rw [hg]; split <;> simp
  · intro u hu; exact absurd hu (Nat.not_lt_zero u)

end AgModel.ParentReady
