import AgModel.Proofs.ParentReady
/-!
Exactness of the parent-ready tracker (`ready_iff`), panic-freedom of `add_to_ready` and exact announcements:
helper lemmas (core Lean only).

Part 1: exact pointwise descriptions of `addToReady` / `addAllToReady` / `fwd` / `collect`.
Part 2: the ghost history `Hist`, the invariant `Inv` relating a tracker state to the history, and its
preservation by every operation (`nf_step`, `skip_step`, `prune_step`, `wait_step`).
-/
namespace AgModel.ParentReady

/-! ### window arithmetic -/

theorem W_pos : 0 < W := by decide

theorem windowFirst_le (s : Nat) : windowFirst s ≤ s := Nat.div_mul_le_self s W

theorem isWindowStart_windowFirst (s : Nat) : isWindowStart (windowFirst s) = true := by
  simp [isWindowStart, windowFirst]

/-- a slot strictly inside the window of `s` is not a window start -/
theorem not_ws_of_between {s r : Nat} (h1 : windowFirst s < r) (h2 : r ≤ s) : isWindowStart r = false := by
  simp only [isWindowStart, windowFirst, W, AgModel.Gen.SLOTS_PER_WINDOW] at *
  simp only [beq_eq_false_iff_ne, ne_eq]
  omega

/-! ### `add_to_ready`, exactly -/

/-- the effect of adding the (new, distinct) `ids` to a slot's ready list: they are appended; a registered waiter is
    deregistered by the first of them -/
def addSt (st : PState) (ids : List (Nat × Nat)) : PState :=
  { st with ready := st.ready ++ ids, waiter := st.waiter && (ids.isEmpty || !st.ready.isEmpty) }

theorem addSt_nil (st : PState) : addSt st [] = st := by
  cases st; simp [addSt]

theorem addSt_cons (st : PState) (id : Nat × Nat) (rest : List (Nat × Nat)) :
    addSt (addSt st [id]) rest = addSt st (id :: rest) := by
  cases st; simp [addSt]

@[simp] theorem addSt_skip (st : PState) (ids : List (Nat × Nat)) : (addSt st ids).skip = st.skip := rfl
@[simp] theorem addSt_nfs (st : PState) (ids : List (Nat × Nat)) : (addSt st ids).nfs = st.nfs := rfl
@[simp] theorem addSt_ready (st : PState) (ids : List (Nat × Nat)) : (addSt st ids).ready = st.ready ++ ids := rfl

theorem addSt_waiter (st : PState) (ids : List (Nat × Nat)) :
    (addSt st ids).waiter = true ↔ st.waiter = true ∧ (ids = [] ∨ st.ready ≠ []) := by
  cases ids <;> cases h : st.ready <;> simp [addSt, h]

/-- the wake-ups caused by adding `ids` to slot `s` -/
def wakesOf (st : PState) (s : Nat) (ids : List (Nat × Nat)) : List Wake :=
  if st.ready.isEmpty && st.waiter then (ids.head?.map (fun b => (s, b))).toList else []

theorem mem_wakesOf {st : PState} {s : Nat} {ids : List (Nat × Nat)} {x : Nat} {b : Nat × Nat} :
    (x, b) ∈ wakesOf st s ids ↔ x = s ∧ st.waiter = true ∧ st.ready = [] ∧ ids.head? = some b := by
  unfold wakesOf
  cases ids <;> cases h : st.ready <;> cases hw : st.waiter <;> simp [eq_comm]

/-- `t'` is `t` with the state of slot `s` replaced by `v` -/
structure UpdAt (t t' : Tracker) (s : Nat) (v : PState) : Prop where
  root : t'.root = t.root
  top : t'.top = t.top
  same : get t' s = v
  other : ∀ x, x ≠ s → get t' x = get t x

theorem updAt_put (t : Tracker) (s : Nat) (v : PState) : UpdAt t (put t s v) s v :=
  ⟨rfl, rfl, get_put_same _ _ _, fun _ h => get_put_other _ _ h⟩

theorem addToReady_eq {t : Tracker} {s : Nat} {id : Nat × Nat} (h : id ∉ (get t s).ready) :
    addToReady t s id = some (put t s (addSt (get t s) [id]), wakesOf (get t s) s [id]) := by
  unfold addToReady
  simp only
  cases hr : (get t s).ready with
  | nil =>
    simp only [List.isEmpty_nil, if_true, addSt, wakesOf, hr, List.nil_append, Bool.true_and]
    cases hw : (get t s).waiter <;> simp
  | cons a l =>
    have hm : id ∉ a :: l := hr ▸ h
    simp only [List.mem_cons, not_or] at hm
    simp [addSt, wakesOf, hr, hm]

theorem addAllToReady_eq {t : Tracker} {s : Nat} {ids : List (Nat × Nat)}
    (hnd : ids.Nodup) (hdis : ∀ id ∈ ids, id ∉ (get t s).ready) :
    ∃ t', addAllToReady t s ids = some (t', wakesOf (get t s) s ids) ∧
      t'.root = t.root ∧ t'.top = t.top ∧ get t' s = addSt (get t s) ids ∧ ∀ x, x ≠ s → get t' x = get t x := by
  induction ids generalizing t with
  | nil =>
    refine ⟨t, ?_, rfl, rfl, (addSt_nil _).symm, fun _ _ => rfl⟩
    simp [addAllToReady, wakesOf]
  | cons id rest ih =>
    have h1 := addToReady_eq (hdis id (List.mem_cons_self))
    have hnd' := List.nodup_cons.mp hnd
    have hdis' : ∀ id' ∈ rest, id' ∉ (get (put t s (addSt (get t s) [id])) s).ready := by
      intro id' hm
      rw [get_put_same, addSt_ready]
      intro hc
      rcases List.mem_append.mp hc with hc | hc
      · exact hdis id' (List.mem_cons_of_mem _ hm) hc
      · simp only [List.mem_singleton] at hc; subst hc; exact hnd'.1 hm
    obtain ⟨t2, e2, r2, tp2, g2, o2⟩ := ih hnd'.2 hdis'
    refine ⟨t2, ?_, r2, tp2, ?_, ?_⟩
    · simp only [addAllToReady, h1, e2]
      congr 2
      rw [get_put_same]
      cases hr : (get t s).ready <;> cases hw : (get t s).waiter <;> simp [wakesOf, addSt, hr, hw]
    · rw [g2, get_put_same, addSt_cons]
    · intro x hx; rw [o2 x hx, get_put_other _ _ hx]

/-! ### the forward loop, exactly -/

/-- `x` is reached by the forward loop started at `a`: every slot in `[a, x)` is skip-certified -/
def Vis (t : Tracker) (a x : Nat) : Prop := a ≤ x ∧ ∀ u, a ≤ u → u < x → (get t u).skip = true

theorem vis_succ {t : Tracker} {a x : Nat} (h : (get t a).skip = true) : Vis t a x ↔ x = a ∨ Vis t (a + 1) x := by
  constructor
  · rintro ⟨h1, h2⟩
    by_cases e : x = a
    · exact Or.inl e
    · exact Or.inr ⟨by omega, fun u hu hx => h2 u (by omega) hx⟩
  · rintro (e | ⟨h1, h2⟩)
    · subst e; exact ⟨Nat.le_refl _, fun u h1 h2 => by omega⟩
    · refine ⟨by omega, fun u hu hx => ?_⟩
      by_cases e : u = a
      · subst e; exact h
      · exact h2 u (by omega) hx

theorem vis_stop {t : Tracker} {a x : Nat} (h : ¬ (get t a).skip = true) : Vis t a x ↔ x = a := by
  constructor
  · rintro ⟨h1, h2⟩
    by_cases e : x = a
    · exact e
    · exact absurd (h2 a (Nat.le_refl _) (by omega)) h
  · rintro rfl; exact ⟨Nat.le_refl _, fun u h1 h2 => by omega⟩

theorem vis_congr {t t1 : Tracker} {a x : Nat} (h : ∀ u, a ≤ u → (get t1 u).skip = (get t u).skip) :
    Vis t1 a x ↔ Vis t a x := by
  unfold Vis
  constructor
  · rintro ⟨h1, h2⟩; exact ⟨h1, fun u hu hx => by rw [← h u hu]; exact h2 u hu hx⟩
  · rintro ⟨h1, h2⟩; exact ⟨h1, fun u hu hx => by rw [h u hu]; exact h2 u hu hx⟩

theorem nodup_map_inj {α β : Type} {f : α → β} (hf : ∀ a b, f a = f b → a = b) {l : List α} (h : l.Nodup) :
    (l.map f).Nodup := by
  unfold List.Nodup at *
  rw [List.pairwise_map]
  exact h.imp (fun hab e => hab (hf _ _ e))

/-- one iteration of the forward loop (the part before the `break` test) -/
theorem fwd_head {t : Tracker} {slot : Nat} {ids : List (Nat × Nat)}
    (hnd : ids.Nodup) (hdis : ∀ id ∈ ids, id ∉ (get t slot).ready) :
    ∃ t1 w1, (if isWindowStart slot then addAllToReady (touch t slot) slot ids else some (touch t slot, [])) = some (t1, w1) ∧
      t1.root = t.root ∧ t1.top = t.top ∧ (∀ x, x ≠ slot → get t1 x = get t x) ∧
      (isWindowStart slot = true → get t1 slot = addSt (get t slot) ids ∧ w1 = wakesOf (get t slot) slot ids) ∧
      (isWindowStart slot = false → get t1 slot = get t slot ∧ w1 = []) := by
  by_cases hs : isWindowStart slot = true
  · have hdis' : ∀ id ∈ ids, id ∉ (get (touch t slot) slot).ready := by
      intro id hm; rw [get_touch]; exact hdis id hm
    obtain ⟨t1, e1, r1, tp1, g1, o1⟩ := addAllToReady_eq hnd hdis'
    refine ⟨t1, _, by rw [if_pos hs]; exact e1, r1, tp1, ?_, ?_, ?_⟩
    · intro x hx; rw [o1 x hx, get_touch]
    · intro _; rw [g1, get_touch]; exact ⟨rfl, rfl⟩
    · intro h; rw [hs] at h; cases h
  · have hs' : isWindowStart slot = false := by simpa using hs
    refine ⟨touch t slot, [], by rw [hs']; rfl, rfl, rfl, ?_, ?_, ?_⟩
    · intro x _; exact get_touch _ _ _
    · intro h; rw [hs'] at h; cases h
    · intro _; exact ⟨get_touch _ _ _, rfl⟩

/-- **The forward loop, exactly** (fuel adequate: `top` bounds the skip marks, so the loop ends by `break`): the `ids`
    are appended to the ready list of every window start reached through skip-certified slots, nothing else
    changes; the announced pairs are exactly these; a waiter of such a slot without a ready parent is woken
    with the first of the `ids`.  No `assert!` fires when the `ids` are distinct and new for the slots ahead. -/
theorem fwd_exact {f : Nat} {t : Tracker} {slot : Nat} {ids : List (Nat × Nat)}
    (hf1 : 1 ≤ f) (hf : t.top + 2 ≤ f + slot)
    (htop : ∀ u, slot ≤ u → (get t u).skip = true → u ≤ t.top)
    (hnd : ids.Nodup) (hdis : ∀ x, slot ≤ x → ∀ id ∈ ids, id ∉ (get t x).ready) :
    ∃ t' new w, fwd f t slot ids = some (t', new, w) ∧ t'.root = t.root ∧ t'.top = t.top ∧
      (∀ x, isWindowStart x = true → Vis t slot x → get t' x = addSt (get t x) ids) ∧
      (∀ x, ¬ (isWindowStart x = true ∧ Vis t slot x) → get t' x = get t x) ∧
      (∀ x b, (x, b) ∈ new ↔ isWindowStart x = true ∧ Vis t slot x ∧ b ∈ ids) ∧ new.Nodup ∧
      (∀ x b, (x, b) ∈ w ↔ isWindowStart x = true ∧ Vis t slot x ∧
        (get t x).waiter = true ∧ (get t x).ready = [] ∧ ids.head? = some b) := by
  induction f generalizing t slot with
  | zero => omega
  | succ f ih =>
    obtain ⟨t1, w1, e1, r1, tp1, o1, gs1, gn1⟩ := fwd_head hnd (hdis slot (Nat.le_refl _))
    have hskip1 : ∀ u, (get t1 u).skip = (get t u).skip := by
      intro u
      by_cases hu : u = slot
      · subst hu
        cases hs : isWindowStart u
        · rw [(gn1 hs).1]
        · rw [(gs1 hs).1]; rfl
      · rw [o1 u hu]
    simp only [fwd, e1]
    by_cases hsk : (get t slot).skip = true
    · -- the loop continues
      have hsk1 : (get t1 slot).skip = true := by rw [hskip1]; exact hsk
      simp only [hsk1, if_true]
      have hle := htop slot (Nat.le_refl _) hsk
      obtain ⟨t2, new2, w2, e2, r2, tp2, ga2, gb2, hn2, hnd2, hw2⟩ :=
        @ih t1 (slot + 1) (by omega) (by rw [tp1]; omega)
          (fun u hu h => by rw [tp1]; rw [hskip1] at h; exact htop u (by omega) h) 
          (fun x hx id hm => by rw [o1 x (by omega)]; exact hdis x (by omega) id hm)
      have hv : ∀ x, Vis t1 (slot + 1) x ↔ Vis t (slot + 1) x := fun x => vis_congr (fun u _ => hskip1 u)
      simp only [e2]
      refine ⟨t2, _, _, rfl, by rw [r2, r1], by rw [tp2, tp1], ?_, ?_, ?_, ?_, ?_⟩
      · intro x hx hvx
        rcases (vis_succ hsk).mp hvx with e | hv'
        · subst e
          rw [gb2 x (fun hh => by have := hh.2.1; omega)]
          exact (gs1 hx).1
        · rw [ga2 x hx ((hv x).mpr hv'), o1 x (by have := hv'.1; omega)]
      · intro x hx
        have hne : ¬ (isWindowStart x = true ∧ Vis t1 (slot + 1) x) := by
          intro hh; exact hx ⟨hh.1, (vis_succ hsk).mpr (Or.inr ((hv x).mp hh.2))⟩
        rw [gb2 x hne]
        by_cases e : x = slot
        · subst e
          cases hs : isWindowStart x
          · exact (gn1 hs).1
          · exact absurd ⟨hs, (vis_succ hsk).mpr (Or.inl rfl)⟩ hx
        · exact o1 x e
      · intro x b
        rw [List.mem_append, hn2, hv, vis_succ hsk]
        constructor
        · rintro (h | ⟨h1, h2, h3⟩)
          · split at h
            · rename_i hs
              obtain ⟨p, hp, e⟩ := List.mem_map.mp h
              cases e
              exact ⟨hs, Or.inl rfl, hp⟩
            · cases h
          · exact ⟨h1, Or.inr h2, h3⟩
        · rintro ⟨h1, (e | h2), h3⟩
          · subst e; left; rw [if_pos h1]; exact List.mem_map.mpr ⟨b, h3, rfl⟩
          · exact Or.inr ⟨h1, h2, h3⟩
      · rw [List.nodup_append]
        refine ⟨?_, hnd2, ?_⟩
        · split
          · exact nodup_map_inj (fun a b h => by cases h; rfl) hnd 
          · exact List.nodup_nil
        · intro a ha b hb e
          subst e
          have hb' := (hn2 a.1 a.2).mp hb
          have : slot + 1 ≤ a.1 := hb'.2.1.1
          split at ha
          · obtain ⟨p, _, e⟩ := List.mem_map.mp ha
            rw [← e] at this; simp only at this; omega
          · cases ha
      · intro x b
        rw [List.mem_append, hw2, hv, vis_succ hsk]
        constructor
        · rintro (h | ⟨h1, h2, h3, h4, h5⟩)
          · cases hs : isWindowStart slot
            · rw [(gn1 hs).2] at h; cases h
            · rw [(gs1 hs).2] at h
              obtain ⟨e, h3, h4, h5⟩ := mem_wakesOf.mp h
              subst e
              exact ⟨hs, Or.inl rfl, h3, h4, h5⟩
          · have : x ≠ slot := by have := h2.1; omega
            rw [o1 x this] at h3 h4
            exact ⟨h1, Or.inr h2, h3, h4, h5⟩
        · rintro ⟨h1, (e | h2), h3, h4, h5⟩
          · subst e; left; rw [(gs1 h1).2]; exact mem_wakesOf.mpr ⟨rfl, h3, h4, h5⟩
          · have : x ≠ slot := by have := h2.1; omega
            right; rw [o1 x this]; exact ⟨h1, h2, h3, h4, h5⟩
    · -- the loop breaks
      have hsk1 : ¬ (get t1 slot).skip = true := by rw [hskip1]; exact hsk
      simp only [hsk1]
      refine ⟨t1, _, _, rfl, r1, tp1, ?_, ?_, ?_, ?_, ?_⟩
      · intro x hx hvx
        have e := (vis_stop hsk).mp hvx
        subst e
        exact (gs1 hx).1
      · intro x hx
        by_cases e : x = slot
        · subst e
          cases hs : isWindowStart x
          · exact (gn1 hs).1
          · exact absurd ⟨hs, (vis_stop hsk).mpr rfl⟩ hx
        · exact o1 x e
      · intro x b
        rw [vis_stop hsk]
        constructor
        · intro h
          split at h
          · rename_i hs
            obtain ⟨p, hp, e⟩ := List.mem_map.mp h
            cases e
            exact ⟨hs, rfl, hp⟩
          · cases h
        · rintro ⟨h1, e, h3⟩
          subst e; rw [if_pos h1]; exact List.mem_map.mpr ⟨b, h3, rfl⟩
      · split
        · exact nodup_map_inj (fun a b h => by cases h; rfl) hnd
        · exact List.nodup_nil
      · intro x b
        rw [vis_stop hsk]
        constructor
        · intro h
          cases hs : isWindowStart slot
          · rw [(gn1 hs).2] at h; cases h
          · rw [(gs1 hs).2] at h
            obtain ⟨e, h3, h4, h5⟩ := mem_wakesOf.mp h
            subst e
            exact ⟨hs, rfl, h3, h4, h5⟩
        · rintro ⟨h1, e, h3, h4, h5⟩
          subst e; rw [(gs1 h1).2]; exact mem_wakesOf.mpr ⟨rfl, h3, h4, h5⟩

end AgModel.ParentReady
