import AgModel.Proofs.PoolS2NGlueFlag
/-! Pool-level glue for C06, part 4: the pool applies exactly the slot-level operations to each slot state
    (`poolRun_closed`: any per-slot predicate closed under them holds for every slot state of every reachable pool —
    instantiated with the completeness invariant `CInv` and with "every recorded signal is justified"), and **flag
    soundness** (`SoundInv`): a parent entry is `true` only for a registered block one of whose registered parents
    the pool has stored (and announced) a notarization, notar-fallback or fast-finalization certificate for. -/
namespace AgModel.Pool

/-! ### a per-slot predicate through `add_valid_cert` / `add_block`, with the obligations of the two call sites -/

theorem addValidCert_sat (e : Epoch) (Q : SlotState → Prop) (hinit : ∀ s, Q { slot := s }) (c : Cert) (p : Pool)
    (he : p.epoch = e) (hs : SlotsSat p Q)
    (hcert : ∀ st, st.slot = c.slot → Q st → Q (st.addCert c))
    (hkid : c.strong → ∀ kids, ((c.slot, c.hash), kids) ∈ p.waiting → ∀ k ∈ kids, KidSite e Q k) :
    (p.addValidCert c).1.epoch = e ∧ SlotsSat (p.addValidCert c).1 Q := by
  apply addValidCert_ind c p (fun q => q.epoch = e ∧ SlotsSat q Q)
    (fun q => (q.epoch = e ∧ SlotsSat q Q) ∧
      (c.strong → ∀ kids, ((c.slot, c.hash), kids) ∈ q.waiting → ∀ k ∈ kids, KidSite e Q k))
  · have hfr := mod_frame p c.slot ((p.slotState c.slot).2.addCert c)
    refine ⟨⟨hfr.1.trans he, hs.mod c.slot _ (hinit _) ?_⟩, ?_⟩
    · exact hcert _ (slotState_snd_slot p c.slot) (hs.slotState_snd c.slot (hinit _))
    · intro hst kids hm; rw [hfr.2.2] at hm; exact hkid hst kids hm
  · intro q t r _ hq
    refine ⟨⟨(advance_epoch q t r).trans hq.1.1, hq.1.2.advance t r⟩, ?_⟩
    intro hst kids' hm k hk
    rw [advance_waiting] at hm
    obtain ⟨kids, hm', hsub⟩ := pruneW_entry _ _ _ _ hm
    exact hq.2 hst kids hm' k (hsub k hk)
  · intro q r hq
    obtain ⟨a, _, w⟩ := applyPr_frame q r
    refine ⟨⟨a.trans hq.1.1, hq.1.2.applyPr r⟩, ?_⟩
    intro hst kids hm; rw [w] at hm; exact hq.2 hst kids hm
  · intro q r hq
    exact ⟨(applyPr_frame q r).1.trans hq.1, hq.2.applyPr r⟩
  · intro hst q hq
    refine ⟨(notifyWaiting_frame q _).1.trans hq.1.1, ?_⟩
    apply notifyWaiting_sat e Q hinit q _ hq.1.1 hq.1.2
    intro k hk _
    obtain ⟨kids, hm, hk'⟩ := kidsOf_entry hk
    exact hq.2 hst kids hm k hk'
  · intro _ q hq; exact hq.1

theorem addBlockTail_sat (e : Epoch) (Q : SlotState → Prop) (hinit : ∀ s, Q { slot := s }) (r : Pool) (b par : Nat × Nat)
    (e0 : List Event) (cert : Bool) (he : r.epoch = e) (hs : SlotsSat r Q) (hk : cert = true → KidSite e Q b) :
    SlotsSat (Pool.addBlockTail r b par e0 cert).1 Q := by
  unfold Pool.addBlockTail
  split
  · rename_i hc
    split
    · exact hs.slotState b.1 (hinit _)
    · rename_i st' evs hn
      rw [(slotState_frame r b.1).1, he] at hn
      have hq : Q st' := hk hc _ st' evs (slotState_snd_slot r b.1) hn (hs.slotState_snd b.1 (hinit _))
      have hm := hs.mod b.1 st' (hinit _) hq
      split
      · exact hm.addWaiting par b
      · exact hm
  · exact hs.addWaiting par b

/-! ### predicates closed under all slot-level operations -/

/-- `Q` is preserved by everything the pool ever does to a slot state -/
structure SlotClosed (e : Epoch) (Q : SlotState → Prop) : Prop where
  init : ∀ s, Q { slot := s }
  vote : ∀ st v, Adm st v → Q st → Q (st.addVote e v).1
  cert : ∀ st c, Q st → Q (st.addCert c)
  known : ∀ st h, Q st → Q (st.notifyParentKnown h)
  certified : ∀ st h st' evs, st.notifyParentCertified e h = some (st', evs) → Q st → Q st'

theorem poolStep_closed {e : Epoch} {Q : SlotState → Prop} (hc : SlotClosed e Q) (p : Pool) (op : PoolOp)
    (h : p.epoch = e ∧ SlotsSat p Q) : (poolStep p op).1.epoch = e ∧ SlotsSat (poolStep p op).1 Q := by
  have hvc : ∀ c q, (q.epoch = e ∧ SlotsSat q Q) → ((q.addValidCert c).1.epoch = e ∧ SlotsSat (q.addValidCert c).1 Q) :=
    fun c q hq => addValidCert_sat e Q hc.init c q hq.1 hq.2 (fun st _ => hc.cert st c)
      (fun _ _ _ k _ st st' evs _ hn => hc.certified st k.2 st' evs hn)
  have hss : ∀ (q : Pool) s, (q.epoch = e ∧ SlotsSat q Q) → ((q.slotState s).1.epoch = e ∧ SlotsSat (q.slotState s).1 Q) :=
    fun q s hq => ⟨(slotState_frame q s).1.trans hq.1, hq.2.slotState s (hc.init s)⟩
  cases op with
  | vote v =>
    simp only [poolStep]
    apply addVote_ind (fun q => q.epoch = e ∧ SlotsSat q Q) p v (hss p) ?_ (fun c _ _ q hq => hvc c q hq) h
    intro ha _
    refine ⟨(mod_frame p v.slot _).1.trans h.1, h.2.mod v.slot _ (hc.init _) ?_⟩
    rw [h.1]
    exact hc.vote _ v ha (h.2.slotState_snd v.slot (hc.init _))
  | cert c =>
    simp only [poolStep]
    exact addCert_ind (fun q => q.epoch = e ∧ SlotsSat q Q) p c (hss p) (fun _ q hq => hvc c q hq) h
  | block b par =>
    simp only [poolStep]
    apply addBlock_ind (fun q => q.epoch = e ∧ SlotsSat q Q) p b par (fun _ => h)
    intro _ t r _
    have hq : (p.advance t r).epoch = e ∧ SlotsSat (p.advance t r) Q := ⟨(advance_epoch p t r).trans h.1, h.2.advance t r⟩
    refine ⟨fun _ e0 => ?_, fun _ => hq⟩
    have hk : ((p.advance t r).known b).epoch = e ∧ SlotsSat ((p.advance t r).known b) Q :=
      ⟨(known_frame _ b).1.trans hq.1, hq.2.mod b.1 _ (hc.init _) (hc.known _ b.2 (hq.2.slotState_snd b.1 (hc.init _)))⟩
    exact ⟨(addBlockTail_epoch _ b par e0 _).trans hk.1,
      addBlockTail_sat e Q hc.init _ b par e0 _ hk.1 hk.2 (fun _ st st' evs _ hn => hc.certified st b.2 st' evs hn)⟩

/-- **The pool applies exactly slot-level operations to each slot state**: a predicate closed under them holds for every
    slot state of every pool reachable from the empty pool. -/
theorem poolRun_closed {e : Epoch} {Q : SlotState → Prop} (hc : SlotClosed e Q) (ops : List PoolOp) (p : Pool)
    (h : p.epoch = e ∧ SlotsSat p Q) : (poolRun p ops).1.epoch = e ∧ SlotsSat (poolRun p ops).1 Q := by
  induction ops generalizing p with
  | nil => exact h
  | cons op ops ih => simp only [poolRun]; exact ih _ (poolStep_closed hc p op h)

theorem SlotsSat.init (e : Epoch) (Q : SlotState → Prop) : SlotsSat { epoch := e } Q := by
  intro s st hg; simp [Pool.getSlot] at hg

/-- the completeness invariant of safe-to-notar is closed under the slot-level operations -/
theorem cinv_closed (e : Epoch) (hpos : 0 < e.total) : SlotClosed e (CInv e) where
  init := CInv.init e hpos
  vote := fun st v ha i => addVote_cinv e st v ha i
  cert := fun st c i => i.of_eq (addCert_same st c).1 (addCert_ps st c) (addCert_same st c).2.1
  known := fun st h i => slotStep_cinv e st (.parentKnown h) i
  certified := fun st h st' evs hn i => by
    have := slotStep_cinv e st (.parentCertified h) i
    simp only [slotStep, hn] at this
    exact this

/-- every recorded safe-to-notar signal is justified by the condition in the current state -/
def SentSound (e : Epoch) (st : SlotState) : Prop := ∀ h ∈ st.sent, S2NCond e st h

theorem SentSound.step {e : Epoch} {st : SlotState} (op : SlotOp) (i : SentSound e st) : SentSound e (slotStep e st op).1 := by
  intro h hh
  rcases (slotStep_traced e st op).s2n h hh with x | x
  · exact slotStep_mono e st op h (i h x)
  · obtain ⟨ev, hm, hs⟩ := List.mem_filterMap.mp x
    have hsound := (slotStep_emit e st op).1 ev hm
    cases ev with
    | s2n sl hh' =>
      simp only [s2nHash, Option.some.injEq] at hs; subst hs
      exact hsound.2
    | _ => simp [s2nHash] at hs

theorem sentSound_closed (e : Epoch) : SlotClosed e (SentSound e) where
  init := fun s h hh => by simp at hh
  vote := fun st v ha i h hh => by
    rcases (addVote_traced e st v).s2n h hh with x | x
    · exact ((stored_mono e st v ha h (i h x)).of_same (addVote_same e st v))
    · obtain ⟨ev, hm, hs⟩ := List.mem_filterMap.mp x
      have hsound := (addVote_emit e st v).1 ev hm
      cases ev with
      | s2n sl hh' =>
        simp only [s2nHash, Option.some.injEq] at hs; subst hs
        exact hsound.2
      | _ => simp [s2nHash] at hs
  cert := fun st c i h hh => by
    rw [(addCert_same st c).2.1] at hh
    exact (i h hh).of_same (addCert_same st c).1
  known := fun st h i => i.step (.parentKnown h)
  certified := fun st h st' evs hn i => by
    have := i.step (.parentCertified h)
    simp only [slotStep, hn] at this
    exact this

/-- the completeness invariant of safe-to-skip is closed under the slot-level operations -/
theorem sinv_closed (e : Epoch) : SlotClosed e (SInv e) where
  init := SInv.init e
  vote := fun st v _ i => addVote_sinv e st v i
  cert := fun st c i => i.of_same (addCert_same st c).1 (fun h => by rw [(addCert_same st c).2.2]; exact h)
  known := fun st h i => slotStep_sinv e st (.parentKnown h) i
  certified := fun st h st' evs hn i => by
    have := slotStep_sinv e st (.parentCertified h) i
    simp only [slotStep, hn] at this
    exact this

/-! ### flag soundness -/

/-- the blocks for which a notarization, notar-fallback or fast-finalization certificate was announced -/
def certId : Event → Option (Nat × Nat)
  | .cert c => if c.kind = .notar ∨ c.kind = .nf ∨ c.kind = .ff then some (c.slot, c.hash) else none
  | _ => none

def certIds (evs : List Event) : List (Nat × Nat) := evs.filterMap certId

theorem mem_certIds {evs : List Event} {c : Cert} (hm : Event.cert c ∈ evs) (hs : c.strong) : (c.slot, c.hash) ∈ certIds evs := by
  unfold certIds
  apply List.mem_filterMap.mpr
  refine ⟨.cert c, hm, ?_⟩
  unfold Cert.strong at hs
  simp only [certId, hs, if_true]

theorem certIds_mem {evs : List Event} {x : Nat × Nat} (h : x ∈ certIds evs) :
    ∃ c, Event.cert c ∈ evs ∧ c.strong ∧ (c.slot, c.hash) = x := by
  obtain ⟨ev, hm, hs⟩ := List.mem_filterMap.mp h
  cases ev with
  | cert c =>
    simp only [certId] at hs
    split at hs
    · rename_i hk
      simp only [Option.some.injEq] at hs
      exact ⟨c, hm, hk, hs⟩
    · cases hs
  | _ => simp [certId] at hs

/-- a `true` parent entry belongs to a registered block one of whose registered parents is in `C` -/
def Qs (R : List Reg) (C : Nat × Nat → Prop) (st : SlotState) : Prop :=
  ∀ h, st.parents.lookup h = some true → ∃ par, ((st.slot, h), par) ∈ R ∧ C par

/-- every block the slot state holds a notar-fallback-or-stronger certificate for is in `C` -/
def Qh (C : Nat × Nat → Prop) (st : SlotState) : Prop := ∀ h, st.isNfOrStronger h = true → C (st.slot, h)

def SoundInv (e : Epoch) (R : List Reg) (C : Nat × Nat → Prop) (p : Pool) : Prop :=
  p.epoch = e ∧ WaitReg R p ∧ SlotsSat p (Qs R C) ∧ SlotsSat p (Qh C)

theorem SoundInv.mono {e : Epoch} {R R' : List Reg} {C C' : Nat × Nat → Prop} {p : Pool} (h : SoundInv e R C p)
    (hr : ∀ r ∈ R, r ∈ R') (hc : ∀ x, C x → C' x) : SoundInv e R' C' p := by
  refine ⟨h.1, h.2.1.mono hr, h.2.2.1.mono ?_, h.2.2.2.mono ?_⟩
  · intro st hq x hx
    obtain ⟨par, a, b⟩ := hq x hx
    exact ⟨par, hr _ a, hc _ b⟩
  · intro st hq x hx; exact hc _ (hq x hx)

theorem Qs_init (R : List Reg) (C : Nat × Nat → Prop) (s : Nat) : Qs R C { slot := s } := by
  intro h hh; simp at hh

theorem Qh_init (C : Nat × Nat → Prop) (s : Nat) : Qh C { slot := s } := by
  intro h hh; rw [isNfOrStronger_init] at hh; cases hh

theorem Qs.of_eq {R : List Reg} {C : Nat × Nat → Prop} {a b : SlotState} (h : Qs R C a) (hs : b.slot = a.slot)
    (hp : ∀ x, b.parents.lookup x = some true → a.parents.lookup x = some true) : Qs R C b := by
  intro x hx; rw [hs]; exact h x (hp x hx)

theorem Qh.of_eq {C : Nat × Nat → Prop} {a b : SlotState} (h : Qh C a) (hs : b.slot = a.slot)
    (hp : ∀ x, b.isNfOrStronger x = true → a.isNfOrStronger x = true) : Qh C b := by
  intro x hx; rw [hs]; exact h x (hp x hx)

theorem Qs_kidSite (e : Epoch) (R : List Reg) (C : Nat × Nat → Prop) (k par : Nat × Nat) (hr : (k, par) ∈ R) (hc : C par) :
    KidSite e (Qs R C) k := by
  intro st st' evs hsl hn hq x hx
  obtain ⟨n1, _, n3, _⟩ := notifyParentCertified_spec hn
  rw [n3] at hx
  by_cases hxk : x = k.2
  · refine ⟨par, ?_, hc⟩
    rw [n1, hsl, hxk]; exact hr
  · simp only [hxk, if_false] at hx
    rw [n1]; exact hq x hx

theorem Qh_kidSite (e : Epoch) (C : Nat × Nat → Prop) (k : Nat × Nat) : KidSite e (Qh C) k := by
  intro st st' evs _ hn hq
  obtain ⟨n1, _, _, n4⟩ := notifyParentCertified_spec hn
  exact hq.of_eq n1 (fun x hx => by rw [← n4]; exact hx)

theorem addValidCert_waitReg (R : List Reg) (c : Cert) (p : Pool) (h : WaitReg R p) : WaitReg R (p.addValidCert c).1 := by
  apply addValidCert_ind c p (WaitReg R) (WaitReg R)
  · exact h.of_waiting (mod_frame p c.slot _).2.2
  · intro q t r _ hq; exact hq.advance t r
  · intro q r hq; exact hq.of_waiting (applyPr_frame q r).2.2
  · intro q r hq; exact hq.of_waiting (applyPr_frame q r).2.2
  · intro _ q hq; exact hq.notifyWaiting _
  · intro _ q hq; exact hq

theorem addValidCert_sound (e : Epoch) (R : List Reg) (C : Nat × Nat → Prop) (c : Cert) (p : Pool)
    (h : SoundInv e R C p) (hC : c.strong → C (c.slot, c.hash)) : SoundInv e R C (p.addValidCert c).1 := by
  obtain ⟨he, hw, h1, h2⟩ := h
  have a1 := addValidCert_sat e (Qs R C) (Qs_init R C) c p he h1
    (fun st _ hq => hq.of_eq (addCert_slot st c) (fun x hx => by rw [addCert_parents] at hx; exact hx))
    (fun hst kids hm k hk => Qs_kidSite e R C k _ (hw _ kids hm k hk) (hC hst))
  have a2 := addValidCert_sat e (Qh C) (Qh_init C) c p he h2
    (fun st hsl hq x hx => by
      rw [addCert_slot]
      rcases addCert_isNfOrStronger st c x hx with a | ⟨a, b⟩
      · exact hq x a
      · rw [hsl, b]; exact hC a)
    (fun _ _ _ k _ => Qh_kidSite e C k)
  exact ⟨a1.1, addValidCert_waitReg R c p hw, a1.2, a2.2⟩

theorem SoundInv.slotState {e : Epoch} {R : List Reg} {C : Nat × Nat → Prop} {p : Pool} (h : SoundInv e R C p) (s : Nat) :
    SoundInv e R C (p.slotState s).1 :=
  ⟨(slotState_frame p s).1.trans h.1, h.2.1.of_waiting (slotState_frame p s).2.2,
    h.2.2.1.slotState s (Qs_init R C s), h.2.2.2.slotState s (Qh_init C s)⟩

theorem addVote_sound (e : Epoch) (R : List Reg) (C : Nat × Nat → Prop) (p : Pool) (v : Vote) (h : SoundInv e R C p)
    (hC : ∀ c, Event.cert c ∈ (p.addVote v).2.2 → c.strong → C (c.slot, c.hash)) : SoundInv e R C (p.addVote v).1 := by
  apply addVote_ind (SoundInv e R C) p v (fun s hp => hp.slotState s) ?_
    (fun c _ hev q hq => addValidCert_sound e R C c q hq (hC c hev)) h
  intro _ _
  obtain ⟨he, hw, h1, h2⟩ := h
  have hfr := mod_frame p v.slot ((p.slotState v.slot).2.addVote p.epoch v).1
  refine ⟨hfr.1.trans he, hw.of_waiting hfr.2.2, h1.mod v.slot _ (Qs_init R C _) ?_, h2.mod v.slot _ (Qh_init C _) ?_⟩
  · exact (h1.slotState_snd v.slot (Qs_init R C _)).of_eq (addVote_slot _ _ v) (fun x hx => by rw [addVote_parents] at hx; exact hx)
  · exact (h2.slotState_snd v.slot (Qh_init C _)).of_eq (addVote_slot _ _ v) (fun x hx => by rw [addVote_isNfOrStronger] at hx; exact hx)

theorem addCert_sound (e : Epoch) (R : List Reg) (C : Nat × Nat → Prop) (p : Pool) (c : Cert) (h : SoundInv e R C p)
    (hC : Event.cert c ∈ (p.addCert c).2.2 → c.strong → C (c.slot, c.hash)) : SoundInv e R C (p.addCert c).1 :=
  addCert_ind (SoundInv e R C) p c (fun s hp => hp.slotState s) (fun hev q hq => addValidCert_sound e R C c q hq (hC hev)) h

theorem addBlock_sound (e : Epoch) (R : List Reg) (C : Nat × Nat → Prop) (p : Pool) (b par : Nat × Nat) (h : SoundInv e R C p) :
    SoundInv e (R ++ regsOf p (.block b par)) C (p.addBlock b par).1 := by
  have h' : SoundInv e (R ++ regsOf p (.block b par)) C p := h.mono (fun r hr => by simp [hr]) (fun _ hx => hx)
  apply addBlock_ind (SoundInv e (R ++ regsOf p (.block b par)) C) p b par (fun _ => h')
  intro ha t r _
  have hbR : (b, par) ∈ R ++ regsOf p (.block b par) := by simp [regsOf, ha]
  generalize R ++ regsOf p (.block b par) = R' at h' hbR
  obtain ⟨he, hw, h1, h2⟩ := h'
  have hq : SoundInv e R' C (p.advance t r) := ⟨(advance_epoch p t r).trans he, hw.advance t r, h1.advance t r, h2.advance t r⟩
  refine ⟨fun _ e0 => ?_, fun _ => hq⟩
  obtain ⟨qe, qw, q1, q2⟩ := hq
  obtain ⟨k1, _, _, k4, k5⟩ := notifyParentKnown_spec ((p.advance t r).slotState b.1).2 b.2
  have hk1 : SlotsSat ((p.advance t r).known b) (Qs R' C) :=
    q1.mod b.1 _ (Qs_init R' C _) ((q1.slotState_snd b.1 (Qs_init R' C _)).of_eq k1 k4)
  have hk2 : SlotsSat ((p.advance t r).known b) (Qh C) :=
    q2.mod b.1 _ (Qh_init C _) ((q2.slotState_snd b.1 (Qh_init C _)).of_eq k1 (fun x hx => by rw [← k5]; exact hx))
  have hke : ((p.advance t r).known b).epoch = e := (known_frame _ b).1.trans qe
  refine ⟨(addBlockTail_epoch _ b par e0 _).trans hke,
    addBlockTail_waitReg R' _ b par e0 _ hbR (qw.of_waiting (known_frame _ b).2.2),
    addBlockTail_sat e (Qs R' C) (Qs_init R' C) _ b par e0 _ hke hk1 ?_,
    addBlockTail_sat e (Qh C) (Qh_init C) _ b par e0 _ hke hk2 (fun _ => Qh_kidSite e C b)⟩
  intro hc
  apply Qs_kidSite e R' C b par hbR
  unfold Pool.certifiedB at hc
  split at hc
  · rename_i ps hg
    have := hk2 _ ps hg par.2 hc
    rw [getSlot_slot hg] at this
    exact this
  · cases hc

theorem poolStep_sound (e : Epoch) (R : List Reg) (C : Nat × Nat → Prop) (p : Pool) (op : PoolOp) (h : SoundInv e R C p) :
    SoundInv e (R ++ regsOf p op) (fun x => C x ∨ x ∈ certIds (poolStep p op).2) (poolStep p op).1 := by
  have h' : SoundInv e R (fun x => C x ∨ x ∈ certIds (poolStep p op).2) p := h.mono (fun _ hr => hr) (fun _ hx => Or.inl hx)
  cases op with
  | vote v =>
    simp only [regsOf, List.append_nil]
    exact addVote_sound e R _ p v h' (fun c hev hs => Or.inr (mem_certIds hev hs))
  | cert c =>
    simp only [regsOf, List.append_nil]
    exact addCert_sound e R _ p c h' (fun hev hs => Or.inr (mem_certIds hev hs))
  | block b par => exact addBlock_sound e R _ p b par h'

theorem poolRun_sound (e : Epoch) (ops : List PoolOp) (R : List Reg) (C : Nat × Nat → Prop) (p : Pool) (h : SoundInv e R C p) :
    SoundInv e (R ++ regsRun p ops) (fun x => C x ∨ x ∈ certIds (poolRun p ops).2) (poolRun p ops).1 := by
  induction ops generalizing R C p with
  | nil => simp only [regsRun, List.append_nil, poolRun]; exact h.mono (fun _ hr => hr) (fun _ hx => Or.inl hx)
  | cons op ops ih =>
    simp only [regsRun, poolRun, ← List.append_assoc]
    refine (ih _ _ _ (poolStep_sound e R C p op h)).mono (fun _ hr => hr) ?_
    intro x hx
    unfold certIds at *
    rw [List.filterMap_append, List.mem_append]
    rcases hx with (hx | hx) | hx
    · exact Or.inl hx
    · exact Or.inr (Or.inl hx)
    · exact Or.inr (Or.inr hx)

theorem SoundInv.init (e : Epoch) : SoundInv e [] (fun _ => False) { epoch := e } :=
  ⟨rfl, fun _ _ hm => by simp at hm, SlotsSat.init e _, SlotsSat.init e _⟩

end AgModel.Pool
