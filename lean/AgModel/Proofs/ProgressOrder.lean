import AgModel.Proofs.ProgressSkip
/-!
# C02 progress, Stage C (partial): the order of deliveries matters only per node

* nodes are independent: the state after a run depends only on the projections of the run to the nodes
  (`run_congr_proj`), so any interleaving *between* nodes of the same per-node sequences gives the same state;
* at one node the votes of a round may arrive from the senders in any order, and any number of surplus `pump`s is harmless
  (`node_slot_any_order`).
-/
namespace AgModel.Cluster
open AgModel AgModel.Node AgModel.NodePanic AgModel.Pool

theorem run_congr_proj (st : State) (evs evs' : List Ev) (h : ∀ i, proj i evs = proj i evs') : run st evs = run st evs' := by
  funext i
  rw [run_proj, run_proj, h i]

theorem nodeRun_pumps_idle (n : Node) (hq : n.queue = []) : ∀ k, nodeRun n (List.replicate k .pump) = n := by
  intro k
  induction k with
  | zero => rfl
  | succ k ih =>
    simp only [List.replicate_succ, nodeRun]
    have : nodeStep n .pump = n := by
      show (pump n).1 = n
      unfold pump; rw [hq]
    rw [this]; exact ih

/-- surplus pumps are harmless -/
theorem nodeRun_pumps_ge (n : Node) (hd : n.dead = n.votor.panicked) (m : Nat) (hm : n.queue.length ≤ m) :
    nodeRun n (List.replicate m .pump) = nodeRun n (List.replicate n.queue.length .pump) := by
  obtain ⟨d, rfl⟩ : ∃ d, m = n.queue.length + d := ⟨m - n.queue.length, by omega⟩
  rw [List.replicate_add, nodeRun_append, nodeRun_pumps n.queue n rfl hd]
  exact nodeRun_pumps_idle _ rfl d

theorem stakeOf_perm (e : Epoch) {L L' : List Nat} (h : L.Perm L') : stakeOf e L = stakeOf e L' := by
  unfold stakeOf
  exact (h.map _).sum_eq

theorem queue1_length_le (e : Epoch) (s h : Nat) (X : List Nat) : (queue1 e s h X).length ≤ 4 := by
  unfold queue1
  repeat' split
  all_goals simp

theorem queue2_length_le (e : Epoch) (s : Nat) (F : List Nat) : (queue2 e s F).length ≤ 1 := by
  unfold queue2
  split <;> simp

theorem vEvs_length_of_queue : ∀ (q : List Pool.Event), (∀ ev ∈ q, (toVotor ev).isSome = true) → (vEvs q).length = q.length := by
  intro q
  unfold vEvs
  induction q with
  | nil => intro _; rfl
  | cons a t ih =>
    intro h
    have ha := h a List.mem_cons_self
    cases hv : toVotor a with
    | none => rw [hv] at ha; cases ha
    | some v =>
      simp only [List.filterMap_cons, hv, List.length_cons]
      rw [ih (fun ev hev => h ev (List.mem_cons_of_mem _ hev))]

/-- every queued pool event is one Votor sees (`enqueue` filters the others out) -/
def QOk (n : Node) : Prop := ∀ ev ∈ n.queue, (toVotor ev).isSome = true

theorem enqueue_qok (n : Node) (evs : List Pool.Event) (h : QOk n) : QOk (enqueue n evs) := by
  unfold enqueue
  split
  · exact h
  · intro ev hev
    rcases List.mem_append.mp hev with h1 | h1
    · exact h ev h1
    · exact (List.mem_filter.mp h1).2

theorem votorStep_queue (n : Node) (ve : Votor.Event) : (votorStep n ve).1.queue = n.queue := (votorStep_pool n ve).2

theorem nodeStep_qok (n : Node) (op : NodeOp) (h : QOk n) : QOk (nodeStep n op) := by
  cases op with
  | recvVote v =>
    simp only [nodeStep, recvVote]
    split
    · exact h
    · exact enqueue_qok _ _ h
  | recvCert x =>
    simp only [nodeStep, recvCert]
    split
    · exact h
    · exact enqueue_qok _ _ h
  | poolBlock b p =>
    simp only [nodeStep, poolBlock]
    split
    · exact h
    · exact enqueue_qok _ _ h
  | pump =>
    simp only [nodeStep, pump]
    split
    · exact h
    · rename_i e rest hq
      have hrest : QOk { n with queue := rest } := fun ev hev => h ev (by rw [hq]; exact List.mem_cons_of_mem _ hev)
      split
      · intro ev hev; rw [votorStep_queue] at hev; exact hrest ev hev
      · exact hrest
  | votorBlock sl b => intro ev hev; simp only [nodeStep] at hev; rw [votorStep_queue] at hev; exact h ev hev
  | firstShred sl => intro ev hev; simp only [nodeStep] at hev; rw [votorStep_queue] at hev; exact h ev hev
  | invalidBlock sl => intro ev hev; simp only [nodeStep] at hev; rw [votorStep_queue] at hev; exact h ev hev
  | timeout sl => intro ev hev; simp only [nodeStep] at hev; rw [votorStep_queue] at hev; exact h ev hev
  | timeoutCrashed sl => intro ev hev; simp only [nodeStep] at hev; rw [votorStep_queue] at hev; exact h ev hev

theorem nodeRun_qok (ops : List NodeOp) (n : Node) (h : QOk n) : QOk (nodeRun n ops) := by
  induction ops generalizing n with
  | nil => exact h
  | cons op ops ih => exact ih _ (nodeStep_qok n op h)

theorem QOk.length {n : Node} (h : QOk n) : n.queue.length = (vEvs n.queue).length := (vEvs_length_of_queue n.queue h).symm

/-- **One slot at one node, deliveries in any order**: the block; the notarization votes of the correct validators from the
    senders in any order `L1`; the notarization and finalization votes in any order `L2`; any number of pumps in between that
    is at least the (bounded) length of the queue. The node finalizes `(s, h)` and is ready for slot `s + 1`. -/
theorem node_slot_any_order {e : Epoch} (hpos : 0 < e.total) {hi s h : Nat} {p : Nat × Nat} {N : Node} (hs : s ≤ hi)
    (r : NReady e hi s p N) (C L1 L2 : List Nat) (hC : C.Nodup) (hCn : ∀ j ∈ C, j < e.n) (h1 : L1.Perm C) (h2 : L2.Perm C)
    (hq : e.isQuorum (stakeOf e C) = true) (m0 m1 m2 : Nat) (hm1 : 4 ≤ m1) (hm2 : 1 ≤ m2) :
    NReady e hi (s + 1) (s, h)
      (nodeRun N ([.poolBlock (s, h) p, .votorBlock s ⟨h, p.1, p.2⟩] ++ List.replicate m0 .pump ++
        L1.map (fun j => NodeOp.recvVote ⟨.notar, s, h, j⟩) ++ List.replicate m1 .pump ++
        L2.flatMap (fun j => [NodeOp.recvVote ⟨.notar, s, h, j⟩, NodeOp.recvVote ⟨.final, s, 0, j⟩]) ++
        List.replicate m2 .pump)) ∧
    ∃ a x, (nodeRun N ([.poolBlock (s, h) p, .votorBlock s ⟨h, p.1, p.2⟩] ++ List.replicate m0 .pump ++
        L1.map (fun j => NodeOp.recvVote ⟨.notar, s, h, j⟩) ++ List.replicate m1 .pump ++
        L2.flatMap (fun j => [NodeOp.recvVote ⟨.notar, s, h, j⟩, NodeOp.recvVote ⟨.final, s, 0, j⟩]) ++
        List.replicate m2 .pump)).pool.getSlot s = some a ∧ a.cFin.isSome = true ∧ a.cNotar = some x ∧ x.hash = h := by
  have hq0 : QOk N := by intro ev hev; rw [r.queue] at hev; cases hev
  have hL1 : L1.Nodup := h1.nodup_iff.mpr hC
  have hL2 : L2.Nodup := h2.nodup_iff.mpr hC
  have hs1 : stakeOf e L1 = stakeOf e C := stakeOf_perm e h1
  have hs2 : stakeOf e L2 = stakeOf e C := stakeOf_perm e h2
  simp only [nodeRun_append]
  -- the block
  have n1 := node_block (h := h) hpos r
  have q1 := nodeRun_qok [.poolBlock (s, h) p, .votorBlock s ⟨h, p.1, p.2⟩] N hq0
  generalize nodeRun N [.poolBlock (s, h) p, .votorBlock s ⟨h, p.1, p.2⟩] = N1 at *
  have hN1q : N1.queue = [] := by
    have := q1.length; rw [n1.queue] at this
    exact List.eq_nil_of_length_eq_zero this
  rw [nodeRun_pumps_idle N1 hN1q m0]
  -- round 1
  have n1' : NMid e hi s h p [] [] false false false (queue1 e s h []) N1 := by rw [queue1_nil e hpos]; exact n1
  have n2 := node_notar_votes hpos hs L1 [] N1 n1' (by simpa using hL1) (fun j hj => hCn j (h1.mem_iff.mp hj))
  simp only [List.nil_append] at n2
  have q2 := nodeRun_qok (L1.map (fun j => NodeOp.recvVote ⟨.notar, s, h, j⟩)) N1 q1
  generalize nodeRun N1 (L1.map (fun j => NodeOp.recvVote ⟨.notar, s, h, j⟩)) = N2 at *
  have hlen2 : N2.queue.length ≤ m1 := by
    rw [q2.length, n2.queue]; exact Nat.le_trans (queue1_length_le _ _ _ _) hm1
  rw [nodeRun_pumps_ge N2 (by rw [n2.alive, n2.votor.alive]) m1 hlen2]
  have n3 := node_pumps n2 (votor_round1 n2.votor L1)
  have hqL1 : e.isQuorum (stakeOf e L1) = true := by rw [hs1]; exact hq
  rw [hqL1] at n3
  simp only [Bool.true_and] at n3
  have q3 := nodeRun_qok (List.replicate N2.queue.length NodeOp.pump) N2 q2
  generalize nodeRun N2 (List.replicate N2.queue.length NodeOp.pump) = N3 at *
  -- round 2
  have n3' : NMid e hi s h p L1 [] true (ParentReady.isWindowStart (s + 1)) (e.isStrong (stakeOf e L1)) (queue2 e s []) N3 := by
    rw [queue2_nil e hpos]; exact n3
  have n4 := node_round2 hs hqL1 L2 [] N3 n3' (by simpa using hL2)
    (fun j hj => ⟨h1.mem_iff.mpr (h2.mem_iff.mp hj), hCn j (h2.mem_iff.mp hj)⟩)
  simp only [List.nil_append] at n4
  have q4 := nodeRun_qok (L2.flatMap (fun j => [NodeOp.recvVote ⟨.notar, s, h, j⟩, NodeOp.recvVote ⟨.final, s, 0, j⟩])) N3 q3
  generalize nodeRun N3 (L2.flatMap (fun j => [NodeOp.recvVote ⟨.notar, s, h, j⟩, NodeOp.recvVote ⟨.final, s, 0, j⟩])) = N4 at *
  have hlen4 : N4.queue.length ≤ m2 := by
    rw [q4.length, n4.queue]; exact Nat.le_trans (queue2_length_le _ _ _) hm2
  rw [nodeRun_pumps_ge N4 (by rw [n4.alive, n4.votor.alive]) m2 hlen4]
  have hqL2 : e.isQuorum (stakeOf e L2) = true := by rw [hs2]; exact hq
  have n5 := node_pumps n4 (votor_round2 (e := e) n4.votor L2)
  rw [hqL2, Bool.or_true] at n5
  have hq5 : (nodeRun N4 (List.replicate N4.queue.length NodeOp.pump)).queue = [] := by
    rw [nodeRun_pumps N4.queue N4 rfl (by rw [n4.alive, n4.votor.alive])]
  refine ⟨node_done n5 (Or.inr ⟨hqL1, hqL2⟩) (fun hw => hw) hq5, ?_⟩
  obtain ⟨a, ps, hst⟩ := n5.slot
  obtain ⟨x, hx, hxh⟩ := hst.2.cNotarSome hqL1
  exact ⟨a, x, ps.slot, by rw [hst.2.cFin]; exact hqL2, hx, hxh⟩

/-! ### the highest finalized slot a Votor knows never decreases -/

theorem emitAll_hfcs : ∀ (l : List Votor.Out) (v : Votor.V), (v.emitAll l).hfcs = v.hfcs := by
  intro l
  induction l with
  | nil => intro v; rfl
  | cons o rest ih => intro v; unfold Votor.V.emitAll; rw [ih]; rfl

theorem handle_hfcs_mono (v : Votor.V) (e : Votor.Event) : v.hfcs ≤ (v.handle e).hfcs := by
  cases e with
  | parentReady s a b => simp [Votor.V.handle]
  | safeToNotar s h => simp [Votor.V.handle]
  | safeToSkip s => simp [Votor.V.handle]
  | cert k s h =>
    cases k with
    | notar => simp [Votor.V.handle]
    | notarFallback => simp [Votor.V.handle]
    | skip => simp [Votor.V.handle]
    | fastFinal =>
      show v.hfcs ≤ max (v.setTimeouts (Votor.firstInWindow s)).hfcs s
      rw [Votor.setTimeouts_hfcs]; exact Nat.le_max_left _ _
    | final =>
      show v.hfcs ≤ max (v.setTimeouts (Votor.firstInWindow s)).hfcs s
      rw [Votor.setTimeouts_hfcs]; exact Nat.le_max_left _ _
  | standstill s r => simp [Votor.V.handle, emitAll_hfcs]
  | firstShred s => simp [Votor.V.handle]
  | invalidBlock s => simp [Votor.V.handle]
  | block s b =>
    simp only [Votor.V.handle]
    split
    · exact Nat.le_refl _
    · split <;> simp
  | timeout s =>
    simp only [Votor.V.handle]
    split <;> simp
  | timeoutCrashed s =>
    simp only [Votor.V.handle]
    split <;> simp

theorem step_hfcs_mono (v : Votor.V) (e : Votor.Event) : v.hfcs ≤ (Votor.step v e).hfcs := by
  unfold Votor.step
  split
  · exact Nat.le_refl _
  · dsimp only
    split
    · exact Nat.le_refl _
    · exact handle_hfcs_mono (v.logEv e) e

theorem votorStep_hfcs_mono (n : Node) (ve : Votor.Event) : n.votor.hfcs ≤ (votorStep n ve).1.votor.hfcs := by
  unfold votorStep
  split
  · exact Nat.le_refl _
  · exact step_hfcs_mono _ _

theorem nodeStep_hfcs_mono (n : Node) (op : NodeOp) : n.votor.hfcs ≤ (nodeStep n op).votor.hfcs := by
  cases op with
  | recvVote v =>
    simp only [nodeStep, recvVote]
    split
    · exact Nat.le_refl _
    · unfold enqueue; split <;> exact Nat.le_refl _
  | recvCert x =>
    simp only [nodeStep, recvCert]
    split
    · exact Nat.le_refl _
    · unfold enqueue; split <;> exact Nat.le_refl _
  | poolBlock b p =>
    simp only [nodeStep, poolBlock]
    split
    · exact Nat.le_refl _
    · unfold enqueue; split <;> exact Nat.le_refl _
  | pump =>
    simp only [nodeStep, pump]
    split
    · exact Nat.le_refl _
    · rename_i ev rest hq
      split
      · rename_i ve hve
        exact votorStep_hfcs_mono { n with queue := rest } ve
      · exact Nat.le_refl _
  | votorBlock sl b => exact votorStep_hfcs_mono _ _
  | firstShred sl => exact votorStep_hfcs_mono _ _
  | invalidBlock sl => exact votorStep_hfcs_mono _ _
  | timeout sl => exact votorStep_hfcs_mono _ _
  | timeoutCrashed sl => exact votorStep_hfcs_mono _ _

/-- in **every** run (valid or not, any events at any nodes) the highest finalized slot known to a node's Votor never
    decreases -/
theorem run_hfcs_mono (st : State) (evs : List Ev) (i : Nat) : (st i).votor.hfcs ≤ (run st evs i).votor.hfcs := by
  induction evs generalizing st with
  | nil => exact Nat.le_refl _
  | cons ev evs ih =>
    obtain ⟨k, op⟩ := ev
    refine Nat.le_trans ?_ (ih (step st (k, op)))
    by_cases hk : i = k
    · subst hk; rw [step_self]; exact nodeStep_hfcs_mono _ _
    · rw [step_other _ _ _ _ hk]

end AgModel.Cluster
