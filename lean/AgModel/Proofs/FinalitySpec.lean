import AgModel.Proofs.Finality
/-!
# The naive reference semantics of the finality tracker (run-level specification for C08)

The *history* of a run is the list of operations delivered so far.  From it, with no reference to the tracker:

* `Direct H b`  : `b` has a fast-finalization mark, or its slot a finalization mark and `b` a notarization mark
                  (genesis `(0,0)` counts as notarized: `FinalityTracker::default()` inserts `Notarized(GENESIS)`);
* `Final H b`   : the closure of `Direct` under the parent links present in `H`;
* `Skip H s`    : `s` lies strictly between a `Final` block and its parent;
* `Safe H`      : the safety premise on a history (what consensus safety, C01, guarantees for the certificate
                  sets a correct node can ever hold).  Since the D27 repair it no longer contains "the notarized
                  block of a slot is the `Final` one": C01 excludes a second certified block only next to a
                  *directly* finalized block (`notar_direct`); an implicitly finalized block can have a notarized
                  sibling (one equivocating leader suffices), and the tracker must not panic on it.

These definitions are used by the helper lemmas in `Proofs/FinalityExact.lean` and by the theorems in
`Props/C08.lean`.
-/
namespace AgModel.Finality

def NotarH (H : List Op) (b : Nat × Nat) : Prop := b = (0, 0) ∨ Op.notar b ∈ H
def FinH (H : List Op) (s : Nat) : Prop := Op.final s ∈ H
def FastH (H : List Op) (b : Nat × Nat) : Prop := Op.fastFinal b ∈ H
def LinkH (H : List Op) (c p : Nat × Nat) : Prop := Op.parent c p ∈ H

instance (H : List Op) (b : Nat × Nat) : Decidable (NotarH H b) := by unfold NotarH; infer_instance
instance (H : List Op) (s : Nat) : Decidable (FinH H s) := by unfold FinH; infer_instance
instance (H : List Op) (b : Nat × Nat) : Decidable (FastH H b) := by unfold FastH; infer_instance
instance (H : List Op) (c p : Nat × Nat) : Decidable (LinkH H c p) := by unfold LinkH; infer_instance

/-- directly finalized: fast-finalization, or finalization of the slot + notarization of the block -/
def Direct (H : List Op) (b : Nat × Nat) : Prop := FastH H b ∨ (FinH H b.1 ∧ NotarH H b)

instance (H : List Op) (b : Nat × Nat) : Decidable (Direct H b) := by unfold Direct; infer_instance

/-- finalized = directly finalized or an ancestor (through links in the history) of a finalized block -/
inductive Final (H : List Op) : Nat × Nat → Prop
  | direct {b : Nat × Nat} : Direct H b → Final H b
  | step {c p : Nat × Nat} : Final H c → LinkH H c p → Final H p

/-- implicitly skipped = strictly between a finalized block and its parent -/
def Skip (H : List Op) (s : Nat) : Prop := ∃ c p, Final H c ∧ LinkH H c p ∧ p.1 < s ∧ s < c.1

/-- The safety premise on a history. -/
structure Safe (G : List Op) : Prop where
  /-- parents have smaller slots -/
  link_lt : ∀ c p, LinkH G c p → p.1 < c.1
  /-- a block has one parent -/
  link_fun : ∀ c p p', LinkH G c p → LinkH G c p' → p = p'
  /-- at most one finalized block per slot -/
  final_fun : ∀ b b', Final G b → Final G b' → b.1 = b'.1 → b = b'
  /-- no finalized block strictly between a finalized block and its parent -/
  no_final_between : ∀ c p q, Final G c → LinkH G c p → Final G q → ¬ (p.1 < q.1 ∧ q.1 < c.1)
  /-- at most one notarized block per slot -/
  notar_fun : ∀ b b', NotarH G b → NotarH G b' → b.1 = b'.1 → b = b'
  /-- the notarized block of a slot is the *directly* finalized one, if any.  (Nothing of the kind holds for a
      block that is finalized only through a descendant: it can have a notarized sibling, D27.) -/
  notar_direct : ∀ b b', NotarH G b → Direct G b' → b.1 = b'.1 → b = b'
  /-- no finalization certificate for an implicitly skipped slot -/
  fin_not_skip : ∀ s, FinH G s → ¬ Skip G s

/-- `H` delivers only inputs of `G`. -/
def Sub (H G : List Op) : Prop := ∀ op, op ∈ H → op ∈ G

theorem Sub.refl (H : List Op) : Sub H H := fun _ h => h
theorem Sub.trans {A B C : List Op} (h1 : Sub A B) (h2 : Sub B C) : Sub A C := fun o h => h2 o (h1 o h)
theorem sub_append_left (H : List Op) (op : Op) : Sub H (H ++ [op]) :=
  fun _ h => List.mem_append_left _ h
theorem Sub.of_snoc {H G : List Op} {op : Op} (h : Sub (H ++ [op]) G) : Sub H G :=
  (sub_append_left H op).trans h

theorem NotarH.mono {H G : List Op} (hs : Sub H G) {b : Nat × Nat} (h : NotarH H b) : NotarH G b :=
  h.elim Or.inl (fun x => Or.inr (hs _ x))
theorem FinH.mono {H G : List Op} (hs : Sub H G) {s : Nat} (h : FinH H s) : FinH G s := hs _ h
theorem FastH.mono {H G : List Op} (hs : Sub H G) {b : Nat × Nat} (h : FastH H b) : FastH G b := hs _ h
theorem LinkH.mono {H G : List Op} (hs : Sub H G) {c p : Nat × Nat} (h : LinkH H c p) : LinkH G c p := hs _ h

theorem Direct.mono {H G : List Op} (hs : Sub H G) {b : Nat × Nat} (h : Direct H b) : Direct G b :=
  h.elim (fun x => Or.inl (x.mono hs)) (fun x => Or.inr ⟨x.1.mono hs, x.2.mono hs⟩)

theorem Final.mono {H G : List Op} (hs : Sub H G) {b : Nat × Nat} (h : Final H b) : Final G b := by
  induction h with
  | direct d => exact .direct (d.mono hs)
  | step _ l ih => exact .step ih (l.mono hs)

theorem Skip.mono {H G : List Op} (hs : Sub H G) {s : Nat} (h : Skip H s) : Skip G s := by
  obtain ⟨c, p, hc, hl, h1, h2⟩ := h
  exact ⟨c, p, hc.mono hs, hl.mono hs, h1, h2⟩

/-- a finalized block and an implicitly skipped slot never coincide -/
theorem Safe.final_not_skip {G : List Op} (sf : Safe G) {b : Nat × Nat} (hb : Final G b) : ¬ Skip G b.1 := by
  intro ⟨c, p, hc, hl, h1, h2⟩
  exact sf.no_final_between c p b hc hl hb ⟨h1, h2⟩

/-- two links from finalized blocks that span a common slot are the same link -/
theorem Safe.span_unique {G : List Op} (sf : Safe G) {c p c' p' : Nat × Nat} {s : Nat}
    (hc : Final G c) (hl : LinkH G c p) (hc' : Final G c') (hl' : LinkH G c' p')
    (h1 : p.1 < s) (h2 : s < c.1) (h1' : p'.1 < s) (h2' : s < c'.1) : c' = c ∧ p' = p := by
  have a := sf.no_final_between c p c' hc hl hc'
  have b := sf.no_final_between c' p' c hc' hl' hc
  have : c'.1 = c.1 := by omega
  have e := sf.final_fun c' c hc' hc this
  subst e
  exact ⟨rfl, sf.link_fun _ _ _ hl' hl⟩

/-! ### membership in `H ++ [op]` -/

theorem notarH_snoc {H : List Op} {op : Op} {b : Nat × Nat} :
    NotarH (H ++ [op]) b ↔ NotarH H b ∨ op = .notar b := by
  unfold NotarH
  simp only [List.mem_append, List.mem_singleton]
  constructor
  · rintro (h | h | h)
    · exact Or.inl (Or.inl h)
    · exact Or.inl (Or.inr h)
    · exact Or.inr h.symm
  · rintro ((h | h) | h)
    · exact Or.inl h
    · exact Or.inr (Or.inl h)
    · exact Or.inr (Or.inr h.symm)

theorem finH_snoc {H : List Op} {op : Op} {s : Nat} : FinH (H ++ [op]) s ↔ FinH H s ∨ op = .final s := by
  unfold FinH
  simp only [List.mem_append, List.mem_singleton]
  constructor
  · rintro (h | h); exact Or.inl h; exact Or.inr h.symm
  · rintro (h | h); exact Or.inl h; exact Or.inr h.symm

theorem fastH_snoc {H : List Op} {op : Op} {b : Nat × Nat} :
    FastH (H ++ [op]) b ↔ FastH H b ∨ op = .fastFinal b := by
  unfold FastH
  simp only [List.mem_append, List.mem_singleton]
  constructor
  · rintro (h | h); exact Or.inl h; exact Or.inr h.symm
  · rintro (h | h); exact Or.inl h; exact Or.inr h.symm

theorem linkH_snoc {H : List Op} {op : Op} {c p : Nat × Nat} :
    LinkH (H ++ [op]) c p ↔ LinkH H c p ∨ op = .parent c p := by
  unfold LinkH
  simp only [List.mem_append, List.mem_singleton]
  constructor
  · rintro (h | h); exact Or.inl h; exact Or.inr h.symm
  · rintro (h | h); exact Or.inl h; exact Or.inr h.symm

end AgModel.Finality
