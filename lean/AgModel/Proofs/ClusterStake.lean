import AgModel.Proofs.ClusterBridge
/-!
# C01 cluster refinement: the stake clauses of safe-to-notar / safe-to-skip on the derived history

A slot state whose counters are recounts of its stored votes (`InvV`, C03) and whose stored votes are signed
(`QV (sigOf c s)`) turns the pool's stake clauses (`stakeClause`, `S2SCond`: C06) into the clauses R3 / R4 of
`Spec.Rules` on the derived history: the stake the pool counted is stake of votes in the history.
-/
namespace AgModel.Cluster
open AgModel AgModel.Node AgModel.NodePanic AgModel.Pool AgModel.Spec

theorem lookup_beq_some {l : List (ℕ × ℕ)} {v h : ℕ} (hx : (l.lookup v == some h) = true) : (v, h) ∈ l := by
  have : l.lookup v = some h := by simpa using hx
  exact mem_of_lookup_some this

/-- **R3, stake clause**: the stake clause of safe-to-notar for `(t, h)`, evaluated by the pool on a slot state with signed
    votes, holds on the derived history -/
theorem s2n_stake_on_hist (c : Cfg) (s : State) (i : ℕ) (st : SlotState) (h : ℕ) (h0 : st.slot ≠ 0)
    (iv : InvV (c.epoch i) st) (qv : QV (sigOf c s) st) (hs : stakeClause (c.epoch i) st h = true) :
    Weak (notarW (stakeFn c) (histOf c s) (Blk.mk' st.slot h)) (total (stakeFn c)) ∨
    (Weakest (notarW (stakeFn c) (histOf c s) (Blk.mk' st.slot h)) (total (stakeFn c)) ∧
      Q (w (stakeFn c) (fun u => (histOf c s).notar u (Blk.mk' st.slot h) ∨ (histOf c s).skip u st.slot)) (total (stakeFn c))) := by
  unfold stakeClause at hs
  simp only [Bool.and_eq_true, Bool.or_eq_true] at hs
  obtain ⟨hw, hor⟩ := hs
  have hn : ∀ v : Fin c.n, (st.vNotar.lookup v.val == some h) = true → (histOf c s).notar v (Blk.mk' st.slot h) :=
    fun v hv => hist_notar_of_sig c s v _ _ (qv.notar _ _ (lookup_beq_some hv))
  have ha : lookupD st.sNotar h ≤ notarW (stakeFn c) (histOf c s) (Blk.mk' st.slot h) := by
    rw [iv.cNotar h]
    unfold SlotState.notarVoters notarW
    rw [epoch_n]
    exact stakeOf_filter_le_w c i _ _ hn
  rcases hor with hk | hq
  · exact Or.inl (Weak_of_isWeak c i _ _ hk ha)
  · refine Or.inr ⟨Weakest_of_isWeakest c i _ _ hw ha, Q_of_isQuorum c i _ _ hq ?_⟩
    rw [iv.cNotar h, iv.cSkip]
    unfold SlotState.notarVoters SlotState.skipVoters
    rw [epoch_n, ← stakeOf_filter_or]
    · apply stakeOf_filter_le_w
      intro v hv
      simp only [Bool.or_eq_true] at hv
      rcases hv with hv | hv
      · exact Or.inl (hn v hv)
      · exact Or.inr (qv.skip _ (by simpa [List.contains_eq_mem] using hv))
    · intro x _ ⟨a, b⟩
      have hm : x ∈ st.vSkip := by simpa [List.contains_eq_mem] using b
      have := iv.noSkipNotar x hm
      rw [this] at a
      simp at a

/-- **R4, stake clause**: the stake clause of safe-to-skip holds on the derived history, for every candidate `cb` for the
    most voted block of the slot -/
theorem s2s_stake_on_hist (c : Cfg) (s : State) (i : ℕ) (st : SlotState) (h0 : st.slot ≠ 0)
    (iv : InvV (c.epoch i) st) (qv : QV (sigOf c s) st) (hs : (c.epoch i).isWeak (st.sNotarOrSkip - st.sTopNotar) = true)
    (cb : Blk) (hcb : cb.slot = st.slot) :
    Weak (w (stakeFn c) (fun u => (histOf c s).skip u st.slot ∨
      ∃ x : Blk, x.slot = st.slot ∧ x ≠ cb ∧ (histOf c s).notar u x)) (total (stakeFn c)) := by
  apply Weak_of_isWeak c i _ _ hs
  -- the recounts
  have h1 := iv.cNotarOrSkip
  have h2 := iv.topGe cb.hash
  rw [iv.cNotar cb.hash] at h2
  have h3 := iv.cSkip
  unfold SlotState.notarVoters at h2
  unfold SlotState.skipVoters at h3
  rw [epoch_n] at h1 h2 h3
  -- all notar voters = voters of `cb` + voters of other blocks
  have hsplit : stakeOf (c.epoch i) ((List.range c.n).filter (fun v => (st.vNotar.lookup v).isSome)) =
      stakeOf (c.epoch i) ((List.range c.n).filter (fun v => st.vNotar.lookup v == some cb.hash)) +
      stakeOf (c.epoch i) ((List.range c.n).filter (fun v => (st.vNotar.lookup v).isSome && !(st.vNotar.lookup v == some cb.hash))) := by
    rw [← stakeOf_filter_or]
    · congr 1
      apply List.filter_congr
      intro v _
      cases hl : st.vNotar.lookup v with
      | none => simp
      | some x => by_cases hx : x = cb.hash <;> simp [hx]
    · intro x _ ⟨a, b⟩
      simp only [Bool.and_eq_true, Bool.not_eq_true'] at b
      rw [a] at b; exact absurd b.2 (by simp)
  have hle : st.sNotarOrSkip - st.sTopNotar ≤
      stakeOf (c.epoch i) ((List.range c.n).filter (fun v => (st.vNotar.lookup v).isSome && !(st.vNotar.lookup v == some cb.hash))) +
      stakeOf (c.epoch i) ((List.range c.n).filter (fun v => st.vSkip.contains v)) := by
    omega
  refine Nat.le_trans hle ?_
  rw [← stakeOf_filter_or]
  · apply stakeOf_filter_le_w
    intro v hv
    simp only [Bool.or_eq_true, Bool.and_eq_true, Bool.not_eq_true'] at hv
    rcases hv with ⟨hsome, hne⟩ | hv
    · right
      cases hl : st.vNotar.lookup v.val with
      | none => rw [hl] at hsome; cases hsome
      | some x =>
        rw [hl] at hne
        have hxne : x ≠ cb.hash := by intro e; rw [e] at hne; simp at hne
        refine ⟨Blk.mk' st.slot x, Blk.mk'_slot _ _, ?_, hist_notar_of_sig c s v _ _ (qv.notar _ _ (mem_of_lookup_some hl))⟩
        intro e
        have := congrArg Blk.hash e
        rw [Blk.mk'_hash _ _ h0] at this
        exact hxne this
    · left
      exact qv.skip _ (by simpa [List.contains_eq_mem] using hv)
  · intro x _ ⟨a, b⟩
    have hm : x ∈ st.vSkip := by simpa [List.contains_eq_mem] using b
    have := iv.noSkipNotar x hm
    rw [this] at a
    simp at a

end AgModel.Cluster
