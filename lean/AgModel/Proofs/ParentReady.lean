import AgModel.Model.ParentReady
/-! Helper lemmas about `AgModel.ParentReady` (core Lean only). -/
namespace AgModel.ParentReady

theorem get_put_same (t : Tracker) (s : Nat) (v : PState) : get (put t s v) s = v := by
  simp [get, put]

theorem get_put_other (t : Tracker) {s x : Nat} (v : PState) (h : x ≠ s) : get (put t s v) x = get t x := by
  simp [get, put, h]

theorem get_touch (t : Tracker) (s x : Nat) : get (touch t s) x = get t x := by
  unfold touch
  by_cases h : x = s
  · subst h; exact get_put_same _ _ _
  · exact get_put_other _ _ h

theorem parentsReady_eq_get (t : Tracker) (s : Nat) : parentsReady t s = (get t s).ready := by
  unfold parentsReady get
  cases t.states s <;> rfl

/-- Everything the tracker knows only grows (until `prune`): marks are never lost, ready lists are only
    appended to, ready parents appear only at window starts, duplicate-freeness is kept. -/
structure Grow (t t' : Tracker) : Prop where
  root : t'.root = t.root
  top : t.top ≤ t'.top
  skip : ∀ x, (get t x).skip = true → (get t' x).skip = true
  nfs : ∀ x h, h ∈ (get t x).nfs → h ∈ (get t' x).nfs
  ready : ∀ x p, p ∈ (get t x).ready → p ∈ (get t' x).ready
  nonstart : ∀ x, isWindowStart x = false → (get t' x).ready = (get t x).ready
  nodup : ∀ x, (get t x).ready.Nodup → (get t' x).ready.Nodup

theorem Grow.refl (t : Tracker) : Grow t t :=
  ⟨rfl, Nat.le_refl _, fun _ h => h, fun _ _ h => h, fun _ _ h => h, fun _ _ => rfl, fun _ h => h⟩

theorem Grow.trans {a b c : Tracker} (h1 : Grow a b) (h2 : Grow b c) : Grow a c :=
  ⟨h2.root.trans h1.root, Nat.le_trans h1.top h2.top, fun x h => h2.skip x (h1.skip x h),
   fun x h hh => h2.nfs x h (h1.nfs x h hh), fun x p hp => h2.ready x p (h1.ready x p hp),
   fun x hx => (h2.nonstart x hx).trans (h1.nonstart x hx), fun x h => h2.nodup x (h1.nodup x h)⟩

theorem grow_touch (t : Tracker) (s : Nat) : Grow t (touch t s) := by
  refine ⟨rfl, Nat.le_refl _, ?_, ?_, ?_, ?_, ?_⟩ <;> intros <;> simp only [get_touch] <;> assumption

/-- a `put` that keeps `skip`/`nfs` monotone and appends to the ready list of a window start -/
theorem grow_put {t : Tracker} {s : Nat} {v : PState}
    (hskip : (get t s).skip = true → v.skip = true) (hnfs : ∀ h, h ∈ (get t s).nfs → h ∈ v.nfs)
    (hready : ∀ p, p ∈ (get t s).ready → p ∈ v.ready)
    (hstart : isWindowStart s = false → v.ready = (get t s).ready)
    (hnd : (get t s).ready.Nodup → v.ready.Nodup) : Grow t (put t s v) := by
  refine ⟨rfl, Nat.le_refl _, ?_, ?_, ?_, ?_, ?_⟩
  · intro x hx
    by_cases h : x = s
    · subst h; rw [get_put_same]; exact hskip hx
    · rw [get_put_other _ _ h]; exact hx
  · intro x hh hx
    by_cases h : x = s
    · subst h; rw [get_put_same]; exact hnfs hh hx
    · rw [get_put_other _ _ h]; exact hx
  · intro x p hx
    by_cases h : x = s
    · subst h; rw [get_put_same]; exact hready p hx
    · rw [get_put_other _ _ h]; exact hx
  · intro x hx
    by_cases h : x = s
    · subst h; rw [get_put_same]; exact hstart hx
    · rw [get_put_other _ _ h]
  · intro x hx
    by_cases h : x = s
    · subst h; rw [get_put_same]; exact hnd hx
    · rw [get_put_other _ _ h]; exact hx

/-- `add_to_ready` on a window start: the id is new, and is in the list afterwards. -/
theorem addToReady_spec {t : Tracker} {s : Nat} {id : Nat × Nat} {t' : Tracker} {w : List Wake}
    (hs : isWindowStart s = true) (h : addToReady t s id = some (t', w)) :
    Grow t t' ∧ id ∈ (get t' s).ready ∧ id ∉ (get t s).ready := by
  unfold addToReady at h
  simp only at h
  split at h
  · rename_i hemp
    cases h
    have hnil : (get t s).ready = [] := List.isEmpty_iff.mp hemp
    refine ⟨grow_put (fun hh => hh) (fun _ hh => hh) ?_ ?_ ?_, ?_, ?_⟩
    · intro p hp; rw [hnil] at hp; cases hp
    · intro hh; rw [hs] at hh; cases hh
    · intro _; simp
    · rw [get_put_same]; simp
    · rw [hnil]; simp
  · split at h
    · cases h
    · rename_i hne hnc
      cases h
      have hnot : id ∉ (get t s).ready := by
        intro hm; exact hnc (List.contains_iff_mem.mpr hm)
      refine ⟨grow_put (fun hh => hh) (fun _ hh => hh) ?_ ?_ ?_, ?_, hnot⟩
      · intro p hp; exact List.mem_append_left _ hp
      · intro hh; rw [hs] at hh; cases hh
      · intro hnd
        show ((get t s).ready ++ [id]).Nodup
        rw [List.nodup_append]
        refine ⟨hnd, by simp, ?_⟩
        intro a ha b hb
        simp only [List.mem_singleton] at hb
        subst hb
        intro e; subst e; exact hnot ha
      · rw [get_put_same]; simp

/-- the waiter of a slot is woken with the first parent that becomes ready, and deregistered -/
theorem addToReady_wakes {t : Tracker} {s : Nat} {id : Nat × Nat} {t' : Tracker} {w : List Wake}
    (h : addToReady t s id = some (t', w)) (hw : (get t s).waiter = true) (hr : (get t s).ready = []) :
    w = [(s, id)] ∧ (get t' s).waiter = false ∧ (get t' s).ready = [id] := by
  unfold addToReady at h
  simp only [hr, List.isEmpty_nil, if_true, hw] at h
  cases h
  rw [get_put_same]
  exact ⟨rfl, rfl, rfl⟩

theorem addAllToReady_spec {t : Tracker} {s : Nat} {ids : List (Nat × Nat)} {t' : Tracker} {w : List Wake}
    (hs : isWindowStart s = true) (h : addAllToReady t s ids = some (t', w)) :
    Grow t t' ∧ ∀ p ∈ ids, p ∈ (get t' s).ready := by
  induction ids generalizing t w with
  | nil => simp only [addAllToReady] at h; cases h; exact ⟨Grow.refl _, by simp⟩
  | cons id rest ih =>
    simp only [addAllToReady] at h
    split at h
    · cases h
    · rename_i t1 w1 h1
      split at h
      · cases h
      · rename_i t2 w2 h2
        cases h
        have ⟨g1, m1, _⟩ := addToReady_spec hs h1
        have ⟨g2, m2⟩ := ih h2
        refine ⟨g1.trans g2, ?_⟩
        intro p hp
        rcases List.mem_cons.mp hp with e | hr
        · subst e; exact g2.ready s p m1
        · exact m2 p hr

/-- The forward loop: every announced pair `(slot, parent)` is for a window start and is in that slot's ready list
    afterwards; nothing known is lost. -/
theorem fwd_spec {f : Nat} {t : Tracker} {slot : Nat} {ids : List (Nat × Nat)}
    {t' : Tracker} {new : List (Nat × (Nat × Nat))} {w : List Wake}
    (h : fwd f t slot ids = some (t', new, w)) :
    Grow t t' ∧ ∀ a ∈ new, isWindowStart a.1 = true ∧ a.2 ∈ (get t' a.1).ready ∧ a.2 ∈ ids := by
  induction f generalizing t slot new w with
  | zero => simp only [fwd] at h; cases h; exact ⟨Grow.refl _, by simp⟩
  | succ f ih =>
    simp only [fwd] at h
    by_cases hs : isWindowStart slot = true
    · simp only [hs, if_true] at h
      split at h
      · cases h
      · rename_i t1 w1 h1
        have ⟨g1, m1⟩ := addAllToReady_spec hs h1
        have g01 : Grow t t1 := (grow_touch t slot).trans g1
        split at h
        · split at h
          · cases h
          · rename_i t2 new2 w2 h2
            cases h
            have ⟨g2, m2⟩ := ih h2
            refine ⟨g01.trans g2, ?_⟩
            intro a ha
            rcases List.mem_append.mp ha with h1' | h2'
            · obtain ⟨p, hp, rfl⟩ := List.mem_map.mp h1'
              exact ⟨hs, g2.ready slot p (m1 p hp), hp⟩
            · exact m2 a h2'
        · cases h
          refine ⟨g01, ?_⟩
          intro a ha
          obtain ⟨p, hp, rfl⟩ := List.mem_map.mp ha
          exact ⟨hs, m1 p hp, hp⟩
    · have hs' : isWindowStart slot = false := by simpa using hs
      simp only [hs', Bool.false_eq_true, if_false] at h
      have g01 : Grow t (touch t slot) := grow_touch t slot
      split at h
      · split at h
        · cases h
        · rename_i t2 new2 w2 h2
          cases h
          have ⟨g2, m2⟩ := ih h2
          refine ⟨g01.trans g2, ?_⟩
          intro a ha
          simp only [List.nil_append] at ha
          exact m2 a ha
      · cases h
        exact ⟨g01, by simp⟩

theorem mem_insertSorted {x y : Nat × Nat} {l : List (Nat × Nat)} :
    y ∈ insertSorted x l ↔ y = x ∨ y ∈ l := by
  induction l with
  | nil => simp [insertSorted]
  | cons z zs ih =>
    simp only [insertSorted]
    split
    · simp
    · simp only [List.mem_cons, ih]
      constructor
      · rintro (h | h | h)
        · exact Or.inr (Or.inl h)
        · exact Or.inl h
        · exact Or.inr (Or.inr h)
      · rintro (h | h | h)
        · exact Or.inr (Or.inl h)
        · exact Or.inl h
        · exact Or.inr (Or.inr h)

theorem mem_sortBlocks {y : Nat × Nat} {l : List (Nat × Nat)} : y ∈ sortBlocks l ↔ y ∈ l := by
  unfold sortBlocks
  induction l with
  | nil => simp
  | cons z zs ih => simp only [List.foldr_cons, mem_insertSorted, ih, List.mem_cons]

theorem grow_top (t : Tracker) (n : Nat) : Grow t { t with top := max t.top n } :=
  ⟨rfl, Nat.le_max_left _ _, fun _ h => h, fun _ _ h => h, fun _ _ h => h, fun _ _ => rfl, fun _ h => h⟩

theorem collect_grow {marked n : Nat} {t : Tracker} {s1 : Nat} {acc : List (Nat × Nat)} :
    Grow t (collect marked n t s1 acc).1 := by
  induction n generalizing t s1 acc with
  | zero => exact Grow.refl _
  | succ n ih =>
    simp only [collect]
    split
    · exact grow_touch _ _
    · exact (grow_touch _ _).trans ih

/-- result of a mark: nothing is lost; every announced pair is for a window start and is then answered by the query -/
def MarkOk (t t' : Tracker) (ann : List (Nat × (Nat × Nat))) : Prop :=
  Grow t t' ∧ ∀ a ∈ ann, isWindowStart a.1 = true ∧ a.2 ∈ parentsReady t' a.1

theorem markNotarFallback_ok {t : Tracker} {id : Nat × Nat} {t' : Tracker}
    {ann : List (Nat × (Nat × Nat))} {w : List Wake}
    (h : markNotarFallback t id = some (t', ann, w)) : MarkOk t t' ann := by
  unfold markNotarFallback at h
  split at h
  · cases h; exact ⟨Grow.refl _, by simp⟩
  · simp only at h
    split at h
    · cases h; exact ⟨grow_touch _ _, by simp⟩
    · have g1 : Grow t (put t id.1 { get t id.1 with nfs := (get t id.1).nfs ++ [id.2] }) :=
        grow_put (fun hh => hh) (fun _ hh => List.mem_append_left _ hh) (fun _ hh => hh) (fun _ => rfl) (fun hh => hh)
      have ⟨g2, m⟩ := fwd_spec h
      refine ⟨g1.trans g2, ?_⟩
      intro a ha
      rw [parentsReady_eq_get]
      exact ⟨(m a ha).1, (m a ha).2.1⟩

theorem markSkipped_ok {t : Tracker} {ms : Nat} {t' : Tracker}
    {ann : List (Nat × (Nat × Nat))} {w : List Wake}
    (h : markSkipped t ms = some (t', ann, w)) : MarkOk t t' ann := by
  unfold markSkipped at h
  split at h
  · cases h; exact ⟨Grow.refl _, by simp⟩
  · simp only at h
    split at h
    · cases h; exact ⟨grow_touch _ _, by simp⟩
    · have g1 : Grow t (put t ms { get t ms with skip := true }) :=
        grow_put (fun _ => rfl) (fun _ hh => hh) (fun _ hh => hh) (fun _ => rfl) (fun hh => hh)
      have g2 := grow_top (put t ms { get t ms with skip := true }) ms
      have g3 := @collect_grow ms (ms + 1 - max (windowFirst ms) t.root)
        { put t ms { get t ms with skip := true } with top := max t.top ms } (ms + 1) []
      have ⟨g4, m⟩ := fwd_spec h
      refine ⟨((g1.trans g2).trans g3).trans g4, ?_⟩
      intro a ha
      rw [parentsReady_eq_get]
      exact ⟨(m a ha).1, (m a ha).2.1⟩

theorem MarkOk.append {a b c : Tracker} {l1 l2 : List (Nat × (Nat × Nat))}
    (h1 : MarkOk a b l1) (h2 : MarkOk b c l2) : MarkOk a c (l1 ++ l2) := by
  refine ⟨h1.1.trans h2.1, ?_⟩
  intro x hx
  rcases List.mem_append.mp hx with h | h
  · have ⟨s, m⟩ := h1.2 x h
    rw [parentsReady_eq_get] at m ⊢
    exact ⟨s, h2.1.ready _ _ m⟩
  · exact h2.2 x h

theorem markAllNf_ok {t : Tracker} {bs : List (Nat × Nat)} {t' : Tracker}
    {ann : List (Nat × (Nat × Nat))} {w : List Wake}
    (h : markAllNf t bs = some (t', ann, w)) : MarkOk t t' ann := by
  induction bs generalizing t ann w with
  | nil => simp only [markAllNf] at h; cases h; exact ⟨Grow.refl _, by simp⟩
  | cons b rest ih =>
    simp only [markAllNf] at h
    split at h
    · cases h
    · rename_i t1 n1 w1 h1
      split at h
      · cases h
      · rename_i t2 n2 w2 h2
        cases h
        exact (markNotarFallback_ok h1).append (ih h2)

theorem markAllSkipped_ok {t : Tracker} {ss : List Nat} {t' : Tracker}
    {ann : List (Nat × (Nat × Nat))} {w : List Wake}
    (h : markAllSkipped t ss = some (t', ann, w)) : MarkOk t t' ann := by
  induction ss generalizing t ann w with
  | nil => simp only [markAllSkipped] at h; cases h; exact ⟨Grow.refl _, by simp⟩
  | cons b rest ih =>
    simp only [markAllSkipped] at h
    split at h
    · cases h
    · rename_i t1 n1 w1 h1
      split at h
      · cases h
      · rename_i t2 n2 w2 h2
        cases h
        exact (markSkipped_ok h1).append (ih h2)

theorem lastMax_mem {l : List (Nat × (Nat × Nat))} {x : Nat × (Nat × Nat)} (h : lastMax l = some x) : x ∈ l := by
  induction l generalizing x with
  | nil => simp [lastMax] at h
  | cons y ys ih =>
    simp only [lastMax] at h
    split at h
    · cases h; simp
    · rename_i z hz
      split at h
      · cases h; exact List.mem_cons_of_mem _ (ih hz)
      · cases h; simp

/-- the pair kept by `handle_finalization` has the highest slot of the batch -/
theorem lastMax_max {l : List (Nat × (Nat × Nat))} {x : Nat × (Nat × Nat)} (h : lastMax l = some x) :
    ∀ y ∈ l, y.1 ≤ x.1 := by
  induction l generalizing x with
  | nil => simp
  | cons z zs ih =>
    simp only [lastMax] at h
    split at h
    · rename_i hn
      cases h
      intro y hy
      rcases List.mem_cons.mp hy with e | hr
      · subst e; exact Nat.le_refl _
      · cases zs with
        | nil => cases hr
        | cons q qs =>
          simp only [lastMax] at hn
          split at hn <;> (try split at hn) <;> cases hn
    · rename_i m hm
      intro y hy
      split at h
      · cases h
        rcases List.mem_cons.mp hy with e | hr
        · subst e; assumption
        · exact ih hm y hr
      · cases h
        rcases List.mem_cons.mp hy with e | hr
        · subst e; exact Nat.le_refl _
        · have := ih hm y hr; omega

theorem lastMax_none {l : List (Nat × (Nat × Nat))} (h : lastMax l = none) : l = [] := by
  cases l with
  | nil => rfl
  | cons y ys =>
    simp only [lastMax] at h
    split at h <;> (try split at h) <;> cases h

theorem handleFinalization_ok {t : Tracker} {ev : Finality.Event} {t' : Tracker}
    {ann : List (Nat × (Nat × Nat))} {w : List Wake}
    (h : handleFinalization t ev = some (t', ann, w)) : MarkOk t t' ann := by
  unfold handleFinalization at h
  split at h
  · cases h
  · rename_i t1 n1 w1 h1
    split at h
    · cases h
    · rename_i t2 n2 w2 h2
      cases h
      have all := (markAllNf_ok h1).append (markAllSkipped_ok h2)
      refine ⟨all.1, ?_⟩
      intro a ha
      cases hl : lastMax (n1 ++ n2) with
      | none => rw [hl] at ha; cases ha
      | some x =>
        rw [hl] at ha
        simp only [Option.toList_some, List.mem_singleton] at ha
        subst ha
        exact all.2 a (lastMax_mem hl)

end AgModel.ParentReady
