import AgModel.Proofs.BlockProducer
import AgModel.Proofs.BlockstoreOwn
/-! The slices a producer run emits, seen as a block of a correct leader (`Blockstore.HBlock`) that is well-formed
    (`HBlock.WF`): the bridge from `AgModel.BlockProducer` to the follower-side theorems of C13. -/
namespace AgModel.BlockProducer
open AgModel.Blockstore

def txIds (o : SliceOut) : List Nat := o.payload.txs.map (·.id)

/-- what a follower decodes from ≥ 32 shreds of the slice (`ReconstructedSlice`) -/
def rsOf (root : Nat → Nat) (o : SliceOut) : RSlice :=
  ⟨o.index, o.isLast, root o.index, o.payload.parent, some (txIds o)⟩

theorem foldSlices_cons_none (r : RSlice) (rest : List RSlice) (P : Nat × Nat) (sw : Bool) (acc t : List Nat)
    (hp : r.parent = none) (ht : r.txs = some t) :
    foldSlices (r :: rest) P sw acc = foldSlices rest P sw (acc ++ t) := by
  rw [foldSlices]
  by_cases h : r.slice ≠ 0 <;> simp [h, hp, ht]

theorem foldSlices_cons_zero (r : RSlice) (rest : List RSlice) (P : Nat × Nat) (sw : Bool) (acc t : List Nat)
    (hz : r.slice = 0) (ht : r.txs = some t) :
    foldSlices (r :: rest) P sw acc = foldSlices rest P sw (acc ++ t) := by
  rw [foldSlices]
  simp [hz, ht]

theorem foldSlices_cons_switch (r : RSlice) (rest : List RSlice) (P np : Nat × Nat) (acc t : List Nat)
    (hs : r.slice ≠ 0) (hp : r.parent = some np) (hne : np ≠ P) (ht : r.txs = some t) :
    foldSlices (r :: rest) P false acc = foldSlices rest np true (acc ++ t) := by
  rw [foldSlices]
  simp [hs, hp, hne, ht]

theorem step_nil_parent (c : Cfg) (s : PState) (si : SliceIn) (h : (step c s si).2 = []) :
    (step c s si).1.parent = s.parent := by
  rcases step_cases c s si with (⟨_, _, _, hp⟩ | ⟨heq, _⟩) | ⟨_, isLast, heq, _, _⟩
  · exact hp
  · rw [heq]
  · rw [heq] at h; simp at h

theorem run_cons (c : Cfg) (s : PState) (si : SliceIn) (rest : List SliceIn) :
    run c s (si :: rest) = ((run c (step c s si).1 rest).1, (step c s si).2 ++ (run c (step c s si).1 rest).2) := rfl

/-- the follower's handover fold over the slices emitted from slice index ≥ 1 on ends with the producer's parent -/
theorem fold_run (c : Cfg) (root : Nat → Nat) (ins : List SliceIn) (s : PState) (hk1 : 1 ≤ s.k)
    (P : Nat × Nat) (sw : Bool) (acc : List Nat) (hP : s.parent = P) (hns : s.seen = false → sw = false ∧ P = c.parent) :
    foldSlices ((run c s ins).2.map (rsOf root)) P sw acc =
      some ((run c s ins).1.parent, acc ++ (run c s ins).2.flatMap txIds) := by
  induction ins generalizing s P sw acc with
  | nil => simp [run, foldSlices, hP]
  | cons si rest ih =>
    rcases step_cases c s si with (⟨h2, hnr, _, _⟩ | ⟨heq, hnr⟩) | ⟨_, isLast, heq, _, _⟩
    · rw [run_cons, run_stopped c _ rest hnr, h2]
      simp [foldSlices, step_nil_parent c s si h2, hP]
    · rw [run_stopped c s _ hnr]
      simp [foldSlices, hP]
    · rw [run_cons, heq]
      simp only [List.singleton_append, List.map_cons, List.flatMap_cons]
      have hidx : s.k ≠ 0 := by omega
      have hbase : baseParent c s = none := by simp [baseParent, hidx]
      cases hseen : s.seen with
      | true =>
        have hsp : sliceParent c s si = none := by simp [sliceParent, prApplies, hseen, hbase]
        have hnp : newParent c s si = P := by simp [newParent, prApplies, hseen, hP]
        rw [foldSlices_cons_none _ _ _ _ _ (txIds _) (by simp [rsOf, hsp]) rfl]
        rw [ih _ (by simp) P sw _ hnp (by simp)]
        simp [List.append_assoc]
      | false =>
        obtain ⟨hsw, hPc⟩ := hns hseen
        cases hpr : si.pr with
        | none =>
          have hsp : sliceParent c s si = none := by simp [sliceParent, prApplies, hseen, hpr, hbase]
          have hnp : newParent c s si = P := by simp [newParent, prApplies, hseen, hpr, hP]
          rw [foldSlices_cons_none _ _ _ _ _ (txIds _) (by simp [rsOf, hsp]) rfl]
          rw [ih _ (by simp) P sw _ hnp (by intro _; exact ⟨hsw, hPc⟩)]
          simp [List.append_assoc]
        | some np =>
          by_cases hh : np.2 = c.parent.2
          · have hsp : sliceParent c s si = none := by simp [sliceParent, prApplies, hseen, hpr, hbase, hh]
            have hnp : newParent c s si = P := by simp [newParent, prApplies, hseen, hpr, hP, hh]
            rw [foldSlices_cons_none _ _ _ _ _ (txIds _) (by simp [rsOf, hsp]) rfl]
            rw [ih _ (by simp) P sw _ hnp (by simp [hpr])]
            simp [List.append_assoc]
          · have hsp : sliceParent c s si = some np := by simp [sliceParent, prApplies, hseen, hpr, hh]
            have hnp : newParent c s si = np := by simp [newParent, prApplies, hseen, hpr, hh]
            have hne : np ≠ P := by rw [hPc]; intro h; exact hh (by rw [h])
            subst hsw
            rw [foldSlices_cons_switch _ _ _ np _ (txIds _) (by simpa [rsOf] using hidx) (by simp [rsOf, hsp]) hne rfl]
            rw [ih _ (by simp) np true _ hnp (by simp [hpr])]
            simp [List.append_assoc]

/-- the first slice of a block always carries the parent the block has after that slice -/
theorem first_slice_parent (c : Cfg) (s : PState) (si : SliceIn) (hk : s.k = 0) (hp : s.parent = c.parent) :
    sliceParent c s si = some (newParent c s si) := by
  unfold sliceParent newParent baseParent
  cases prApplies s si with
  | none => simp [hk, hp]
  | some np => by_cases hh : np.2 = c.parent.2 <;> simp [hh, hk, hp]

/-- **the follower's fold accepts what the producer emits**: from the initial state, the first slice carries a parent
    `p`, and `foldSlices` over all emitted slices starting from `p` ends with the producer's final parent and the
    concatenation of the slices' transactions -/
theorem fold_produce (c : Cfg) (root : Nat → Nat) (ins : List SliceIn) (hne : (produce c ins).2 ≠ []) :
    ∃ o p, (produce c ins).2.head? = some o ∧ o.index = 0 ∧ o.payload.parent = some p ∧
      foldSlices ((produce c ins).2.map (rsOf root)) p false [] =
        some ((produce c ins).1.parent, (produce c ins).2.flatMap txIds) := by
  unfold produce at hne ⊢
  cases ins with
  | nil => simp [run] at hne
  | cons si rest =>
    rcases step_cases c (init c) si with (⟨h2, hnr, _, _⟩ | ⟨_, hnr⟩) | ⟨_, isLast, heq, _, _⟩
    · rw [run_cons, run_stopped c _ rest hnr, h2] at hne; simp at hne
    · simp [init] at hnr
    · rw [run_cons, heq]
      have hfp := first_slice_parent c (init c) si rfl rfl
      refine ⟨_, newParent c (init c) si, rfl, rfl, hfp, ?_⟩
      simp only [List.singleton_append, List.map_cons, List.flatMap_cons]
      rw [foldSlices_cons_zero _ _ _ _ _ (txIds _) rfl rfl]
      rw [fold_run c root rest _ (by simp [init]) (newParent c (init c) si) false _ rfl]
      · simp
      · intro hs
        simp only [init, Bool.or_eq_false_iff] at hs
        refine ⟨rfl, ?_⟩
        have hpr : si.pr = none := by simpa using hs.2
        simp [newParent, prApplies, hpr, init]

theorem step_parent (c : Cfg) (s : PState) (si : SliceIn) :
    (step c s si).1.parent = s.parent ∨ ∃ np, si.pr = some np ∧ (step c s si).1.parent = np := by
  rcases step_cases c s si with (⟨h2, _, _, _⟩ | ⟨heq, _⟩) | ⟨_, isLast, heq, _, _⟩
  · exact Or.inl (step_nil_parent c s si h2)
  · rw [heq]; exact Or.inl rfl
  · rw [heq]
    simp only [newParent, prApplies]
    cases s.seen with
    | true => simp
    | false =>
      cases hpr : si.pr with
      | none => simp
      | some np => by_cases hh : np.2 = c.parent.2 <;> simp [hh]

/-- the producer's parent is always the given one or a received ParentReady -/
theorem run_parent_slot (c : Cfg) (ins : List SliceIn) (s : PState) (bound : Nat) (hs : s.parent.1 < bound)
    (hpr : ∀ si ∈ ins, ∀ np, si.pr = some np → np.1 < bound) : (run c s ins).1.parent.1 < bound := by
  induction ins generalizing s with
  | nil => exact hs
  | cons si rest ih =>
    rw [run_cons]
    apply ih
    · rcases step_parent c s si with h | ⟨np, h1, h2⟩
      · rw [h]; exact hs
      · rw [h2]; exact hpr si List.mem_cons_self np h1
    · intro x hx; exact hpr x (List.mem_cons_of_mem _ hx)

/-- the produced slices as a block of a (correct) leader, in the vocabulary of the follower-side theorems -/
def toHBlock (c : Cfg) (root sz : Nat → Nat) (r : PState × List SliceOut) : HBlock :=
  { slot := c.slot, n := r.2.length, root := root, sz := sz,
    parent := fun i => (r.2[i]?).bind (·.payload.parent),
    txs := fun i => ((r.2[i]?).map txIds).getD [],
    fparent := r.1.parent }

theorem index_of_map_range' (outs : List SliceOut) (h : outs.map (·.index) = List.range' 0 outs.length)
    (i : Nat) (hi : i < outs.length) : outs[i].index = i := by
  have h' := congrArg (fun l => l[i]?) h
  simp only [List.getElem?_map, List.getElem?_eq_getElem hi, Option.map_some] at h'
  rw [List.getElem?_range' (by omega)] at h'
  simpa using h'

/-- **the `HBlock` is exactly what was produced**: slice `i` of the block is the `i`-th emitted slice - its index, its
    last flag (`i + 1 = n`), its parent field and its transactions -/
theorem toHBlock_faithful (c : Cfg) (root sz : Nat → Nat) (ins : List SliceIn) (hd : (produce c ins).1.status = .done) :
    (List.range (toHBlock c root sz (produce c ins)).n).map (toHBlock c root sz (produce c ins)).rslice =
      (produce c ins).2.map (rsOf root) := by
  obtain ⟨h1, _, _, _, h5, _, _⟩ := run_spec c ins (init c) max_slices_pos rfl _ rfl
  obtain ⟨pre, l, hpl, hl, hpre⟩ := h5 hd
  apply List.ext_getElem
  · simp [toHBlock]
  · intro i hi1 hi2
    have hi : i < (produce c ins).2.length := by simpa using hi2
    have hidx : (produce c ins).2[i].index = i := index_of_map_range' _ h1 i hi
    have hlast : ((produce c ins).2[i]).isLast = decide (i + 1 = (produce c ins).2.length) := by
      have hlen : (produce c ins).2.length = pre.length + 1 := by
        show (run c (init c) ins).2.length = _
        rw [hpl]; simp
      have hget : (produce c ins).2[i] = (pre ++ [l])[i]'(by simp; omega) := by
        show (run c (init c) ins).2[i] = _
        simp only [hpl]
      rw [hget, hlen]
      by_cases hip : i < pre.length
      · rw [List.getElem_append_left hip, hpre _ (List.getElem_mem hip)]
        simp; omega
      · have : i = pre.length := by omega
        subst this
        simp [hl]
    simp only [List.getElem_map, List.getElem_range, HBlock.rslice, HBlock.isLast, toHBlock, rsOf,
      List.getElem?_eq_getElem hi, Option.bind_some, Option.map_some, Option.getD_some, hidx, hlast]

theorem toHBlock_allTxs (c : Cfg) (root sz : Nat → Nat) (r : PState × List SliceOut) :
    (toHBlock c root sz r).allTxs = r.2.flatMap txIds := by
  unfold HBlock.allTxs
  have : (List.range (toHBlock c root sz r).n).map (toHBlock c root sz r).txs = r.2.map txIds := by
    apply List.ext_getElem
    · simp [toHBlock]
    · intro i hi1 hi2
      have hi : i < r.2.length := by simpa using hi2
      simp [toHBlock, List.getElem?_eq_getElem hi]
  rw [List.flatMap_def, this, ← List.flatMap_def]

/-- **what a producer run emits is a well-formed block of a correct leader** (for every decoder `env` that decodes the
    root of each emitted slice to what the leader encoded - the Reed-Solomon law of C13, C11 covers the shredder) -/
theorem produce_wf (c : Cfg) (root sz : Nat → Nat) (env : Nat → Content) (cap : Nat) (ins : List SliceIn)
    (hd : (produce c ins).1.status = .done) (hcap : MAX_SLICES ≤ cap) (hsz : ∀ i, sz i ≠ 0)
    (henv : ∀ o ∈ (produce c ins).2, env (root o.index) = .ok o.payload.parent (some (txIds o)))
    (hp : c.parent.1 < c.slot) (hpr : ∀ si ∈ ins, ∀ np, si.pr = some np → np.1 < c.slot) :
    (toHBlock c root sz (produce c ins)).WF env cap := by
  obtain ⟨h1, h2, _, _, h5, _, _⟩ := run_spec c ins (init c) max_slices_pos rfl _ rfl
  obtain ⟨pre, l, hpl, _, _⟩ := h5 hd
  have hne : (produce c ins).2 ≠ [] := by
    show (run c (init c) ins).2 ≠ []
    rw [hpl]; simp
  obtain ⟨o, p, ho, ho0, hop, hfold⟩ := fold_produce c root ins hne
  refine ⟨?_, ?_, hsz, ?_, ?_, ?_⟩
  · show 0 < (produce c ins).2.length
    exact List.length_pos_iff.mpr hne
  · show (produce c ins).2.length ≤ cap
    have : (init c).k = 0 := rfl
    simp only [this, Nat.zero_add] at h2
    exact Nat.le_trans h2 hcap
  · intro i hi
    have hi' : i < (produce c ins).2.length := hi
    have hidx : (produce c ins).2[i].index = i := index_of_map_range' _ h1 i hi'
    have := henv _ (List.getElem_mem hi')
    rw [hidx] at this
    simp [toHBlock, List.getElem?_eq_getElem hi', this]
  · refine ⟨p, ?_, ?_⟩
    · have hpos : 0 < (produce c ins).2.length := List.length_pos_iff.mpr hne
      have : (produce c ins).2[0] = o := by
        have := List.head?_eq_getElem? (l := (produce c ins).2)
        rw [ho, List.getElem?_eq_getElem hpos] at this
        exact (Option.some.inj this).symm
      simp [toHBlock, List.getElem?_eq_getElem hpos, this, hop]
    · rw [toHBlock_faithful c root sz ins hd, toHBlock_allTxs]
      exact hfold
  · exact run_parent_slot c ins (init c) c.slot hp hpr

end AgModel.BlockProducer
