import AgModel.Proofs.PoolS2NGlueViews
/-! Pool-level glue for C06, part 2: per-slot predicates through the pool plumbing (`SlotsSat`), the waiting map
    only holds registered children (`WaitReg`), and what `notify_parent_certified` / `notify_parent_known` do to a
    slot state. -/
namespace AgModel.Pool

/-! ### slot-state facts -/

theorem isNfOrStronger_coreEq {a b : SlotState} (h : CoreEq a b) (x : Nat) : a.isNfOrStronger x = b.isNfOrStronger x := by
  have h1 : a.cNotar = b.cNotar := (congrArg SlotState.cNotar h.eq : a.core.cNotar = b.core.cNotar)
  have h2 : a.cNf = b.cNf := (congrArg SlotState.cNf h.eq : a.core.cNf = b.core.cNf)
  have h4 : a.cFf = b.cFf := (congrArg SlotState.cFf h.eq : a.core.cFf = b.core.cFf)
  unfold SlotState.isNfOrStronger SlotState.isNf
  rw [h1, h2, h4]

theorem isNfOrStronger_init (s x : Nat) : ({ slot := s } : SlotState).isNfOrStronger x = false := rfl

/-- what a successful `notify_parent_certified` does: the entry of `h` (which existed) is now `true`, every other
    entry and all certificates are untouched -/
theorem notifyParentCertified_spec {e : Epoch} {st : SlotState} {h : Nat} {st' : SlotState} {evs : List Event}
    (hn : st.notifyParentCertified e h = some (st', evs)) :
    st'.slot = st.slot ∧ (st.parents.lookup h).isSome = true ∧
    (∀ x, st'.parents.lookup x = if x = h then (st.parents.lookup x).map (fun _ => true) else st.parents.lookup x) ∧
    (∀ x, st'.isNfOrStronger x = st.isNfOrStronger x) := by
  have hce := notifyParentCertified_core e st h st' evs hn
  refine ⟨(coreEq_slot hce).symm, ?_, ?_, fun x => (isNfOrStronger_coreEq hce x).symm⟩
  · unfold SlotState.notifyParentCertified at hn
    split at hn
    · cases hn
    · rename_i b hb; rw [hb]; rfl
  · intro x
    unfold SlotState.notifyParentCertified at hn
    split at hn
    · cases hn
    · dsimp only at hn
      split at hn
      · cases hn
        exact lookup_map_certified st.parents h x
      · cases hn
        rw [checkS2N_parents]
        exact lookup_map_certified st.parents h x

/-- `notify_parent_certified` itself only emits safe-to-notar / repair events -/
theorem notifyParentCertified_events {e : Epoch} {st : SlotState} {h : Nat} {st' : SlotState} {evs : List Event}
    (hn : st.notifyParentCertified e h = some (st', evs)) : Event.panic ∉ evs := by
  intro hev
  unfold SlotState.notifyParentCertified at hn
  split at hn
  · cases hn
  · dsimp only at hn
    split at hn
    · cases hn; cases hev
    · cases hn
      generalize (SlotState.checkS2N _ _ h).2 = res at hev
      cases res <;> simp [s2nOut] at hev

theorem notifyParentCertified_isSome {e : Epoch} {st : SlotState} {h : Nat} (hk : (st.parents.lookup h).isSome = true) :
    ∃ st' evs, st.notifyParentCertified e h = some (st', evs) := by
  unfold SlotState.notifyParentCertified
  split
  · rename_i hn; rw [hn] at hk; cases hk
  · dsimp only
    split
    · exact ⟨_, _, rfl⟩
    · exact ⟨_, _, rfl⟩

theorem notifyParentKnown_spec (st : SlotState) (h : Nat) :
    (st.notifyParentKnown h).slot = st.slot ∧ ((st.notifyParentKnown h).parents.lookup h).isSome = true ∧
    (∀ x f, st.parents.lookup x = some f → (st.notifyParentKnown h).parents.lookup x = some f) ∧
    (∀ x, (st.notifyParentKnown h).parents.lookup x = some true → st.parents.lookup x = some true) ∧
    (∀ x, (st.notifyParentKnown h).isNfOrStronger x = st.isNfOrStronger x) := by
  unfold SlotState.notifyParentKnown
  split
  · rename_i hs
    exact ⟨rfl, hs, fun _ _ hx => hx, fun _ hx => hx, fun _ => rfl⟩
  · rename_i hs
    have hn : st.parents.lookup h = none := by
      cases hh : st.parents.lookup h with
      | none => rfl
      | some b => rw [hh] at hs; simp at hs
    refine ⟨rfl, ?_, ?_, ?_, fun _ => rfl⟩
    · dsimp only; rw [lookup_append_known _ _ _ hn]; simp
    · intro x f hx
      dsimp only; rw [lookup_append_known _ _ _ hn]
      by_cases hxh : x = h
      · subst hxh; rw [hn] at hx; cases hx
      · simp only [hxh, if_false]; exact hx
    · intro x hx
      dsimp only at hx; rw [lookup_append_known _ _ _ hn] at hx
      by_cases hxh : x = h
      · simp only [hxh, if_true] at hx; cases hx
      · simp only [hxh, if_false] at hx; exact hx

theorem addVote_parents (e : Epoch) (st : SlotState) (v : Vote) : (st.addVote e v).1.parents = st.parents := by
  have h := (addVote_same e st v).parents
  rw [← h]
  unfold SlotState.stored; cases v.kind <;> rfl

theorem addVote_isNfOrStronger (e : Epoch) (st : SlotState) (v : Vote) (x : Nat) :
    (st.addVote e v).1.isNfOrStronger x = st.isNfOrStronger x := by
  rw [isNfOrStronger_coreEq (addVote_core e st v) x]
  unfold SlotState.isNfOrStronger
  rw [stored_cNotar, stored_cFf, stored_isNf]

theorem addVote_slot (e : Epoch) (st : SlotState) (v : Vote) : (st.addVote e v).1.slot = st.slot := by
  rw [coreEq_slot (addVote_core e st v), stored_slot]

theorem addCert_parents (st : SlotState) (c : Cert) : (st.addCert c).parents = st.parents :=
  (addCert_same st c).1.parents.symm

theorem addCert_slot (st : SlotState) (c : Cert) : (st.addCert c).slot = st.slot :=
  (addCert_same st c).1.slot.symm

def Cert.strong (c : Cert) : Prop := c.kind = .notar ∨ c.kind = .nf ∨ c.kind = .ff

/-- a stored certificate certifies at most its own block, and only if it is a notarization, notar-fallback or
    fast-finalization certificate -/
theorem addCert_isNfOrStronger (st : SlotState) (c : Cert) (x : Nat) (h : (st.addCert c).isNfOrStronger x = true) :
    st.isNfOrStronger x = true ∨ (c.strong ∧ x = c.hash) := by
  unfold SlotState.addCert at h
  unfold Cert.strong
  cases hk : c.kind <;> simp only [hk] at h
  · unfold SlotState.isNfOrStronger at h ⊢
    simp only [Bool.or_eq_true] at h ⊢
    rcases h with (h | h) | h
    · right; exact ⟨by simp, (by simpa using h : c.hash = x).symm⟩
    · left; exact Or.inl (Or.inr h)
    · left; exact Or.inr h
  · split at h
    · exact Or.inl h
    · unfold SlotState.isNfOrStronger SlotState.isNf at h ⊢
      simp only [Bool.or_eq_true, List.any_append, List.any_cons, List.any_nil, Bool.or_false] at h ⊢
      rcases h with (h | h) | h | h
      · left; exact Or.inl (Or.inl h)
      · left; exact Or.inl (Or.inr h)
      · left; exact Or.inr h
      · right; exact ⟨by simp, (by simpa using h : c.hash = x).symm⟩
  · exact Or.inl h
  · unfold SlotState.isNfOrStronger at h ⊢
    simp only [Bool.or_eq_true] at h ⊢
    rcases h with (h | h) | h
    · left; exact Or.inl (Or.inl h)
    · right; exact ⟨by simp, (by simpa using h : c.hash = x).symm⟩
    · left; exact Or.inr h
  · exact Or.inl h

/-! ### modifying one slot state -/

theorem getSlot_mod (p : Pool) (s : Nat) (st' : SlotState) (hs : st'.slot = s) (s' : Nat) :
    ((p.slotState s).1.putSlot st').getSlot s' = if s' = s then some st' else p.getSlot s' := by
  rw [getSlot_putSlot, hs]
  by_cases h : s' = s
  · simp only [h, if_true]
  · simp only [h, if_false]; rw [getSlot_slotState]; simp only [h, if_false]

theorem mod_frame (p : Pool) (s : Nat) (st' : SlotState) :
    ((p.slotState s).1.putSlot st').epoch = p.epoch ∧ ((p.slotState s).1.putSlot st').fin = p.fin ∧
    ((p.slotState s).1.putSlot st').waiting = p.waiting := by
  obtain ⟨a, b, c⟩ := putSlot_frame (p.slotState s).1 st'
  obtain ⟨a', b', c'⟩ := slotState_frame p s
  exact ⟨a.trans a', b.trans b', c.trans c'⟩

/-! ### a per-slot predicate holds for every slot state the pool can look up -/

def SlotsSat (p : Pool) (Q : SlotState → Prop) : Prop := ∀ s st, p.getSlot s = some st → Q st

theorem SlotsSat.mono {p : Pool} {Q Q' : SlotState → Prop} (h : SlotsSat p Q) (hq : ∀ st, Q st → Q' st) : SlotsSat p Q' :=
  fun s st hg => hq st (h s st hg)

theorem SlotsSat.slotState_snd {p : Pool} {Q : SlotState → Prop} (h : SlotsSat p Q) (s : Nat) (hinit : Q { slot := s }) :
    Q (p.slotState s).2 := by
  cases hg : p.getSlot s with
  | none => rw [slotState_snd_of_none hg]; exact hinit
  | some st => rw [slotState_snd_of_some hg]; exact h s st hg

theorem SlotsSat.slotState {p : Pool} {Q : SlotState → Prop} (h : SlotsSat p Q) (s : Nat) (hinit : Q { slot := s }) :
    SlotsSat (p.slotState s).1 Q := by
  intro s' st hg
  rw [getSlot_slotState] at hg
  split at hg
  · cases hg; exact h.slotState_snd s hinit
  · exact h s' st hg

theorem SlotsSat.mod {p : Pool} {Q : SlotState → Prop} (h : SlotsSat p Q) (s : Nat) (st' : SlotState) (hinit : Q { slot := s })
    (hst : Q st') : SlotsSat ((p.slotState s).1.putSlot st') Q := by
  intro s' st hg
  rw [getSlot_putSlot] at hg
  split at hg
  · cases hg; exact hst
  · exact h.slotState s hinit s' st hg

theorem SlotsSat.advance {p : Pool} {Q : SlotState → Prop} (h : SlotsSat p Q) (t : Finality.Tracker) (r : ParentReady.Res) :
    SlotsSat (p.advance t r) Q := by
  intro s st hg
  rw [getSlot_advance] at hg
  split at hg
  · exact h s st hg
  · cases hg

theorem SlotsSat.applyPr {p : Pool} {Q : SlotState → Prop} (h : SlotsSat p Q) (r : ParentReady.Res) : SlotsSat (p.applyPr r).1 Q := by
  intro s st hg; rw [getSlot_applyPr] at hg; exact h s st hg

theorem SlotsSat.addWaiting {p : Pool} {Q : SlotState → Prop} (h : SlotsSat p Q) (par b : Nat × Nat) :
    SlotsSat (Pool.addWaiting p par b) Q := by
  intro s st hg; rw [getSlot_addWaiting] at hg; exact h s st hg

/-- the obligation at a call of `notify_parent_certified` for child `k` -/
def KidSite (e : Epoch) (Q : SlotState → Prop) (k : Nat × Nat) : Prop :=
  ∀ st st' evs, st.slot = k.1 → st.notifyParentCertified e k.2 = some (st', evs) → Q st → Q st'

theorem notifyChildren_frame (kids : List (Nat × Nat)) (p : Pool) (acc : List Event) :
    (p.notifyChildren kids acc).1.epoch = p.epoch ∧ (p.notifyChildren kids acc).1.fin = p.fin ∧
    (p.notifyChildren kids acc).1.waiting = p.waiting := by
  induction kids generalizing p acc with
  | nil => exact ⟨rfl, rfl, rfl⟩
  | cons k ks ih =>
    obtain ⟨cs, ch⟩ := k
    unfold Pool.notifyChildren
    split
    · exact ih p acc
    · dsimp only
      split
      · exact slotState_frame p cs
      · rename_i st' evs hn
        obtain ⟨a, b, c⟩ := ih ((p.slotState cs).1.putSlot st') (acc ++ evs)
        obtain ⟨a', b', c'⟩ := mod_frame p cs st'
        exact ⟨a.trans a', b.trans b', c.trans c'⟩

theorem notifyChildren_sat (e : Epoch) (Q : SlotState → Prop) (hinit : ∀ s, Q { slot := s }) (kids : List (Nat × Nat))
    (p : Pool) (acc : List Event) (he : p.epoch = e) (hs : SlotsSat p Q) (hk : ∀ k ∈ kids, p.fin.first ≤ k.1 → KidSite e Q k) :
    SlotsSat (p.notifyChildren kids acc).1 Q := by
  induction kids generalizing p acc with
  | nil => exact hs
  | cons k ks ih =>
    obtain ⟨cs, ch⟩ := k
    unfold Pool.notifyChildren
    split
    · exact ih p acc he hs (fun k hk' => hk k (by simp [hk']))
    · rename_i hge
      dsimp only
      split
      · exact hs.slotState cs (hinit cs)
      · rename_i st' evs hn
        have hep : (p.slotState cs).1.epoch = e := (slotState_frame p cs).1.trans he
        rw [hep] at hn
        have hq : Q st' := hk (cs, ch) (by simp) (by omega) _ st' evs (slotState_snd_slot p cs) hn (hs.slotState_snd cs (hinit cs))
        obtain ⟨a', b', _⟩ := mod_frame p cs st'
        exact ih _ _ (a'.trans he) (hs.mod cs st' (hinit cs) hq) (fun k hk' hf => hk k (by simp [hk']) (by rw [b'] at hf; exact hf))

theorem notifyWaiting_frame (p : Pool) (b : Nat × Nat) :
    (p.notifyWaiting b).1.epoch = p.epoch ∧ (p.notifyWaiting b).1.fin = p.fin ∧
    (p.notifyWaiting b).1.waiting = p.waiting.filter (·.1 ≠ b) := by
  unfold Pool.notifyWaiting
  exact notifyChildren_frame _ _ _

theorem notifyWaiting_sat (e : Epoch) (Q : SlotState → Prop) (hinit : ∀ s, Q { slot := s }) (p : Pool) (b : Nat × Nat)
    (he : p.epoch = e) (hs : SlotsSat p Q) (hk : ∀ k ∈ kidsOf p b, p.fin.first ≤ k.1 → KidSite e Q k) :
    SlotsSat (p.notifyWaiting b).1 Q := by
  unfold Pool.notifyWaiting
  exact notifyChildren_sat e Q hinit _ _ _ he (fun s st hg => hs s st hg) hk

/-! ### the waiting map only holds registered children -/

abbrev Reg := (Nat × Nat) × (Nat × Nat)

def WaitReg (R : List Reg) (p : Pool) : Prop := ∀ par kids, (par, kids) ∈ p.waiting → ∀ k ∈ kids, (k, par) ∈ R

theorem WaitReg.kidsOf {R : List Reg} {p : Pool} (h : WaitReg R p) {par k : Nat × Nat} (hk : k ∈ kidsOf p par) : (k, par) ∈ R := by
  obtain ⟨kids, hm, hk'⟩ := kidsOf_entry hk
  exact h par kids hm k hk'

theorem WaitReg.of_waiting {R : List Reg} {p q : Pool} (h : WaitReg R p) (hw : q.waiting = p.waiting) : WaitReg R q := by
  intro par kids hm; rw [hw] at hm; exact h par kids hm

theorem WaitReg.mono {R R' : List Reg} {p : Pool} (h : WaitReg R p) (hr : ∀ r ∈ R, r ∈ R') : WaitReg R' p :=
  fun par kids hm k hk => hr _ (h par kids hm k hk)

theorem WaitReg.advance {R : List Reg} {p : Pool} (h : WaitReg R p) (t : Finality.Tracker) (r : ParentReady.Res) :
    WaitReg R (p.advance t r) := by
  intro par kids' hm k hk
  rw [advance_waiting] at hm
  obtain ⟨kids, hm', hsub⟩ := pruneW_entry _ _ _ _ hm
  exact h par kids hm' k (hsub k hk)

theorem WaitReg.notifyWaiting {R : List Reg} {p : Pool} (h : WaitReg R p) (b : Nat × Nat) : WaitReg R (p.notifyWaiting b).1 := by
  intro par kids hm
  rw [(notifyWaiting_frame p b).2.2] at hm
  exact h par kids (List.mem_filter.mp hm).1

theorem WaitReg.addWaiting {R : List Reg} {p : Pool} (h : WaitReg R p) (par b : Nat × Nat) (hb : (b, par) ∈ R) :
    WaitReg R (Pool.addWaiting p par b) := by
  intro par' kids' hm k hk
  rcases addWaiting_entry p par b par' kids' hm with h1 | ⟨rfl, h2⟩
  · exact h par' kids' h1 k hk
  · rcases h2 k hk with rfl | ⟨kids, hm', hk'⟩
    · exact hb
    · exact h par' kids hm' k hk'

end AgModel.Pool
