import AgModel.Props.C14
import AgModel.Props.C15
import AgModel.Proofs.BlockstoreLive
/-!
Runs of the repair task (`AgModel.Repair`) over arbitrary event schedules, and the invariant that makes
the repair of a correct leader's block complete (helper lemmas for `Props/C14Live.lean`).
-/
namespace AgModel.Repair
open AgModel.Blockstore AgModel.Merkle HBlock

/-! ### the store -/

theorem storeGet_storeSet (cap : Nat) (st : Store) (slot slot' : Nat) (v : SlotData) :
    storeGet cap (storeSet st slot v) slot' = if slot' = slot then v else storeGet cap st slot' := by
  induction st with
  | nil => simp only [storeSet, storeGet]; split <;> simp_all [eq_comm]
  | cons kv rest ih =>
    obtain ⟨k0, w⟩ := kv
    simp only [storeSet]
    split
    · rename_i hk; subst hk
      simp only [storeGet]
      by_cases hh : k0 = slot'
      · simp [hh]
      · simp [hh]; intro h2; exact absurd h2.symm hh
    · rename_i hk
      simp only [storeGet, ih]
      by_cases hh : k0 = slot'
      · subst hh; simp [hk]
      · simp [hh]

theorem flag_dis (sd : SlotData) : (flag sd).1.dis = sd.dis := by unfold flag; split <;> rfl
theorem flag_rep' (sd : SlotData) : (flag sd).1.rep = sd.rep := by unfold flag; split <;> rfl

theorem flagIfBad_dis (sd : SlotData) (r : AddRes) : (flagIfBad sd r).1.dis = sd.dis := by
  unfold flagIfBad; split
  · exact flag_dis sd
  · rfl

theorem fileRepair_dis (sd : SlotData) (h : H) (b : BlockData) (r : AddRes) : (fileRepair sd h b r).1.dis = sd.dis := by
  unfold fileRepair
  split
  · split <;> rfl
  · rfl

theorem addRepair_dis (env : Nat → Content) (sd : SlotData) (h : H) (s : Shred) : (addRepair env sd h s).1.dis = sd.dis := by
  unfold addRepair
  simp only [flagIfBad_dis, fileRepair_dis]

theorem fileRepair_rep_other (sd : SlotData) (h h' : H) (b : BlockData) (r : AddRes) (hne : h' ≠ h) :
    repGet (fileRepair sd h b r).1.rep h' = repGet sd.rep h' := by
  unfold fileRepair
  split
  · split
    · simp only [repGet_repDel, hne, if_false]
    · simp only [repGet_repSet, hne, if_false]
  · simp only [repGet_repSet, hne, if_false]

theorem addRepair_rep_other (env : Nat → Content) (sd : SlotData) (h h' : H) (s : Shred) (hne : h' ≠ h) :
    repGet (addRepair env sd h s).1.rep h' = repGet sd.rep h' := by
  unfold addRepair
  simp only [flagIfBad_rep]
  exact fileRepair_rep_other sd h h' _ _ hne

/-- filing a shred of the leader in a spot that holds only the leader's data -/
theorem addRepair_honest (B : HBlock) (env : Nat → Content) (cap : Nat) (hwf : B.WF env cap) (sd : SlotData) (s : Shred)
    (hs : B.Honest s) (hg : Good B cap ((repGet sd.rep B.block.hash).getD (BlockData.new sd.dis.cap sd.dis.slot))) :
    repGet (addRepair env sd B.block.hash s).1.rep B.block.hash =
        some (addShredCore env ((repGet sd.rep B.block.hash).getD (BlockData.new sd.dis.cap sd.dis.slot)) s).1 ∧
      (addRepair env sd B.block.hash s).2.1 =
        (addShredCore env ((repGet sd.rep B.block.hash).getD (BlockData.new sd.dis.cap sd.dis.slot)) s).2 ∧
      (addRepair env sd B.block.hash s).2.2 =
        evOf (addShredCore env ((repGet sd.rep B.block.hash).getD (BlockData.new sd.dis.cap sd.dis.slot)) s).2 := by
  have hres := (addShred_good B env cap hwf _ s hg hs).2
  unfold addRepair
  simp only [addShred_of_ty _ _ s hs.ty]
  generalize addShredCore env ((repGet sd.rep B.block.hash).getD (BlockData.new sd.dis.cap sd.dis.slot)) s = br at hres
  obtain ⟨b', r⟩ := br
  simp only at hres ⊢
  rcases hres with rfl | rfl | rfl | rfl
  · simp [fileRepair, flagIfBad, isBadErr, repGet_repSet]
  · simp [fileRepair, flagIfBad, isBadErr, repGet_repSet]
  · simp [fileRepair, flagIfBad, isBadErr, repGet_repSet]
  · simp [fileRepair, flagIfBad, isBadErr, repGet_repSet, Block.info]


/-! ### Merkle facts about a leader's block -/

theorem roots_length (B : HBlock) : B.roots.length = B.n := by simp [HBlock.roots]

theorem roots_getD_lt (B : HBlock) (i : Nat) (hi : i < B.n) : B.roots.getD i 0 = B.root i := by
  simp [HBlock.roots, List.getD_eq_getElem?_getD, hi]

theorem roots_getD_ge (B : HBlock) (i : Nat) (hi : B.n ≤ i) : B.roots.getD i 0 = 0 := by
  simp [HBlock.roots, List.getD_eq_getElem?_getD, hi]

theorem roots_ne_nil (B : HBlock) (hn : 0 < B.n) : B.roots ≠ [] := by
  intro h; have := roots_length B; rw [h] at this; simp at this; omega

theorem block_hash (B : HBlock) : B.block.hash = (Tree.new B.roots).root := rfl

/-- a slice-root response that verifies against the block hash carries the leader's root of an
    existing slice (C15 `sound`; a `SliceRoot` is never the empty padding leaf) -/
theorem valid_root_is_honest (B : HBlock) (hn : 0 < B.n) (i root : Nat) (π : List H) (hr : root ≠ 0)
    (hv : checkProof root i B.block.hash π = true) : i < B.n ∧ root = B.root i := by
  rw [block_hash] at hv
  obtain ⟨_, _, hd⟩ := Merkle.sound B.roots (roots_ne_nil B hn) root i π hv
  by_cases hi : i < B.n
  · exact ⟨hi, by rw [hd, roots_getD_lt B i hi]⟩
  · exfalso; rw [roots_getD_ge B i (by omega)] at hd; exact hr hd

/-- a last-slice-root response that verifies carries the index and root of the leader's last slice
    (C15 `last_sound`) -/
theorem valid_last_is_honest (B : HBlock) (hn : 0 < B.n) (hroots : ∀ i, i < B.n → B.root i ≠ 0)
    (l root : Nat) (π : List H) (hr : root ≠ 0)
    (hv : checkProofLast root l B.block.hash π = true) : l = B.n - 1 ∧ root = B.root (B.n - 1) := by
  rw [block_hash] at hv
  obtain ⟨_, _, hd, hright⟩ := Merkle.last_sound B.roots (roots_ne_nil B hn) root l π hv
  have hl : l < B.n := by
    rcases Nat.lt_or_ge l B.n with h | h
    · exact h
    · exfalso; rw [roots_getD_ge B l h] at hd; exact hr hd
  have hl2 : ¬ l < B.n - 1 := by
    intro hlt
    have := hright (B.n - 1) hlt
    rw [roots_getD_lt B (B.n - 1) (by omega)] at this
    exact hroots (B.n - 1) (by omega) this
  have : l = B.n - 1 := by omega
  subst this
  exact ⟨rfl, by rw [hd, roots_getD_lt B _ hl]⟩

theorem honest_root_valid (B : HBlock) (hn32 : B.n ≤ 2 ^ 32) (i : Nat) (hi : i < B.n) :
    checkProof (B.root i) i B.block.hash ((Tree.new B.roots).createProof i) = true := by
  have := Merkle.complete B.roots i (by rw [roots_length]; exact hi) (by rw [roots_length]; exact hn32)
  rw [roots_getD_lt B i hi] at this
  exact this

theorem honest_last_valid (B : HBlock) (hn : 0 < B.n) (hn32 : B.n ≤ 2 ^ 32) :
    checkProofLast (B.root (B.n - 1)) (B.n - 1) B.block.hash ((Tree.new B.roots).createProof (B.n - 1)) = true := by
  have := Merkle.complete_last B.roots (roots_ne_nil B hn) (by rw [roots_length]; exact hn32)
  rw [roots_length, roots_getD_lt B (B.n - 1) (by omega)] at this
  exact this


/-! ### what `handle_response` does with a response that passes validation -/

theorem done_outstanding (st : RepairSt) (r x : Req) : x ∈ (done st r).outstanding ↔ x ∈ st.outstanding ∧ x ≠ r := by
  unfold done; simp [List.mem_filter]

theorem handle_nack (env : Nat → Content) (cap : Nat) (st : RepairSt) (store : Store) (r : Req)
    (hout : r ∈ st.outstanding) :
    handleResponse env cap st store (.nack r) = (sendRequest st r, store, { sent := [r] }) := by
  unfold handleResponse; simp [Resp.req, hout]

theorem handle_last_valid (env : Nat → Content) (cap : Nat) (st : RepairSt) (store : Store) (b : Bid) (l root : Nat)
    (π : List H) (hout : Req.last b ∈ st.outstanding) (hv : checkProofLast root l b.hash π = true) :
    handleResponse env cap st store (.lastRoot (.last b) l root π) =
      (sendAll { done st (.last b) with sliceRoots := rootSet st.sliceRoots (b, l) root,
                                        lastSlices := lastSet st.lastSlices b l }
          ((List.range (l + 1)).map (fun i => Req.root b i)), store,
        { sent := (List.range (l + 1)).map (fun i => Req.root b i) }) := by
  unfold handleResponse; simp [Resp.req, hout, hv, done]

theorem handle_root_valid (env : Nat → Content) (cap : Nat) (st : RepairSt) (store : Store) (b : Bid) (i root : Nat)
    (π : List H) (hout : Req.root b i ∈ st.outstanding) (hv : checkProof root i b.hash π = true) :
    handleResponse env cap st store (.sliceRoot (.root b i) root π) =
      (sendAll { done st (.root b i) with sliceRoots := rootSet st.sliceRoots (b, i) root }
          ((List.range TOTAL_SHREDS).map (fun j => Req.shred b i j)), store,
        { sent := (List.range TOTAL_SHREDS).map (fun j => Req.shred b i j) }) := by
  unfold handleResponse; simp [Resp.req, hout, hv, done]

/-- the Out of the shred arm once the shred was filed -/
def shredOut (b : Bid) (res : AddRes) (evs : List Event) : Out :=
  match res with
  | .panic => { events := evs, panic := true }
  | .ev (.block info) =>
    if info.hash ≠ b.hash then { events := evs, panic := true }
    else if info.parent.1 ≥ b.slot then { events := evs, panic := true }
    else { events := evs, poolAdd := some (b, info.parent) }
  | _ => { events := evs }

theorem handle_shred_valid (env : Nat → Content) (cap : Nat) (st : RepairSt) (store : Store) (b : Bid) (i j : Nat)
    (s : Shred) (hout : Req.shred b i j ∈ st.outstanding) (hsl : s.slice = i) (hidx : s.idx = j)
    (hroot : rootGet st.sliceRoots (b, i) = some s.root)
    (hlast : s.isLast = decide (lastGet st.lastSlices b = some i)) (hty : s.ty = true) :
    handleResponse env cap st store (.shred (.shred b i j) b.slot s true) =
      (done st (.shred b i j), storeSet store b.slot (addRepair env (storeGet cap store b.slot) b.hash s).1,
        shredOut b (addRepair env (storeGet cap store b.slot) b.hash s).2.1
          (addRepair env (storeGet cap store b.slot) b.hash s).2.2) := by
  unfold handleResponse
  simp only [Resp.req, hout, not_true_eq_false, if_false, hsl, hidx, ne_eq, or_self, hroot, Bool.not_true,
    Bool.false_eq_true, hlast, hty]
  generalize addRepair env (storeGet cap store b.slot) b.hash s = ar
  obtain ⟨sd, res, evs⟩ := ar
  simp only [shredOut]
  cases res with
  | panic => rfl
  | none => rfl
  | err e => rfl
  | ev e =>
    cases e with
    | firstShred => rfl
    | invalidBlock => rfl
    | block info =>
      simp only
      split
      · rfl
      · split <;> rfl

/-- validity, spelled out per response kind, is what makes the handler act -/
theorem valid_shred_eq (st : RepairSt) (b : Bid) (i j slot : Nat) (s : Shred) (sigOk : Bool)
    (hv : Valid st (.shred (.shred b i j) slot s sigOk)) :
    slot = b.slot ∧ s.slice = i ∧ s.idx = j ∧ rootGet st.sliceRoots (b, i) = some s.root ∧
      s.isLast = decide (lastGet st.lastSlices b = some i) ∧ s.ty = true ∧ sigOk = true := hv


/-! ### the proven last slice indices (fix D26) -/

theorem lastGet_lastSet (m : List (Bid × Nat)) (k k' : Bid) (v : Nat) :
    lastGet (lastSet m k v) k' = if k' = k then some v else lastGet m k' := by
  induction m with
  | nil => simp only [lastSet, lastGet]; split <;> simp_all [eq_comm]
  | cons kv rest ih =>
    obtain ⟨k0, w⟩ := kv
    simp only [lastSet]
    split
    · rename_i hk; subst hk
      simp only [lastGet]
      by_cases hh : k0 = k'
      · simp [hh]
      · simp [hh]; intro h2; exact absurd h2.symm hh
    · rename_i hk
      simp only [lastGet, ih]
      by_cases hh : k0 = k'
      · subst hh; simp [hk]
      · simp [hh]

theorem sendRequest_lasts (st : RepairSt) (r : Req) : (sendRequest st r).lastSlices = st.lastSlices := rfl

theorem sendAll_lasts (st : RepairSt) (rs : List Req) : (sendAll st rs).lastSlices = st.lastSlices := by
  unfold sendAll
  induction rs generalizing st with
  | nil => rfl
  | cons r rest ih => simp only [List.foldl_cons]; rw [ih, sendRequest_lasts]

theorem fireTimeout_lasts (st : RepairSt) : (fireTimeout st).1.lastSlices = st.lastSlices := by
  unfold fireTimeout
  split
  · rfl
  · simp only; split <;> rfl

/-! ### schedules -/

/-- what can happen at the requester: a response of any kind from any peer, the earliest timeout
    firing, a request to repair some block -/
inductive Ev where
  | resp (r : Resp)
  | timeout
  | start (b : Bid)
deriving DecidableEq, Repr

structure Sys where
  st : RepairSt
  store : Store

def stepEv (env : Nat → Content) (cap : Nat) (σ : Sys) : Ev → Sys × Out
  | .resp r =>
    (⟨(handleResponse env cap σ.st σ.store r).1, (handleResponse env cap σ.st σ.store r).2.1⟩,
      (handleResponse env cap σ.st σ.store r).2.2)
  | .timeout => (⟨(fireTimeout σ.st).1, σ.store⟩, (fireTimeout σ.st).2)
  | .start b => (⟨(repairBlock cap σ.st σ.store b).1, σ.store⟩, (repairBlock cap σ.st σ.store b).2)

/-- final state and the outputs of every step -/
def run (env : Nat → Content) (cap : Nat) : Sys → List Ev → Sys × List Out
  | σ, [] => (σ, [])
  | σ, e :: rest =>
    ((run env cap (stepEv env cap σ e).1 rest).1, (stepEv env cap σ e).2 :: (run env cap (stepEv env cap σ e).1 rest).2)

def Req.bid : Req → Bid
  | .last b => b
  | .root b _ => b
  | .shred b _ _ => b

/-- the block id under which the leader's block `B` is requested -/
def bidOf (B : HBlock) : Bid := ⟨B.slot, B.block.hash⟩

/-- the repair spot of `B` (as `add_shred_from_repair` sees it: created on demand) -/
def spotOf (cap : Nat) (B : HBlock) (store : Store) : BlockData :=
  (repGet (storeGet cap store B.slot).rep B.block.hash).getD
    (BlockData.new (storeGet cap store B.slot).dis.cap (storeGet cap store B.slot).dis.slot)

/-- **The progress invariant of the repair of `B`**: the spot holds only the leader's data and is
    live; every proven slice root is the leader's; requests about `B` stay inside the block; and every
    item of the block is either obtained or still requested. -/
structure RepInv (B : HBlock) (cap : Nat) (σ : Sys) : Prop where
  nodis : ∀ blk, (storeGet cap σ.store B.slot).dis.completed = some blk → blk.hash ≠ B.block.hash
  live : Live B cap (spotOf cap B σ.store)
  rootsKnown : RootsKnown σ.st
  roots : ∀ i root, rootGet σ.st.sliceRoots (bidOf B, i) = some root → i < B.n ∧ root = B.root i
  /-- once a slice root of `B` was requested or proven, the recorded last slice index is the leader's -/
  lastKnown : ∀ i, (Req.root (bidOf B) i ∈ σ.st.outstanding ∨ (rootGet σ.st.sliceRoots (bidOf B, i)).isSome) →
    lastGet σ.st.lastSlices (bidOf B) = some (B.n - 1)
  reqRoot : ∀ i, Req.root (bidOf B) i ∈ σ.st.outstanding → i < B.n
  reqShred : ∀ i j, Req.shred (bidOf B) i j ∈ σ.st.outstanding → i < B.n ∧ j < TOTAL_SHREDS
  prog : (spotOf cap B σ.store).completed.isSome ∨ Req.last (bidOf B) ∈ σ.st.outstanding ∨
    ∀ i, i < B.n → (Req.root (bidOf B) i ∈ σ.st.outstanding ∨
      ((rootGet σ.st.sliceRoots (bidOf B, i)).isSome ∧
        ∀ j, j < TOTAL_SHREDS → (Req.shred (bidOf B) i j ∈ σ.st.outstanding ∨ Stored (spotOf cap B σ.store) i j)))

/-- the view of `B`'s repair is unchanged or only gained a `LastSliceRoot` request -/
theorem repInv_grow (B : HBlock) (cap : Nat) (σ σ' : Sys) (hinv : RepInv B cap σ)
    (h1 : ∀ r, r.bid = bidOf B → r ∈ σ.st.outstanding → r ∈ σ'.st.outstanding)
    (h2 : ∀ r, r.bid = bidOf B → r ∈ σ'.st.outstanding → r ∈ σ.st.outstanding ∨ r = .last (bidOf B))
    (hroots : ∀ i, rootGet σ'.st.sliceRoots (bidOf B, i) = rootGet σ.st.sliceRoots (bidOf B, i))
    (hlasts : lastGet σ'.st.lastSlices (bidOf B) = lastGet σ.st.lastSlices (bidOf B))
    (hrk : RootsKnown σ'.st)
    (hdis : (storeGet cap σ'.store B.slot).dis.completed = (storeGet cap σ.store B.slot).dis.completed)
    (hspot : spotOf cap B σ'.store = spotOf cap B σ.store) : RepInv B cap σ' := by
  constructor
  · rw [hdis]; exact hinv.nodis
  · rw [hspot]; exact hinv.live
  · exact hrk
  · intro i root h; rw [hroots] at h; exact hinv.roots i root h
  · intro i h
    rw [hlasts]
    rcases h with h | h
    · rcases h2 _ rfl h with h | h
      · exact hinv.lastKnown i (Or.inl h)
      · simp at h
    · rw [hroots] at h; exact hinv.lastKnown i (Or.inr h)
  · intro i h
    rcases h2 _ rfl h with h | h
    · exact hinv.reqRoot i h
    · simp at h
  · intro i j h
    rcases h2 _ rfl h with h | h
    · exact hinv.reqShred i j h
    · simp at h
  · rw [hspot]
    rcases hinv.prog with h | h | h
    · exact Or.inl h
    · exact Or.inr (Or.inl (h1 _ rfl h))
    · refine Or.inr (Or.inr ?_)
      intro i hi
      rcases h i hi with h | ⟨hr, hs⟩
      · exact Or.inl (h1 _ rfl h)
      · refine Or.inr ⟨by rw [hroots]; exact hr, ?_⟩
        intro j hj
        rcases hs j hj with h | h
        · exact Or.inl (h1 _ rfl h)
        · exact Or.inr h

theorem repInv_same (B : HBlock) (cap : Nat) (σ σ' : Sys) (hinv : RepInv B cap σ)
    (hout : ∀ r, r.bid = bidOf B → (r ∈ σ'.st.outstanding ↔ r ∈ σ.st.outstanding))
    (hroots : ∀ i, rootGet σ'.st.sliceRoots (bidOf B, i) = rootGet σ.st.sliceRoots (bidOf B, i))
    (hlasts : lastGet σ'.st.lastSlices (bidOf B) = lastGet σ.st.lastSlices (bidOf B))
    (hrk : RootsKnown σ'.st)
    (hdis : (storeGet cap σ'.store B.slot).dis.completed = (storeGet cap σ.store B.slot).dis.completed)
    (hspot : spotOf cap B σ'.store = spotOf cap B σ.store) : RepInv B cap σ' :=
  repInv_grow B cap σ σ' hinv (fun r hr h => (hout r hr).mpr h) (fun r hr h => Or.inl ((hout r hr).mp h))
    hroots hlasts hrk hdis hspot


/-! ### steps that do not concern `B` (or only re-send) keep the invariant -/

theorem fireTimeout_outstanding (st : RepairSt) (x : Req) :
    x ∈ (fireTimeout st).1.outstanding ↔ x ∈ st.outstanding := by
  unfold fireTimeout
  split
  · exact Iff.rfl
  · rename_i r rest _
    simp only
    split
    · rename_i hin
      rw [sendRequest_outstanding]
      simp only [List.mem_filter, decide_eq_true_eq]
      constructor
      · rintro (⟨h, _⟩ | rfl)
        · exact h
        · exact hin
      · intro h
        by_cases hx : x = r
        · exact Or.inr hx
        · exact Or.inl ⟨h, hx⟩
    · exact Iff.rfl

theorem fireTimeout_roots (st : RepairSt) : (fireTimeout st).1.sliceRoots = st.sliceRoots := by
  unfold fireTimeout
  split
  · rfl
  · simp only; split <;> rfl

theorem repInv_timeout (B : HBlock) (env : Nat → Content) (cap : Nat) (σ : Sys) (hinv : RepInv B cap σ) :
    RepInv B cap (stepEv env cap σ .timeout).1 :=
  repInv_same B cap σ _ hinv (fun r _ => fireTimeout_outstanding σ.st r) (fun i => by simp [stepEv, fireTimeout_roots])
    (by simp [stepEv, fireTimeout_lasts]) (fireTimeout_rootsKnown σ.st hinv.rootsKnown) rfl rfl

theorem repInv_start (B : HBlock) (env : Nat → Content) (cap : Nat) (σ : Sys) (b : Bid) (hinv : RepInv B cap σ) :
    RepInv B cap (stepEv env cap σ (.start b)).1 := by
  apply repInv_grow B cap σ _ hinv
  · intro r _ h
    simp only [stepEv, repairBlock]
    split
    · exact h
    · rw [sendRequest_outstanding]; exact Or.inl h
  · intro r hr h
    simp only [stepEv, repairBlock] at h
    split at h
    · exact Or.inl h
    · rw [sendRequest_outstanding] at h
      rcases h with h | h
      · exact Or.inl h
      · right; subst h; simp only [Req.bid] at hr; rw [hr]
  · intro i
    simp only [stepEv, repairBlock]
    split <;> rfl
  · simp only [stepEv, repairBlock]
    split <;> rfl
  · exact repairBlock_rootsKnown cap σ.st σ.store b hinv.rootsKnown
  · rfl
  · rfl

/-- the slot data of `B`'s slot after a repaired shred of another block was filed -/
theorem store_frame (B : HBlock) (env : Nat → Content) (cap : Nat) (store : Store) (b : Bid) (s : Shred)
    (hne : b ≠ bidOf B) :
    spotOf cap B (storeSet store b.slot (addRepair env (storeGet cap store b.slot) b.hash s).1) = spotOf cap B store ∧
    (storeGet cap (storeSet store b.slot (addRepair env (storeGet cap store b.slot) b.hash s).1) B.slot).dis =
      (storeGet cap store B.slot).dis := by
  obtain ⟨slot, hash⟩ := b
  simp only
  by_cases hs : B.slot = slot
  · subst hs
    have hh : B.block.hash ≠ hash := by
      intro hh; apply hne; subst hh; rfl
    have e1 : storeGet cap (storeSet store B.slot (addRepair env (storeGet cap store B.slot) hash s).1) B.slot =
        (addRepair env (storeGet cap store B.slot) hash s).1 := by rw [storeGet_storeSet, if_pos rfl]
    unfold spotOf
    rw [e1, addRepair_dis, addRepair_rep_other env _ _ _ s hh]
    exact ⟨rfl, rfl⟩
  · have e1 : storeGet cap (storeSet store slot (addRepair env (storeGet cap store slot) hash s).1) B.slot =
        storeGet cap store B.slot := by rw [storeGet_storeSet, if_neg hs]
    unfold spotOf
    rw [e1]
    exact ⟨rfl, rfl⟩

theorem rootGet_rootSet_other (m : List ((Bid × Nat) × Nat)) (b b' : Bid) (i l v : Nat) (hne : b ≠ b') :
    rootGet (rootSet m (b, l) v) (b', i) = rootGet m (b', i) := by
  rw [rootGet_rootSet]
  rw [if_neg (by intro h; injection h with h1 _; exact hne h1.symm)]

/-- a response to a request about another block id leaves the view of `B`'s repair alone -/
theorem repInv_other (B : HBlock) (env : Nat → Content) (cap : Nat) (σ : Sys) (resp : Resp)
    (hinv : RepInv B cap σ) (hne : resp.req.bid ≠ bidOf B) :
    RepInv B cap (stepEv env cap σ (.resp resp)).1 ∧
      spotOf cap B (stepEv env cap σ (.resp resp)).1.store = spotOf cap B σ.store := by
  have hrk := handleResponse_rootsKnown env cap σ.st σ.store resp hinv.rootsKnown
  by_cases hout : resp.req ∈ σ.st.outstanding
  case neg => simp only [stepEv, unsolicited_ignored env cap σ.st σ.store resp hout]; exact ⟨hinv, trivial⟩
  by_cases hv : Valid σ.st resp
  case neg =>
    simp only [stepEv, invalid_response_inert env cap σ.st σ.store resp hinv.rootsKnown hv]; exact ⟨hinv, trivial⟩
  cases resp with
  | nack r =>
    simp only [Resp.req] at hout
    simp only [stepEv, handle_nack env cap σ.st σ.store r hout] at hrk ⊢
    refine ⟨repInv_same B cap σ _ hinv ?_ (fun i => rfl) rfl hrk rfl rfl, trivial⟩
    intro x _
    rw [sendRequest_outstanding]
    constructor
    · rintro (h | rfl)
      · exact h
      · exact hout
    · exact Or.inl
  | lastRoot r l root π =>
    cases r with
    | last b =>
      simp only [Resp.req, Req.bid] at hout hne
      have hv' : checkProofLast root l b.hash π = true := hv
      simp only [stepEv, handle_last_valid env cap σ.st σ.store b l root π hout hv'] at hrk ⊢
      refine ⟨repInv_same B cap σ _ hinv ?_ ?_ ?_ hrk rfl rfl, trivial⟩
      · intro x hx
        rw [sendAll_outstanding]
        simp only [done_outstanding, List.mem_map, List.mem_range]
        constructor
        · rintro (⟨h, _⟩ | ⟨i, _, rfl⟩)
          · exact h
          · exact absurd hx hne
        · intro h
          refine Or.inl ⟨h, ?_⟩
          rintro rfl; exact hne hx
      · intro i
        rw [sendAll_roots]
        exact rootGet_rootSet_other _ b (bidOf B) i l root hne
      · rw [sendAll_lasts]
        simp only [done]
        rw [lastGet_lastSet, if_neg (fun h => hne h.symm)]
    | root _ _ => exact absurd hv (by simp [Valid])
    | shred _ _ _ => exact absurd hv (by simp [Valid])
  | sliceRoot r root π =>
    cases r with
    | root b i0 =>
      simp only [Resp.req, Req.bid] at hout hne
      have hv' : checkProof root i0 b.hash π = true := hv
      simp only [stepEv, handle_root_valid env cap σ.st σ.store b i0 root π hout hv'] at hrk ⊢
      refine ⟨repInv_same B cap σ _ hinv ?_ ?_ ?_ hrk rfl rfl, trivial⟩
      · intro x hx
        rw [sendAll_outstanding]
        simp only [done_outstanding, List.mem_map, List.mem_range]
        constructor
        · rintro (⟨h, _⟩ | ⟨j, _, rfl⟩)
          · exact h
          · exact absurd hx hne
        · intro h
          refine Or.inl ⟨h, ?_⟩
          rintro rfl; exact hne hx
      · intro i
        rw [sendAll_roots]
        exact rootGet_rootSet_other _ b (bidOf B) i i0 root hne
      · rw [sendAll_lasts]; rfl
    | last _ => exact absurd hv (by simp [Valid])
    | shred _ _ _ => exact absurd hv (by simp [Valid])
  | shred r slot s sigOk =>
    cases r with
    | shred b i j =>
      simp only [Resp.req, Req.bid] at hout hne
      obtain ⟨rfl, hsl, hidx, hroot, hlast, hty, rfl⟩ := valid_shred_eq σ.st b i j slot s sigOk hv
      simp only [stepEv, handle_shred_valid env cap σ.st σ.store b i j s hout hsl hidx hroot hlast hty] at hrk ⊢
      have hf := store_frame B env cap σ.store b s hne
      refine ⟨repInv_same B cap σ _ hinv ?_ (fun _ => rfl) rfl hrk (by rw [hf.2]) hf.1, hf.1⟩
      intro x hx
      rw [done_outstanding]
      constructor
      · exact fun h => h.1
      · intro h
        refine ⟨h, ?_⟩
        rintro rfl; exact hne hx
    | last _ => exact absurd hv (by simp [Valid])
    | root _ _ => exact absurd hv (by simp [Valid])


/-! ### responses to requests about `B` -/

/-- **What the completion theorem still asks of the events: only typing constraints of the model's wider
    response type, nothing about peers.** A slice root in a response is a 32-byte hash, never the empty padding leaf
    (id `0`, `padding_leaf_witness`); and the payload size class of a shred that verifies under the leader's
    slice root at index `j` is that of the leader's leaf `j` (the payload is what the Merkle path
    authenticates; in the model `sz` is a free attribute, `size_class_witness`).
    Nothing is assumed about which variants of a slice the leader signed (a validly signed shred with the other
    last-slice marker is admissible, `evilLast_admissible`: the code rejects it, fix D26), and - since the D15b
    `fix:` - nothing about the unauthenticated data/coding type either: a responder may flip it, the requester drops
    such a response and keeps the request outstanding (`evilTag_admissible`, `tag_no_longer_derails`; before the fix
    this was an assumption, shown necessary by the witness now called `derail_by_tag_old`). -/
def Admissible (B : HBlock) : Ev → Prop
  | .resp (.lastRoot (.last b) _ root _) => b = bidOf B → root ≠ 0
  | .resp (.sliceRoot (.root b _) root _) => b = bidOf B → root ≠ 0
  | .resp (.shred (.shred b i j) _ s sigOk) =>
    b = bidOf B → sigOk = true → s.slice = i → s.idx = j → s.root = B.root i → s.isLast = B.isLast i →
      s.sz = B.sz i
  | _ => True

theorem shred_eq_of_fields (B : HBlock) (s : Shred) (i j : Nat) (h1 : s.slice = i) (h2 : s.idx = j)
    (h3 : s.root = B.root i) (h4 : s.isLast = B.isLast i) (h5 : s.sz = B.sz i) (h6 : s.ty = true) :
    s = B.shred i j := by
  obtain ⟨sl, il, rt, ix, sz, ty⟩ := s
  simp only at h1 h2 h3 h4 h5 h6
  subst h1 h2 h3 h4 h5 h6
  rfl

/-- under the invariant the requester's last-slice check accepts exactly the leader's flag -/
theorem last_flag_of_inv (B : HBlock) (cap : Nat) (σ : Sys) (hinv : RepInv B cap σ) (hn : 0 < B.n) (i : Nat)
    (hr : (rootGet σ.st.sliceRoots (bidOf B, i)).isSome) :
    decide (lastGet σ.st.lastSlices (bidOf B) = some i) = B.isLast i := by
  rw [hinv.lastKnown i (Or.inr hr)]
  simp only [HBlock.isLast, Option.some.injEq]
  apply decide_eq_decide.mpr
  omega

/-- the block was announced to Votor and handed to the pool in this step -/
def Announced (B : HBlock) (o : Out) : Prop :=
  o.poolAdd = some (bidOf B, B.fparent) ∧ Event.block B.block.info ∈ o.events ∧ o.panic = false

theorem own_shred_store (B : HBlock) (env : Nat → Content) (cap : Nat) (hwf : B.WF env cap) (store : Store) (s : Shred)
    (hs : B.Honest s) (hg : Good B cap (spotOf cap B store)) :
    spotOf cap B (storeSet store B.slot (addRepair env (storeGet cap store B.slot) B.block.hash s).1) =
        (addShredCore env (spotOf cap B store) s).1 ∧
    (storeGet cap (storeSet store B.slot (addRepair env (storeGet cap store B.slot) B.block.hash s).1) B.slot).dis =
        (storeGet cap store B.slot).dis ∧
    (addRepair env (storeGet cap store B.slot) B.block.hash s).2.1 = (addShredCore env (spotOf cap B store) s).2 ∧
    (addRepair env (storeGet cap store B.slot) B.block.hash s).2.2 = evOf (addShredCore env (spotOf cap B store) s).2 := by
  obtain ⟨h1, h2, h3⟩ := addRepair_honest B env cap hwf (storeGet cap store B.slot) s hs hg
  have e1 : storeGet cap (storeSet store B.slot (addRepair env (storeGet cap store B.slot) B.block.hash s).1) B.slot =
      (addRepair env (storeGet cap store B.slot) B.block.hash s).1 := by rw [storeGet_storeSet, if_pos rfl]
  refine ⟨?_, by rw [e1, addRepair_dis], h2, h3⟩
  unfold spotOf
  rw [e1, h1]
  rfl

theorem repInv_own (B : HBlock) (env : Nat → Content) (cap : Nat) (hwf : B.WF env cap)
    (hroots : ∀ i, i < B.n → B.root i ≠ 0) (σ : Sys) (resp : Resp)
    (hinv : RepInv B cap σ) (hadm : Admissible B (.resp resp)) (hb : resp.req.bid = bidOf B) :
    RepInv B cap (stepEv env cap σ (.resp resp)).1 ∧
      ((spotOf cap B σ.store).completed.isSome → (spotOf cap B (stepEv env cap σ (.resp resp)).1.store).completed.isSome) ∧
      ((spotOf cap B σ.store).completed = none → (spotOf cap B (stepEv env cap σ (.resp resp)).1.store).completed.isSome →
        Announced B (stepEv env cap σ (.resp resp)).2) ∧
      (stepEv env cap σ (.resp resp)).2.panic = false := by
  have hrk := handleResponse_rootsKnown env cap σ.st σ.store resp hinv.rootsKnown
  have hn := hwf.npos
  have hsame1 : ∀ σ' : Sys, σ'.store = σ.store →
      ((spotOf cap B σ.store).completed.isSome → (spotOf cap B σ'.store).completed.isSome) := by
    intro σ' h; rw [h]; exact id
  have hsame2 : ∀ (σ' : Sys) (o : Out), σ'.store = σ.store →
      ((spotOf cap B σ.store).completed = none → (spotOf cap B σ'.store).completed.isSome → Announced B o) := by
    intro σ' o h; rw [h]; exact fun h1 h2 => by simp [h1] at h2
  by_cases hout : resp.req ∈ σ.st.outstanding
  case neg =>
    simp only [stepEv, unsolicited_ignored env cap σ.st σ.store resp hout]
    exact ⟨hinv, hsame1 σ rfl, hsame2 σ _ rfl, trivial⟩
  by_cases hv : Valid σ.st resp
  case neg =>
    simp only [stepEv, invalid_response_inert env cap σ.st σ.store resp hinv.rootsKnown hv]
    exact ⟨hinv, hsame1 σ rfl, hsame2 σ _ rfl, trivial⟩
  cases resp with
  | nack r =>
    simp only [Resp.req] at hout
    simp only [stepEv, handle_nack env cap σ.st σ.store r hout] at hrk ⊢
    refine ⟨repInv_same B cap σ _ hinv ?_ (fun i => rfl) rfl hrk rfl rfl, hsame1 ⟨_, σ.store⟩ rfl,
      hsame2 ⟨_, σ.store⟩ _ rfl, trivial⟩
    intro x _
    rw [sendRequest_outstanding]
    constructor
    · rintro (h | rfl)
      · exact h
      · exact hout
    · exact Or.inl
  | lastRoot r l root π =>
    cases r with
    | last b =>
      simp only [Resp.req, Req.bid] at hout hb
      subst hb
      have hv' : checkProofLast root l B.block.hash π = true := hv
      obtain ⟨rfl, rfl⟩ := valid_last_is_honest B hn hroots l root π (hadm rfl) hv'
      simp only [stepEv, handle_last_valid env cap σ.st σ.store (bidOf B) (B.n - 1) _ π hout hv'] at hrk ⊢
      refine ⟨?_, hsame1 ⟨_, σ.store⟩ rfl, hsame2 ⟨_, σ.store⟩ _ rfl, trivial⟩
      constructor
      · exact hinv.nodis
      · exact hinv.live
      · exact hrk
      · intro i root h
        rw [sendAll_roots] at h
        simp only [done] at h
        rw [rootGet_rootSet] at h
        split at h
        · rename_i hk
          injection hk with _ hk2
          simp at h; subst hk2; subst h
          exact ⟨by omega, rfl⟩
        · exact hinv.roots i root h
      · intro i _
        rw [sendAll_lasts]
        simp only [done]
        rw [lastGet_lastSet, if_pos rfl]
      · intro i h
        rw [sendAll_outstanding] at h
        rcases h with h | h
        · exact hinv.reqRoot i ((done_outstanding _ _ _).mp h).1
        · simp only [List.mem_map, List.mem_range] at h
          obtain ⟨i', hi', he⟩ := h
          injection he with _ he2
          omega
      · intro i j h
        rw [sendAll_outstanding] at h
        rcases h with h | h
        · exact hinv.reqShred i j ((done_outstanding _ _ _).mp h).1
        · simp at h
      · refine Or.inr (Or.inr ?_)
        intro i hi
        left
        rw [sendAll_outstanding]
        right
        simp only [List.mem_map, List.mem_range]
        exact ⟨i, by omega, rfl⟩
    | root _ _ => exact absurd hv (by simp [Valid])
    | shred _ _ _ => exact absurd hv (by simp [Valid])
  | sliceRoot r root π =>
    cases r with
    | root b i0 =>
      simp only [Resp.req, Req.bid] at hout hb
      subst hb
      have hv' : checkProof root i0 B.block.hash π = true := hv
      obtain ⟨hi0, rfl⟩ := valid_root_is_honest B hn i0 root π (hadm rfl) hv'
      simp only [stepEv, handle_root_valid env cap σ.st σ.store (bidOf B) i0 _ π hout hv'] at hrk ⊢
      refine ⟨?_, hsame1 ⟨_, σ.store⟩ rfl, hsame2 ⟨_, σ.store⟩ _ rfl, trivial⟩
      have hroot' : ∀ i, rootGet (rootSet σ.st.sliceRoots (bidOf B, i0) (B.root i0)) (bidOf B, i) =
          if i = i0 then some (B.root i0) else rootGet σ.st.sliceRoots (bidOf B, i) := by
        intro i
        rw [rootGet_rootSet]
        by_cases hii : i = i0
        · simp [hii]
        · simp [hii]
      constructor
      · exact hinv.nodis
      · exact hinv.live
      · exact hrk
      · intro i root h
        rw [sendAll_roots] at h
        simp only [done] at h
        rw [hroot'] at h
        split at h
        · rename_i hk
          simp at h; subst hk; subst h
          exact ⟨hi0, rfl⟩
        · exact hinv.roots i root h
      · intro i _
        rw [sendAll_lasts]
        exact hinv.lastKnown i0 (Or.inl hout)
      · intro i h
        rw [sendAll_outstanding] at h
        rcases h with h | h
        · exact hinv.reqRoot i ((done_outstanding _ _ _).mp h).1
        · simp at h
      · intro i j h
        rw [sendAll_outstanding] at h
        rcases h with h | h
        · exact hinv.reqShred i j ((done_outstanding _ _ _).mp h).1
        · simp only [List.mem_map, List.mem_range] at h
          obtain ⟨j', hj', he⟩ := h
          injection he with _ he2 he3
          subst he2; subst he3
          exact ⟨hi0, hj'⟩
      · -- progress
        have hkeep : ∀ x, x ∈ σ.st.outstanding → x ≠ Req.root (bidOf B) i0 →
            x ∈ (sendAll { done σ.st (Req.root (bidOf B) i0) with
              sliceRoots := rootSet σ.st.sliceRoots (bidOf B, i0) (B.root i0) }
              ((List.range TOTAL_SHREDS).map (fun j => Req.shred (bidOf B) i0 j))).outstanding := by
          intro x hx hne
          rw [sendAll_outstanding]
          exact Or.inl ((done_outstanding _ _ _).mpr ⟨hx, hne⟩)
        rcases hinv.prog with h | h | h
        · exact Or.inl h
        · exact Or.inr (Or.inl (hkeep _ h (by simp)))
        · refine Or.inr (Or.inr ?_)
          intro i hi
          by_cases hii : i = i0
          · subst hii
            right
            rw [sendAll_roots]
            simp only [done]
            rw [hroot']
            refine ⟨by simp, ?_⟩
            intro j hj
            left
            rw [sendAll_outstanding]
            right
            simp only [List.mem_map, List.mem_range]
            exact ⟨j, hj, rfl⟩
          · rcases h i hi with h | ⟨hr, hs⟩
            · exact Or.inl (hkeep _ h (by intro he; injection he with _ he2; exact hii he2))
            · right
              rw [sendAll_roots]
              simp only [done]
              rw [hroot', if_neg hii]
              refine ⟨hr, ?_⟩
              intro j hj
              rcases hs j hj with h | h
              · exact Or.inl (hkeep _ h (by simp))
              · exact Or.inr h
    | last _ => exact absurd hv (by simp [Valid])
    | shred _ _ _ => exact absurd hv (by simp [Valid])
  | shred r slot s sigOk =>
    cases r with
    | shred b i j =>
      simp only [Resp.req, Req.bid] at hout hb
      subst hb
      obtain ⟨rfl, hsl, hidx, hroot, hlast, hty, rfl⟩ := valid_shred_eq σ.st (bidOf B) i j slot s sigOk hv
      obtain ⟨hi, hsr⟩ := hinv.roots i s.root hroot
      obtain ⟨_, hj⟩ := hinv.reqShred i j hout
      have hil : s.isLast = B.isLast i := by
        rw [hlast]; exact last_flag_of_inv B cap σ hinv hn i (by rw [hroot]; rfl)
      have hsz := hadm rfl rfl hsl hidx hsr hil
      have hseq : s = B.shred i j := shred_eq_of_fields B s i j hsl hidx hsr hil hsz hty
      have hs : B.Honest s := ⟨by rw [hsl]; exact hi, by rw [hidx]; exact hj, by rw [hsl, hidx]; exact hseq⟩
      simp only [stepEv, handle_shred_valid env cap σ.st σ.store (bidOf B) i j s hout hsl hidx hroot hlast hty] at hrk ⊢
      have hbs : (bidOf B).slot = B.slot := rfl
      have hbh : (bidOf B).hash = B.block.hash := rfl
      simp only [hbs, hbh]
      obtain ⟨e1, e2, e3, e4⟩ := own_shred_store B env cap hwf σ.store s hs hinv.live.good
      obtain ⟨hlive, hmono, hnew⟩ := addShred_live B env cap hwf (spotOf cap B σ.store) s hinv.live hs
      have hres := (addShred_good B env cap hwf _ s hinv.live.good hs).2
      have hcomp := addShred_completed env (spotOf cap B σ.store) s
      rw [e1, e3, e4]
      refine ⟨?_, ?_, ?_, ?_⟩
      · constructor
        · simp only; rw [e2]; exact hinv.nodis
        · simp only; rw [e1]; exact hlive
        · exact hrk
        · exact hinv.roots
        · intro i' h
          rcases h with h | h
          · exact hinv.lastKnown i' (Or.inl ((done_outstanding _ _ _).mp h).1)
          · exact hinv.lastKnown i' (Or.inr h)
        · intro i' h; exact hinv.reqRoot i' ((done_outstanding _ _ _).mp h).1
        · intro i' j' h; exact hinv.reqShred i' j' ((done_outstanding _ _ _).mp h).1
        · simp only; rw [e1]
          rcases hinv.prog with h | h | h
          · left
            rw [(addShred_of_completed env _ s h).1]; exact h
          · exact Or.inr (Or.inl ((done_outstanding _ _ _).mpr ⟨h, by simp⟩))
          · refine Or.inr (Or.inr ?_)
            intro i' hi'
            rcases h i' hi' with h | ⟨hr, hss⟩
            · exact Or.inl ((done_outstanding _ _ _).mpr ⟨h, by simp⟩)
            · refine Or.inr ⟨hr, ?_⟩
              intro j' hj'
              by_cases hij : i' = i ∧ j' = j
              · obtain ⟨rfl, rfl⟩ := hij
                right; rw [← hsl, ← hidx]; exact hnew
              · rcases hss j' hj' with h | h
                · left
                  refine (done_outstanding _ _ _).mpr ⟨h, ?_⟩
                  intro he; injection he with _ he2 he3
                  exact hij ⟨he2, he3⟩
                · exact Or.inr (hmono i' j' h)
      · intro h
        rw [(addShred_of_completed env _ s h).1]; exact h
      · intro hnone hsome
        rcases hcomp with hsame' | ⟨info, txs, hr, _⟩
        · rw [hsame', hnone] at hsome; simp at hsome
        · rw [hr] at hres ⊢
          have hinfo : info = B.block.info := by
            rcases hres with h | h | h | h <;> simp at h
            exact h
          subst hinfo
          have hps : ¬ (B.block.info.parent.1 ≥ (bidOf B).slot) := by
            have := hwf.pslot
            simp only [Block.info, HBlock.block, bidOf]; omega
          simp only [Announced, shredOut, evOf, Block.info, HBlock.block, bidOf, ne_eq, not_true_eq_false, if_false]
          simp only [Block.info, HBlock.block, bidOf] at hps
          simp [hps]
      · rcases hres with h | h | h | h
        · rw [h]; rfl
        · rw [h]; rfl
        · rw [h]; rfl
        · rw [h]
          have hps : ¬ (B.block.info.parent.1 ≥ (bidOf B).slot) := by
            have := hwf.pslot
            simp only [Block.info, HBlock.block, bidOf]; omega
          simp only [shredOut, Block.info, HBlock.block, bidOf, ne_eq, not_true_eq_false, if_false]
          simp only [Block.info, HBlock.block, bidOf] at hps
          simp [hps]
    | last _ => exact absurd hv (by simp [Valid])
    | root _ _ => exact absurd hv (by simp [Valid])


/-! ### every step keeps the invariant; completion is announced exactly when it happens -/

theorem stepEv_repInv (B : HBlock) (env : Nat → Content) (cap : Nat) (hwf : B.WF env cap)
    (hroots : ∀ i, i < B.n → B.root i ≠ 0) (σ : Sys) (e : Ev) (hinv : RepInv B cap σ) (hadm : Admissible B e) :
    RepInv B cap (stepEv env cap σ e).1 ∧
      ((spotOf cap B σ.store).completed.isSome → (spotOf cap B (stepEv env cap σ e).1.store).completed.isSome) ∧
      ((spotOf cap B σ.store).completed = none → (spotOf cap B (stepEv env cap σ e).1.store).completed.isSome →
        Announced B (stepEv env cap σ e).2) := by
  cases e with
  | resp r =>
    by_cases hb : r.req.bid = bidOf B
    · obtain ⟨h1, h2, h3, _⟩ := repInv_own B env cap hwf hroots σ r hinv hadm hb
      exact ⟨h1, h2, h3⟩
    · obtain ⟨h1, h2⟩ := repInv_other B env cap σ r hinv hb
      refine ⟨h1, by rw [h2]; exact id, ?_⟩
      rw [h2]; intro h3 h4; simp [h3] at h4
  | timeout =>
    refine ⟨repInv_timeout B env cap σ hinv, id, ?_⟩
    intro h3 h4
    have : (stepEv env cap σ Ev.timeout).1.store = σ.store := rfl
    rw [this, h3] at h4; simp at h4
  | start b =>
    refine ⟨repInv_start B env cap σ b hinv, id, ?_⟩
    intro h3 h4
    have : (stepEv env cap σ (Ev.start b)).1.store = σ.store := rfl
    rw [this, h3] at h4; simp at h4

theorem run_repInv (B : HBlock) (env : Nat → Content) (cap : Nat) (hwf : B.WF env cap)
    (hroots : ∀ i, i < B.n → B.root i ≠ 0) (evs : List Ev) (σ : Sys) (hinv : RepInv B cap σ)
    (hadm : ∀ e ∈ evs, Admissible B e) :
    RepInv B cap (run env cap σ evs).1 ∧
      ((spotOf cap B σ.store).completed.isSome → (spotOf cap B (run env cap σ evs).1.store).completed.isSome) ∧
      ((spotOf cap B σ.store).completed = none → (spotOf cap B (run env cap σ evs).1.store).completed.isSome →
        ∃ o ∈ (run env cap σ evs).2, Announced B o) := by
  induction evs generalizing σ with
  | nil =>
    refine ⟨hinv, id, ?_⟩
    intro h1 h2; simp only [run] at h2; simp [h1] at h2
  | cons e rest ih =>
    obtain ⟨s1, s2, s3⟩ := stepEv_repInv B env cap hwf hroots σ e hinv (hadm e List.mem_cons_self)
    obtain ⟨r1, r2, r3⟩ := ih (stepEv env cap σ e).1 s1 (fun x hx => hadm x (List.mem_cons_of_mem _ hx))
    simp only [run]
    refine ⟨r1, fun h => r2 (s2 h), ?_⟩
    intro h1 h2
    cases hmid : (spotOf cap B (stepEv env cap σ e).1.store).completed with
    | none =>
      obtain ⟨o, ho, ha⟩ := r3 hmid h2
      exact ⟨o, List.mem_cons_of_mem _ ho, ha⟩
    | some blk =>
      exact ⟨_, List.mem_cons_self, s3 h1 (by rw [hmid]; rfl)⟩

theorem getBlock_of_spot (B : HBlock) (cap : Nat) (store : Store) (blk : Block)
    (hnodis : ∀ blk, (storeGet cap store B.slot).dis.completed = some blk → blk.hash ≠ B.block.hash)
    (hc : (spotOf cap B store).completed = some blk) :
    getBlock (storeGet cap store B.slot) B.block.hash = some blk := by
  have hbd : blockData (storeGet cap store B.slot) B.block.hash = repGet (storeGet cap store B.slot).rep B.block.hash := by
    unfold blockData
    cases hd : (storeGet cap store B.slot).dis.completed with
    | none => rfl
    | some b => simp only; rw [if_neg (hnodis b hd)]
  unfold getBlock
  rw [hbd]
  unfold spotOf at hc
  cases hr : repGet (storeGet cap store B.slot).rep B.block.hash with
  | none => rw [hr] at hc; simp [BlockData.new] at hc
  | some b => rw [hr] at hc; simpa using hc

/-- **Quiescence means completion**: when the invariant holds and no request about `B` is outstanding
    any more, every shred of `B` has been stored, hence (liveness of reconstruction) the block is
    complete and `get_block` returns it. -/
theorem repInv_quiescent_done (B : HBlock) (cap : Nat) (σ : Sys) (hinv : RepInv B cap σ)
    (hq : ∀ r ∈ σ.st.outstanding, r.bid ≠ bidOf B) :
    (spotOf cap B σ.store).completed = some B.block ∧
      getBlock (storeGet cap σ.store B.slot) B.block.hash = some B.block := by
  have hc : (spotOf cap B σ.store).completed = some B.block := by
    rcases hinv.prog with h | h | h
    · cases hcc : (spotOf cap B σ.store).completed with
      | none => rw [hcc] at h; simp at h
      | some blk => rw [hinv.live.good.completed blk hcc]
    · exact absurd rfl (hq _ h)
    · apply live_all_stored_completed B cap _ hinv.live
      intro i j hi hj
      rcases h i hi with h | ⟨_, hs⟩
      · exact absurd rfl (hq _ h)
      · rcases hs j hj with h | h
        · exact absurd rfl (hq _ h)
        · exact h
  exact ⟨hc, getBlock_of_spot B cap σ.store B.block hinv.nodis hc⟩


/-! ### the honest responder's answers and fairness -/

/-- what a peer that holds `B` answers -/
def honestResp (B : HBlock) (r : Req) : Resp :=
  match r with
  | .last _ => .lastRoot r (B.n - 1) (B.root (B.n - 1)) ((Tree.new B.roots).createProof (B.n - 1))
  | .root _ i => .sliceRoot r (B.root i) ((Tree.new B.roots).createProof i)
  | .shred b i j => .shred r b.slot (B.shred i j) true

theorem honestResp_req (B : HBlock) (r : Req) : (honestResp B r).req = r := by
  cases r <;> rfl

/-- `r` is *served* in the schedule `evs` starting from `σ`: at some point the response `ρ r` is
    delivered while `r` is outstanding -/
def Served (env : Nat → Content) (cap : Nat) (ρ : Req → Resp) (r : Req) : Sys → List Ev → Prop
  | _, [] => False
  | σ, e :: rest => (e = .resp (ρ r) ∧ r ∈ σ.st.outstanding) ∨ Served env cap ρ r (stepEv env cap σ e).1 rest

/-- **Fairness of a finite schedule** (towards the block id `bid`, with `ρ` the correct responder):
    every request about `bid` that is outstanding at any point of the schedule — in particular every
    request issued or re-sent during it — is served at that point or later. -/
def Fair (env : Nat → Content) (cap : Nat) (ρ : Req → Resp) (bid : Bid) : Sys → List Ev → Prop
  | σ, [] => ∀ r ∈ σ.st.outstanding, r.bid ≠ bid
  | σ, e :: rest =>
    (∀ r ∈ σ.st.outstanding, r.bid = bid → Served env cap ρ r σ (e :: rest)) ∧
      Fair env cap ρ bid (stepEv env cap σ e).1 rest

theorem fair_quiescent (env : Nat → Content) (cap : Nat) (ρ : Req → Resp) (bid : Bid) (evs : List Ev) (σ : Sys)
    (h : Fair env cap ρ bid σ evs) : ∀ r ∈ (run env cap σ evs).1.st.outstanding, r.bid ≠ bid := by
  induction evs generalizing σ with
  | nil => exact h
  | cons e rest ih => exact ih _ h.2

/-! ### the measure: weight of what is still requested -/

def wt (B : HBlock) (r : Req) : Nat :=
  if r.bid = bidOf B then
    match r with
    | .last _ => 1 + (TOTAL_SHREDS + 1) * B.n
    | .root _ _ => TOTAL_SHREDS + 1
    | .shred _ _ _ => 1
  else 0

def mu (B : HBlock) (st : RepairSt) : Nat := (st.outstanding.map (wt B)).sum

theorem sum_filter_ne (f : Req → Nat) (l : List Req) (r : Req) (h : r ∈ l) :
    ((l.filter (· ≠ r)).map f).sum + f r ≤ (l.map f).sum := by
  induction l with
  | nil => simp at h
  | cons x rest ih =>
    by_cases hx : x = r
    · subst hx
      simp only [List.filter_cons, ne_eq, not_true_eq_false, decide_false, Bool.false_eq_true, if_false,
        List.map_cons, List.sum_cons]
      by_cases hin : x ∈ rest
      · have := ih hin; simp only [ne_eq] at this; omega
      · have : rest.filter (fun y => decide (¬ y = x)) = rest := by
          rw [List.filter_eq_self]; intro a ha; simp; rintro rfl; exact hin ha
        rw [this]; omega
    · have hin : r ∈ rest := by
        rcases List.mem_cons.mp h with h | h
        · exact absurd h.symm hx
        · exact h
      have := ih hin
      simp only [ne_eq] at this
      simp only [List.filter_cons, ne_eq, hx, not_false_eq_true, decide_true, if_true, List.map_cons, List.sum_cons]
      omega

theorem mu_done (B : HBlock) (st : RepairSt) (r : Req) (h : r ∈ st.outstanding) :
    mu B (done st r) + wt B r ≤ mu B st := by
  unfold mu done
  exact sum_filter_ne (wt B) st.outstanding r h

theorem mu_sendRequest (B : HBlock) (st : RepairSt) (r : Req) : mu B (sendRequest st r) ≤ mu B st + wt B r := by
  unfold mu sendRequest
  simp only
  split
  · omega
  · simp

theorem mu_sendAll (B : HBlock) (st : RepairSt) (rs : List Req) :
    mu B (sendAll st rs) ≤ mu B st + (rs.map (wt B)).sum := by
  unfold sendAll
  induction rs generalizing st with
  | nil => simp
  | cons r rest ih =>
    simp only [List.foldl_cons, List.map_cons, List.sum_cons]
    have h1 := ih (sendRequest st r)
    have h2 := mu_sendRequest B st r
    omega

theorem mu_sendAll_le (B : HBlock) (st st0 : RepairSt) (rs : List Req) (h : st.outstanding = st0.outstanding) :
    mu B (sendAll st rs) ≤ mu B st0 + (rs.map (wt B)).sum := by
  have := mu_sendAll B st rs
  have e : mu B st = mu B st0 := by unfold mu; rw [h]
  omega

theorem sum_const (f : Req → Nat) (l : List Req) (c : Nat) (h : ∀ x ∈ l, f x = c) : (l.map f).sum = c * l.length := by
  induction l with
  | nil => simp
  | cons x rest ih =>
    simp only [List.map_cons, List.sum_cons, List.length_cons]
    rw [h x List.mem_cons_self, ih (fun y hy => h y (List.mem_cons_of_mem _ hy))]
    rw [Nat.mul_succ]; omega

theorem mu_roots_only (B : HBlock) (st st' : RepairSt) (h : st'.outstanding = st.outstanding) : mu B st' = mu B st := by
  unfold mu; rw [h]


/-- the request lies inside the block `B` -/
def InBlock (B : HBlock) : Req → Prop
  | .last _ => True
  | .root _ i => i < B.n
  | .shred _ i j => i < B.n ∧ j < TOTAL_SHREDS

theorem inBlock_of_inv (B : HBlock) (cap : Nat) (σ : Sys) (hinv : RepInv B cap σ) (r : Req)
    (hr : r ∈ σ.st.outstanding) (hb : r.bid = bidOf B) : InBlock B r := by
  cases r with
  | last b => trivial
  | root b i => simp only [Req.bid] at hb; subst hb; exact hinv.reqRoot i hr
  | shred b i j => simp only [Req.bid] at hb; subst hb; exact hinv.reqShred i j hr

/-- **A correct response to an outstanding request makes progress**: it is admissible, removes only
    that request, and strictly decreases the weight of what is still requested. -/
theorem honest_step (B : HBlock) (env : Nat → Content) (cap : Nat) (hwf : B.WF env cap)
    (hroots : ∀ i, i < B.n → B.root i ≠ 0) (hn32 : B.n ≤ 2 ^ 32) (σ : Sys) (r : Req)
    (hinv : RepInv B cap σ) (hout : r ∈ σ.st.outstanding) (hb : r.bid = bidOf B) :
    Admissible B (.resp (honestResp B r)) ∧
      (∀ x ∈ σ.st.outstanding, x ≠ r → x ∈ (stepEv env cap σ (.resp (honestResp B r))).1.st.outstanding) ∧
      mu B (stepEv env cap σ (.resp (honestResp B r))).1.st < mu B σ.st := by
  have hn := hwf.npos
  cases r with
  | last b =>
    simp only [Req.bid] at hb; subst hb
    have hv := honest_last_valid B hn hn32
    simp only [honestResp, stepEv, handle_last_valid env cap σ.st σ.store (bidOf B) (B.n - 1) _ _ hout hv]
    refine ⟨fun _ => hroots (B.n - 1) (by omega), ?_, ?_⟩
    · intro x hx hne
      rw [sendAll_outstanding]
      exact Or.inl ((done_outstanding _ _ _).mpr ⟨hx, hne⟩)
    · refine Nat.lt_of_le_of_lt (mu_sendAll_le B _ (done σ.st (Req.last (bidOf B))) _ rfl) ?_
      have h2 := mu_done B σ.st (Req.last (bidOf B)) hout
      have h4 : (((List.range (B.n - 1 + 1)).map (fun i => Req.root (bidOf B) i)).map (wt B)).sum =
          (TOTAL_SHREDS + 1) * B.n := by
        rw [sum_const (wt B) _ (TOTAL_SHREDS + 1)]
        · simp only [List.length_map, List.length_range]
          have : B.n - 1 + 1 = B.n := by omega
          rw [this]
        · intro x hx
          simp only [List.mem_map] at hx
          obtain ⟨i, _, rfl⟩ := hx
          simp [wt, Req.bid]
      have h5 : wt B (Req.last (bidOf B)) = 1 + (TOTAL_SHREDS + 1) * B.n := by simp [wt, Req.bid]
      omega
  | root b i =>
    simp only [Req.bid] at hb; subst hb
    have hi := hinv.reqRoot i hout
    have hv := honest_root_valid B hn32 i hi
    simp only [honestResp, stepEv, handle_root_valid env cap σ.st σ.store (bidOf B) i _ _ hout hv]
    refine ⟨fun _ => hroots i hi, ?_, ?_⟩
    · intro x hx hne
      rw [sendAll_outstanding]
      exact Or.inl ((done_outstanding _ _ _).mpr ⟨hx, hne⟩)
    · refine Nat.lt_of_le_of_lt (mu_sendAll_le B _ (done σ.st (Req.root (bidOf B) i)) _ rfl) ?_
      have h2 := mu_done B σ.st (Req.root (bidOf B) i) hout
      have h4 : (((List.range TOTAL_SHREDS).map (fun j => Req.shred (bidOf B) i j)).map (wt B)).sum = TOTAL_SHREDS := by
        rw [sum_const (wt B) _ 1]
        · simp
        · intro x hx
          simp only [List.mem_map] at hx
          obtain ⟨j, _, rfl⟩ := hx
          simp [wt, Req.bid]
      have h5 : wt B (Req.root (bidOf B) i) = TOTAL_SHREDS + 1 := by simp [wt, Req.bid]
      omega
  | shred b i j =>
    simp only [Req.bid] at hb; subst hb
    obtain ⟨root, hroot⟩ := shred_arm_root_known σ.st (bidOf B) i j hinv.rootsKnown hout
    obtain ⟨_, hr⟩ := hinv.roots i root hroot
    subst hr
    have hroot' : rootGet σ.st.sliceRoots (bidOf B, i) = some (B.shred i j).root := hroot
    have hlast : (B.shred i j).isLast = decide (lastGet σ.st.lastSlices (bidOf B) = some i) :=
      (last_flag_of_inv B cap σ hinv hn i (by rw [hroot]; rfl)).symm
    simp only [honestResp, stepEv,
      handle_shred_valid env cap σ.st σ.store (bidOf B) i j (B.shred i j) hout rfl rfl hroot' hlast rfl]
    refine ⟨fun _ _ _ _ _ _ => rfl, ?_, ?_⟩
    · intro x hx hne
      exact (done_outstanding _ _ _).mpr ⟨hx, hne⟩
    · have h2 := mu_done B σ.st (Req.shred (bidOf B) i j) hout
      have h5 : wt B (Req.shred (bidOf B) i j) = 1 := by simp [wt, Req.bid]
      omega

/-- **Fair schedules exist from every state of the repair, and they are finite**: whatever happened
    before (any admissible prefix leads to a `RepInv` state), answering the outstanding requests
    correctly, one at a time, is a fair schedule — by induction on the weight `mu` of what is still
    requested (last-slice root > slice roots > shreds). -/
theorem fair_extension (B : HBlock) (env : Nat → Content) (cap : Nat) (hwf : B.WF env cap)
    (hroots : ∀ i, i < B.n → B.root i ≠ 0) (hn32 : B.n ≤ 2 ^ 32) (σ : Sys) (hinv : RepInv B cap σ) :
    ∃ ext : List Ev, (∀ e ∈ ext, Admissible B e) ∧
      (∀ e ∈ ext, ∃ r, r.bid = bidOf B ∧ InBlock B r ∧ e = .resp (honestResp B r)) ∧
      Fair env cap (honestResp B) (bidOf B) σ ext := by
  generalize hm : mu B σ.st = m
  induction m using Nat.strongRecOn generalizing σ with
  | _ m ih =>
    rcases Classical.em (∃ r, r ∈ σ.st.outstanding ∧ r.bid = bidOf B) with ⟨r, hout, hb⟩ | hnone
    · obtain ⟨hadm, hkeep, hlt⟩ := honest_step B env cap hwf hroots hn32 σ r hinv hout hb
      have hinv' := (stepEv_repInv B env cap hwf hroots σ _ hinv hadm).1
      obtain ⟨ext, h1, h2, h3⟩ := ih _ (by rw [← hm]; exact hlt) _ hinv' rfl
      refine ⟨.resp (honestResp B r) :: ext, ?_, ?_, ?_⟩
      · intro e he
        rcases List.mem_cons.mp he with rfl | he
        · exact hadm
        · exact h1 e he
      · intro e he
        rcases List.mem_cons.mp he with rfl | he
        · exact ⟨r, hb, inBlock_of_inv B cap σ hinv r hout hb, rfl⟩
        · exact h2 e he
      · refine ⟨?_, h3⟩
        intro r' hr' hb'
        by_cases hrr : r' = r
        · subst hrr; exact Or.inl ⟨rfl, hr'⟩
        · right
          have hin := hkeep r' hr' hrr
          cases ext with
          | nil => exact absurd hb' (h3 r' hin)
          | cons e' rest => exact h3.1 r' hin hb'
    · refine ⟨[], by simp, by simp, ?_⟩
      intro r hr hb
      exact hnone ⟨r, hr, hb⟩

end AgModel.Repair
