import AgModel.Proofs.Shred
/-!
A lawful instance of `AgModel.Shred.Env` (non-vacuity of `Env.Laws`, the hypotheses of the C11 / C12 theorems).

The code is trivially MDS: every recovery shard carries, per position, the whole column of the 32 originals,
encoded injectively into one natural number (`pair a b = 2^a·(2b+1)`, folded over the column). The cipher
and the key mask are the identity, the leaf id is the same list encoding (with the length).
-/
namespace AgModel.Shred.Instance
open AgModel.Pad

/-- number of times 2 divides `n` (fuel `f`) -/
def v2F : Nat → Nat → Nat
  | 0, _ => 0
  | f + 1, n => if n % 2 = 0 ∧ 0 < n then 1 + v2F f (n / 2) else 0

def pair (a b : Nat) : Nat := 2 ^ a * (2 * b + 1)
def fstP (n : Nat) : Nat := v2F n n
def sndP (n : Nat) : Nat := (n / 2 ^ fstP n - 1) / 2

theorem v2F_pair (f a b : Nat) (hf : a < f) : v2F f (pair a b) = a := by
  induction a generalizing f with
  | zero =>
    cases f with
    | zero => omega
    | succ f => simp only [v2F, pair, Nat.pow_zero, Nat.one_mul]; rw [if_neg (by omega)]
  | succ a ih =>
    cases f with
    | zero => omega
    | succ f =>
      have hp : pair (a + 1) b = 2 * pair a b := by unfold pair; rw [Nat.pow_succ]; ac_rfl
      have hpos : 0 < pair a b := Nat.mul_pos (Nat.two_pow_pos a) (by omega)
      simp only [v2F, hp]
      rw [if_pos ⟨by omega, by omega⟩, Nat.mul_div_cancel_left _ (by omega : 0 < 2), ih f (by omega)]
      omega

theorem fstP_pair (a b : Nat) : fstP (pair a b) = a := by
  unfold fstP
  apply v2F_pair
  have h1 : a < 2 ^ a := Nat.lt_two_pow_self
  have h2 : 2 ^ a ≤ pair a b := Nat.le_mul_of_pos_right _ (by omega)
  omega

theorem sndP_pair (a b : Nat) : sndP (pair a b) = b := by
  unfold sndP
  rw [fstP_pair]
  unfold pair
  rw [Nat.mul_div_cancel_left _ (Nat.two_pow_pos a)]
  omega

/-- injective encoding of a list of naturals -/
def encL : List Nat → Nat
  | [] => 0
  | a :: l => pair a (encL l)

/-- `i`-th element out of an encoded list -/
def nthP : Nat → Nat → Nat
  | n, 0 => fstP n
  | n, i + 1 => nthP (sndP n) i

theorem nthP_encL (l : List Nat) (i : Nat) (h : i < l.length) : nthP (encL l) i = l[i] := by
  induction l generalizing i with
  | nil => simp at h
  | cons a l ih =>
    cases i with
    | zero => simp [nthP, encL, fstP_pair]
    | succ i =>
      simp only [nthP, encL, sndP_pair, List.getElem_cons_succ]
      exact ih i (by simpa using h)

def encB (b : List Nat) : Nat := pair b.length (encL b)

theorem encB_inj (a b : List Nat) (h : encB a = encB b) : a = b := by
  have hl : a.length = b.length := by
    have := congrArg fstP h
    simpa [encB, fstP_pair] using this
  have he : encL a = encL b := by
    have := congrArg sndP h
    simpa [encB, sndP_pair] using this
  apply List.ext_getElem hl
  intro i h1 h2
  rw [← nthP_encL a i h1, ← nthP_encL b i h2, he]

/-- column `p` of the originals -/
def col (D : List Bytes) (p : Nat) : List Nat := D.map (·.getD p 0)

def encode (nc : Nat) (D : List Bytes) : List Bytes :=
  List.replicate nc ((List.range ((D.head?.map List.length).getD 0)).map fun p => encL (col D p))

def restore (_nc _sb : Nat) (_orig rcv : List (Nat × Bytes)) (i : Nat) : Bytes :=
  match rcv with
  | [] => []
  | (_, c) :: _ => c.map fun x => nthP x i

def env : Env := ⟨encode, restore, fun _ b => b, fun _ k => k, encB⟩

/-- a duplicate-free list of naturals below `n` has at most `n` elements -/
theorem nodup_bounded_length (n : Nat) (l : List Nat) (hn : l.Nodup) (hb : ∀ x ∈ l, x < n) : l.length ≤ n := by
  induction n generalizing l with
  | zero =>
    cases l with
    | nil => simp
    | cons a l => exact absurd (hb a List.mem_cons_self) (by omega)
  | succ n ih =>
    have h1 : (l.erase n).Nodup := hn.erase n
    have h2 : ∀ x ∈ l.erase n, x < n := by
      intro x hx
      have := (hn.mem_erase_iff).mp hx
      have := hb x this.2
      omega
    have h3 := ih _ h1 h2
    have h4 : l.length ≤ (l.erase n).length + 1 := by
      rw [List.length_erase]; split <;> omega
    omega

theorem laws : env.Laws where
  encode_length := by intro nc D; simp [env, encode]
  encode_size := by
    intro nc D sb hD hs c hc
    simp only [env, encode] at hc
    rw [List.eq_of_mem_replicate hc, List.length_map, List.length_range]
    cases D with
    | nil => simp [DATA_eq] at hD
    | cons d D => simp [hs d List.mem_cons_self]
  restore_spec := by
    intro nc sb D orig rcv i hD hs ho hr hno hnr hcnt hi hni
    have hiD : i < D.length := by rw [hD]; exact hi
    rw [List.getElem?_eq_getElem hiD]
    cases rcv with
    | nil =>
      -- 32 distinct original indices below 32 plus `i` is one too many
      exfalso
      have hb : ∀ x ∈ i :: orig.map Prod.fst, x < 32 := by
        intro x hx
        rcases List.mem_cons.mp hx with rfl | hx
        · rw [DATA_eq] at hi; exact hi
        · obtain ⟨p, hp, rfl⟩ := List.mem_map.mp hx
          have := ho p hp
          have := (List.getElem?_eq_some_iff.mp this).1
          rw [hD, DATA_eq] at this; exact this
      have := nodup_bounded_length 32 (i :: orig.map Prod.fst) (List.nodup_cons.mpr ⟨hni, hno⟩) hb
      simp only [List.length_cons, List.length_map, List.length_nil, Nat.add_zero, DATA_eq] at this hcnt
      omega
    | cons p rest =>
      obtain ⟨j, c⟩ := p
      have hc := hr (j, c) List.mem_cons_self
      simp only [env, encode] at hc
      have hc' := List.mem_of_getElem? hc
      have hceq := List.eq_of_mem_replicate hc'
      have hhead : (D.head?.map List.length).getD 0 = sb := by
        cases D with
        | nil => simp [DATA_eq] at hD
        | cons d D => simp [hs d List.mem_cons_self]
      simp only [env, restore, hceq, hhead, List.map_map, Option.some.injEq]
      apply List.ext_getElem
      · rw [List.length_map, List.length_range, hs _ (List.getElem_mem hiD)]
      · intro p h1 h2
        simp only [List.length_map, List.length_range] at h1
        simp only [List.getElem_map, List.getElem_range, Function.comp_apply]
        rw [nthP_encL (col D p) i (by simp [col, hiD])]
        simp [col, List.getD_eq_getElem?_getD, List.getElem?_eq_getElem h2]
  keystream_invol := by intro k b; rfl
  keystream_length := by intro k b; rfl
  mask_invol := by intro ct k _; rfl
  mask_length := by intro ct k h; exact h
  leafId_inj := by intro a b h; exact encB_inj a b h

end AgModel.Shred.Instance
