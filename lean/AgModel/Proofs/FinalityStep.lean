import AgModel.Proofs.FinalityWalk
import AgModel.Proofs.FinalityEvents
/-!
# Every operation of the tracker keeps `Rel` and does not panic under the safety premise
-/
set_option linter.unusedSectionVars false
namespace AgModel.Finality

/-! ### `prune` -/

theorem prune_status (t : Tracker) (s : Nat) :
    (prune t).status s = if s < (prune t).first then none else t.status s := rfl
theorem prune_parents (t : Tracker) (b : Nat × Nat) :
    (prune t).parents b = if b.1 < (prune t).first then none else t.parents b := rfl
theorem prune_first_ge (t : Tracker) : t.first ≤ (prune t).first := advance_ge _ _ _

theorem prune_status_ge {t : Tracker} {s : Nat} (h : (prune t).first ≤ s) : (prune t).status s = t.status s := by
  rw [prune_status]; simp only [show ¬ s < (prune t).first by omega, if_false]
theorem prune_parents_ge {t : Tracker} {b : Nat × Nat} (h : (prune t).first ≤ b.1) :
    (prune t).parents b = t.parents b := by
  rw [prune_parents]; simp only [show ¬ b.1 < (prune t).first by omega, if_false]

theorem rel_prune {H : List Op} {t : Tracker} (r : Rel H t) : Rel H (prune t) := by
  have hge := prune_first_ge t
  refine ⟨?_, ?_, ?_, ?_⟩
  · intro s hs
    rw [prune_status_ge hs]; exact r.slot s (by omega)
  · intro c p hc
    rw [prune_parents_ge hc]; exact r.par c p (by omega)
  · intro c p h1 h2 h3 _
    rw [prune_parents_ge h2] at h1
    rw [prune_status_ge h2] at h3
    have o := r.closed c p h1 (by omega) h3 (fun x => x)
    constructor
    · intro s a b c'
      rw [prune_status_ge c']; exact o.1 s a b (by omega)
    · intro a
      rw [prune_status_ge a]; exact o.2 (by omega)
  · intro h1
    rw [prune_status_ge (Nat.le_refl _)]
    by_cases h : t.first < (prune t).first
    · exact prune_only_decided t _ h (Nat.le_refl _)
    · have : (prune t).first = t.first := by omega
      rw [this]; exact r.wdec (by omega)

/-! ### operations that decide nothing -/

/-- an operation whose only effect is on the history -/
theorem rel_snoc_same {H : List Op} {t : Tracker} {op : Op} (r : Rel H t)
    (hslot : ∀ s, t.first ≤ s → op.certSlot = some s → SlotOK (H ++ [op]) s (t.status s))
    (hlink : ∀ c p, t.first ≤ c.1 → op = .parent c p → LinkH H c p) : Rel (H ++ [op]) t := by
  refine ⟨?_, ?_, r.closed, r.wdec⟩
  · intro s hs
    by_cases h : op.certSlot = some s
    · exact hslot s hs h
    · exact slotOK_snoc_other (r.slot s hs) h
  · intro c p hc
    rw [r.par c p hc, linkH_snoc]
    constructor
    · exact Or.inl
    · rintro (h | h)
      · exact h
      · exact hlink c p hc h

/-- overwriting the status of one slot by one that means the same for finality -/
theorem rel_set {H : List Op} {t : Tracker} {op : Op} {s : Nat} {v : Status} (r : Rel H t)
    (hop : op.certSlot = some s) (hfh : finalHash (some v) = finalHash (t.status s))
    (hsk : v = .implSkipped ↔ t.status s = some .implSkipped)
    (hok : SlotOK (H ++ [op]) s (some v)) :
    Rel (H ++ [op]) { t with status := setSt t.status s v } := by
  have hnp : ∀ c p, op ≠ .parent c p := by
    intro c p e; subst e; cases hop
  have hfh' : ∀ x, finalHash (setSt t.status s v x) = finalHash (t.status x) := by
    intro x
    by_cases hx : x = s
    · subst hx; simp only [setSt, if_true]; exact hfh
    · simp only [setSt, hx, if_false]
  have hsk' : ∀ x, setSt t.status s v x = some .implSkipped ↔ t.status x = some .implSkipped := by
    intro x
    by_cases hx : x = s
    · subst hx; simp only [setSt, if_true]
      rw [← hsk]
      constructor
      · intro e; cases e; rfl
      · intro e; rw [e]
    · simp only [setSt, hx, if_false]
  refine ⟨?_, ?_, ?_, ?_⟩
  · intro x hx
    show SlotOK _ x (setSt t.status s v x)
    by_cases hxs : x = s
    · subst hxs; simp only [setSt, if_true]; exact hok
    · simp only [setSt, hxs, if_false]
      refine slotOK_snoc_other (r.slot x hx) ?_
      rw [hop]; intro e; cases e; exact hxs rfl
  · intro c p hc
    show t.parents c = some p ↔ _
    rw [r.par c p hc, linkH_snoc]
    constructor
    · exact Or.inl
    · rintro (h | h)
      · exact h
      · exact absurd h (hnp c p)
  · intro c p h1 h2 h3 _
    have h3' : finalHash (setSt t.status s v c.1) = some c.2 := h3
    rw [hfh'] at h3'
    have o := r.closed c p h1 h2 h3' (fun x => x)
    constructor
    · intro x a b c'
      exact (hsk' x).mpr (o.1 x a b c')
    · intro a
      show finalHash (setSt t.status s v p.1) = _
      rw [hfh']; exact o.2 a
  · intro h1
    show Dec (setSt t.status s v t.first)
    have d := r.wdec h1
    rcases dec_cases d with ⟨h, e⟩ | e
    · exact dec_of_finalHash ((hfh' t.first).trans e)
    · rw [(hsk' t.first).mpr e]; exact dec_skipped


/-! ### events are justified by the history -/

/-- everything an event reports is in the naive closure of the history -/
def EvSound (H : List Op) (ev : Event) : Prop :=
  (∀ b, b ∈ evF ev → Final H b) ∧ (∀ s, s ∈ ev.implSkipped → Skip H s)

theorem evSound_empty (H : List Op) : EvSound H {} :=
  ⟨(fun _ h => by cases h), (fun _ h => by cases h)⟩

theorem walk_evsound {H' : List Op} {f : Nat} {t : Tracker} {src : Nat} {blk : Nat × Nat} {ev : Event}
    {t' : Tracker} {ev' : Event} (h : walk f t src blk ev = some (t', ev')) (r : Rel H' t') :
    (∀ b, b ∈ ev'.implFinalized → b ∈ ev.implFinalized ∨ Final H' b) ∧
    (∀ s, s ∈ ev'.implSkipped → s ∈ ev.implSkipped ∨ Skip H' s) := by
  obtain ⟨F, S, e1, e2, sp⟩ := walk_evspec h
  have w := walk_spec h
  have hge : ∀ x, Dec (t'.status x) → ¬ Dec (t.status x) → t'.first ≤ x := by
    intro x d n
    rw [w.first]
    rcases w.evolves x with e | ⟨l, _, _, _⟩
    · rw [e] at d; exact absurd d n
    · exact l
  constructor
  · intro b hb
    rw [e1] at hb
    rcases List.mem_append.mp hb with hb | hb
    · exact Or.inl hb
    · right
      have ⟨n, e⟩ := sp.fin b hb
      exact slotOK_final (r.slot b.1 (hge _ (dec_of_finalHash e) n)) e
  · intro x hx
    rw [e2] at hx
    rcases List.mem_append.mp hx with hx | hx
    · exact Or.inl hx
    · right
      have ⟨n, e⟩ := sp.skip x hx
      exact slotOK_skip (r.slot x (hge _ (e ▸ dec_skipped) n)) e

/-! ### direct finalization (`handle_finalized_block`) -/

section
variable {G : List Op} (sf : Safe G)
include sf

theorem hfb_rel {H : List Op} {op : Op} (hsub : Sub (H ++ [op]) G) {t : Tracker} (r : Rel H t)
    {blk : Nat × Nat} (hop : op.certSlot = some blk.1) (hw : t.first ≤ blk.1)
    (hnd : ¬ Dec (t.status blk.1)) (hdir : Direct (H ++ [op]) blk) :
    ∃ t' ev, handleFinalizedBlock { t with status := setSt t.status blk.1 (.finalized blk.2) } blk {} = .ok t' ev ∧
      Rel (H ++ [op]) t' ∧ EvSound (H ++ [op]) ev := by
  have hs : Sub H (H ++ [op]) := sub_append_left H op
  have hsG : Sub H G := hs.trans hsub
  have hblkF : Final (H ++ [op]) blk := .direct hdir
  have hnp : ∀ c p, op ≠ .parent c p := by
    intro c p e; subst e; cases hop
  -- facts about the state after the insert, for any value of `highest`
  have hs1 : ∀ x, setSt t.status blk.1 (.finalized blk.2) x =
      if x = blk.1 then some (.finalized blk.2) else t.status x := fun x => rfl
  have hs1b : setSt t.status blk.1 (.finalized blk.2) blk.1 = some (.finalized blk.2) := by
    rw [hs1]; simp only [if_true]
  have hs1o : ∀ x, x ≠ blk.1 → setSt t.status blk.1 (.finalized blk.2) x = t.status x := by
    intro x hx; rw [hs1]; simp only [hx, if_false]
  have hsame : ∀ x, Dec (t.status x) → setSt t.status blk.1 (.finalized blk.2) x = t.status x := by
    intro x d
    exact hs1o x (by intro e; subst e; exact hnd d)
  have slot1 : ∀ s, t.first ≤ s → SlotOK (H ++ [op]) s (setSt t.status blk.1 (.finalized blk.2) s) := by
    intro s hsw
    by_cases hx : s = blk.1
    · subst hx; rw [hs1b]; exact hdir
    · rw [hs1o s hx]
      refine slotOK_snoc_other (r.slot s hsw) ?_
      rw [hop]; intro e; cases e; exact hx rfl
  have par1 : ∀ c p, t.first ≤ c.1 → (t.parents c = some p ↔ LinkH (H ++ [op]) c p) := by
    intro c p hc
    rw [r.par c p hc, linkH_snoc]
    constructor
    · exact Or.inl
    · rintro (h | h)
      · exact h
      · exact absurd h (hnp c p)
  have wdec1 : 1 ≤ t.first → Dec (setSt t.status blk.1 (.finalized blk.2) t.first) := by
    intro h1
    by_cases hx : t.first = blk.1
    · rw [hx, hs1b]; exact dec_some.mpr rfl
    · rw [hs1o _ hx]; exact r.wdec h1
  have hnewfin : ∀ c : Nat × Nat, ¬ Dec (t.status c.1) →
      finalHash (setSt t.status blk.1 (.finalized blk.2) c.1) = some c.2 → c = blk := by
    intro c nd e
    by_cases hcb : c.1 = blk.1
    · rw [hcb, hs1b] at e
      exact Prod.ext hcb (Option.some.inj e).symm
    · rw [hs1o _ hcb] at e; exact absurd (dec_of_finalHash e) nd
  have closed1 : ∀ hi (pend : Nat × Nat → Prop), (t.parents blk ≠ none → pend blk) →
      Closed { status := setSt t.status blk.1 (.finalized blk.2), parents := t.parents, highest := hi,
               first := t.first } pend := by
    intro hi pend hpend
    refine closed_step (t := t) rfl rfl hsame r.closed ?_
    intro c p h1 h2 h3 h4 h5
    rcases h5 with h5 | h5
    · exact absurd h5 (fun x => x)
    · have := hnewfin c h5 h3
      subst this
      have h1' : t.parents c = some p := h1
      exact absurd (hpend (by rw [h1']; intro e; cases e)) h4
  generalize hr : handleFinalizedBlock { t with status := setSt t.status blk.1 (.finalized blk.2) } blk {} = res
  simp only [handleFinalizedBlock] at hr
  split at hr
  · rename_i p hp
    have hp' : t.parents blk = some p := hp
    have wh : WalkHyp H (H ++ [op])
        { status := setSt t.status blk.1 (.finalized blk.2), parents := t.parents,
          highest := max blk.1 t.highest, first := t.first } blk.1 blk.2 p := by
      refine ⟨slot1, par1, closed1 _ _ (fun _ => rfl), wdec1, hw, ?_, hp', ?_, ?_, ?_⟩
      · show finalHash (setSt t.status blk.1 (.finalized blk.2) blk.1) = _
        rw [hs1b]; rfl
      · intro s a b
        show SlotOK H s (setSt t.status blk.1 (.finalized blk.2) s)
        rw [hs1o s (by omega)]; exact r.slot s a
      · intro b hb a c
        show finalHash (setSt t.status blk.1 (.finalized blk.2) b.1) = _
        rw [hs1o _ (by omega)]; exact r.final_complete sf hsG hb a
      · intro ⟨hfin, _⟩
        exact hnd (dec_of_finalHash (r.final_complete sf hsG hfin hw))
    obtain ⟨t2, ev2, hw2, rel2⟩ := walk_rel sf hsub hs blk.1 _ blk.1 blk.2 p
      { finalized := some blk, implFinalized := [], implSkipped := [] } wh (Nat.le_refl _)
    split at hr
    · rename_i t3 ev3 hw3
      rw [hw2] at hw3
      cases hw3
      have hsd := walk_evsound hw2 rel2
      have hfz := walk_finalized hw2
      refine ⟨_, _, hr.symm, rel_prune rel2, ?_, ?_⟩
      · intro b hb
        unfold evF at hb
        rw [hfz] at hb
        rcases List.mem_append.mp hb with hb | hb
        · have : b = blk := by simpa using hb
          rw [this]; exact hblkF
        · rcases hsd.1 b hb with h | h
          · cases h
          · exact h
      · intro x hx
        rcases hsd.2 x hx with h | h
        · cases h
        · exact h
    · rename_i hw3
      rw [hw2] at hw3
      cases hw3
  · rename_i hp
    have hp' : t.parents blk = none := hp
    refine ⟨_, _, hr.symm, rel_prune ⟨slot1, par1, closed1 _ _ (fun h => absurd hp' h), wdec1⟩, ?_, ?_⟩
    · intro b hb
      have : b = blk := by simpa [evF] using hb
      rw [this]; exact hblkF
    · intro x hx; cases hx

end


/-- an operation (not a link) arriving for a slot that is already decided, or below the watermark -/
theorem rel_snoc_dec {H : List Op} {t : Tracker} {op : Op} (r : Rel H t) (hnp : ∀ c p, op ≠ .parent c p)
    (hdec : ∀ s, t.first ≤ s → op.certSlot = some s → Dec (t.status s)) : Rel (H ++ [op]) t :=
  rel_snoc_same r (fun s a e => slotOK_mono_dec (sub_append_left H op) (r.slot s a) (hdec s a e))
    (fun c p _ e => absurd e (hnp c p))

/-! ### the four operations -/

section
variable {G : List Op} (sf : Safe G)
include sf

theorem markFastFinalized_rel {H : List Op} {blk : Nat × Nat} (hsub : Sub (H ++ [.fastFinal blk]) G)
    {t : Tracker} (r : Rel H t) :
    ∃ t' ev, markFastFinalized t blk = .ok t' ev ∧ Rel (H ++ [.fastFinal blk]) t' ∧ EvSound (H ++ [.fastFinal blk]) ev := by
  have hs : Sub H (H ++ [Op.fastFinal blk]) := sub_append_left H _
  have hop : (Op.fastFinal blk).certSlot = some blk.1 := rfl
  have hdir : Direct (H ++ [Op.fastFinal blk]) blk := Or.inl (fastH_snoc.mpr (Or.inr rfl))
  have hblkF : Final (H ++ [Op.fastFinal blk]) blk := .direct hdir
  generalize hr : markFastFinalized t blk = res
  simp only [markFastFinalized] at hr
  split at hr
  · rename_i hlow
    refine ⟨_, _, hr.symm, rel_snoc_same r ?_ ?_, evSound_empty _⟩
    · intro s a e; cases e; omega
    · intro c p _ e; cases e
  rename_i hlow
  have hw : t.first ≤ blk.1 := by omega
  have ok := r.slot blk.1 hw
  have hfin : ∀ h, finalHash (t.status blk.1) = some h → h = blk.2 := by
    intro h e
    have := sf.final_fun (blk.1, h) blk ((slotOK_final ok e).mono (hs.trans hsub)) (hblkF.mono hsub) rfl
    rw [← this]
  have hkeep : ∀ h, finalHash (t.status blk.1) = some h →
      Rel (H ++ [.fastFinal blk]) { t with status := setSt t.status blk.1 (.finalized blk.2) } := by
    intro h e
    refine rel_set r hop ?_ ?_ hdir
    · rw [e, hfin h e]; rfl
    · constructor
      · intro e'; cases e'
      · intro e'; rw [e'] at e; cases e
  split at hr
  · rename_i h hst
    have e : finalHash (t.status blk.1) = some h := by rw [hst]; rfl
    rw [if_pos (hfin h e)] at hr
    exact ⟨_, _, hr.symm, hkeep h e, evSound_empty _⟩
  · rename_i h hst
    have e : finalHash (t.status blk.1) = some h := by rw [hst]; rfl
    rw [if_pos (hfin h e)] at hr
    exact ⟨_, _, hr.symm, hkeep h e, evSound_empty _⟩
  · rename_i h hst
    rw [hst] at ok
    have := sf.notar_direct (blk.1, h) blk (ok.1.mono (hs.trans hsub)) (hdir.mono hsub) rfl
    have hh : h = blk.2 := by rw [← this]
    rw [if_pos hh] at hr
    obtain ⟨t', ev, h1, h2⟩ := hfb_rel sf hsub r hop hw (by rw [hst]; simp [dec_some, Status.decided]) hdir
    exact ⟨t', ev, hr.symm.trans h1, h2⟩
  · rename_i hst
    obtain ⟨t', ev, h1, h2⟩ := hfb_rel sf hsub r hop hw (by rw [hst]; simp [dec_some, Status.decided]) hdir
    exact ⟨t', ev, hr.symm.trans h1, h2⟩
  · rename_i hst
    rw [hst] at ok
    exact absurd (Skip.mono (hs.trans hsub) ok) (sf.final_not_skip (hblkF.mono hsub))
  · rename_i hst
    obtain ⟨t', ev, h1, h2⟩ := hfb_rel sf hsub r hop hw (by rw [hst]; exact not_dec_none) hdir
    exact ⟨t', ev, hr.symm.trans h1, h2⟩


theorem markNotarized_rel {H : List Op} {blk : Nat × Nat} (hsub : Sub (H ++ [.notar blk]) G)
    {t : Tracker} (r : Rel H t) :
    ∃ t' ev, markNotarized t blk = .ok t' ev ∧ Rel (H ++ [.notar blk]) t' ∧ EvSound (H ++ [.notar blk]) ev := by
  have hs : Sub H (H ++ [Op.notar blk]) := sub_append_left H _
  have hop : (Op.notar blk).certSlot = some blk.1 := rfl
  have hN : NotarH (H ++ [Op.notar blk]) blk := notarH_snoc.mpr (Or.inr rfl)
  have hnp : ∀ c p, Op.notar blk ≠ .parent c p := by intro c p e; cases e
  generalize hr : markNotarized t blk = res
  simp only [markNotarized] at hr
  split at hr
  · rename_i hlow
    refine ⟨_, _, hr.symm, rel_snoc_same r ?_ ?_, evSound_empty _⟩
    · intro s a e; cases e; omega
    · intro c p _ e; cases e
  rename_i hlow
  have hw : t.first ≤ blk.1 := by omega
  have ok := r.slot blk.1 hw
  have hnF : ¬ FinH H blk.1 → ¬ FinH (H ++ [Op.notar blk]) blk.1 := by
    intro a b
    rcases finH_snoc.mp b with b | b
    · exact a b
    · cases b
  have hnFF : (∀ h, ¬ FastH H (blk.1, h)) → ∀ h, ¬ FastH (H ++ [Op.notar blk]) (blk.1, h) := by
    intro a h b
    rcases fastH_snoc.mp b with b | b
    · exact a h b
    · cases b
  have hdecided : Dec (t.status blk.1) → Rel (H ++ [.notar blk]) t := by
    intro d
    refine rel_snoc_dec r hnp ?_
    intro s _ e; cases e; exact d
  have hfinal : ∀ h, t.status blk.1 = some (.finalized h) → h = blk.2 := by
    intro h e
    have := sf.notar_direct blk (blk.1, h) (hN.mono hsub) ((slotOK_direct ok e).mono (hs.trans hsub)) rfl
    rw [this]
  split at hr
  · rename_i hst
    rw [hst] at ok
    refine ⟨_, _, hr.symm, rel_set r hop (by rw [hst]; rfl) ?_ ⟨hN, hnF ok.1, hnFF ok.2.2⟩, evSound_empty _⟩
    constructor
    · intro e; cases e
    · intro e; rw [hst] at e; cases e
  · rename_i h hst
    rw [hst] at ok
    have := sf.notar_fun (blk.1, h) blk (ok.1.mono (hs.trans hsub)) (hN.mono hsub) rfl
    have hh : h = blk.2 := by rw [← this]
    rw [if_pos hh] at hr
    refine ⟨_, _, hr.symm, rel_set r hop (by rw [hst]; rfl) ?_ ⟨hN, hnF ok.2.1, hnFF ok.2.2⟩, evSound_empty _⟩
    constructor
    · intro e; cases e
    · intro e; rw [hst] at e; cases e
  · rename_i h hst
    rw [if_pos (hfinal h hst)] at hr
    exact ⟨_, _, hr.symm, hdecided (by rw [hst]; exact dec_some.mpr rfl), evSound_empty _⟩
  · rename_i h hst
    exact ⟨_, _, hr.symm, hdecided (by rw [hst]; exact dec_some.mpr rfl), evSound_empty _⟩
  · rename_i hst
    exact ⟨_, _, hr.symm, hdecided (by rw [hst]; exact dec_skipped), evSound_empty _⟩
  · rename_i hst
    rw [hst] at ok
    have hdir : Direct (H ++ [Op.notar blk]) blk := Or.inr ⟨ok.1.mono hs, hN⟩
    obtain ⟨t', ev, h1, h2⟩ := hfb_rel sf hsub r hop hw (by rw [hst]; simp [dec_some, Status.decided]) hdir
    exact ⟨t', ev, hr.symm.trans h1, h2⟩

theorem markFinalized_rel {H : List Op} {slot : Nat} (hsub : Sub (H ++ [.final slot]) G)
    {t : Tracker} (r : Rel H t) :
    ∃ t' ev, markFinalized t slot = .ok t' ev ∧ Rel (H ++ [.final slot]) t' ∧ EvSound (H ++ [.final slot]) ev := by
  have hs : Sub H (H ++ [Op.final slot]) := sub_append_left H _
  have hop : (Op.final slot).certSlot = some slot := rfl
  have hF : FinH (H ++ [Op.final slot]) slot := finH_snoc.mpr (Or.inr rfl)
  have hnp : ∀ c p, Op.final slot ≠ .parent c p := by intro c p e; cases e
  generalize hr : markFinalized t slot = res
  simp only [markFinalized] at hr
  split at hr
  · rename_i hlow
    refine ⟨_, _, hr.symm, rel_snoc_same r ?_ ?_, evSound_empty _⟩
    · intro s a e; cases e; omega
    · intro c p _ e; cases e
  rename_i hlow
  have hw : t.first ≤ slot := by omega
  have ok := r.slot slot hw
  have hnN : (∀ h, ¬ NotarH H (slot, h)) → ∀ h, ¬ NotarH (H ++ [Op.final slot]) (slot, h) := by
    intro a h b
    rcases notarH_snoc.mp b with b | b
    · exact a h b
    · cases b
  have hnFF : (∀ h, ¬ FastH H (slot, h)) → ∀ h, ¬ FastH (H ++ [Op.final slot]) (slot, h) := by
    intro a h b
    rcases fastH_snoc.mp b with b | b
    · exact a h b
    · cases b
  have hdecided : Dec (t.status slot) → Rel (H ++ [.final slot]) t := by
    intro d
    refine rel_snoc_dec r hnp ?_
    intro s _ e; cases e; exact d
  split at hr
  · rename_i hst
    rw [hst] at ok
    refine ⟨_, _, hr.symm, rel_set r hop (by rw [hst]; rfl) ?_ ⟨hF, hnN ok.2.1, hnFF ok.2.2⟩, evSound_empty _⟩
    constructor
    · intro e; cases e
    · intro e; rw [hst] at e; cases e
  · rename_i hst
    rw [hst] at ok
    refine ⟨_, _, hr.symm, rel_set r hop (by rw [hst]) ?_ ⟨hF, hnN ok.2.1, hnFF ok.2.2⟩, evSound_empty _⟩
    constructor
    · intro e; cases e
    · intro e; rw [hst] at e; cases e
  · rename_i h hst
    exact ⟨_, _, hr.symm, hdecided (by rw [hst]; exact dec_some.mpr rfl), evSound_empty _⟩
  · rename_i h hst
    exact ⟨_, _, hr.symm, hdecided (by rw [hst]; exact dec_some.mpr rfl), evSound_empty _⟩
  · rename_i h hst
    rw [hst] at ok
    have hdir : Direct (H ++ [Op.final slot]) (slot, h) := Or.inr ⟨hF, ok.1.mono hs⟩
    obtain ⟨t', ev, h1, h2⟩ := hfb_rel sf hsub r (blk := (slot, h)) hop hw
      (by rw [hst]; simp [dec_some, Status.decided]) hdir
    exact ⟨t', ev, hr.symm.trans h1, h2⟩
  · rename_i hst
    rw [hst] at ok
    exact absurd (Skip.mono (hs.trans hsub) ok) (sf.fin_not_skip slot (hF.mono hsub))


theorem addParent_rel {H : List Op} {blk par : Nat × Nat} (hsub : Sub (H ++ [.parent blk par]) G)
    {t : Tracker} (r : Rel H t) :
    ∃ t' ev, addParent t blk par = .ok t' ev ∧ Rel (H ++ [.parent blk par]) t' ∧ EvSound (H ++ [.parent blk par]) ev := by
  have hs : Sub H (H ++ [Op.parent blk par]) := sub_append_left H _
  have hsG : Sub H G := hs.trans hsub
  have hL : LinkH (H ++ [Op.parent blk par]) blk par := linkH_snoc.mpr (Or.inr rfl)
  have hlt : par.1 < blk.1 := sf.link_lt _ _ (hL.mono hsub)
  generalize hr : addParent t blk par = res
  simp only [addParent] at hr
  split at hr
  · omega
  split at hr
  · rename_i hlow
    refine ⟨_, _, hr.symm, rel_snoc_same r ?_ ?_, evSound_empty _⟩
    · intro s a e; cases e
    · intro c p a e; cases e; omega
  rename_i hlow
  have hw : t.first ≤ blk.1 := by omega
  split at hr
  · rename_i p hp
    have hlp : LinkH H blk p := (r.par blk p hw).mp hp
    have : p = par := sf.link_fun blk p par (hlp.mono hsG) (hL.mono hsub)
    rw [if_pos this] at hr
    refine ⟨_, _, hr.symm, rel_snoc_same r ?_ ?_, evSound_empty _⟩
    · intro s a e; cases e
    · intro c q a e; cases e; rw [← this]; exact hlp
  rename_i hvac
  -- the state with the new link
  have hsp : ∀ c, setPar t.parents blk par c = if c = blk then some par else t.parents c := fun c => rfl
  have slot1 : ∀ s, t.first ≤ s → SlotOK (H ++ [Op.parent blk par]) s (t.status s) := by
    intro s a
    exact slotOK_snoc_other (r.slot s a) (by intro e; cases e)
  have par1 : ∀ c p, t.first ≤ c.1 →
      (setPar t.parents blk par c = some p ↔ LinkH (H ++ [Op.parent blk par]) c p) := by
    intro c p hc
    rw [hsp, linkH_snoc]
    by_cases hcb : c = blk
    · subst hcb
      simp only [if_true]
      constructor
      · intro e; cases e; exact Or.inr rfl
      · rintro (h | h)
        · have := (r.par c p hc).mpr h
          rw [hvac] at this; cases this
        · cases h; rfl
    · simp only [hcb, if_false]
      rw [r.par c p hc]
      constructor
      · exact Or.inl
      · rintro (h | h)
        · exact h
        · cases h; exact absurd rfl hcb
  have closed1 : ∀ (pend : Nat × Nat → Prop), (finalHash (t.status blk.1) = some blk.2 → pend blk) →
      Closed { t with parents := setPar t.parents blk par } pend := by
    intro pend hpend c p h1 h2 h3 h4
    have h1' : setPar t.parents blk par c = some p := h1
    rw [hsp] at h1'
    by_cases hcb : c = blk
    · subst hcb
      exact absurd (hpend h3) h4
    · simp only [hcb, if_false] at h1'
      exact r.closed c p h1' h2 h3 (fun x => x)
  have hfin : ∀ hh, finalHash (t.status blk.1) = some hh →
      (if blk.2 = hh then
        match walk blk.1 { t with parents := setPar t.parents blk par } blk.1 par {} with
        | some (t2, ev) => Res.ok (prune t2) ev
        | none => Res.panic
       else Res.ok { t with parents := setPar t.parents blk par } {}) = res →
      ∃ t' ev, res = .ok t' ev ∧ Rel (H ++ [.parent blk par]) t' ∧ EvSound (H ++ [.parent blk par]) ev := by
    intro hh e hr
    split at hr
    · rename_i heq
      have wh : WalkHyp H (H ++ [Op.parent blk par]) { t with parents := setPar t.parents blk par }
          blk.1 blk.2 par := by
        refine ⟨slot1, par1, closed1 _ (fun _ => rfl), r.wdec, hw, ?_, ?_, ?_, ?_, ?_⟩
        · show finalHash (t.status blk.1) = _
          rw [e, heq]
        · show setPar t.parents blk par blk = some par
          rw [hsp]; simp only [if_true]
        · intro s a _; exact r.slot s a
        · intro b hb a _; exact r.final_complete sf hsG hb a
        · intro ⟨_, hl⟩
          have := (r.par blk par hw).mpr hl
          rw [hvac] at this; cases this
      obtain ⟨t2, ev2, hw2, rel2⟩ := walk_rel sf hsub hs blk.1 _ blk.1 blk.2 par {} wh (Nat.le_refl _)
      split at hr
      · rename_i t3 ev3 hw3
        rw [hw2] at hw3
        cases hw3
        have hsd := walk_evsound hw2 rel2
        have hfz := walk_finalized hw2
        refine ⟨_, _, hr.symm, rel_prune rel2, ?_, ?_⟩
        · intro b hb
          unfold evF at hb
          rw [hfz] at hb
          rcases hsd.1 b (by simpa using hb) with h | h
          · cases h
          · exact h
        · intro x hx
          rcases hsd.2 x hx with h | h
          · cases h
          · exact h
      · rename_i hw3
        rw [hw2] at hw3
        cases hw3
    · rename_i hne
      refine ⟨_, _, hr.symm, ⟨slot1, par1, closed1 _ ?_, r.wdec⟩, evSound_empty _⟩
      intro e'
      rw [e] at e'
      exact absurd (Option.some.inj e').symm hne
  split at hr
  · rename_i hh hst
    exact hfin hh (by rw [show t.status blk.1 = some (.finalized hh) from hst]; rfl) hr
  · rename_i hh hst
    exact hfin hh (by rw [show t.status blk.1 = some (.implFinalized hh) from hst]; rfl) hr
  · rename_i hn1 hn2
    refine ⟨_, _, hr.symm, ⟨slot1, par1, closed1 _ ?_, r.wdec⟩, evSound_empty _⟩
    intro e
    have e' : finalHash (t.status blk.1) = some blk.2 := e
    cases hst : t.status blk.1 with
    | none => rw [hst] at e'; cases e'
    | some x =>
      rw [hst] at e'
      cases x with
      | notarized _ => cases e'
      | finalPending => cases e'
      | finalized h => exact absurd hst (hn1 h)
      | implFinalized h => exact absurd hst (hn2 h)
      | implSkipped => cases e'

/-- Every operation: no panic, and `Rel` for the extended history. -/
theorem step_rel {H : List Op} {op : Op} (hsub : Sub (H ++ [op]) G) {t : Tracker} (r : Rel H t)
    :
    ∃ t' ev, step t op = .ok t' ev ∧ Rel (H ++ [op]) t' ∧ EvSound (H ++ [op]) ev := by
  cases op with
  | parent b p => exact addParent_rel sf hsub r
  | fastFinal b => exact markFastFinalized_rel sf hsub r
  | notar b => exact markNotarized_rel sf hsub r
  | final s => exact markFinalized_rel sf hsub r

end

theorem rel_init : Rel [] init := by
  refine ⟨?_, ?_, ?_, ?_⟩
  · intro s _
    by_cases h : s = 0
    · subst h
      show SlotOK [] 0 (some (.notarized 0))
      refine ⟨Or.inl rfl, ?_, ?_⟩
      · intro h; cases h
      · intro h a; cases a
    · have : init.status s = none := by simp only [init, h, if_false]
      rw [this]
      refine ⟨?_, ?_, ?_⟩
      · intro a; cases a
      · intro h' a
        rcases a with a | a
        · cases a; exact h rfl
        · cases a
      · intro h' a; cases a
  · intro c p _
    constructor
    · intro h; cases h
    · intro h; cases h
  · intro c p h; cases h
  · intro h; simp only [init] at h; omega

end AgModel.Finality
