import AgModel.Proofs.RepairStore
/-!
The repair responder (`RepairRequestHandler::try_build_response`) over a blockstore satisfying the
invariant: it never panics, NACKs what lies beyond the block, and for a held block every answer verifies
(helper lemmas for `Props/C14Live.lean`).
-/
namespace AgModel.Repair
open AgModel.Blockstore AgModel.Merkle

theorem blockData_binv (sd : SlotData) (h : H) (bd : BlockData) (hs : SInv sd) (hb : blockData sd h = some bd) :
    BInv bd ∧ bd.cap = sd.dis.cap := by
  unfold blockData at hb
  split at hb
  · split at hb
    · simp at hb; subst hb; exact ⟨hs.dis, rfl⟩
    · exact ⟨(hs.rep h bd hb).1, (hs.rep h bd hb).2.2⟩
  · exact ⟨(hs.rep h bd hb).1, (hs.rep h bd hb).2.2⟩

theorem blockData_flagInv (sd : SlotData) (h : H) (bd : BlockData) (hs : SInv sd) (hb : blockData sd h = some bd) :
    FlagInv bd := by
  unfold blockData at hb
  split at hb
  · split at hb
    · simp at hb; subst hb; exact hs.flg.1
    · exact hs.flg.2 h bd hb
  · exact hs.flg.2 h bd hb

/-- a shred served for slice `i` of a block whose last slice is `l` carries the flag `i = l` -/
theorem getShred_flag (sd : SlotData) (h : H) (bd : BlockData) (l i j : Nat) (s : Shred) (hs : SInv sd)
    (hb : blockData sd h = some bd) (hl : bd.lastSlice = some l) (hg : getShred sd h i j = some s) :
    s.isLast = decide (i = l) := by
  have hf := blockData_flagInv sd h bd hs hb
  simp only [getShred, hb, Option.bind_some] at hg
  cases harr : bd.shreds i with
  | none => simp [harr] at hg
  | some arr =>
    simp only [harr, Option.bind_some] at hg
    rw [hf i arr j s harr hg, hl]
    apply decide_eq_decide.mpr
    constructor
    · intro h; injection h with h; exact h.symm
    · intro h; rw [h]

theorem blockData_tyInv (sd : SlotData) (h : H) (bd : BlockData) (hs : SInv sd) (hb : blockData sd h = some bd) :
    TyInv bd := by
  unfold blockData at hb
  split at hb
  · split at hb
    · simp at hb; subst hb; exact hs.typ.1
    · exact hs.typ.2 h bd hb
  · exact hs.typ.2 h bd hb

/-- a served shred has the data/coding type that fits its index (D15 `fix:`: nothing else is ever stored) -/
theorem getShred_ty (sd : SlotData) (h : H) (i j : Nat) (s : Shred) (hs : SInv sd)
    (hg : getShred sd h i j = some s) : s.ty = true := by
  cases hb : blockData sd h with
  | none => simp [getShred, hb] at hg
  | some bd =>
    have hf := blockData_tyInv sd h bd hs hb
    simp only [getShred, hb, Option.bind_some] at hg
    cases harr : bd.shreds i with
    | none => simp [harr] at hg
    | some arr =>
      simp only [harr, Option.bind_some] at hg
      exact hf i arr j s harr hg

theorem present_head (arr : ShredArr) (s0 : Shred) (h : arr 0 = some s0) : (present arr).head? = some s0 := by
  unfold present
  have : TOTAL_SHREDS = 63 + 1 := rfl
  rw [this, List.range_succ_eq_map, List.filterMap_cons, h]
  rfl

/-- what the queries return for slice `i` of a block whose tree has been built -/
theorem slice_queries (sd : SlotData) (h : H) (bd : BlockData) (roots : List Nat) (l i : Nat)
    (hbi : BInv bd) (hb : blockData sd h = some bd) (ht : bd.tree = some roots) (hl : bd.lastSlice = some l) (hi : i ≤ l) :
    ∃ root, getSliceRoot sd h i = some root ∧ roots[i]? = some root ∧
      createProof sd h i = some (some ((Tree.new roots).createProof i)) ∧
      ∀ j, j < TOTAL_SHREDS → ∃ s, getShred sd h i j = some s ∧ s.slice = i ∧ s.idx = j ∧ s.root = root := by
  obtain ⟨l', hl', hlen, _, hall⟩ := hbi.tre roots ht
  rw [hl] at hl'; simp at hl'; subst hl'
  obtain ⟨⟨c, hc, hr⟩, arr, harr, hfull⟩ := hall i hi
  have h0 := hfull 0 (by rw [show TOTAL_SHREDS = 64 from rfl]; omega)
  cases hs0 : arr 0 with
  | none => rw [hs0] at h0; simp at h0
  | some s0 =>
    have hc0 := (hbi.shr i arr 0 s0 harr hs0).2.2
    rw [hc] at hc0; simp at hc0; subst hc0
    refine ⟨s0.root, ?_, hr, ?_, ?_⟩
    · simp only [getSliceRoot, hb, Option.bind_some, harr, present_head arr s0 hs0, Option.map_some]
    · simp only [createProof, hb, Option.bind_some, ht, Option.map_some]
      rw [if_pos (by omega)]
    · intro j hj
      have hsj := hfull j hj
      cases hs : arr j with
      | none => rw [hs] at hsj; simp at hsj
      | some s =>
        obtain ⟨h1, h2, h3⟩ := hbi.shr i arr j s harr hs
        rw [hc] at h3; simp at h3
        refine ⟨s, by simp only [getShred, hb, Option.bind_some, harr, hs], h1, h2, ?_⟩
        exact (congrArg Commitment.root h3).symm

/-- **The responder never panics** (`assert!(index < leaves)` in `create_proof` is unreachable): every
    request — any kind, any block id, any indices — gets an answer. -/
theorem answer_total (sd : SlotData) (r : Req) (hs : SInv sd) : answer sd r ≠ none := by
  cases r with
  | last b =>
    unfold answer
    simp only
    cases hli : getLastSliceIndex sd b.hash with
    | none => simp
    | some last =>
      simp only
      cases hsr : getSliceRoot sd b.hash last with
      | none => simp
      | some root =>
        simp only
        cases hcp : createProof sd b.hash last with
        | none => simp
        | some o =>
          cases o with
          | some π => simp
          | none =>
            exfalso
            unfold createProof at hcp
            unfold getLastSliceIndex at hli
            cases hb : blockData sd b.hash with
            | none => simp [hb] at hli
            | some bd =>
              simp only [hb, Option.bind_some] at hli hcp
              cases ht : bd.tree with
              | none => simp [ht] at hcp
              | some roots =>
                simp only [ht, Option.map_some, Option.some.injEq] at hcp
                obtain ⟨l', hl', hlen, _⟩ := (blockData_binv sd b.hash bd hs hb).1.tre roots ht
                rw [hli] at hl'; simp at hl'; subst hl'
                rw [if_pos (by omega)] at hcp; simp at hcp
  | root b i =>
    unfold answer
    simp only
    cases hsr : getSliceRoot sd b.hash i with
    | none => simp
    | some root =>
      simp only
      cases hcp : createProof sd b.hash i with
      | none => simp
      | some o =>
        cases o with
        | some π => simp
        | none =>
          exfalso
          unfold createProof at hcp
          unfold getSliceRoot at hsr
          cases hb : blockData sd b.hash with
          | none => simp [hb] at hsr
          | some bd =>
            simp only [hb, Option.bind_some] at hsr hcp
            cases ht : bd.tree with
            | none => simp [ht] at hcp
            | some roots =>
              simp only [ht, Option.map_some, Option.some.injEq] at hcp
              have hbi := (blockData_binv sd b.hash bd hs hb).1
              obtain ⟨l, hl, hlen, _⟩ := hbi.tre roots ht
              by_cases hil : i < roots.length
              · rw [if_pos hil] at hcp; simp at hcp
              · have := (hbi.lst l i hl (by omega)).1
                rw [this] at hsr; simp at hsr
  | shred b i j =>
    unfold answer
    simp only
    cases getShred sd b.hash i j <;> simp

/-- requests about slices beyond the last one are NACKed -/
theorem answer_beyond_last (sd : SlotData) (b : Bid) (l i j : Nat) (hs : SInv sd)
    (hl : getLastSliceIndex sd b.hash = some l) (hi : l < i) :
    answer sd (.root b i) = some (.nack (.root b i)) ∧ answer sd (.shred b i j) = some (.nack (.shred b i j)) := by
  unfold getLastSliceIndex at hl
  cases hb : blockData sd b.hash with
  | none => simp [hb] at hl
  | some bd =>
    simp only [hb, Option.bind_some] at hl
    have := ((blockData_binv sd b.hash bd hs hb).1.lst l i hl hi).1
    constructor
    · simp [answer, getSliceRoot, hb, this]
    · simp [answer, getShred, hb, this]

/-- **Every answer for a held block verifies at the requester and carries exactly the requested item.** -/
theorem answer_held_verifies (sd : SlotData) (b : Bid) (blk : Block) (hs : SInv sd) (hcap : sd.dis.cap ≤ 2 ^ 32)
    (hheld : getBlock sd b.hash = some blk) :
    ∃ l, (∃ root π, answer sd (.last b) = some (.lastRoot (.last b) l root π) ∧ checkProofLast root l b.hash π = true) ∧
      ∀ i, i ≤ l → ∃ root π, answer sd (.root b i) = some (.sliceRoot (.root b i) root π) ∧
        checkProof root i b.hash π = true ∧
        ∀ j, j < TOTAL_SHREDS → ∃ s, answer sd (.shred b i j) = some (.shred (.shred b i j) b.slot s true) ∧
          s.slice = i ∧ s.idx = j ∧ s.root = root ∧ s.isLast = decide (i = l) ∧ s.ty = true := by
  have hhash := getBlock_hash sd b.hash blk hs.ok hheld
  unfold getBlock at hheld
  cases hb : blockData sd b.hash with
  | none => simp [hb] at hheld
  | some bd =>
    simp only [hb, Option.bind_some] at hheld
    obtain ⟨hbi, hbcap⟩ := blockData_binv sd b.hash bd hs hb
    obtain ⟨roots, ht, hroot⟩ := hbi.cmp blk hheld
    obtain ⟨l, hl, hlen, hlcap, _⟩ := hbi.tre roots ht
    have hlen32 : roots.length ≤ 2 ^ 32 := by omega
    have hne : roots ≠ [] := by intro h; rw [h] at hlen; simp at hlen
    have hbh : b.hash = (Tree.new roots).root := by rw [← hhash, hroot]
    refine ⟨l, ?_, ?_⟩
    · obtain ⟨root, h1, h2, h3, _⟩ := slice_queries sd b.hash bd roots l l hbi hb ht hl (Nat.le_refl l)
      refine ⟨root, (Tree.new roots).createProof l, ?_, ?_⟩
      · have hli : getLastSliceIndex sd b.hash = some l := by simp [getLastSliceIndex, hb, hl]
        simp only [answer, hli, h1, h3]
      · have := Merkle.complete_last roots hne hlen32
        rw [hlen] at this
        simp only [Nat.add_sub_cancel] at this
        have hg : roots.getD l 0 = root := by simp [List.getD_eq_getElem?_getD, h2]
        rw [hg, ← hbh] at this
        exact this
    · intro i hi
      obtain ⟨root, h1, h2, h3, h4⟩ := slice_queries sd b.hash bd roots l i hbi hb ht hl hi
      refine ⟨root, (Tree.new roots).createProof i, ?_, ?_, ?_⟩
      · simp only [answer, h1, h3]
      · have := Merkle.complete roots i (by omega) hlen32
        have hg : roots.getD i 0 = root := by simp [List.getD_eq_getElem?_getD, h2]
        rw [hg, ← hbh] at this
        exact this
      · intro j hj
        obtain ⟨s, hs1, hs2, hs3, hs4⟩ := h4 j hj
        exact ⟨s, by simp only [answer, hs1], hs2, hs3, hs4, getShred_flag sd b.hash bd l i j s hs hb hl hs1,
          getShred_ty sd b.hash i j s hs hs1⟩


/-! ### a peer that holds the leader's block answers with `honestResp` -/

/-- `sd` holds the complete block `B` of a correct leader (obtained through dissemination or repair) -/
def Holds (B : HBlock) (cap : Nat) (sd : SlotData) : Prop :=
  SInv sd ∧ ∃ bd, blockData sd B.block.hash = some bd ∧ Good B cap bd ∧ bd.completed.isSome

theorem holder_answers (B : HBlock) (cap : Nat) (sd : SlotData) (hh : Holds B cap sd) (r : Req)
    (hb : r.bid.hash = B.block.hash) (hin : InBlock B r) : answer sd r = some (honestResp B r) := by
  obtain ⟨hs, bd, hbd, hg, hc⟩ := hh
  obtain ⟨hbi, _⟩ := blockData_binv sd _ bd hs hbd
  cases hcc : bd.completed with
  | none => rw [hcc] at hc; simp at hc
  | some blk =>
    obtain ⟨roots, ht, _⟩ := hbi.cmp blk hcc
    obtain ⟨l, hl, hlen, _, hall⟩ := hbi.tre roots ht
    have hln := hg.last l hl
    have hroots : roots = B.roots := by
      apply List.ext_getElem?
      intro i
      by_cases hi : i < B.n
      · obtain ⟨⟨c, hc1, hc2⟩, _⟩ := hall i (by omega)
        rw [hc2, (hg.cache i c hc1).2]
        simp [HBlock.roots, HBlock.commit, hi]
      · rw [List.getElem?_eq_none (by omega), List.getElem?_eq_none (by rw [roots_length]; omega)]
    subst hroots
    have hq : ∀ i, i < B.n → getSliceRoot sd B.block.hash i = some (B.root i) ∧
        createProof sd B.block.hash i = some (some ((Tree.new B.roots).createProof i)) ∧
        ∀ j, j < TOTAL_SHREDS → getShred sd B.block.hash i j = some (B.shred i j) := by
      intro i hi
      obtain ⟨root, h1, h2, h3, h4⟩ := slice_queries sd _ bd B.roots l i hbi hbd ht hl (by omega)
      have hr : root = B.root i := by
        have : B.roots[i]? = some (B.root i) := by simp [HBlock.roots, hi]
        rw [this] at h2; simp at h2; exact h2.symm
      subst hr
      refine ⟨h1, h3, ?_⟩
      intro j hj
      obtain ⟨s, hs1, _⟩ := h4 j hj
      rw [hs1]
      simp only [getShred, hbd, Option.bind_some] at hs1
      cases harr : bd.shreds i with
      | none => simp [harr] at hs1
      | some arr =>
        simp only [harr, Option.bind_some] at hs1
        rw [((hg.shreds i arr harr).2 j s hs1).2]
    cases r with
    | last b =>
      simp only [Req.bid] at hb
      obtain ⟨h1, h2, _⟩ := hq (B.n - 1) (by have := hln; omega)
      have hli : getLastSliceIndex sd B.block.hash = some (B.n - 1) := by
        simp only [getLastSliceIndex, hbd, Option.bind_some, hl]
        congr 1; omega
      simp only [answer, hb, hli, h1, h2, honestResp]
    | root b i =>
      simp only [Req.bid] at hb
      obtain ⟨h1, h2, _⟩ := hq i hin
      simp only [answer, hb, h1, h2, honestResp]
    | shred b i j =>
      simp only [Req.bid] at hb
      obtain ⟨_, _, h3⟩ := hq i hin.1
      simp only [answer, hb, h3 j hin.2, honestResp]


/-! ### fairness does not depend on how the correct responder is presented -/

theorem served_congr (env : Nat → Content) (cap : Nat) (ρ ρ' : Req → Resp) (r : Req) (h : ρ r = ρ' r)
    (evs : List Ev) (σ : Sys) : Served env cap ρ r σ evs → Served env cap ρ' r σ evs := by
  induction evs generalizing σ with
  | nil => exact id
  | cons e rest ih =>
    intro hs
    rcases hs with hs | hs
    · exact Or.inl (by rw [← h]; exact hs)
    · exact Or.inr (ih _ hs)

theorem fair_congr (B : HBlock) (env : Nat → Content) (cap : Nat) (hwf : B.WF env cap)
    (hroots : ∀ i, i < B.n → B.root i ≠ 0) (ρ ρ' : Req → Resp)
    (hρ : ∀ r, r.bid = bidOf B → InBlock B r → ρ r = ρ' r) (evs : List Ev) (σ : Sys)
    (hinv : RepInv B cap σ) (hadm : ∀ e ∈ evs, Admissible B e)
    (hf : Fair env cap ρ (bidOf B) σ evs) : Fair env cap ρ' (bidOf B) σ evs := by
  induction evs generalizing σ with
  | nil => exact hf
  | cons e rest ih =>
    refine ⟨?_, ih _ (stepEv_repInv B env cap hwf hroots σ e hinv (hadm e List.mem_cons_self)).1
      (fun x hx => hadm x (List.mem_cons_of_mem _ hx)) hf.2⟩
    intro r hr hb
    exact served_congr env cap ρ ρ' r (hρ r hb (inBlock_of_inv B cap σ hinv r hr hb)) _ σ (hf.1 r hr hb)

/-- what a peer with slot data `sd` sends back (`try_build_response(..).unwrap_or(Nack)`) -/
def respOf (sd : SlotData) (r : Req) : Resp := (answer sd r).getD (.nack r)

/-! ### starting a repair -/

/-- **`repair_block` establishes the invariant**: on a requester that knows nothing about `B` yet (no
    request, no proven root, no repair spot, block not held), starting the repair of `B` yields a
    state satisfying `RepInv`. -/
theorem repInv_begin (B : HBlock) (env : Nat → Content) (cap : Nat) (hn : 0 < B.n) (σ : Sys)
    (hslot : (storeGet cap σ.store B.slot).dis.slot = B.slot) (hcap : (storeGet cap σ.store B.slot).dis.cap = cap)
    (hnone : getBlock (storeGet cap σ.store B.slot) B.block.hash = none)
    (hspot : repGet (storeGet cap σ.store B.slot).rep B.block.hash = none)
    (hrk : RootsKnown σ.st)
    (hnoroots : ∀ i, rootGet σ.st.sliceRoots (bidOf B, i) = none)
    (hnoreq : ∀ r ∈ σ.st.outstanding, r.bid ≠ bidOf B) :
    RepInv B cap (stepEv env cap σ (.start (bidOf B))).1 := by
  have hbh : (bidOf B).hash = B.block.hash := rfl
  have hbs : (bidOf B).slot = B.slot := rfl
  have hst : (stepEv env cap σ (.start (bidOf B))).1 = ⟨sendRequest σ.st (.last (bidOf B)), σ.store⟩ := by
    simp only [stepEv, repairBlock, hbh, hbs, hnone, Option.isSome_none, Bool.false_eq_true, if_false]
  rw [hst]
  have hsp : spotOf cap B σ.store = BlockData.new cap B.slot := by
    unfold spotOf; rw [hspot, hslot, hcap]; rfl
  constructor
  · intro blk hd hh
    simp only at hd
    have : getBlock (storeGet cap σ.store B.slot) B.block.hash = some blk := by
      simp [getBlock, blockData, hd, hh]
    rw [hnone] at this; simp at this
  · simp only; rw [hsp]; exact live_new B cap hn
  · exact sendRequest_rootsKnown σ.st _ hrk (by intro b i j h; simp at h)
  · intro i root h
    simp only [sendRequest_roots] at h
    rw [hnoroots] at h; simp at h
  · intro i h
    exfalso
    rcases h with h | h
    · simp only [sendRequest_outstanding] at h
      rcases h with h | h
      · exact absurd rfl (hnoreq _ h)
      · simp at h
    · simp only [sendRequest_roots] at h
      rw [hnoroots] at h; simp at h
  · intro i h
    simp only [sendRequest_outstanding] at h
    rcases h with h | h
    · exact absurd rfl (hnoreq _ h)
    · simp at h
  · intro i j h
    simp only [sendRequest_outstanding] at h
    rcases h with h | h
    · exact absurd rfl (hnoreq _ h)
    · simp at h
  · right; left
    exact (sendRequest_outstanding _ _ _).mpr (Or.inr rfl)

end AgModel.Repair
