import AgModel.Proofs.PoolInv
/-! Preservation of the vote/counter invariant `InvV` by an admitted vote. -/
namespace AgModel.Pool

/-- the pool's admission filter lets the vote through -/
def Adm (st : SlotState) (v : Vote) : Prop := st.checkSlashable v = none ∧ st.shouldIgnore v = false

theorem contains_append_single (l : List Nat) (s x : Nat) : (l ++ [s]).contains x = (l.contains x || x == s) := by
  simp [List.contains_eq_mem, List.mem_append, Bool.decide_or]
  by_cases h : x = s <;> simp [h]

theorem nodup_append_single {α : Type} [DecidableEq α] (l : List α) (s : α) (hl : l.Nodup) (hs : s ∉ l) : (l ++ [s]).Nodup := by
  rw [List.nodup_append]
  refine ⟨hl, by simp, ?_⟩
  intro a ha b hb
  simp at hb; subst hb
  intro e; subst e; exact hs ha

macro "unchanged " i:ident : tactic =>
  `(tactic| first
    | exact ($i).notarNodup | exact ($i).nfNodup | exact ($i).skipNodup | exact ($i).sfNodup | exact ($i).finNodup
    | exact ($i).cNotar | exact ($i).cNf | exact ($i).cSkip | exact ($i).cSf | exact ($i).cFin
    | exact ($i).cNotarOrSkip | exact ($i).topGe | exact ($i).topAttained | exact ($i).noSkipNotar
    | exact ($i).noFinSkip | exact ($i).noSkipSf | exact ($i).noNotarNfSame)

theorem not_contains {l : List Nat} {s : Nat} (h : l.contains s = false) : s ∉ l := by
  simpa [List.contains_eq_mem] using h

/-! #### skip -/
theorem stored_skip (e : Epoch) (st : SlotState) (v : Vote) (hk : v.kind = .skip) (i : InvV e st) (ha : Adm st v) :
    InvV e (st.stored e v) := by
  obtain ⟨hs, hi⟩ := ha
  unfold SlotState.checkSlashable at hs
  unfold SlotState.shouldIgnore at hi
  simp only [hk] at hs hi
  have hfin : v.signer ∉ st.vFin := by
    intro h; simp [h] at hs
  have hnot : st.vNotar.lookup v.signer = none := by
    cases h2 : st.vNotar.lookup v.signer with
    | none => rfl
    | some x => simp [h2, hfin] at hs
  have hskip : v.signer ∉ st.vSkip := by
    intro h; simp [h] at hi
  have hsf : v.signer ∉ st.vSf := by
    intro h; simp [h] at hi
  unfold SlotState.stored
  simp only [hk]
  constructor
  all_goals try (unchanged i)
  · exact nodup_append_single _ _ i.skipNodup hskip
  · -- cSkip
    show st.sSkip + e.stake v.signer = stakeOf e ((List.range e.n).filter ((st.vSkip ++ [v.signer]).contains ·))
    rw [i.cSkip]
    exact (sumIf_range_insert e (st.vSkip.contains ·) ((st.vSkip ++ [v.signer]).contains ·) v.signer
      (fun x => contains_append_single _ _ _) (by simpa [List.contains_eq_mem] using hskip)).symm
  · -- cNotarOrSkip
    show st.sNotarOrSkip + e.stake v.signer =
      stakeOf e ((List.range e.n).filter (fun x => (st.vNotar.lookup x).isSome)) + (st.sSkip + e.stake v.signer)
    have := i.cNotarOrSkip; omega
  · -- noSkipNotar
    intro x hx
    rcases List.mem_append.mp hx with h | h
    · exact i.noSkipNotar x h
    · simp at h; subst h; exact hnot
  · -- noFinSkip
    intro x hx
    obtain ⟨a, b, c⟩ := i.noFinSkip x hx
    refine ⟨?_, b, c⟩
    intro hm
    rcases List.mem_append.mp hm with h | h
    · exact a h
    · simp at h; subst h; exact hfin hx
  · -- noSkipSf
    intro x hx
    rcases List.mem_append.mp hx with h | h
    · exact i.noSkipSf x h
    · simp at h; subst h; exact hsf

/-! #### skip-fallback -/
theorem stored_sf (e : Epoch) (st : SlotState) (v : Vote) (hk : v.kind = .sf) (i : InvV e st) (ha : Adm st v) :
    InvV e (st.stored e v) := by
  obtain ⟨hs, hi⟩ := ha
  unfold SlotState.checkSlashable at hs
  unfold SlotState.shouldIgnore at hi
  simp only [hk] at hs hi
  have hfin : v.signer ∉ st.vFin := by
    intro h; simp [h] at hs
  have hskip : v.signer ∉ st.vSkip := by
    intro h; simp [h] at hi
  have hsf : v.signer ∉ st.vSf := by
    intro h; simp [h] at hi
  unfold SlotState.stored
  simp only [hk]
  constructor
  all_goals try (unchanged i)
  · exact nodup_append_single _ _ i.sfNodup hsf
  · show st.sSf + e.stake v.signer = stakeOf e ((List.range e.n).filter ((st.vSf ++ [v.signer]).contains ·))
    rw [i.cSf]
    exact (sumIf_range_insert e (st.vSf.contains ·) ((st.vSf ++ [v.signer]).contains ·) v.signer
      (fun x => contains_append_single _ _ _) (by simpa [List.contains_eq_mem] using hsf)).symm
  · intro x hx
    obtain ⟨a, b, c⟩ := i.noFinSkip x hx
    refine ⟨a, ?_, c⟩
    intro hm
    rcases List.mem_append.mp hm with h | h
    · exact b h
    · simp at h; subst h; exact hfin hx
  · intro x hx hm
    rcases List.mem_append.mp hm with h | h
    · exact i.noSkipSf x hx h
    · simp at h; subst h; exact hskip hx

/-! #### finalize -/
theorem stored_final (e : Epoch) (st : SlotState) (v : Vote) (hk : v.kind = .final) (i : InvV e st) (ha : Adm st v) :
    InvV e (st.stored e v) := by
  obtain ⟨hs, hi⟩ := ha
  unfold SlotState.checkSlashable at hs
  unfold SlotState.shouldIgnore at hi
  simp only [hk] at hs hi
  have hskip : v.signer ∉ st.vSkip := by
    intro h; simp [h] at hs
  have hsf : v.signer ∉ st.vSf := by
    intro h; simp [h] at hs
  have hnf : ∀ h, (v.signer, h) ∉ st.vNf := by
    intro h hm
    have : st.vNf.any (·.1 == v.signer) = true := by
      simp only [List.any_eq_true]; exact ⟨_, hm, by simp⟩
    simp [hskip, hsf, this] at hs
  have hfin : v.signer ∉ st.vFin := by
    intro h; simp [h] at hi
  unfold SlotState.stored
  simp only [hk]
  constructor
  all_goals try (unchanged i)
  · exact nodup_append_single _ _ i.finNodup hfin
  · show st.sFin + e.stake v.signer = stakeOf e ((List.range e.n).filter ((st.vFin ++ [v.signer]).contains ·))
    rw [i.cFin]
    exact (sumIf_range_insert e (st.vFin.contains ·) ((st.vFin ++ [v.signer]).contains ·) v.signer
      (fun x => contains_append_single _ _ _) (by simpa [List.contains_eq_mem] using hfin)).symm
  · intro x hx
    rcases List.mem_append.mp hx with h | h
    · exact i.noFinSkip x h
    · simp at h; subst h; exact ⟨hskip, hsf, hnf⟩

theorem contains_pair_append_single (l : List (Nat × Nat)) (s h x h' : Nat) :
    (l ++ [(s, h)]).contains (x, h') = (l.contains (x, h') || (x == s && h' == h)) := by
  simp only [List.contains_eq_mem, List.mem_append, List.mem_singleton, Prod.mk.injEq, Bool.decide_or]
  congr 1
  by_cases h1 : x = s <;> by_cases h2 : h' = h <;> simp [h1, h2]

/-! #### notar-fallback -/
theorem stored_nf (e : Epoch) (st : SlotState) (v : Vote) (hk : v.kind = .nf) (i : InvV e st) (ha : Adm st v) :
    InvV e (st.stored e v) := by
  obtain ⟨hs, hi⟩ := ha
  unfold SlotState.checkSlashable at hs
  unfold SlotState.shouldIgnore at hi
  simp only [hk] at hs hi
  have hfin : v.signer ∉ st.vFin := by
    intro h; simp [h] at hs
  have hnfn : (v.signer, v.hash) ∉ st.vNf := by
    intro h; simp [h] at hi
  have hnot : st.vNotar.lookup v.signer ≠ some v.hash := by
    intro h; simp [h] at hi
  unfold SlotState.stored
  simp only [hk]
  constructor
  all_goals try (unchanged i)
  · exact nodup_append_single _ _ i.nfNodup hnfn
  · -- cNf
    intro h'
    show lookupD (addTo st.sNf v.hash (e.stake v.signer)) h' =
      stakeOf e ((List.range e.n).filter (fun x => (st.vNf ++ [(v.signer, v.hash)]).contains (x, h')))
    rw [lookupD_addTo, i.cNf h']
    by_cases hh : h' = v.hash
    · subst hh
      simp only [if_true]
      exact (sumIf_range_insert e (fun x => st.vNf.contains (x, v.hash))
        (fun x => (st.vNf ++ [(v.signer, v.hash)]).contains (x, v.hash)) v.signer
        (fun x => by rw [contains_pair_append_single]; simp)
        (by simpa [List.contains_eq_mem] using hnfn)).symm
    · simp only [hh, if_false, Nat.add_zero]
      apply sumIf_congr
      intro x _
      rw [contains_pair_append_single]; simp [hh]
  · -- noFinSkip
    intro x hx
    obtain ⟨a, b, c⟩ := i.noFinSkip x hx
    refine ⟨a, b, ?_⟩
    intro h' hm
    rcases List.mem_append.mp hm with h | h
    · exact c h' h
    · simp at h; obtain ⟨h1, _⟩ := h; subst h1; exact hfin hx
  · -- noNotarNfSame
    intro x h' hm
    rcases List.mem_append.mp hm with h | h
    · exact i.noNotarNfSame x h' h
    · simp at h; obtain ⟨h1, h2⟩ := h; subst h1; subst h2; exact hnot

theorem lookup_isSome_of_mem_keys (l : List (Nat × Nat)) (k : Nat) (h : k ∈ l.map Prod.fst) : ∃ x, l.lookup k = some x := by
  induction l with
  | nil => simp at h
  | cons p ps ih =>
    obtain ⟨a, b⟩ := p
    by_cases hka : k = a
    · subst hka; exact ⟨b, by simp [List.lookup]⟩
    · have : (k == a) = false := by simpa using hka
      simp only [List.lookup, this]
      apply ih
      simp only [List.map_cons, List.mem_cons] at h
      rcases h with h | h
      · exact absurd h hka
      · exact h

/-- lookup in the notar store after appending the (new) voter `s` -/
theorem lookup_after_store (l : List (Nat × Nat)) (s h x : Nat) (hs : l.lookup s = none) :
    (l ++ [(s, h)]).lookup x = if x = s then some h else l.lookup x := by
  rw [lookup_append_single]
  by_cases hx : x = s
  · subst hx; simp [hs]
  · simp only [hx, if_false]
    cases l.lookup x <;> rfl

/-! #### notarize -/
theorem stored_notar (e : Epoch) (st : SlotState) (v : Vote) (hk : v.kind = .notar) (i : InvV e st) (ha : Adm st v) :
    InvV e (st.stored e v) := by
  obtain ⟨hs, hi⟩ := ha
  unfold SlotState.checkSlashable at hs
  unfold SlotState.shouldIgnore at hi
  simp only [hk] at hs hi
  have hskip : v.signer ∉ st.vSkip := by
    intro h; simp [h] at hs
  have hnot : st.vNotar.lookup v.signer = none := by
    cases h2 : st.vNotar.lookup v.signer with
    | none => rfl
    | some x => simp [h2] at hi
  have hnfn : (v.signer, v.hash) ∉ st.vNf := by
    intro h; simp [h, hnot] at hi
  have hlk := lookup_after_store st.vNotar v.signer v.hash
  unfold SlotState.stored
  simp only [hk]
  constructor
  all_goals try (unchanged i)
  · -- notarNodup
    show ((st.vNotar ++ [(v.signer, v.hash)]).map Prod.fst).Nodup
    rw [List.map_append]
    apply nodup_append_single _ _ i.notarNodup
    intro hm
    obtain ⟨x, hx⟩ := lookup_isSome_of_mem_keys _ _ hm
    rw [hnot] at hx; cases hx
  · -- cNotar
    intro h'
    show lookupD (addTo st.sNotar v.hash (e.stake v.signer)) h' =
      stakeOf e ((List.range e.n).filter (fun x => (st.vNotar ++ [(v.signer, v.hash)]).lookup x == some h'))
    rw [lookupD_addTo, i.cNotar h']
    by_cases hh : h' = v.hash
    · subst hh
      simp only [if_true]
      exact (sumIf_range_insert e (fun x => st.vNotar.lookup x == some v.hash)
        (fun x => (st.vNotar ++ [(v.signer, v.hash)]).lookup x == some v.hash) v.signer
        (fun x => by
          rw [hlk x hnot]
          by_cases hx : x = v.signer
          · subst hx; simp
          · simp [hx])
        (by simp [hnot])).symm
    · simp only [hh, if_false, Nat.add_zero]
      apply sumIf_congr
      intro x _
      rw [hlk x hnot]
      by_cases hx : x = v.signer
      · subst hx; simp [hnot]; exact fun a => hh a.symm
      · simp [hx]
  · -- cNotarOrSkip
    show st.sNotarOrSkip + e.stake v.signer =
      stakeOf e ((List.range e.n).filter (fun x => ((st.vNotar ++ [(v.signer, v.hash)]).lookup x).isSome)) + st.sSkip
    have h1 := sumIf_range_insert e (fun x => (st.vNotar.lookup x).isSome)
        (fun x => ((st.vNotar ++ [(v.signer, v.hash)]).lookup x).isSome) v.signer
        (fun x => by
          rw [hlk x hnot]
          by_cases hx : x = v.signer
          · subst hx; simp
          · simp [hx])
        (by simp [hnot])
    have h2 := i.cNotarOrSkip
    rw [stakeOf_eq_sumIf] at h2 ⊢
    omega
  · -- topGe
    intro h'
    show lookupD (addTo st.sNotar v.hash (e.stake v.signer)) h' ≤
      max (lookupD (addTo st.sNotar v.hash (e.stake v.signer)) v.hash) st.sTopNotar
    by_cases hh : h' = v.hash
    · subst hh; exact Nat.le_max_left _ _
    · rw [lookupD_addTo]; simp only [hh, if_false, Nat.add_zero]
      exact Nat.le_trans (i.topGe h') (Nat.le_max_right _ _)
  · -- topAttained
    show max (lookupD (addTo st.sNotar v.hash (e.stake v.signer)) v.hash) st.sTopNotar = 0 ∨
      ∃ h, lookupD (addTo st.sNotar v.hash (e.stake v.signer)) h =
        max (lookupD (addTo st.sNotar v.hash (e.stake v.signer)) v.hash) st.sTopNotar
    by_cases hge : st.sTopNotar ≤ lookupD (addTo st.sNotar v.hash (e.stake v.signer)) v.hash
    · right; exact ⟨v.hash, by rw [Nat.max_eq_left hge]⟩
    · have hlt : lookupD (addTo st.sNotar v.hash (e.stake v.signer)) v.hash < st.sTopNotar := by omega
      rw [Nat.max_eq_right (Nat.le_of_lt hlt)]
      rcases i.topAttained with h0 | ⟨h0, hh0⟩
      · omega
      · right
        refine ⟨h0, ?_⟩
        rw [lookupD_addTo]
        by_cases he : h0 = v.hash
        · subst he
          rw [lookupD_addTo] at hlt; simp at hlt; omega
        · simp [he, hh0]
  · -- noSkipNotar
    intro x hx
    show (st.vNotar ++ [(v.signer, v.hash)]).lookup x = none
    rw [hlk x hnot]
    have : x ≠ v.signer := by intro e; subst e; exact hskip hx
    simp [this, i.noSkipNotar x hx]
  · -- noNotarNfSame
    intro x h' hm
    show (st.vNotar ++ [(v.signer, v.hash)]).lookup x ≠ some h'
    rw [hlk x hnot]
    by_cases hx : x = v.signer
    · subst hx; simp; intro e; subst e; exact hnfn hm
    · simp [hx]; exact i.noNotarNfSame x h' hm

theorem stored_InvV (e : Epoch) (st : SlotState) (v : Vote) (i : InvV e st) (ha : Adm st v) :
    InvV e (st.stored e v) := by
  cases hk : v.kind
  · exact stored_notar e st v hk i ha
  · exact stored_nf e st v hk i ha
  · exact stored_skip e st v hk i ha
  · exact stored_sf e st v hk i ha
  · exact stored_final e st v hk i ha

end AgModel.Pool
