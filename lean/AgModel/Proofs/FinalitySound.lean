import AgModel.Model.Finality
/-!
# Soundness of the finality tracker's reports, without any premise on the history

For abstract predicates on block ids and slots — `L` ("in the finalized log": finalized or an ancestor of a finalized
block), `G` ("gap": strictly between a block of the log and its parent), `N` / `Fc` (a notarization / finalization
certificate is known) — with the closure properties `direct` (notarized + finalization certificate ⇒ in the log) and `down`
(the registered parent of a block of the log is in the log, the slots in between are gaps): if the tracker is only given
registrations that agree with the parent function, fast-finalizations of blocks in the log, notarizations with `N`
and finalizations with `Fc`, then whenever it does not panic its reports are sound: the reported finalized and
implicitly finalized blocks are in the log (`L`), the implicitly skipped slots are gaps (`G`).

Unlike `reports_exact` (C08) this needs no `Safe` premise; it is the half of C08 that the C01 cluster refinement needs.
-/
namespace AgModel.Finality

structure FP where
  par : Nat × Nat → Nat × Nat
  L : Nat × Nat → Prop
  G : Nat → Prop
  N : Nat × Nat → Prop
  Fc : Nat → Prop
  direct : ∀ b, N b → Fc b.1 → L b
  down : ∀ x p, L x → par x = p → p.1 < x.1 → L p ∧ ∀ u, p.1 < u → u < x.1 → G u

/-- the tracker invariant -/
structure FI (P : FP) (t : Tracker) : Prop where
  parents : ∀ b p, t.parents b = some p → P.par b = p ∧ p.1 < b.1
  fin : ∀ s h, t.status s = some (.finalized h) → P.L (s, h)
  impl : ∀ s h, t.status s = some (.implFinalized h) → P.L (s, h)
  notar : ∀ s h, t.status s = some (.notarized h) → P.N (s, h)
  pend : ∀ s, t.status s = some .finalPending → P.Fc s

/-- a finalization event is sound -/
structure EvS (P : FP) (ev : Event) : Prop where
  fin : ∀ b, ev.finalized = some b → P.L b
  impl : ∀ b, b ∈ ev.implFinalized → P.L b
  skip : ∀ u, u ∈ ev.implSkipped → P.G u

theorem EvS.empty (P : FP) : EvS P {} := ⟨fun _ h => (by cases h), fun _ h => (by cases h), fun _ h => (by cases h)⟩

theorem FI.init (P : FP) (h0 : P.N (0, 0)) : FI P Finality.init := by
  constructor
  · intro b p h; simp [Finality.init] at h
  · intro s h hs; simp only [Finality.init] at hs; split at hs <;> simp at hs
  · intro s h hs; simp only [Finality.init] at hs; split at hs <;> simp at hs
  · intro s h hs
    simp only [Finality.init] at hs
    split at hs
    · rename_i h0'; simp only [Option.some.injEq, Status.notarized.injEq] at hs; subst h0'; subst hs; exact h0
    · cases hs
  · intro s hs; simp only [Finality.init] at hs; split at hs <;> simp at hs

/-- the status facts of the invariant depend only on the status map; a new map whose finalized / implicitly finalized /
    notarized / pending entries are old ones or justified keeps them -/
theorem FI.withStatus {P : FP} {t : Tracker} (h : FI P t) (st : Nat → Option Status)
    (hf : ∀ s x, st s = some (.finalized x) → P.L (s, x)) (hi : ∀ s x, st s = some (.implFinalized x) → P.L (s, x))
    (hn : ∀ s x, st s = some (.notarized x) → P.N (s, x)) (hp : ∀ s, st s = some .finalPending → P.Fc s) :
    FI P { t with status := st } :=
  ⟨h.parents, hf, hi, hn, hp⟩

theorem setSt_eq (st : Nat → Option Status) (s : Nat) (v : Status) (x : Nat) :
    setSt st s v x = if x = s then some v else st x := rfl

/-- setting one status entry -/
theorem FI.set {P : FP} {t : Tracker} (h : FI P t) (s : Nat) (v : Status)
    (hv : match v with
      | .finalized x => P.L (s, x)
      | .implFinalized x => P.L (s, x)
      | .notarized x => P.N (s, x)
      | .finalPending => P.Fc s
      | .implSkipped => True) : FI P { t with status := setSt t.status s v } := by
  apply h.withStatus
  · intro a x hx; rw [setSt_eq] at hx; split at hx
    · rename_i ha; simp only [Option.some.injEq] at hx; subst hx; subst ha; exact hv
    · exact h.fin a x hx
  · intro a x hx; rw [setSt_eq] at hx; split at hx
    · rename_i ha; simp only [Option.some.injEq] at hx; subst hx; subst ha; exact hv
    · exact h.impl a x hx
  · intro a x hx; rw [setSt_eq] at hx; split at hx
    · rename_i ha; simp only [Option.some.injEq] at hx; subst hx; subst ha; exact hv
    · exact h.notar a x hx
  · intro a hx; rw [setSt_eq] at hx; split at hx
    · rename_i ha; simp only [Option.some.injEq] at hx; subst hx; subst ha; exact hv
    · exact h.pend a hx

theorem FI.prune {P : FP} {t : Tracker} (h : FI P t) : FI P (prune t) := by
  unfold Finality.prune
  dsimp only
  constructor
  · intro b p hb; dsimp only at hb; split at hb
    · cases hb
    · exact h.parents b p hb
  · intro s x hx; dsimp only at hx; split at hx
    · cases hx
    · exact h.fin s x hx
  · intro s x hx; dsimp only at hx; split at hx
    · cases hx
    · exact h.impl s x hx
  · intro s x hx; dsimp only at hx; split at hx
    · cases hx
    · exact h.notar s x hx
  · intro s hx; dsimp only at hx; split at hx
    · cases hx
    · exact h.pend s hx

theorem FI.highest {P : FP} {t : Tracker} (h : FI P t) (x : Nat) : FI P { t with highest := x } :=
  ⟨h.parents, h.fin, h.impl, h.notar, h.pend⟩

/-- the implicit-skip loop only writes `ImplicitlySkipped` entries, for slots of its range -/
theorem skipLoop_spec : ∀ (n slot : Nat) (st : Nat → Option Status) (acc : List Nat),
    match skipLoop st acc n slot with
    | .cont st' sk => (∀ s x, st' s = some x → x ≠ .implSkipped → st s = some x) ∧
        (∀ u ∈ sk, u ∈ acc ∨ (slot ≤ u ∧ u < slot + n))
    | .ret st' sk => (∀ s x, st' s = some x → x ≠ .implSkipped → st s = some x) ∧
        (∀ u ∈ sk, u ∈ acc ∨ (slot ≤ u ∧ u < slot + n))
    | .panic => True := by
  intro n
  induction n with
  | zero => intro slot st acc; simp only [skipLoop]; exact ⟨fun _ _ h _ => h, fun u hu => Or.inl hu⟩
  | succ n ih =>
    intro slot st acc
    have key : match skipLoop (setSt st slot .implSkipped) (acc ++ [slot]) n (slot + 1) with
        | .cont st' sk => (∀ s x, st' s = some x → x ≠ .implSkipped → st s = some x) ∧
            (∀ u ∈ sk, u ∈ acc ∨ (slot ≤ u ∧ u < slot + (n + 1)))
        | .ret st' sk => (∀ s x, st' s = some x → x ≠ .implSkipped → st s = some x) ∧
            (∀ u ∈ sk, u ∈ acc ∨ (slot ≤ u ∧ u < slot + (n + 1)))
        | .panic => True := by
      have := ih (slot + 1) (setSt st slot .implSkipped) (acc ++ [slot])
      have hback : ∀ s x, setSt st slot .implSkipped s = some x → x ≠ .implSkipped → st s = some x := by
        intro s x hx hne
        rw [setSt_eq] at hx
        split at hx
        · simp only [Option.some.injEq] at hx; exact absurd hx.symm hne
        · exact hx
      have hacc : ∀ u, (u ∈ acc ++ [slot] ∨ (slot + 1 ≤ u ∧ u < slot + 1 + n)) → (u ∈ acc ∨ (slot ≤ u ∧ u < slot + (n + 1))) := by
        intro u hu
        rcases hu with hu | hu
        · rcases List.mem_append.mp hu with hu | hu
          · exact Or.inl hu
          · simp only [List.mem_singleton] at hu; right; omega
        · right; omega
      split at this
      · exact ⟨fun s x a b => hback s x (this.1 s x a b) b, fun u hu => hacc u (this.2 u hu)⟩
      · exact ⟨fun s x a b => hback s x (this.1 s x a b) b, fun u hu => hacc u (this.2 u hu)⟩
      · trivial
    cases hst : st slot with
    | none => simp only [skipLoop, hst]; exact key
    | some x =>
      cases x with
      | implSkipped => simp only [skipLoop, hst]; exact ⟨fun _ _ h _ => h, fun u hu => Or.inl hu⟩
      | notarized h => simp only [skipLoop, hst]; exact key
      | finalPending => simp only [skipLoop, hst]
      | finalized h => simp only [skipLoop, hst]
      | implFinalized h => simp only [skipLoop, hst]

/-- `handle_implicitly_finalized`: the block `blk` is in the log, the slots between it and the source are gaps -/
theorem walk_fi (P : FP) : ∀ (f : Nat) (t : Tracker) (src : Nat) (blk : Nat × Nat) (ev : Event), FI P t → EvS P ev →
    P.L blk → (∀ u, blk.1 < u → u < src → P.G u) →
    ∀ t' ev', walk f t src blk ev = some (t', ev') → FI P t' ∧ EvS P ev' := by
  intro f
  induction f with
  | zero => intro t src blk ev _ _ _ _ t' ev' hr; simp [walk] at hr
  | succ f ih =>
    intro t src blk ev hfi hev hL hG t' ev' hr
    unfold walk at hr
    split at hr
    · cases hr
    · rename_i hlt
      have hlt' : blk.1 < src := by omega
      split at hr
      · simp only [Option.some.injEq, Prod.mk.injEq] at hr; rw [← hr.1, ← hr.2]; exact ⟨hfi, hev⟩
      · have hsl := skipLoop_spec (src - blk.1 - 1) (blk.1 + 1) t.status ev.implSkipped
        split at hr
        · cases hr
        · -- hit an implicitly skipped slot: return
          rename_i st sk hsk
          rw [hsk] at hsl
          simp only [Option.some.injEq, Prod.mk.injEq] at hr
          rw [← hr.1, ← hr.2]
          refine ⟨hfi.withStatus st ?_ ?_ ?_ ?_, hev.fin, hev.impl, ?_⟩
          · intro s x hx; exact hfi.fin s x (hsl.1 s _ hx (by simp))
          · intro s x hx; exact hfi.impl s x (hsl.1 s _ hx (by simp))
          · intro s x hx; exact hfi.notar s x (hsl.1 s _ hx (by simp))
          · intro s hx; exact hfi.pend s (hsl.1 s _ hx (by simp))
          · intro u hu
            rcases hsl.2 u hu with a | a
            · exact hev.skip u a
            · exact hG u (by omega) (by omega)
        · rename_i st sk hsk
          rw [hsk] at hsl
          have hfi1 : FI P { t with status := st } := by
            refine hfi.withStatus st ?_ ?_ ?_ ?_
            · intro s x hx; exact hfi.fin s x (hsl.1 s _ hx (by simp))
            · intro s x hx; exact hfi.impl s x (hsl.1 s _ hx (by simp))
            · intro s x hx; exact hfi.notar s x (hsl.1 s _ hx (by simp))
            · intro s hx; exact hfi.pend s (hsl.1 s _ hx (by simp))
          have hev1 : EvS P { ev with implSkipped := sk } := by
            refine ⟨hev.fin, hev.impl, ?_⟩
            intro u hu
            rcases hsl.2 u hu with a | a
            · exact hev.skip u a
            · exact hG u (by omega) (by omega)
          -- the continuation `go`
          have hgo : ∀ t' ev',
              (match t.parents blk with
                | some p => walk f { t with status := setSt st blk.1 (.implFinalized blk.2) } blk.1 p
                    { ev with implSkipped := sk, implFinalized := ev.implFinalized ++ [blk] }
                | none => some ({ t with status := setSt st blk.1 (.implFinalized blk.2) },
                    { ev with implSkipped := sk, implFinalized := ev.implFinalized ++ [blk] })) = some (t', ev') →
              FI P t' ∧ EvS P ev' := by
            intro t' ev' hg
            have hfi2 : FI P { t with status := setSt st blk.1 (.implFinalized blk.2) } := hfi1.set blk.1 _ hL
            have hev2 : EvS P { ev with implSkipped := sk, implFinalized := ev.implFinalized ++ [blk] } := by
              refine ⟨hev1.fin, ?_, hev1.skip⟩
              intro b hb
              rcases List.mem_append.mp hb with hb | hb
              · exact hev.impl b hb
              · simp only [List.mem_singleton] at hb; rw [hb]; exact hL
            split at hg
            · rename_i p hp
              obtain ⟨e1, e2⟩ := hfi.parents blk p hp
              obtain ⟨d1, d2⟩ := P.down blk p hL e1 e2
              exact ih _ _ _ _ hfi2 hev2 d1 d2 t' ev' hg
            · simp only [Option.some.injEq, Prod.mk.injEq] at hg; rw [← hg.1, ← hg.2]; exact ⟨hfi2, hev2⟩
          dsimp only at hr
          split at hr
          · split at hr
            · simp only [Option.some.injEq, Prod.mk.injEq] at hr; rw [← hr.1, ← hr.2]; exact ⟨hfi1, hev1⟩
            · cases hr
          · split at hr
            · simp only [Option.some.injEq, Prod.mk.injEq] at hr; rw [← hr.1, ← hr.2]; exact ⟨hfi1, hev1⟩
            · cases hr
          · cases hr
          · exact hgo t' ev' hr
          · exact hgo t' ev' hr
          · exact hgo t' ev' hr

/-- a result is sound: the tracker did not panic ⇒ invariant and event soundness -/
def ResOk (P : FP) : Res → Prop
  | .ok t ev => FI P t ∧ EvS P ev
  | .panic => True

theorem handleFinalizedBlock_fi (P : FP) (t : Tracker) (blk : Nat × Nat) (h : FI P t) (hL : P.L blk) :
    ResOk P (handleFinalizedBlock t blk {}) := by
  unfold handleFinalizedBlock
  dsimp only
  have hev : EvS P { finalized := some blk } :=
    ⟨fun b hb => (by simp only [Option.some.injEq] at hb; rw [← hb]; exact hL), fun _ hb => (by cases hb), fun _ hb => (by cases hb)⟩
  split
  · rename_i p hp
    obtain ⟨e1, e2⟩ := h.parents blk p hp
    obtain ⟨d1, d2⟩ := P.down blk p hL e1 e2
    split
    · rename_i t2 ev2 hw
      obtain ⟨a, b⟩ := walk_fi P _ _ _ _ _ (h.highest _) hev d1 d2 t2 ev2 hw
      exact ⟨a.prune, b⟩
    · trivial
  · exact ⟨(h.highest _).prune, hev⟩

/-- the premise on an operation -/
def OpF (P : FP) : Op → Prop
  | .parent b p => P.par b = p
  | .fastFinal b => P.L b
  | .notar b => P.N b
  | .final s => P.Fc s

theorem addParent_fi (P : FP) (t : Tracker) (blk par : Nat × Nat) (h : FI P t) (hp : P.par blk = par) :
    ResOk P (addParent t blk par) := by
  unfold addParent
  split
  · trivial
  · rename_i hlt
    have hlt' : par.1 < blk.1 := by omega
    split
    · exact ⟨h, EvS.empty P⟩
    · split
      · split
        · exact ⟨h, EvS.empty P⟩
        · trivial
      · have h1 : FI P { t with parents := setPar t.parents blk par } := by
          refine ⟨?_, h.fin, h.impl, h.notar, h.pend⟩
          intro b p hb
          simp only [setPar] at hb
          split at hb
          · rename_i hbe; simp only [Option.some.injEq] at hb; rw [hbe, ← hb]; exact ⟨hp, hlt'⟩
          · exact h.parents b p hb
        have hfin : ∀ x, P.L (blk.1, x) → ResOk P (if blk.2 = x then
            match walk blk.1 { t with parents := setPar t.parents blk par } blk.1 par {} with
            | some (t2, ev) => Res.ok (Finality.prune t2) ev
            | none => Res.panic
          else Res.ok { t with parents := setPar t.parents blk par } {}) := by
          intro x hx
          split
          · rename_i hbx
            have hLb : P.L blk := by rw [show blk = (blk.1, x) from by rw [← hbx]]; exact hx
            obtain ⟨d1, d2⟩ := P.down blk par hLb hp hlt'
            split
            · rename_i t2 ev hw
              obtain ⟨a, b⟩ := walk_fi P _ _ _ _ _ h1 (EvS.empty P) d1 d2 t2 ev hw
              exact ⟨a.prune, b⟩
            · trivial
          · exact ⟨h1, EvS.empty P⟩
        dsimp only
        split
        · rename_i x hx; exact hfin x (h.fin _ _ hx)
        · rename_i x hx; exact hfin x (h.impl _ _ hx)
        · exact ⟨h1, EvS.empty P⟩

theorem markFastFinalized_fi (P : FP) (t : Tracker) (blk : Nat × Nat) (h : FI P t) (hL : P.L blk) :
    ResOk P (markFastFinalized t blk) := by
  unfold markFastFinalized
  split
  · exact ⟨h, EvS.empty P⟩
  · have h1 : FI P { t with status := setSt t.status blk.1 (.finalized blk.2) } := h.set blk.1 _ hL
    dsimp only
    split
    · split
      · exact ⟨h1, EvS.empty P⟩
      · trivial
    · split
      · exact ⟨h1, EvS.empty P⟩
      · trivial
    · split
      · exact handleFinalizedBlock_fi P _ blk h1 hL
      · trivial
    · exact handleFinalizedBlock_fi P _ blk h1 hL
    · trivial
    · exact handleFinalizedBlock_fi P _ blk h1 hL

theorem markNotarized_fi (P : FP) (t : Tracker) (blk : Nat × Nat) (h : FI P t) (hN : P.N blk) :
    ResOk P (markNotarized t blk) := by
  unfold markNotarized
  split
  · exact ⟨h, EvS.empty P⟩
  · have h1 : FI P { t with status := setSt t.status blk.1 (.notarized blk.2) } := h.set blk.1 _ hN
    dsimp only
    split
    · exact ⟨h1, EvS.empty P⟩
    · split
      · exact ⟨h1, EvS.empty P⟩
      · trivial
    · split
      · exact ⟨h, EvS.empty P⟩
      · trivial
    · exact ⟨h, EvS.empty P⟩
    · exact ⟨h, EvS.empty P⟩
    · rename_i hp
      have hL : P.L blk := P.direct blk hN (h.pend _ hp)
      exact handleFinalizedBlock_fi P _ blk (h.set blk.1 (.finalized blk.2) hL) hL

theorem markFinalized_fi (P : FP) (t : Tracker) (slot : Nat) (h : FI P t) (hF : P.Fc slot) :
    ResOk P (markFinalized t slot) := by
  unfold markFinalized
  split
  · exact ⟨h, EvS.empty P⟩
  · have h1 : FI P { t with status := setSt t.status slot .finalPending } := h.set slot _ hF
    dsimp only
    split
    · exact ⟨h1, EvS.empty P⟩
    · exact ⟨h1, EvS.empty P⟩
    · exact ⟨h, EvS.empty P⟩
    · exact ⟨h, EvS.empty P⟩
    · rename_i x hx
      have hL : P.L (slot, x) := P.direct (slot, x) (h.notar _ _ hx) hF
      exact handleFinalizedBlock_fi P _ (slot, x) (h.set slot (.finalized x) hL) hL
    · trivial

/-- **Every operation**: if the tracker does not panic, the invariant is kept and the reported event is sound. -/
theorem step_fi (P : FP) (t : Tracker) (op : Op) (h : FI P t) (hop : OpF P op) : ResOk P (step t op) := by
  cases op with
  | parent b p => exact addParent_fi P t b p h hop
  | fastFinal b => exact markFastFinalized_fi P t b h hop
  | notar b => exact markNotarized_fi P t b h hop
  | final s => exact markFinalized_fi P t s h hop

end AgModel.Finality
