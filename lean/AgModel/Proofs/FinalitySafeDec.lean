import AgModel.Proofs.FinalitySpec
/-!
# The safety premise `Safe` is decidable

`SafeC G` is `Safe G` with every quantifier bounded by what occurs in `G` and the closure `Final` computed with
fuel (`finalB`); `safeC_iff : SafeC G ↔ Safe G` gives `instance : Decidable (Safe G)`, which the kernel can
evaluate on concrete histories (`by decide`).
-/
namespace AgModel.Finality

def linksOf : List Op → List ((Nat × Nat) × (Nat × Nat))
  | [] => []
  | .parent c p :: r => (c, p) :: linksOf r
  | _ :: r => linksOf r

def notars : List Op → List (Nat × Nat)
  | [] => [(0, 0)]
  | .notar b :: r => b :: notars r
  | _ :: r => notars r

def fasts : List Op → List (Nat × Nat)
  | [] => []
  | .fastFinal b :: r => b :: fasts r
  | _ :: r => fasts r

def finSlots : List Op → List Nat
  | [] => []
  | .final s :: r => s :: finSlots r
  | _ :: r => finSlots r

theorem mem_linksOf {G : List Op} {c p : Nat × Nat} : (c, p) ∈ linksOf G ↔ LinkH G c p := by
  unfold LinkH
  induction G with
  | nil => simp [linksOf]
  | cons op r ih => cases op <;> simp [linksOf, ih]

theorem mem_notars {G : List Op} {b : Nat × Nat} : b ∈ notars G ↔ NotarH G b := by
  unfold NotarH
  induction G with
  | nil => simp [notars]
  | cons op r ih =>
    cases op <;> simp [notars, ih]
    rename_i x
    constructor
    · rintro (h | h | h)
      · exact Or.inr (Or.inl h)
      · exact Or.inl h
      · exact Or.inr (Or.inr h)
    · rintro (h | h | h)
      · exact Or.inr (Or.inl h)
      · exact Or.inl h
      · exact Or.inr (Or.inr h)

theorem mem_fasts {G : List Op} {b : Nat × Nat} : b ∈ fasts G ↔ FastH G b := by
  unfold FastH
  induction G with
  | nil => simp [fasts]
  | cons op r ih => cases op <;> simp [fasts, ih]

theorem mem_finSlots {G : List Op} {s : Nat} : s ∈ finSlots G ↔ FinH G s := by
  unfold FinH
  induction G with
  | nil => simp [finSlots]
  | cons op r ih => cases op <;> simp [finSlots, ih]

def directB (G : List Op) (b : Nat × Nat) : Bool :=
  decide (b ∈ fasts G) || (decide (b.1 ∈ finSlots G) && decide (b ∈ notars G))

theorem directB_iff {G : List Op} {b : Nat × Nat} : directB G b = true ↔ Direct G b := by
  simp [directB, Direct, mem_fasts, mem_finSlots, mem_notars]

/-- the closure with fuel -/
def finalB (G : List Op) : Nat → Nat × Nat → Bool
  | 0, b => directB G b
  | n + 1, b => directB G b || (linksOf G).any (fun l => decide (l.2 = b) && finalB G n l.1)

def maxSlot (G : List Op) : Nat := (linksOf G).foldr (fun l m => max l.1.1 m) 0

theorem le_foldr_max {L : List ((Nat × Nat) × (Nat × Nat))} {l : (Nat × Nat) × (Nat × Nat)} (h : l ∈ L) :
    l.1.1 ≤ L.foldr (fun l m => max l.1.1 m) 0 := by
  induction L with
  | nil => cases h
  | cons x r ih =>
    simp only [List.foldr]
    rcases List.mem_cons.mp h with e | e
    · subst e; exact Nat.le_max_left _ _
    · exact Nat.le_trans (ih e) (Nat.le_max_right _ _)

theorem finalB_sound {G : List Op} : ∀ (n : Nat) (b : Nat × Nat), finalB G n b = true → Final G b
  | 0, b, h => .direct (directB_iff.mp h)
  | n + 1, b, h => by
    simp only [finalB, Bool.or_eq_true, List.any_eq_true, Bool.and_eq_true, decide_eq_true_eq] at h
    rcases h with h | ⟨l, hl, e, hf⟩
    · exact .direct (directB_iff.mp h)
    · subst e
      exact .step (finalB_sound n l.1 hf) (mem_linksOf.mp hl)

theorem finalB_complete {G : List Op} (hlt : ∀ c p, LinkH G c p → p.1 < c.1) {b : Nat × Nat} (h : Final G b) :
    ∀ n, maxSlot G - b.1 ≤ n → finalB G n b = true := by
  induction h with
  | @direct b d =>
    intro n _
    cases n with
    | zero => exact directB_iff.mpr d
    | succ n => simp only [finalB, Bool.or_eq_true]; exact Or.inl (directB_iff.mpr d)
  | @step c p hc hl ih =>
    intro n hn
    have h1 := hlt c p hl
    have h2 : c.1 ≤ maxSlot G := le_foldr_max (l := (c, p)) (mem_linksOf.mpr hl)
    cases n with
    | zero => omega
    | succ n =>
      simp only [finalB, Bool.or_eq_true, List.any_eq_true, Bool.and_eq_true, decide_eq_true_eq]
      exact Or.inr ⟨(c, p), mem_linksOf.mpr hl, rfl, ih n (by omega)⟩

/-- all blocks mentioned in the history (and genesis) -/
def cands (G : List Op) : List (Nat × Nat) :=
  fasts G ++ notars G ++ (linksOf G).map (·.2)

def finals (G : List Op) : List (Nat × Nat) := (cands G).filter (finalB G (maxSlot G))

theorem final_mem_cands {G : List Op} {b : Nat × Nat} (h : Final G b) : b ∈ cands G := by
  unfold cands
  cases h with
  | direct d =>
    rcases d with d | ⟨_, d⟩
    · exact List.mem_append_left _ (List.mem_append_left _ (mem_fasts.mpr d))
    · exact List.mem_append_left _ (List.mem_append_right _ (mem_notars.mpr d))
  | @step c _ _ hl =>
    exact List.mem_append_right _ (List.mem_map.mpr ⟨(c, b), mem_linksOf.mpr hl, rfl⟩)

theorem mem_finals {G : List Op} (hlt : ∀ c p, LinkH G c p → p.1 < c.1) {b : Nat × Nat} :
    b ∈ finals G ↔ Final G b := by
  unfold finals
  rw [List.mem_filter]
  constructor
  · intro ⟨_, h⟩; exact finalB_sound _ _ h
  · intro h; exact ⟨final_mem_cands h, finalB_complete hlt h _ (Nat.sub_le _ _)⟩

/-- `Safe` with bounded quantifiers -/
def SafeC (G : List Op) : Prop :=
  (∀ l ∈ linksOf G, l.2.1 < l.1.1) ∧
  (∀ l ∈ linksOf G, ∀ l' ∈ linksOf G, l.1 = l'.1 → l.2 = l'.2) ∧
  (∀ b ∈ finals G, ∀ b' ∈ finals G, b.1 = b'.1 → b = b') ∧
  (∀ l ∈ linksOf G, l.1 ∈ finals G → ∀ q ∈ finals G, ¬ (l.2.1 < q.1 ∧ q.1 < l.1.1)) ∧
  (∀ b ∈ notars G, ∀ b' ∈ notars G, b.1 = b'.1 → b = b') ∧
  (∀ b ∈ notars G, ∀ b' ∈ cands G, directB G b' = true → b.1 = b'.1 → b = b') ∧
  (∀ s ∈ finSlots G, ∀ l ∈ linksOf G, l.1 ∈ finals G → ¬ (l.2.1 < s ∧ s < l.1.1))

instance (G : List Op) : Decidable (SafeC G) := by unfold SafeC; infer_instance

theorem safeC_iff {G : List Op} : SafeC G ↔ Safe G := by
  constructor
  · intro ⟨h1, h2, h3, h4, h5, h6, h7⟩
    have hlt : ∀ c p, LinkH G c p → p.1 < c.1 := fun c p h => h1 (c, p) (mem_linksOf.mpr h)
    have mf : ∀ {b}, b ∈ finals G ↔ Final G b := mem_finals hlt
    refine ⟨hlt, ?_, ?_, ?_, ?_, ?_, ?_⟩
    · intro c p p' a b
      exact h2 (c, p) (mem_linksOf.mpr a) (c, p') (mem_linksOf.mpr b) rfl
    · intro b b' a a' e
      exact h3 b (mf.mpr a) b' (mf.mpr a') e
    · intro c p q a l a'
      exact h4 (c, p) (mem_linksOf.mpr l) (mf.mpr a) q (mf.mpr a')
    · intro b b' a a' e
      exact h5 b (mem_notars.mpr a) b' (mem_notars.mpr a') e
    · intro b b' a a' e
      exact h6 b (mem_notars.mpr a) b' (final_mem_cands (.direct a')) (directB_iff.mpr a') e
    · intro s a ⟨c, p, hc, hl, x, y⟩
      exact h7 s (mem_finSlots.mpr a) (c, p) (mem_linksOf.mpr hl) (mf.mpr hc) ⟨x, y⟩
  · intro sf
    have mf : ∀ {b}, b ∈ finals G ↔ Final G b := mem_finals sf.link_lt
    refine ⟨?_, ?_, ?_, ?_, ?_, ?_, ?_⟩
    · intro l hl; exact sf.link_lt l.1 l.2 (mem_linksOf.mp hl)
    · intro l hl l' hl' e
      have a : LinkH G l.1 l.2 := mem_linksOf.mp hl
      have b : LinkH G l'.1 l'.2 := mem_linksOf.mp hl'
      rw [← e] at b
      exact sf.link_fun _ _ _ a b
    · intro b hb b' hb' e
      exact sf.final_fun b b' (mf.mp hb) (mf.mp hb') e
    · intro l hl hf q hq
      exact sf.no_final_between l.1 l.2 q (mf.mp hf) (mem_linksOf.mp hl) (mf.mp hq)
    · intro b hb b' hb' e
      exact sf.notar_fun b b' (mem_notars.mp hb) (mem_notars.mp hb') e
    · intro b hb b' _ hd e
      exact sf.notar_direct b b' (mem_notars.mp hb) (directB_iff.mp hd) e
    · intro s hs l hl hf hx
      exact sf.fin_not_skip s (mem_finSlots.mp hs) ⟨l.1, l.2, mf.mp hf, mem_linksOf.mp hl, hx.1, hx.2⟩

instance (G : List Op) : Decidable (Safe G) := decidable_of_iff _ safeC_iff

example : Safe [.fastFinal (5, 3), .final 1, .parent (5, 3) (2, 2), .parent (1, 1) (0, 0), .parent (2, 2) (1, 1)] := by
  decide

end AgModel.Finality
