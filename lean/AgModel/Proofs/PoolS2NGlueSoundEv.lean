import AgModel.Proofs.PoolS2NGluePanic
/-! Pool-level glue for C06, part 7: **soundness per emitted event**. Every `SafeToNotar(s, h)` event in the output of a run
    is for a block `(s, h)` that was registered (accepted) with some parent for which the pool stored and announced a
    notarization, notar-fallback or fast-finalization certificate during the run — whatever happens to the slot state
    afterwards (it may be pruned within the same operation). -/
namespace AgModel.Pool

/-- a safe-to-notar event is *good* if its block is registered with a parent in `C` -/
def GoodEv (R : List Reg) (C : Nat × Nat → Prop) : Event → Prop
  | .s2n s h => ∃ par, ((s, h), par) ∈ R ∧ C par
  | _ => True

theorem GoodEv.mono {R R' : List Reg} {C C' : Nat × Nat → Prop} {ev : Event} (h : GoodEv R C ev)
    (hr : ∀ r ∈ R, r ∈ R') (hc : ∀ x, C x → C' x) : GoodEv R' C' ev := by
  cases ev with
  | s2n s hh => obtain ⟨par, a, b⟩ := h; exact ⟨par, hr _ a, hc _ b⟩
  | _ => trivial

/-- events that are justified in a slot state whose `true` entries are all backed by a registered parent in `C` -/
theorem goodEv_of_evSound {e : Epoch} {R : List Reg} {C : Nat × Nat → Prop} {st : SlotState} {evs : List Event}
    (hq : Qs R C st) (hs : EvSound e st evs) : ∀ ev ∈ evs, GoodEv R C ev := by
  intro ev hev
  have := hs ev hev
  cases ev with
  | s2n s h =>
    obtain ⟨par, a, b⟩ := hq h this.2.2.1
    exact ⟨par, by rw [this.1]; exact a, b⟩
  | _ => trivial

theorem applyPr_good (R : List Reg) (C : Nat × Nat → Prop) (p : Pool) (r : ParentReady.Res) :
    ∀ ev ∈ (p.applyPr r).2, GoodEv R C ev := by
  intro ev hev
  unfold Pool.applyPr at hev
  split at hev
  · simp only [List.mem_singleton] at hev; subst hev; trivial
  · unfold prEvents at hev
    obtain ⟨a, _, rfl⟩ := List.mem_map.mp hev
    trivial

theorem handleFin_good (R : List Reg) (C : Nat × Nat → Prop) (p : Pool) (r : Finality.Res) :
    ∀ ev ∈ (p.handleFin r).2, GoodEv R C ev := by
  intro ev hev
  unfold Pool.handleFin at hev
  split at hev
  · simp only [List.mem_singleton] at hev; subst hev; trivial
  · exact applyPr_good R C _ _ ev hev

theorem notifyChildren_good (e : Epoch) (R : List Reg) (C : Nat × Nat → Prop) (par0 : Nat × Nat) (hc : C par0)
    (kids : List (Nat × Nat)) (p : Pool) (acc : List Event) (he : p.epoch = e) (hs : SlotsSat p (Qs R C))
    (hreg : ∀ k ∈ kids, (k, par0) ∈ R) (hacc : ∀ ev ∈ acc, GoodEv R C ev) :
    ∀ ev ∈ (p.notifyChildren kids acc).2, GoodEv R C ev := by
  induction kids generalizing p acc with
  | nil => exact hacc
  | cons k ks ih =>
    obtain ⟨cs, ch⟩ := k
    rw [notifyChildren_cons]
    split
    · exact ih p acc he hs (fun k hk => hreg k (by simp [hk])) hacc
    · split
      · intro ev hev
        rcases List.mem_append.mp hev with hev | hev
        · exact hacc ev hev
        · simp only [List.mem_singleton] at hev; subst hev; trivial
      · rename_i st' evs hn
        rw [(slotState_frame p cs).1, he] at hn
        have hq : Qs R C st' := Qs_kidSite e R C (cs, ch) par0 (hreg _ (by simp)) hc _ st' evs (slotState_snd_slot p cs) hn
          (hs.slotState_snd cs (Qs_init R C cs))
        have hsound := (slotStep_emit e (p.slotState cs).2 (.parentCertified ch)).1
        simp only [slotStep, hn] at hsound
        apply ih _ _ ((mod_frame p cs st').1.trans he) (hs.mod cs st' (Qs_init R C cs) hq) (fun k hk => hreg k (by simp [hk]))
        intro ev hev
        rcases List.mem_append.mp hev with hev | hev
        · exact hacc ev hev
        · exact goodEv_of_evSound hq hsound ev hev

theorem notifyWaiting_good (e : Epoch) (R : List Reg) (C : Nat × Nat → Prop) (p : Pool) (par0 : Nat × Nat) (hc : C par0)
    (he : p.epoch = e) (hw : WaitReg R p) (hs : SlotsSat p (Qs R C)) : ∀ ev ∈ (p.notifyWaiting par0).2, GoodEv R C ev := by
  unfold Pool.notifyWaiting
  exact notifyChildren_good e R C par0 hc ((p.waiting.lookup par0).getD []) { p with waiting := p.waiting.filter (·.1 ≠ par0) } []
    he (fun s st hg => hs s st hg) (fun k hk => hw.kidsOf hk) (fun _ h => by cases h)

/-! ### the mid-states of `add_valid_cert` satisfy the soundness invariant -/

theorem SoundInv.stored {e : Epoch} {R : List Reg} {C : Nat × Nat → Prop} {p : Pool} (h : SoundInv e R C p) (c : Cert)
    (hC : c.strong → C (c.slot, c.hash)) : SoundInv e R C (p.stored c) := by
  obtain ⟨he, hw, h1, h2⟩ := h
  unfold Pool.stored
  have hfr := mod_frame p c.slot ((p.slotState c.slot).2.addCert c)
  refine ⟨hfr.1.trans he, hw.of_waiting hfr.2.2, h1.mod c.slot _ (Qs_init R C _) ?_, h2.mod c.slot _ (Qh_init C _) ?_⟩
  · exact (h1.slotState_snd c.slot (Qs_init R C _)).of_eq (addCert_slot _ c) (fun x hx => by rw [addCert_parents] at hx; exact hx)
  · intro x hx
    rw [addCert_slot, slotState_snd_slot]
    rcases addCert_isNfOrStronger _ c x hx with a | ⟨a, b⟩
    · have := h2.slotState_snd c.slot (Qh_init C _) x a
      rw [slotState_snd_slot] at this; exact this
    · rw [b]; exact hC a

theorem SoundInv.advance {e : Epoch} {R : List Reg} {C : Nat × Nat → Prop} {p : Pool} (h : SoundInv e R C p)
    (t : Finality.Tracker) (r : ParentReady.Res) : SoundInv e R C (p.advance t r) :=
  ⟨(advance_epoch p t r).trans h.1, h.2.1.advance t r, h.2.2.1.advance t r, h.2.2.2.advance t r⟩

theorem SoundInv.handleFin {e : Epoch} {R : List Reg} {C : Nat × Nat → Prop} {p : Pool} (h : SoundInv e R C p) (op : Finality.Op) :
    SoundInv e R C (p.handleFin (Finality.step p.fin op)).1 := by
  rcases handleFin_cases p op with h1 | ⟨t, r, _, h1⟩
  · rw [h1]; exact h
  · rw [h1]; exact h.advance t r

theorem addValidCert_good (e : Epoch) (R : List Reg) (C : Nat × Nat → Prop) (c : Cert) (p : Pool) (h : SoundInv e R C p)
    (hC : c.strong → C (c.slot, c.hash)) : ∀ ev ∈ (p.addValidCert c).2, GoodEv R C ev := by
  have hmid := h.stored c hC
  have hwake : ∀ q, SoundInv e R C q → c.strong → ∀ ev ∈ (q.notifyWaiting (c.slot, c.hash)).2, GoodEv R C ev :=
    fun q hq hs => notifyWaiting_good e R C q _ (hC hs) hq.1 hq.2.1 hq.2.2.1
  have hfin : ∀ op, SoundInv e R C ((p.stored c).handleFin (Finality.step (p.stored c).fin op)).1 := fun op => hmid.handleFin op
  intro ev hev
  unfold Pool.addValidCert at hev
  dsimp only at hev
  unfold Pool.stored at hmid hfin
  generalize ((p.slotState c.slot).1.putSlot ((p.slotState c.slot).2.addCert c)) = p1 at hmid hfin hev
  unfold Cert.strong at hwake
  cases hk : c.kind <;> simp only [hk] at hev
  · simp only [show (CertKind.notar == CertKind.notar) = true from rfl, if_true] at hev
    simp only [List.mem_append, List.mem_singleton] at hev
    rcases hev with (((hev | hev) | hev) | hev) | hev
    · exact handleFin_good R C _ _ ev hev
    · exact hwake _ (hfin (.notar (c.slot, c.hash))) (Or.inl hk) ev hev
    · exact applyPr_good R C _ _ ev hev
    · subst hev; trivial
    · subst hev; trivial
  · simp only [show (CertKind.nf == CertKind.notar) = false from rfl, Bool.false_eq_true, if_false] at hev
    simp only [List.mem_append, List.mem_singleton, List.not_mem_nil, false_or] at hev
    rcases hev with ((hev | hev) | hev) | hev
    · exact hwake _ hmid (Or.inr (Or.inl hk)) ev hev
    · exact applyPr_good R C _ _ ev hev
    · subst hev; trivial
    · subst hev; trivial
  · simp only [List.mem_append, List.mem_singleton] at hev
    rcases hev with hev | hev
    · exact applyPr_good R C _ _ ev hev
    · subst hev; trivial
  · simp only [List.mem_append, List.mem_singleton] at hev
    rcases hev with (hev | hev) | hev
    · exact handleFin_good R C _ _ ev hev
    · exact hwake _ (hfin (.fastFinal (c.slot, c.hash))) (Or.inr (Or.inr hk)) ev hev
    · subst hev; trivial
  · simp only [List.mem_append, List.mem_singleton] at hev
    rcases hev with hev | hev
    · exact handleFin_good R C _ _ ev hev
    · subst hev; trivial

theorem addValidCerts_good (e : Epoch) (R : List Reg) (C : Nat × Nat → Prop) (cs : List Cert) (p : Pool) (acc : List Event)
    (h : SoundInv e R C p) (hC : ∀ c ∈ cs, c.strong → C (c.slot, c.hash)) (hacc : ∀ ev ∈ acc, GoodEv R C ev) :
    ∀ ev ∈ (p.addValidCerts cs acc).2, GoodEv R C ev := by
  induction cs generalizing p acc with
  | nil => exact hacc
  | cons c cs ih =>
    rw [addValidCerts_cons]
    apply ih _ _ (addValidCert_sound e R C c p h (hC c (by simp))) (fun c' hc' => hC c' (by simp [hc']))
    intro ev hev
    rcases List.mem_append.mp hev with hev | hev
    · exact hacc ev hev
    · exact addValidCert_good e R C c p h (hC c (by simp)) ev hev

/-- the pool right after `add_vote` stored the vote's slot state -/
theorem SoundInv.voted {e : Epoch} {R : List Reg} {C : Nat × Nat → Prop} {p : Pool} (h : SoundInv e R C p) (v : Vote) :
    SoundInv e R C ((p.slotState v.slot).1.putSlot ((p.slotState v.slot).2.addVote p.epoch v).1) := by
  obtain ⟨he, hw, h1, h2⟩ := h
  have hfr := mod_frame p v.slot ((p.slotState v.slot).2.addVote p.epoch v).1
  refine ⟨hfr.1.trans he, hw.of_waiting hfr.2.2, h1.mod v.slot _ (Qs_init R C _) ?_, h2.mod v.slot _ (Qh_init C _) ?_⟩
  · exact (h1.slotState_snd v.slot (Qs_init R C _)).of_eq (addVote_slot _ _ v) (fun x hx => by rw [addVote_parents] at hx; exact hx)
  · exact (h2.slotState_snd v.slot (Qh_init C _)).of_eq (addVote_slot _ _ v) (fun x hx => by rw [addVote_isNfOrStronger] at hx; exact hx)

theorem addBlockTail_good (e : Epoch) (R : List Reg) (C : Nat × Nat → Prop) (r : Pool) (b par : Nat × Nat) (e0 : List Event)
    (cert : Bool) (he : r.epoch = e) (hs : SlotsSat r (Qs R C)) (hk : cert = true → (b, par) ∈ R ∧ C par)
    (h0 : ∀ ev ∈ e0, GoodEv R C ev) : ∀ ev ∈ (Pool.addBlockTail r b par e0 cert).2, GoodEv R C ev := by
  unfold Pool.addBlockTail
  split
  · rename_i hc
    split
    · intro ev hev
      rcases List.mem_append.mp hev with hev | hev
      · exact h0 ev hev
      · simp only [List.mem_singleton] at hev; subst hev; trivial
    · rename_i st' evs hn
      rw [(slotState_frame r b.1).1, he] at hn
      have hq : Qs R C st' := Qs_kidSite e R C b par (hk hc).1 (hk hc).2 _ st' evs (slotState_snd_slot r b.1) hn
        (hs.slotState_snd b.1 (Qs_init R C _))
      have hsound := (slotStep_emit e (r.slotState b.1).2 (.parentCertified b.2)).1
      simp only [slotStep, hn] at hsound
      split
      · exact h0
      · intro ev hev
        rcases List.mem_append.mp hev with hev | hev
        · exact h0 ev hev
        · exact goodEv_of_evSound hq hsound ev hev
  · exact h0

/-- the outcomes of `Pool::add_block` with pool and events -/
theorem addBlock_full (p : Pool) (b par : Nat × Nat) :
    (¬ accepted p b par ∧ (p.addBlock b par).2 = [.panic]) ∨
    (accepted p b par ∧ ∃ t r, p.fin.first ≤ t.first ∧
      ((p.addBlock b par).2 = trackerEvents p (.block b par) ∨
       p.addBlock b par = Pool.addBlockTail ((p.advance t r).known b) b par (trackerEvents p (.block b par))
          (((p.advance t r).known b).certifiedB par))) := by
  simp only [trackerEvents]
  unfold Pool.addBlock
  by_cases hgt : b.1 > par.1
  · simp only [hgt, not_true_eq_false, if_false]
    cases hst : Finality.addParent p.fin b par with
    | panic =>
      refine Or.inl ⟨?_, rfl⟩
      intro ha
      obtain ⟨_, t, ev, a⟩ := ha
      rw [hst] at a
      cases a
    | ok t ev =>
      have hmono : p.fin.first ≤ t.first := fin_first_mono (op := .parent b par) hst
      dsimp only
      refine Or.inr ⟨⟨hgt, t, ev, hst⟩, t, ParentReady.handleFinalization p.pr ev, hmono, ?_⟩
      split
      · exact Or.inl rfl
      · exact Or.inr rfl
  · simp only [hgt, not_false_eq_true, if_true, and_true]
    exact Or.inl (fun a => hgt a.1)

theorem poolStep_good (e : Epoch) (R : List Reg) (C : Nat × Nat → Prop) (p : Pool) (op : PoolOp) (h : SoundInv e R C p) :
    ∀ ev ∈ (poolStep p op).2, GoodEv (R ++ regsOf p op) (fun x => C x ∨ x ∈ certIds (poolStep p op).2) ev := by
  have h' : SoundInv e R (fun x => C x ∨ x ∈ certIds (poolStep p op).2) p := h.mono (fun _ hr => hr) (fun _ hx => Or.inl hx)
  cases op with
  | vote v =>
    simp only [regsOf, List.append_nil]
    generalize hC' : (fun x => C x ∨ x ∈ certIds (poolStep p (.vote v)).2) = C' at h'
    have hcert : ∀ c, Event.cert c ∈ (p.addVote v).2.2 → c.strong → C' (c.slot, c.hash) := by
      intro c hm hs; rw [← hC']; exact Or.inr (mem_certIds hm hs)
    simp only [poolStep] at *
    rcases addVote_out p v with ⟨_, _, h3⟩ | ⟨_, h3⟩ | ⟨_, h3⟩
    · rw [h3]; intro ev hev; cases hev
    · rw [h3]; intro ev hev; simp only [List.mem_singleton] at hev; subst hev; trivial
    · have hmod := h'.voted v
      intro ev hev
      rw [h3] at hev
      rcases List.mem_append.mp hev with hev | hev
      · refine addValidCerts_good e R C' _ _ [] hmod ?_ (fun _ hx => by cases hx) ev hev
        intro c hc hs
        apply hcert c _ hs
        rw [h3]
        exact List.mem_append_left _ ((addValidCerts_events _ _ _).2 c hc)
      · have hq : Qs R C' ((p.slotState v.slot).2.addVote p.epoch v).1 := by
          have := hmod.2.2.1 v.slot ((p.slotState v.slot).2.addVote p.epoch v).1
          apply this
          rw [getSlot_mod p v.slot _ ((addVote_slot _ _ v).trans (slotState_snd_slot p v.slot)), if_pos rfl]
        exact goodEv_of_evSound hq (addVote_emit p.epoch _ v).1 ev hev
  | cert c =>
    simp only [regsOf, List.append_nil]
    generalize hC' : (fun x => C x ∨ x ∈ certIds (poolStep p (.cert c)).2) = C' at h'
    have hcert : Event.cert c ∈ (p.addCert c).2.2 → c.strong → C' (c.slot, c.hash) := by
      intro hm hs; rw [← hC']; exact Or.inr (mem_certIds hm hs)
    simp only [poolStep] at *
    rcases addCert_out p c with ⟨_, h3⟩ | ⟨_, h3⟩
    · rw [h3]; intro ev hev; cases hev
    · rw [h3]
      apply addValidCert_good e R C' c _ (h'.slotState _)
      intro hs
      apply hcert _ hs
      rw [h3]; exact addValidCert_event _ c
  | block b par =>
    generalize (fun x => C x ∨ x ∈ certIds (poolStep p (.block b par)).2) = C' at h'
    have h'' : SoundInv e (R ++ regsOf p (.block b par)) C' p := h'.mono (fun r hr => by simp [hr]) (fun _ hx => hx)
    simp only [poolStep]
    have ht : ∀ ev ∈ trackerEvents p (.block b par), GoodEv (R ++ regsOf p (.block b par)) C' ev := by
      intro ev hev
      simp only [trackerEvents] at hev
      split at hev
      · simp only [List.mem_singleton] at hev; subst hev; trivial
      · split at hev
        · simp only [List.mem_singleton] at hev; subst hev; trivial
        · exact applyPr_good _ _ _ _ ev hev
    rcases addBlock_full p b par with ⟨_, h1⟩ | ⟨ha, t, r, _, h1 | h1⟩
    · rw [h1]; intro ev hev; simp only [List.mem_singleton] at hev; subst hev; trivial
    · rw [h1]; exact ht
    · rw [h1]
      have hbR : (b, par) ∈ R ++ regsOf p (.block b par) := by simp [regsOf, ha]
      generalize R ++ regsOf p (.block b par) = R' at h'' hbR ht ⊢
      have hq := h''.advance t r
      obtain ⟨qe, qw, q1, q2⟩ := hq
      obtain ⟨k1, _, _, k4, k5⟩ := notifyParentKnown_spec ((p.advance t r).slotState b.1).2 b.2
      have hk1 : SlotsSat ((p.advance t r).known b) (Qs R' C') :=
        q1.mod b.1 _ (Qs_init R' C' _) ((q1.slotState_snd b.1 (Qs_init R' C' _)).of_eq k1 k4)
      have hk2 : SlotsSat ((p.advance t r).known b) (Qh C') :=
        q2.mod b.1 _ (Qh_init C' _) ((q2.slotState_snd b.1 (Qh_init C' _)).of_eq k1 (fun x hx => by rw [← k5]; exact hx))
      have hke : ((p.advance t r).known b).epoch = e := (known_frame _ b).1.trans qe
      apply addBlockTail_good e R' C' _ b par _ _ hke hk1 ?_ ht
      intro hc
      refine ⟨hbR, ?_⟩
      unfold Pool.certifiedB at hc
      split at hc
      · rename_i ps hg
        have := hk2 _ ps hg par.2 hc
        rw [getSlot_slot hg] at this
        exact this
      · cases hc

/-- **Soundness per emitted event**, every run -/
theorem poolRun_good (e : Epoch) (ops : List PoolOp) (R : List Reg) (C : Nat × Nat → Prop) (p : Pool) (h : SoundInv e R C p) :
    ∀ ev ∈ (poolRun p ops).2, GoodEv (R ++ regsRun p ops) (fun x => C x ∨ x ∈ certIds (poolRun p ops).2) ev := by
  induction ops generalizing R C p with
  | nil => intro ev hev; cases hev
  | cons op ops ih =>
    intro ev hev
    simp only [poolRun] at hev
    simp only [regsRun, poolRun, ← List.append_assoc]
    have hcm : ∀ x, ((C x ∨ x ∈ certIds (poolStep p op).2) ∨ x ∈ certIds (poolRun (poolStep p op).1 ops).2) →
        (C x ∨ x ∈ certIds ((poolStep p op).2 ++ (poolRun (poolStep p op).1 ops).2)) := by
      intro x hx
      unfold certIds at *
      rw [List.filterMap_append, List.mem_append]
      rcases hx with (hx | hx) | hx
      · exact Or.inl hx
      · exact Or.inr (Or.inl hx)
      · exact Or.inr (Or.inr hx)
    rcases List.mem_append.mp hev with hev | hev
    · exact (poolStep_good e R C p op h ev hev).mono (fun r hr => List.mem_append_left _ hr) (fun x hx => hcm x (Or.inl hx))
    · exact (ih _ _ _ (poolStep_sound e R C p op h) ev hev).mono (fun _ hr => hr) hcm

end AgModel.Pool
