import AgModel.Proofs.PoolStep
/-! Certificates created by `SlotState.addVote`, the slot-local transition system, and the full
    invariant (`Inv = InvV ∧ InvT`) over arbitrary histories. -/
namespace AgModel.Pool

def notarCertOf (e : Epoch) (s : SlotState) (h : Nat) : Cert :=
  { kind := .notar, slot := s.slot, hash := h, sig1 := s.notarVoters e.n h, sig2 := [], stake := stakeOf e (s.notarVoters e.n h) }
def ffCertOf (e : Epoch) (s : SlotState) (h : Nat) : Cert :=
  { kind := .ff, slot := s.slot, hash := h, sig1 := s.notarVoters e.n h, sig2 := [], stake := stakeOf e (s.notarVoters e.n h) }
def skipCertOf (e : Epoch) (s : SlotState) : Cert :=
  { kind := .skip, slot := s.slot, hash := 0, sig1 := s.skipVoters e.n, sig2 := s.sfVoters e.n,
    stake := stakeOf e (s.skipVoters e.n) + stakeOf e (s.sfVoters e.n) }
def finCertOf (e : Epoch) (s : SlotState) : Cert :=
  { kind := .final, slot := s.slot, hash := 0, sig1 := s.finVoters e.n, sig2 := [], stake := stakeOf e (s.finVoters e.n) }

def notarCertsOn (e : Epoch) (s : SlotState) (h : Nat) : List Cert :=
  (if e.isQuorum (lookupD s.sNf h + lookupD s.sNotar h) && !s.isNf h then [mkNfCert e s h] else []) ++
  (if e.isQuorum (lookupD s.sNotar h) && s.cNotar.isNone then [notarCertOf e s h] else []) ++
  (if e.isStrong (lookupD s.sNotar h) && s.cFf.isNone then [ffCertOf e s h] else [])

theorem notarCertsOn_core (e : Epoch) (s : SlotState) (h : Nat) : notarCertsOn e s h = notarCertsOn e s.core h := rfl

def notarCertsOnWith (e : Epoch) (s : SlotState) (h notarStake : Nat) : List Cert :=
  (if e.isQuorum (lookupD s.sNf h + notarStake) && !s.isNf h then [mkNfCert e s h] else []) ++
  (if e.isQuorum notarStake && s.cNotar.isNone then [notarCertOf e s h] else []) ++
  (if e.isStrong notarStake && s.cFf.isNone then [ffCertOf e s h] else [])

theorem countNotar_certs (e : Epoch) (st : SlotState) (h stake : Nat) :
    (SlotState.countNotar e st h stake).2.1 = notarCertsOn e (SlotState.countNotar e st h stake).1 h := by
  have h1 : (SlotState.countNotar e st h stake).2.1 =
      notarCertsOnWith e (SlotState.countNotar e st h stake).1 h (lookupD (addTo st.sNotar h stake) h) := by
    unfold SlotState.countNotar
    dsimp only
    split <;> rfl
  have h2 := congrArg SlotState.sNotar (countNotar_core e st h stake).eq
  have h3 : (SlotState.countNotar e st h stake).1.sNotar = addTo st.sNotar h stake := h2
  rw [h1]
  unfold notarCertsOnWith notarCertsOn
  rw [h3]

def nfCertsOn (e : Epoch) (s : SlotState) (h : Nat) : List Cert :=
  if e.isQuorum (lookupD s.sNf h + lookupD s.sNotar h) && !s.isNf h then [mkNfCert e s h] else []

theorem countNf_certs (e : Epoch) (st : SlotState) (h stake : Nat) :
    (SlotState.countNf e st h stake).2.1 = nfCertsOn e (SlotState.countNf e st h stake).1 h := rfl

def skipCertsOn (e : Epoch) (s : SlotState) : List Cert :=
  if e.isQuorum (s.sSkip + s.sSf) && s.cSkip.isNone then [skipCertOf e s] else []

theorem skipCertsOn_core (e : Epoch) (s : SlotState) : skipCertsOn e s = skipCertsOn e s.core := rfl

theorem countSkip_certs (e : Epoch) (st : SlotState) (stake : Nat) (fb : Bool) :
    (SlotState.countSkip e st stake fb).2.1 = skipCertsOn e (SlotState.countSkip e st stake fb).1 := by
  rw [skipCertsOn_core e (SlotState.countSkip e st stake fb).1, (countSkip_core e st stake fb).eq]
  unfold SlotState.countSkip
  dsimp only
  rw [skipCertsOn_core]
  have hc := recheckPending_core e (if fb = true then { st with sSf := st.sSf + stake } else { st with sSkip := st.sSkip + stake })
    (if fb = true then { st with sSf := st.sSf + stake } else { st with sSkip := st.sSkip + stake }).pending []
  cases fb <;> (simp only [Bool.false_eq_true, if_false, if_true] at hc ⊢; rw [← hc]; rfl)

def finCertsOn (e : Epoch) (s : SlotState) : List Cert :=
  if e.isQuorum s.sFin && s.cFin.isNone then [finCertOf e s] else []

theorem countFin_certs (e : Epoch) (st : SlotState) (stake : Nat) :
    (SlotState.countFin e st stake).2.1 = finCertsOn e (SlotState.countFin e st stake).1 := rfl

/-- the certificates `addVote` creates, as a function of the state *after* the vote was stored and counted -/
def SlotState.newCerts (e : Epoch) (s : SlotState) (v : Vote) : List Cert :=
  match v.kind with
  | .notar => notarCertsOn e s v.hash
  | .nf => nfCertsOn e s v.hash
  | .skip => skipCertsOn e s
  | .sf => skipCertsOn e s
  | .final => finCertsOn e s

theorem newCerts_core (e : Epoch) (s : SlotState) (v : Vote) : s.newCerts e v = s.core.newCerts e v := by
  unfold SlotState.newCerts; cases v.kind <;> rfl

theorem newCerts_coreEq (e : Epoch) (a b : SlotState) (v : Vote) (h : CoreEq a b) : a.newCerts e v = b.newCerts e v := by
  rw [newCerts_core e a, newCerts_core e b, h.eq]

/-- `addVote` returns the certificates computed on the stored-and-counted state -/
theorem addVote_certs (e : Epoch) (st : SlotState) (v : Vote) :
    (st.addVote e v).2.1 = (st.stored e v).newCerts e v := by
  rw [← newCerts_coreEq e _ _ v (addVote_core e st v)]
  have key : ∀ (r : SlotState × List Cert × List Event) (f : SlotState → List Cert),
      (∀ a b, CoreEq a b → f a = f b) → r.2.1 = f r.1 →
      (if v.signer = e.own then
          ((SlotState.recheckPending e r.1 r.1.pending []).1, r.2.1, r.2.2 ++ (SlotState.recheckPending e r.1 r.1.pending []).2)
        else (r.1, r.2.1, r.2.2)).2.1 =
      f (if v.signer = e.own then
          ((SlotState.recheckPending e r.1 r.1.pending []).1, r.2.1, r.2.2 ++ (SlotState.recheckPending e r.1 r.1.pending []).2)
        else (r.1, r.2.1, r.2.2)).1 := by
    intro r f hf hr
    split
    · dsimp only; rw [hr]; exact hf _ _ ⟨(recheckPending_core e r.1 r.1.pending []).symm⟩
    · exact hr
  unfold SlotState.addVote SlotState.newCerts
  dsimp only
  cases hk : v.kind <;> dsimp only
  · exact key _ (fun s => notarCertsOn e s v.hash) (fun a b h => by rw [notarCertsOn_core e a, notarCertsOn_core e b, h.eq])
      (countNotar_certs e _ _ _)
  · exact key _ (fun s => nfCertsOn e s v.hash) (fun a b h => by
      show nfCertsOn e a.core v.hash = nfCertsOn e b.core v.hash; rw [h.eq]) (countNf_certs e _ _ _)
  · exact key _ (fun s => skipCertsOn e s) (fun a b h => by rw [skipCertsOn_core e a, skipCertsOn_core e b, h.eq])
      (countSkip_certs e _ _ false)
  · exact key _ (fun s => skipCertsOn e s) (fun a b h => by rw [skipCertsOn_core e a, skipCertsOn_core e b, h.eq])
      (countSkip_certs e _ _ true)
  · exact key _ (fun s => finCertsOn e s) (fun a b h => by
      show finCertsOn e a.core = finCertsOn e b.core; rw [h.eq]) (countFin_certs e _ _)

/-! ### the slot-local transition system -/

inductive SlotOp where
  | vote (v : Vote)
  | cert (c : Cert)
  | parentKnown (h : Nat)
  | parentCertified (h : Nat)
deriving Repr

def certDup (st : SlotState) (c : Cert) : Bool :=
  match c.kind with
  | .notar => st.cNotar.isSome
  | .nf => st.isNf c.hash
  | .skip => st.cSkip.isSome
  | .ff => st.cFf.isSome
  | .final => st.cFin.isSome

/-- What the pool does to the state of one slot: an admitted vote is stored and counted and the
    certificates it creates are added; a received (validated) certificate is added unless one of its
    type is held; the two parent notifications. Outputs: created certificates, events. -/
def slotStep (e : Epoch) (st : SlotState) : SlotOp → SlotState × List Cert × List Event
  | .vote v =>
    if (st.checkSlashable v).isSome || st.shouldIgnore v then (st, [], [])
    else ((st.addVote e v).2.1.foldl SlotState.addCert (st.addVote e v).1, (st.addVote e v).2.1, (st.addVote e v).2.2)
  | .cert c => if certDup st c then (st, [], []) else (st.addCert c, [], [])
  | .parentKnown h => (st.notifyParentKnown h, [], [])
  | .parentCertified h =>
    match st.notifyParentCertified e h with
    | none => (st, [], [.panic])
    | some (s, evs) => (s, [], evs)

/-- run a history of slot-local operations, collecting all created certificates and events -/
def slotRun (e : Epoch) : SlotState → List SlotOp → SlotState × List Cert × List Event
  | st, [] => (st, [], [])
  | st, op :: ops =>
    let r := slotStep e st op
    let r' := slotRun e r.1 ops
    (r'.1, r.2.1 ++ r'.2.1, r.2.2 ++ r'.2.2)

/-! ### adding certificates -/

theorem InvV_addCert (e : Epoch) (st : SlotState) (c : Cert) (i : InvV e st) : InvV e (st.addCert c) := by
  unfold SlotState.addCert
  cases c.kind <;> dsimp only
  · exact ⟨i.notarNodup, i.nfNodup, i.skipNodup, i.sfNodup, i.finNodup, i.cNotar, i.cNf, i.cSkip, i.cSf, i.cFin,
      i.cNotarOrSkip, i.topGe, i.topAttained, i.noSkipNotar, i.noFinSkip, i.noSkipSf, i.noNotarNfSame⟩
  · split
    · exact i
    · exact ⟨i.notarNodup, i.nfNodup, i.skipNodup, i.sfNodup, i.finNodup, i.cNotar, i.cNf, i.cSkip, i.cSf, i.cFin,
        i.cNotarOrSkip, i.topGe, i.topAttained, i.noSkipNotar, i.noFinSkip, i.noSkipSf, i.noNotarNfSame⟩
  all_goals exact ⟨i.notarNodup, i.nfNodup, i.skipNodup, i.sfNodup, i.finNodup, i.cNotar, i.cNf, i.cSkip, i.cSf, i.cFin,
      i.cNotarOrSkip, i.topGe, i.topAttained, i.noSkipNotar, i.noFinSkip, i.noSkipSf, i.noNotarNfSame⟩

theorem InvV_addCerts (e : Epoch) (cs : List Cert) (st : SlotState) (i : InvV e st) : InvV e (cs.foldl SlotState.addCert st) := by
  induction cs generalizing st with
  | nil => exact i
  | cons c cs ih => exact ih _ (InvV_addCert e st c i)

/-- the five "held" flags and the counters, i.e. everything `InvT` talks about -/
structure TView where
  notar : Bool
  ff : Bool
  skip : Bool
  fin : Bool
  nf : Nat → Bool

def SlotState.held (st : SlotState) : Bool × Bool × Bool × Bool :=
  (st.cNotar.isSome, st.cFf.isSome, st.cSkip.isSome, st.cFin.isSome)

theorem addCert_counters (st : SlotState) (c : Cert) :
    (st.addCert c).sNotar = st.sNotar ∧ (st.addCert c).sNf = st.sNf ∧ (st.addCert c).sSkip = st.sSkip ∧
    (st.addCert c).sSf = st.sSf ∧ (st.addCert c).sFin = st.sFin := by
  unfold SlotState.addCert
  cases c.kind <;> dsimp only
  · exact ⟨rfl, rfl, rfl, rfl, rfl⟩
  · split <;> exact ⟨rfl, rfl, rfl, rfl, rfl⟩
  all_goals exact ⟨rfl, rfl, rfl, rfl, rfl⟩

theorem addCert_cNotar (st : SlotState) (c : Cert) :
    (st.addCert c).cNotar.isSome = (st.cNotar.isSome || c.kind == .notar) := by
  unfold SlotState.addCert
  cases hk : c.kind <;> simp
  split <;> simp

theorem addCert_cFf (st : SlotState) (c : Cert) :
    (st.addCert c).cFf.isSome = (st.cFf.isSome || c.kind == .ff) := by
  unfold SlotState.addCert
  cases hk : c.kind <;> simp
  split <;> simp

theorem addCert_cSkip (st : SlotState) (c : Cert) :
    (st.addCert c).cSkip.isSome = (st.cSkip.isSome || c.kind == .skip) := by
  unfold SlotState.addCert
  cases hk : c.kind <;> simp
  split <;> simp

theorem addCert_cFin (st : SlotState) (c : Cert) :
    (st.addCert c).cFin.isSome = (st.cFin.isSome || c.kind == .final) := by
  unfold SlotState.addCert
  cases hk : c.kind <;> simp
  split <;> simp

theorem addCert_isNf (st : SlotState) (c : Cert) (h : Nat) :
    (st.addCert c).isNf h = (st.isNf h || (c.kind == .nf && c.hash == h)) := by
  unfold SlotState.addCert
  cases hk : c.kind <;> simp [SlotState.isNf]
  split
  · rename_i hh
    by_cases e : c.hash = h
    · subst e
      obtain ⟨x, hx1, hx2⟩ := hh
      have : (st.cNf.any fun x => x.hash == c.hash) = true := by
        simp only [List.any_eq_true]; exact ⟨x, hx1, by simp [hx2]⟩
      simp [this]
    · simp [e]
  · simp [List.any_append]

theorem InvT_addCert (e : Epoch) (st : SlotState) (c : Cert) (i : InvT e st) : InvT e (st.addCert c) := by
  obtain ⟨h1, h2, h3, h4, h5⟩ := addCert_counters st c
  constructor
  · intro h hq; rw [h1] at hq; rw [addCert_cNotar]; simp [i.tNotar h hq]
  · intro h hq; rw [h1] at hq; rw [addCert_cFf]; simp [i.tFf h hq]
  · intro h hq; rw [h1, h2] at hq; rw [addCert_isNf]; simp [i.tNf h hq]
  · intro hq; rw [h3, h4] at hq; rw [addCert_cSkip]; simp [i.tSkip hq]
  · intro hq; rw [h5] at hq; rw [addCert_cFin]; simp [i.tFin hq]

/-- a weaker, per-threshold form of `InvT` used while certificates are being added -/
structure Pending (e : Epoch) (st : SlotState) (cs : List Cert) : Prop where
  tNotar : ∀ h, e.isQuorum (lookupD st.sNotar h) = true → st.cNotar.isSome = true ∨ cs.any (·.kind == .notar) = true
  tFf : ∀ h, e.isStrong (lookupD st.sNotar h) = true → st.cFf.isSome = true ∨ cs.any (·.kind == .ff) = true
  tNf : ∀ h, e.isQuorum (lookupD st.sNf h + lookupD st.sNotar h) = true →
    st.isNf h = true ∨ cs.any (fun c => c.kind == .nf && c.hash == h) = true
  tSkip : e.isQuorum (st.sSkip + st.sSf) = true → st.cSkip.isSome = true ∨ cs.any (·.kind == .skip) = true
  tFin : e.isQuorum st.sFin = true → st.cFin.isSome = true ∨ cs.any (·.kind == .final) = true

theorem InvT_of_pending (e : Epoch) (cs : List Cert) (st : SlotState) (p : Pending e st cs) :
    InvT e (cs.foldl SlotState.addCert st) := by
  induction cs generalizing st with
  | nil =>
    exact ⟨fun h hq => by simpa using p.tNotar h hq, fun h hq => by simpa using p.tFf h hq,
      fun h hq => by simpa using p.tNf h hq, fun hq => by simpa using p.tSkip hq, fun hq => by simpa using p.tFin hq⟩
  | cons c cs ih =>
    apply ih
    obtain ⟨h1, h2, h3, h4, h5⟩ := addCert_counters st c
    constructor
    · intro h hq; rw [h1] at hq
      rcases p.tNotar h hq with a | a
      · left; rw [addCert_cNotar]; simp [a]
      · rw [addCert_cNotar]; simp only [List.any_cons, Bool.or_eq_true] at a
        rcases a with a | a
        · left; simp [a]
        · right; exact a
    · intro h hq; rw [h1] at hq
      rcases p.tFf h hq with a | a
      · left; rw [addCert_cFf]; simp [a]
      · rw [addCert_cFf]; simp only [List.any_cons, Bool.or_eq_true] at a
        rcases a with a | a
        · left; simp [a]
        · right; exact a
    · intro h hq; rw [h1, h2] at hq
      rcases p.tNf h hq with a | a
      · left; rw [addCert_isNf]; simp [a]
      · rw [addCert_isNf]; simp only [List.any_cons, Bool.or_eq_true] at a
        rcases a with a | a
        · left; simp only [Bool.or_eq_true]; right; exact a
        · right; exact a
    · intro hq; rw [h3, h4] at hq
      rcases p.tSkip hq with a | a
      · left; rw [addCert_cSkip]; simp [a]
      · rw [addCert_cSkip]; simp only [List.any_cons, Bool.or_eq_true] at a
        rcases a with a | a
        · left; simp [a]
        · right; exact a
    · intro hq; rw [h5] at hq
      rcases p.tFin hq with a | a
      · left; rw [addCert_cFin]; simp [a]
      · rw [addCert_cFin]; simp only [List.any_cons, Bool.or_eq_true] at a
        rcases a with a | a
        · left; simp [a]
        · right; exact a

theorem addCert_core (st : SlotState) (c : Cert) : (st.addCert c).core = (st.core.addCert c).core := by
  unfold SlotState.addCert
  cases c.kind <;> dsimp only
  · rfl
  · show (if st.isNf c.hash = true then st else _).core = (if st.isNf c.hash = true then st.core else _).core
    split <;> rfl
  all_goals rfl

theorem addCerts_coreEq (cs : List Cert) (a b : SlotState) (h : CoreEq a b) :
    CoreEq (cs.foldl SlotState.addCert a) (cs.foldl SlotState.addCert b) := by
  induction cs generalizing a b with
  | nil => exact h
  | cons c cs ih =>
    apply ih
    constructor
    rw [addCert_core a, addCert_core b, h.eq]

theorem any_singleton_cert (c : Cert) (p : Cert → Bool) : [c].any p = p c := by simp

/-! projections of the stored state -/
theorem stored_cNotar (e : Epoch) (st : SlotState) (v : Vote) : (st.stored e v).cNotar = st.cNotar := by
  unfold SlotState.stored; cases v.kind <;> rfl
theorem stored_cFf (e : Epoch) (st : SlotState) (v : Vote) : (st.stored e v).cFf = st.cFf := by
  unfold SlotState.stored; cases v.kind <;> rfl
theorem stored_cSkip (e : Epoch) (st : SlotState) (v : Vote) : (st.stored e v).cSkip = st.cSkip := by
  unfold SlotState.stored; cases v.kind <;> rfl
theorem stored_cFin (e : Epoch) (st : SlotState) (v : Vote) : (st.stored e v).cFin = st.cFin := by
  unfold SlotState.stored; cases v.kind <;> rfl
theorem stored_isNf (e : Epoch) (st : SlotState) (v : Vote) (h : Nat) : (st.stored e v).isNf h = st.isNf h := by
  unfold SlotState.stored; cases v.kind <;> rfl
theorem stored_slot (e : Epoch) (st : SlotState) (v : Vote) : (st.stored e v).slot = st.slot := by
  unfold SlotState.stored; cases v.kind <;> rfl
theorem stored_sNotar (e : Epoch) (st : SlotState) (v : Vote) :
    (st.stored e v).sNotar = if v.kind = .notar then addTo st.sNotar v.hash (e.stake v.signer) else st.sNotar := by
  unfold SlotState.stored; cases v.kind <;> rfl
theorem stored_sNf (e : Epoch) (st : SlotState) (v : Vote) :
    (st.stored e v).sNf = if v.kind = .nf then addTo st.sNf v.hash (e.stake v.signer) else st.sNf := by
  unfold SlotState.stored; cases v.kind <;> rfl
theorem stored_sSkip (e : Epoch) (st : SlotState) (v : Vote) :
    (st.stored e v).sSkip = if v.kind = .skip then st.sSkip + e.stake v.signer else st.sSkip := by
  unfold SlotState.stored; cases v.kind <;> rfl
theorem stored_sSf (e : Epoch) (st : SlotState) (v : Vote) :
    (st.stored e v).sSf = if v.kind = .sf then st.sSf + e.stake v.signer else st.sSf := by
  unfold SlotState.stored; cases v.kind <;> rfl
theorem stored_sFin (e : Epoch) (st : SlotState) (v : Vote) :
    (st.stored e v).sFin = if v.kind = .final then st.sFin + e.stake v.signer else st.sFin := by
  unfold SlotState.stored; cases v.kind <;> rfl

theorem isNone_of_not_isSome {α : Type} (o : Option α) (h : ¬ o.isSome = true) : o.isNone = true := by
  cases o <;> simp_all

theorem pending_stored (e : Epoch) (st : SlotState) (v : Vote) (i : InvT e st) :
    Pending e (st.stored e v) ((st.stored e v).newCerts e v) := by
  constructor
  · -- notar cert
    intro h hq
    rw [stored_cNotar]
    by_cases hc : st.cNotar.isSome = true
    · left; exact hc
    · rw [stored_sNotar] at hq
      by_cases hk : v.kind = .notar
      · by_cases hh : h = v.hash
        · subst hh
          right
          simp only [SlotState.newCerts, hk, notarCertsOn, List.any_append, Bool.or_eq_true]
          left; right
          rw [stored_sNotar, stored_cNotar]
          simp only [hq, isNone_of_not_isSome _ hc, Bool.and_self, if_true, any_singleton_cert, notarCertOf]; rfl
        · left
          simp only [hk, if_true] at hq
          rw [lookupD_addTo] at hq; simp only [hh, if_false, Nat.add_zero] at hq
          exact i.tNotar h hq
      · simp only [hk, if_false] at hq
        left; exact i.tNotar h hq
  · -- fast-final cert
    intro h hq
    rw [stored_cFf]
    by_cases hc : st.cFf.isSome = true
    · left; exact hc
    · rw [stored_sNotar] at hq
      by_cases hk : v.kind = .notar
      · by_cases hh : h = v.hash
        · subst hh
          right
          simp only [SlotState.newCerts, hk, notarCertsOn, List.any_append, Bool.or_eq_true]
          right
          rw [stored_sNotar, stored_cFf]
          simp only [hq, isNone_of_not_isSome _ hc, Bool.and_self, if_true, any_singleton_cert, ffCertOf]; rfl
        · left
          simp only [hk, if_true] at hq
          rw [lookupD_addTo] at hq; simp only [hh, if_false, Nat.add_zero] at hq
          exact i.tFf h hq
      · simp only [hk, if_false] at hq
        left; exact i.tFf h hq
  · -- notar-fallback cert
    intro h hq
    rw [stored_isNf]
    by_cases hc : st.isNf h = true
    · left; exact hc
    · have hnn : (!st.isNf h) = true := by simpa using hc
      rw [stored_sNotar, stored_sNf] at hq
      by_cases hk : v.kind = .notar
      · have hk2 : ¬ v.kind = .nf := by rw [hk]; decide
        simp only [hk, hk2, if_true, if_false] at hq
        by_cases hh : h = v.hash
        · subst hh
          right
          simp only [SlotState.newCerts, hk, notarCertsOn, List.any_append, Bool.or_eq_true]
          left; left
          rw [stored_sNotar, stored_sNf, stored_isNf]
          simp only [hk, hk2, if_true, if_false, hq, hnn, Bool.and_self, any_singleton_cert, mkNfCert]; simp
        · left
          rw [lookupD_addTo] at hq; simp only [hh, if_false, Nat.add_zero] at hq
          exact i.tNf h hq
      · by_cases hk2 : v.kind = .nf
        · simp only [hk, hk2, if_true, if_false] at hq
          by_cases hh : h = v.hash
          · subst hh
            right
            simp only [SlotState.newCerts, hk2, nfCertsOn]
            rw [stored_sNotar, stored_sNf, stored_isNf]
            simp only [hk, hk2, if_true, if_false, hq, hnn, Bool.and_self, any_singleton_cert, mkNfCert]; simp
          · left
            rw [lookupD_addTo] at hq; simp only [hh, if_false, Nat.add_zero] at hq
            exact i.tNf h hq
        · simp only [hk, hk2, if_false] at hq
          left; exact i.tNf h hq
  · -- skip cert
    intro hq
    rw [stored_cSkip]
    by_cases hc : st.cSkip.isSome = true
    · left; exact hc
    · rw [stored_sSkip, stored_sSf] at hq
      by_cases hk : v.kind = .skip
      · right
        simp only [SlotState.newCerts, hk, skipCertsOn]
        rw [stored_sSkip, stored_sSf, stored_cSkip]
        simp only [hq, isNone_of_not_isSome _ hc, Bool.and_self, if_true, any_singleton_cert, skipCertOf]; rfl
      · by_cases hk2 : v.kind = .sf
        · right
          simp only [SlotState.newCerts, hk2, skipCertsOn]
          rw [stored_sSkip, stored_sSf, stored_cSkip]
          simp only [hq, isNone_of_not_isSome _ hc, Bool.and_self, if_true, any_singleton_cert, skipCertOf]; rfl
        · simp only [hk, hk2, if_false] at hq
          left; exact i.tSkip hq
  · -- final cert
    intro hq
    rw [stored_cFin]
    by_cases hc : st.cFin.isSome = true
    · left; exact hc
    · rw [stored_sFin] at hq
      by_cases hk : v.kind = .final
      · right
        simp only [SlotState.newCerts, hk, finCertsOn]
        rw [stored_sFin, stored_cFin]
        simp only [hq, isNone_of_not_isSome _ hc, Bool.and_self, if_true, any_singleton_cert, finCertOf]; rfl
      · simp only [hk, if_false] at hq
        left; exact i.tFin hq

/-! ### the invariant over every slot-local step and history -/

theorem adm_of_not_refused (st : SlotState) (v : Vote)
    (h : ¬ ((st.checkSlashable v).isSome || st.shouldIgnore v) = true) : Adm st v := by
  simp only [Bool.or_eq_true, not_or, Bool.not_eq_true] at h
  refine ⟨?_, h.2⟩
  cases hx : st.checkSlashable v
  · rfl
  · simp [hx] at h

theorem notifyParentCertified_core (e : Epoch) (st : SlotState) (h : Nat) (s : SlotState) (evs : List Event)
    (hn : st.notifyParentCertified e h = some (s, evs)) : CoreEq st s := by
  unfold SlotState.notifyParentCertified at hn
  split at hn
  · cases hn
  · dsimp only at hn
    split at hn
    · cases hn; exact ⟨rfl⟩
    · cases hn
      constructor
      rw [checkS2N_core]
      rfl

theorem slotStep_Inv (e : Epoch) (st : SlotState) (op : SlotOp) (i : Inv e st) : Inv e (slotStep e st op).1 := by
  obtain ⟨iv, it⟩ := i
  cases op with
  | vote v =>
    simp only [slotStep]
    split
    · exact ⟨iv, it⟩
    · rename_i hr
      have ha := adm_of_not_refused st v hr
      have hce := addVote_core e st v
      constructor
      · apply InvV_addCerts
        exact (stored_InvV e st v iv ha).of_coreEq hce.symm
      · rw [addVote_certs]
        have := InvT_of_pending e _ _ (pending_stored e st v it)
        exact this.of_coreEq (addCerts_coreEq _ _ _ hce.symm)
  | cert c =>
    simp only [slotStep]
    split
    · exact ⟨iv, it⟩
    · exact ⟨InvV_addCert e st c iv, InvT_addCert e st c it⟩
  | parentKnown h =>
    simp only [slotStep, SlotState.notifyParentKnown]
    split
    · exact ⟨iv, it⟩
    · have hc : CoreEq st { st with parents := st.parents ++ [(h, false)] } := ⟨rfl⟩
      exact ⟨iv.of_coreEq hc, it.of_coreEq hc⟩
  | parentCertified h =>
    simp only [slotStep]
    split
    · exact ⟨iv, it⟩
    · rename_i s evs hn
      have hc := notifyParentCertified_core e st h s evs hn
      exact ⟨iv.of_coreEq hc, it.of_coreEq hc⟩

theorem slotRun_Inv (e : Epoch) (ops : List SlotOp) (st : SlotState) (i : Inv e st) : Inv e (slotRun e st ops).1 := by
  induction ops generalizing st with
  | nil => exact i
  | cons op ops ih => exact ih _ (slotStep_Inv e st op i)

end AgModel.Pool
